package main

import (
	"fmt"
	"strconv"
	"strings"

	sdk "github.com/cosmos/cosmos-sdk/types"

	"verifharness/hlib"
)

const (
	tTM  = "07-tendermint"
	tBSC = "bsc"
	tETH = "eth"
	tTSS = "tss"
)

func us(v uint64) string { return strconv.FormatUint(v, 10) }

// chain names: all character classes of host.IsValidID, names that are prefixes of one another (store order of
// "clients/<name>/..." differs from the order of the names: '-' '.' '+' '#' sort before '/'), minimum and maximum length
var names = []string{"abc", "abc-1", "abc.x", "abc+", "ab#", "x[1]", "a<b>", "eth.main", "bsc-chain", "tss_1", "Z9z", "abcd",
	strings.Repeat("n", 64), "abc-10", "rem0te"}

var patBytes = []byte{0x2f, 0x00, 0xff}

// heights / revision numbers from byte patterns: 0x2F, 0x00, 0xFF in every position
func patU64(r *hlib.Rand) uint64 {
	switch r.Intn(10) {
	case 0:
		return 47
	case 1:
		return 303
	case 2:
		return 12032 // 0x2F00
	case 3:
		return ^uint64(0)
	case 4: // one pattern byte at a random position, the other bytes zero
		return uint64(patBytes[r.Intn(3)]) << (8 * uint(r.Intn(8)))
	case 5: // one pattern byte at a random position inside a random value
		v := r.U64()
		pos := uint(r.Intn(8))
		v &^= uint64(0xff) << (8 * pos)
		return v | uint64(patBytes[r.Intn(3)])<<(8*pos)
	case 6: // every byte from the pattern set
		var v uint64
		for i := 0; i < 8; i++ {
			v = v<<8 | uint64(patBytes[r.Intn(3)])
		}
		return v
	case 7:
		return 0x2f2f2f2f2f2f2f2f
	case 8:
		return uint64(1 + r.Intn(300))
	default:
		return r.U64()
	}
}

func patRev(r *hlib.Rand) uint64 {
	switch r.Intn(6) {
	case 0:
		return 0
	case 1:
		return 1
	case 2:
		return 47
	case 3:
		return 303
	default:
		return patU64(r)
	}
}

func relayerAddr(i int) string {
	return sdk.AccAddress(append([]byte("verif-c13-relayer-x"), byte(i))).String()
}

// ---------------------------------------------------------------------------------------------
// corpus: the witnesses of the repaired defects and of the refuted statements, run first on every check

func corpus() []Spec {
	var out []Spec
	add := func(tag string, ops ...Op) { out = append(out, Spec{Kind: "history", Tag: tag, Ops: ops, Corpus: true}) }
	wc := func(name string, rev, h uint64, n int) Op { return Op{K: "write_cons", Name: name, Rev: us(rev), H: us(h), N: n} }

	// D7: heights / revisions whose big-endian bytes contain 0x2F (Tendermint client: consensus state, processed time, iteration key)
	add("split-heights-tm", Op{K: "create", Name: "tendermint-0", T: tTM, Rev: "303", H: "303"},
		wc("tendermint-0", 0, 5, 1), wc("tendermint-0", 0, 47, 2), wc("tendermint-0", 0, 303, 3), wc("tendermint-0", 0, 0x2f00, 4),
		wc("tendermint-0", 0, 0x2f2f2f2f2f2f2f2f, 5), wc("tendermint-0", 47, 9, 6), wc("tendermint-0", 0x2f00000000000000, ^uint64(0), 7),
		wc("tendermint-0", 1, 48, 8), wc("tendermint-0", 0x2f636c69, 0x656e745374617465, 9),
		// consensus state keys whose 16 height bytes END in a metadata suffix: ".../processedTime" (revision low bytes "/proce",
		// height "ssedTime"), and the same below another revision high part; a height that reads "/clientState"
		wc("tendermint-0", 0x2f70726f6365, 0x7373656454696d65, 10), wc("tendermint-0", 0xffff2f70726f6365, 0x7373656454696d65, 11),
		wc("tendermint-0", 0x2f70726f6365, 0x7373656454696d66, 12))
	// D7 on the EVM clients: a BSC client updated through height 815 = 0x032F, an ETH client at 0x2F00
	add("split-heights-bsc", Op{K: "create", Name: "bsc-chain", T: tBSC, Rev: "0", H: "800", Epoch: 200, Vals: 1}, Op{K: "update", Name: "bsc-chain", N: 16},
		wc("bsc-chain", 47, 12032, 3))
	add("split-heights-eth", Op{K: "create", Name: "eth.main", T: tETH, Rev: "47", H: "12030"}, Op{K: "update", Name: "eth.main", N: 4}, wc("eth.main", 0, 303, 2))
	// D8: a real Tendermint client with real updates (iteration keys), real packet traffic
	add("tm-real", Op{K: "tm_setup"}, Op{K: "tm_update", N: 3}, Op{K: "send", N: 3}, Op{K: "relay"}, Op{K: "relay", B: true}, Op{K: "recv", N: 2})
	// D9: any ETH client
	add("eth-client", Op{K: "create", Name: "eth-chain", T: tETH, Rev: "0", H: "100"}, Op{K: "update", Name: "eth-chain", N: 3})
	// G1: UpgradeClient on a TSS client; TSS traffic
	add("tss-upgrade", Op{K: "create", Name: "tss-chain", T: tTSS, N: 1}, Op{K: "upgrade", Name: "tss-chain", T: tTSS, N: 2}, Op{K: "update", Name: "tss-chain", N: 1},
		Op{K: "tss_recv", Name: "tss-chain", N: 1}, Op{K: "tss_recv", Name: "tss-chain", N: 47})
	// OBS-1: EVM clients anchored at block 0
	add("eth-at-zero", Op{K: "create", Name: "eth-chain", T: tETH, Rev: "0", H: "0"})
	add("bsc-at-zero", Op{K: "create", Name: "bsc-chain", T: tBSC, Rev: "0", H: "0", Epoch: 200, Vals: 1}, Op{K: "update", Name: "bsc-chain", N: 2})
	// OBS-2: epoch header without validators
	add("bsc-no-validators", Op{K: "create", Name: "bsc-chain", T: tBSC, Rev: "0", H: "200", Epoch: 200, Vals: 0})
	// O6: toggles away from every type that keeps consensus states / metadata
	add("toggle-tm-tss", Op{K: "create", Name: "chain-x", T: tTM, Rev: "1", H: "42"}, wc("chain-x", 1, 47, 1), Op{K: "toggle", Name: "chain-x", T: tTSS, N: 3})
	add("toggle-bsc-tm", Op{K: "create", Name: "chain-x", T: tBSC, Rev: "0", H: "200", Epoch: 200, Vals: 1}, Op{K: "update", Name: "chain-x", N: 2},
		Op{K: "toggle", Name: "chain-x", T: tTM, Rev: "2", H: "7"})
	add("toggle-eth-bsc", Op{K: "create", Name: "chain-x", T: tETH, Rev: "0", H: "100"}, Op{K: "update", Name: "chain-x", N: 2},
		Op{K: "toggle", Name: "chain-x", T: tBSC, Rev: "0", H: "400", Epoch: 200, Vals: 2})
	add("toggle-tss-eth-tm", Op{K: "create", Name: "chain-x", T: tTSS, N: 1}, Op{K: "toggle", Name: "chain-x", T: tETH, Rev: "0", H: "47"},
		Op{K: "toggle", Name: "chain-x", T: tTM, Rev: "47", H: "47"})
	// all four types side by side, names that are prefixes of one another, relayers, parameters
	add("four-types", Op{K: "create", Name: "abc", T: tTM, Rev: "47", H: "303"}, Op{K: "create", Name: "abc-1", T: tBSC, Rev: "0", H: "45", Epoch: 5, Vals: 1},
		Op{K: "create", Name: "abc.x", T: tETH, Rev: "0", H: "46"}, Op{K: "create", Name: "abc+", T: tTSS, N: 4}, Op{K: "update", Name: "abc-1", N: 6},
		Op{K: "update", Name: "abc.x", N: 2}, Op{K: "upgrade", Name: "abc", T: tTM, Rev: "47", H: "12032"},
		Op{K: "relayer", Addr: relayerAddr(1), List: []string{"abc", "abc-1"}, List2: []string{"0x01", "cosmos1xyz"}},
		Op{K: "relayer", Addr: relayerAddr(2), List: []string{"abc+"}, List2: []string{""}},
		Op{K: "rv_params", B: true, List: []string{"atele", "5", "stake", "0"}}, Op{K: "agg_params", N: 1, B: false})
	// ResetStates (upgrade handler): only the native chain name survives; clients created afterwards
	add("reset", Op{K: "create", Name: "abc", T: tTM, Rev: "1", H: "47"}, wc("abc", 1, 303, 2), Op{K: "chain_name", Name: "tele.port"},
		Op{K: "relayer", Addr: relayerAddr(3), List: []string{"abc"}, List2: []string{"0x01"}}, Op{K: "reset"},
		Op{K: "create", Name: "abc", T: tETH, Rev: "0", H: "47"}, Op{K: "update", Name: "abc", N: 2})
	// registry content: module-owned and external pairs, several denominations, a disabled pair, a replaced contract
	add("registry", Op{K: "agg_regcoin", Name: "ucoin"}, Op{K: "agg_deploy", N: 1}, Op{K: "agg_regerc20", N: 0}, Op{K: "agg_addcoin", Name: "ibc/" + strings.Repeat("AB", 32), N: 0},
		Op{K: "agg_addcoin", Name: "second-denom", N: 1}, Op{K: "agg_toggle", N: 0}, Op{K: "agg_deploy", N: 1}, Op{K: "agg_update", N: 0, Rev: "1", B: true},
		Op{K: "agg_regcoin", Name: "Zed9-coin"}, Op{K: "agg_deploy", N: 2}, Op{K: "agg_regerc20", N: 2})

	// genesis inputs (aggregate): valid, and the shapes Validate must reject
	gadd := func(tag string, pairs ...PairIn) { out = append(out, Spec{Kind: "genesis", Tag: tag, Gen: &GenIn{Pairs: pairs, AggParams: [2]bool{true, true}}}) }
	a1, a1l := "0xAbCdEF0123456789abcdef0123456789ABCDEF01", "0xabcdef0123456789abcdef0123456789abcdef01"
	a2, a3 := "0x00000000000000000000000000000000000000a2", "0x00000000000000000000000000000000000000A3"
	gadd("gen-valid", PairIn{a1, []string{"coin", "ibc/XYZ"}, true, 1}, PairIn{a2, []string{"aggregate/0x00"}, false, 2})
	gadd("gen-two-spellings", PairIn{a1, []string{"coin"}, true, 1}, PairIn{a1l, []string{"other"}, true, 1})
	gadd("gen-two-spellings-rev", PairIn{a1l, []string{"other"}, true, 1}, PairIn{a1, []string{"coin"}, true, 1})
	gadd("gen-shared-denom", PairIn{a2, []string{"first", "shared"}, true, 1}, PairIn{a3, []string{"shared"}, true, 2})
	gadd("gen-shared-denom-rev", PairIn{a3, []string{"shared"}, true, 2}, PairIn{a2, []string{"first", "shared"}, true, 1})
	gadd("gen-shared-denom-inner", PairIn{a2, []string{"first", "shared"}, true, 1}, PairIn{a3, []string{"third", "shared"}, true, 2})
	gadd("gen-no-denoms", PairIn{a2, []string{}, true, 1})
	gadd("gen-no-denoms-disabled", PairIn{a3, []string{"coin"}, true, 1}, PairIn{a2, []string{}, false, 2})
	gadd("gen-dup-inside", PairIn{a2, []string{"coin", "coin"}, true, 1})
	gadd("gen-hex-denom", PairIn{a2, []string{"abcdef0123456789abcdef0123456789abcdef01"}, true, 1})
	gadd("gen-bad-address", PairIn{"0x1234", []string{"coin"}, true, 1})
	gadd("gen-bad-denom", PairIn{a2, []string{"coin", "1x"}, true, 1})
	gadd("gen-same-address", PairIn{a2, []string{"coin"}, true, 1}, PairIn{a2, []string{"other"}, true, 1})
	out = append(out, xibcCorpus()...)
	for i := range out {
		out[i].ID = i
	}
	return out
}

// ---------------------------------------------------------------------------------------------
// random cases

type gen struct {
	r       *hlib.Rand
	ops     []Op
	clients map[string]string // name -> type
	order   []string
	coins   int
	deploys int
	pairs   int
}

func (g *gen) add(o Op) { g.ops = append(g.ops, o) }

func (g *gen) pickType() string { return []string{tTM, tBSC, tETH, tTSS}[g.r.Intn(4)] }

func (g *gen) stateOp(k, name, t string) Op {
	r := g.r
	op := Op{K: k, Name: name, T: t}
	switch t {
	case tBSC:
		op.Epoch = []uint64{200, 5, 1}[r.Intn(3)]
		h := patU64(r) % (1 << 40)
		h -= h % op.Epoch
		if r.Chance(1, 6) {
			h = 0
		}
		op.H, op.Rev = us(h), us([]uint64{0, 0, 47, 1}[r.Intn(4)])
		op.Vals = 1 + r.Intn(3)
		if r.Chance(1, 8) {
			op.Vals = 0
		}
	case tETH:
		h := patU64(r) % (1 << 40)
		if r.Chance(1, 6) {
			h = 0
		}
		op.H, op.Rev = us(h), us([]uint64{0, 0, 47, 303}[r.Intn(4)])
	case tTSS:
		op.N = r.Intn(20)
	default:
		h := patU64(r)
		if h == 0 {
			h = 1
		}
		op.H, op.Rev = us(h), us(patRev(r))
	}
	return op
}

func (g *gen) someClient() (string, string, bool) {
	if len(g.order) == 0 {
		return "", "", false
	}
	n := g.order[g.r.Intn(len(g.order))]
	return n, g.clients[n], true
}

func (g *gen) step() {
	r := g.r
	switch r.Intn(20) {
	case 0, 1, 2: // create
		name := names[r.Intn(len(names))]
		if _, ok := g.clients[name]; ok {
			return
		}
		t := g.pickType()
		g.add(g.stateOp("create", name, t))
		g.clients[name] = t
		g.order = append(g.order, name)
	case 3, 4: // update
		if n, t, ok := g.someClient(); ok && t != tTM {
			g.add(Op{K: "update", Name: n, N: 1 + r.Intn(5), Vals: r.Intn(3)})
		}
	case 5: // upgrade (same type)
		if n, t, ok := g.someClient(); ok {
			g.add(g.stateOp("upgrade", n, t))
		}
	case 6: // toggle
		if n, t, ok := g.someClient(); ok {
			nt := g.pickType()
			if nt != t {
				g.add(g.stateOp("toggle", n, nt))
				g.clients[n] = nt
			}
		}
	case 7, 8, 9, 10: // consensus states at pattern heights
		if n, t, ok := g.someClient(); ok && t != tTSS {
			for i := 1 + r.Intn(4); i > 0; i-- {
				g.add(Op{K: "write_cons", Name: n, Rev: us(patRev(r)), H: us(patU64(r)), N: 1 + r.Intn(200)})
			}
		}
	case 11: // real Tendermint client + traffic
		switch r.Intn(5) {
		case 0:
			g.add(Op{K: "tm_update", N: 1 + r.Intn(3)})
		case 1:
			g.add(Op{K: "send", N: 1 + r.Intn(3)})
		case 2:
			g.add(Op{K: "relay", B: r.Chance(1, 3)})
		case 3:
			g.add(Op{K: "recv", N: 1 + r.Intn(2)})
		default:
			g.add(Op{K: "tm_setup"})
		}
	case 12:
		if n, t, ok := g.someClient(); ok && t == tTSS {
			g.add(Op{K: "tss_recv", Name: n, N: int(patU64(r) % 100000)})
		}
	case 13:
		k := 1 + r.Intn(3)
		var cs, as []string
		for i := 0; i < k; i++ {
			cs = append(cs, names[r.Intn(len(names))])
			as = append(as, []string{"0x01", "", "addr-" + strconv.Itoa(i), strings.Repeat("f", 40)}[r.Intn(4)])
		}
		g.add(Op{K: "relayer", Addr: relayerAddr(r.Intn(5)), List: cs, List2: as})
	case 14:
		denoms := []string{"atele", "stake", "ufoo", "a/b-c", "Zed9"}
		var l []string
		first := r.Intn(5)
		for i, n := 0, 1+r.Intn(3); i < n; i++ {
			l = append(l, denoms[(first+i)%5], strconv.Itoa(r.Intn(1000)))
		}
		g.add(Op{K: "rv_params", B: r.Bool(), List: l})
	case 15:
		g.add(Op{K: "agg_params", N: r.Intn(2), B: r.Bool()})
	case 16:
		g.coins++
		g.add(Op{K: "agg_regcoin", Name: []string{"ucoin", "ibc/" + strings.Repeat("0", 62) + "A", "ab-c", "Zed9x"}[r.Intn(4)] + strconv.Itoa(g.coins%10)})
		g.pairs++
	case 17:
		g.deploys++
		g.add(Op{K: "agg_deploy", N: r.Intn(2)})
		if r.Bool() {
			g.add(Op{K: "agg_regerc20", N: g.deploys - 1})
			g.pairs++
		}
	case 18:
		if g.pairs > 0 {
			switch r.Intn(3) {
			case 0:
				g.coins++
				g.add(Op{K: "agg_addcoin", Name: "extra" + strconv.Itoa(g.coins), N: r.Intn(g.pairs)})
			case 1:
				g.add(Op{K: "agg_toggle", N: r.Intn(g.pairs)})
			default:
				if g.deploys > 0 {
					g.add(Op{K: "agg_update", N: r.Intn(g.pairs), Rev: strconv.Itoa(r.Intn(g.deploys))})
				}
			}
		}
	default:
		if r.Chance(1, 4) {
			g.add(Op{K: "chain_name", Name: names[r.Intn(len(names))]})
		} else if r.Chance(1, 6) {
			g.add(Op{K: "reset"})
			g.clients, g.order = map[string]string{}, nil
		} else {
			g.add(Op{K: "commit"})
		}
	}
}

func genHistory(r *hlib.Rand, id int) Spec {
	g := &gen{r: r, clients: map[string]string{}}
	n := 5 + r.Intn(10)
	for i := 0; i < 60 && len(g.ops) < n; i++ {
		g.step()
	}
	return Spec{ID: id, Kind: "history", Tag: "random", Ops: g.ops}
}

func genGenesis(r *hlib.Rand, id int) Spec {
	addrs := []string{"0xAbCdEF0123456789abcdef0123456789ABCDEF01", "0xabcdef0123456789abcdef0123456789abcdef01", "ABCDEF0123456789ABCDEF0123456789ABCDEF01",
		"0x00000000000000000000000000000000000000a2", "0x00000000000000000000000000000000000000A3", "0x1234", "", "0X00000000000000000000000000000000000000a2"}
	denoms := []string{"coin", "ibc/XYZ", "shared", "other", "a/b-c", "1x", "ab", "abcdef0123456789abcdef0123456789abcdef01", "third", "Zed9"}
	g := &GenIn{AggParams: [2]bool{r.Bool(), r.Bool()}}
	for i, n := 0, 1+r.Intn(4); i < n; i++ {
		p := PairIn{Erc20: addrs[r.Intn(5)], Denoms: []string{}, Enabled: r.Bool(), Owner: r.Intn(3)}
		if r.Chance(1, 8) {
			p.Erc20 = addrs[r.Intn(len(addrs))]
		}
		for j, m := 0, r.Intn(4); j < m; j++ {
			if r.Chance(1, 10) {
				p.Denoms = append(p.Denoms, denoms[r.Intn(len(denoms))])
			} else {
				p.Denoms = append(p.Denoms, fmt.Sprintf("%s%d", denoms[r.Intn(5)], r.Intn(3)))
			}
		}
		g.Pairs = append(g.Pairs, p)
	}
	return Spec{ID: id, Kind: "genesis", Tag: "random-genesis", Gen: g}
}

func generate(seed uint64, n int) []Spec {
	out := corpus()
	root := hlib.NewRand(seed)
	for i := 0; i < n; i++ {
		r := root.Fork(uint64(i))
		id := len(out)
		if i%5 == 4 {
			out = append(out, genGenesis(r, id))
		} else if i%5 == 2 {
			out = append(out, genXibcGenesis(r, id))
		} else {
			out = append(out, genHistory(r, id))
		}
	}
	return out
}
