package main

import (
	"bytes"
	"crypto/sha256"
	"encoding/json"
	"fmt"
	"sort"
	"strconv"

	abci "github.com/tendermint/tendermint/abci/types"
	"github.com/tendermint/tendermint/libs/log"
	dbm "github.com/tendermint/tm-db"

	"github.com/cosmos/cosmos-sdk/simapp"
	sdk "github.com/cosmos/cosmos-sdk/types"

	"github.com/ethereum/go-ethereum/common"

	"github.com/tharsis/ethermint/encoding"

	"github.com/teleport-network/teleport/app"
	"github.com/teleport-network/teleport/x/aggregate"
	aggtypes "github.com/teleport-network/teleport/x/aggregate/types"
	rvtypes "github.com/teleport-network/teleport/x/rvesting/types"
	"github.com/teleport-network/teleport/x/xibc"
	bsctypes "github.com/teleport-network/teleport/x/xibc/clients/light-clients/bsc/types"
	ethtypes "github.com/teleport-network/teleport/x/xibc/clients/light-clients/eth/types"
	tmtypes "github.com/teleport-network/teleport/x/xibc/clients/light-clients/tendermint/types"
	tsstypes "github.com/teleport-network/teleport/x/xibc/clients/tss-client/types"
	clienttypes "github.com/teleport-network/teleport/x/xibc/core/client/types"
	"github.com/teleport-network/teleport/x/xibc/core/host"
	packettypes "github.com/teleport-network/teleport/x/xibc/core/packet/types"
	"github.com/teleport-network/teleport/x/xibc/exported"
	xibctypes "github.com/teleport-network/teleport/x/xibc/types"

	"verifharness/hlib"
)

// ---------------------------------------------------------------------------------------------
// observables (every byte string is hex)

type KV [2]string

type RvP struct {
	Enable  bool        `json:"enable"`
	Rewards [][2]string `json:"rewards"` // denom (hex), amount (decimal)
}

type Dump struct {
	Xibc      []KV    `json:"xibc"`
	Agg       []KV    `json:"agg"`
	AggParams [2]bool `json:"agg_params"`
	Rv        RvP     `json:"rv"`
}

type ConsGroup struct {
	Name   string      `json:"name"`
	States [][3]string `json:"states"` // revision (decimal), height (decimal), value (hex)
}
type MetaGroup struct {
	Name string `json:"name"`
	KVs  []KV   `json:"kvs"`
}
type RelP struct {
	Address   string   `json:"address"`
	Chains    []string `json:"chains"`
	Addresses []string `json:"addresses"`
}
type PktP struct {
	Src  string `json:"src"`
	Dst  string `json:"dst"`
	Seq  string `json:"seq"`
	Data string `json:"data"`
	Nil  bool   `json:"nil"` // Data == nil after the JSON round trip
}
type PairP struct {
	Erc20   string   `json:"erc20"`
	Denoms  []string `json:"denoms"`
	Enabled bool     `json:"enabled"`
	Owner   int      `json:"owner"`
}

type GenProj struct {
	Clients     []KV        `json:"clients"` // chain name, marshalled client state (as SetClientState writes it)
	Consensus   []ConsGroup `json:"consensus"`
	Metadata    []MetaGroup `json:"metadata"`
	Native      string      `json:"native"`
	Relayers    []RelP      `json:"relayers"`
	Acks        []PktP      `json:"acks"`
	Commitments []PktP      `json:"commitments"`
	Receipts    []PktP      `json:"receipts"`
	SendSeqs    []PktP      `json:"send_seqs"`
	AggParams   [2]bool     `json:"agg_params"`
	Pairs       []PairP     `json:"pairs"`
	Rv          RvP         `json:"rv"`
}

type ValObs struct {
	Xibc int    `json:"xibc"` // 0 accepted, 1 rejected, 2 panic
	Agg  int    `json:"agg"`
	Rv   int    `json:"rv"`
	Err  string `json:"err,omitempty"` // diagnostics only, never compared
}

// decoding tables: the oracles of the model, tabulated from the real code
type StateRow struct {
	Value string `json:"v"`
	Type  string `json:"t"`  // ClientType() as the real method reports it
	Conc  string `json:"c"`  // the concrete Go type (which light client package the value belongs to)
	Valid bool   `json:"ok"` // Validate() / ValidateBasic() == nil
}
type RelRow struct {
	Value string `json:"v"`
	Rel   RelP   `json:"r"`
}
type PairRow struct {
	Value string `json:"v"`
	Pair  PairP  `json:"p"`
}
type Tables struct {
	CS   []StateRow  `json:"cs"`
	Cons []StateRow  `json:"cons"`
	Rel  []RelRow    `json:"rel"`
	TP   []PairRow   `json:"tp"`
	Sha  [][2]string `json:"sha"`  // input, sha256(input)
	Addr [][2]string `json:"addr"` // text, common.HexToAddress(text).Bytes()
	Hex  [][2]string `json:"hexaddr"` // text, "1"/"0" = common.IsHexAddress(text)
	Den  [][2]string `json:"denom"`   // text, "1"/"0" = sdk.ValidateDenom(text) == nil
	Name [][2]string `json:"name"`    // text, "1"/"0" = host.ClientIdentifierValidator(text) == nil
	Acc  [][2]string `json:"acc"`     // text, "1"/"0" = sdk.AccAddressFromBech32(text) returns no error
}

func hx(b []byte) string  { return hlib.Hex(b) }
func hs(s string) string  { return hlib.Hex([]byte(s)) }
func b01(b bool) string {
	if b {
		return "1"
	}
	return "0"
}

// ---------------------------------------------------------------------------------------------
// dumping

func dumpStore(ctx sdk.Context, a *app.Teleport, key string) []KV {
	out := []KV{}
	it := ctx.KVStore(a.GetKey(key)).Iterator(nil, nil)
	defer it.Close()
	for ; it.Valid(); it.Next() {
		out = append(out, KV{hx(it.Key()), hx(it.Value())})
	}
	return out
}

func rvProj(p rvtypes.Params) RvP {
	r := RvP{Enable: p.EnableVesting, Rewards: [][2]string{}}
	for _, c := range p.PerBlockReward {
		amt := "nil"
		if !c.Amount.IsNil() {
			amt = c.Amount.String()
		}
		r.Rewards = append(r.Rewards, [2]string{hs(c.Denom), amt})
	}
	return r
}

func dumpAll(ctx sdk.Context, a *app.Teleport) *Dump {
	ap := a.AggregateKeeper.GetParams(ctx)
	return &Dump{
		Xibc:      dumpStore(ctx, a, host.StoreKey),
		Agg:       dumpStore(ctx, a, aggtypes.StoreKey),
		AggParams: [2]bool{ap.EnableAggregate, ap.EnableEVMHook},
		Rv:        rvProj(a.RVestingKeeper.GetParams(ctx)),
	}
}

// ---------------------------------------------------------------------------------------------
// export -> JSON

type Sections struct {
	Xibc, Agg, Rv json.RawMessage
}

// module by module, the way each AppModule.ExportGenesis does
func exportModules(ctx sdk.Context, a *app.Teleport) Sections {
	cdc := a.AppCodec()
	return Sections{
		Xibc: cdc.MustMarshalJSON(xibc.ExportGenesis(ctx, *a.XIBCKeeper)),
		Agg:  cdc.MustMarshalJSON(aggregate.ExportGenesis(ctx, *a.AggregateKeeper)),
		Rv:   cdc.MustMarshalJSON(a.RVestingKeeper.ExportGenesis(ctx)),
	}
}

// app/export.go: ExportAppStateAndValidators (reads the last COMMITTED state)
func exportApp(a *app.Teleport) (Sections, error) {
	ex, err := a.ExportAppStateAndValidators(false, nil)
	if err != nil {
		return Sections{}, err
	}
	var m map[string]json.RawMessage
	if err := json.Unmarshal(ex.AppState, &m); err != nil {
		return Sections{}, err
	}
	return Sections{Xibc: m[host.ModuleName], Agg: m[aggtypes.ModuleName], Rv: m[rvtypes.ModuleName]}, nil
}

func compactJSON(b []byte) string {
	var buf bytes.Buffer
	if err := json.Compact(&buf, b); err != nil {
		return string(b)
	}
	return buf.String()
}

func sameSections(x, y Sections) bool {
	return compactJSON(x.Xibc) == compactJSON(y.Xibc) && compactJSON(x.Agg) == compactJSON(y.Agg) && compactJSON(x.Rv) == compactJSON(y.Rv)
}

// ---------------------------------------------------------------------------------------------
// JSON -> genesis states -> projection + tables

type tabler struct {
	a    *app.Teleport
	cs   map[string]StateRow
	cons map[string]StateRow
	rel  map[string]RelRow
	tp   map[string]PairRow
	sha  map[string]string
	addr map[string]string
	hexa map[string]string
	den  map[string]string
	name map[string]string
	acc  map[string]string
}

func newTabler(a *app.Teleport) *tabler {
	return &tabler{a: a, cs: map[string]StateRow{}, cons: map[string]StateRow{}, rel: map[string]RelRow{}, tp: map[string]PairRow{},
		sha: map[string]string{}, addr: map[string]string{}, hexa: map[string]string{}, den: map[string]string{}, name: map[string]string{}, acc: map[string]string{}}
}

func (t *tabler) clientState(cs exported.ClientState) string {
	bz := clienttypes.MustMarshalClientState(t.a.AppCodec(), cs)
	k := hx(bz)
	if _, ok := t.cs[k]; !ok {
		var err error
		p, _ := hlib.Catch(func() { err = cs.Validate() })
		t.cs[k] = StateRow{Value: k, Type: cs.ClientType(), Conc: concreteType(cs), Valid: !p && err == nil}
	}
	return k
}

func (t *tabler) consState(cs exported.ConsensusState) string {
	bz := clienttypes.MustMarshalConsensusState(t.a.AppCodec(), cs)
	k := hx(bz)
	if _, ok := t.cons[k]; !ok {
		var err error
		p, _ := hlib.Catch(func() { err = cs.ValidateBasic() })
		t.cons[k] = StateRow{Value: k, Type: cs.ClientType(), Conc: concreteType(cs), Valid: !p && err == nil}
	}
	return k
}

// the light client package a client / consensus state value belongs to
func concreteType(v interface{}) string {
	switch v.(type) {
	case *tmtypes.ClientState, *tmtypes.ConsensusState:
		return exported.Tendermint
	case *bsctypes.ClientState, *bsctypes.ConsensusState:
		return exported.BSC
	case *ethtypes.ClientState, *ethtypes.ConsensusState:
		return exported.ETH
	case *tsstypes.ClientState, *tsstypes.ConsensusState:
		return exported.TSS
	}
	return "unknown"
}

func (t *tabler) text(s string) {
	k := hs(s)
	t.addr[k] = hx(common.HexToAddress(s).Bytes())
	t.hexa[k] = b01(common.IsHexAddress(s))
	t.den[k] = b01(sdk.ValidateDenom(s) == nil)
	t.name[k] = b01(host.ClientIdentifierValidator(s) == nil)
	_, err := sdk.AccAddressFromBech32(s)
	t.acc[k] = b01(err == nil)
}

func (t *tabler) pair(p aggtypes.TokenPair) PairP {
	pp := PairP{Erc20: hs(p.ERC20Address), Denoms: []string{}, Enabled: p.Enabled, Owner: int(p.ContractOwner)}
	t.text(p.ERC20Address)
	for _, d := range p.Denoms {
		pp.Denoms = append(pp.Denoms, hs(d))
		t.text(d)
	}
	if len(p.Denoms) > 0 {
		in := []byte(p.ERC20Address + "|" + p.Denoms[0])
		h := sha256.Sum256(in)
		t.sha[hx(in)] = hx(h[:])
		// cross-check with the real GetID
		if !bytes.Equal(h[:], p.GetID()) {
			panic("GetID is not sha256(address|denom0)")
		}
	}
	bz := t.a.AppCodec().MustMarshal(&p)
	t.tp[hx(bz)] = PairRow{Value: hx(bz), Pair: pp}
	return pp
}

func (t *tabler) relayer(r clienttypes.IdentifiedRelayer) RelP {
	rp := RelP{Address: hs(r.Address), Chains: []string{}, Addresses: []string{}}
	t.text(r.Address)
	for _, c := range r.Chains {
		rp.Chains = append(rp.Chains, hs(c))
		t.text(c)
	}
	for _, c := range r.Addresses {
		rp.Addresses = append(rp.Addresses, hs(c))
	}
	rr := r
	bz := t.a.AppCodec().MustMarshal(&rr)
	t.rel[hx(bz)] = RelRow{Value: hx(bz), Rel: rp}
	return rp
}

// raw store values that never went through an export (pre / post dumps): decode them with the real codec
func (t *tabler) scanDump(d *Dump) {
	cdc := t.a.AppCodec()
	for _, kv := range d.Xibc {
		k, v := hlib.UnHex(kv[0]), hlib.UnHex(kv[1])
		path, ok := clientPath(k)
		switch {
		case ok && string(path) == host.KeyClientState:
			if cs, err := clienttypes.UnmarshalClientState(cdc, v); err == nil {
				t.clientState(cs)
			}
		case ok:
			if isCons := bytes.HasPrefix(path, []byte(host.KeyConsensusStatePrefix+"/")) && len(path) == len(host.KeyConsensusStatePrefix)+1+16; isCons {
				if cs, err := clienttypes.UnmarshalConsensusState(cdc, v); err == nil {
					t.consState(cs)
				}
			}
		case bytes.HasPrefix(k, []byte(clienttypes.KeyRelayers)):
			var ir clienttypes.IdentifiedRelayer
			if err := cdc.Unmarshal(v, &ir); err == nil {
				t.relayer(ir)
			}
		}
	}
	for _, kv := range d.Agg {
		k, v := hlib.UnHex(kv[0]), hlib.UnHex(kv[1])
		if len(k) > 0 && k[0] == 1 {
			var p aggtypes.TokenPair
			if err := cdc.Unmarshal(v, &p); err == nil {
				t.pair(p)
			}
		}
	}
}

// "clients/<name>/<path>" -> path (the harness's own splitting: only to find the values to decode for the tables)
func clientPath(k []byte) ([]byte, bool) {
	pre := []byte("clients/")
	if !bytes.HasPrefix(k, pre) {
		return nil, false
	}
	rest := k[len(pre):]
	i := bytes.IndexByte(rest, '/')
	if i < 0 {
		return nil, false
	}
	return rest[i+1:], true
}

func sortedRows(m map[string]StateRow) []StateRow {
	out := []StateRow{}
	for _, r := range m {
		out = append(out, r)
	}
	sort.Slice(out, func(i, j int) bool { return out[i].Value < out[j].Value })
	return out
}

func sortedPairs(m map[string]string) [][2]string {
	out := [][2]string{}
	for k, v := range m {
		out = append(out, [2]string{k, v})
	}
	sort.Slice(out, func(i, j int) bool { return out[i][0] < out[j][0] })
	return out
}

func (t *tabler) tables() *Tables {
	tb := &Tables{CS: sortedRows(t.cs), Cons: sortedRows(t.cons), Rel: []RelRow{}, TP: []PairRow{},
		Sha: sortedPairs(t.sha), Addr: sortedPairs(t.addr), Hex: sortedPairs(t.hexa), Den: sortedPairs(t.den), Name: sortedPairs(t.name), Acc: sortedPairs(t.acc)}
	for _, r := range t.rel {
		tb.Rel = append(tb.Rel, r)
	}
	sort.Slice(tb.Rel, func(i, j int) bool { return tb.Rel[i].Value < tb.Rel[j].Value })
	for _, r := range t.tp {
		tb.TP = append(tb.TP, r)
	}
	sort.Slice(tb.TP, func(i, j int) bool { return tb.TP[i].Value < tb.TP[j].Value })
	return tb
}

type decoded struct {
	X  xibctypes.GenesisState
	A  aggtypes.GenesisState
	R  rvtypes.GenesisState
}

func decodeSections(a *app.Teleport, s Sections) (d decoded, err error) {
	cdc := a.AppCodec()
	if err = cdc.UnmarshalJSON(s.Xibc, &d.X); err != nil {
		return d, fmt.Errorf("xibc: %w", err)
	}
	if err = cdc.UnmarshalJSON(s.Agg, &d.A); err != nil {
		return d, fmt.Errorf("aggregate: %w", err)
	}
	if err = cdc.UnmarshalJSON(s.Rv, &d.R); err != nil {
		return d, fmt.Errorf("rvesting: %w", err)
	}
	return d, nil
}

func pkts(ps []packettypes.PacketState) []PktP {
	out := []PktP{}
	for _, p := range ps {
		out = append(out, PktP{Src: hs(p.SrcChain), Dst: hs(p.DstChain), Seq: strconv.FormatUint(p.Sequence, 10), Data: hx(p.Data), Nil: p.Data == nil})
	}
	return out
}

func (t *tabler) project(d decoded) *GenProj {
	g := &GenProj{Clients: []KV{}, Consensus: []ConsGroup{}, Metadata: []MetaGroup{}, Relayers: []RelP{}, SendSeqs: []PktP{}, Pairs: []PairP{}}
	cg := d.X.ClientGenesis
	for _, c := range cg.Clients {
		cs, ok := c.ClientState.GetCachedValue().(exported.ClientState)
		if !ok {
			panic("client state not unpacked")
		}
		t.text(c.ChainName)
		g.Clients = append(g.Clients, KV{hs(c.ChainName), t.clientState(cs)})
	}
	for _, cc := range cg.ClientsConsensus {
		grp := ConsGroup{Name: hs(cc.ChainName), States: [][3]string{}}
		t.text(cc.ChainName)
		for _, s := range cc.ConsensusStates {
			cs, ok := s.ConsensusState.GetCachedValue().(exported.ConsensusState)
			if !ok {
				panic("consensus state not unpacked")
			}
			grp.States = append(grp.States, [3]string{strconv.FormatUint(s.Height.RevisionNumber, 10), strconv.FormatUint(s.Height.RevisionHeight, 10), t.consState(cs)})
		}
		g.Consensus = append(g.Consensus, grp)
	}
	for _, m := range cg.ClientsMetadata {
		grp := MetaGroup{Name: hs(m.ChainName), KVs: []KV{}}
		t.text(m.ChainName)
		for _, md := range m.Metadata {
			grp.KVs = append(grp.KVs, KV{hx(md.Key), hx(md.Value)})
		}
		g.Metadata = append(g.Metadata, grp)
	}
	g.Native = hs(cg.NativeChainName)
	t.text(cg.NativeChainName)
	for _, r := range cg.Relayers {
		g.Relayers = append(g.Relayers, t.relayer(r))
	}
	pg := d.X.PacketGenesis
	g.Acks, g.Commitments, g.Receipts = pkts(pg.Acknowledgements), pkts(pg.Commitments), pkts(pg.Receipts)
	for _, p := range append(append(append([]packettypes.PacketState{}, pg.Acknowledgements...), pg.Commitments...), pg.Receipts...) {
		t.text(p.SrcChain)
		t.text(p.DstChain)
	}
	for _, s := range pg.SendSequences {
		t.text(s.SrcChain)
		t.text(s.DstChain)
		g.SendSeqs = append(g.SendSeqs, PktP{Src: hs(s.SrcChain), Dst: hs(s.DstChain), Seq: strconv.FormatUint(s.Sequence, 10)})
	}
	g.AggParams = [2]bool{d.A.Params.EnableAggregate, d.A.Params.EnableEVMHook}
	for _, p := range d.A.TokenPairs {
		g.Pairs = append(g.Pairs, t.pair(p))
	}
	g.Rv = rvProj(d.R.Params)
	return g
}

// ---------------------------------------------------------------------------------------------
// validate / import

func classOf(f func() error) (int, string) {
	var err error
	p, val := hlib.Catch(func() { err = f() })
	if p {
		return 2, "panic: " + val
	}
	if err != nil {
		s := err.Error()
		if len(s) > 200 {
			s = s[:200]
		}
		return 1, s
	}
	return 0, ""
}

// the modules' own genesis validation, as `validate-genesis` runs it (AppModuleBasic.ValidateGenesis on the JSON)
func validateSections(a *app.Teleport, s Sections) *ValObs {
	cdc := a.AppCodec()
	txc := encoding.MakeConfig(app.ModuleBasics).TxConfig
	v := &ValObs{}
	var e1, e2, e3 string
	v.Xibc, e1 = classOf(func() error { return app.ModuleBasics[host.ModuleName].ValidateGenesis(cdc, txc, s.Xibc) })
	v.Agg, e2 = classOf(func() error { return app.ModuleBasics[aggtypes.ModuleName].ValidateGenesis(cdc, txc, s.Agg) })
	v.Rv, e3 = classOf(func() error { return app.ModuleBasics[rvtypes.ModuleName].ValidateGenesis(cdc, txc, s.Rv) })
	v.Err = e1 + e2 + e3
	return v
}

// a FRESH app whose genesis is the default genesis with the three sections replaced
func freshApp(s Sections) (a *app.Teleport, class int, pval string) {
	db := dbm.NewMemDB()
	a = app.NewTeleport(log.NewNopLogger(), db, nil, true, map[int64]bool{}, app.DefaultNodeHome, 5, encoding.MakeConfig(app.ModuleBasics), simapp.EmptyAppOptions{})
	gs := app.NewDefaultGenesisState()
	gs[host.ModuleName] = s.Xibc
	gs[aggtypes.ModuleName] = s.Agg
	gs[rvtypes.ModuleName] = s.Rv
	stateBytes, err := json.MarshalIndent(gs, "", " ")
	if err != nil {
		panic(err)
	}
	p, val := hlib.Catch(func() {
		a.InitChain(abci.RequestInitChain{ChainId: "teleport_9000-1", Validators: []abci.ValidatorUpdate{}, ConsensusParams: app.DefaultConsensusParams, AppStateBytes: stateBytes})
	})
	if p {
		return a, 2, val
	}
	return a, 0, ""
}

func freshCtx(a *app.Teleport) sdk.Context {
	return a.BaseApp.NewContext(false, tmHeader(1))
}

// the common tail of every case: pre-state on (a, ctx) -> export -> ... -> second export
func roundTrip(res *Result, a *app.Teleport, ctx sdk.Context, committed bool, seenCS []exported.ClientState, seenCons []exported.ConsensusState) {
	t := newTabler(a)
	// every client / consensus state the history proposed (also the rejected ones) is tabulated
	for _, cs := range seenCS {
		hlib.Catch(func() { t.clientState(cs) })
	}
	for _, cs := range seenCons {
		hlib.Catch(func() { t.consState(cs) })
	}
	res.Pre = dumpAll(ctx, a)
	t.scanDump(res.Pre)
	var secs Sections
	p, val := hlib.Catch(func() { secs = exportModules(ctx, a) })
	if p {
		res.ExportClass, res.Panic = 2, val
		res.Tables = t.tables()
		return
	}
	if committed {
		as, err := exportApp(a)
		res.AppPathEqual = err == nil && sameSections(as, secs)
	} else {
		res.AppPathEqual = true
	}
	d, err := decodeSections(a, secs)
	if err != nil {
		res.ExportClass, res.Panic = 2, "exported JSON does not decode: "+err.Error()
		res.Tables = t.tables()
		return
	}
	res.Export = t.project(d)
	res.Validate = validateSections(a, secs)
	b, class, pval := freshApp(secs)
	res.InitClass = class
	if class != 0 {
		res.Panic = pval
		res.Tables = t.tables()
		return
	}
	bctx := freshCtx(b)
	res.Post = dumpAll(bctx, b)
	t.scanDump(res.Post)
	var secs2 Sections
	p, val = hlib.Catch(func() { secs2 = exportModules(bctx, b) })
	if p {
		res.Export2Class, res.Panic = 2, val
	} else if d2, err := decodeSections(b, secs2); err != nil {
		res.Export2Class, res.Panic = 2, err.Error()
	} else {
		res.Export2 = t.project(d2)
	}
	res.Tables = t.tables()
}
