package main

import (
	"strings"

	dbm "github.com/tendermint/tm-db"

	"github.com/cosmos/cosmos-sdk/store/dbadapter"
	sdk "github.com/cosmos/cosmos-sdk/types"

	bsctypes "github.com/teleport-network/teleport/x/xibc/clients/light-clients/bsc/types"
	ethtypes "github.com/teleport-network/teleport/x/xibc/clients/light-clients/eth/types"
	tmtypes "github.com/teleport-network/teleport/x/xibc/clients/light-clients/tendermint/types"
	clienttypes "github.com/teleport-network/teleport/x/xibc/core/client/types"

	"verifharness/hlib"
)

// the metadata entries the light client of type t keeps for a consensus state at (rev, h), produced by the REAL
// setters on a scratch store (so the keys are whatever the code under test writes), as hex pairs
func metaFor(t string, rev, h uint64, salt int) [][2]string {
	store := dbadapter.Store{DB: dbm.NewMemDB()}
	height := clienttypes.NewHeight(rev, h)
	switch t {
	case tTM:
		tmtypes.SetProcessedTime(store, height, 1577926800000000000+uint64(salt))
		tmtypes.SetIterationKey(store, height)
	case tBSC:
		bsctypes.SetSigner(store, bsctypes.Signer{Height: height, Validator: rep(byte(salt)|1, 20)})
	case tETH:
		hd := ethtypes.Header{Height: height, Root: rep(byte(salt)|1, 32), Difficulty: []byte{1}, Bloom: rep(0, 256), Time: 1577926800}
		ethtypes.SetEthHeaderIndex(store, hd, append([]byte("header-"), byte(salt)))
		ethtypes.SetEthConsensusRoot(store, h, hd.ToEthHeader().Root, hd.Hash())
	}
	out := [][2]string{}
	it := store.Iterator(nil, nil)
	defer it.Close()
	for ; it.Valid(); it.Next() {
		out = append(out, [2]string{hx(it.Key()), hx(it.Value())})
	}
	return out
}

type xgen struct {
	r *hlib.Rand
	x *XibcIn
}

func (g *xgen) client(name, t string) {
	r := g.r
	c := ClientIn{Name: name, T: t}
	heights := [][2]uint64{}
	switch t {
	case tBSC:
		c.Epoch = []uint64{200, 5, 1}[r.Intn(3)]
		h := patU64(r) % (1 << 40)
		h -= h % c.Epoch
		c.H, c.Rev, c.Vals = us(h), us([]uint64{0, 0, 47}[r.Intn(3)]), 1+r.Intn(2)
	case tETH:
		c.H, c.Rev = us(patU64(r)%(1<<40)), us([]uint64{0, 0, 303}[r.Intn(3)])
	case tTSS:
		c.N = r.Intn(20)
	default:
		h := patU64(r)
		if h == 0 {
			h = 1
		}
		c.H, c.Rev = us(h), us(patRev(r))
	}
	g.x.Clients = append(g.x.Clients, c)
	if t == tTSS {
		return
	}
	for i, n := 0, 1+r.Intn(3); i < n; i++ {
		rev, h := patRev(r), patU64(r)
		if t == tTM && rev == 0 && h == 0 {
			h = 47
		}
		if i == 0 && r.Chance(1, 4) && t != tTM {
			rev, h = 0, 0 // EVM clients may be anchored at block 0
		}
		dup := false
		for _, x := range heights {
			dup = dup || (x[0] == rev && x[1] == h)
		}
		if dup {
			continue
		}
		heights = append(heights, [2]uint64{rev, h})
	}
	grp := ConsGroupIn{Name: name}
	md := MetaIn{Name: name, KVs: [][2]string{}}
	for i, x := range heights {
		salt := 1 + r.Intn(200)
		grp.States = append(grp.States, ConsIn{Rev: us(x[0]), H: us(x[1]), T: t, Salt: salt})
		if !(i > 0 && r.Chance(1, 5)) { // now and then a consensus state whose metadata was pruned
			md.KVs = append(md.KVs, metaFor(t, x[0], x[1], salt)...)
		}
	}
	g.x.Consensus = append(g.x.Consensus, grp)
	if len(md.KVs) > 0 {
		g.x.Metadata = append(g.x.Metadata, md)
	}
}

func (g *xgen) packets() {
	r := g.r
	pk := func(withData bool) PktIn {
		p := PktIn{Src: names[r.Intn(len(names))], Dst: names[r.Intn(len(names))], Seq: us(1 + patU64(r)%(^uint64(0)))}
		if r.Chance(1, 3) {
			p.Seq = us(uint64(1 + r.Intn(400)))
		}
		if withData {
			p.Data = hx(r.Bytes(1 + r.Intn(40)))
		}
		return p
	}
	uniq := func(l []PktIn, p PktIn) bool {
		for _, q := range l {
			if q.Src == p.Src && q.Dst == p.Dst && q.Seq == p.Seq {
				return false
			}
		}
		return true
	}
	for i, n := 0, r.Intn(4); i < n; i++ {
		if p := pk(true); uniq(g.x.Acks, p) {
			g.x.Acks = append(g.x.Acks, p)
		}
	}
	for i, n := 0, r.Intn(4); i < n; i++ {
		if p := pk(true); uniq(g.x.Commitments, p) {
			g.x.Commitments = append(g.x.Commitments, p)
		}
	}
	for i, n := 0, r.Intn(4); i < n; i++ {
		p := pk(true)
		if r.Bool() {
			p.Data = "01"
		}
		if uniq(g.x.Receipts, p) {
			g.x.Receipts = append(g.x.Receipts, p)
		}
	}
	for i, n := 0, r.Intn(3); i < n; i++ {
		p := pk(false)
		ok := true
		for _, q := range g.x.SendSeqs {
			ok = ok && !(q.Src == p.Src && q.Dst == p.Dst)
		}
		if ok {
			g.x.SendSeqs = append(g.x.SendSeqs, p)
		}
	}
}

// a well-formed xibc genesis: 0-4 clients of random types under names that are prefixes of one another, consensus
// states at pattern heights with the metadata their light client keeps, relayers, packet state
func validXibc(r *hlib.Rand) *XibcIn {
	g := &xgen{r: r, x: &XibcIn{Native: "teleport", Clients: []ClientIn{}, Consensus: []ConsGroupIn{}, Metadata: []MetaIn{}, Relayers: []RelIn{},
		Acks: []PktIn{}, Commitments: []PktIn{}, Receipts: []PktIn{}, SendSeqs: []PktIn{}}}
	if r.Chance(1, 4) {
		g.x.Native = names[r.Intn(len(names))]
	}
	used := map[string]bool{}
	for i, n := 0, r.Intn(5); i < n; i++ {
		name := names[r.Intn(len(names))]
		if used[name] {
			continue
		}
		used[name] = true
		g.client(name, []string{tTM, tBSC, tETH, tTSS}[r.Intn(4)])
	}
	// the export is sorted by chain name, an input need not be: keep the generation order half of the time
	for i, n := 0, r.Intn(4); i < n; i++ {
		k := 1 + r.Intn(3)
		rel := RelIn{Address: relayerAddr(i)}
		for j := 0; j < k; j++ {
			rel.Chains = append(rel.Chains, names[r.Intn(len(names))])
			rel.Addresses = append(rel.Addresses, []string{"0x01", "", "addr-" + us(uint64(j)), strings.Repeat("f", 40)}[r.Intn(4)])
		}
		g.x.Relayers = append(g.x.Relayers, rel)
	}
	g.packets()
	return g.x
}

// one near-miss planted into a valid genesis; returns false when the genesis has nothing to plant it on
func plantDefect(r *hlib.Rand, x *XibcIn, which int) bool { return plantDefectV(r, x, which, -1) }

// sub: the sub-variant of defect kinds 6, 7, 8 and 11 (relayer / native name / client name / packet state); -1 = random
func plantDefectV(r *hlib.Rand, x *XibcIn, which, sub int) bool {
	pick := func(n int) int { return r.Intn(n) }
	pickSub := func(n int) int {
		if sub >= 0 {
			return sub % n
		}
		return r.Intn(n)
	}
	switch which {
	case 0: // consensus states of a chain name that has no client
		if len(x.Consensus) == 0 {
			return false
		}
		i := pick(len(x.Consensus))
		for j := range x.Clients {
			if x.Clients[j].Name == x.Consensus[i].Name {
				x.Clients = append(x.Clients[:j], x.Clients[j+1:]...)
				break
			}
		}
		// its metadata goes as well (otherwise the metadata check would fire first or as well: still a rejection)
		x.Defect = "consensus-without-client"
	case 1: // zero height for a Tendermint client
		for i := range x.Clients {
			if x.Clients[i].T == tTM {
				for j := range x.Consensus {
					if x.Consensus[j].Name == x.Clients[i].Name {
						x.Consensus[j].States = append(x.Consensus[j].States, ConsIn{Rev: "0", H: "0", T: tTM, Salt: 3})
						x.Defect = "tm-zero-height"
						return true
					}
				}
			}
		}
		return false
	case 2: // a consensus state of another type than the client
		if len(x.Consensus) == 0 {
			return false
		}
		i := pick(len(x.Consensus))
		cur := x.Consensus[i].States[0].T
		nt := []string{tTM, tBSC, tETH, tTSS}[pick(4)]
		if nt == cur {
			nt = map[string]string{tTM: tBSC, tBSC: tETH, tETH: tTM, tTSS: tTM}[cur]
		}
		x.Consensus[i].States = append(x.Consensus[i].States, ConsIn{Rev: "1", H: "5", T: nt, Salt: 9})
		x.Defect = "consensus-type-mismatch"
	case 3: // metadata with an empty value
		if len(x.Metadata) == 0 {
			return false
		}
		i := pick(len(x.Metadata))
		j := pick(len(x.Metadata[i].KVs))
		x.Metadata[i].KVs[j][1] = ""
		x.Defect = "metadata-empty-value"
	case 4: // metadata with an empty key
		if len(x.Metadata) == 0 {
			return false
		}
		i := pick(len(x.Metadata))
		x.Metadata[i].KVs = append(x.Metadata[i].KVs, [2]string{"", "01"})
		x.Defect = "metadata-empty-key"
	case 5: // metadata of a chain name without client
		x.Metadata = append(x.Metadata, MetaIn{Name: "nobody", KVs: [][2]string{{hs("recentSingers/0-5"), "0102"}}})
		x.Defect = "metadata-without-client"
	case 6: // relayers the stateless checks refuse
		bad := []RelIn{
			{Address: "", Chains: []string{"abc"}, Addresses: []string{"0x01"}},
			{Address: "not-bech32", Chains: []string{"abc"}, Addresses: []string{"0x01"}},
			{Address: relayerAddr(7), Chains: []string{"abc", "abcd"}, Addresses: []string{"0x01"}},
			{Address: relayerAddr(7), Chains: []string{}, Addresses: []string{}},
			{Address: relayerAddr(7), Chains: []string{"a/b"}, Addresses: []string{"0x01"}},
			{Address: relayerAddr(7), Chains: []string{"ab"}, Addresses: []string{"0x01"}},
			{Address: strings.ToUpper(relayerAddr(7)), Chains: []string{"abc"}, Addresses: []string{"0x01"}},
			{Address: "cosmos1qyqszqgpqyqszqgpqyqszqgpqyqszqgpjnp7du", Chains: []string{"abc"}, Addresses: []string{"0x01"}},
		}
		x.Relayers = append(x.Relayers, bad[pickSub(len(bad))])
		x.Defect = "relayer"
	case 7: // native chain name
		x.Native = []string{"", "a/b", "ab", strings.Repeat("n", 65), "   ", "teleport chain"}[pickSub(6)]
		x.Defect = "native-name"
	case 8: // client chain name
		if len(x.Clients) == 0 {
			return false
		}
		old := x.Clients[0].Name
		nn := []string{"ab", "a/b", strings.Repeat("n", 65), "sp ace"}[pickSub(4)]
		x.Clients[0].Name = nn
		for j := range x.Consensus {
			if x.Consensus[j].Name == old {
				x.Consensus[j].Name = nn
			}
		}
		for j := range x.Metadata {
			if x.Metadata[j].Name == old {
				x.Metadata[j].Name = nn
			}
		}
		x.Defect = "client-name"
	case 9: // a client state its Validate refuses
		if len(x.Clients) == 0 {
			return false
		}
		x.Clients[pick(len(x.Clients))].Bad = true
		x.Defect = "client-state-invalid"
	case 10: // a Tendermint consensus state its ValidateBasic refuses
		for j := range x.Consensus {
			if x.Consensus[j].States[0].T == tTM {
				x.Consensus[j].States[0].Bad = true
				x.Defect = "consensus-state-invalid"
				return true
			}
		}
		return false
	case 11: // packet state: sequence 0 / bad chain names / missing data
		p := PktIn{Src: "abc", Dst: "teleport", Seq: "7", Data: "aa"}
		v := pickSub(20)
		switch v % 5 {
		case 0:
			p.Seq = "0"
		case 1:
			p.Src = "a/b"
		case 2:
			p.Dst = ""
		case 3:
			p.Data = ""
		default:
			p.Src = strings.Repeat("s", 65)
		}
		switch v / 5 {
		case 0:
			x.Acks = append(x.Acks, p)
		case 1:
			x.Commitments = append(x.Commitments, p)
		case 2:
			x.Receipts = append(x.Receipts, p)
		default:
			x.SendSeqs = append(x.SendSeqs, p)
			if p.Data == "" && p.Seq != "0" && p.Src == "abc" && p.Dst == "teleport" {
				x.Defect = "none (send sequence has no data)"
				return true
			}
		}
		x.Defect = "packet-state"
	case 12: // the same client twice (accepted: the last entry wins), same type
		if len(x.Clients) == 0 {
			return false
		}
		c := x.Clients[pick(len(x.Clients))]
		if c.T == tTSS {
			c.N++
		}
		x.Clients = append(x.Clients, c)
		x.Defect = "none (duplicate client)"
	default:
		return false
	}
	return true
}

const nDefects = 13

func genXibcGenesis(r *hlib.Rand, id int) Spec {
	x := validXibc(r)
	if r.Chance(3, 5) {
		plantDefect(r, x, r.Intn(nDefects))
	}
	return Spec{ID: id, Kind: "genesis", Tag: "random-xibc-genesis", Gen: &GenIn{Pairs: []PairIn{}, AggParams: [2]bool{r.Bool(), r.Bool()}, Xibc: x}}
}

// corpus: one valid genesis with all four client types, and every near-miss planted into it
func xibcCorpus() []Spec {
	out := []Spec{}
	base := func() *XibcIn {
		r := hlib.NewRand(1313)
		g := &xgen{r: r, x: &XibcIn{Native: "teleport", Clients: []ClientIn{}, Consensus: []ConsGroupIn{}, Metadata: []MetaIn{}, Relayers: []RelIn{},
			Acks: []PktIn{}, Commitments: []PktIn{}, Receipts: []PktIn{}, SendSeqs: []PktIn{}}}
		g.client("abc+", tTSS)
		g.client("abc", tTM)
		g.client("abc.x", tETH)
		g.client("abc-1", tBSC)
		g.x.Relayers = []RelIn{{Address: relayerAddr(2), Chains: []string{"abc", "abc-1"}, Addresses: []string{"0x01", ""}},
			{Address: relayerAddr(1), Chains: []string{"abc+"}, Addresses: []string{"cosmos1xyz"}}}
		g.x.Acks = []PktIn{{Src: "abc", Dst: "teleport", Seq: "47", Data: "a1"}, {Src: "abc", Dst: "teleport", Seq: "303", Data: "a2"}}
		g.x.Commitments = []PktIn{{Src: "teleport", Dst: "abc-1", Seq: "12032", Data: "c1"}}
		g.x.Receipts = []PktIn{{Src: "abc", Dst: "teleport", Seq: "47", Data: "01"}, {Src: "abc.x", Dst: "teleport", Seq: us(^uint64(0)), Data: "ffff"}}
		g.x.SendSeqs = []PktIn{{Src: "teleport", Dst: "abc-1", Seq: "12033"}, {Src: "teleport", Dst: "abc", Seq: "1"}}
		return g.x
	}
	out = append(out, Spec{Kind: "genesis", Tag: "xibc-valid", Gen: &GenIn{Pairs: []PairIn{}, AggParams: [2]bool{true, true}, Xibc: base()}})
	subs := map[int]int{6: 8, 7: 6, 8: 4, 11: 20} // every sub-variant of the defect kinds that have some
	for d := 0; d < nDefects; d++ {
		n := subs[d]
		if n == 0 {
			n = 2
		}
		for v := 0; v < n; v++ {
			x := base()
			sub := -1
			if subs[d] > 0 {
				sub = v
			}
			if plantDefectV(hlib.NewRand(uint64(100*d+v)), x, d, sub) {
				out = append(out, Spec{Kind: "genesis", Tag: "xibc-" + x.Defect, Gen: &GenIn{Pairs: []PairIn{}, AggParams: [2]bool{true, false}, Xibc: x}})
			}
		}
	}
	return out
}

var _ = sdk.AccAddress{}
