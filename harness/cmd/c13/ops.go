package main

import (
	"encoding/base64"
	"encoding/json"
	"fmt"
	"math/big"
	"strconv"
	"strings"

	sdk "github.com/cosmos/cosmos-sdk/types"
	banktypes "github.com/cosmos/cosmos-sdk/x/bank/types"
	govtypes "github.com/cosmos/cosmos-sdk/x/gov/types"
	"github.com/cosmos/cosmos-sdk/x/params"
	proposaltypes "github.com/cosmos/cosmos-sdk/x/params/types/proposal"

	"github.com/ethereum/go-ethereum/common"
	"github.com/ethereum/go-ethereum/crypto"

	erc20contracts "github.com/teleport-network/teleport/syscontracts/erc20"
	aggtypes "github.com/teleport-network/teleport/x/aggregate/types"
	rvtypes "github.com/teleport-network/teleport/x/rvesting/types"
	bsctypes "github.com/teleport-network/teleport/x/xibc/clients/light-clients/bsc/types"
	ethtypes "github.com/teleport-network/teleport/x/xibc/clients/light-clients/eth/types"
	tmtypes "github.com/teleport-network/teleport/x/xibc/clients/light-clients/tendermint/types"
	tsstypes "github.com/teleport-network/teleport/x/xibc/clients/tss-client/types"
	clienttypes "github.com/teleport-network/teleport/x/xibc/core/client/types"
	"github.com/teleport-network/teleport/x/xibc/core/host"
	packettypes "github.com/teleport-network/teleport/x/xibc/core/packet/types"
	"github.com/teleport-network/teleport/x/xibc"
	"github.com/teleport-network/teleport/x/xibc/exported"

	"verifharness/hlib"
)

// An operation of a history.  uint64 values travel as decimal strings (JSON numbers lose precision).
type Op struct {
	K     string   `json:"k"`
	Name  string   `json:"name,omitempty"`  // client chain name
	T     string   `json:"t,omitempty"`     // client type: 07-tendermint | bsc | eth | tss
	Rev   string   `json:"rev,omitempty"`   // revision number
	H     string   `json:"h,omitempty"`     // revision height
	N     int      `json:"n,omitempty"`     // repetitions / index / count
	Epoch uint64   `json:"epoch,omitempty"` // BSC epoch
	Vals  int      `json:"vals,omitempty"`  // BSC: validators carried by an epoch header
	Addr  string   `json:"addr,omitempty"`  // relayer address
	List  []string `json:"list,omitempty"`  // relayer chains / rvesting rewards (denom, amount, ...)
	List2 []string `json:"list2,omitempty"` // relayer addresses on the chains
	B     bool     `json:"b,omitempty"`
}

// genesis-input cases
type GenIn struct {
	Pairs     []PairIn `json:"pairs"`
	AggParams [2]bool  `json:"agg_params"`
	Xibc      *XibcIn  `json:"xibc,omitempty"` // nil: the default xibc genesis
}

// a generated xibc genesis: client / consensus states are built by the harness from (type, height, variant), every
// key / value / data byte string travels as hex
type ClientIn struct {
	Name  string `json:"name"`
	T     string `json:"t"`
	Rev   string `json:"rev,omitempty"`
	H     string `json:"h,omitempty"`
	N     int    `json:"n,omitempty"`
	Epoch uint64 `json:"epoch,omitempty"`
	Vals  int    `json:"vals,omitempty"`
	Bad   bool   `json:"bad,omitempty"` // a client state its own Validate refuses
}
type ConsIn struct {
	Rev  string `json:"rev"`
	H    string `json:"h"`
	T    string `json:"t"`
	Salt int    `json:"salt,omitempty"`
	Bad  bool   `json:"bad,omitempty"` // a consensus state its own ValidateBasic refuses
}
type ConsGroupIn struct {
	Name   string   `json:"name"`
	States []ConsIn `json:"states"`
}
type MetaIn struct {
	Name string      `json:"name"`
	KVs  [][2]string `json:"kvs"`
}
type RelIn struct {
	Address   string   `json:"address"`
	Chains    []string `json:"chains"`
	Addresses []string `json:"addresses"`
}
type PktIn struct {
	Src  string `json:"src"`
	Dst  string `json:"dst"`
	Seq  string `json:"seq"`
	Data string `json:"data,omitempty"`
}
type XibcIn struct {
	Clients     []ClientIn    `json:"clients"`
	Consensus   []ConsGroupIn `json:"consensus"`
	Metadata    []MetaIn      `json:"metadata"`
	Native      string        `json:"native"`
	Relayers    []RelIn       `json:"relayers"`
	Acks        []PktIn       `json:"acks"`
	Commitments []PktIn       `json:"commitments"`
	Receipts    []PktIn       `json:"receipts"`
	SendSeqs    []PktIn       `json:"send_seqs"`
	Defect      string        `json:"defect,omitempty"` // which near-miss the generator planted (diagnostics / distribution only)
}
type PairIn struct {
	Erc20   string   `json:"erc20"`
	Denoms  []string `json:"denoms"`
	Enabled bool     `json:"enabled"`
	Owner   int      `json:"owner"`
}

type Spec struct {
	ID     int    `json:"id"`
	Kind   string `json:"kind"` // history | genesis
	Tag    string `json:"tag,omitempty"`
	Ops    []Op   `json:"ops,omitempty"`
	Gen    *GenIn `json:"gen,omitempty"`
	Corpus bool   `json:"corpus,omitempty"` // a witness history: every operation is expected to be executed (class 0)
}

type OpObs struct {
	Class int    `json:"class"` // 0 executed, 1 error, 2 panic, 3 rejected at submission, 4 not applicable in this state
	Note  string `json:"note,omitempty"`
}

func u64(s string) uint64 {
	if s == "" {
		return 0
	}
	v, err := strconv.ParseUint(s, 10, 64)
	if err != nil {
		panic(err)
	}
	return v
}

func errClass(err error) OpObs {
	if err != nil {
		return OpObs{Class: 1, Note: short(err.Error())}
	}
	return OpObs{}
}

func (w *World) needTM() {
	if !w.tmReady {
		w.coord.SetupClients(w.path)
		w.tmReady = true
	}
}

func (w *World) mkStates(op Op) (exported.ClientState, exported.ConsensusState, *cinfo) {
	rev, h := u64(op.Rev), u64(op.H)
	switch op.T {
	case exported.BSC:
		epoch := op.Epoch
		if epoch == 0 {
			epoch = 200
		}
		cs, cons := w.bscState(rev, h, epoch, op.Vals)
		hd := cs.Header
		return cs, cons, &cinfo{typ: op.T, bsc: &hd, bscCS: cs}
	case exported.ETH:
		cs, cons := w.ethState(rev, h)
		hd := cs.Header
		return cs, cons, &cinfo{typ: op.T, eth: &hd, ethCS: cs}
	case exported.TSS:
		cs, cons := w.tssState(op.N)
		return cs, cons, &cinfo{typ: op.T}
	default:
		cs, cons := w.tmState(fmt.Sprintf("remote-%d", rev), rev, h)
		if rev == 0 {
			cs.ChainId = "remote"
		}
		return cs, cons, &cinfo{typ: exported.Tendermint}
	}
}

func (w *World) do(op Op) (obs OpObs) {
	p, val := hlib.Catch(func() { obs = w.do1(op) })
	if p {
		return OpObs{Class: 2, Note: short(val)}
	}
	return obs
}

func (w *World) do1(op Op) OpObs {
	a := w.A.App
	ck := a.XIBCKeeper.ClientKeeper
	if w.tmGone {
		switch op.K {
		case "tm_setup", "tm_update", "send", "relay", "recv":
			return OpObs{Class: 4, Note: "the two-chain Tendermint path of this history was reset"}
		}
	}
	switch op.K {
	case "tm_setup":
		w.needTM()
		return OpObs{}
	case "tm_update":
		w.needTM()
		for i := 0; i < op.N; i++ {
			if err := w.path.EndpointA.UpdateClient(); err != nil {
				return errClass(err)
			}
		}
		return OpObs{}
	case "send": // A -> B through the packet keeper (as the packet contract's hook does), N packets
		w.needTM()
		for i := 0; i < op.N; i++ {
			seq := a.XIBCKeeper.PacketKeeper.GetNextSequenceSend(w.ctx(), w.path.EndpointA.ChainName, w.path.EndpointB.ChainName)
			pk := packettypes.NewPacket(w.path.EndpointA.ChainName, w.path.EndpointB.ChainName, seq, "sender", []byte("mock Transfer data"), []byte("mock Call data"), "", 0)
			if err := w.path.EndpointA.SendPacket(pk); err != nil {
				return errClass(err)
			}
			w.pendAB = append(w.pendAB, *pk)
		}
		return OpObs{}
	case "relay": // oldest pending packet: received on B (MsgRecvPacket), acknowledged on A (MsgAcknowledgement)
		w.needTM()
		if len(w.pendAB) == 0 {
			return OpObs{Class: 4}
		}
		pk := w.pendAB[0]
		w.pendAB = w.pendAB[1:]
		if err := w.path.EndpointB.UpdateClient(); err != nil {
			return errClass(err)
		}
		key := host.PacketCommitmentKey(pk.GetSrcChain(), pk.GetDstChain(), pk.GetSequence())
		proof, proofHeight := w.A.QueryProof(key)
		bz, err := pk.ABIPack()
		if err != nil {
			return errClass(err)
		}
		res, err := w.deliver(w.B, packettypes.NewMsgRecvPacket(bz, proof, proofHeight, w.B.SenderAcc))
		if err != nil {
			return errClass(err)
		}
		if op.B { // leave the commitment on A (no acknowledgement relayed)
			return OpObs{}
		}
		// the acknowledgement B wrote, from its typed event
		var ack []byte
		for _, ev := range res.Events {
			if ev.Type == "xibc.core.packet.v1.EventWriteAck" {
				for _, at := range ev.Attributes {
					if string(at.Key) == "ack" {
						var b64 string
						if json.Unmarshal(at.Value, &b64) == nil {
							ack, _ = base64.StdEncoding.DecodeString(b64)
						}
					}
				}
			}
		}
		if ack == nil {
			return OpObs{Class: 1, Note: "no acknowledgement event on B"}
		}
		if err := w.path.EndpointA.UpdateClient(); err != nil {
			return errClass(err)
		}
		akey := host.PacketAcknowledgementKey(pk.GetSrcChain(), pk.GetDstChain(), pk.GetSequence())
		aproof, aheight := w.B.QueryProof(akey)
		// keeper level (proof verification, commitment deletion): the msg server would go on to call the packet
		// contract's OnAcknowledgePacket, which reverts for a packet the contract did not send itself
		cctx, write := w.ctx().CacheContext()
		if err := a.XIBCKeeper.PacketKeeper.AcknowledgePacket(cctx, packettypes.NewMsgAcknowledgement(bz, ack, aproof, aheight, w.A.SenderAcc)); err != nil {
			return errClass(err)
		}
		write()
		w.commit(w.A)
		return OpObs{}
	case "recv": // B -> A: sent through B's packet keeper, received on A with MsgRecvPacket (receipt + acknowledgement on A)
		w.needTM()
		for i := 0; i < op.N; i++ {
			seq := w.B.App.XIBCKeeper.PacketKeeper.GetNextSequenceSend(w.B.GetContext(), w.path.EndpointB.ChainName, w.path.EndpointA.ChainName)
			pk := packettypes.NewPacket(w.path.EndpointB.ChainName, w.path.EndpointA.ChainName, seq, "sender", []byte("mock Transfer data"), []byte("mock Call data"), "", 0)
			if err := w.path.EndpointB.SendPacket(pk); err != nil {
				return errClass(err)
			}
			key := host.PacketCommitmentKey(pk.GetSrcChain(), pk.GetDstChain(), pk.GetSequence())
			proof, proofHeight := w.B.QueryProof(key)
			bz, err := pk.ABIPack()
			if err != nil {
				return errClass(err)
			}
			if _, err := w.deliver(w.A, packettypes.NewMsgRecvPacket(bz, proof, proofHeight, w.A.SenderAcc)); err != nil {
				return errClass(err)
			}
		}
		return OpObs{}
	case "tss_recv": // a packet from a TSS chain: the proof is the signer (keeper level, as the msg server calls it)
		ci := w.clients[op.Name]
		if ci == nil || ci.typ != exported.TSS {
			return OpObs{Class: 4}
		}
		cs, _ := ck.GetClientState(w.ctx(), op.Name)
		self := ck.GetChainName(w.ctx())
		pk := packettypes.NewPacket(op.Name, self, uint64(op.N), "sender", []byte("mock Transfer data"), []byte("mock Call data"), "", 0)
		bz, err := pk.ABIPack()
		if err != nil {
			return errClass(err)
		}
		signer, _ := sdk.AccAddressFromBech32(cs.(*tsstypes.ClientState).TssAddress)
		msg := packettypes.NewMsgRecvPacket(bz, []byte{}, clienttypes.NewHeight(0, 1), signer)
		if err := a.XIBCKeeper.PacketKeeper.RecvPacket(w.ctx(), msg); err != nil {
			return errClass(err)
		}
		ack, _ := packettypes.NewAcknowledgement(0, []byte{1}, "", "relayer", 0).ABIPack()
		return errClass(a.XIBCKeeper.PacketKeeper.WriteAcknowledgement(w.ctx(), pk, ack))
	case "create", "upgrade", "toggle":
		cs, cons, ci := w.mkStates(op)
		w.seenCS, w.seenCons = append(w.seenCS, cs), append(w.seenCons, cons)
		var content govtypes.Content
		var err error
		switch op.K {
		case "create":
			content, err = clienttypes.NewCreateClientProposal("t", "d", op.Name, cs, cons)
		case "upgrade":
			content, err = clienttypes.NewUpgradeClientProposal("t", "d", op.Name, cs, cons)
		default:
			content, err = clienttypes.NewToggleClientProposal("t", "d", op.Name, cs, cons)
		}
		if err != nil {
			return errClass(err)
		}
		c, note := w.gov(content)
		if c == 0 {
			w.clients[op.Name] = ci
		}
		return OpObs{Class: c, Note: note}
	case "update": // N further headers for a BSC / ETH client, a new key set for a TSS client
		ci := w.clients[op.Name]
		if ci == nil {
			return OpObs{Class: 4}
		}
		for i := 0; i < op.N; i++ {
			switch ci.typ {
			case exported.BSC:
				p := ci.bsc
				nvals := op.Vals
				if nvals == 0 {
					nvals = 1
				}
				ci.serial++
				h := w.bscHeader(p.Height.RevisionNumber, p.Height.RevisionHeight+1, p.Hash().Bytes(), ci.bscCS.Epoch, nvals, p.Time+3, byte(0x10+ci.serial%200))
				if err := ck.UpdateClient(w.ctx(), op.Name, &h); err != nil {
					return errClass(err)
				}
				ci.bsc = &h
			case exported.ETH:
				ci.serial++
				h := w.ethChild(ci.eth, ci.serial)
				if err := ck.UpdateClient(w.ctx(), op.Name, &h); err != nil {
					return errClass(err)
				}
				ci.eth = &h
			case exported.TSS:
				ci.serial++
				h := &tsstypes.Header{TssAddress: tssAddr(int(ci.serial) + 10), Pubkey: []byte{byte(ci.serial)}, PartPubkeys: [][]byte{{byte(ci.serial)}}, Threshold: 1}
				if err := ck.UpdateClient(w.ctx(), op.Name, h); err != nil {
					return errClass(err)
				}
			default:
				return OpObs{Class: 4}
			}
		}
		return OpObs{}
	case "write_cons": // a consensus state (and the metadata its client type keeps per height) written directly
		cs, found := ck.GetClientState(w.ctx(), op.Name)
		if !found || cs.ClientType() == exported.TSS {
			return OpObs{Class: 4}
		}
		rev, h := u64(op.Rev), u64(op.H)
		height := clienttypes.NewHeight(rev, h)
		if height.IsZero() && cs.ClientType() == exported.Tendermint {
			return OpObs{Class: 4, Note: "a Tendermint chain has no height zero"}
		}
		ck.SetClientConsensusState(w.ctx(), op.Name, height, w.consOf(cs.ClientType(), rev, h, byte(op.N)))
		store := ck.ClientStore(w.ctx(), op.Name)
		switch cs.ClientType() {
		case exported.Tendermint:
			tmtypes.SetProcessedTime(store, height, uint64(w.ctx().BlockTime().UnixNano())+uint64(op.N))
			tmtypes.SetIterationKey(store, height)
		case exported.BSC:
			bsctypes.SetSigner(store, bsctypes.Signer{Height: height, Validator: rep(byte(op.N)|1, 20)})
		case exported.ETH:
			hd := ethtypes.Header{Height: height, Root: rep(byte(op.N)|1, 32), Difficulty: []byte{1}, Bloom: rep(0, 256), Time: w.blockUnix()}
			bz, err := a.AppCodec().MarshalInterface(&hd)
			if err != nil {
				return errClass(err)
			}
			ethtypes.SetEthHeaderIndex(store, hd, bz)
			ethtypes.SetEthConsensusRoot(store, h, hd.ToEthHeader().Root, hd.Hash())
		}
		return OpObs{}
	case "relayer":
		c, note := w.gov(clienttypes.NewRegisterRelayerProposal("t", "d", op.Addr, op.List, op.List2))
		return OpObs{Class: c, Note: note}
	case "chain_name": // the native chain name as set at genesis / by the operator
		ck.SetChainName(w.ctx(), op.Name)
		return OpObs{}
	case "rv_params":
		return w.paramChange(rvtypes.ModuleName, op)
	case "agg_params":
		v := "false"
		if op.B {
			v = "true"
		}
		key := string(aggtypes.ParamStoreKeyEnableAggregate)
		if op.N == 1 {
			key = string(aggtypes.ParamStoreKeyEnableEVMHook)
		}
		return w.change(aggtypes.ModuleName, key, v)
	case "agg_regcoin", "agg_addcoin":
		base := op.Name
		w.mintSupply(base)
		md := banktypes.Metadata{Description: "d " + base, Base: base, Display: "d" + base, Name: "n" + base, Symbol: "S",
			DenomUnits: []*banktypes.DenomUnit{{Denom: base, Exponent: 0}, {Denom: "d" + base, Exponent: 18}}}
		if strings.HasPrefix(base, "ibc/") {
			md = banktypes.Metadata{Description: "d", Base: base, Display: "dibc" + base[60:], Name: "channel-0/" + base, Symbol: "ibcS",
				DenomUnits: []*banktypes.DenomUnit{{Denom: base, Exponent: 0}, {Denom: "dibc" + base[60:], Exponent: 18}}}
		}
		var content govtypes.Content
		if op.K == "agg_regcoin" {
			content = aggtypes.NewRegisterCoinProposal("t", "d", md)
		} else {
			if len(w.pairAddrs) == 0 {
				return OpObs{Class: 4}
			}
			content = aggtypes.NewAddCoinProposal("t", "d", md, w.pairAddrs[op.N%len(w.pairAddrs)])
		}
		c, note := w.gov(content)
		if c == 0 {
			w.refreshPairs()
		}
		return OpObs{Class: c, Note: note}
	case "agg_deploy": // deploy an ERC-20 (name / symbol / decimals chosen so that later deployments can replace it)
		addr, err := w.deploy("coin"+strconv.Itoa(op.N), "C"+strconv.Itoa(op.N), 6)
		if err != nil {
			return errClass(err)
		}
		w.deployed = append(w.deployed, addr)
		return OpObs{}
	case "agg_regerc20":
		if len(w.deployed) == 0 {
			return OpObs{Class: 4}
		}
		c, note := w.gov(aggtypes.NewRegisterERC20Proposal("t", "d", w.deployed[op.N%len(w.deployed)].Hex()))
		if c == 0 {
			w.refreshPairs()
		}
		return OpObs{Class: c, Note: note}
	case "agg_toggle":
		if len(w.pairAddrs) == 0 {
			return OpObs{Class: 4}
		}
		c, note := w.gov(aggtypes.NewToggleTokenRelayProposal("t", "d", w.pairAddrs[op.N%len(w.pairAddrs)]))
		return OpObs{Class: c, Note: note}
	case "agg_update": // replace the contract of pair N by deployed contract List[0] (index)
		if len(w.pairAddrs) == 0 || len(w.deployed) == 0 {
			return OpObs{Class: 4}
		}
		i, _ := strconv.Atoi(op.Rev)
		old := w.pairAddrs[op.N%len(w.pairAddrs)]
		if op.B { // the pair of deployed contract N
			old = w.deployed[op.N%len(w.deployed)].Hex()
		}
		c, note := w.gov(aggtypes.NewUpdateTokenPairERC20Proposal("t", "d", old, w.deployed[i%len(w.deployed)].Hex()))
		if c == 0 {
			w.refreshPairs()
		}
		return OpObs{Class: c, Note: note}
	case "commit":
		w.commit(w.A)
		return OpObs{}
	case "reset": // x/xibc ResetStates (the upgrade handler's call): everything but the native chain name is dropped
		xibc.ResetStates(w.ctx(), a.GetKey(host.StoreKey), *a.XIBCKeeper)
		w.clients = map[string]*cinfo{}
		w.pendAB = nil
		w.tmGone = true
		return OpObs{}
	}
	return OpObs{Class: 4, Note: "unknown op " + op.K}
}

func (w *World) refreshPairs() {
	w.pairAddrs = nil
	for _, p := range w.A.App.AggregateKeeper.GetAllTokenPairs(w.ctx()) {
		w.pairAddrs = append(w.pairAddrs, p.ERC20Address)
	}
}

func (w *World) mintSupply(denom string) {
	cs := sdk.Coins{sdk.Coin{Denom: denom, Amount: sdk.NewInt(1000)}}
	if cs.Validate() != nil {
		return
	}
	hlib.Catch(func() {
		if err := w.A.App.BankKeeper.MintCoins(w.ctx(), aggtypes.ModuleName, cs); err == nil {
			_ = w.A.App.BankKeeper.SendCoinsFromModuleToAccount(w.ctx(), aggtypes.ModuleName, w.A.SenderAcc, cs)
		}
	})
}

func (w *World) deploy(name, symbol string, decimals uint8) (common.Address, error) {
	a := w.A.App
	from := w.A.SenderAddress
	nonce, err := a.AccountKeeper.GetSequence(w.ctx(), from.Bytes())
	if err != nil {
		return common.Address{}, err
	}
	addr := crypto.CreateAddress(from, nonce)
	ctor, err := erc20contracts.ERC20MinterBurnerDecimalsContract.ABI.Pack("", name, symbol, decimals)
	if err != nil {
		return common.Address{}, err
	}
	data := append(append([]byte{}, erc20contracts.ERC20MinterBurnerDecimalsContract.Bin...), ctor...)
	cctx, write := w.ctx().CacheContext()
	if _, err := a.AggregateKeeper.CallEVMWithData(cctx, from, nil, data); err != nil {
		return common.Address{}, err
	}
	write()
	_ = big.NewInt
	return addr, nil
}

func (w *World) change(subspace, key, value string) OpObs {
	handler := params.NewParamChangeProposalHandler(w.A.App.ParamsKeeper)
	cctx, write := w.ctx().CacheContext()
	var err error
	p, val := hlib.Catch(func() {
		err = handler(cctx, proposaltypes.NewParameterChangeProposal("t", "d", []proposaltypes.ParamChange{proposaltypes.NewParamChange(subspace, key, value)}))
	})
	if p {
		return OpObs{Class: 2, Note: short(val)}
	}
	if err != nil {
		return OpObs{Class: 1, Note: short(err.Error())}
	}
	write()
	return OpObs{}
}

func (w *World) paramChange(module string, op Op) OpObs {
	// List = denom, amount, denom, amount ...
	s := "["
	for i := 0; i+1 < len(op.List); i += 2 {
		if i > 0 {
			s += ","
		}
		s += fmt.Sprintf(`{"denom":%q,"amount":%q}`, op.List[i], op.List[i+1])
	}
	s += "]"
	o := w.change(module, string(rvtypes.KeyPerBlockReward), s)
	v := "false"
	if op.B {
		v = "true"
	}
	o2 := w.change(module, string(rvtypes.KeyEnableVesting), v)
	if o.Class != 0 {
		return o
	}
	return o2
}

// ---------------------------------------------------------------------------------------------

func runHistory(res *Result) {
	w := newWorld()
	for _, op := range res.Spec.Ops {
		res.Ops = append(res.Ops, w.do(op))
	}
	// everything is committed: app/export.go reads the last committed state
	w.commit(w.A)
	roundTrip(res, w.A.App, w.ctx(), true, w.seenCS, w.seenCons)
}
