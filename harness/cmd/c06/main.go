// c06: drives the real authorization code of the XIBC message server (mode auth: relayer registry through the
// real gov proposal handler, signed MsgUpdateClient / MsgRecvPacket / MsgAcknowledgement through BaseApp.DeliverTx
// on x/xibc/testing chains with real Tendermint proofs and TSS clients) and the real byte code of the XIBC system
// contracts (mode contracts: every non-view method x caller kind) and records the projected observables.
package main

import (
	"encoding/json"
	"flag"
	"fmt"
	"os"
	"time"

	"verifharness/hlib"
)

func main() {
	mode := flag.String("mode", "auth", "auth | contracts")
	seed := flag.Uint64("seed", 1, "PRNG seed")
	n := flag.Int("n", 10, "number of cases")
	steps := flag.Int("steps", 40, "steps per case")
	in := flag.String("in", "", "replay specs from this JSONL file")
	out := flag.String("out", "/dev/stdout", "output JSONL")
	flag.Parse()
	t0 := time.Now()
	o := hlib.NewOut(*out)
	defer o.Close()
	defer func() {
		// a failed set-up call of the real code is an ERROR OF THE RUN with a name, not a crash
		if r := recover(); r != nil {
			if f, ok := r.(setupFailure); ok {
				o.Close()
				fmt.Fprintf(os.Stderr, "HARNESS-SETUP-ERROR call=%q err=%q\n", f.call, f.err.Error())
				os.Exit(3)
			}
			panic(r)
		}
	}()
	switch *mode {
	case "auth":
		var specs []Spec
		if *in != "" {
			hlib.ReadLines(*in, func(line []byte) {
				var s Spec
				if err := json.Unmarshal(line, &s); err != nil {
					panic(err)
				}
				specs = append(specs, s)
			})
		} else {
			root := hlib.NewRand(*seed)
			for i := 0; i < *n; i++ {
				specs = append(specs, genSpec(root.Fork(uint64(i)), i, *steps))
			}
		}
		for _, s := range specs {
			o.Emit(runSpec(s))
		}
	case "contracts":
		runContracts(*seed, o)
	default:
		fmt.Fprintln(os.Stderr, "unknown mode")
		os.Exit(2)
	}
	fmt.Fprintf(os.Stderr, "c06 %s done in %s\n", *mode, time.Since(t0))
}
