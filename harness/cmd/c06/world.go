package main

import (
	"crypto/sha256"
	"encoding/binary"
	"errors"
	"fmt"
	"math/big"
	"path/filepath"
	"runtime"
	"sort"
	"strings"
	"testing"

	"github.com/cosmos/cosmos-sdk/simapp/helpers"
	sdk "github.com/cosmos/cosmos-sdk/types"
	sdkerrors "github.com/cosmos/cosmos-sdk/types/errors"
	govtypes "github.com/cosmos/cosmos-sdk/x/gov/types"
	"github.com/ethereum/go-ethereum/common"
	ethtypes "github.com/ethereum/go-ethereum/core/types"
	"github.com/tharsis/ethermint/crypto/ethsecp256k1"
	"github.com/tharsis/ethermint/server/config"
	"github.com/tharsis/ethermint/tests"
	evmtypes "github.com/tharsis/ethermint/x/evm/types"

	endpointcontract "github.com/teleport-network/teleport/syscontracts/xibc_endpoint"
	packetcontract "github.com/teleport-network/teleport/syscontracts/xibc_packet"
	tsstypes "github.com/teleport-network/teleport/x/xibc/clients/tss-client/types"
	xibcclient "github.com/teleport-network/teleport/x/xibc/core/client"
	clienttypes "github.com/teleport-network/teleport/x/xibc/core/client/types"
	"github.com/teleport-network/teleport/x/xibc/core/host"
	packettypes "github.com/teleport-network/teleport/x/xibc/core/packet/types"
	"github.com/teleport-network/teleport/x/xibc/exported"
	xibctesting "github.com/teleport-network/teleport/x/xibc/testing"

	"verifharness/hlib"
)

type acct struct {
	priv *ethsecp256k1.PrivKey
	addr sdk.AccAddress
	eth  common.Address
}

func (a *acct) str(upper bool) string {
	if upper {
		return strings.ToUpper(a.addr.String())
	}
	return a.addr.String()
}

// World: chain A (under test) with a real Tendermint counterparty B, TSS clients and a set of
// deterministic accounts.
type World struct {
	coord *xibctesting.Coordinator
	A, B  *xibctesting.TestChain
	accts []*acct
	gov   govtypes.Handler
	// chain names of the case's universe (client or not)
	universe []string
	tssSeq   uint64
	lastRecv map[string]*packettypes.MsgRecvPacket // last accepted receive per source chain (for replays)
}

const nAccts = 6

func deriveAccts(seed uint64) []*acct {
	r := hlib.NewRand(seed ^ 0xC06C06)
	var out []*acct
	for i := 0; i < nAccts; i++ {
		k := r.Bytes(32)
		k[0] = 1 // keep the scalar in range and non-zero
		p := &ethsecp256k1.PrivKey{Key: k}
		ad := sdk.AccAddress(p.PubKey().Address().Bytes())
		out = append(out, &acct{priv: p, addr: ad, eth: common.BytesToAddress(ad.Bytes())})
	}
	return out
}

// setupFailure: a set-up call of the REAL code (building chains, clients, packets to be received, proofs) failed.
// It is reported by main as a HARNESS-SETUP-ERROR line naming the call — not as a raw panic.
type setupFailure struct {
	call string
	err  error
}

func (f setupFailure) Error() string { return f.call + ": " + f.err.Error() }

// must: the enclosing harness function and line name the call
func must(err error) {
	if err != nil {
		call := "?"
		if pc, file, line, ok := runtime.Caller(1); ok {
			call = fmt.Sprintf("%s (%s:%d)", runtime.FuncForPC(pc).Name(), filepath.Base(file), line)
		}
		panic(setupFailure{call, err})
	}
}

// mustCall: set-up call with an explicit name of the real function that failed
func mustCall(call string, err error) {
	if err != nil {
		panic(setupFailure{call, err})
	}
}

// NewWorld builds the chains, the Tendermint clients (A<->B), the accounts and the TSS clients.
func NewWorld(seed uint64, tss []TSSSpec) *World {
	w := &World{lastRecv: map[string]*packettypes.MsgRecvPacket{}}
	w.coord = xibctesting.NewCoordinator(&testing.T{}, 2)
	w.A = w.coord.GetChain(xibctesting.GetChainID(0))
	w.B = w.coord.GetChain(xibctesting.GetChainID(1))
	path := xibctesting.NewPath(w.A, w.B)
	w.coord.SetupClientsWithoutRelayer(path)
	w.accts = deriveAccts(seed)
	for _, a := range w.accts {
		mustCall("BankKeeper.SendCoins(funding a harness account)", w.A.App.BankKeeper.SendCoins(w.A.GetContext(), w.A.SenderAcc, a.addr, sdk.NewCoins(sdk.NewInt64Coin("stake", 1000000))))
	}
	w.gov = xibcclient.NewClientProposalHandler(w.A.App.XIBCKeeper.ClientKeeper)
	w.universe = []string{w.B.ChainID, "ghost-net"}
	for _, t := range tss {
		name := t.Name
		if name == "@self" {
			name = w.A.ChainID
		}
		cs := &tsstypes.ClientState{TssAddress: w.accts[t.Acct].str(t.Upper)}
		if t.Name == "@self" {
			// A client under the chain's OWN name: since /repo a9e74e1 the CreateClient proposal refuses it, so it can
			// only come from an imported genesis file (client.InitGenesis stores every genesis client without looking at
			// the native chain name; GenesisState.Validate does not compare them either).  Same keeper call as InitGenesis'.
			w.A.App.XIBCKeeper.ClientKeeper.SetClientState(w.A.GetContext(), name, cs)
		} else {
			cp, err := clienttypes.NewCreateClientProposal("t", "d", name, cs, &tsstypes.ConsensusState{})
			mustCall("clienttypes.NewCreateClientProposal("+name+")", err)
			mustCall("CreateClientProposal.ValidateBasic("+name+")", cp.ValidateBasic())
			mustCall("client proposal handler: HandleCreateClient("+name+")", w.gov(w.A.GetContext(), cp))
		}
		w.universe = append(w.universe, name)
		// a send sequence so that packets can be sent to the TSS chain
		w.A.App.XIBCKeeper.PacketKeeper.SetNextSequenceSend(w.A.GetContext(), w.A.ChainID, name, 1)
	}
	return w
}

// ---------------------------------------------------------------------------------------------
// delivering a signed Cosmos transaction through BaseApp (DeliverTx path, no commit)
// class: 0 accepted, 1 error, 2 recovered panic
func (w *World) deliver(ch *xibctesting.TestChain, a *acct, msgs ...sdk.Msg) (int, *sdk.Result, string) {
	ctx := ch.GetContext()
	acc := ch.App.AccountKeeper.GetAccount(ctx, a.addr)
	tx, err := helpers.GenTx(ch.TxConfig, msgs, sdk.Coins{sdk.NewInt64Coin(sdk.DefaultBondDenom, 0)}, helpers.DefaultGenTxGas*4,
		ch.ChainID, []uint64{acc.GetAccountNumber()}, []uint64{acc.GetSequence()}, a.priv)
	must(err)
	_, res, err := ch.App.BaseApp.Deliver(ch.TxConfig.TxEncoder(), tx)
	if err == nil {
		return 0, res, ""
	}
	if errors.Is(err, sdkerrors.ErrPanic) {
		return 2, nil, short(err.Error())
	}
	return 1, nil, short(err.Error())
}

func short(s string) string {
	if len(s) > 200 {
		return s[:200]
	}
	return s
}

func classOf(f func() error) (c int) {
	defer func() {
		if r := recover(); r != nil {
			c = 2
		}
	}()
	if err := f(); err != nil {
		return 1
	}
	return 0
}

// ---------------------------------------------------------------------------------------------
// Ethereum transaction signed by an account (real state transition incl. hooks)
func (w *World) ethTx(ch *xibctesting.TestChain, ctx sdk.Context, a *acct, to *common.Address, value *big.Int, data []byte) (*evmtypes.MsgEthereumTxResponse, error) {
	chainID := ch.App.EvmKeeper.ChainID()
	nonce := ch.App.EvmKeeper.GetNonce(ctx, a.eth)
	tx := evmtypes.NewTx(chainID, nonce, to, value, config.DefaultGasCap, big.NewInt(0), big.NewInt(0), big.NewInt(0), data, &ethtypes.AccessList{})
	tx.From = a.eth.Hex()
	must(tx.Sign(ethtypes.LatestSignerForChainID(chainID), tests.NewSigner(a.priv)))
	return ch.App.EvmKeeper.EthereumTx(sdk.WrapSDKContext(ctx), tx)
}

func senderAcct(ch *xibctesting.TestChain) *acct {
	return &acct{priv: ch.SenderPrivKey.(*ethsecp256k1.PrivKey), addr: ch.SenderAcc, eth: ch.SenderAddress}
}

// latestPacket view of the packet contract
func latestPacket(ch *xibctesting.TestChain, ctx sdk.Context) packettypes.Packet {
	res, err := ch.App.XIBCKeeper.PacketKeeper.CallEVM(ctx, packetcontract.PacketContract.ABI, packettypes.ModuleAddress,
		packetcontract.PacketContractAddress, "latestPacket")
	must(err)
	var p packettypes.Packet
	must(packetcontract.PacketContract.ABI.UnpackIntoInterface(&p, "latestPacket", res.Ret))
	return p
}

// crossChainCall of the endpoint contract by the chain's funded sender: base-token transfer with a
// base-token relayer fee; returns the packet the packet contract sent.
func (w *World) sendReal(ch *xibctesting.TestChain, dst string, amount, fee int64, feeOption uint64) (packettypes.Packet, error) {
	data := packettypes.CrossChainData{
		DstChain:        dst,
		TokenAddress:    common.Address{},
		Receiver:        strings.ToLower(ch.SenderAddress.String()),
		Amount:          big.NewInt(amount),
		ContractAddress: "",
		CallData:        []byte(""),
		CallbackAddress: common.Address{},
		FeeOption:       feeOption,
	}
	f := packettypes.Fee{TokenAddress: common.Address{}, Amount: big.NewInt(fee)}
	payload, err := endpointcontract.EndpointContract.ABI.Pack("crossChainCall", data, f)
	must(err)
	ctx := ch.GetContext()
	rsp, err := w.ethTx(ch, ctx, senderAcct(ch), &endpointcontract.EndpointContractAddress, big.NewInt(amount+fee), payload)
	if err != nil {
		return packettypes.Packet{}, err
	}
	if rsp.VmError != "" {
		return packettypes.Packet{}, errors.New(rsp.VmError)
	}
	// the packet is the payload of the PacketSent log of the packet contract
	for _, lg := range rsp.Logs {
		if common.HexToAddress(lg.Address) != packetcontract.PacketContractAddress {
			continue
		}
		vals, err := packetcontract.PacketContract.ABI.Unpack(packettypes.PacketSendEvent, lg.Data)
		if err != nil || len(vals) != 1 {
			continue
		}
		var p packettypes.Packet
		if err := p.ABIDecode(vals[0].([]byte)); err != nil {
			return p, err
		}
		return p, nil
	}
	return packettypes.Packet{}, errors.New("no PacketSent log")
}

// ---------------------------------------------------------------------------------------------
// state fingerprint: the whole xibc store, the storage + balances of the three system contracts,
// the balances of all accounts of the case
var sysContracts = []common.Address{packetcontract.PacketContractAddress, endpointcontract.EndpointContractAddress, endpointcontract.ExecuteContractAddress}

func (w *World) fingerprint(ch *xibctesting.TestChain, ctx sdk.Context) string {
	h := sha256.New()
	put := func(b []byte) {
		var l [8]byte
		binary.BigEndian.PutUint64(l[:], uint64(len(b)))
		h.Write(l[:])
		h.Write(b)
	}
	st := ctx.KVStore(ch.App.GetKey(host.StoreKey))
	it := st.Iterator(nil, nil)
	for ; it.Valid(); it.Next() {
		put(it.Key())
		put(it.Value())
	}
	it.Close()
	put([]byte("|evm|"))
	h.Write(contractFingerprint(ch, ctx))
	put([]byte("|accts|"))
	for _, a := range w.accts {
		put([]byte(ch.App.BankKeeper.GetAllBalances(ctx, a.addr).String()))
	}
	put([]byte(ch.App.BankKeeper.GetAllBalances(ctx, ch.SenderAcc).String()))
	return hlib.Hex(h.Sum(nil))
}

// storage and balances (and code hash) of the three XIBC system contracts
func contractFingerprint(ch *xibctesting.TestChain, ctx sdk.Context) []byte {
	h := sha256.New()
	for _, c := range sysContracts {
		type kv struct{ k, v common.Hash }
		var kvs []kv
		ch.App.EvmKeeper.ForEachStorage(ctx, c, func(k, v common.Hash) bool {
			kvs = append(kvs, kv{k, v})
			return true
		})
		sort.Slice(kvs, func(i, j int) bool { return string(kvs[i].k[:]) < string(kvs[j].k[:]) })
		h.Write(c[:])
		for _, e := range kvs {
			h.Write(e.k[:])
			h.Write(e.v[:])
		}
		h.Write([]byte(ch.App.BankKeeper.GetAllBalances(ctx, sdk.AccAddress(c.Bytes())).String()))
		h.Write(ch.App.EvmKeeper.GetAccountOrEmpty(ctx, c).CodeHash)
	}
	return h.Sum(nil)
}

// ---------------------------------------------------------------------------------------------
type RelayerRec struct {
	Address string   `json:"address"`
	Chains  []string `json:"chains"`
	Addrs   []string `json:"addrs"`
}

func (w *World) registry() []RelayerRec {
	out := []RelayerRec{}
	for _, ir := range w.A.App.XIBCKeeper.ClientKeeper.GetAllRelayers(w.A.GetContext()) {
		out = append(out, RelayerRec{Address: ir.Address, Chains: nz(ir.Chains), Addrs: nz(ir.Addresses)})
	}
	return out
}

func nz(s []string) []string {
	if s == nil {
		return []string{}
	}
	return s
}

type ClientFact struct {
	Chain string `json:"chain"`
	TSS   bool   `json:"tss"`
	Addr  string `json:"addr,omitempty"`
}

func (w *World) clients() []ClientFact {
	out := []ClientFact{}
	ctx := w.A.GetContext()
	for _, c := range w.universe {
		cs, ok := w.A.App.XIBCKeeper.ClientKeeper.GetClientState(ctx, c)
		if !ok {
			continue
		}
		if cs.ClientType() == exported.TSS {
			out = append(out, ClientFact{Chain: c, TSS: true, Addr: cs.(*tsstypes.ClientState).TssAddress})
		} else {
			out = append(out, ClientFact{Chain: c})
		}
	}
	return out
}
