package main

import (
	"bytes"
	"crypto/sha256"
	"fmt"
	"strings"

	sdk "github.com/cosmos/cosmos-sdk/types"
	"github.com/gogo/protobuf/proto"
	abci "github.com/tendermint/tendermint/abci/types"

	evmtypes "github.com/tharsis/ethermint/x/evm/types"

	packetcontract "github.com/teleport-network/teleport/syscontracts/xibc_packet"
	tsstypes "github.com/teleport-network/teleport/x/xibc/clients/tss-client/types"
	clienttypes "github.com/teleport-network/teleport/x/xibc/core/client/types"
	"github.com/teleport-network/teleport/x/xibc/core/host"
	packettypes "github.com/teleport-network/teleport/x/xibc/core/packet/types"
	"github.com/teleport-network/teleport/x/xibc/exported"

	xibctesting "github.com/teleport-network/teleport/x/xibc/testing"

	"verifharness/hlib"
)

// ---------------------------------------------------------------------------------------------
// specs

type TSSSpec struct {
	// "@self" = a TSS client stored under the chain's OWN name.  Since /repo a9e74e1 the CreateClient proposal refuses
	// such a client; it can only come from an imported genesis (NewWorld stores it the way InitGenesis does).  Only
	// hand-written corpus histories use it (it is the only way to reach the branches of RecvPacket for packets that
	// are not addressed to this chain); the generator does not.
	Name  string `json:"name"`
	Acct  int    `json:"acct"`
	Upper bool   `json:"upper,omitempty"`
}

type Step struct {
	K string `json:"k"` // gov | gen | raw | update | recv | ack
	// registrations
	Addr   string   `json:"addr,omitempty"`
	Chains []string `json:"chains,omitempty"`
	Addrs  []string `json:"addrs,omitempty"`
	// messages
	Signer int    `json:"signer,omitempty"`
	Upper  bool   `json:"upper,omitempty"`  // msg.Signer in the upper-case bech32 form
	Chain  string `json:"chain,omitempty"`  // update: chain; recv: packet source; ack: packet destination ("@self" = own name)
	Flavor string `json:"flavor,omitempty"` // valid | bad | replay | zero | undec | tssproof
	NewTss int    `json:"new_tss,omitempty"`
	NewUp  bool   `json:"new_up,omitempty"`
	Dst    string `json:"dst,omitempty"` // recv: packet destination ("" = this chain)
	// recv: what the packet carries, i.e. which way the destination callback goes:
	//   ""       transfer data that is not an ABI tuple (the packet contract reports the failure by value)
	//   "cbfail" no transfer data, call data that is not an ABI tuple (onRecvPacket reverts: CallPacket returns an error)
	//   "ok"     no transfer data, call data = a harmless view call (result code 0)
	//   "revert" no transfer data, call data whose inner call reverts (reported by value)
	Payload string `json:"payload,omitempty"`
	FeeOpt  uint64 `json:"fee_opt,omitempty"`
	// content of the acknowledgement submitted by an ack step
	AckRelayer string `json:"ack_relayer,omitempty"`
	AckCode    uint64 `json:"ack_code,omitempty"`
	AckMsg     string `json:"ack_msg,omitempty"`
	AckFeeOpt  uint64 `json:"ack_fee_opt,omitempty"`
}

type Spec struct {
	ID    int       `json:"id"`
	Seed  uint64    `json:"seed"` // account keys
	TSS   []TSSSpec `json:"tss"`
	Steps []Step    `json:"steps"`
}

type AckObs struct {
	Src     string `json:"src"`
	Dst     string `json:"dst"`
	Seq     uint64 `json:"seq"`
	Code    uint64 `json:"code"`
	Result  string `json:"result"` // hex
	Message string `json:"message"`
	Relayer string `json:"relayer"`
	FeeOpt  uint64 `json:"fee_opt"`
}

type StepObs struct {
	// facts tabulated with the real lower-layer functions before the step
	Clients []ClientFact `json:"clients"`
	Self    string       `json:"self"`
	Lower   int          `json:"lower"`
	Cb      *CbFact      `json:"cb,omitempty"` // recv addressed to this chain, lower layer accepted: the tabulated callback
	// the message as built
	SignerStr string  `json:"signer_str,omitempty"`
	Src       string  `json:"src,omitempty"`
	Dst       string  `json:"dst,omitempty"`
	Seq       uint64  `json:"seq,omitempty"`
	Fee       uint64  `json:"fee,omitempty"`
	MsgAck    *AckObs `json:"msg_ack,omitempty"` // ack step: msg.Acknowledgement as the real ABIDecode reads it (nil = error)
	// observed
	Class     int          `json:"class"`
	Err       string       `json:"err,omitempty"`
	Reg       []RelayerRec `json:"reg"`
	Same      bool         `json:"same"`
	Ack       *AckObs      `json:"ack,omitempty"`
	AckStored bool         `json:"ack_stored"`
	Payee     string       `json:"payee,omitempty"`
}

// CbFact: CallPacket(onRecvPacket) + UnpackIntoInterface run by the harness on a discarded branch
// kind: 1 CallPacket returned an error, 2 returned and decoded, 3 returned but does not decode, 4 panic
type CbFact struct {
	Kind    int    `json:"kind"`
	Code    uint64 `json:"code"`
	Result  string `json:"result"` // hex
	Message string `json:"message"`
}

type Result struct {
	Spec  Spec        `json:"spec"`
	Accts []string    `json:"accts"`
	Canon [][2]string `json:"canon"`
	Bech  [][2]string `json:"bech"` // string, "1"/"0"
	Obs   []StepObs   `json:"obs"`
}

// ---------------------------------------------------------------------------------------------
// generator

var addrPool = []string{"0xAbC1", "0xabc1", "0xDEAD00", "0xdead00", "relayer-b", "", "0xABC1"}
var badChains = []string{"ab", "bad/name", ""}
var badAddrs = []string{"notbech32", "", "cosmos1qqqqqqqqqqqqqqqqqqqqqqqqqqqqqqqqnrql8a0"}

func flipCase(r *hlib.Rand, s string) string {
	switch r.Intn(3) {
	case 0:
		return strings.ToUpper(s)
	case 1:
		return strings.ToLower(s)
	}
	return s
}

func genSpec(r *hlib.Rand, id int, nsteps int) Spec {
	sp := Spec{ID: id, Seed: r.U64()}
	accts := deriveAccts(sp.Seed)
	sp.TSS = append(sp.TSS, TSSSpec{Name: "tss-one", Acct: r.Intn(nAccts), Upper: r.Chance(1, 8)})
	if r.Bool() {
		sp.TSS = append(sp.TSS, TSSSpec{Name: "tss-two", Acct: r.Intn(nAccts), Upper: r.Chance(1, 8)})
	}
	chainB := xibctesting.GetChainID(1)
	universe := []string{chainB, "ghost-net"}
	tssAcct := map[string]int{}
	tssUp := map[string]bool{}
	for _, t := range sp.TSS {
		universe = append(universe, t.Name)
		tssAcct[t.Name] = t.Acct
		tssUp[t.Name] = t.Upper
	}
	// shadow registry (only to bias choices towards interesting cases)
	type rec struct{ chains, addrs []string }
	shadow := map[string]rec{}
	listing := func(chain string) []string { // signer strings whose record lists chain
		var out []string
		for a, rc := range shadow {
			for _, c := range rc.chains {
				if c == chain {
					out = append(out, a)
					break
				}
			}
		}
		sortStrings(out)
		return out
	}
	acctOf := func(s string) (int, bool, bool) {
		for i, a := range accts {
			if a.str(false) == s {
				return i, false, true
			}
			if a.str(true) == s {
				return i, true, true
			}
		}
		return 0, false, false
	}
	pickChain := func() string {
		switch x := r.Intn(10); {
		case x < 4:
			return chainB
		case x < 7:
			return "tss-one"
		}
		return universe[r.Intn(len(universe))]
	}
	for len(sp.Steps) < nsteps {
		k := r.Intn(100)
		if len(sp.Steps) < 3 {
			k = 0 // start with a few registrations
		}
		switch {
		case k < 24: // governance registration
			st := Step{K: "gov"}
			switch x := r.Intn(100); {
			case x < 80:
				st.Addr = accts[r.Intn(nAccts)].str(false)
			case x < 92:
				st.Addr = accts[r.Intn(nAccts)].str(true)
			default:
				st.Addr = badAddrs[r.Intn(len(badAddrs))]
			}
			n := 1 + r.Intn(4)
			if r.Chance(1, 20) {
				n = 0
			}
			for i := 0; i < n; i++ {
				if r.Chance(1, 30) {
					st.Chains = append(st.Chains, badChains[r.Intn(len(badChains))])
				} else {
					c := pickChain()
					if c == "@self" {
						c = xibctesting.GetChainID(0)
					}
					st.Chains = append(st.Chains, c)
				}
			}
			if r.Chance(1, 4) && n > 0 {
				// make a TSS account a relayer of its own chain (needed for accepted TSS receives)
				t := sp.TSS[r.Intn(len(sp.TSS))]
				st.Addr = accts[t.Acct].str(false)
				c := t.Name
				if c == "@self" {
					c = xibctesting.GetChainID(0)
				}
				st.Chains[r.Intn(n)] = c
			}
			m := n
			if r.Chance(1, 10) {
				m = r.Intn(5)
			}
			for i := 0; i < m; i++ {
				if r.Chance(1, 5) {
					st.Addrs = append(st.Addrs, accts[r.Intn(nAccts)].str(false))
				} else {
					st.Addrs = append(st.Addrs, addrPool[r.Intn(len(addrPool))])
				}
			}
			if r.Chance(1, 30) {
				st.K = "raw" // genesis path: no validation
			} else if r.Chance(1, 10) {
				st.K = "gen" // genesis path with GenesisState.Validate
			}
			ok := st.K == "raw" || (len(st.Addrs) > 0 && len(st.Addrs) == len(st.Chains))
			if _, _, isAcct := acctOf(st.Addr); ok && (isAcct || st.K == "raw") {
				shadow[st.Addr] = rec{st.Chains, st.Addrs}
			}
			sp.Steps = append(sp.Steps, st)
		default:
			st := Step{Chain: pickChain()}
			switch {
			case k < 50:
				st.K = "update"
			case k < 76:
				st.K = "recv"
			default:
				st.K = "ack"
			}
			real := st.Chain
			if real == "@self" {
				real = xibctesting.GetChainID(0)
			}
			// signer: biased towards accounts that could be accepted
			st.Signer = r.Intn(nAccts)
			st.Upper = r.Chance(1, 12)
			if ta, isTss := tssAcct[st.Chain]; isTss && r.Chance(3, 5) {
				st.Signer, st.Upper = ta, tssUp[st.Chain] && r.Chance(3, 4)
			} else if l := listing(real); len(l) > 0 && r.Chance(3, 5) {
				if i, up, ok := acctOf(l[r.Intn(len(l))]); ok {
					st.Signer, st.Upper = i, up
				}
			}
			switch x := r.Intn(10); {
			case x < 7:
				st.Flavor = "valid"
			case x < 9:
				st.Flavor = "bad"
			default:
				st.Flavor = "replay"
			}
			if _, isTss := tssAcct[st.Chain]; isTss && st.K != "update" && r.Chance(1, 5) {
				// attack probe: the configured TSS address supplied as the PROOF by some other signer
				st.Flavor = "tssproof"
			}
			switch st.K {
			case "update":
				if st.Flavor == "replay" {
					st.Flavor = "valid"
				}
				st.NewTss = r.Intn(nAccts)
				if ta, isTss := tssAcct[st.Chain]; isTss && r.Chance(2, 3) {
					st.NewTss = ta // keep the TSS account (so that later steps still have a chance)
					st.NewUp = tssUp[st.Chain]
				} else {
					st.NewUp = r.Chance(1, 10)
				}
			case "recv":
				st.FeeOpt = uint64(r.Intn(3))
				st.Payload = []string{"", "", "cbfail", "cbfail", "cbfail", "ok", "ok", "revert", "revert", ""}[r.Intn(10)]
				if st.Chain == "@self" {
					if r.Bool() {
						st.Dst = "ghost-net"
					} else {
						st.Dst = chainB
					}
				}
			case "ack":
				if st.Flavor == "replay" {
					st.Flavor = []string{"zero", "undec", "valid"}[r.Intn(3)]
				}
				st.AckCode = uint64(r.Intn(3))
				if r.Chance(1, 3) {
					st.AckMsg = "m"
				}
				st.AckFeeOpt = uint64(r.Intn(2))
				// relayer named in the acknowledgement: mostly one that some record lists for that chain
				var cands []string
				for _, a := range listing(real) {
					rc := shadow[a]
					for i, c := range rc.chains {
						if c == real && i < len(rc.addrs) {
							cands = append(cands, rc.addrs[i])
						}
					}
				}
				switch x := r.Intn(10); {
				case x < 6 && len(cands) > 0:
					st.AckRelayer = flipCase(r, cands[r.Intn(len(cands))])
				case x < 8:
					st.AckRelayer = addrPool[r.Intn(len(addrPool))]
				default:
					st.AckRelayer = "nobody"
				}
			}
			sp.Steps = append(sp.Steps, st)
		}
	}
	return sp
}

func sortStrings(s []string) {
	for i := 1; i < len(s); i++ {
		for j := i; j > 0 && s[j] < s[j-1]; j-- {
			s[j], s[j-1] = s[j-1], s[j]
		}
	}
}

// ---------------------------------------------------------------------------------------------
// executor

func (w *World) tssAddr(chain string) (string, bool) {
	cs, ok := w.A.App.XIBCKeeper.ClientKeeper.GetClientState(w.A.GetContext(), chain)
	if !ok || cs.ClientType() != exported.TSS {
		return "", false
	}
	return cs.(*tsstypes.ClientState).TssAddress, true
}

func (w *World) isLight(chain string) bool {
	cs, ok := w.A.App.XIBCKeeper.ClientKeeper.GetClientState(w.A.GetContext(), chain)
	return ok && cs.ClientType() != exported.TSS
}

// make B's latest state provable on A: two blocks on B, then a direct (set-up) client update on A
func (w *World) syncClientOfB() {
	w.coord.CommitBlock(w.B)
	w.coord.CommitBlock(w.B)
	hdr, err := w.A.ConstructUpdateTMClientHeader(w.B, w.B.ChainID)
	mustCall("TestChain.ConstructUpdateTMClientHeader(counterparty)", err)
	mustCall("ClientKeeper.UpdateClient(set-up sync of the counterparty's client)", w.A.App.XIBCKeeper.ClientKeeper.UpdateClient(w.A.GetContext(), w.B.ChainID, hdr))
}

func decodeAck(bz []byte) *AckObs {
	var a packettypes.Acknowledgement
	ok := true
	func() {
		defer func() {
			if r := recover(); r != nil {
				ok = false
			}
		}()
		if err := a.ABIDecode(bz); err != nil {
			ok = false
		}
	}()
	if !ok {
		return nil
	}
	return &AckObs{Code: a.Code, Result: hlib.Hex(a.Result), Message: a.Message, Relayer: a.Relayer, FeeOpt: a.FeeOption}
}

func tamper(b []byte) []byte {
	c := append([]byte(nil), b...)
	if len(c) == 0 {
		return []byte{1}
	}
	c[len(c)/2] ^= 0x55
	return c
}

func (w *World) runStep(st Step, canon map[string]string, bech map[string]bool) StepObs {
	A := w.A
	pk := A.App.XIBCKeeper.PacketKeeper
	ck := A.App.XIBCKeeper.ClientKeeper
	o := StepObs{AckStored: true}
	note := func(s string) {
		if ad, err := sdk.AccAddressFromBech32(s); err == nil {
			canon[s] = ad.String()
			bech[s] = true
		} else {
			bech[s] = false
		}
	}
	chain := st.Chain
	if chain == "@self" {
		chain = A.ChainID
	}
	var signer *acct
	var msg sdk.Msg
	var ackPacket *packettypes.Packet
	switch st.K {
	case "gov", "raw", "gen":
		note(st.Addr)
	default:
		signer = w.accts[st.Signer]
		o.SignerStr = signer.str(st.Upper)
		note(o.SignerStr)
	}
	// ---- build the message (set-up work on the counterparty happens here, before the measured window)
	switch st.K {
	case "update":
		var hdr exported.Header
		if w.isLight(chain) {
			w.coord.CommitBlock(w.B)
			h, err := A.ConstructUpdateTMClientHeader(w.B, chain)
			must(err)
			if st.Flavor == "bad" {
				cp := *h
				cp.TrustedHeight = clienttypes.NewHeight(h.TrustedHeight.RevisionNumber, h.TrustedHeight.RevisionHeight+777)
				hdr = &cp
			} else {
				hdr = h
			}
		} else {
			hdr = &tsstypes.Header{TssAddress: w.accts[st.NewTss].str(st.NewUp)}
		}
		m, err := clienttypes.NewMsgUpdateClient(chain, hdr, signer.addr)
		must(err)
		m.Signer = o.SignerStr
		msg = m
		cctx, _ := A.GetContext().CacheContext()
		o.Lower = classOf(func() error { return ck.UpdateClient(cctx, chain, hdr) })
	case "recv":
		var m *packettypes.MsgRecvPacket
		dst := st.Dst
		if dst == "" {
			dst = A.ChainID
		}
		if prev, ok := w.lastRecv[chain]; ok && st.Flavor == "replay" {
			cp := *prev
			m = &cp
		} else if w.isLight(chain) {
			B := w.B
			seq := B.App.XIBCKeeper.PacketKeeper.GetNextSequenceSend(B.GetContext(), B.ChainID, A.ChainID)
			td, cd := w.payload(st.Payload)
			p := packettypes.NewPacket(B.ChainID, A.ChainID, seq, "sender", td, cd, "", st.FeeOpt)
			mustCall("counterparty PacketKeeper.SendPacket(packet to be received)", B.App.XIBCKeeper.PacketKeeper.SendPacket(B.GetContext(), p))
			w.syncClientOfB()
			proof, ph := B.QueryProof(host.PacketCommitmentKey(B.ChainID, A.ChainID, seq))
			if st.Flavor == "bad" {
				proof = tamper(proof)
			}
			bz, err := p.ABIPack()
			must(err)
			m = packettypes.NewMsgRecvPacket(bz, proof, ph, signer.addr)
		} else {
			w.tssSeq++
			td, cd := w.payload(st.Payload)
			p := packettypes.NewPacket(chain, dst, w.tssSeq, "sender", td, cd, "", st.FeeOpt)
			if st.Flavor == "bad" {
				p.Sequence = 0 // fails packet validation
			}
			bz, err := p.ABIPack()
			must(err)
			proof := []byte{1}
			if ta, ok := w.tssAddr(chain); ok && st.Flavor == "tssproof" {
				proof = []byte(ta)
			}
			m = packettypes.NewMsgRecvPacket(bz, proof, clienttypes.NewHeight(0, 1), signer.addr)
		}
		m.Signer = o.SignerStr
		msg = m
		var p packettypes.Packet
		must(p.ABIDecode(m.Packet))
		o.Src, o.Dst, o.Seq, o.Fee = p.SrcChain, p.DstChain, p.Sequence, p.FeeOption
		low := *m
		if ta, ok := w.tssAddr(p.SrcChain); ok {
			low.Signer = ta
		}
		cctx, _ := A.GetContext().CacheContext()
		o.Lower = classOf(func() error { return pk.RecvPacket(cctx, &low) })
		if o.Lower == 0 && p.DstChain == ck.GetChainName(cctx) {
			// the destination callback, run by the harness itself on a branch of that branch
			o.Cb = tabulateCallback(func(c sdk.Context) (*evmtypes.MsgEthereumTxResponse, error) {
				return pk.CallPacket(c, "onRecvPacket", p)
			}, cctx)
		}
	case "ack":
		ack := packettypes.NewAcknowledgement(st.AckCode, nil, st.AckMsg, st.AckRelayer, st.AckFeeOpt)
		if st.Flavor == "zero" {
			ack = packettypes.Acknowledgement{}
		}
		ackBz, err := ack.ABIPack()
		must(err)
		if st.Flavor == "undec" {
			ackBz = []byte("not an abi tuple")
		}
		var p packettypes.Packet
		proof, ph := []byte{1}, clienttypes.NewHeight(0, 1)
		_, hasClient := ck.GetClientState(A.GetContext(), chain)
		sent := false
		if hasClient && chain != A.ChainID {
			var err error
			p, err = w.sendReal(A, chain, 100, 7, 0)
			sent = err == nil
		}
		if !sent {
			p = *packettypes.NewPacket(A.ChainID, chain, 77, "sender", []byte("transfer"), nil, "", 0)
		} else if w.isLight(chain) {
			B := w.B
			if err := B.App.XIBCKeeper.PacketKeeper.WriteAcknowledgement(B.GetContext(), &p, ackBz); err != nil {
				panic(fmt.Sprintf("%v: %+v", err, p))
			}
			w.syncClientOfB()
			proof, ph = B.QueryProof(host.PacketAcknowledgementKey(p.SrcChain, p.DstChain, p.Sequence))
		}
		if st.Flavor == "bad" {
			if w.isLight(chain) {
				proof = tamper(proof)
			} else {
				p.Sequence += 1000 // no such commitment
			}
		}
		if ta, ok := w.tssAddr(chain); ok && st.Flavor == "tssproof" {
			proof = []byte(ta)
		}
		pbz, err := p.ABIPack()
		must(err)
		m := packettypes.NewMsgAcknowledgement(pbz, ackBz, proof, ph, signer.addr)
		m.Signer = o.SignerStr
		msg = m
		ackPacket = &p
		o.Src, o.Dst, o.Seq = p.SrcChain, p.DstChain, p.Sequence
		o.MsgAck = decodeAck(ackBz)
		low := *m
		if ta, ok := w.tssAddr(p.DstChain); ok {
			low.Signer = ta
		}
		cctx, _ := A.GetContext().CacheContext()
		o.Lower = classOf(func() error { return pk.AcknowledgePacket(cctx, &low) })
	}
	_ = ackPacket
	// ---- facts
	o.Clients = w.clients()
	o.Self = ck.GetChainName(A.GetContext())
	// ---- the measured window
	pre := w.fingerprint(A, A.GetContext())
	bal := w.balances()
	var res *sdk.Result
	switch st.K {
	case "gov":
		p := clienttypes.NewRegisterRelayerProposal("title", "description", st.Addr, st.Chains, st.Addrs)
		if err := p.ValidateBasic(); err != nil {
			o.Class, o.Err = 1, short(err.Error())
		} else {
			o.Class = classOf(func() error { return w.gov(A.GetContext(), p) })
		}
	case "gen":
		// genesis path WITH GenesisState.Validate's per-relayer check, then InitGenesis' RegisterRelayers
		ir := clienttypes.IdentifiedRelayer{Address: st.Addr, Chains: st.Chains, Addresses: st.Addrs}
		if err := ir.Validate(); err != nil {
			o.Class, o.Err = 1, short(err.Error())
		} else {
			o.Class = classOf(func() error { ck.RegisterRelayers(A.GetContext(), st.Addr, st.Chains, st.Addrs); return nil })
		}
	case "raw":
		o.Class = classOf(func() error { ck.RegisterRelayers(A.GetContext(), st.Addr, st.Chains, st.Addrs); return nil })
	default:
		o.Class, res, o.Err = w.deliver(A, signer, msg)
	}
	post := w.fingerprint(A, A.GetContext())
	o.Same = pre == post
	o.Reg = w.registry()
	for _, rr := range o.Reg {
		note(rr.Address)
	}
	if res != nil {
		for _, ev := range res.Events {
			if ev.Type != proto.MessageName(&packettypes.EventWriteAck{}) {
				continue
			}
			pm, err := sdk.ParseTypedEvent(abci.Event(ev))
			must(err)
			wa := pm.(*packettypes.EventWriteAck)
			a := decodeAck(wa.Ack)
			if a == nil {
				a = &AckObs{Relayer: "<undecodable>"}
			}
			a.Src, a.Dst = wa.SrcChain, wa.DstChain
			fmt.Sscan(wa.Sequence, &a.Seq)
			o.Ack = a
			h := sha256.Sum256(wa.Ack)
			stored, _ := pk.GetPacketAcknowledgement(A.GetContext(), a.Src, a.Dst, a.Seq)
			o.AckStored = bytes.Equal(stored, h[:])
		}
		if st.K == "recv" {
			w.lastRecv[chain] = msg.(*packettypes.MsgRecvPacket)
		}
		if st.K == "ack" {
			after := w.balances()
			for i := range after {
				if after[i].GT(bal[i]) {
					o.Payee = w.accts[i].addr.String()
				}
			}
		}
	}
	return o
}

// payload: transfer data / call data of a packet to be received (see Step.Payload)
func (w *World) payload(kind string) (transfer, call []byte) {
	pack := func(inner []byte) []byte {
		cd, err := (&packettypes.CallData{ContractAddress: strings.ToLower(packetcontract.PacketContractAddress.Hex()), CallData: inner}).ABIPack()
		must(err)
		return cd
	}
	switch kind {
	case "cbfail":
		return nil, []byte("not-abi-call-data")
	case "ok":
		view, err := packetcontract.PacketContract.ABI.Pack("chainName")
		must(err)
		return nil, pack(view)
	case "revert":
		// a privileged method of the packet contract called from the execute contract: the inner call fails
		priv, err := packetcontract.PacketContract.ABI.Pack("setChainName", "renamed-by-packet")
		must(err)
		return nil, pack(priv)
	}
	return []byte("transfer"), nil
}

func tabulateCallback(call func(sdk.Context) (*evmtypes.MsgEthereumTxResponse, error), ctx sdk.Context) (f *CbFact) {
	f = &CbFact{}
	defer func() {
		if r := recover(); r != nil {
			f = &CbFact{Kind: 4}
		}
	}()
	c2, _ := ctx.CacheContext()
	res, err := call(c2)
	if err != nil {
		f.Kind = 1
		return f
	}
	var result packettypes.Result
	if err := packetcontract.PacketContract.ABI.UnpackIntoInterface(&result, "onRecvPacket", res.Ret); err != nil {
		f.Kind = 3
		return f
	}
	return &CbFact{Kind: 2, Code: result.Code, Result: hlib.Hex(result.Result), Message: result.Message}
}

func (w *World) balances() []sdk.Int {
	var out []sdk.Int
	for _, a := range w.accts {
		out = append(out, w.A.App.BankKeeper.GetBalance(w.A.GetContext(), a.addr, "stake").Amount)
	}
	return out
}

// "@acctN" / "@ACCTN" in a hand-written spec stand for the lower / upper-case bech32 address of account N
func resolve(s string, accts []*acct) string {
	var n int
	if _, err := fmt.Sscanf(s, "@acct%d", &n); err == nil && n < len(accts) {
		return accts[n].str(false)
	}
	if _, err := fmt.Sscanf(s, "@ACCT%d", &n); err == nil && n < len(accts) {
		return accts[n].str(true)
	}
	return s
}

func runSpec(sp Spec) Result {
	w := NewWorld(sp.Seed, sp.TSS)
	steps := make([]Step, len(sp.Steps))
	copy(steps, sp.Steps)
	for i := range steps {
		steps[i].Addr = resolve(steps[i].Addr, w.accts)
		steps[i].AckRelayer = resolve(steps[i].AckRelayer, w.accts)
		steps[i].Addrs = append([]string(nil), steps[i].Addrs...)
		for j := range steps[i].Addrs {
			steps[i].Addrs[j] = resolve(steps[i].Addrs[j], w.accts)
		}
	}
	sp.Steps = steps
	res := Result{Spec: sp}
	for _, a := range w.accts {
		res.Accts = append(res.Accts, a.addr.String())
	}
	canon := map[string]string{}
	bech := map[string]bool{}
	for _, st := range sp.Steps {
		res.Obs = append(res.Obs, w.runStep(st, canon, bech))
	}
	var ks []string
	for k := range canon {
		ks = append(ks, k)
	}
	sortStrings(ks)
	for _, k := range ks {
		res.Canon = append(res.Canon, [2]string{k, canon[k]})
	}
	ks = ks[:0]
	for k := range bech {
		ks = append(ks, k)
	}
	sortStrings(ks)
	for _, k := range ks {
		v := "0"
		if bech[k] {
			v = "1"
		}
		res.Bech = append(res.Bech, [2]string{k, v})
	}
	return res
}
