package main

// Mode contracts: EVERY non-view method of the packet, endpoint and execute ABIs x caller kinds, on the
// real byte code of the repo.  Each attempt runs on a discarded branch of the chain state.
//
// caller kinds: 0 externally owned account (signed Ethereum tx), 1 deployed contract (hand-assembled
// forwarding proxy), 2 nested call through the execute contract, 3 call data carried inside a received
// cross-chain packet (real msg-server RecvPacket), 4 xibc packet module address, 5 aggregate module address
// (both through the keepers' CallEVMWithData), 6 packet contract as caller, 7 endpoint contract as caller,
// 8 (endpoint.onRecvPacket only) the packet contract while it executes the module's onRecvPacket — the real
// nested legitimate path (effect = the module's call returned result code 0).

import (
	"fmt"
	"math/big"
	"reflect"
	"sort"
	"strings"

	sdk "github.com/cosmos/cosmos-sdk/types"
	"github.com/ethereum/go-ethereum/accounts/abi"
	"github.com/ethereum/go-ethereum/common"
	"github.com/ethereum/go-ethereum/crypto"
	"github.com/gogo/protobuf/proto"
	abci "github.com/tendermint/tendermint/abci/types"

	"github.com/teleport-network/teleport/syscontracts"
	endpointcontract "github.com/teleport-network/teleport/syscontracts/xibc_endpoint"
	packetcontract "github.com/teleport-network/teleport/syscontracts/xibc_packet"
	aggregatetypes "github.com/teleport-network/teleport/x/aggregate/types"
	clienttypes "github.com/teleport-network/teleport/x/xibc/core/client/types"
	packettypes "github.com/teleport-network/teleport/x/xibc/core/packet/types"

	"verifharness/hlib"
)

type CObs struct {
	Contract int    `json:"contract"` // 0 packet, 1 endpoint, 2 execute
	Method   string `json:"method"`
	Sig      string `json:"sig"`
	Mut      string `json:"mut"`
	Variant  int    `json:"variant"` // 0 = crafted valid-looking arguments, >0 = sampled from the ABI types
	Caller   int    `json:"caller"`
	Effect   bool   `json:"effect"` // the call of the method itself succeeded
	Same     bool   `json:"same"`   // contract state identical to the reference
	Note     string `json:"note,omitempty"`
	Args     string `json:"args,omitempty"` // hex of the call data (replay)
}

// runtime code of the forwarding proxy: calldata = target (32-byte word) ++ payload; CALLs target with
// payload and all gas, returns the 32-byte success flag (never reverts).
//   PUSH1 20 CALLDATASIZE SUB | DUP1 PUSH1 20 PUSH1 0 CALLDATACOPY | PUSH1 0 PUSH1 0 DUP3 PUSH1 0 PUSH1 0
//   PUSH1 0 CALLDATALOAD GAS CALL | PUSH1 0 MSTORE | PUSH1 20 PUSH1 0 RETURN
var proxyRuntime = hlib.UnHex("602036038060206000376000600082600060006000355af160005260206000f3")

// init code: CODECOPY the 32 runtime bytes (at offset 12) to memory and RETURN them
var proxyInit = append(hlib.UnHex("6020600c60003960206000f3"), proxyRuntime...)

type cstate map[string]string

func (w *World) contractState(ctx sdk.Context) cstate {
	st := cstate{}
	for _, c := range sysContracts {
		w.A.App.EvmKeeper.ForEachStorage(ctx, c, func(k, v common.Hash) bool {
			st[c.Hex()+"/"+k.Hex()] = v.Hex()
			return true
		})
		st[c.Hex()+"/balance"] = w.A.App.BankKeeper.GetAllBalances(ctx, sdk.AccAddress(c.Bytes())).String()
		st[c.Hex()+"/code"] = hlib.Hex(w.A.App.EvmKeeper.GetAccountOrEmpty(ctx, c).CodeHash)
	}
	// fee payouts and token movements show up in account balances
	for i, a := range w.accts {
		st[fmt.Sprintf("acct%d", i)] = w.A.App.BankKeeper.GetAllBalances(ctx, a.addr).String()
	}
	return st
}

func diffKeys(a, b cstate) map[string]bool {
	d := map[string]bool{}
	for k, v := range a {
		if b[k] != v {
			d[k] = true
		}
	}
	for k, v := range b {
		if a[k] != v {
			d[k] = true
		}
	}
	return d
}

// sample a value of an ABI type
func sampleArg(t abi.Type, r *hlib.Rand, w *World) reflect.Value {
	strs := []string{"tss-one", w.A.ChainID, "other-chain", "", strings.ToLower(w.accts[0].eth.Hex())}
	switch t.T {
	case abi.StringTy:
		return reflect.ValueOf(strs[r.Intn(len(strs))])
	case abi.BytesTy:
		return reflect.ValueOf(r.Bytes(r.Intn(40)))
	case abi.BoolTy:
		return reflect.ValueOf(r.Bool())
	case abi.AddressTy:
		c := []common.Address{{}, w.accts[1].eth, packetcontract.PacketContractAddress, common.HexToAddress(syscontracts.WTELEContractAddress)}
		return reflect.ValueOf(c[r.Intn(len(c))])
	case abi.UintTy, abi.IntTy:
		n := int64(r.Intn(5))
		v := reflect.New(t.GetType()).Elem()
		if v.Kind() == reflect.Ptr {
			return reflect.ValueOf(big.NewInt(n))
		}
		v.SetUint(uint64(n))
		return v
	case abi.TupleTy:
		v := reflect.New(t.GetType()).Elem()
		for i, el := range t.TupleElems {
			v.Field(i).Set(sampleArg(*el, r, w))
		}
		return v
	case abi.SliceTy:
		return reflect.MakeSlice(t.GetType(), 0, 0)
	}
	panic("unsupported ABI type " + t.String())
}

func runContracts(seed uint64, o *hlib.Out) {
	r := hlib.NewRand(seed ^ 0xC06B)
	w := NewWorld(seed, []TSSSpec{{Name: "tss-one", Acct: 0}})
	A := w.A
	tss := w.accts[0]
	eoa := w.accts[1]
	// the TSS account is also the registered relayer of tss-one (so that receives carrying call data are authorized)
	A.App.XIBCKeeper.ClientKeeper.RegisterRelayers(A.GetContext(), tss.addr.String(), []string{"tss-one"}, []string{"0xrelayer"})
	// a packet really sent (with a fee) so that acknowledgement-side methods have something to work on
	setup := []string{}
	sent, err := w.sendReal(A, "tss-one", 100, 7, 0)
	if err != nil {
		setup = append(setup, "send: "+err.Error())
		sent = *packettypes.NewPacket(A.ChainID, "tss-one", 1, "0xsender", []byte("t"), nil, "", 0)
	}
	// tokens: T1 bound with a supply limit, T2 bound, T3 unbound
	T1, T2, T3 := common.HexToAddress("0x1111111111111111111111111111111111111101"), common.HexToAddress("0x1111111111111111111111111111111111111102"), common.HexToAddress("0x1111111111111111111111111111111111111103")
	if _, err := A.App.AggregateKeeper.AddERC20TraceToTransferContract(A.GetContext(), T1, "0xori1", "tss-one", 0); err != nil {
		setup = append(setup, "bind T1: "+err.Error())
	}
	if _, err := A.App.AggregateKeeper.AddERC20TraceToTransferContract(A.GetContext(), T2, "0xori2", "tss-one", 0); err != nil {
		setup = append(setup, "bind T2: "+err.Error())
	}
	if _, err := A.App.AggregateKeeper.EnableTimeBasedSupplyLimitInTransferContract(A.GetContext(), T1, big.NewInt(100), big.NewInt(1000), big.NewInt(500), big.NewInt(1)); err != nil {
		setup = append(setup, "limit T1: "+err.Error())
	}
	// deploy the forwarding proxy from the EOA (real CREATE transaction)
	nonce := A.App.EvmKeeper.GetNonce(A.GetContext(), eoa.eth)
	proxy := crypto.CreateAddress(eoa.eth, nonce)
	rsp, err := w.ethTx(A, A.GetContext(), eoa, nil, big.NewInt(0), proxyInit)
	must(err)
	if rsp.VmError != "" {
		panic("proxy deployment failed: " + rsp.VmError)
	}

	type target struct {
		id   int
		addr common.Address
		abi  abi.ABI
	}
	targets := []target{
		{0, packetcontract.PacketContractAddress, packetcontract.PacketContract.ABI},
		{1, endpointcontract.EndpointContractAddress, endpointcontract.EndpointContract.ABI},
		{2, endpointcontract.ExecuteContractAddress, endpointcontract.ExecuteContract.ABI},
	}
	viewCall, err := packetcontract.PacketContract.ABI.Pack("chainName")
	must(err)
	inPacket := func(seq uint64, callData []byte) packettypes.Packet {
		return *packettypes.NewPacket("tss-one", A.ChainID, seq, "0xsender", nil, callData, "", 0)
	}
	harmless, err := (&packettypes.CallData{ContractAddress: strings.ToLower(packetcontract.PacketContractAddress.Hex()), CallData: viewCall}).ABIPack()
	must(err)
	okAck := packettypes.Ack{Code: 0, Result: []byte{}, Message: "", Relayer: "0xrelayer", FeeOption: 0}
	nextSeq := A.App.XIBCKeeper.PacketKeeper.GetNextSequenceSend(A.GetContext(), A.ChainID, "tss-one")
	crafted := map[string][]interface{}{
		"0/setSequence":                 {"tss-one", nextSeq + 1},
		"0/setAckStatus":                {"tss-one", sent.Sequence, uint8(1)},
		"0/setChainName":                {"renamed-chain"},
		"0/sendPacketFeeToRelayer":      {"tss-one", sent.Sequence, w.accts[2].eth},
		"0/onRecvPacket":                {inPacket(900, harmless)},
		"0/OnAcknowledgePacket":         {sent, okAck},
		"0/sendPacket":                  {*packettypes.NewPacket(A.ChainID, "tss-one", nextSeq, "0xsender", []byte("t"), nil, "", 0), packettypes.Fee{Amount: big.NewInt(0)}},
		"0/addPacketFee":                {"tss-one", sent.Sequence, big.NewInt(0)},
		"1/bindToken":                   {T3, "0xori3", "tss-one", uint8(0)},
		"1/enableTimeBasedSupplyLimit":  {T2, big.NewInt(100), big.NewInt(1000), big.NewInt(500), big.NewInt(1)},
		"1/disableTimeBasedSupplyLimit": {T1},
		"1/onRecvPacket":                {inPacket(901, harmless)},
		"1/onAcknowledgementPacket":     {sent, uint64(0), []byte{}, ""},
		"1/crossChainCall": {packettypes.CrossChainData{DstChain: "tss-one", Receiver: "0xreceiver", Amount: big.NewInt(0),
			ContractAddress: "0x0000000000000000000000000000000000000001", CallData: []byte{1}}, packettypes.Fee{Amount: big.NewInt(0)}},
		"2/execute": {packettypes.CallData{ContractAddress: strings.ToLower(packetcontract.PacketContractAddress.Hex()), CallData: viewCall}},
	}

	pseq := uint64(1000)
	// one attempt: returns (effect, same, note)
	attempt := func(tg target, caller int, payload []byte) (bool, bool, string) {
		cctx, _ := A.GetContext().CacheContext()
		pre := w.contractState(cctx)
		effect, note := false, ""
		switch caller {
		case 0:
			rsp, err := w.ethTx(A, cctx, eoa, &tg.addr, big.NewInt(0), payload)
			effect = err == nil && rsp.VmError == ""
			if err != nil {
				note = short(err.Error())
			} else {
				note = rsp.VmError
			}
		case 1:
			data := append(common.LeftPadBytes(tg.addr.Bytes(), 32), payload...)
			rsp, err := w.ethTx(A, cctx, eoa, &proxy, big.NewInt(0), data)
			if err != nil || rsp.VmError != "" || len(rsp.Ret) != 32 {
				note = "outer tx failed"
			} else {
				effect = new(big.Int).SetBytes(rsp.Ret).Sign() != 0
			}
		case 2:
			data, err := endpointcontract.ExecuteContract.ABI.Pack("execute", packettypes.CallData{ContractAddress: strings.ToLower(tg.addr.Hex()), CallData: payload})
			must(err)
			rsp, err := w.ethTx(A, cctx, eoa, &endpointcontract.ExecuteContractAddress, big.NewInt(0), data)
			if err != nil || rsp.VmError != "" {
				note = "outer tx failed"
			} else {
				vals, err := endpointcontract.ExecuteContract.ABI.Unpack("execute", rsp.Ret)
				must(err)
				effect = vals[0].(bool)
			}
		case 3:
			run := func(ctx sdk.Context, pl []byte) (bool, cstate, string) {
				pseq++
				cd, err := (&packettypes.CallData{ContractAddress: strings.ToLower(tg.addr.Hex()), CallData: pl}).ABIPack()
				must(err)
				p := inPacket(pseq, cd)
				bz, err := p.ABIPack()
				must(err)
				msg := packettypes.NewMsgRecvPacket(bz, []byte{1}, clienttypes.NewHeight(0, 1), tss.addr)
				ctx = ctx.WithEventManager(sdk.NewEventManager())
				if _, err := A.App.XIBCKeeper.RecvPacket(sdk.WrapSDKContext(ctx), msg); err != nil {
					return false, w.contractState(ctx), "recv rejected: " + short(err.Error())
				}
				code := uint64(99)
				for _, ev := range ctx.EventManager().Events() {
					if ev.Type != proto.MessageName(&packettypes.EventWriteAck{}) {
						continue
					}
					pm, err := sdk.ParseTypedEvent(abci.Event(ev))
					must(err)
					if a := decodeAck(pm.(*packettypes.EventWriteAck).Ack); a != nil {
						code = a.Code
					}
				}
				return code == 0, w.contractState(ctx), fmt.Sprintf("ack code %d", code)
			}
			// control: same target, a selector no method has
			c2, _ := A.GetContext().CacheContext()
			pseq0 := pseq
			_, ctrl, _ := run(c2, []byte{0xde, 0xad, 0xbe, 0xef})
			pseq = pseq0 // the test packet gets the same sequence number as the control
			var post cstate
			effect, post, note = run(cctx, payload)
			volatile := diffKeys(pre, ctrl)
			same := true
			for k := range diffKeys(ctrl, post) {
				if !volatile[k] {
					same = false
				}
			}
			return effect, same, note
		case 4, 5, 6, 7:
			from := map[int]common.Address{4: packettypes.ModuleAddress, 5: aggregatetypes.ModuleAddress,
				6: packetcontract.PacketContractAddress, 7: endpointcontract.EndpointContractAddress}[caller]
			var err error
			if caller == 5 {
				_, err = A.App.AggregateKeeper.CallEVMWithData(cctx, from, &tg.addr, payload)
			} else {
				_, err = A.App.XIBCKeeper.PacketKeeper.CallEVMWithData(cctx, from, &tg.addr, payload)
			}
			effect = err == nil
			if err != nil {
				note = short(err.Error())
			}
		}
		post := w.contractState(cctx)
		return effect, len(diffKeys(pre, post)) == 0, note
	}

	for _, s := range setup {
		o.Emit(CObs{Contract: -1, Method: "setup", Note: s})
	}
	for _, tg := range targets {
		var names []string
		for n := range tg.abi.Methods {
			names = append(names, n)
		}
		sort.Strings(names)
		for _, n := range names {
			m := tg.abi.Methods[n]
			if m.IsConstant() {
				continue
			}
			for variant := 0; variant < 3; variant++ {
				var payload []byte
				key := fmt.Sprintf("%d/%s", tg.id, n)
				if args, ok := crafted[key]; ok && variant == 0 {
					payload, err = tg.abi.Pack(n, args...)
					must(err)
				} else {
					var args []interface{}
					for _, in := range m.Inputs {
						args = append(args, sampleArg(in.Type, r, w).Interface())
					}
					payload, err = tg.abi.Pack(n, args...)
					must(err)
				}
				for caller := 0; caller < 8; caller++ {
					eff, same, note := attempt(tg, caller, payload)
					o.Emit(CObs{Contract: tg.id, Method: n, Sig: m.Sig, Mut: m.StateMutability, Variant: variant, Caller: caller,
						Effect: eff, Same: same, Note: note, Args: hlib.Hex(payload)})
				}
				if key == "1/onRecvPacket" && variant == 0 {
					// same packet argument, through the packet contract on behalf of the module
					pl, err := packetcontract.PacketContract.ABI.Pack("onRecvPacket", crafted[key]...)
					must(err)
					cctx, _ := A.GetContext().CacheContext()
					pre := w.contractState(cctx)
					res, err := A.App.XIBCKeeper.PacketKeeper.CallEVMWithData(cctx, packettypes.ModuleAddress, &packetcontract.PacketContractAddress, pl)
					eff, note := false, ""
					if err == nil {
						var result packettypes.Result
						must(packetcontract.PacketContract.ABI.UnpackIntoInterface(&result, "onRecvPacket", res.Ret))
						eff = result.Code == 0
						note = fmt.Sprintf("result code %d %s", result.Code, result.Message)
					} else {
						note = short(err.Error())
					}
					o.Emit(CObs{Contract: tg.id, Method: n, Sig: m.Sig, Mut: m.StateMutability, Variant: variant, Caller: 8,
						Effect: eff, Same: len(diffKeys(pre, w.contractState(cctx))) == 0, Note: note, Args: hlib.Hex(payload)})
				}
			}
		}
	}
	// positive controls: a harmless view through every indirect path must succeed
	for caller := 0; caller < 4; caller++ {
		eff, same, note := attempt(targets[0], caller, viewCall)
		o.Emit(CObs{Contract: 0, Method: "chainName", Sig: "chainName()", Mut: "view", Caller: caller, Effect: eff, Same: same, Note: note,
			Args: hlib.Hex(viewCall)})
	}
}
