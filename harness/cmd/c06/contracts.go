package main

import "verifharness/hlib"

func runContracts(seed uint64, o *hlib.Out) {}
