package main

import (
	"fmt"
	"math/big"
	"time"

	"github.com/ethereum/go-ethereum/common"

	"github.com/teleport-network/teleport/syscontracts"
	stakingcontract "github.com/teleport-network/teleport/syscontracts/staking"
	packettypes "github.com/teleport-network/teleport/x/xibc/core/packet/types"
	xibctesting "github.com/teleport-network/teleport/x/xibc/testing"
)

// runProbe: scripted experiments used to reverse-engineer the byte-code-only contracts (kept for the record; the
// behaviour found is written down in notes/C03.md and pinned by the correspondence check).
func runProbe() {
	t0 := time.Now()
	w := NewWorld(3, 3)
	fmt.Println("world", time.Since(t0))
	A, B, C := w.Chains[0], w.Chains[1], w.Chains[2]
	_ = C
	u0, u1 := w.Users[0], w.Users[1]
	tA := w.DeployERC20(A)
	tB := w.DeployERC20(B)
	w.Mint(A, tA, u0.Addr, big.NewInt(10000))
	max := new(big.Int).Sub(new(big.Int).Lsh(big.NewInt(1), 256), big.NewInt(1))
	w.Approve(A, u0, tA, endpointAddr, max)
	fmt.Println("bind", w.Bind(B, tB, lower(tA), A.ChainID, 0))
	fmt.Println("bind again same", w.Bind(B, tB, lower(tA), A.ChainID, 0))
	tB2 := w.DeployERC20(B)
	fmt.Println("bind second local token to same origin", w.Bind(B, tB2, lower(tA), A.ChainID, 0))
	fmt.Println("bindings tB", w.Bindings(B, tB, A.ChainID), "tB2", w.Bindings(B, tB2, A.ChainID))
	fmt.Println("setup", time.Since(t0))

	dump := func(tag string) {
		fmt.Printf("[%s] A: u0=%v ep=%v pk=%v relayer=%v out(A->B)=%v supply=%v | B: u1=%v u0=%v ep=%v pk=%v supply=%v bind=%v bind2=%v\n", tag,
			w.Balance(A, tA, u0.Addr), w.Balance(A, tA, endpointAddr), w.Balance(A, tA, packetAddr), w.Balance(A, tA, A.SenderAddress),
			w.OutTokens(A, tA, B.ChainID), w.TotalSupply(A, tA),
			w.Balance(B, tB, u1.Addr), w.Balance(B, tB, u0.Addr), w.Balance(B, tB, endpointAddr), w.Balance(B, tB, packetAddr), w.TotalSupply(B, tB),
			w.Bindings(B, tB, A.ChainID).Amount, w.Bindings(B, tB2, A.ChainID).Amount)
	}
	dump("init")

	send := func(c *xibctesting.TestChain, u *User, dst string, token common.Address, amt int64, recv string, caddr string, cd []byte, feeTok common.Address, fee int64) *packettypes.Packet {
		t1 := time.Now()
		r := w.CrossChainCall(c, u, packettypes.CrossChainData{DstChain: dst, TokenAddress: token, Receiver: recv, Amount: big.NewInt(amt),
			ContractAddress: caddr, CallData: cd, CallbackAddress: zeroAddr, FeeOption: 0}, packettypes.Fee{TokenAddress: feeTok, Amount: big.NewInt(fee)})
		ps := SentPackets(toABCI(r.Events))
		fmt.Printf("  send: err=%v vmerr=%q packets=%d (%v)\n", r.Err, r.VmError, len(ps), time.Since(t1))
		if len(ps) == 1 {
			var td packettypes.TransferData
			_ = td.ABIDecode(ps[0].TransferData)
			fmt.Printf("    packet seq=%d sender=%s transfer={recv %s amt %x token %s ori %s} cdlen=%d cb=%s\n", ps[0].Sequence, ps[0].Sender, td.Receiver, td.Amount, td.Token, td.OriToken, len(ps[0].CallData), ps[0].CallbackAddress)
			return &ps[0]
		}
		return nil
	}
	recv := func(p *packettypes.Packet) []byte {
		t1 := time.Now()
		res, err := w.RelayRecv(*p)
		if err != nil {
			fmt.Println("  recv: ERROR", err)
			return nil
		}
		acks := WrittenAcks(res.Events)
		var ack packettypes.Acknowledgement
		_ = ack.ABIDecode(acks[0])
		fmt.Printf("  recv: acks=%d code=%d msg=%q result=%x onward=%d (%v)\n", len(acks), ack.Code, ack.Message, ack.Result, len(SentPackets(res.Events)), time.Since(t1))
		return acks[0]
	}
	ack := func(p *packettypes.Packet, a []byte) {
		t1 := time.Now()
		_, err := w.RelayAck(*p, a)
		src := w.Chains[idx(w, p.SrcChain)]
		ft, fa := w.PacketFee(src, p.DstChain, p.Sequence)
		fmt.Printf("  ack: err=%v status=%d fee=(%s,%v) (%v)\n", err, w.AckStatus(src, p.DstChain, p.Sequence), ft, fa, time.Since(t1))
	}

	// 1. plain transfer with fee
	p := send(A, u0, B.ChainID, tA, 1000, lower(u1.Addr), "", nil, tA, 10)
	ft, fa := w.PacketFee(A, B.ChainID, 1)
	fmt.Println("  fee entry", ft, fa, "status", w.AckStatus(A, B.ChainID, 1), "nextseq", w.NextSeqContract(A, B.ChainID))
	dump("sent1")
	a := recv(p)
	dump("recv1")
	// duplicate recv
	fmt.Println("  duplicate recv:")
	recv(p)
	ack(p, a)
	dump("ack1")
	fmt.Println("  duplicate ack:")
	ack(p, a)
	dump("ack1-dup")

	// 2. return transfer B->A of 400 by u1 to u0, fee in tB 5
	w.Approve(B, u1, tB, endpointAddr, max)
	p = send(B, u1, A.ChainID, tB, 400, lower(u0.Addr), "", nil, tB, 5)
	dump("sent2-back")
	a = recv(p)
	dump("recv2-back")
	ack(p, a)
	dump("ack2-back")

	// 3. return transfer with failing call data (code 3): refund on B
	cdRevert, _ := erc20ABI.Pack("transfer", common.HexToAddress("0xd1d1d1"), big.NewInt(1))
	p = send(B, u1, A.ChainID, tB, 100, lower(u0.Addr), lower(tA), cdRevert, tB, 0)
	dump("sent3-back-revert")
	a = recv(p)
	dump("recv3")
	ack(p, a)
	dump("ack3")

	// 4. forward with hook failure
	cdHook, _ := stakingcontract.StakingContract.ABI.Pack("delegate", "notavalidator", big.NewInt(1))
	p = send(A, u0, B.ChainID, tA, 200, lower(u1.Addr), syscontracts.StakingContractAddress, cdHook, tA, 7)
	a = recv(p)
	dump("recv4")
	ack(p, a)
	dump("ack4")

	// 5. send more than balance; send 0 amount; send with bad receiver
	fmt.Println("over balance:")
	send(A, u0, B.ChainID, tA, 1000000, lower(u1.Addr), "", nil, tA, 0)
	fmt.Println("zero amount, no calldata:")
	send(A, u0, B.ChainID, tA, 0, lower(u1.Addr), "", nil, tA, 0)
	fmt.Println("zero amount with calldata:")
	cdApprove, _ := erc20ABI.Pack("approve", common.HexToAddress("0xd1d1d1"), big.NewInt(7))
	p = send(A, u0, B.ChainID, tA, 0, lower(u1.Addr), lower(tB), cdApprove, tA, 0)
	if p != nil {
		a = recv(p)
		dump("recv5-zero-cd")
		fmt.Println("   allowance", w.Allowance(B, tB, executeAddr, common.HexToAddress("0xd1d1d1")))
		ack(p, a)
	}
	fmt.Println("bad receiver:")
	p = send(A, u0, B.ChainID, tA, 50, "nothex", "", nil, tA, 0)
	if p != nil {
		a = recv(p)
		dump("recv-badreceiver")
		ack(p, a)
		dump("ack-badreceiver")
	}
	fmt.Println("unknown dst chain:")
	send(A, u0, "no-such-chain", tA, 50, lower(u1.Addr), "", nil, tA, 0)
	dump("after-unknown")
	fmt.Println("native coin A->B unbound:")
	w.FundNative(A, u0.Addr, 100000)
	p = send(A, u0, B.ChainID, zeroAddr, 300, lower(u1.Addr), "", nil, zeroAddr, 20)
	fmt.Println("  native: u0", w.Balance(A, zeroAddr, u0.Addr), "ep", w.Balance(A, zeroAddr, endpointAddr), "pk", w.Balance(A, zeroAddr, packetAddr), "out", w.OutTokens(A, zeroAddr, B.ChainID), "relayer", w.Balance(A, zeroAddr, A.SenderAddress))
	a = recv(p)
	ack(p, a)
	fmt.Println("  native: u0", w.Balance(A, zeroAddr, u0.Addr), "ep", w.Balance(A, zeroAddr, endpointAddr), "pk", w.Balance(A, zeroAddr, packetAddr), "out", w.OutTokens(A, zeroAddr, B.ChainID), "relayer", w.Balance(A, zeroAddr, A.SenderAddress))
	fmt.Println("total", time.Since(t0))
}
