package main

import (
	"fmt"
	"math/big"
	"time"

	"github.com/ethereum/go-ethereum/common"

	"github.com/teleport-network/teleport/syscontracts"
	stakingcontract "github.com/teleport-network/teleport/syscontracts/staking"
	packettypes "github.com/teleport-network/teleport/x/xibc/core/packet/types"
	xibctesting "github.com/teleport-network/teleport/x/xibc/testing"
)

// runProbe: scripted experiments used to reverse-engineer the byte-code-only contracts (kept for the record; the
// behaviour found is written down in notes/C03.md and pinned by the correspondence check).
func runProbe() {
	t0 := time.Now()
	w := NewWorld(3, 3)
	fmt.Println("world", time.Since(t0))
	A, B, C := w.Chains[0], w.Chains[1], w.Chains[2]
	_ = C
	u0, u1 := w.Users[0], w.Users[1]
	tA := w.DeployERC20(A)
	tB := w.DeployERC20(B)
	_ = stakingcontract.StakingContract
	_ = syscontracts.StakingContractAddress
	w.Mint(A, tA, u0.Addr, big.NewInt(10000))
	max := new(big.Int).Sub(new(big.Int).Lsh(big.NewInt(1), 256), big.NewInt(1))
	w.Approve(A, u0, tA, endpointAddr, max)
	fmt.Println("bind", w.Bind(B, tB, lower(tA), A.ChainID, 0))
	fmt.Println("bind again same", w.Bind(B, tB, lower(tA), A.ChainID, 0))
	tB2 := w.DeployERC20(B)
	_ = tB2
	fmt.Println("bindings tB", w.Bindings(B, tB, A.ChainID), "tB2", w.Bindings(B, tB2, A.ChainID))
	fmt.Println("setup", time.Since(t0))

	dump := func(tag string) {
		fmt.Printf("[%s] A: u0=%v ep=%v pk=%v relayer=%v out(A->B)=%v supply=%v | B: u1=%v u0=%v ep=%v pk=%v supply=%v bind=%v bind2=%v\n", tag,
			w.Balance(A, tA, u0.Addr), w.Balance(A, tA, endpointAddr), w.Balance(A, tA, packetAddr), w.Balance(A, tA, A.SenderAddress),
			w.OutTokens(A, tA, B.ChainID), w.TotalSupply(A, tA),
			w.Balance(B, tB, u1.Addr), w.Balance(B, tB, u0.Addr), w.Balance(B, tB, endpointAddr), w.Balance(B, tB, packetAddr), w.TotalSupply(B, tB),
			w.Bindings(B, tB, A.ChainID).Amount, w.Bindings(B, tB2, A.ChainID).Amount)
	}
	dump("init")

	send := func(c *xibctesting.TestChain, u *User, dst string, token common.Address, amt int64, recv string, caddr string, cd []byte, feeTok common.Address, fee int64) *packettypes.Packet {
		t1 := time.Now()
		r := w.CrossChainCall(c, u, packettypes.CrossChainData{DstChain: dst, TokenAddress: token, Receiver: recv, Amount: big.NewInt(amt),
			ContractAddress: caddr, CallData: cd, CallbackAddress: zeroAddr, FeeOption: 0}, packettypes.Fee{TokenAddress: feeTok, Amount: big.NewInt(fee)})
		ps := SentPackets(toABCI(r.Events))
		fmt.Printf("  send: err=%v vmerr=%q packets=%d (%v)\n", r.Err, r.VmError, len(ps), time.Since(t1))
		if len(ps) == 1 {
			var td packettypes.TransferData
			_ = td.ABIDecode(ps[0].TransferData)
			fmt.Printf("    packet seq=%d sender=%s transfer={recv %s amt %x token %s ori %s} cdlen=%d cb=%s\n", ps[0].Sequence, ps[0].Sender, td.Receiver, td.Amount, td.Token, td.OriToken, len(ps[0].CallData), ps[0].CallbackAddress)
			return &ps[0]
		}
		return nil
	}
	recv := func(p *packettypes.Packet) []byte {
		t1 := time.Now()
		res, err := w.RelayRecv(*p)
		if err != nil {
			fmt.Println("  recv: ERROR", err)
			return nil
		}
		acks := WrittenAcks(res.Events)
		var ack packettypes.Acknowledgement
		_ = ack.ABIDecode(acks[0])
		fmt.Printf("  recv: acks=%d code=%d msg=%q result=%x onward=%d (%v)\n", len(acks), ack.Code, ack.Message, ack.Result, len(SentPackets(res.Events)), time.Since(t1))
		return acks[0]
	}
	ack := func(p *packettypes.Packet, a []byte) {
		t1 := time.Now()
		_, err := w.RelayAck(*p, a)
		src := w.Chains[idx(w, p.SrcChain)]
		ft, fa := w.PacketFee(src, p.DstChain, p.Sequence)
		fmt.Printf("  ack: err=%v status=%d fee=(%s,%v) (%v)\n", err, w.AckStatus(src, p.DstChain, p.Sequence), ft, fa, time.Since(t1))
	}

	// distinct token addresses per chain
	w.DeployERC20(B)
	w.DeployERC20(C)
	w.DeployERC20(C)
	tB = w.DeployERC20(B)
	tC := w.DeployERC20(C)
	nB := w.DeployERC20(B) // representation of A's native coin on B
	fmt.Println("tA", tA, "tB", tB, "tC", tC, "nB", nB)
	fmt.Println("bind tB<-A.tA scale 2:", w.Bind(B, tB, lower(tA), A.ChainID, 2))
	fmt.Println("bind tC<-B.tB:", w.Bind(C, tC, lower(tB), B.ChainID, 0))
	fmt.Println("bind nB<-A.native:", w.Bind(B, nB, lower(zeroAddr), A.ChainID, 0))
	w.Approve(B, u1, tB, endpointAddr, max)
	w.Approve(B, u1, nB, endpointAddr, max)
	w.Approve(C, u1, tC, endpointAddr, max)
	w.FundNative(A, u0.Addr, 100000)
	dump2 := func(tag string) {
		fmt.Printf("[%s] A: u0=%v ep=%v out(A->B)=%v | B: u1=%v ep=%v agent=%v pk=%v supply=%v bind(A)=%v out(B->C)=%v | C: u1=%v u0=%v supply=%v bind(B)=%v\n", tag,
			w.Balance(A, tA, u0.Addr), w.Balance(A, tA, endpointAddr), w.OutTokens(A, tA, B.ChainID),
			w.Balance(B, tB, u1.Addr), w.Balance(B, tB, endpointAddr), w.Balance(B, tB, agentAddr), w.Balance(B, tB, packetAddr), w.TotalSupply(B, tB), w.Bindings(B, tB, A.ChainID).Amount, w.OutTokens(B, tB, C.ChainID),
			w.Balance(C, tC, u1.Addr), w.Balance(C, tC, u0.Addr), w.TotalSupply(C, tC), w.Bindings(C, tC, B.ChainID).Amount)
	}
	fmt.Println("== scale 2: A->B 1000")
	p := send(A, u0, B.ChainID, tA, 1000, lower(u1.Addr), "", nil, tA, 0)
	a := recv(p)
	ack(p, a)
	dump2("scale-fwd")
	fmt.Println("== scale 2: B->A 12345 back")
	p = send(B, u1, A.ChainID, tB, 12300, lower(u0.Addr), "", nil, tB, 0)
	if p != nil {
		dump2("scale-back-sent")
		a = recv(p)
		ack(p, a)
		dump2("scale-back")
	}
	fmt.Println("== scale 2: B->A 700 back with failing call data: refund on B")
	cdRevert, _ := erc20ABI.Pack("transfer", common.HexToAddress("0xd1d1d1"), big.NewInt(1))
	p = send(B, u1, A.ChainID, tB, 700, lower(u0.Addr), lower(tA), cdRevert, tB, 0)
	dump2("scale-back-err-sent")
	a = recv(p)
	dump2("scale-back-err-recv")
	ack(p, a)
	dump2("scale-back-err-acked")
	fmt.Println("== B->C onward of the bound token 5000")
	p = send(B, u1, C.ChainID, tB, 5000, lower(u1.Addr), "", nil, tB, 0)
	dump2("B->C sent")
	a = recv(p)
	ack(p, a)
	dump2("B->C done")
	fmt.Println("== C->B back 2000 ; then B->A more than bindings")
	p = send(C, u1, B.ChainID, tC, 2000, lower(u1.Addr), "", nil, tC, 0)
	a = recv(p)
	ack(p, a)
	dump2("C->B done")
	fmt.Println("== native A->B bound")
	p = send(A, u0, B.ChainID, zeroAddr, 300, lower(u1.Addr), "", nil, zeroAddr, 20)
	a = recv(p)
	ack(p, a)
	fmt.Println("  native: A u0", w.Balance(A, zeroAddr, u0.Addr), "ep", w.Balance(A, zeroAddr, endpointAddr), "out", w.OutTokens(A, zeroAddr, B.ChainID), "| B nB u1", w.Balance(B, nB, u1.Addr), "bind", w.Bindings(B, nB, A.ChainID).Amount)
	p = send(B, u1, A.ChainID, nB, 120, lower(w.Users[2].Addr), "", nil, nB, 0)
	a = recv(p)
	ack(p, a)
	fmt.Println("  native back: A u2", w.Balance(A, zeroAddr, w.Users[2].Addr), "ep", w.Balance(A, zeroAddr, endpointAddr), "out", w.OutTokens(A, zeroAddr, B.ChainID), "| B nB u1", w.Balance(B, nB, u1.Addr), "bind", w.Bindings(B, nB, A.ChainID).Amount, "supply", w.TotalSupply(B, nB))
	fmt.Println("== return more than bound amount (mint extra locally first)")
	w.Mint(B, nB, u1.Addr, big.NewInt(1000))
	p = send(B, u1, A.ChainID, nB, 500, lower(u0.Addr), "", nil, nB, 0)
	fmt.Println("  B nB u1", w.Balance(B, nB, u1.Addr), "bind", w.Bindings(B, nB, A.ChainID).Amount, "supply", w.TotalSupply(B, nB))
	fmt.Println("== addPacketFee")
	p = send(A, u0, B.ChainID, tA, 10, lower(u1.Addr), "", nil, tA, 3)
	{
		data, _ := packetABI.Pack("addPacketFee", B.ChainID, p.Sequence, big.NewInt(4))
		r := w.UserTx(A, u0, packetAddr, big.NewInt(0), data)
		ft, fa := w.PacketFee(A, B.ChainID, p.Sequence)
		fmt.Println("  addPacketFee by u0:", r.Err, r.VmError, "fee", ft, fa, "pk bal", w.Balance(A, tA, packetAddr))
		w.Approve(A, u0, tA, packetAddr, max)
		r = w.UserTx(A, u0, packetAddr, big.NewInt(0), data)
		w.Mint(A, tA, u1.Addr, big.NewInt(100))
		w.Approve(A, u1, tA, packetAddr, max)
		r2 := w.UserTx(A, u1, packetAddr, big.NewInt(0), data)
		fmt.Println("  addPacketFee by another user:", r2.Err, r2.VmError)
		ft, fa = w.PacketFee(A, B.ChainID, p.Sequence)
		fmt.Println("  addPacketFee after approve:", r.Err, r.VmError, "fee", ft, fa, "pk bal", w.Balance(A, tA, packetAddr), "u0", w.Balance(A, tA, u0.Addr))
	}
	a = recv(p)
	ack(p, a)
	{
		data, _ := packetABI.Pack("addPacketFee", B.ChainID, p.Sequence, big.NewInt(4))
		r := w.UserTx(A, u0, packetAddr, big.NewInt(0), data)
		ft, fa := w.PacketFee(A, B.ChainID, p.Sequence)
		fmt.Println("  addPacketFee after ack:", r.Err, r.VmError, "fee", ft, fa, "pk bal", w.Balance(A, tA, packetAddr), "relayer", w.Balance(A, tA, A.SenderAddress))
	}
	fmt.Println("== agent multi-hop A->B->C success")
	cdAgent, _ := agentABI.Pack("send", w.Users[2].Addr, lower(u0.Addr), C.ChainID, big.NewInt(30))
	p = send(A, u0, B.ChainID, tA, 70, lower(agentAddr), lower(agentAddr), cdAgent, tA, 0)
	dump2("agent sent")
	{
		res, err := w.RelayRecv(*p)
		fmt.Println("  recv err", err)
		acks := WrittenAcks(res.Events)
		var ak packettypes.Acknowledgement
		_ = ak.ABIDecode(acks[0])
		on := SentPackets(res.Events)
		fmt.Printf("  recv: code=%d msg=%q result=%x onward=%d\n", ak.Code, ak.Message, ak.Result, len(on))
		dump2("agent recv on B")
		ack(p, acks[0])
		if len(on) == 1 {
			var td packettypes.TransferData
			_ = td.ABIDecode(on[0].TransferData)
			fmt.Printf("    onward packet seq=%d sender=%s transfer={recv %s amt %x token %s ori %s} cb=%s\n", on[0].Sequence, on[0].Sender, td.Receiver, td.Amount, td.Token, td.OriToken, on[0].CallbackAddress)
			ft, fa := w.PacketFee(B, C.ChainID, on[0].Sequence)
			fmt.Println("    onward fee", ft, fa)
			a2 := recv(&on[0])
			dump2("agent onward recv on C")
			ack(&on[0], a2)
			dump2("agent onward acked")
		}
	}
	fmt.Println("== agent multi-hop, onward fails on C (receiver bad) => agent callback refund")
	cdAgent, _ = agentABI.Pack("send", w.Users[2].Addr, "nothex", C.ChainID, big.NewInt(30))
	p = send(A, u0, B.ChainID, tA, 70, lower(agentAddr), lower(agentAddr), cdAgent, tA, 0)
	{
		res, err := w.RelayRecv(*p)
		fmt.Println("  recv err", err)
		acks := WrittenAcks(res.Events)
		on := SentPackets(res.Events)
		ack(p, acks[0])
		dump2("agent2 recv on B")
		if len(on) == 1 {
			a2 := recv(&on[0])
			ack(&on[0], a2)
			dump2("agent2 onward acked (refund?)")
			fmt.Println("   B: u2 (refund address) =", w.Balance(B, tB, w.Users[2].Addr), "relayerB", w.Balance(B, tB, B.SenderAddress))
		}
	}
	fmt.Println("== callback address without callback()")
	{
		r := w.CrossChainCall(A, u0, packettypes.CrossChainData{DstChain: B.ChainID, TokenAddress: tA, Receiver: lower(u1.Addr), Amount: big.NewInt(5),
			ContractAddress: "", CallData: nil, CallbackAddress: tA, FeeOption: 0}, packettypes.Fee{TokenAddress: tA, Amount: big.NewInt(1)})
		ps := SentPackets(toABCI(r.Events))
		fmt.Println("  send", r.Err, r.VmError, len(ps))
		a = recv(&ps[0])
		dump2("cb before ack")
		ack(&ps[0], a)
		dump2("cb after ack")
	}
	fmt.Println("total", time.Since(t0))
}

// runProbeAgent: behaviour of the agent contract (multi-hop A -> B -> C).
func runProbeAgent() {
	w := NewWorld(3, 3)
	A, B, C := w.Chains[0], w.Chains[1], w.Chains[2]
	u0, u1, u2 := w.Users[0], w.Users[1], w.Users[2]
	tA := w.DeployERC20(A)
	w.DeployERC20(B)
	tB := w.DeployERC20(B)
	tB2 := w.DeployERC20(B)
	w.DeployERC20(C)
	w.DeployERC20(C)
	tC := w.DeployERC20(C)
	w.Mint(A, tA, u0.Addr, big.NewInt(1000000))
	max := new(big.Int).Sub(new(big.Int).Lsh(big.NewInt(1), 256), big.NewInt(1))
	w.Approve(A, u0, tA, endpointAddr, max)
	fmt.Println("bind tB<-A.tA scale 1:", w.Bind(B, tB, lower(tA), A.ChainID, 1))
	fmt.Println("bind tC<-B.tB scale 0:", w.Bind(C, tC, lower(tB), B.ChainID, 0))
	_ = tB2
	dump := func(tag string) {
		fmt.Printf("[%s] A: u0=%v ep=%v out(A->B)=%v | B: agent=%v ep=%v pk=%v u2=%v supply=%v bind(A)=%v out(B->C)=%v | C: u1=%v supply=%v bind(B)=%v\n", tag,
			w.Balance(A, tA, u0.Addr), w.Balance(A, tA, endpointAddr), w.OutTokens(A, tA, B.ChainID),
			w.Balance(B, tB, agentAddr), w.Balance(B, tB, endpointAddr), w.Balance(B, tB, packetAddr), w.Balance(B, tB, u2.Addr), w.TotalSupply(B, tB), w.Bindings(B, tB, A.ChainID).Amount, w.OutTokens(B, tB, C.ChainID),
			w.Balance(C, tC, u1.Addr), w.TotalSupply(C, tC), w.Bindings(C, tC, B.ChainID).Amount)
	}
	send := func(amt int64, rcv string, cd []byte, caddr string) *packettypes.Packet {
		r := w.CrossChainCall(A, u0, packettypes.CrossChainData{DstChain: B.ChainID, TokenAddress: tA, Receiver: rcv, Amount: big.NewInt(amt),
			ContractAddress: caddr, CallData: cd, CallbackAddress: zeroAddr, FeeOption: 0}, packettypes.Fee{TokenAddress: tA, Amount: big.NewInt(0)})
		ps := SentPackets(toABCI(r.Events))
		if len(ps) != 1 {
			fmt.Println("  send failed", r.Err, r.VmError)
			return nil
		}
		return &ps[0]
	}
	relay := func(p *packettypes.Packet) []packettypes.Packet {
		res, err := w.RelayRecv(*p)
		if err != nil {
			fmt.Println("  recv ERROR", err)
			return nil
		}
		acks := WrittenAcks(res.Events)
		var ak packettypes.Acknowledgement
		_ = ak.ABIDecode(acks[0])
		on := SentPackets(res.Events)
		fmt.Printf("  recv %s->%s #%d: code=%d msg=%q onward=%d\n", p.SrcChain, p.DstChain, p.Sequence, ak.Code, ak.Message, len(on))
		for _, o := range on {
			var td packettypes.TransferData
			_ = td.ABIDecode(o.TransferData)
			ft, fa := w.PacketFee(w.Chains[idx(w, o.SrcChain)], o.DstChain, o.Sequence)
			fmt.Printf("    onward #%d sender=%s recv=%s amt=%v token=%s ori=%q cb=%s fee=(%s,%v)\n", o.Sequence, o.Sender, td.Receiver, new(big.Int).SetBytes(td.Amount), td.Token, td.OriToken, o.CallbackAddress, ft, fa)
		}
		_, err = w.RelayAck(*p, acks[0])
		fmt.Println("  ack err:", err)
		return on
	}
	// 1. gift 50 (=500 local) to the agent first, then agent multi-hop of 70 (=700) with fee 3
	fmt.Println("== gift then multi-hop")
	relay(send(50, lower(agentAddr), nil, ""))
	dump("gift")
	cd, _ := agentABI.Pack("send", u2.Addr, lower(u1.Addr), C.ChainID, big.NewInt(3))
	on := relay(send(70, lower(agentAddr), cd, lower(agentAddr)))
	dump("hop1 on B")
	if len(on) == 1 {
		relay(&on[0])
		dump("hop1 on C")
	}
	// 2. multi-hop where the receiver of the first hop is NOT the agent (agent still holds the gift?)
	fmt.Println("== receiver u2, call agent.send")
	on = relay(send(20, lower(u2.Addr), cd, lower(agentAddr)))
	dump("hop2 on B")
	for i := range on {
		relay(&on[i])
	}
	dump("hop2 done")
	// 3. onward fails on C (bad receiver): refund path through the agent callback
	fmt.Println("== onward fails on C")
	cd, _ = agentABI.Pack("send", u2.Addr, "nothex", C.ChainID, big.NewInt(3))
	on = relay(send(40, lower(agentAddr), cd, lower(agentAddr)))
	dump("hop3 on B")
	for i := range on {
		relay(&on[i])
	}
	dump("hop3 refunded")
	// 4. fee larger than the amount
	fmt.Println("== fee too large")
	cd, _ = agentABI.Pack("send", u2.Addr, lower(u1.Addr), C.ChainID, big.NewInt(300))
	relay(send(40, lower(agentAddr), cd, lower(agentAddr)))
	dump("hop4")
	// 5. back to the origin chain A through the agent (burn path on B)
	fmt.Println("== agent sends back to A (bound token: burn path)")
	cd, _ = agentABI.Pack("send", u2.Addr, lower(u1.Addr), A.ChainID, big.NewInt(1))
	on = relay(send(40, lower(agentAddr), cd, lower(agentAddr)))
	dump("hop5 on B")
	for i := range on {
		relay(&on[i])
	}
	dump("hop5 done")
	fmt.Println("  A: u1 =", w.Balance(A, tA, u1.Addr))
}
