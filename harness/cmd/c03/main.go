package main

import (
	"flag"
)

func main() {
	probe := flag.Bool("probe", false, "run the contract-behaviour probe")
	flag.Parse()
	if *probe {
		runProbe()
		return
	}
}
