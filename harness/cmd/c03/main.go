// C03 harness: random interleavings of cross-chain transfers / relays / acknowledgements on 2-3 REAL chains.
// After EVERY step all observables of all chains are read (balances, totalSupply, outTokens, bindings,
// getNextSequenceSend, getAckStatus, packetFees, call-data effects). One JSON line per history.
//
//	c03 -seed N -n K [-from i -to j] [-ops M] [-thorough] -out f.jsonl     generate + run histories i..j-1 of K
//	c03 -in specs.jsonl -out f.jsonl                                     replay recorded specs
//	c03 -probe                                                          contract-behaviour probe (notes/C03.md)
package main

import (
	"encoding/json"
	"flag"
	"fmt"
	"math/big"
	"strings"

	"github.com/ethereum/go-ethereum/common"

	"github.com/teleport-network/teleport/syscontracts"
	stakingcontract "github.com/teleport-network/teleport/syscontracts/staking"
	packettypes "github.com/teleport-network/teleport/x/xibc/core/packet/types"
	xibctesting "github.com/teleport-network/teleport/x/xibc/testing"

	"verifharness/hlib"
)

// holder codes: 0..nusers-1 users, then the system holders; -1 = malformed receiver string
const (
	HEndpoint = 100 + iota
	HPacket
	HExecute
	HAgent
	HRelayer
)

const (
	CdNone = iota
	CdOk
	CdRevert
	CdHookFail
	CdOnwardUnknown // agent.send to a chain without client (SendPacket hook failure)
	CdAgent         // agent.send(refund user, receiver, chain, fee): multi-hop
)

type Bind struct {
	C     int   `json:"c"`
	Loc   int   `json:"loc"`
	Src   int   `json:"src"`
	Ori   int   `json:"ori"`
	Scale uint8 `json:"scale"`
}

type Op struct {
	ID    int    `json:"id"`
	K     string `json:"k"` // T transfer, R relay recv, A relay ack, F add fee, X faulty relay (FK = kind, C = chain it is delivered to)
	FK    int    `json:"fk,omitempty"`
	Scale uint8  `json:"scale,omitempty"` // B: RegisterERC20Trace(chain C, local token Tok, origin token FTok of chain Dst, Scale)
	C     int    `json:"c,omitempty"`
	U     int    `json:"u,omitempty"`
	Tok   int    `json:"tok,omitempty"`
	Amt   string `json:"amt,omitempty"`
	Dst   int    `json:"dst,omitempty"`
	Rcv   int    `json:"rcv,omitempty"`
	Cd    int    `json:"cd,omitempty"`
	Cb    int    `json:"cb,omitempty"`
	FTok  int    `json:"ftok,omitempty"`
	Fee   string `json:"fee,omitempty"`
	Ref   int    `json:"ref,omitempty"`  // R/A/F: id of the transfer op whose packet is meant (>= 100000: the packet sent on by the receive of op id-100000)
	ARef  int    `json:"aref,omitempty"` // CdAgent: refund user, receiver holder, destination chain, fee amount
	ARcv  int    `json:"arcv,omitempty"`
	ADst  int    `json:"adst,omitempty"`
	AFee  string `json:"afee,omitempty"`
}

type Spec struct {
	ID      int        `json:"id"`
	Seed    uint64     `json:"seed"`
	NChains int        `json:"nchains"`
	NUsers  int        `json:"nusers"`
	NTok    []int      `json:"ntok"`  // ERC-20 tokens per chain (ids 1..n; 0 = native coin)
	Binds   []Bind     `json:"binds"` // registered before the history starts
	Mint    [][]string `json:"mint"`  // [chain, token, user, amount]
	Ops     []Op       `json:"ops"`
	NOps    int        `json:"nops"` // generator: number of ops to produce when Ops is empty
}

// ChainObs: the observables of one chain, in the canonical order documented in Model/BridgeCheck.v
type ChainObs struct {
	Bal    []string    `json:"bal"`    // token 0..ntok, holder in universe order
	Supply []string    `json:"supply"` // token 1..ntok
	Out    []string    `json:"out"`    // token 0..ntok, chain 0..n-1 (own chain included, always 0)
	Bind   []string    `json:"bind"`   // token 0..ntok, chain 0..n-1
	Next   []string    `json:"next"`   // chain 0..n-1
	Pk     [][3]string `json:"pk"`     // packets sent from this chain, creation order: ackStatus, fee token id, fee amount
	Eff    []string    `json:"eff"`    // CdOk packets towards this chain, creation order: allowance
}

type ROp struct { // resolved operation in model terms
	K     string `json:"k"`
	C     int    `json:"c"`
	U     int    `json:"u"`
	Tok   int    `json:"tok"`
	Amt   string `json:"amt"`
	Dst   int    `json:"dst"`
	Rcv   int    `json:"rcv"`
	Cd    int    `json:"cd"`
	E     int    `json:"e"`
	Cb    int    `json:"cb"`
	FTok  int    `json:"ftok"`
	Fee   string `json:"fee"`
	Src   int    `json:"src"`
	Seq   uint64 `json:"seq"`
	ARef  int    `json:"aref"`
	ARcv  int    `json:"arcv"`
	ADst  int    `json:"adst"`
	AFee  string `json:"afee"`
	FK    int    `json:"fk"`
	Scale uint8  `json:"scale"`
}

// Onward: the packet a receive callback sent on (agent multi-hop), as emitted by the chain (EventSendPacket)
type Onward struct {
	Src int    `json:"src"`
	Dst int    `json:"dst"`
	Seq uint64 `json:"seq"`
	Tok int    `json:"tok"` // token id on the sending chain
	Ori int    `json:"ori"` // origin token id on the destination chain, -1 if none
	Amt string `json:"amt"`
	Rcv int    `json:"rcv"`
	Ref int    `json:"ref"` // refund user given to the agent
}

type Step struct {
	OpID  int        `json:"op_id"`
	Op    ROp        `json:"op"`
	Class int        `json:"class"` // 0 accepted, 1 rejected
	Code  uint64     `json:"code"`  // R: result code of the acknowledgement written
	Onw   *Onward    `json:"onward,omitempty"`
	Note  string     `json:"note,omitempty"`
	Obs   []ChainObs `json:"obs"`
}

type Result struct {
	Spec  Spec       `json:"spec"`
	Init  []ChainObs `json:"init"`
	Steps []Step     `json:"steps"`
}

// ---------------------------------------------------------------------------------------------------------------

type sentPacket struct {
	opID   int
	p      packettypes.Packet
	src    int
	dst    int
	cd     int
	ack    []byte
	recvd  bool
	acked  bool
	broken bool // callback address without callback(): can never be acknowledged
	stuck  bool // an acknowledgement of the received packet was rejected
	aref   int  // CdAgent: refund user
}

type run struct {
	w      *World
	spec   *Spec
	tokens [][]common.Address // [chain][token id]; [c][0] = zero address
	sent   []*sentPacket
	byOp   map[int]*sentPacket
	binds  []Bind           // registered so far (spec.Binds, then the accepted "B" operations)
	emit   []common.Address // per chain: a user-deployed contract that emits whatever PacketSent event it is asked to
}

func (r *run) holderAddr(c int, h int) common.Address {
	switch {
	case h >= 0 && h < r.spec.NUsers:
		return r.w.Users[h].Addr
	case h == HEndpoint:
		return endpointAddr
	case h == HPacket:
		return packetAddr
	case h == HExecute:
		return executeAddr
	case h == HAgent:
		return agentAddr
	case h == HRelayer:
		return r.w.Chains[c].SenderAddress
	}
	panic(fmt.Sprintf("holder %d", h))
}

func (r *run) holders() []int {
	var hs []int
	for i := 0; i < r.spec.NUsers; i++ {
		hs = append(hs, i)
	}
	return append(hs, HEndpoint, HPacket, HExecute, HAgent, HRelayer)
}

// holderCode: reverse of holderAddr for a receiver string of a packet
func (r *run) holderCode(c int, s string) int {
	if !common.IsHexAddress(s) {
		return -1
	}
	a := common.HexToAddress(s)
	for _, h := range r.holders() {
		if r.holderAddr(c, h) == a {
			return h
		}
	}
	return -1
}

func spender(e int) common.Address {
	return common.BigToAddress(big.NewInt(int64(0xE0000000) + int64(e)))
}

func (r *run) tokenID(c int, a common.Address) int {
	for i, t := range r.tokens[c] {
		if t == a {
			return i
		}
	}
	return 999
}

func (r *run) chainName(i int) string {
	if i >= 0 && i < len(r.w.Chains) {
		return r.w.Chains[i].ChainID
	}
	return "no-such-chain"
}

func (r *run) observe() []ChainObs {
	var out []ChainObs
	n := r.spec.NChains
	for c := 0; c < n; c++ {
		ch := r.w.Chains[c]
		var o ChainObs
		for t := 0; t <= r.spec.NTok[c]; t++ {
			for _, h := range r.holders() {
				o.Bal = append(o.Bal, r.w.Balance(ch, r.tokens[c][t], r.holderAddr(c, h)).String())
			}
			if t > 0 {
				o.Supply = append(o.Supply, r.w.TotalSupply(ch, r.tokens[c][t]).String())
			}
			for d := 0; d < n; d++ {
				o.Out = append(o.Out, r.w.OutTokens(ch, r.tokens[c][t], r.chainName(d)).String())
				o.Bind = append(o.Bind, r.w.Bindings(ch, r.tokens[c][t], r.chainName(d)).Amount.String())
			}
		}
		for d := 0; d < n; d++ {
			if d == c {
				o.Next = append(o.Next, "0")
			} else {
				o.Next = append(o.Next, fmt.Sprint(r.w.NextSeqContract(ch, r.chainName(d))))
			}
		}
		o.Pk = [][3]string{}
		o.Eff = []string{}
		for _, sp := range r.sent {
			if sp.src == c {
				ft, fa := r.w.PacketFee(ch, sp.p.DstChain, sp.p.Sequence)
				o.Pk = append(o.Pk, [3]string{fmt.Sprint(r.w.AckStatus(ch, sp.p.DstChain, sp.p.Sequence)), fmt.Sprint(r.tokenID(c, ft)), fa.String()})
			}
			if sp.dst == c && sp.cd == CdOk {
				o.Eff = append(o.Eff, r.w.Allowance(ch, r.tokens[c][1], executeAddr, spender(sp.opID)).String())
			}
		}
		out = append(out, o)
	}
	return out
}

func bigOf(s string) *big.Int {
	if s == "" {
		return big.NewInt(0)
	}
	v, ok := new(big.Int).SetString(s, 10)
	if !ok {
		panic("bad number " + s)
	}
	return v
}

var maxU256 = new(big.Int).Sub(new(big.Int).Lsh(big.NewInt(1), 256), big.NewInt(1))

func (r *run) setup() {
	s := r.spec
	r.w = NewWorld(s.NChains, s.NUsers)
	r.byOp = map[int]*sentPacket{}
	for c := 0; c < s.NChains; c++ {
		ch := r.w.Chains[c]
		for i := 0; i < c; i++ { // make the token addresses of different chains different
			nonceBump(r.w, ch)
		}
		toks := []common.Address{zeroAddr}
		for t := 1; t <= s.NTok[c]; t++ {
			toks = append(toks, r.w.DeployERC20(ch))
		}
		r.tokens = append(r.tokens, toks)
	}
	for _, m := range s.Mint {
		c, t, u := int(bigOf(m[0]).Int64()), int(bigOf(m[1]).Int64()), int(bigOf(m[2]).Int64())
		if t == 0 {
			r.w.FundNative(r.w.Chains[c], r.w.Users[u].Addr, bigOf(m[3]).Int64())
		} else {
			r.w.Mint(r.w.Chains[c], r.tokens[c][t], r.w.Users[u].Addr, bigOf(m[3]))
		}
	}
	for c := 0; c < s.NChains; c++ {
		for t := 1; t <= s.NTok[c]; t++ {
			for u := 0; u < s.NUsers; u++ {
				r.w.Approve(r.w.Chains[c], r.w.Users[u], r.tokens[c][t], endpointAddr, maxU256)
				r.w.Approve(r.w.Chains[c], r.w.Users[u], r.tokens[c][t], packetAddr, maxU256)
			}
		}
	}
	for c := 0; c < s.NChains; c++ {
		r.emit = append(r.emit, r.w.DeployEmitter(r.w.Chains[c]))
	}
	r.binds = append([]Bind{}, s.Binds...)
	for _, b := range s.Binds {
		if err := r.w.Bind(r.w.Chains[b.C], r.tokens[b.C][b.Loc], lower(r.tokens[b.Src][b.Ori]), r.chainName(b.Src), b.Scale); err != nil {
			panic(fmt.Sprintf("bind %+v: %v", b, err))
		}
	}
}

func nonceBump(w *World, ch *xibctesting.TestChain) {
	// a contract creation from the endpoint address that does nothing (init code: STOP)
	if err := w.moduleCall(ch, endpointAddr, nil, []byte{0x00}); err != nil {
		panic(err)
	}
}

// exec runs one op; returns nil when the op refers to a transfer that produced no packet (the op is skipped).
func (r *run) exec(op Op) *Step {
	st := &Step{OpID: op.ID}
	switch op.K {
	case "T":
		ch := r.w.Chains[op.C]
		u := r.w.Users[op.U]
		rcv := "nothex"
		if op.Rcv >= 0 {
			rcv = lower(r.holderAddr(op.Dst%r.spec.NChains, op.Rcv))
		}
		d := packettypes.CrossChainData{DstChain: r.chainName(op.Dst), TokenAddress: r.tokens[op.C][op.Tok], Receiver: rcv,
			Amount: bigOf(op.Amt), ContractAddress: "", CallData: []byte{}, CallbackAddress: zeroAddr, FeeOption: 0}
		dstTok1 := r.tokens[op.Dst%r.spec.NChains][1]
		switch op.Cd {
		case CdOk:
			d.ContractAddress = lower(dstTok1)
			d.CallData, _ = erc20ABI.Pack("approve", spender(op.ID), big.NewInt(7))
		case CdRevert:
			d.ContractAddress = lower(dstTok1)
			d.CallData, _ = erc20ABI.Pack("transfer", common.HexToAddress("0xd1d1d1"), new(big.Int).Lsh(big.NewInt(1), 255))
		case CdHookFail:
			d.ContractAddress = syscontracts.StakingContractAddress
			d.CallData, _ = stakingcontract.StakingContract.ABI.Pack("delegate", "notavalidator", big.NewInt(1))
		case CdOnwardUnknown:
			d.ContractAddress = lower(agentAddr)
			d.CallData, _ = agentABI.Pack("send", r.w.Users[0].Addr, lower(r.w.Users[0].Addr), "no-such-chain", big.NewInt(0))
		case CdAgent:
			rcv2 := "nothex"
			if op.ARcv >= 0 {
				rcv2 = lower(r.holderAddr(op.ADst%r.spec.NChains, op.ARcv))
			}
			d.ContractAddress = lower(agentAddr)
			d.CallData, _ = agentABI.Pack("send", r.w.Users[op.ARef].Addr, rcv2, r.chainName(op.ADst), bigOf(op.AFee))
		}
		if op.Cb == 1 {
			d.CallbackAddress = r.tokens[op.C][1] // a contract without callback()
		}
		fee := packettypes.Fee{TokenAddress: r.tokens[op.C][op.FTok], Amount: bigOf(op.Fee)}
		res := r.w.CrossChainCall(ch, u, d, fee)
		ps := SentPackets(toABCI(res.Events))
		st.Op = ROp{K: "T", C: op.C, U: op.U, Tok: op.Tok, Amt: bigOf(op.Amt).String(), Dst: op.Dst, Rcv: op.Rcv, Cd: op.Cd, E: op.ID, Cb: op.Cb,
			FTok: op.FTok, Fee: bigOf(op.Fee).String(), ARef: op.ARef, ARcv: op.ARcv, ADst: op.ADst, AFee: bigOf(op.AFee).String()}
		if op.Cd == CdOnwardUnknown {
			st.Op.ARef, st.Op.ARcv, st.Op.ADst, st.Op.AFee = 0, 0, r.spec.NChains, "0"
		}
		if res.OK() && len(ps) == 1 {
			sp := &sentPacket{opID: op.ID, p: ps[0], src: op.C, dst: op.Dst, cd: op.Cd, broken: op.Cb == 1, aref: st.Op.ARef}
			r.sent = append(r.sent, sp)
			r.byOp[op.ID] = sp
			st.Op.Seq = ps[0].Sequence
		} else {
			st.Class = 1
			if res.Err != nil {
				st.Note = "go error: " + res.Err.Error()
			} else if res.OK() {
				st.Note = fmt.Sprintf("tx ok but %d packets", len(ps))
			}
		}
	case "R":
		sp := r.byOp[op.Ref]
		if sp == nil {
			return nil
		}
		st.Op = ROp{K: "R", Src: sp.src, Dst: sp.dst, Seq: sp.p.Sequence}
		res, err := r.w.RelayRecv(sp.p)
		if err != nil {
			st.Class = 1
			st.Note = short(err.Error())
			break
		}
		acks := WrittenAcks(res.Events)
		if len(acks) != 1 {
			st.Note = fmt.Sprintf("%d acknowledgements written", len(acks))
			st.Code = 9999
			break
		}
		var a packettypes.Acknowledgement
		if err := a.ABIDecode(acks[0]); err != nil {
			panic(err)
		}
		st.Code = a.Code
		sp.ack = acks[0]
		sp.recvd = true
		if on := SentPackets(res.Events); len(on) > 0 {
			if len(on) > 1 {
				st.Note = fmt.Sprintf("%d packets sent on", len(on))
			}
			o := on[0]
			var td packettypes.TransferData
			if err := td.ABIDecode(o.TransferData); err != nil {
				panic(err)
			}
			osrc, odst := idx(r.w, o.SrcChain), idx(r.w, o.DstChain)
			ow := &Onward{Src: osrc, Dst: odst, Seq: o.Sequence, Tok: r.tokenID(osrc, common.HexToAddress(td.Token)), Ori: -1,
				Amt: new(big.Int).SetBytes(td.Amount).String(), Rcv: r.holderCode(odst, td.Receiver), Ref: sp.aref}
			if td.OriToken != "" {
				ow.Ori = r.tokenID(odst, common.HexToAddress(td.OriToken))
			}
			st.Onw = ow
			nsp := &sentPacket{opID: 100000 + sp.opID, p: o, src: osrc, dst: odst, cd: CdNone}
			r.sent = append(r.sent, nsp)
			r.byOp[nsp.opID] = nsp
		}
	case "A":
		sp := r.byOp[op.Ref]
		if sp == nil {
			return nil
		}
		st.Op = ROp{K: "A", Src: sp.src, Dst: sp.dst, Seq: sp.p.Sequence}
		ack := sp.ack
		if ack == nil { // premature: a relayer inventing a success acknowledgement
			ack, _ = packettypes.NewAcknowledgement(0, []byte{}, "", r.w.Chains[sp.src].SenderAcc.String(), 0).ABIPack()
		}
		if _, err := r.w.RelayAck(sp.p, ack); err != nil {
			st.Class = 1
			st.Note = short(err.Error())
			sp.stuck = sp.recvd
			break
		}
		sp.acked = true
	case "F":
		sp := r.byOp[op.Ref]
		var dst int
		var seq uint64
		if sp != nil {
			dst, seq = sp.dst, sp.p.Sequence
		} else { // a packet that does not exist (yet): the next one to be sent, or (Ref < -1) a far one
			dst = (op.C + 1) % r.spec.NChains
			seq = r.w.NextSeqContract(r.w.Chains[op.C], r.chainName(dst))
			if op.Ref < -1 {
				seq += uint64(-op.Ref)
			}
		}
		st.Op = ROp{K: "F", C: op.C, U: op.U, Dst: dst, Seq: seq, Amt: bigOf(op.Amt).String()}
		data, _ := packetABI.Pack("addPacketFee", r.chainName(dst), seq, bigOf(op.Amt))
		ft, _ := r.w.PacketFee(r.w.Chains[op.C], r.chainName(dst), seq)
		value := big.NewInt(0)
		if ft == zeroAddr {
			value = bigOf(op.Amt)
		}
		if res := r.w.UserTx(r.w.Chains[op.C], r.w.Users[op.U], packetAddr, value, data); !res.OK() {
			st.Class = 1
		}
	case "B":
		// governance: RegisterERC20Trace in the middle of the history.  Only FIRST registrations (slot and trace unused):
		// re-binding resets bindings.amount (Refuted/C03_rebind.v) and is outside the property.
		b := Bind{C: op.C, Loc: op.Tok, Src: op.Dst, Ori: op.FTok, Scale: op.Scale}
		if !r.bindFresh(b) {
			return nil
		}
		st.Op = ROp{K: "B", C: b.C, Tok: b.Loc, Src: b.Src, FTok: b.Ori, Scale: b.Scale}
		if err := r.w.Bind(r.w.Chains[b.C], r.tokens[b.C][b.Loc], lower(r.tokens[b.Src][b.Ori]), r.chainName(b.Src), b.Scale); err != nil {
			st.Class = 1
			st.Note = short(err.Error())
		} else {
			r.binds = append(r.binds, b)
		}
	case "X":
		if op.FK == FaultForgedEvent {
			// a contract that is NOT the packet contract emits a PacketSent event carrying a well-formed packet with the
			// next sequence: the packet hook must ignore it (nothing is escrowed for it)
			dst := op.Dst % r.spec.NChains
			if dst == op.C {
				return nil
			}
			seq := r.w.NextSeqContract(r.w.Chains[op.C], r.chainName(dst))
			st.Op = ROp{K: "X", Src: op.C, Dst: dst, Seq: seq, FK: op.FK}
			td := packettypes.TransferData{Receiver: lower(r.w.Users[op.U].Addr), Amount: common.LeftPadBytes(big.NewInt(1000).Bytes(), 32),
				Token: lower(r.tokens[op.C][op.Tok]), OriToken: ""}
			tdBz, err := td.ABIPack()
			if err != nil {
				panic(err)
			}
			p := packettypes.Packet{SrcChain: r.chainName(op.C), DstChain: r.chainName(dst), Sequence: seq, Sender: lower(r.w.Users[op.U].Addr),
				TransferData: tdBz, CallData: []byte{}, CallbackAddress: zeroAddr.String(), FeeOption: 0}
			pbz, err := p.ABIPack()
			if err != nil {
				panic(err)
			}
			data, err := packetABI.Events["PacketSent"].Inputs.Pack(pbz)
			if err != nil {
				panic(err)
			}
			res := r.w.UserTx(r.w.Chains[op.C], r.w.Users[op.U], r.emit[op.C], big.NewInt(0), data)
			if n := len(SentPackets(toABCI(res.Events))); n > 0 {
				st.Note = fmt.Sprintf("ACCEPTED: %d packets sent from a forged event", n)
			} else {
				st.Class = 1
				if !res.OK() {
					st.Note = "tx failed: " + res.VmError
				}
			}
			break
		}
		sp := r.byOp[op.Ref]
		if sp == nil {
			return nil
		}
		st.Op = ROp{K: "X", Src: sp.src, Dst: sp.dst, Seq: sp.p.Sequence, FK: op.FK}
		accepted, note := r.fault(sp, op)
		if note == "skip" {
			return nil
		}
		st.Note = note
		if !accepted {
			st.Class = 1
		}
	default:
		panic("op kind " + op.K)
	}
	st.Obs = r.observe()
	return st
}

// bindFresh: neither bindings[loc/src] nor bindingTraces[src/ori] is in use on chain b.C, and the binding makes sense.
func (r *run) bindFresh(b Bind) bool {
	n := r.spec.NChains
	if b.C < 0 || b.C >= n || b.Src < 0 || b.Src >= n || b.C == b.Src || b.Loc < 1 || b.Loc > r.spec.NTok[b.C] || b.Ori < 0 || b.Ori > r.spec.NTok[b.Src] {
		return false
	}
	for _, x := range r.binds {
		if x.C == b.C && x.Src == b.Src && (x.Loc == b.Loc || x.Ori == b.Ori) {
			return false
		}
	}
	return true
}

// Fault kinds (Model/Bridge.v [Fault]).
const (
	FaultRecvAltered  = iota // MsgRecvPacket with the packet's sender replaced, genuine commitment proof
	FaultAckForged           // MsgAcknowledgement whose result code was flipped, genuine acknowledgement proof
	FaultRecvMisroute        // MsgRecvPacket delivered to chain op.C != destination
	FaultAckMisroute         // MsgAcknowledgement delivered to chain op.C != source
	FaultAckAltered          // MsgAcknowledgement with the packet's sender replaced, genuine acknowledgement
	FaultForgedEvent         // PacketSent event emitted by a contract other than the packet contract (op.C, op.U, op.Tok, op.Dst)
)

// fault delivers a relay message that is not the authentic relay of sp's packet; returns whether the chain ACCEPTED it.
// "skip": the fault does not apply to the packet in its current state (replay of a shrunk history).
func (r *run) fault(sp *sentPacket, op Op) (bool, string) {
	w := r.w
	genuine, err := sp.p.ABIPack()
	if err != nil {
		panic(err)
	}
	altered := func() []byte {
		q := sp.p
		other := r.w.Users[2].Addr
		if strings.EqualFold(q.Sender, lower(other)) {
			other = r.w.Users[0].Addr
		}
		q.Sender = lower(other)
		bz, err := q.ABIPack()
		if err != nil {
			panic(err)
		}
		return bz
	}
	ackOr := func() []byte {
		if sp.ack != nil {
			return sp.ack
		}
		a, _ := packettypes.NewAcknowledgement(0, []byte{}, "", w.Chains[sp.src].SenderAcc.String(), 0).ABIPack()
		return a
	}
	x := op.C % r.spec.NChains
	var e error
	switch op.FK {
	case FaultRecvAltered:
		if sp.recvd {
			return false, "skip"
		}
		_, e = w.DeliverRecvAt(w.Chains[sp.dst], sp.p, altered())
	case FaultAckForged:
		if !sp.recvd || sp.acked || sp.ack == nil {
			return false, "skip"
		}
		var a packettypes.Acknowledgement
		if err := a.ABIDecode(sp.ack); err != nil {
			panic(err)
		}
		code, msg := uint64(0), ""
		if a.Code == 0 {
			code, msg = 1, "forged"
		}
		forged, err := packettypes.NewAcknowledgement(code, []byte{}, msg, a.Relayer, a.FeeOption).ABIPack()
		if err != nil {
			panic(err)
		}
		_, e = w.DeliverAckAt(w.Chains[sp.src], sp.p, genuine, forged)
	case FaultRecvMisroute:
		if x == sp.dst {
			return false, "skip"
		}
		_, e = w.DeliverRecvAt(w.Chains[x], sp.p, genuine)
	case FaultAckMisroute:
		if x == sp.src {
			return false, "skip"
		}
		_, e = w.DeliverAckAt(w.Chains[x], sp.p, genuine, ackOr())
	case FaultAckAltered:
		if !sp.recvd || sp.acked || sp.ack == nil {
			return false, "skip"
		}
		_, e = w.DeliverAckAt(w.Chains[sp.src], sp.p, altered(), sp.ack)
	default:
		panic(fmt.Sprintf("fault kind %d", op.FK))
	}
	if e != nil {
		return false, short(e.Error())
	}
	return true, "ACCEPTED"
}

func short(s string) string {
	if len(s) > 160 {
		return s[:160]
	}
	return s
}

func runHistory(spec Spec) Result {
	r := &run{spec: &spec}
	r.setup()
	res := Result{Init: r.observe(), Steps: []Step{}}
	if len(spec.Ops) == 0 && spec.NOps > 0 {
		g := hlib.NewRand(spec.Seed)
		for i := 0; i < spec.NOps; i++ {
			op := r.genOp(g, i)
			spec.Ops = append(spec.Ops, op)
			if st := r.exec(op); st != nil {
				res.Steps = append(res.Steps, *st)
			}
		}
	} else {
		for _, op := range spec.Ops {
			if st := r.exec(op); st != nil {
				res.Steps = append(res.Steps, *st)
			}
		}
	}
	res.Spec = spec
	return res
}

func main() {
	probe := flag.Bool("probe", false, "run the contract-behaviour probe")
	probeAgent := flag.Bool("probe-agent", false, "run the agent-contract probe")
	probeBind := flag.Bool("probe-bind", false, "run the bindToken probe (re-binding in the middle of a history)")
	seed := flag.Uint64("seed", 1, "PRNG seed")
	n := flag.Int("n", 20, "number of generated histories")
	from := flag.Int("from", 0, "first history index to run")
	to := flag.Int("to", -1, "one past the last history index to run (default n)")
	ops := flag.Int("ops", 40, "operations per history (upper bound; lower = 5/8 of it)")
	thorough := flag.Bool("thorough", false, "thorough generator (3 chains more often)")
	in := flag.String("in", "", "replay: file of specs / result lines")
	out := flag.String("out", "/dev/stdout", "output file (JSON lines)")
	flag.Parse()
	if *probe {
		runProbe()
		return
	}
	if *probeAgent {
		runProbeAgent()
		return
	}
	if *probeBind {
		runProbeBind()
		return
	}
	var specs []Spec
	if *in != "" {
		hlib.ReadLines(*in, func(line []byte) {
			var wrap struct {
				Spec *Spec `json:"spec"`
			}
			if err := json.Unmarshal(line, &wrap); err == nil && wrap.Spec != nil {
				specs = append(specs, *wrap.Spec)
				return
			}
			var s Spec
			if err := json.Unmarshal(line, &s); err != nil {
				panic(err)
			}
			specs = append(specs, s)
		})
	} else {
		if *to < 0 || *to > *n {
			*to = *n
		}
		root := hlib.NewRand(*seed)
		for i := 0; i < *n; i++ {
			g := root.Fork(uint64(i))
			sp := genSpec(g, i, *ops, *thorough)
			if i >= *from && i < *to {
				specs = append(specs, sp)
			}
		}
	}
	w := hlib.NewOut(*out)
	defer w.Close()
	for _, s := range specs {
		w.Emit(runHistory(s))
	}
}
