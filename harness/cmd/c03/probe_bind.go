package main

import (
	"fmt"
	"math/big"

	"github.com/ethereum/go-ethereum/common"

	packettypes "github.com/teleport-network/teleport/x/xibc/core/packet/types"
	xibctesting "github.com/teleport-network/teleport/x/xibc/testing"
)

// runProbeBind: behaviour of Endpoint.bindToken (x/aggregate/keeper/token_trace.go: AddERC20TraceToTransferContract)
// when it is called in the middle of a history: re-binding a bound token (other scale / other origin token), binding a
// second local token to the same origin, binding after forward traffic is in flight / was refused.
func runProbeBind() {
	w := NewWorld(2, 3)
	A, B := w.Chains[0], w.Chains[1]
	u0, u1 := w.Users[0], w.Users[1]
	tA := w.DeployERC20(A)
	tA2 := w.DeployERC20(A)
	w.DeployERC20(B)
	w.DeployERC20(B)
	w.DeployERC20(B)
	tB := w.DeployERC20(B)
	tB2 := w.DeployERC20(B)
	max := new(big.Int).Sub(new(big.Int).Lsh(big.NewInt(1), 256), big.NewInt(1))
	w.Mint(A, tA, u0.Addr, big.NewInt(100000))
	w.Mint(A, tA2, u0.Addr, big.NewInt(100000))
	w.Approve(A, u0, tA, endpointAddr, max)
	w.Approve(A, u0, tA2, endpointAddr, max)
	w.Approve(B, u1, tB, endpointAddr, max)
	w.Approve(B, u1, tB2, endpointAddr, max)
	dump := func(tag string) {
		b1, b2 := w.Bindings(B, tB, A.ChainID), w.Bindings(B, tB2, A.ChainID)
		fmt.Printf("[%s] A: u0=%v ep=%v out(tA->B)=%v out(tA2->B)=%v | B: tB{u1=%v supply=%v bind=%+v} tB2{u1=%v supply=%v bind=%+v}\n", tag,
			w.Balance(A, tA, u0.Addr), w.Balance(A, tA, endpointAddr), w.OutTokens(A, tA, B.ChainID), w.OutTokens(A, tA2, B.ChainID),
			w.Balance(B, tB, u1.Addr), w.TotalSupply(B, tB), b1, w.Balance(B, tB2, u1.Addr), w.TotalSupply(B, tB2), b2)
	}
	send := func(c *xibctesting.TestChain, u *User, dst string, token common.Address, amt int64, recv string) *packettypes.Packet {
		r := w.CrossChainCall(c, u, packettypes.CrossChainData{DstChain: dst, TokenAddress: token, Receiver: recv, Amount: big.NewInt(amt),
			ContractAddress: "", CallData: []byte{}, CallbackAddress: zeroAddr, FeeOption: 0}, packettypes.Fee{TokenAddress: token, Amount: big.NewInt(0)})
		ps := SentPackets(toABCI(r.Events))
		fmt.Printf("  send %d: err=%v vmerr=%q packets=%d\n", amt, r.Err, r.VmError, len(ps))
		if len(ps) == 1 {
			var td packettypes.TransferData
			_ = td.ABIDecode(ps[0].TransferData)
			fmt.Printf("    packet seq=%d transfer={amt %x token %s ori %q}\n", ps[0].Sequence, td.Amount, td.Token, td.OriToken)
			return &ps[0]
		}
		return nil
	}
	recv := func(p *packettypes.Packet) []byte {
		res, err := w.RelayRecv(*p)
		if err != nil {
			fmt.Println("  recv: ERROR", err)
			return nil
		}
		acks := WrittenAcks(res.Events)
		var ack packettypes.Acknowledgement
		_ = ack.ABIDecode(acks[0])
		fmt.Printf("  recv: code=%d msg=%q\n", ack.Code, ack.Message)
		return acks[0]
	}
	ack := func(p *packettypes.Packet, a []byte) {
		_, err := w.RelayAck(*p, a)
		fmt.Printf("  ack: err=%v status=%d\n", err, w.AckStatus(w.Chains[idx(w, p.SrcChain)], p.DstChain, p.Sequence))
	}

	fmt.Println("== 1. packet sent BEFORE the binding exists, bound while in flight, then received")
	p1 := send(A, u0, B.ChainID, tA, 1000, lower(u1.Addr))
	fmt.Println("bind tB<-A.tA scale 0:", w.Bind(B, tB, lower(tA), A.ChainID, 0))
	a1 := recv(p1)
	ack(p1, a1)
	dump("1")

	fmt.Println("== 2. re-bind the same pair with another scale while 1000 are minted")
	fmt.Println("bind tB<-A.tA scale 1:", w.Bind(B, tB, lower(tA), A.ChainID, 1))
	dump("2 after rebind")
	p2 := send(A, u0, B.ChainID, tA, 10, lower(u1.Addr))
	a2 := recv(p2)
	ack(p2, a2)
	dump("2 fwd 10")
	p2b := send(B, u1, A.ChainID, tB, 50, lower(u0.Addr))
	if p2b != nil {
		a := recv(p2b)
		ack(p2b, a)
	}
	dump("2 back 50")

	fmt.Println("== 3. bind the same local token to ANOTHER origin token of the same chain")
	fmt.Println("bind tB<-A.tA2 scale 0:", w.Bind(B, tB, lower(tA2), A.ChainID, 0))
	dump("3 after rebind to tA2")
	p3 := send(A, u0, B.ChainID, tA, 7, lower(u1.Addr))
	a3 := recv(p3)
	ack(p3, a3)
	dump("3 fwd tA 7")
	p3b := send(A, u0, B.ChainID, tA2, 9, lower(u1.Addr))
	a3b := recv(p3b)
	ack(p3b, a3b)
	dump("3 fwd tA2 9")
	p3c := send(B, u1, A.ChainID, tB, 5, lower(u0.Addr))
	if p3c != nil {
		a := recv(p3c)
		ack(p3c, a)
	}
	dump("3 back 5")

	fmt.Println("== 4. bind a SECOND local token to the same origin (A, tA)")
	fmt.Println("bind tB2<-A.tA scale 0:", w.Bind(B, tB2, lower(tA), A.ChainID, 0))
	dump("4 after second binding")
	p4 := send(A, u0, B.ChainID, tA, 11, lower(u1.Addr))
	a4 := recv(p4)
	ack(p4, a4)
	dump("4 fwd tA 11")
	p4b := send(B, u1, A.ChainID, tB, 3, lower(u0.Addr))
	if p4b != nil {
		a := recv(p4b)
		ack(p4b, a)
	}
	dump("4 back tB 3")
	p4c := send(B, u1, A.ChainID, tB2, 4, lower(u0.Addr))
	if p4c != nil {
		a := recv(p4c)
		ack(p4c, a)
	}
	dump("4 back tB2 4")
}
