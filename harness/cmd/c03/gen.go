package main

import (
	"fmt"
	"math/big"

	"verifharness/hlib"
)

// genSpec: chains, tokens, bindings and initial balances of one history (the operations are generated online,
// looking at the real balances, by genOp).  Corpus first: history 0 and 1 are the two confirmed D1 witnesses.
func genSpec(g *hlib.Rand, i int, maxOps int, thorough bool) Spec {
	s := Spec{ID: i, Seed: g.U64(), NUsers: 3}
	s.NChains = 2
	if g.Chance(1, 3) || (thorough && g.Chance(1, 3)) {
		s.NChains = 3
	}
	for c := 0; c < s.NChains; c++ {
		s.NTok = append(s.NTok, 2+g.Intn(2))
	}
	// bindings: for every chain c and local ERC-20 token, maybe the representation of a token of another chain;
	// at most one local token per (chain, source chain, origin token) and one origin per (chain, local, source)
	type k3 struct{ a, b, c int }
	usedOri, usedLoc := map[k3]bool{}, map[k3]bool{}
	for c := 0; c < s.NChains; c++ {
		for loc := 1; loc <= s.NTok[c]; loc++ {
			nb := 0
			switch g.Intn(10) {
			case 0, 1:
				nb = 0
			case 2:
				nb = 2
			default:
				nb = 1
			}
			for j := 0; j < nb; j++ {
				src := g.Intn(s.NChains)
				if src == c {
					src = (c + 1) % s.NChains
				}
				ori := g.Intn(s.NTok[src] + 1) // 0 = the source chain's native coin
				if usedOri[k3{c, src, ori}] || usedLoc[k3{c, loc, src}] {
					continue
				}
				usedOri[k3{c, src, ori}], usedLoc[k3{c, loc, src}] = true, true
				scale := uint8(0)
				if g.Chance(1, 4) {
					scale = uint8(1 + g.Intn(3))
				}
				s.Binds = append(s.Binds, Bind{C: c, Loc: loc, Src: src, Ori: ori, Scale: scale})
			}
		}
	}
	for c := 0; c < s.NChains; c++ {
		for u := 0; u < s.NUsers; u++ {
			for t := 0; t <= s.NTok[c]; t++ {
				if t > 0 && g.Chance(1, 4) {
					continue
				}
				amt := int64(1000 + g.Intn(100000))
				if g.Chance(1, 8) {
					amt = int64(1 + g.Intn(20))
				}
				s.Mint = append(s.Mint, []string{fmt.Sprint(c), fmt.Sprint(t), fmt.Sprint(u), fmt.Sprint(amt)})
			}
		}
	}
	s.NOps = maxOps*5/8 + g.Intn(maxOps*3/8+1)
	switch i {
	case 0: // D1 witness 1: reverting call data (result code 3), then the refund
		s = corpusSpec(i, s.Seed, CdRevert)
	case 1: // D1 witness 2: post-transaction hook failure (code 1)
		s = corpusSpec(i, s.Seed, CdHookFail)
	case 2: // D1 witness 3: onward send to an unknown chain (SendPacket hook failure)
		s = corpusSpec(i, s.Seed, CdOnwardUnknown)
	case 3: // replays, premature and forged / altered / misrouted relay messages around delivered and refunded packets
		s = corpusReplays(i, s.Seed)
	case 4: // scaled binding, native coin, return path, every kind of refusal
		s = corpusReturn(i, s.Seed)
	case 5: // agent multi-hop over three chains: success, refused onward packet, return path
		s = corpusAgent(i, s.Seed)
	case 6: // token bindings registered in the middle of the history
		s = corpusBind(i, s.Seed)
	}
	return s
}

// corpusReplays: every relay message that must NOT be accepted, placed where accepting it would move value: a second
// error acknowledgement while other escrow is there to pay a second refund, a forged error acknowledgement for a delivered
// packet, a forged success acknowledgement for a refused one, altered packets, misrouted messages, duplicates.
func corpusReplays(i int, seed uint64) Spec {
	return Spec{ID: i, Seed: seed, NChains: 2, NUsers: 3, NTok: []int{2, 2},
		Binds: []Bind{{C: 1, Loc: 1, Src: 0, Ori: 1, Scale: 0}},
		Mint:  [][]string{{"0", "1", "0", "10000"}, {"0", "0", "0", "5000"}, {"1", "2", "1", "500"}, {"1", "0", "1", "5000"}},
		Ops: []Op{
			// stays in flight for the whole history: its fee (9) keeps the packet contract able to pay a relayer fee a second time
			{ID: 0, K: "T", C: 0, U: 0, Tok: 1, Amt: "10", Dst: 1, Rcv: 2, FTok: 1, Fee: "9"},
			{ID: 1, K: "T", C: 0, U: 0, Tok: 1, Amt: "1000", Dst: 1, Rcv: 1, FTok: 1, Fee: "5"},
			{ID: 2, K: "X", FK: FaultRecvAltered, Ref: 1},
			{ID: 3, K: "X", FK: FaultRecvMisroute, Ref: 1, C: 0},
			{ID: 4, K: "A", Ref: 1}, // premature: invented success acknowledgement
			{ID: 5, K: "X", FK: FaultAckMisroute, Ref: 1, C: 1},
			{ID: 6, K: "R", Ref: 1},
			{ID: 7, K: "R", Ref: 1}, // duplicate
			{ID: 8, K: "X", FK: FaultAckForged, Ref: 1},
			{ID: 9, K: "X", FK: FaultAckAltered, Ref: 1},
			{ID: 10, K: "A", Ref: 1},
			{ID: 11, K: "A", Ref: 1}, // duplicate success acknowledgement (second fee payout?)
			{ID: 12, K: "T", C: 0, U: 0, Tok: 1, Amt: "700", Dst: 1, Rcv: 1, Cd: CdRevert, FTok: 1, Fee: "3"},
			{ID: 13, K: "R", Ref: 12},
			{ID: 14, K: "X", FK: FaultAckForged, Ref: 12},
			{ID: 15, K: "A", Ref: 12},
			{ID: 16, K: "A", Ref: 12}, // duplicate error acknowledgement: a second refund would come out of the 1000 in escrow
			{ID: 17, K: "R", Ref: 12},
			{ID: 18, K: "X", FK: FaultAckMisroute, Ref: 12, C: 1},
			{ID: 19, K: "T", C: 1, U: 1, Tok: 1, Amt: "200", Dst: 0, Rcv: 0, FTok: 0, Fee: "4"},
			{ID: 20, K: "X", FK: FaultRecvAltered, Ref: 19},
			{ID: 21, K: "R", Ref: 19},
			{ID: 22, K: "X", FK: FaultAckForged, Ref: 19},
			{ID: 23, K: "A", Ref: 19},
			{ID: 24, K: "A", Ref: 19},
			{ID: 25, K: "T", C: 0, U: 0, Tok: 1, Amt: "300", Dst: 1, Rcv: 2, Cd: CdHookFail, FTok: 0, Fee: "2"},
			{ID: 26, K: "R", Ref: 25},
			{ID: 27, K: "A", Ref: 25},
			{ID: 28, K: "A", Ref: 25},
			{ID: 29, K: "R", Ref: 25},
			{ID: 30, K: "F", C: 0, U: 0, Ref: 25, Amt: "3"},                    // fee top-up of an acknowledged packet
			{ID: 31, K: "X", FK: FaultForgedEvent, C: 0, U: 2, Tok: 1, Dst: 1}, // PacketSent emitted by a user contract
			{ID: 32, K: "X", FK: FaultForgedEvent, C: 1, U: 1, Tok: 1, Dst: 0},
		}}
}

// corpusReturn: token 1 of chain 1 = token 1 of chain 0 with scale 2, token 2 of chain 1 = native coin of chain 0.
func corpusReturn(i int, seed uint64) Spec {
	return Spec{ID: i, Seed: seed, NChains: 2, NUsers: 3, NTok: []int{2, 2},
		Binds: []Bind{{C: 1, Loc: 1, Src: 0, Ori: 1, Scale: 2}, {C: 1, Loc: 2, Src: 0, Ori: 0, Scale: 0}},
		Mint:  [][]string{{"0", "1", "0", "10000"}, {"0", "0", "0", "50000"}, {"1", "0", "1", "5000"}},
		Ops: []Op{
			{ID: 0, K: "T", C: 0, U: 0, Tok: 1, Amt: "100", Dst: 1, Rcv: 1, FTok: 0, Fee: "2"},
			{ID: 1, K: "R", Ref: 0},
			{ID: 2, K: "A", Ref: 0},
			{ID: 3, K: "T", C: 1, U: 1, Tok: 1, Amt: "30", Dst: 0, Rcv: 2, Cd: CdRevert, FTok: 1, Fee: "100"}, // burn 3000, refused on chain 0
			{ID: 4, K: "R", Ref: 3},
			{ID: 5, K: "A", Ref: 3}, // re-mint
			{ID: 6, K: "A", Ref: 3},
			{ID: 7, K: "T", C: 1, U: 1, Tok: 1, Amt: "20", Dst: 0, Rcv: 2, FTok: 1, Fee: "0"},
			{ID: 8, K: "R", Ref: 7},
			{ID: 9, K: "A", Ref: 7},
			{ID: 10, K: "T", C: 0, U: 0, Tok: 0, Amt: "400", Dst: 1, Rcv: 1, FTok: 0, Fee: "7"},
			{ID: 11, K: "R", Ref: 10},
			{ID: 12, K: "A", Ref: 10},
			{ID: 13, K: "T", C: 1, U: 1, Tok: 2, Amt: "150", Dst: 0, Rcv: HEndpoint, FTok: 2, Fee: "1"}, // native coin to a system contract: refused
			{ID: 14, K: "R", Ref: 13},
			{ID: 15, K: "A", Ref: 13},
			{ID: 16, K: "T", C: 1, U: 1, Tok: 2, Amt: "100", Dst: 0, Rcv: 2, Cd: CdOk, FTok: 2, Fee: "0"},
			{ID: 17, K: "R", Ref: 16},
			{ID: 18, K: "A", Ref: 16},
			{ID: 19, K: "T", C: 0, U: 0, Tok: 1, Amt: "50", Dst: 1, Rcv: -1, FTok: 1, Fee: "1"}, // malformed receiver: code 2
			{ID: 20, K: "R", Ref: 19},
			{ID: 21, K: "A", Ref: 19},
			{ID: 22, K: "T", C: 0, U: 0, Tok: 2, Amt: "60", Dst: 1, Rcv: 1, FTok: 1, Fee: "0"},          // token unknown on chain 1: code 2 (nothing to mint: user 0 has no token 2)
			{ID: 23, K: "T", C: 0, U: 0, Tok: 1, Amt: "0", Dst: 1, Rcv: 1, Cd: CdOk, FTok: 1, Fee: "1"}, // pure call
			{ID: 24, K: "R", Ref: 23},
			{ID: 25, K: "A", Ref: 23},
			{ID: 26, K: "T", C: 0, U: 0, Tok: 1, Amt: "0", Dst: 1, Rcv: 1, Cd: CdRevert, FTok: 1, Fee: "1"}, // failing pure call
			{ID: 27, K: "R", Ref: 26},
			{ID: 28, K: "A", Ref: 26},
			{ID: 29, K: "T", C: 0, U: 0, Tok: 1, Amt: "10001", Dst: 1, Rcv: 1, FTok: 1, Fee: "0"},     // more than the balance
			{ID: 30, K: "T", C: 1, U: 1, Tok: 1, Amt: "81", Dst: 0, Rcv: 2, FTok: 1, Fee: "0"},        // more than bindings.amount (8000 left)
			{ID: 31, K: "T", C: 0, U: 0, Tok: 1, Amt: "40", Dst: 1, Rcv: 1, Cb: 1, FTok: 1, Fee: "2"}, // callback address without callback()
			{ID: 32, K: "R", Ref: 31},
			{ID: 33, K: "A", Ref: 31},
			{ID: 34, K: "F", C: 0, U: 0, Ref: 31, Amt: "3"},
			{ID: 35, K: "T", C: 0, U: 0, Tok: 1, Amt: "5", Dst: 1, Rcv: 1, FTok: 1, Fee: "0"}, // left in flight
		}}
}

// corpusBind: no binding at the start.  A packet is sent and REFUSED (token not bound) and refunded; another one is sent,
// the binding is registered while it is in flight, and it is delivered; the way back; a second binding (native coin, scaled)
// registered while a packet of that coin is in flight.
func corpusBind(i int, seed uint64) Spec {
	return Spec{ID: i, Seed: seed, NChains: 2, NUsers: 3, NTok: []int{2, 2},
		Mint: [][]string{{"0", "1", "0", "10000"}, {"0", "0", "0", "50000"}, {"1", "0", "1", "5000"}},
		Ops: []Op{
			{ID: 0, K: "T", C: 0, U: 0, Tok: 1, Amt: "300", Dst: 1, Rcv: 1, FTok: 1, Fee: "1"},
			{ID: 1, K: "R", Ref: 0}, // token not bound: code 2
			{ID: 2, K: "T", C: 0, U: 0, Tok: 1, Amt: "1000", Dst: 1, Rcv: 1, FTok: 1, Fee: "2"},
			{ID: 3, K: "B", C: 1, Tok: 1, Dst: 0, FTok: 1, Scale: 0},
			{ID: 4, K: "A", Ref: 0}, // refund of the refused one (the binding exists by now)
			{ID: 5, K: "R", Ref: 2}, // delivered
			{ID: 6, K: "A", Ref: 2},
			{ID: 7, K: "T", C: 1, U: 1, Tok: 1, Amt: "400", Dst: 0, Rcv: 2, FTok: 1, Fee: "3"},
			{ID: 8, K: "R", Ref: 7},
			{ID: 9, K: "A", Ref: 7},
			{ID: 10, K: "T", C: 0, U: 0, Tok: 0, Amt: "70", Dst: 1, Rcv: 1, FTok: 0, Fee: "5"},
			{ID: 11, K: "B", C: 1, Tok: 2, Dst: 0, FTok: 0, Scale: 2},
			{ID: 12, K: "R", Ref: 10},
			{ID: 13, K: "A", Ref: 10},
			{ID: 14, K: "T", C: 1, U: 1, Tok: 2, Amt: "30", Dst: 0, Rcv: 2, Cd: CdRevert, FTok: 2, Fee: "0"},
			{ID: 15, K: "R", Ref: 14},
			{ID: 16, K: "A", Ref: 14},
			{ID: 17, K: "T", C: 1, U: 1, Tok: 2, Amt: "20", Dst: 0, Rcv: 2, FTok: 2, Fee: "0"},
			{ID: 18, K: "R", Ref: 17},
			{ID: 19, K: "A", Ref: 17},
			{ID: 20, K: "B", C: 0, Tok: 2, Dst: 1, FTok: 2, Scale: 1}, // the other direction, never used
			{ID: 21, K: "T", C: 0, U: 0, Tok: 1, Amt: "5", Dst: 1, Rcv: 1, FTok: 1, Fee: "0"},
		}}
}

// corpusAgent: A.1 -> B.1 (scale 1) -> C.1 (scale 0); the agent contract on B forwards what a packet delivers to it.
func corpusAgent(i int, seed uint64) Spec {
	return Spec{ID: i, Seed: seed, NChains: 3, NUsers: 3, NTok: []int{2, 2, 2},
		Binds: []Bind{{C: 1, Loc: 1, Src: 0, Ori: 1, Scale: 1}, {C: 2, Loc: 1, Src: 1, Ori: 1, Scale: 0}},
		Mint:  [][]string{{"0", "1", "0", "10000"}, {"0", "0", "0", "5000"}, {"2", "0", "0", "5000"}},
		Ops: []Op{
			{ID: 0, K: "T", C: 0, U: 0, Tok: 1, Amt: "70", Dst: 1, Rcv: HAgent, Cd: CdAgent, ARef: 2, ARcv: 0, ADst: 2, AFee: "30", FTok: 1, Fee: "1"},
			{ID: 1, K: "R", Ref: 0},
			{ID: 2, K: "A", Ref: 0},
			{ID: 3, K: "X", FK: FaultRecvMisroute, Ref: 100000, C: 0}, // the onward packet delivered to a chain that is neither source nor destination
			{ID: 4, K: "R", Ref: 100000},
			{ID: 5, K: "X", FK: FaultAckMisroute, Ref: 100000, C: 0},
			{ID: 6, K: "A", Ref: 100000},
			{ID: 7, K: "T", C: 0, U: 0, Tok: 1, Amt: "70", Dst: 1, Rcv: HAgent, Cd: CdAgent, ARef: 2, ARcv: -1, ADst: 2, AFee: "30", FTok: 1, Fee: "0"},
			{ID: 8, K: "R", Ref: 7},
			{ID: 9, K: "A", Ref: 7},
			{ID: 10, K: "R", Ref: 100007}, // refused on C (malformed receiver)
			{ID: 11, K: "A", Ref: 100007}, // the agent's callback passes the refund on to user 2
			{ID: 12, K: "A", Ref: 100007},
			{ID: 13, K: "T", C: 0, U: 0, Tok: 1, Amt: "50", Dst: 1, Rcv: HAgent, Cd: CdOnwardUnknown, FTok: 1, Fee: "0"},
			{ID: 14, K: "R", Ref: 13},
			{ID: 15, K: "A", Ref: 13},
			{ID: 16, K: "T", C: 2, U: 0, Tok: 1, Amt: "100", Dst: 1, Rcv: HAgent, Cd: CdAgent, ARef: 1, ARcv: 2, ADst: 0, AFee: "0", FTok: 0, Fee: "3"},
			{ID: 17, K: "R", Ref: 16},
			{ID: 18, K: "A", Ref: 16},
			{ID: 19, K: "R", Ref: 100016},
			{ID: 20, K: "A", Ref: 100016},
			{ID: 21, K: "T", C: 0, U: 0, Tok: 1, Amt: "70", Dst: 1, Rcv: 1, Cd: CdAgent, ARef: 2, ARcv: 0, ADst: 2, AFee: "30", FTok: 1, Fee: "0"}, // agent call data, receiver is not the agent
			{ID: 22, K: "R", Ref: 21},
			{ID: 23, K: "A", Ref: 21},
			{ID: 24, K: "T", C: 0, U: 0, Tok: 1, Amt: "70", Dst: 1, Rcv: HAgent, Cd: CdAgent, ARef: 2, ARcv: 0, ADst: 2, AFee: "70", FTok: 1, Fee: "0"}, // fee eats everything
			{ID: 25, K: "R", Ref: 24},
			{ID: 26, K: "A", Ref: 24},
		}}
}

func corpusSpec(i int, seed uint64, cd int) Spec {
	rcv := 1
	if cd == CdOnwardUnknown {
		rcv = HAgent - 1
	}
	return Spec{ID: i, Seed: seed, NChains: 2, NUsers: 3, NTok: []int{2, 2},
		Binds: []Bind{{C: 1, Loc: 1, Src: 0, Ori: 1, Scale: 0}},
		Mint:  [][]string{{"0", "1", "0", "10000"}, {"1", "2", "1", "500"}},
		Ops: []Op{
			{ID: 0, K: "T", C: 0, U: 0, Tok: 1, Amt: "1000", Dst: 1, Rcv: rcv + 1, Cd: cd, FTok: 1, Fee: "0"},
			{ID: 1, K: "R", Ref: 0},
			{ID: 2, K: "A", Ref: 0},
			{ID: 3, K: "T", C: 0, U: 0, Tok: 1, Amt: "500", Dst: 1, Rcv: 1, Cd: CdOk, FTok: 1, Fee: "5"},
			{ID: 4, K: "R", Ref: 3},
			{ID: 5, K: "A", Ref: 3},
			{ID: 6, K: "T", C: 1, U: 1, Tok: 1, Amt: "200", Dst: 0, Rcv: rcv + 1, Cd: cd, FTok: 2, Fee: "3"},
			{ID: 7, K: "R", Ref: 6},
			{ID: 8, K: "A", Ref: 6},
		}}
}

func pow10(n uint8) *big.Int { return new(big.Int).Exp(big.NewInt(10), big.NewInt(int64(n)), nil) }

// genOp chooses the next operation looking at the real state (so that most operations are valid).
func (r *run) genOp(g *hlib.Rand, id int) Op {
	s := r.spec
	var pendRecv, pendAck, done []*sentPacket
	for _, sp := range r.sent {
		switch {
		case !sp.recvd:
			pendRecv = append(pendRecv, sp)
		case sp.stuck && !g.Chance(1, 10): // its acknowledgement was rejected before (cannot be acknowledged)
		case !sp.acked:
			pendAck = append(pendAck, sp)
		default:
			done = append(done, sp)
		}
	}
	pick := func(l []*sentPacket) *sentPacket { return l[g.Intn(len(l))] }
	x := g.Intn(100)
	switch {
	case x < 26 && len(pendRecv) > 0:
		return Op{ID: id, K: "R", Ref: pick(pendRecv).opID}
	case x >= 26 && x < 50 && len(pendAck) > 0:
		return Op{ID: id, K: "A", Ref: pick(pendAck).opID}
	case x >= 50 && x < 53 && len(pendAck)+len(done) > 0: // duplicate receive
		return Op{ID: id, K: "R", Ref: pick(append(pendAck, done...)).opID}
	case x >= 53 && x < 56 && len(done) > 0: // duplicate acknowledgement
		return Op{ID: id, K: "A", Ref: pick(done).opID}
	case x >= 56 && x < 58 && len(pendRecv) > 0: // premature acknowledgement
		return Op{ID: id, K: "A", Ref: pick(pendRecv).opID}
	case x >= 69 && x < 72: // governance registers a token binding in the middle of the history (first registration only)
		for try := 0; try < 6; try++ {
			c := g.Intn(s.NChains)
			src := (c + 1 + g.Intn(s.NChains-1)) % s.NChains
			b := Bind{C: c, Loc: 1 + g.Intn(s.NTok[c]), Src: src, Ori: g.Intn(s.NTok[src] + 1)}
			if g.Chance(1, 3) {
				b.Scale = uint8(1 + g.Intn(2))
			}
			if r.bindFresh(b) {
				return Op{ID: id, K: "B", C: b.C, Tok: b.Loc, Dst: b.Src, FTok: b.Ori, Scale: b.Scale}
			}
		}
	case x >= 63 && x < 69 && len(r.sent) > 0: // a relay message that is not authentic (Fault)
		n := s.NChains
		switch k := g.Intn(6); k {
		case FaultForgedEvent:
			c := g.Intn(n)
			return Op{ID: id, K: "X", FK: k, C: c, U: g.Intn(s.NUsers), Tok: 1 + g.Intn(s.NTok[c]), Dst: (c + 1 + g.Intn(n-1)) % n}
		case FaultRecvAltered:
			if len(pendRecv) > 0 {
				return Op{ID: id, K: "X", FK: k, Ref: pick(pendRecv).opID}
			}
		case FaultAckForged, FaultAckAltered:
			if len(pendAck) > 0 {
				return Op{ID: id, K: "X", FK: k, Ref: pick(pendAck).opID}
			}
		case FaultRecvMisroute:
			sp := pick(r.sent)
			return Op{ID: id, K: "X", FK: k, Ref: sp.opID, C: (sp.dst + 1 + g.Intn(n-1)) % n}
		case FaultAckMisroute:
			sp := pick(r.sent)
			return Op{ID: id, K: "X", FK: k, Ref: sp.opID, C: (sp.src + 1 + g.Intn(n-1)) % n}
		}
	case x >= 58 && x < 63 && len(r.sent) > 0: // add fee (any state of the packet, sometimes a packet that does not exist)
		sp := pick(r.sent)
		op := Op{ID: id, K: "F", C: sp.src, U: g.Intn(s.NUsers), Ref: sp.opID, Amt: fmt.Sprint(1 + g.Intn(9))}
		if g.Chance(1, 6) {
			op.Ref = -1 - 4*g.Intn(2)
		}
		if g.Chance(1, 10) {
			op.Amt = "100000000000"
		}
		return op
	}
	// transfer: mostly along a route that has a binding (forward: the destination knows the token; return: the
	// token is bound to the destination) and where the user can send something; sometimes anything
	avail := func(c, u, tok, dst int) *big.Int {
		ch := r.w.Chains[c]
		a := r.w.Balance(ch, r.tokens[c][tok], r.w.Users[u].Addr)
		// bound tokens are burned in local units (amount * 10^scale) and limited by bindings.amount
		if tok > 0 && dst < s.NChains && dst != c {
			if b := r.w.Bindings(ch, r.tokens[c][tok], r.chainName(dst)); b.Bound {
				if b.Amount.Cmp(a) < 0 {
					a.Set(b.Amount)
				}
				a.Div(a, pow10(b.Scale))
			}
		}
		return a
	}
	c := g.Intn(s.NChains)
	u := g.Intn(s.NUsers)
	dst := g.Intn(s.NChains)
	if dst == c {
		dst = (c + 1) % s.NChains
	}
	tok := g.Intn(s.NTok[c] + 1)
	if g.Chance(4, 5) {
		type route struct{ c, tok, dst int }
		var routes []route
		for _, b := range r.binds {
			routes = append(routes, route{b.Src, b.Ori, b.C}, route{b.C, b.Loc, b.Src})
		}
		for try := 0; try < 6 && len(routes) > 0; try++ {
			rt := routes[g.Intn(len(routes))]
			uu := g.Intn(s.NUsers)
			if avail(rt.c, uu, rt.tok, rt.dst).Sign() > 0 {
				c, u, tok, dst = rt.c, uu, rt.tok, rt.dst
				break
			}
		}
	}
	switch g.Intn(40) {
	case 0:
		dst = s.NChains // no such chain
	case 1:
		dst = c
	}
	ch := r.w.Chains[c]
	av := avail(c, u, tok, dst)
	for try := 0; try < 3 && av.Sign() == 0; try++ {
		tok = g.Intn(s.NTok[c] + 1)
		av = avail(c, u, tok, dst)
	}
	amt := big.NewInt(0)
	switch y := g.Intn(20); {
	case y == 0:
		amt.Add(av, big.NewInt(int64(1+g.Intn(5)))) // too much
	case y == 1:
		amt.Set(av) // everything
	case y == 2:
		// zero: pure call
	default:
		if av.Sign() > 0 {
			lim := new(big.Int).Div(av, big.NewInt(3))
			if lim.Sign() == 0 {
				lim.SetInt64(1)
			}
			amt.SetUint64(1 + g.U64()%lim.Uint64())
		}
	}
	op := Op{ID: id, K: "T", C: c, U: u, Tok: tok, Amt: amt.String(), Dst: dst, FTok: tok, Fee: "0"}
	switch y := g.Intn(20); {
	case y < 14:
		op.Rcv = g.Intn(s.NUsers)
	case y == 14:
		op.Rcv = -1
	default:
		op.Rcv = []int{HEndpoint, HPacket, HExecute, HAgent, HRelayer}[g.Intn(5)]
	}
	switch y := g.Intn(20); {
	case y < 8:
		op.Cd = CdNone
	case y < 11:
		op.Cd = CdOk
	case y < 13:
		op.Cd = CdRevert
	case y < 15:
		op.Cd = CdHookFail
	case y < 16:
		op.Cd = CdOnwardUnknown
		op.Rcv = HAgent
		if amt.Sign() == 0 {
			op.Cd = CdRevert
		}
	default:
		// agent multi-hop: forward what this packet delivers to the agent to another chain
		op.Cd = CdAgent
		op.Rcv = HAgent
		if g.Chance(1, 10) {
			op.Rcv = g.Intn(s.NUsers)
		}
		op.ARef = g.Intn(s.NUsers)
		op.ARcv = g.Intn(s.NUsers)
		if g.Chance(1, 10) {
			op.ARcv = -1
		}
		op.ADst = g.Intn(s.NChains)
		if g.Chance(1, 12) {
			op.ADst = s.NChains
		}
		op.AFee = fmt.Sprint(g.Intn(4))
		if g.Chance(1, 10) {
			op.AFee = new(big.Int).Add(amt, big.NewInt(int64(g.Intn(3)))).String()
		}
	}
	if amt.Sign() == 0 && op.Cd == CdNone && g.Chance(3, 4) {
		op.Cd = CdOk
	}
	if g.Chance(1, 25) {
		op.Cb = 1
	}
	if g.Chance(1, 2) {
		op.FTok = g.Intn(s.NTok[c] + 1)
		fb := r.w.Balance(ch, r.tokens[c][op.FTok], r.w.Users[u].Addr)
		if op.FTok == tok {
			fb.Sub(fb, new(big.Int).Mul(amt, big.NewInt(1000))) // leave room whatever the scale
		}
		switch {
		case g.Chance(1, 25):
			op.Fee = new(big.Int).Add(r.w.Balance(ch, r.tokens[c][op.FTok], r.w.Users[u].Addr), big.NewInt(1)).String()
		case fb.Sign() > 0:
			lim := new(big.Int).Div(fb, big.NewInt(10))
			if lim.Sign() == 0 {
				lim.SetInt64(1)
			}
			if lim.Cmp(big.NewInt(50)) > 0 {
				lim.SetInt64(50)
			}
			op.Fee = fmt.Sprint(1 + g.U64()%lim.Uint64())
		}
	}
	return op
}
