// C03 harness — driver of 2-3 REAL chains (x/xibc/testing Coordinator/TestChain): user EVM transactions,
// relay of MsgRecvPacket / MsgAcknowledgement through BaseApp.Deliver, and read-only views.
package main

import (
	"fmt"
	"math/big"
	"strings"
	"testing"

	abci "github.com/tendermint/tendermint/abci/types"
	tmproto "github.com/tendermint/tendermint/proto/tendermint/types"

	"github.com/cosmos/cosmos-sdk/simapp/helpers"
	sdk "github.com/cosmos/cosmos-sdk/types"

	"github.com/ethereum/go-ethereum/accounts/abi"
	"github.com/ethereum/go-ethereum/common"
	ethtypes "github.com/ethereum/go-ethereum/core/types"
	"github.com/ethereum/go-ethereum/crypto"

	"github.com/tharsis/ethermint/crypto/ethsecp256k1"
	"github.com/tharsis/ethermint/server/config"
	"github.com/tharsis/ethermint/tests"
	evm "github.com/tharsis/ethermint/x/evm/types"

	"github.com/teleport-network/teleport/syscontracts"
	erc20contracts "github.com/teleport-network/teleport/syscontracts/erc20"
	agentcontract "github.com/teleport-network/teleport/syscontracts/xibc_agent"
	endpointcontract "github.com/teleport-network/teleport/syscontracts/xibc_endpoint"
	packetcontract "github.com/teleport-network/teleport/syscontracts/xibc_packet"
	clienttypes "github.com/teleport-network/teleport/x/xibc/core/client/types"
	"github.com/teleport-network/teleport/x/xibc/core/host"
	packettypes "github.com/teleport-network/teleport/x/xibc/core/packet/types"
	xibctesting "github.com/teleport-network/teleport/x/xibc/testing"
)

var (
	erc20ABI    = erc20contracts.ERC20MinterBurnerDecimalsContract.ABI
	endpointABI = endpointcontract.EndpointContract.ABI
	packetABI   = packetcontract.PacketContract.ABI
	agentABI    = agentcontract.AgentContract.ABI

	endpointAddr = endpointcontract.EndpointContractAddress
	packetAddr   = packetcontract.PacketContractAddress
	executeAddr  = common.HexToAddress(syscontracts.ExecuteContractAddress)
	agentAddr    = agentcontract.AgentContractAddress
	zeroAddr     = common.Address{}
)

type User struct {
	Priv *ethsecp256k1.PrivKey
	Addr common.Address
}

func mkUser(i int) *User {
	k := make([]byte, 32)
	k[0] = 0x0c
	k[1] = 0x03
	k[31] = byte(i + 1)
	p := &ethsecp256k1.PrivKey{Key: k}
	return &User{Priv: p, Addr: common.BytesToAddress(p.PubKey().Address().Bytes())}
}

type World struct {
	Coord  *xibctesting.Coordinator
	Chains []*xibctesting.TestChain
	Users  []*User
}

func NewWorld(nChains, nUsers int) *World {
	w := &World{Coord: xibctesting.NewCoordinator(&testing.T{}, nChains)}
	for i := 0; i < nChains; i++ {
		w.Chains = append(w.Chains, w.Coord.GetChain(xibctesting.GetChainID(i)))
	}
	for i := 0; i < nUsers; i++ {
		w.Users = append(w.Users, mkUser(i))
	}
	// light clients for every ordered pair; relayer registrations (one call per chain: the registry keeps the LAST
	// registration of an address)
	for i := 0; i < nChains; i++ {
		for j := i + 1; j < nChains; j++ {
			p := xibctesting.NewPath(w.Chains[i], w.Chains[j])
			w.Coord.SetupClientsWithoutRelayer(p)
		}
	}
	for i, c := range w.Chains {
		var names, addrs []string
		for j, d := range w.Chains {
			if i != j {
				names = append(names, d.ChainID)
				addrs = append(addrs, d.SenderAcc.String())
			}
		}
		c.App.XIBCKeeper.ClientKeeper.RegisterRelayers(c.GetContext(), c.SenderAcc.String(), names, addrs)
		w.Commit(c)
	}
	return w
}

// Commit ends the current block of the chain and begins the next one (what Coordinator.CommitBlock does for one
// chain, without re-running BeginBlock on the OTHER chains, which would throw away their uncommitted deliver state).
func (w *World) Commit(c *xibctesting.TestChain) {
	c.App.EndBlock(abci.RequestEndBlock{Height: c.CurrentHeader.Height})
	c.App.Commit()
	// TestChain.NextBlock with the new block time set before the (single) BeginBlock
	c.LastHeader = c.CurrentTMClientHeader()
	w.Coord.CurrentTime = w.Coord.CurrentTime.Add(xibctesting.TimeIncrement).UTC()
	c.CurrentHeader = tmproto.Header{
		ChainID:            c.ChainID,
		Height:             c.App.LastBlockHeight() + 1,
		AppHash:            c.App.LastCommitID().Hash,
		Time:               w.Coord.CurrentTime,
		ValidatorsHash:     c.Vals.Hash(),
		NextValidatorsHash: c.Vals.Hash(),
		ProposerAddress:    c.Vals.Proposer.Address,
	}
	c.App.BeginBlock(abci.RequestBeginBlock{Header: c.CurrentHeader})
}

// ---------------------------------------------------------------------------------------------------------------
// EVM access
// ---------------------------------------------------------------------------------------------------------------

// view executes a read-only call on a throw-away branch of the chain's current state.
func (w *World) view(c *xibctesting.TestChain, a abi.ABI, to common.Address, method string, args ...interface{}) ([]interface{}, error) {
	data, err := a.Pack(method, args...)
	if err != nil {
		panic(err)
	}
	ctx, _ := c.GetContext().CacheContext()
	msg := ethtypes.NewMessage(packettypes.ModuleAddress, &to, 0, big.NewInt(0), config.DefaultGasCap, big.NewInt(0),
		big.NewInt(0), big.NewInt(0), data, ethtypes.AccessList{}, false)
	res, err := c.App.EvmKeeper.ApplyMessage(ctx, msg, evm.NewNoOpTracer(), false)
	if err != nil {
		return nil, err
	}
	if res.Failed() {
		return nil, fmt.Errorf("view %s reverted: %s", method, res.VmError)
	}
	return a.Unpack(method, res.Ret)
}

func (w *World) viewBig(c *xibctesting.TestChain, a abi.ABI, to common.Address, method string, args ...interface{}) *big.Int {
	out, err := w.view(c, a, to, method, args...)
	if err != nil {
		panic(fmt.Sprintf("view %s: %v", method, err))
	}
	return out[0].(*big.Int)
}

// moduleCall performs a state-changing call the way the keepers do (AggregateKeeper.CallEVMWithData) on the
// deliver state and commits the block.
func (w *World) moduleCall(c *xibctesting.TestChain, from common.Address, to *common.Address, data []byte) error {
	res, err := c.App.AggregateKeeper.CallEVMWithData(c.GetContext(), from, to, data)
	if err != nil {
		return err
	}
	if res.Failed() {
		return fmt.Errorf("vm error: %s", res.VmError)
	}
	w.Commit(c)
	return nil
}

// TxResult of a user EVM transaction executed by EvmKeeper.EthereumTx on the deliver state.
type TxResult struct {
	Err     error  // Go error of EthereumTx (nothing executed)
	VmError string // non-empty: the transaction failed (reverted / hook failure), state unchanged except the nonce
	Events  sdk.Events
}

func (r TxResult) OK() bool { return r.Err == nil && r.VmError == "" }

// UserTx signs and executes an Ethereum transaction of the user (gas price 0), then commits the block.
func (w *World) UserTx(c *xibctesting.TestChain, u *User, to common.Address, value *big.Int, data []byte) TxResult {
	ctx := c.GetContext()
	chainID := c.App.EvmKeeper.ChainID()
	nonce := c.App.EvmKeeper.GetNonce(ctx, u.Addr)
	tx := evm.NewTx(chainID, nonce, &to, value, config.DefaultGasCap, big.NewInt(0), big.NewInt(0), big.NewInt(0), data,
		&ethtypes.AccessList{})
	tx.From = u.Addr.Hex()
	if err := tx.Sign(ethtypes.LatestSignerForChainID(chainID), tests.NewSigner(u.Priv)); err != nil {
		panic(err)
	}
	rsp, err := c.App.EvmKeeper.EthereumTx(sdk.WrapSDKContext(ctx), tx)
	out := TxResult{Err: err, Events: ctx.EventManager().Events()}
	if err == nil {
		out.VmError = rsp.VmError
	}
	w.Commit(c)
	return out
}

// SentPackets extracts the packets of the EventSendPacket events (in order).
func SentPackets(evs []abci.Event) []packettypes.Packet {
	var out []packettypes.Packet
	for _, ev := range evs {
		if !strings.HasSuffix(ev.Type, "EventSendPacket") {
			continue
		}
		msg, err := sdk.ParseTypedEvent(ev)
		if err != nil {
			panic(err)
		}
		sp := msg.(*packettypes.EventSendPacket)
		var p packettypes.Packet
		if err := p.ABIDecode(sp.Packet); err != nil {
			panic(err)
		}
		out = append(out, p)
	}
	return out
}

func WrittenAcks(evs []abci.Event) [][]byte {
	var out [][]byte
	for _, ev := range evs {
		if !strings.HasSuffix(ev.Type, "EventWriteAck") {
			continue
		}
		msg, err := sdk.ParseTypedEvent(ev)
		if err != nil {
			panic(err)
		}
		out = append(out, msg.(*packettypes.EventWriteAck).Ack)
	}
	return out
}

func toABCI(evs sdk.Events) []abci.Event { return evs.ToABCIEvents() }

// ---------------------------------------------------------------------------------------------------------------
// cosmos messages of the relayer (chain.SenderAcc), delivered as real transactions
// ---------------------------------------------------------------------------------------------------------------

// Deliver signs msgs with the chain's sender key and runs them through BaseApp.Deliver in a block of their own.
func (w *World) Deliver(c *xibctesting.TestChain, msgs ...sdk.Msg) (*sdk.Result, error) {
	if c.CurrentHeader.Time.Before(w.Coord.CurrentTime) {
		// the chain's open block is older than the other chains' latest headers: close it, so that the block of
		// this transaction carries the current time (light clients reject headers from the future)
		w.Commit(c)
	}
	acc := c.App.AccountKeeper.GetAccount(c.GetContext(), c.SenderAcc)
	tx, err := helpers.GenTx(c.TxConfig, msgs, sdk.Coins{sdk.NewInt64Coin(sdk.DefaultBondDenom, 0)}, helpers.DefaultGenTxGas*4,
		c.ChainID, []uint64{acc.GetAccountNumber()}, []uint64{acc.GetSequence()}, c.SenderPrivKey)
	if err != nil {
		panic(err)
	}
	_, res, err := c.App.BaseApp.Deliver(c.TxConfig.TxEncoder(), tx)
	w.Commit(c)
	return res, err
}

func idx(w *World, name string) int {
	for i, c := range w.Chains {
		if c.ChainID == name {
			return i
		}
	}
	return -1
}

// UpdateClient brings dst's light client of src up to src's last committed header (src commits a block first so
// that everything written so far is provable).
func (w *World) UpdateClient(dst, src *xibctesting.TestChain) error {
	w.Commit(src)
	header, err := dst.ConstructUpdateTMClientHeader(src, src.ChainID)
	if err != nil {
		return err
	}
	msg, err := clienttypes.NewMsgUpdateClient(src.ChainID, header, dst.SenderAcc)
	if err != nil {
		return err
	}
	_, err = w.Deliver(dst, msg)
	return err
}

func (w *World) proofAt(prover, verifier *xibctesting.TestChain, key []byte) ([]byte, clienttypes.Height) {
	cs, ok := verifier.App.XIBCKeeper.ClientKeeper.GetClientState(verifier.GetContext(), prover.ChainID)
	if !ok {
		panic("no client")
	}
	return prover.QueryProofAtHeight(key, int64(cs.GetLatestHeight().GetRevisionHeight()))
}

// RelayRecv delivers MsgRecvPacket for p on its destination chain. Returns the tx result (nil on failure).
func (w *World) RelayRecv(p packettypes.Packet) (*sdk.Result, error) {
	src, dst := w.Chains[idx(w, p.SrcChain)], w.Chains[idx(w, p.DstChain)]
	if err := w.UpdateClient(dst, src); err != nil {
		return nil, fmt.Errorf("update client: %w", err)
	}
	key := host.PacketCommitmentKey(p.SrcChain, p.DstChain, p.Sequence)
	proof, h := w.proofAt(src, dst, key)
	bz, err := p.ABIPack()
	if err != nil {
		panic(err)
	}
	return w.Deliver(dst, packettypes.NewMsgRecvPacket(bz, proof, h, dst.SenderAcc))
}

// RelayAck delivers MsgAcknowledgement(p, ack) on the packet's source chain.
func (w *World) RelayAck(p packettypes.Packet, ack []byte) (*sdk.Result, error) {
	src, dst := w.Chains[idx(w, p.SrcChain)], w.Chains[idx(w, p.DstChain)]
	if err := w.UpdateClient(src, dst); err != nil {
		return nil, fmt.Errorf("update client: %w", err)
	}
	key := host.PacketAcknowledgementKey(p.SrcChain, p.DstChain, p.Sequence)
	proof, h := w.proofAt(dst, src, key)
	bz, err := p.ABIPack()
	if err != nil {
		panic(err)
	}
	return w.Deliver(src, packettypes.NewMsgAcknowledgement(bz, ack, proof, h, src.SenderAcc))
}

// DeliverRecvAt delivers MsgRecvPacket(bz) about packet p (p's source chain is genuine) on chain x, which need not be
// p's destination, with a genuine proof of whatever p's source chain stores under p's commitment key (when x has a
// light client of the source chain; a dummy proof otherwise).
func (w *World) DeliverRecvAt(x *xibctesting.TestChain, p packettypes.Packet, bz []byte) (*sdk.Result, error) {
	src := w.Chains[idx(w, p.SrcChain)]
	proof, h := []byte("no proof"), clienttypes.NewHeight(0, 1)
	if x != src {
		if _, ok := x.App.XIBCKeeper.ClientKeeper.GetClientState(x.GetContext(), src.ChainID); ok {
			if err := w.UpdateClient(x, src); err != nil {
				return nil, fmt.Errorf("update client: %w", err)
			}
			proof, h = w.proofAt(src, x, host.PacketCommitmentKey(p.SrcChain, p.DstChain, p.Sequence))
		}
	}
	return w.Deliver(x, packettypes.NewMsgRecvPacket(bz, proof, h, x.SenderAcc))
}

// DeliverAckAt delivers MsgAcknowledgement(bz, ack) about packet p on chain x, which need not be p's source, with a
// genuine proof of whatever p's destination chain stores under p's acknowledgement key (when x has a light client of it).
func (w *World) DeliverAckAt(x *xibctesting.TestChain, p packettypes.Packet, bz []byte, ack []byte) (*sdk.Result, error) {
	dst := w.Chains[idx(w, p.DstChain)]
	proof, h := []byte("no proof"), clienttypes.NewHeight(0, 1)
	if x != dst {
		if _, ok := x.App.XIBCKeeper.ClientKeeper.GetClientState(x.GetContext(), dst.ChainID); ok {
			if err := w.UpdateClient(x, dst); err != nil {
				return nil, fmt.Errorf("update client: %w", err)
			}
			proof, h = w.proofAt(dst, x, host.PacketAcknowledgementKey(p.SrcChain, p.DstChain, p.Sequence))
		}
	}
	return w.Deliver(x, packettypes.NewMsgAcknowledgement(bz, ack, proof, h, x.SenderAcc))
}

// ---------------------------------------------------------------------------------------------------------------
// tokens
// ---------------------------------------------------------------------------------------------------------------

// DeployERC20 deploys an ERC20MinterBurnerDecimals whose admin/minter/burner is the endpoint contract (as the
// repository's integration tests do), and lets the chain's sender account mint.
func (w *World) DeployERC20(c *xibctesting.TestChain) common.Address {
	ctor, err := erc20ABI.Pack("", "name", "symbol", uint8(18))
	if err != nil {
		panic(err)
	}
	bin := erc20contracts.ERC20MinterBurnerDecimalsContract.Bin
	data := append(append([]byte{}, bin...), ctor...)
	nonce := c.App.EvmKeeper.GetNonce(c.GetContext(), endpointAddr)
	addr := crypto.CreateAddress(endpointAddr, nonce)
	if err := w.moduleCall(c, endpointAddr, nil, data); err != nil {
		panic(err)
	}
	grant, _ := erc20ABI.Pack("grantRole", common.BytesToHash(crypto.Keccak256([]byte("MINTER_ROLE"))), c.SenderAddress)
	if err := w.moduleCall(c, endpointAddr, &addr, grant); err != nil {
		panic(err)
	}
	return addr
}

// DeployEmitter deploys a 44-byte contract whose only behaviour is LOG1(calldata, topic = PacketSent(bytes)): a user
// contract that "emits" any PacketSent event it is asked to.  Runtime: CALLDATASIZE PUSH1 0 PUSH1 0 CALLDATACOPY
// PUSH32 <topic> CALLDATASIZE PUSH1 0 LOG1 STOP; init code copies it to memory and returns it.
func (w *World) DeployEmitter(c *xibctesting.TestChain) common.Address {
	topic := packetABI.Events["PacketSent"].ID
	runtime := append([]byte{0x36, 0x60, 0x00, 0x60, 0x00, 0x37, 0x7f}, topic.Bytes()...)
	runtime = append(runtime, 0x36, 0x60, 0x00, 0xa1, 0x00)
	init := append([]byte{0x60, byte(len(runtime)), 0x80, 0x60, 0x0b, 0x60, 0x00, 0x39, 0x60, 0x00, 0xf3}, runtime...)
	nonce := c.App.EvmKeeper.GetNonce(c.GetContext(), endpointAddr)
	addr := crypto.CreateAddress(endpointAddr, nonce)
	if err := w.moduleCall(c, endpointAddr, nil, init); err != nil {
		panic(err)
	}
	return addr
}

func (w *World) Mint(c *xibctesting.TestChain, token, to common.Address, amount *big.Int) {
	data, _ := erc20ABI.Pack("mint", to, amount)
	sender := &User{Priv: c.SenderPrivKey.(*ethsecp256k1.PrivKey), Addr: c.SenderAddress}
	if r := w.UserTx(c, sender, token, big.NewInt(0), data); !r.OK() {
		panic(fmt.Sprintf("mint failed: %v %s", r.Err, r.VmError))
	}
}

func (w *World) Approve(c *xibctesting.TestChain, u *User, token, spender common.Address, amount *big.Int) {
	data, _ := erc20ABI.Pack("approve", spender, amount)
	if r := w.UserTx(c, u, token, big.NewInt(0), data); !r.OK() {
		panic(fmt.Sprintf("approve failed: %v %s", r.Err, r.VmError))
	}
}

func (w *World) FundNative(c *xibctesting.TestChain, to common.Address, amount int64) {
	if err := c.App.BankKeeper.SendCoins(c.GetContext(), c.SenderAcc, sdk.AccAddress(to.Bytes()),
		sdk.NewCoins(sdk.NewInt64Coin(sdk.DefaultBondDenom, amount))); err != nil {
		panic(err)
	}
	w.Commit(c)
}

// Bind registers local token `local` on chain c as the representation of (oriChain, oriToken).
func (w *World) Bind(c *xibctesting.TestChain, local common.Address, oriToken string, oriChain string, scale uint8) error {
	err := c.App.AggregateKeeper.RegisterERC20Trace(c.GetContext(), local, oriToken, oriChain, scale)
	w.Commit(c)
	return err
}

func lower(a common.Address) string { return strings.ToLower(a.String()) }

// Balance: ERC-20 balanceOf, or the bank balance of the EVM denomination for the zero token address.
func (w *World) Balance(c *xibctesting.TestChain, token, holder common.Address) *big.Int {
	if token == zeroAddr {
		return c.App.BankKeeper.GetBalance(c.GetContext(), sdk.AccAddress(holder.Bytes()), sdk.DefaultBondDenom).Amount.BigInt()
	}
	return w.viewBig(c, erc20ABI, token, "balanceOf", holder)
}

func (w *World) TotalSupply(c *xibctesting.TestChain, token common.Address) *big.Int {
	return w.viewBig(c, erc20ABI, token, "totalSupply")
}

func (w *World) Allowance(c *xibctesting.TestChain, token, owner, spender common.Address) *big.Int {
	return w.viewBig(c, erc20ABI, token, "allowance", owner, spender)
}

func (w *World) OutTokens(c *xibctesting.TestChain, token common.Address, dst string) *big.Int {
	return w.viewBig(c, endpointABI, endpointAddr, "outTokens", token, dst)
}

type Binding struct {
	OriChain string
	OriToken string
	Amount   *big.Int
	Scale    uint8
	Bound    bool
}

func (w *World) Bindings(c *xibctesting.TestChain, token common.Address, oriChain string) Binding {
	out, err := w.view(c, endpointABI, endpointAddr, "bindings", lower(token)+"/"+oriChain)
	if err != nil {
		panic(err)
	}
	return Binding{out[0].(string), out[1].(string), out[2].(*big.Int), out[3].(uint8), out[4].(bool)}
}

func (w *World) AckStatus(c *xibctesting.TestChain, dst string, seq uint64) uint8 {
	out, err := w.view(c, packetABI, packetAddr, "getAckStatus", dst, seq)
	if err != nil {
		panic(err)
	}
	return out[0].(uint8)
}

func (w *World) PacketFee(c *xibctesting.TestChain, dst string, seq uint64) (common.Address, *big.Int) {
	out, err := w.view(c, packetABI, packetAddr, "packetFees", []byte(fmt.Sprintf("%s/%d", dst, seq)))
	if err != nil {
		panic(err)
	}
	return out[0].(common.Address), out[1].(*big.Int)
}

func (w *World) NextSeqContract(c *xibctesting.TestChain, dst string) uint64 {
	out, err := w.view(c, packetABI, packetAddr, "getNextSequenceSend", dst)
	if err != nil {
		panic(err)
	}
	return out[0].(uint64)
}

// CrossChainCall: the user's endpoint.crossChainCall transaction; value = native parts of amount and fee.
func (w *World) CrossChainCall(c *xibctesting.TestChain, u *User, d packettypes.CrossChainData, fee packettypes.Fee) TxResult {
	data, err := endpointABI.Pack("crossChainCall", d, fee)
	if err != nil {
		panic(err)
	}
	value := big.NewInt(0)
	if d.TokenAddress == zeroAddr {
		value.Add(value, d.Amount)
	}
	if fee.TokenAddress == zeroAddr {
		value.Add(value, fee.Amount)
	}
	return w.UserTx(c, u, endpointAddr, value, data)
}
