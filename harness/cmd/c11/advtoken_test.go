package main

import (
	"math/big"
	"testing"

	"github.com/ethereum/go-ethereum/common"
	"github.com/ethereum/go-ethereum/core/rawdb"
	"github.com/ethereum/go-ethereum/core/state"
	"github.com/ethereum/go-ethereum/core/vm/runtime"
)

func word(v int64) []byte { return common.LeftPadBytes(big.NewInt(v).Bytes(), 32) }
func addrw(a common.Address) []byte { return common.LeftPadBytes(a.Bytes(), 32) }
func sel(s uint32) []byte { return []byte{byte(s >> 24), byte(s >> 16), byte(s >> 8), byte(s)} }
func cat(bs ...[]byte) []byte {
	var o []byte
	for _, b := range bs {
		o = append(o, b...)
	}
	return o
}

func TestAdvToken(t *testing.T) {
	db, _ := state.New(common.Hash{}, state.NewDatabase(rawdb.NewMemoryDatabase()), nil)
	tok := common.HexToAddress("0x1000000000000000000000000000000000000001")
	A := common.HexToAddress("0xA000000000000000000000000000000000000001")
	B := common.HexToAddress("0xB000000000000000000000000000000000000001")
	db.SetCode(tok, advTokenCode())
	call := func(from common.Address, data []byte) ([]byte, error) {
		cfg := &runtime.Config{State: db, Origin: from, GasLimit: 1000000}
		ret, _, err := runtime.Call(tok, data, cfg)
		return ret, err
	}
	bal := func(a common.Address) int64 {
		ret, err := call(A, cat(sel(0x70a08231), addrw(a)))
		if err != nil || len(ret) != 32 {
			t.Fatalf("balanceOf: %v %x", err, ret)
		}
		return new(big.Int).SetBytes(ret).Int64()
	}
	set := func(slot []byte, v int64) {
		if _, err := call(A, cat(sel(selSet), slot, word(v))); err != nil {
			t.Fatal(err)
		}
	}
	set(addrw(A), 1000)
	if bal(A) != 1000 || bal(B) != 0 {
		t.Fatal("set/balanceOf")
	}
	ret, err := call(A, cat(sel(0xa9059cbb), addrw(B), word(100)))
	if err != nil || new(big.Int).SetBytes(ret).Int64() != 1 || bal(A) != 900 || bal(B) != 100 {
		t.Fatalf("plain transfer %v %x %d %d", err, ret, bal(A), bal(B))
	}
	set(word(1), 7) // sender fee
	set(word(2), 3) // receiver fee
	ret, err = call(A, cat(sel(0xa9059cbb), addrw(B), word(100)))
	if err != nil || bal(A) != 793 || bal(B) != 197 {
		t.Fatalf("fee transfer %v %x %d %d", err, ret, bal(A), bal(B))
	}
	if _, err = call(A, cat(sel(0xa9059cbb), addrw(B), word(790))); err == nil {
		t.Fatal("expected revert (insufficient incl. fee)")
	}
	set(word(1), 0)
	set(word(2), 0)
	for mode, exp := range map[int64]int64{1: 0, 4: 2} {
		set(word(3), mode)
		ret, err = call(A, cat(sel(0xa9059cbb), addrw(B), word(1)))
		if err != nil || new(big.Int).SetBytes(ret).Int64() != exp {
			t.Fatalf("ret mode %d: %v %x", mode, err, ret)
		}
	}
	set(word(3), 3)
	ret, err = call(A, cat(sel(0xa9059cbb), addrw(B), word(1)))
	if err != nil || len(ret) != 0 {
		t.Fatalf("ret empty: %v %x", err, ret)
	}
	set(word(3), 2)
	if _, err = call(A, cat(sel(0xa9059cbb), addrw(B), word(1))); err == nil {
		t.Fatal("expected revert mode")
	}
	set(word(3), 0)
	a0, b0 := bal(A), bal(B)
	for lm := int64(0); lm <= 3; lm++ {
		set(word(4), lm)
		n0 := len(db.Logs())
		ret, err = call(A, cat(sel(0xa9059cbb), addrw(B), word(1)))
		if err != nil {
			t.Fatalf("log mode %d: %v", lm, err)
		}
		logs := db.Logs()[n0:]
		want := map[int64]int{0: 1, 1: 2, 2: 2, 3: 0}[lm]
		if len(logs) != want {
			t.Fatalf("log mode %d: %d logs", lm, len(logs))
		}
		if lm == 2 && len(logs[0].Topics) != 0 {
			t.Fatal("anon log has topics")
		}
		if lm == 1 && (len(logs[0].Topics) != 3 || logs[0].Topics[2] != common.BytesToHash(thiefAddr) || logs[0].Topics[1] != common.BytesToHash(B.Bytes())) {
			t.Fatalf("approval log %v", logs[0].Topics)
		}
		if lm == 0 && (logs[0].Topics[1] != common.BytesToHash(A.Bytes()) || logs[0].Topics[2] != common.BytesToHash(B.Bytes()) || new(big.Int).SetBytes(logs[0].Data).Int64() != 1) {
			t.Fatalf("transfer log %v %x", logs[0].Topics, logs[0].Data)
		}
	}
	set(word(4), 0)
	if bal(A) != a0-4 || bal(B) != b0+4 {
		t.Fatal("log transfers moved wrong amounts")
	}
	// lie
	set(word(7), int64(0))
	if _, err := call(A, cat(sel(selSet), word(7), addrw(B))); err != nil {
		t.Fatal(err)
	}
	set(word(6), 50)
	set(word(8), 5)
	b1 := bal(B)
	b2 := bal(B)
	if b1 != b0+4+50 || b2 != b1+5 || bal(A) != a0-4 {
		t.Fatalf("lie %d %d", b1, b2)
	}
	set(word(8), 0)
	set(word(6), 0)
	set(word(9), 1) // fake credit
	ret, err = call(A, cat(sel(0xa9059cbb), addrw(B), word(11)))
	if err != nil || bal(A) != a0-4 || bal(B) != b0+4+11 {
		t.Fatalf("fake credit %v %d %d", err, bal(A), bal(B))
	}
	set(word(9), 0)
	set(word(6), 0)
	for mode := int64(1); mode <= 2; mode++ {
		set(word(5), mode)
		ret, err = call(A, cat(sel(0x70a08231), addrw(A)))
		if mode == 1 && err == nil || mode == 2 && (err != nil || len(ret) != 0) {
			t.Fatalf("bal mode %d: %v %x", mode, err, ret)
		}
	}
	set(word(5), 0)
	ret, err = call(A, sel(0x06fdde03))
	if err != nil || len(ret) != 96 || string(ret[64:67]) != "ADV" {
		t.Fatalf("name %v %x", err, ret)
	}
	ret, err = call(A, sel(0x18160ddd))
	if err != nil || len(ret) != 32 {
		t.Fatal("totalSupply")
	}
	if _, err = call(A, sel(0x12345678)); err == nil {
		t.Fatal("unknown selector should revert")
	}
	if _, err = call(A, sel(selKill)); err != nil || !db.HasSuicided(tok) {
		t.Fatal("kill")
	}
}
