package main

import (
	"crypto/sha256"
	"fmt"
	"strings"

	"verifharness/hlib"
)

const huge = "57896044618658097711785492504343953926634992332820282019728792003956564819967" // 2^255-1

// ibcVoucher: the denomination ibc-go's transfer application credits for base denomination `base` arriving on
// transfer/<channel> (and the one the aggregate hook looks up: types.IBCDenom): "ibc/" + HEX(sha256(trace))
func ibcVoucher(channel, base string) string {
	h := sha256.Sum256([]byte("transfer/" + channel + "/" + base))
	return "ibc/" + strings.ToUpper(fmt.Sprintf("%x", h[:]))
}

var (
	ibc0 = ibcVoucher("channel-0", "uatom")
	ibc1 = ibcVoucher("channel-1", "uatom")
)

var coinDenoms = []string{"acoin", "bcoin", "ccoin", ibc0, "dcoin-x", ibc1}

// hex-looking denomination (40 hex digits starting with a letter): GetTokenPairID treats it as an address
const hexDenom = "abcdefabcdefabcdefabcdefabcdefabcdefabcd"

type gtok struct {
	kind   int
	denoms []string // denominations believed to be listed by the token's pair ("" = voucher)
	reg    bool
}

type gen struct {
	r     *hlib.Rand
	steps []Step
	toks  []*gtok
	dens  []string    // coin denominations in use
	appr  [][3]string // approvals made so far: token index, owner, spender
}

func (g *gen) add(s Step)      { g.steps = append(g.steps, s) }
func (g *gen) user() string    { return fmt.Sprintf("@u%d", g.r.Intn(nUsers)) }
func (g *gen) pick(xs ...string) string { return xs[g.r.Intn(len(xs))] }

const two255 = "57896044618658097711785492504343953926634992332820282019728792003956564819968"
const two128 = "340282366920938463463374607431768211456"
const maxInt = "115792089237316195423570985008687907853269984665640564039457584007913129639935" // 2^256-1

// amount: mostly a valid fraction of the sender's balance (resolved at run time), plus boundary values
func (g *gen) amount() string {
	switch x := g.r.Intn(100); {
	case x < 22:
		return "half"
	case x < 40:
		return "third"
	case x < 50:
		return "1"
	case x < 62:
		return fmt.Sprint(1 + g.r.Intn(20))
	case x < 74:
		return "bal"
	case x < 78:
		return "bal-1"
	case x < 85:
		return "bal+1"
	case x < 88:
		return "0"
	case x < 90:
		return "-1"
	case x < 94:
		return huge
	case x < 97:
		return two128
	case x < 98:
		return maxInt
	default:
		return fmt.Sprint(100 + g.r.Intn(400))
	}
}

func (g *gen) smallAmount() string { return fmt.Sprint(1 + g.r.Intn(40)) }

func (g *gen) receiver(self string) string {
	switch x := g.r.Intn(100); {
	case x < 55:
		return self
	case x < 80:
		return g.user()
	case x < 83:
		return "@module"
	case x < 86:
		return "@feecol"
	case x < 89:
		return "@distr"
	case x < 91:
		return "@zero"
	case x < 94:
		return "@fresh"
	case x < 97:
		if len(g.toks) > 0 {
			return fmt.Sprintf("@tok%d", g.r.Intn(len(g.toks)))
		}
		return "@thief"
	case x < 98:
		return "@thief"
	default:
		return "not-an-address"
	}
}

func (g *gen) setup() {
	r := g.r
	nd := 1 + r.Intn(4)
	perm := []string{}
	for _, d := range coinDenoms {
		perm = append(perm, d)
	}
	for i := range perm {
		j := i + r.Intn(len(perm)-i)
		perm[i], perm[j] = perm[j], perm[i]
	}
	g.dens = perm[:nd]
	if r.Chance(1, 12) {
		g.dens = append(g.dens, hexDenom)
	}
	hugeWorld := r.Chance(1, 10)
	for _, d := range g.dens {
		for u := 0; u < nUsers; u++ {
			if r.Chance(3, 4) {
				amt := fmt.Sprint(r.Intn(300))
				if r.Chance(1, 6) {
					amt = "0"
				}
				if hugeWorld && u == 0 {
					amt = huge
				}
				if amt != "0" {
					g.add(Step{Op: "fund", To: fmt.Sprintf("@u%d", u), Denom: d, Amount: amt})
				}
			}
		}
		if r.Chance(1, 8) {
			g.add(Step{Op: "fund", To: "@module", Denom: d, Amount: fmt.Sprint(1 + r.Intn(20))})
		}
	}
	// module-owned pairs
	di := 0
	nmod := r.Intn(3)
	if nmod == 0 && r.Chance(1, 2) {
		nmod = 1
	}
	for p := 0; p < nmod && di < len(g.dens); p++ {
		t := &gtok{kind: kindModule, denoms: []string{g.dens[di]}, reg: true}
		g.add(Step{Op: "register_coin", Denom: g.dens[di]})
		di++
		g.toks = append(g.toks, t)
		ti := len(g.toks) - 1
		for di < len(g.dens) && r.Chance(1, 2) {
			g.add(Step{Op: "add_coin", Tok: ti, Denom: g.dens[di]})
			t.denoms = append(t.denoms, g.dens[di])
			di++
		}
	}
	// external tokens
	next := r.Intn(3)
	if len(g.toks) == 0 && next == 0 {
		next = 1
	}
	for e := 0; e < next; e++ {
		kind := []int{kindStd, kindStd, kindDelayed, kindManip, kindAdv, kindAdv, kindAdv}[r.Intn(7)]
		t := &gtok{kind: kind, denoms: []string{""}}
		g.add(Step{Op: "deploy", Kind: kind, From: fmt.Sprintf("@u%d", r.Intn(2))})
		g.toks = append(g.toks, t)
		ti := len(g.toks) - 1
		for u := 0; u < nUsers; u++ {
			if r.Chance(3, 4) {
				amt := fmt.Sprint(1 + r.Intn(300))
				if hugeWorld && u < 2 {
					amt = huge
				}
				g.add(Step{Op: "token_mint", Tok: ti, To: fmt.Sprintf("@u%d", u), Amount: amt})
			}
		}
		if !r.Chance(1, 10) {
			g.add(Step{Op: "register_erc20", Tok: ti})
			t.reg = true
		}
		if kind == kindAdv && r.Chance(1, 3) {
			g.advCfg(ti)
		}
		if t.reg && di < len(g.dens) && r.Chance(1, 5) { // governance adds a native coin to an external pair
			g.add(Step{Op: "add_coin", Tok: ti, Denom: g.dens[di]})
			t.denoms = append(t.denoms, g.dens[di])
			di++
		}
	}
}

// advCfg: the adversary configures an AdvToken.  lie/lieStep/fakeCredit (slots 6..9) model a token whose
// balanceOf is not a view of a ledger; they are only produced by the targeted "misreport" scenario.
func (g *gen) advCfg(ti int) {
	r := g.r
	switch r.Intn(8) {
	case 0:
		g.add(Step{Op: "token_cfg", Tok: ti, Slot: 1, Amount: fmt.Sprint(1 + r.Intn(3))}) // sender-side fee
	case 1:
		g.add(Step{Op: "token_cfg", Tok: ti, Slot: 2, Amount: fmt.Sprint(1 + r.Intn(3))}) // receiver-side fee
	case 2:
		g.add(Step{Op: "token_cfg", Tok: ti, Slot: 3, Amount: fmt.Sprint(1 + r.Intn(4))}) // return value games
	case 3:
		g.add(Step{Op: "token_cfg", Tok: ti, Slot: 4, Amount: fmt.Sprint(1 + r.Intn(3))}) // log games
	case 4:
		g.add(Step{Op: "token_cfg", Tok: ti, Slot: 5, Amount: fmt.Sprint(1 + r.Intn(2))}) // balanceOf fails
	case 5: // balanceOf fails for one holder only
		g.add(Step{Op: "token_cfg", Tok: ti, Slot: 7, To: g.pick("@module", "@module", g.user())})
		g.add(Step{Op: "token_cfg", Tok: ti, Slot: 5, Amount: "3"})
	default: // back to honest
		for sl := 1; sl <= 5; sl++ {
			g.add(Step{Op: "token_cfg", Tok: ti, Slot: sl, Amount: "0"})
		}
	}
}

func (g *gen) tokIndex() int {
	if len(g.toks) == 0 {
		return 0
	}
	return g.r.Intn(len(g.toks))
}

func (g *gen) denomOf(ti int) string {
	r := g.r
	if ti >= len(g.toks) {
		return "acoin"
	}
	t := g.toks[ti]
	d := t.denoms[r.Intn(len(t.denoms))]
	if d == "" {
		d = fmt.Sprintf("@tok%d.voucher", ti)
	}
	switch r.Intn(28) {
	case 0: // a denomination of another pair / not registered
		return g.pick("acoin", "bcoin", "zcoin", "stake")
	case 1:
		return fmt.Sprintf("@tok%d.bare", ti) // the contract's own 40 hex digits
	case 2:
		return fmt.Sprintf("@tok%d.voucher", g.tokIndex())
	case 3:
		return g.pick("", "x", "1bad", hexDenom, "ibc/zz")
	}
	return d
}

// misbehave: with some probability the adversary reconfigures an AdvToken right before a conversion through it
func (g *gen) misbehave(ti int) {
	if ti < len(g.toks) && g.toks[ti].kind == kindAdv && g.r.Chance(1, 4) {
		g.advCfg(ti)
	}
}

func (g *gen) convertCoin() {
	r := g.r
	ti := g.tokIndex()
	g.misbehave(ti)
	s := "@rich"
	if r.Chance(1, 6) {
		s = g.user()
	}
	if r.Chance(1, 25) {
		// (never the module account: nobody can sign for it — hypothesis not_module_signed of the backing theorems;
		// the unsigned "server" path would otherwise let it convert its own escrow)
		s = g.pick("@fresh", "@thief", "bad-bech32")
	}
	via := "tx"
	if r.Chance(3, 10) {
		via = "server"
	}
	g.add(Step{Op: "convert_coin", Sender: s, Receiver: g.receiver(s) + g.pick("", "", "", "", ".lower", ".bare", ".upper"), Denom: g.denomOf(ti), Amount: g.amount(), Via: via, Tok: ti})
}

func (g *gen) convertERC20() {
	r := g.r
	ti := g.tokIndex()
	g.misbehave(ti)
	s := "@rich"
	if r.Chance(1, 6) {
		s = g.user()
	}
	if r.Chance(1, 25) {
		s = g.pick("@fresh", "@thief", "0x12", "@zero")
	}
	c := fmt.Sprintf("@tok%d", ti) + g.pick("", "", "", "", ".lower", ".bare", ".upper")
	if r.Chance(1, 25) {
		c = g.pick("0x1234", "acoin", "@fresh", "@module", "")
	}
	via := "tx"
	if r.Chance(3, 10) {
		via = "server"
	}
	rc := g.receiver(s)
	g.add(Step{Op: "convert_erc20", Sender: s + g.pick("", "", "", ".lower"), Receiver: rc, Contract: c, Denom: g.denomOf(ti), Amount: g.amount(), Via: via, Tok: ti})
}

// stdTok: index of a token with the full ERC-20 interface (module-deployed or user-deployed
// ERC20MinterBurnerDecimals), or -1
func (g *gen) stdTok() int {
	var c []int
	for i, t := range g.toks {
		if t.kind == kindModule || t.kind == kindStd {
			c = append(c, i)
		}
	}
	if len(c) == 0 {
		return -1
	}
	return c[g.r.Intn(len(c))]
}

// allowance: holders approve spenders; spenders move or burn the holder's tokens (the rest of the contract's public
// interface, part of "what everybody else can do")
func (g *gen) allowance() {
	r := g.r
	ti := g.stdTok()
	if ti < 0 {
		return
	}
	if len(g.appr) == 0 || r.Chance(2, 5) {
		owner, sp := g.user(), g.pick(g.user(), g.user(), "@thief", "@module", "@zero")
		op := g.pick("tok_approve", "tok_approve", "tok_approve", "tok_inc_allow", "tok_dec_allow")
		g.add(Step{Op: op, Tok: ti, From: owner, To: sp, Amount: g.pick("1", "10", "50", "bal", "bal+1", "half", maxInt, "0")})
		if sp != "@zero" {
			g.appr = append(g.appr, [3]string{fmt.Sprint(ti), owner, sp})
		}
		return
	}
	a := g.appr[r.Intn(len(g.appr))]
	var at int
	fmt.Sscan(a[0], &at)
	sp := a[2]
	if r.Chance(1, 8) {
		sp = g.user() // somebody without that allowance
	}
	if r.Chance(2, 3) {
		g.add(Step{Op: "tok_transfer_from", Tok: at, From: sp, Sender: a[1], To: g.pick(g.user(), g.user(), "@module", "@thief", "@zero"), Amount: g.pick("1", "5", "allow", "allow+1", "bal", "half")})
	} else {
		g.add(Step{Op: "tok_burn_from", Tok: at, From: sp, Sender: a[1], Amount: g.pick("1", "3", "allow", "allow+1", "bal")})
	}
}

// ibcRecv: an ICS-20 packet reaches the aggregate hook (usually right after the transfer application credited the
// vouchers to the receiver: a "fund" step)
func (g *gen) ibcRecv() {
	r := g.r
	channel, den := "channel-0", ibc0
	if r.Chance(1, 3) {
		channel, den = "channel-1", ibc1
	}
	base := "uatom"
	if r.Chance(1, 10) {
		base = g.pick("uosmo", "transfer/channel-9/uatom", "")
	}
	recv := g.pick(g.user(), g.user(), g.user(), g.user(), "@rich", "@rich", "@zero", "@zero", "@module", "@long", "@fresh", "@thief", "@feecol", "not-bech32")
	amt := g.pick("1", "7", "bal", "bal", "half", "bal+1", "0", "-3", "abc", "0x10", "12", huge)
	if r.Chance(3, 4) && strings.HasPrefix(recv, "@") && recv != "@long" && recv != "@rich" && recv != "@module" && recv != "@feecol" {
		g.add(Step{Op: "fund", To: recv, Denom: den, Amount: fmt.Sprint(1 + r.Intn(30))})
	}
	g.add(Step{Op: "ibc_recv", Receiver: recv, Denom: base, Amount: amt, Channel: channel})
}

type pending struct {
	at int
	st Step
}

func (g *gen) main(n int) {
	r := g.r
	var restore []pending
	later := func(i int, st Step) { restore = append(restore, pending{at: i + 1 + r.Intn(3), st: st}) }
	for i := 0; i < n; i++ {
		// gates that were closed / misbehaviours that were switched on are usually undone a few steps later
		keep := restore[:0]
		for _, p := range restore {
			if p.at <= i {
				g.add(p.st)
			} else {
				keep = append(keep, p)
			}
		}
		restore = keep
		switch x := r.Intn(100); {
		case x < 34:
			g.convertCoin()
		case x < 70:
			g.convertERC20()
		case x < 75:
			g.ibcRecv()
		case x < 79:
			g.allowance()
		case x < 81:
			g.add(Step{Op: "tok_transfer", Tok: g.tokIndex(), From: "@rich", To: g.pick(g.user(), g.user(), "@module", "@thief", "@zero"), Amount: g.pick("1", "5", "bal", "bal+1", "half")})
		case x < 84:
			g.add(Step{Op: "tok_burn", Tok: g.tokIndex(), From: "@rich", Amount: g.pick("1", "3", "bal", "bal+1")})
		case x < 87:
			d := "stake"
			if len(g.dens) > 0 && r.Chance(3, 4) {
				d = g.dens[r.Intn(len(g.dens))]
			}
			if len(g.toks) > 0 && r.Chance(1, 3) {
				d = fmt.Sprintf("@tok%d.voucher", g.tokIndex())
			}
			g.add(Step{Op: "bank_send", From: "@rich", To: g.pick(g.user(), g.user(), "@fresh", "@distr", "@module"), Denom: d, Amount: g.pick("1", "4", "bal", "bal+1")})
		case x < 90:
			ti := g.tokIndex()
			g.add(Step{Op: "toggle", Tok: ti})
			if r.Chance(4, 5) {
				later(i, Step{Op: "toggle", Tok: ti})
			}
		case x < 92:
			g.add(Step{Op: "params", Flag: false})
			if r.Chance(4, 5) {
				later(i, Step{Op: "params", Flag: true})
			}
		case x < 94:
			d := ""
			if r.Chance(3, 4) {
				d = g.denomOf(g.tokIndex())
			}
			g.add(Step{Op: "send_enabled", Denom: d, Flag: false})
			if r.Chance(3, 4) {
				later(i, Step{Op: "send_enabled", Denom: d, Flag: true})
			}
		case x < 97:
			ti := g.tokIndex()
			if ti < len(g.toks) && g.toks[ti].kind == kindAdv {
				before := len(g.steps)
				g.advCfg(ti)
				if len(g.steps) > before && r.Chance(2, 3) {
					st := g.steps[len(g.steps)-1]
					later(i, Step{Op: "token_cfg", Tok: ti, Slot: st.Slot, Amount: "0"})
				}
			}
		case x < 98:
			g.add(Step{Op: "evm_call_enabled", Flag: false})
			later(i, Step{Op: "evm_call_enabled", Flag: true})
		case x < 99:
			ti := g.tokIndex()
			if ti < len(g.toks) && g.toks[ti].kind == kindAdv && r.Chance(1, 2) {
				g.add(Step{Op: "token_kill", Tok: ti})
			}
		default:
			g.add(Step{Op: "fund", To: g.user(), Denom: g.pick(append([]string{"stake"}, g.dens...)...), Amount: g.smallAmount()})
		}
	}
}

// Targeted scenarios (always part of a run): the witnesses of the Refuted/ theorems and boundary set-ups.
func targeted() []Spec {
	var out []Spec
	// sender-side-fee token: the module is debited more than the receiver is credited
	out = append(out, Spec{Tag: "sender-fee", Steps: []Step{
		{Op: "deploy", Kind: kindAdv, From: "@u0"},
		{Op: "token_mint", Tok: 0, To: "@u1", Amount: "1000"},
		{Op: "register_erc20", Tok: 0},
		{Op: "convert_erc20", Sender: "@u1", Receiver: "@u1", Contract: "@tok0", Denom: "@tok0.voucher", Amount: "100", Via: "tx"},
		{Op: "token_cfg", Tok: 0, Slot: 1, Amount: "1"},
		{Op: "convert_coin", Sender: "@u1", Receiver: "@u2", Denom: "@tok0.voucher", Amount: "50", Via: "tx"},
		{Op: "convert_coin", Sender: "@u1", Receiver: "@u1", Denom: "@tok0.voucher", Amount: "49", Via: "tx"},
		{Op: "convert_coin", Sender: "@u1", Receiver: "@u1", Denom: "@tok0.voucher", Amount: "1", Via: "tx"},
	}})
	// the contract's own hex digits as denomination (repaired by add27e7; corpus case)
	out = append(out, Spec{Tag: "hex-denom", Steps: []Step{
		{Op: "deploy", Kind: kindAdv, From: "@u0"},
		{Op: "token_mint", Tok: 0, To: "@u1", Amount: "1000"},
		{Op: "register_erc20", Tok: 0},
		{Op: "convert_erc20", Sender: "@u1", Receiver: "@u1", Contract: "@tok0", Denom: "@tok0.bare", Amount: "10", Via: "tx"},
		{Op: "convert_erc20", Sender: "@u1", Receiver: "@u1", Contract: "@tok0.bare", Denom: "@tok0.bare", Amount: "10", Via: "server"},
		{Op: "convert_erc20", Sender: "@u1", Receiver: "@u1", Contract: "@tok0", Denom: "@tok0.voucher", Amount: "10", Via: "tx"},
		{Op: "convert_coin", Sender: "@u1", Receiver: "@u1", Denom: "@tok0.bare", Amount: "1", Via: "server"},
	}})
	// three denominations on one module-owned pair, converted in and out through different denominations
	out = append(out, Spec{Tag: "multi-denom", Steps: []Step{
		{Op: "fund", To: "@u0", Denom: "acoin", Amount: "100"},
		{Op: "fund", To: "@u1", Denom: "bcoin", Amount: "100"},
		{Op: "fund", To: "@u2", Denom: "ccoin", Amount: "100"},
		{Op: "register_coin", Denom: "acoin"},
		{Op: "add_coin", Tok: 0, Denom: "bcoin"},
		{Op: "add_coin", Tok: 0, Denom: "ccoin"},
		{Op: "convert_coin", Sender: "@u0", Receiver: "@u3", Denom: "acoin", Amount: "60", Via: "tx"},
		{Op: "convert_coin", Sender: "@u1", Receiver: "@u3", Denom: "bcoin", Amount: "30", Via: "tx"},
		{Op: "convert_erc20", Sender: "@u3", Receiver: "@u3", Contract: "@tok0", Denom: "ccoin", Amount: "10", Via: "tx"},
		{Op: "convert_erc20", Sender: "@u3", Receiver: "@u3", Contract: "@tok0", Denom: "bcoin", Amount: "31", Via: "tx"},
		{Op: "convert_erc20", Sender: "@u3", Receiver: "@u2", Contract: "@tok0", Denom: "bcoin", Amount: "30", Via: "tx"},
		{Op: "tok_burn", Tok: 0, From: "@u3", Amount: "5"},
		{Op: "convert_erc20", Sender: "@u3", Receiver: "@u3", Contract: "@tok0", Denom: "acoin", Amount: "bal+1", Via: "tx"},
		{Op: "convert_erc20", Sender: "@u3", Receiver: "@u3", Contract: "@tok0", Denom: "acoin", Amount: "bal", Via: "tx"},
	}})
	// overflow of sdk.Int in the voucher supply: two holders of 2^255-1 tokens
	out = append(out, Spec{Tag: "voucher-overflow", Steps: []Step{
		{Op: "deploy", Kind: kindAdv, From: "@u0"},
		{Op: "token_mint", Tok: 0, To: "@u1", Amount: two255},
		{Op: "token_mint", Tok: 0, To: "@u2", Amount: two255},
		{Op: "register_erc20", Tok: 0},
		{Op: "convert_erc20", Sender: "@u1", Receiver: "@u1", Contract: "@tok0", Denom: "@tok0.voucher", Amount: two255, Via: "tx"},
		{Op: "convert_erc20", Sender: "@u2", Receiver: "@u2", Contract: "@tok0", Denom: "@tok0.voucher", Amount: two255, Via: "tx"},
		{Op: "convert_erc20", Sender: "@u2", Receiver: "@u1", Contract: "@tok0", Denom: "@tok0.voucher", Amount: two255, Via: "server"},
		{Op: "convert_erc20", Sender: "@u2", Receiver: "@u1", Contract: "@tok0", Denom: "@tok0.voucher", Amount: "1", Via: "server"},
	}})
	// self-destructed external contract: the pair is deleted by the next conversion
	out = append(out, Spec{Tag: "selfdestruct", Steps: []Step{
		{Op: "deploy", Kind: kindAdv, From: "@u0"},
		{Op: "token_mint", Tok: 0, To: "@u1", Amount: "1000"},
		{Op: "register_erc20", Tok: 0},
		{Op: "convert_erc20", Sender: "@u1", Receiver: "@u1", Contract: "@tok0", Denom: "@tok0.voucher", Amount: "100", Via: "tx"},
		{Op: "token_kill", Tok: 0},
		{Op: "convert_coin", Sender: "@u1", Receiver: "@u1", Denom: "@tok0.voucher", Amount: "5", Via: "tx"},
		{Op: "convert_coin", Sender: "@u1", Receiver: "@u1", Denom: "@tok0.voucher", Amount: "5", Via: "tx"},
	}})
	// every misbehaviour of the AdvToken, one at a time, with a conversion in each direction
	{
		st := []Step{
			{Op: "deploy", Kind: kindAdv, From: "@u0"},
			{Op: "token_mint", Tok: 0, To: "@u1", Amount: "1000"},
			{Op: "register_erc20", Tok: 0},
			{Op: "convert_erc20", Sender: "@u1", Receiver: "@u1", Contract: "@tok0", Denom: "@tok0.voucher", Amount: "200", Via: "tx"},
		}
		for _, c := range [][2]int{{3, 1}, {3, 2}, {3, 3}, {3, 4}, {4, 1}, {4, 2}, {4, 3}, {5, 1}, {5, 2}, {2, 1}, {2, 9}} {
			st = append(st,
				Step{Op: "token_cfg", Tok: 0, Slot: c[0], Amount: fmt.Sprint(c[1])},
				Step{Op: "convert_coin", Sender: "@u1", Receiver: "@u2", Denom: "@tok0.voucher", Amount: "5", Via: "tx"},
				Step{Op: "convert_erc20", Sender: "@u1", Receiver: "@u1", Contract: "@tok0", Denom: "@tok0.voucher", Amount: "5", Via: "server"},
				Step{Op: "token_cfg", Tok: 0, Slot: c[0], Amount: "0"},
				Step{Op: "convert_coin", Sender: "@u1", Receiver: "@u2", Denom: "@tok0.voucher", Amount: "1", Via: "server"},
			)
		}
		out = append(out, Spec{Tag: "adv-modes", Steps: st})
	}
	// balanceOf that fails for ONE holder only: the module (flow 2.2: "cannot read the escrowed token balance", flow
	// 2.1: nil escrow balance -> panic), then the receiver (flow 2.2: nil receiver balance -> panic)
	out = append(out, Spec{Tag: "selective-balanceof", Steps: []Step{
		{Op: "deploy", Kind: kindAdv, From: "@u0"},
		{Op: "token_mint", Tok: 0, To: "@u1", Amount: "1000"},
		{Op: "register_erc20", Tok: 0},
		{Op: "convert_erc20", Sender: "@u1", Receiver: "@u1", Contract: "@tok0", Denom: "@tok0.voucher", Amount: "200", Via: "tx"},
		{Op: "token_cfg", Tok: 0, Slot: 7, To: "@module"},
		{Op: "token_cfg", Tok: 0, Slot: 5, Amount: "3"},
		{Op: "convert_coin", Sender: "@u1", Receiver: "@u2", Denom: "@tok0.voucher", Amount: "5", Via: "tx"},
		{Op: "convert_erc20", Sender: "@u1", Receiver: "@u1", Contract: "@tok0", Denom: "@tok0.voucher", Amount: "5", Via: "tx"},
		{Op: "token_cfg", Tok: 0, Slot: 7, To: "@u2"},
		{Op: "convert_coin", Sender: "@u1", Receiver: "@u2", Denom: "@tok0.voucher", Amount: "5", Via: "server"},
		{Op: "convert_coin", Sender: "@u1", Receiver: "@u3", Denom: "@tok0.voucher", Amount: "5", Via: "tx"},
		{Op: "token_cfg", Tok: 0, Slot: 5, Amount: "0"},
		{Op: "convert_coin", Sender: "@u1", Receiver: "@u2", Denom: "@tok0.voucher", Amount: "5", Via: "tx"},
	}})
	// a token whose balanceOf is not a view of its ledger (Refuted: C11_voucher_backing_misreport_refuted): the
	// escrow check of convertERC20NativeToken passes although nothing was transferred
	out = append(out, Spec{Tag: "misreport", Steps: []Step{
		{Op: "deploy", Kind: kindAdv, From: "@u0"},
		{Op: "token_mint", Tok: 0, To: "@u1", Amount: "1000"},
		{Op: "register_erc20", Tok: 0},
		{Op: "token_cfg", Tok: 0, Slot: 7, To: "@module"},
		{Op: "token_cfg", Tok: 0, Slot: 9, Amount: "1"},
		{Op: "convert_erc20", Sender: "@u1", Receiver: "@u1", Contract: "@tok0", Denom: "@tok0.voucher", Amount: "100", Via: "tx"},
		{Op: "token_cfg", Tok: 0, Slot: 9, Amount: "0"},
		{Op: "token_cfg", Tok: 0, Slot: 8, Amount: "7"},
		{Op: "convert_erc20", Sender: "@u1", Receiver: "@u1", Contract: "@tok0", Denom: "@tok0.voucher", Amount: "7", Via: "tx"},
		{Op: "convert_erc20", Sender: "@u1", Receiver: "@u1", Contract: "@tok0", Denom: "@tok0.voucher", Amount: "8", Via: "server"},
	}})
	// the module account as receiver / blocked module accounts / the distribution account (not blocked)
	out = append(out, Spec{Tag: "blocked", Steps: []Step{
		{Op: "fund", To: "@u0", Denom: "acoin", Amount: "100"},
		{Op: "register_coin", Denom: "acoin"},
		{Op: "deploy", Kind: kindStd, From: "@u1"},
		{Op: "token_mint", Tok: 1, To: "@u1", Amount: "100"},
		{Op: "register_erc20", Tok: 1},
		{Op: "convert_coin", Sender: "@u0", Receiver: "@module", Denom: "acoin", Amount: "5", Via: "tx"},
		{Op: "convert_coin", Sender: "@u0", Receiver: "@feecol", Denom: "acoin", Amount: "5", Via: "tx"},
		{Op: "convert_coin", Sender: "@u0", Receiver: "@distr", Denom: "acoin", Amount: "5", Via: "tx"},
		{Op: "convert_coin", Sender: "@u0", Receiver: "@u0", Denom: "acoin", Amount: "50", Via: "tx"},
		{Op: "convert_erc20", Sender: "@u0", Receiver: "@module", Contract: "@tok0", Denom: "acoin", Amount: "5", Via: "tx"},
		{Op: "convert_erc20", Sender: "@u0", Receiver: "@feecol", Contract: "@tok0", Denom: "acoin", Amount: "5", Via: "tx"},
		{Op: "convert_erc20", Sender: "@u0", Receiver: "@distr", Contract: "@tok0", Denom: "acoin", Amount: "5", Via: "tx"},
		{Op: "convert_erc20", Sender: "@u1", Receiver: "@module", Contract: "@tok1", Denom: "@tok1.voucher", Amount: "5", Via: "tx"},
		{Op: "convert_erc20", Sender: "@u1", Receiver: "@distr", Contract: "@tok1", Denom: "@tok1.voucher", Amount: "5", Via: "tx"},
		{Op: "convert_erc20", Sender: "@u1", Receiver: "@u1", Contract: "@tok1", Denom: "@tok1.voucher", Amount: "20", Via: "tx"},
		{Op: "convert_coin", Sender: "@u1", Receiver: "@module", Denom: "@tok1.voucher", Amount: "5", Via: "tx"},
		{Op: "convert_coin", Sender: "@u1", Receiver: "@zero", Denom: "@tok1.voucher", Amount: "5", Via: "tx"},
		{Op: "convert_coin", Sender: "@u1", Receiver: "@fresh", Denom: "@tok1.voucher", Amount: "5", Via: "tx"},
		{Op: "send_enabled", Denom: "acoin", Flag: false},
		{Op: "convert_coin", Sender: "@u0", Receiver: "@u1", Denom: "acoin", Amount: "5", Via: "tx"},
		{Op: "convert_coin", Sender: "@u0", Receiver: "@u0", Denom: "acoin", Amount: "5", Via: "tx"},
		{Op: "toggle", Tok: 0},
		{Op: "convert_coin", Sender: "@u0", Receiver: "@u0", Denom: "acoin", Amount: "5", Via: "tx"},
		{Op: "toggle", Tok: 0},
		{Op: "params", Flag: false},
		{Op: "convert_coin", Sender: "@u0", Receiver: "@u0", Denom: "acoin", Amount: "5", Via: "tx"},
		{Op: "convert_erc20", Sender: "@u1", Receiver: "@u1", Contract: "@tok1", Denom: "@tok1.voucher", Amount: "5", Via: "tx"},
	}})
	// the ICS-20 hook: all or nothing on every exit, in particular on failures AFTER the escrow step (mint to the
	// zero address reverts; an external pair with an added coin whose token escrow is insufficient)
	out = append(out, Spec{Tag: "hook", Steps: []Step{
		{Op: "fund", To: "@u1", Denom: ibc0, Amount: "100"},
		{Op: "fund", To: "@zero", Denom: ibc0, Amount: "100"},
		{Op: "fund", To: "@u2", Denom: ibc1, Amount: "50"},
		{Op: "register_coin", Denom: ibc0},
		{Op: "deploy", Kind: kindStd, From: "@u0"},
		{Op: "token_mint", Tok: 1, To: "@u3", Amount: "500"},
		{Op: "register_erc20", Tok: 1},
		{Op: "add_coin", Tok: 1, Denom: ibc1},
		{Op: "ibc_recv", Receiver: "@u1", Denom: "uatom", Amount: "40"},
		{Op: "ibc_recv", Receiver: "@zero", Denom: "uatom", Amount: "100"},
		{Op: "ibc_recv", Receiver: "@u1", Denom: "uatom", Amount: "100"},
		{Op: "ibc_recv", Receiver: "@u2", Denom: "uatom", Amount: "20", Channel: "channel-1"},
		{Op: "convert_erc20", Sender: "@u3", Receiver: "@u3", Contract: "@tok1", Denom: "@tok1.voucher", Amount: "30", Via: "tx"},
		{Op: "ibc_recv", Receiver: "@u2", Denom: "uatom", Amount: "20", Channel: "channel-1"},
		{Op: "ibc_recv", Receiver: "@u2", Denom: "uatom", Amount: "20", Channel: "channel-1"},
		{Op: "ibc_recv", Receiver: "@u1", Denom: "uatom", Amount: "0"},
		{Op: "ibc_recv", Receiver: "@u1", Denom: "uatom", Amount: "-5"},
		{Op: "ibc_recv", Receiver: "@long", Denom: "uatom", Amount: "5"},
		{Op: "ibc_recv", Receiver: "@u1", Denom: "uatom", Amount: "abc"},
		{Op: "ibc_recv", Receiver: "@u1", Denom: "uosmo", Amount: "5"},
		{Op: "ibc_recv", Receiver: "@module", Denom: "uatom", Amount: "5"},
		{Op: "toggle", Tok: 0},
		{Op: "ibc_recv", Receiver: "@u1", Denom: "uatom", Amount: "5"},
		{Op: "toggle", Tok: 0},
		{Op: "params", Flag: false},
		{Op: "ibc_recv", Receiver: "@u1", Denom: "uatom", Amount: "5"},
		{Op: "params", Flag: true},
		{Op: "send_enabled", Denom: ibc0, Flag: false},
		{Op: "ibc_recv", Receiver: "@u1", Denom: "uatom", Amount: "5"},
		{Op: "evm_call_enabled", Flag: false},
		{Op: "ibc_recv", Receiver: "@u1", Denom: "uatom", Amount: "5"},
		{Op: "evm_call_enabled", Flag: true},
		{Op: "ibc_recv", Receiver: "@u1", Denom: "uatom", Amount: "bal"},
	}})
	// the allowance interface of the module's contract and of a user-deployed one: approve / increase / decrease,
	// transferFrom (also into the escrow), burnFrom (supply drops below the escrow), over-spending
	out = append(out, Spec{Tag: "allowance", Steps: []Step{
		{Op: "fund", To: "@u0", Denom: "acoin", Amount: "100"},
		{Op: "register_coin", Denom: "acoin"},
		{Op: "deploy", Kind: kindStd, From: "@u3"},
		{Op: "token_mint", Tok: 1, To: "@u0", Amount: "200"},
		{Op: "register_erc20", Tok: 1},
		{Op: "convert_coin", Sender: "@u0", Receiver: "@u0", Denom: "acoin", Amount: "100", Via: "tx"},
		{Op: "tok_approve", Tok: 0, From: "@u0", To: "@u1", Amount: "50"},
		{Op: "tok_transfer_from", Tok: 0, From: "@u1", Sender: "@u0", To: "@u2", Amount: "20"},
		{Op: "tok_burn_from", Tok: 0, From: "@u1", Sender: "@u0", Amount: "10"},
		{Op: "tok_transfer_from", Tok: 0, From: "@u1", Sender: "@u0", To: "@u2", Amount: "allow+1"},
		{Op: "tok_transfer_from", Tok: 0, From: "@u1", Sender: "@u0", To: "@zero", Amount: "1"},
		{Op: "tok_transfer_from", Tok: 0, From: "@u2", Sender: "@u0", To: "@u2", Amount: "1"},
		{Op: "tok_inc_allow", Tok: 0, From: "@u0", To: "@u1", Amount: "5"},
		{Op: "tok_inc_allow", Tok: 0, From: "@u0", To: "@u1", Amount: maxInt},
		{Op: "tok_dec_allow", Tok: 0, From: "@u0", To: "@u1", Amount: "26"},
		{Op: "tok_dec_allow", Tok: 0, From: "@u0", To: "@u1", Amount: "5"},
		{Op: "tok_transfer_from", Tok: 0, From: "@u1", Sender: "@u0", To: "@module", Amount: "allow"},
		{Op: "tok_approve", Tok: 0, From: "@u2", To: "@zero", Amount: "5"},
		{Op: "tok_approve", Tok: 0, From: "@u2", To: "@module", Amount: maxInt},
		{Op: "convert_erc20", Sender: "@u2", Receiver: "@u2", Contract: "@tok0", Denom: "acoin", Amount: "20", Via: "tx"},
		{Op: "convert_erc20", Sender: "@u0", Receiver: "@u0", Contract: "@tok1", Denom: "@tok1.voucher", Amount: "100", Via: "tx"},
		{Op: "tok_approve", Tok: 1, From: "@u0", To: "@u1", Amount: "60"},
		{Op: "tok_transfer_from", Tok: 1, From: "@u1", Sender: "@u0", To: "@module", Amount: "30"},
		{Op: "tok_burn_from", Tok: 1, From: "@u1", Sender: "@u0", Amount: "30"},
		{Op: "tok_burn_from", Tok: 1, From: "@u1", Sender: "@u0", Amount: "1"},
		// an allowance of 2^256-1 is "infinite" in the deployed byte code: spending does not decrease it
		{Op: "tok_approve", Tok: 1, From: "@u0", To: "@u1", Amount: maxInt},
		{Op: "tok_transfer_from", Tok: 1, From: "@u1", Sender: "@u0", To: "@u2", Amount: "5"},
		{Op: "tok_burn_from", Tok: 1, From: "@u1", Sender: "@u0", Amount: "1"},
		{Op: "tok_approve", Tok: 0, From: "@u2", To: "@u1", Amount: maxInt},
		{Op: "tok_burn_from", Tok: 0, From: "@u1", Sender: "@u2", Amount: "1"},
		{Op: "tok_transfer_from", Tok: 0, From: "@u1", Sender: "@u2", To: "@u3", Amount: "bal"},
		{Op: "convert_coin", Sender: "@u0", Receiver: "@u1", Denom: "@tok1.voucher", Amount: "100", Via: "tx"},
	}})
	// two module-owned pairs and an external pair, all with escrow: a conversion through contract A naming a
	// denomination of pair B (either direction of ownership) must be refused
	out = append(out, Spec{Tag: "cross-pair", Steps: []Step{
		{Op: "fund", To: "@u0", Denom: "acoin", Amount: "100"},
		{Op: "fund", To: "@u1", Denom: "bcoin", Amount: "100"},
		{Op: "fund", To: "@u1", Denom: "ccoin", Amount: "100"},
		{Op: "register_coin", Denom: "acoin"},
		{Op: "register_coin", Denom: "bcoin"},
		{Op: "add_coin", Tok: 1, Denom: "ccoin"},
		{Op: "deploy", Kind: kindStd, From: "@u2"},
		{Op: "token_mint", Tok: 2, To: "@u0", Amount: "300"},
		{Op: "register_erc20", Tok: 2},
		{Op: "convert_coin", Sender: "@u0", Receiver: "@u0", Denom: "acoin", Amount: "60", Via: "tx"},
		{Op: "convert_coin", Sender: "@u1", Receiver: "@u1", Denom: "bcoin", Amount: "40", Via: "tx"},
		{Op: "convert_coin", Sender: "@u1", Receiver: "@u1", Denom: "ccoin", Amount: "30", Via: "tx"},
		{Op: "convert_erc20", Sender: "@u0", Receiver: "@u0", Contract: "@tok2", Denom: "@tok2.voucher", Amount: "50", Via: "tx"},
		{Op: "convert_erc20", Sender: "@u0", Receiver: "@u0", Contract: "@tok0", Denom: "bcoin", Amount: "10", Via: "tx"},
		{Op: "convert_erc20", Sender: "@u0", Receiver: "@u0", Contract: "@tok0", Denom: "ccoin", Amount: "10", Via: "server"},
		{Op: "convert_erc20", Sender: "@u1", Receiver: "@u1", Contract: "@tok1", Denom: "acoin", Amount: "10", Via: "tx"},
		{Op: "convert_erc20", Sender: "@u0", Receiver: "@u0", Contract: "@tok0", Denom: "@tok2.voucher", Amount: "10", Via: "tx"},
		{Op: "convert_erc20", Sender: "@u0", Receiver: "@u0", Contract: "@tok2", Denom: "acoin", Amount: "10", Via: "tx"},
		{Op: "convert_erc20", Sender: "@u0", Receiver: "@u0", Contract: "@tok2", Denom: "bcoin", Amount: "10", Via: "server"},
		{Op: "convert_erc20", Sender: "@u1", Receiver: "@u1", Contract: "@tok1", Denom: "ccoin", Amount: "10", Via: "tx"},
		{Op: "convert_erc20", Sender: "@u0", Receiver: "@u0", Contract: "@tok0", Denom: "acoin", Amount: "10", Via: "tx"},
	}})
	for i := range out {
		out[i].ID = i
	}
	return out
}

func generate(seed uint64, n, steps int) []Spec {
	root := hlib.NewRand(seed)
	out := targeted()
	base := len(out)
	for i := 0; i < n; i++ {
		g := &gen{r: root.Fork(uint64(i))}
		g.setup()
		g.main(steps/2 + g.r.Intn(steps))
		out = append(out, Spec{ID: base + i, Steps: g.steps})
	}
	return out
}
