package main

// Hand-assembled adversarial ERC-20 ("AdvToken").  There is no Solidity compiler on this image, so the
// configurable fee-taking / misreporting token used by the C11 correspondence runs is assembled here and
// installed with app.SetEVMCode; it is executed by the REAL EVM through the aggregate keeper's CallEVM.
// Its semantics is transcribed in coq/theories/Model/ConvertTokens.v (adv_call); the two are compared on
// every run like any other part of the model.
//
// Storage: slot(address) = balance of address; small slots are configuration:
//   0 totalSupply  1 senderFee  2 receiverFee  3 retMode  4 logMode  5 balMode  6 lie  7 lieAddr  8 lieStep  9 fakeCredit
// retMode: 0 return true, 1 return false (after moving), 2 revert, 3 return no data, 4 return the word 2
// logMode: 0 Transfer, 1 Approval then Transfer, 2 anonymous LOG0 then Transfer, 3 no log
// balMode: 0 report, 1 revert, 2 return no data, 3 revert for lieAddr only (every other holder is reported);
//          balanceOf(lieAddr) reports balance+lie and then lie += lieStep
// fakeCredit != 0: transfer moves nothing but lie += amount
// Methods: balanceOf, transfer, totalSupply, name, symbol, decimals, set(uint256 slot,uint256 value) [0x5eed0001],
// kill() [0x5eed0002] (SELFDESTRUCT).

import (
	"encoding/binary"
	"fmt"

	"github.com/ethereum/go-ethereum/crypto"
)

const (
	opSTOP         = 0x00
	opADD          = 0x01
	opSUB          = 0x03
	opLT           = 0x10
	opGT           = 0x11
	opEQ           = 0x14
	opISZERO       = 0x15
	opSHL          = 0x1b
	opSHR          = 0x1c
	opCALLER       = 0x33
	opCALLDATALOAD = 0x35
	opPOP          = 0x50
	opMSTORE       = 0x52
	opSLOAD        = 0x54
	opSSTORE       = 0x55
	opJUMP         = 0x56
	opJUMPI        = 0x57
	opJUMPDEST     = 0x5b
	opDUP1         = 0x80
	opDUP2         = 0x81
	opDUP3         = 0x82
	opSWAP1        = 0x90
	opLOG0         = 0xa0
	opLOG3         = 0xa3
	opRETURN       = 0xf3
	opREVERT       = 0xfd
	opSELFDESTRUCT = 0xff
)

type asm struct {
	code   []byte
	labels map[string]int
	fixups map[int]string
}

func newAsm() *asm { return &asm{labels: map[string]int{}, fixups: map[int]string{}} }

func (a *asm) op(bs ...byte) *asm { a.code = append(a.code, bs...); return a }

// push pushes the big-endian bytes b with the smallest PUSHn.
func (a *asm) pushb(b []byte) *asm {
	for len(b) > 1 && b[0] == 0 {
		b = b[1:]
	}
	if len(b) == 0 {
		b = []byte{0}
	}
	a.code = append(a.code, byte(0x5f+len(b)))
	a.code = append(a.code, b...)
	return a
}

func (a *asm) push(v uint64) *asm {
	var b [8]byte
	binary.BigEndian.PutUint64(b[:], v)
	return a.pushb(b[:])
}

func (a *asm) pushl(label string) *asm {
	a.code = append(a.code, 0x61, 0, 0) // PUSH2
	a.fixups[len(a.code)-2] = label
	return a
}

func (a *asm) label(name string) *asm {
	if _, dup := a.labels[name]; dup {
		panic("duplicate label " + name)
	}
	a.labels[name] = len(a.code)
	a.code = append(a.code, opJUMPDEST)
	return a
}

func (a *asm) jumpi(label string) *asm { return a.pushl(label).op(opJUMPI) }
func (a *asm) jump(label string) *asm  { return a.pushl(label).op(opJUMP) }

func (a *asm) bytes() []byte {
	for pos, l := range a.fixups {
		t, ok := a.labels[l]
		if !ok {
			panic("undefined label " + l)
		}
		a.code[pos] = byte(t >> 8)
		a.code[pos+1] = byte(t)
	}
	return a.code
}

var thiefAddr = []byte{0x4d, 0xC6, 0xac, 0x40, 0xAf, 0x07, 0x86, 0x61, 0xfc, 0x43, 0x82, 0x30, 0x86, 0xE1, 0x51, 0x36, 0x35, 0xEe, 0xab, 0x14}

const (
	selSet  = 0x5eed0001
	selKill = 0x5eed0002
)

func advTokenCode() []byte {
	transferSig := crypto.Keccak256([]byte("Transfer(address,address,uint256)"))
	approvalSig := crypto.Keccak256([]byte("Approval(address,address,uint256)"))
	a := newAsm()
	ret32 := func() { a.push(0).op(opMSTORE).push(0x20).push(0).op(opRETURN) } // return the word on top of the stack
	// dispatcher
	a.push(0).op(opCALLDATALOAD).push(0xe0).op(opSHR)
	for _, e := range []struct {
		sel uint64
		l   string
	}{{0x70a08231, "balanceOf"}, {0xa9059cbb, "transfer"}, {0x18160ddd, "totalSupply"}, {0x06fdde03, "name"},
		{0x95d89b41, "name"}, {0x313ce567, "decimals"}, {selSet, "set"}, {selKill, "kill"}} {
		a.op(opDUP1).push(e.sel).op(opEQ).jumpi(e.l)
	}
	a.label("revert").push(0).op(opDUP1, opREVERT)
	a.label("retempty").push(0).push(0).op(opRETURN)

	// balanceOf(address)
	a.label("balanceOf")
	a.push(5).op(opSLOAD)
	a.op(opDUP1).push(1).op(opEQ).jumpi("revert")
	a.op(opDUP1).push(2).op(opEQ).jumpi("retempty")
	a.op(opDUP1).push(3).op(opEQ, opISZERO).jumpi("bo_report")
	a.push(4).op(opCALLDATALOAD).push(7).op(opSLOAD, opEQ).jumpi("revert") // mode 3 and a == lieAddr
	a.label("bo_report")
	a.op(opPOP)
	a.push(4).op(opCALLDATALOAD) // [a]
	a.op(opDUP1, opSLOAD, opSWAP1) // [a, bal]
	a.push(7).op(opSLOAD, opEQ, opISZERO).jumpi("bo_ret") // [bal]
	a.push(6).op(opSLOAD)                                  // [lie, bal]
	a.op(opDUP1).push(8).op(opSLOAD, opADD).push(6).op(opSSTORE)
	a.op(opADD)
	a.label("bo_ret")
	ret32()

	// transfer(address to, uint256 amt)
	a.label("transfer")
	a.push(3).op(opSLOAD).push(2).op(opEQ).jumpi("revert")
	a.push(0x24).op(opCALLDATALOAD) // [amt]
	a.push(4).op(opCALLDATALOAD)    // [to, amt]
	a.push(9).op(opSLOAD).jumpi("fake")
	a.op(opDUP2).push(1).op(opSLOAD, opADD) // [debit, to, amt]
	a.op(opCALLER, opSLOAD)                 // [sb, debit, to, amt]
	a.op(opDUP2, opDUP2, opLT).jumpi("revert")
	a.op(opSUB)             // [sb-debit, to, amt]
	a.op(opCALLER, opSSTORE) // [to, amt]
	a.op(opDUP2).push(2).op(opSLOAD) // [rfee, amt, to, amt]
	a.op(opDUP2, opDUP2, opGT).jumpi("rfee_big")
	a.op(opSWAP1, opSUB) // [credit, to, amt]
	a.jump("credit_go")
	a.label("rfee_big").op(opPOP, opPOP).push(0)
	a.label("credit_go")
	a.op(opDUP2, opSLOAD, opADD) // [tb+credit, to, amt]
	a.op(opDUP2, opSSTORE)       // [to, amt]
	a.jump("logs")
	a.label("fake")
	a.op(opDUP2).push(6).op(opSLOAD, opADD).push(6).op(opSSTORE)
	a.label("logs")
	a.push(4).op(opSLOAD) // [lm, to, amt]
	a.op(opDUP1).push(1).op(opEQ).jumpi("log_appr")
	a.op(opDUP1).push(2).op(opEQ).jumpi("log_anon")
	a.op(opDUP1).push(3).op(opEQ).jumpi("after_logs_pop")
	a.label("log_transfer")
	a.op(opPOP)                      // [to, amt]
	a.op(opDUP2).push(0).op(opMSTORE) // mem[0]=amt
	a.op(opDUP1, opCALLER).pushb(transferSig).push(0x20).push(0).op(opLOG3)
	a.jump("after_logs")
	a.label("log_appr")
	a.op(opDUP3).push(0).op(opMSTORE)
	a.pushb(thiefAddr).op(opDUP3).pushb(approvalSig).push(0x20).push(0).op(opLOG3)
	a.jump("log_transfer")
	a.label("log_anon")
	a.push(0).push(0).op(opLOG0)
	a.jump("log_transfer")
	a.label("after_logs_pop").op(opPOP)
	a.label("after_logs").op(opPOP, opPOP)
	a.push(3).op(opSLOAD)
	a.op(opDUP1).push(1).op(opEQ).jumpi("ret_false")
	a.op(opDUP1).push(3).op(opEQ).jumpi("retempty")
	a.op(opDUP1).push(4).op(opEQ).jumpi("ret_two")
	a.op(opPOP).push(1)
	ret32()
	a.label("ret_false").push(0)
	ret32()
	a.label("ret_two").push(2)
	ret32()

	a.label("totalSupply").push(0).op(opSLOAD)
	ret32()
	a.label("decimals").push(0)
	ret32()
	a.label("name")
	a.push(0x20).push(0).op(opMSTORE)
	a.push(3).push(0x20).op(opMSTORE)
	a.push(0x414456).push(232).op(opSHL).push(0x40).op(opMSTORE)
	a.push(0x60).push(0).op(opRETURN)
	a.label("set")
	a.push(0x24).op(opCALLDATALOAD).push(4).op(opCALLDATALOAD, opSSTORE, opSTOP)
	a.label("kill").op(opCALLER, opSELFDESTRUCT)
	return a.bytes()
}

func init() {
	if len(advTokenCode()) > 1000 {
		panic(fmt.Sprint("adv token unexpectedly large: ", len(advTokenCode())))
	}
}
