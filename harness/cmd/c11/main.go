// c11: drives the REAL aggregate module (MsgConvertCoin / MsgConvertERC20 through BaseApp.DeliverTx or the
// registered msg-service handler) on a real Teleport app with a real EVM over generated histories, and dumps
// after EVERY step the complete bank state (all balances, supply), the token-pair registry (three raw store
// prefixes), the gates (params, send-enabled, blocked addresses, account existence) and, for every token
// contract, totalSupply and balanceOf of every tracked holder.  Model comparison and property monitors are
// evaluated in Coq (Model/ConvertCheck.v) on this output.
package main

import (
	"crypto/sha256"
	"encoding/hex"
	"encoding/json"
	"errors"
	"flag"
	"fmt"
	"math/big"
	"os"
	"sort"
	"strings"
	"testing"
	"time"

	"github.com/cosmos/cosmos-sdk/crypto/keys/ed25519"
	"github.com/cosmos/cosmos-sdk/simapp/helpers"
	sdk "github.com/cosmos/cosmos-sdk/types"
	sdkerrors "github.com/cosmos/cosmos-sdk/types/errors"
	authtypes "github.com/cosmos/cosmos-sdk/x/auth/types"
	banktypes "github.com/cosmos/cosmos-sdk/x/bank/types"
	distrtypes "github.com/cosmos/cosmos-sdk/x/distribution/types"
	transfertypes "github.com/cosmos/ibc-go/v3/modules/apps/transfer/types"
	clienttypes "github.com/cosmos/ibc-go/v3/modules/core/02-client/types"
	channeltypes "github.com/cosmos/ibc-go/v3/modules/core/04-channel/types"
	"github.com/ethereum/go-ethereum/common"
	"github.com/ethereum/go-ethereum/crypto"
	tmproto "github.com/tendermint/tendermint/proto/tendermint/types"
	tmtypes "github.com/tendermint/tendermint/types"
	"github.com/tharsis/ethermint/crypto/ethsecp256k1"
	"github.com/tharsis/ethermint/encoding"

	"github.com/teleport-network/teleport/app"
	erc20contracts "github.com/teleport-network/teleport/syscontracts/erc20"
	aggtypes "github.com/teleport-network/teleport/x/aggregate/types"
	xibctesting "github.com/teleport-network/teleport/x/xibc/testing"
	"github.com/teleport-network/teleport/x/xibc/testing/mock"

	"verifharness/hlib"
)

// ---------------------------------------------------------------------------------------------------
// Specification of a history
// ---------------------------------------------------------------------------------------------------

// Token kinds: 1 ERC20MinterBurnerDecimals deployed by the module (RegisterCoin); 2 the same contract deployed by
// a user; 3 ERC20MaliciousDelayed; 4 ERC20DirectBalanceManipulation; 5 the hand-assembled AdvToken.
const (
	kindNone    = 0
	kindModule  = 1
	kindStd     = 2
	kindDelayed = 3
	kindManip   = 4
	kindAdv     = 5
)

// A Step.  String fields naming an address / denomination / contract are either literal or a reference
// starting with '@' that the runner resolves (see resolve*).
type Step struct {
	Op       string `json:"op"`
	Denom    string `json:"denom,omitempty"`
	Tok      int    `json:"tok,omitempty"`
	Kind     int    `json:"kind,omitempty"`
	From     string `json:"from,omitempty"`
	To       string `json:"to,omitempty"`
	Amount   string `json:"amount,omitempty"`
	Slot     int    `json:"slot,omitempty"`
	Flag     bool   `json:"flag,omitempty"`
	Sender   string `json:"sender,omitempty"`
	Receiver string `json:"receiver,omitempty"`
	Contract string `json:"contract,omitempty"`
	Via      string `json:"via,omitempty"` // "tx" (BaseApp.DeliverTx, signed) or "server" (msg-service handler)
	Channel  string `json:"channel,omitempty"` // ibc_recv: destination channel of the ICS-20 packet (default channel-0)
}

type Spec struct {
	ID    int    `json:"id"`
	Tag   string `json:"tag,omitempty"`
	Steps []Step `json:"steps"`
}

// ---------------------------------------------------------------------------------------------------
// Observations
// ---------------------------------------------------------------------------------------------------

type AddrObs struct {
	Ref     string `json:"ref"`
	Hex     string `json:"hex"` // 40 lower-case hex digits
	Exists  bool   `json:"exists"`
	Blocked bool   `json:"blocked"`
}

type PairObs struct {
	Key     string   `json:"key"`   // store key under which the pair is stored (hex)
	ID      string   `json:"id"`    // pair.GetID() (hex)
	ERC20   string   `json:"erc20"` // 40 hex digits
	Denoms  []string `json:"denoms"`
	Enabled bool     `json:"enabled"`
	Owner   int      `json:"owner"`
}

type TokenObs struct {
	Addr     string   `json:"addr"`
	Kind     int      `json:"kind"` // kind it was deployed as
	Contract bool     `json:"contract"`
	Owner    string   `json:"owner"` // role holder (deployer), 40 hex digits
	Total    string   `json:"total"` // totalSupply() as reported ("" when the call fails)
	Bals     []string `json:"bals"`  // balanceOf(holder) as reported, per tracked address ("" when the call fails)
	Allow    [][3]string `json:"allow,omitempty"` // kinds 1-2: owner hex, spender hex, allowance() as reported, for every pair an approval was attempted on
	Ledger   []string `json:"ledger,omitempty"` // AdvToken: raw storage slot of each tracked address
	Cfg      []string `json:"cfg,omitempty"`    // AdvToken: configuration slots 0..9
}

type Obs struct {
	Params      bool        `json:"params"`
	EvmCall     bool        `json:"evm_call"`
	SendDefault bool        `json:"send_default"`
	SendList    [][2]string `json:"send_list"` // denom, "true"/"false"
	Addrs       []AddrObs   `json:"addrs"`
	Bank        [][3]string `json:"bank"`   // addr hex, denom, amount  (every balance in the bank store)
	Supply      [][2]string `json:"supply"` // denom, amount (every supply entry)
	Pairs       []PairObs   `json:"pairs"`
	ERC20Map    [][2]string `json:"erc20_map"` // addr hex, id hex (raw prefix iteration)
	DenomMap    [][2]string `json:"denom_map"` // denom, id hex
	Tokens      []TokenObs  `json:"tokens"`
}

// StepRes is the executed step with every reference resolved, its outcome class and the state after it.
type StepRes struct {
	Op          string `json:"op"`
	Class       int    `json:"class"` // 0 ok, 1 error, 2 panic (recovered by BaseApp), 3 out of gas / harness trouble
	Err         string `json:"err,omitempty"`
	Via         string `json:"via,omitempty"`
	Denom       string `json:"denom,omitempty"`
	Amount      string `json:"amount,omitempty"`
	SenderHex   string `json:"sender_hex,omitempty"`   // parsed sender (40 hex digits)
	SenderOK    bool   `json:"sender_ok,omitempty"`    // sender string well formed (bech32 / hex)
	SenderRaw   string `json:"sender_raw,omitempty"`   // MsgConvertERC20.Sender as sent
	ReceiverHex string `json:"receiver_hex,omitempty"` // parsed receiver
	ReceiverOK  bool   `json:"receiver_ok,omitempty"`
	ReceiverRaw string `json:"receiver_raw,omitempty"` // MsgConvertCoin.Receiver as sent
	ContractRaw string `json:"contract_raw,omitempty"` // MsgConvertERC20.ContractAddress as sent
	Tok         int    `json:"tok"`
	TokAddr     string `json:"tok_addr,omitempty"`
	FromHex     string `json:"from_hex,omitempty"`
	ToHex       string `json:"to_hex,omitempty"`
	OwnerHex    string `json:"owner_hex,omitempty"` // tok_transfer_from / tok_burn_from: the holder whose allowance is used
	TokKind     int    `json:"tok_kind,omitempty"`
	HookOK      bool   `json:"hook_ok,omitempty"` // ibc_recv: the packet decodes (amount parses, receiver has 20 bytes)
	Obs         Obs    `json:"obs"`
}

type Result struct {
	Spec   Spec      `json:"spec"`
	Module string    `json:"module"` // aggregate module address, 40 hex digits
	Init   Obs       `json:"init"`
	Steps  []StepRes `json:"steps"`
	Fatal  string    `json:"fatal,omitempty"`
}

// ---------------------------------------------------------------------------------------------------
// World
// ---------------------------------------------------------------------------------------------------

type user struct {
	priv *ethsecp256k1.PrivKey
	addr common.Address
}

type token struct {
	addr  common.Address
	kind  int
	owner common.Address
	pairs [][2]common.Address // (owner, spender) pairs whose allowance is observed
}

func (t *token) track(o, sp common.Address) {
	for _, p := range t.pairs {
		if p[0] == o && p[1] == sp {
			return
		}
	}
	t.pairs = append(t.pairs, [2]common.Address{o, sp})
}

type world struct {
	app    *app.Teleport
	header tmproto.Header
	users  []*user
	refs   map[string]common.Address
	order  []string // tracked address refs, in order
	tokens []*token
	txCfg  interface{}
}

const chainID = "teleport_9000-1"

var (
	moduleAddr = aggtypes.ModuleAddress
	freshAddr  = common.HexToAddress("0xF00D00000000000000000000000000000000F00D")
	// AdvToken instances are installed at fixed addresses whose hex form starts with a letter (so that the
	// 40-hex-digit string is also a valid sdk denomination: the GetTokenPairID corner).
	advAddrs = []common.Address{
		common.HexToAddress("0xAd00000000000000000000000000000000000a01"),
		common.HexToAddress("0xbD00000000000000000000000000000000000b02"),
		common.HexToAddress("0xCd00000000000000000000000000000000000c03"),
	}
)

func userKey(i int) *ethsecp256k1.PrivKey {
	h := sha256.Sum256([]byte(fmt.Sprintf("verif-c11-user-%d", i)))
	return &ethsecp256k1.PrivKey{Key: h[:]}
}

const nUsers = 4

func newWorld() *world {
	sdk.DefaultPowerReduction = sdk.NewIntFromBigInt(new(big.Int).Exp(big.NewInt(10), big.NewInt(18), nil))
	pv := mock.PV{PrivKey: ed25519.GenPrivKeyFromSecret([]byte("verif-c11-validator"))}
	pk, err := pv.GetPubKey()
	if err != nil {
		panic(err)
	}
	valSet := tmtypes.NewValidatorSet([]*tmtypes.Validator{tmtypes.NewValidator(pk, 1)})
	w := &world{refs: map[string]common.Address{}}
	var genAccs []authtypes.GenesisAccount
	var bals []banktypes.Balance
	for i := 0; i < nUsers; i++ {
		k := userKey(i)
		u := &user{priv: k, addr: common.BytesToAddress(k.PubKey().Address().Bytes())}
		w.users = append(w.users, u)
		acc := authtypes.NewBaseAccount(u.addr.Bytes(), k.PubKey(), 0, 0)
		genAccs = append(genAccs, acc)
		if i == 0 { // (the helper computes the genesis supply correctly for one balance entry only)
			bals = append(bals, banktypes.Balance{Address: acc.GetAddress().String(),
				Coins: sdk.NewCoins(sdk.NewCoin(sdk.DefaultBondDenom, sdk.NewInt(4000000)))})
		}
		w.addRef(fmt.Sprintf("u%d", i), u.addr)
	}
	w.app = xibctesting.SetupWithGenesisValSet(&testing.T{}, valSet, genAccs, bals...)
	w.header = tmproto.Header{
		ChainID:            chainID,
		Height:             w.app.LastBlockHeight() + 1,
		AppHash:            w.app.LastCommitID().Hash,
		ValidatorsHash:     valSet.Hash(),
		NextValidatorsHash: valSet.Hash(),
		ProposerAddress:    valSet.Proposer.Address,
		Time:               time.Unix(1700000000, 0).UTC(),
	}
	for i := 1; i < nUsers; i++ {
		if err := w.app.BankKeeper.SendCoins(w.ctx(), w.users[0].addr.Bytes(), w.users[i].addr.Bytes(),
			sdk.NewCoins(sdk.NewCoin(sdk.DefaultBondDenom, sdk.NewInt(1000000)))); err != nil {
			panic(err)
		}
	}
	w.addRef("module", moduleAddr)
	w.addRef("feecol", common.BytesToAddress(authtypes.NewModuleAddress(authtypes.FeeCollectorName)))
	w.addRef("distr", common.BytesToAddress(authtypes.NewModuleAddress(distrtypes.ModuleName)))
	w.addRef("zero", common.Address{})
	w.addRef("thief", common.BytesToAddress(thiefAddr))
	w.addRef("fresh", freshAddr)
	return w
}

func (w *world) addRef(name string, a common.Address) {
	w.refs[name] = a
	w.order = append(w.order, name)
}

func (w *world) ctx() sdk.Context { return w.app.BaseApp.NewContext(false, w.header) }

func hex40(a common.Address) string { return hex.EncodeToString(a.Bytes()) }

// resolveAddr: "@name" -> address; "@tokK" -> token K's address.
func (w *world) resolveAddr(s string) (common.Address, bool) {
	if !strings.HasPrefix(s, "@") {
		return common.Address{}, false
	}
	a, ok := w.refs[s[1:]]
	return a, ok
}

// hexString: the string put into a hex-address field of a message.
//   "@ref" -> EIP-55 hex with 0x; "@ref.lower" -> lower case with 0x; "@ref.bare" -> lower case without 0x; else literal
func (w *world) hexString(s string) string {
	if !strings.HasPrefix(s, "@") {
		return s
	}
	name, mod := s, ""
	if i := strings.Index(s, "."); i >= 0 {
		name, mod = s[:i], s[i+1:]
	}
	a, ok := w.resolveAddr(name)
	if !ok {
		return s
	}
	switch mod {
	case "lower":
		return "0x" + hex40(a)
	case "bare":
		return hex40(a)
	case "upper":
		return "0X" + strings.ToUpper(hex40(a))
	}
	return a.Hex()
}

func (w *world) bech32String(s string) string {
	if a, ok := w.resolveAddr(s); ok {
		return sdk.AccAddress(a.Bytes()).String()
	}
	return s
}

// denomString: "@tokK.voucher" -> aggregate/0x…(EIP-55); "@tokK.bare" -> 40 hex digits; else literal
func (w *world) denomString(s string) string {
	if !strings.HasPrefix(s, "@") {
		return s
	}
	if strings.HasSuffix(s, ".voucher") {
		if a, ok := w.resolveAddr(strings.TrimSuffix(s, ".voucher")); ok {
			return aggtypes.CreateDenom(a.String())
		}
		return s
	}
	return w.hexString(s)
}

func (w *world) tok(i int) *token {
	if i < 0 || i >= len(w.tokens) {
		return nil
	}
	return w.tokens[i]
}

func (w *world) addToken(a common.Address, kind int, owner common.Address) {
	w.tokens = append(w.tokens, &token{addr: a, kind: kind, owner: owner})
	w.addRef(fmt.Sprintf("tok%d", len(w.tokens)-1), a)
}

// ---------------------------------------------------------------------------------------------------
// Observation
// ---------------------------------------------------------------------------------------------------

var erc20ABI = erc20contracts.ERC20MinterBurnerDecimalsContract.ABI

// view performs a call through the keeper's CallEVM on a branch of the state that is discarded.
func (w *world) view(ctx sdk.Context, contract common.Address, method string, args ...interface{}) string {
	cctx, _ := ctx.CacheContext()
	var out string
	hlib.Catch(func() {
		if ep := w.app.EvmKeeper.GetParams(cctx); !ep.EnableCall { // observation must not depend on the gate under test
			ep.EnableCall = true
			w.app.EvmKeeper.SetParams(cctx, ep)
		}
		res, err := w.app.AggregateKeeper.CallEVM(cctx, erc20ABI, moduleAddr, contract, method, args...)
		if err != nil {
			return
		}
		vals, err := erc20ABI.Unpack(method, res.Ret)
		if err != nil || len(vals) == 0 {
			return
		}
		if b, ok := vals[0].(*big.Int); ok {
			out = b.String()
		}
	})
	return out
}

func (w *world) observe() Obs {
	ctx := w.ctx()
	a := w.app
	o := Obs{Params: a.AggregateKeeper.GetParams(ctx).EnableAggregate, EvmCall: a.EvmKeeper.GetParams(ctx).EnableCall,
		SendList: [][2]string{}, Bank: [][3]string{}, Supply: [][2]string{}, Pairs: []PairObs{}, ERC20Map: [][2]string{},
		DenomMap: [][2]string{}, Tokens: []TokenObs{}}
	bp := a.BankKeeper.GetParams(ctx)
	o.SendDefault = bp.DefaultSendEnabled
	for _, se := range bp.SendEnabled {
		o.SendList = append(o.SendList, [2]string{se.Denom, fmt.Sprint(se.Enabled)})
	}
	for _, r := range w.order {
		ad := w.refs[r]
		o.Addrs = append(o.Addrs, AddrObs{Ref: r, Hex: hex40(ad), Exists: a.AccountKeeper.HasAccount(ctx, ad.Bytes()),
			Blocked: a.BankKeeper.BlockedAddr(ad.Bytes())})
	}
	a.BankKeeper.IterateAllBalances(ctx, func(addr sdk.AccAddress, c sdk.Coin) bool {
		o.Bank = append(o.Bank, [3]string{hex.EncodeToString(addr.Bytes()), c.Denom, c.Amount.String()})
		return false
	})
	sort.Slice(o.Bank, func(i, j int) bool {
		if o.Bank[i][0] != o.Bank[j][0] {
			return o.Bank[i][0] < o.Bank[j][0]
		}
		return o.Bank[i][1] < o.Bank[j][1]
	})
	a.BankKeeper.IterateTotalSupply(ctx, func(c sdk.Coin) bool {
		o.Supply = append(o.Supply, [2]string{c.Denom, c.Amount.String()})
		return false
	})
	sort.Slice(o.Supply, func(i, j int) bool { return o.Supply[i][0] < o.Supply[j][0] })
	// registry: the three raw prefixes of the aggregate store
	store := ctx.KVStore(a.GetKey(aggtypes.StoreKey))
	it := sdk.KVStorePrefixIterator(store, aggtypes.KeyPrefixTokenPair)
	for ; it.Valid(); it.Next() {
		var p aggtypes.TokenPair
		a.AppCodec().MustUnmarshal(it.Value(), &p)
		id := ""
		if len(p.Denoms) > 0 {
			id = hex.EncodeToString(p.GetID())
		}
		o.Pairs = append(o.Pairs, PairObs{Key: hex.EncodeToString(it.Key()[1:]), ID: id, ERC20: hex40(p.GetERC20Contract()),
			Denoms: append([]string{}, p.Denoms...), Enabled: p.Enabled, Owner: int(p.ContractOwner)})
	}
	it.Close()
	it = sdk.KVStorePrefixIterator(store, aggtypes.KeyPrefixTokenPairByERC20)
	for ; it.Valid(); it.Next() {
		o.ERC20Map = append(o.ERC20Map, [2]string{hex.EncodeToString(it.Key()[1:]), hex.EncodeToString(it.Value())})
	}
	it.Close()
	it = sdk.KVStorePrefixIterator(store, aggtypes.KeyPrefixTokenPairByDenom)
	for ; it.Valid(); it.Next() {
		o.DenomMap = append(o.DenomMap, [2]string{string(it.Key()[1:]), hex.EncodeToString(it.Value())})
	}
	it.Close()
	for _, t := range w.tokens {
		to := TokenObs{Addr: hex40(t.addr), Kind: t.kind, Owner: hex40(t.owner), Bals: []string{}}
		acc := a.EvmKeeper.GetAccountWithoutBalance(ctx, t.addr)
		to.Contract = acc != nil && acc.IsContract()
		to.Total = w.view(ctx, t.addr, "totalSupply")
		for _, r := range w.order {
			to.Bals = append(to.Bals, w.view(ctx, t.addr, "balanceOf", w.refs[r]))
		}
		if t.kind == kindModule || t.kind == kindStd {
			for _, p := range t.pairs {
				to.Allow = append(to.Allow, [3]string{hex40(p[0]), hex40(p[1]), w.view(ctx, t.addr, "allowance", p[0], p[1])})
			}
		}
		if t.kind == kindAdv {
			for _, r := range w.order {
				v := a.EvmKeeper.GetState(ctx, t.addr, common.BytesToHash(w.refs[r].Bytes()))
				to.Ledger = append(to.Ledger, new(big.Int).SetBytes(v.Bytes()).String())
			}
			for s := 0; s < 10; s++ {
				v := a.EvmKeeper.GetState(ctx, t.addr, common.BigToHash(big.NewInt(int64(s))))
				to.Cfg = append(to.Cfg, new(big.Int).SetBytes(v.Bytes()).String())
			}
		}
		o.Tokens = append(o.Tokens, to)
	}
	return o
}

// ---------------------------------------------------------------------------------------------------
// Executing steps
// ---------------------------------------------------------------------------------------------------

func classOf(err error) (int, string) {
	if err == nil {
		return 0, ""
	}
	s := err.Error()
	if len(s) > 160 {
		s = s[:160]
	}
	switch {
	case errors.Is(err, sdkerrors.ErrPanic):
		return 2, s
	case errors.Is(err, sdkerrors.ErrOutOfGas):
		return 3, s
	}
	return 1, s
}

// apply runs f on a branch of the deliver state and keeps the branch iff f returns nil and does not panic.
func (w *world) apply(f func(ctx sdk.Context) error) (int, string) {
	cctx, write := w.ctx().CacheContext()
	var err error
	p, val := hlib.Catch(func() { err = f(cctx) })
	if p {
		return 2, val
	}
	if err != nil {
		s := err.Error()
		if len(s) > 160 {
			s = s[:160]
		}
		return 1, s
	}
	write()
	return 0, ""
}

// symAmount resolves "bal", "bal+1", "bal-1", "half" against the sender's current balance.
func symAmount(s string, bal *big.Int) string {
	if bal == nil {
		bal = big.NewInt(0)
	}
	switch s {
	case "bal":
		return bal.String()
	case "bal+1":
		return new(big.Int).Add(bal, big.NewInt(1)).String()
	case "bal-1":
		return new(big.Int).Sub(bal, big.NewInt(1)).String()
	case "half":
		return new(big.Int).Div(bal, big.NewInt(2)).String()
	case "third":
		return new(big.Int).Div(bal, big.NewInt(3)).String()
	}
	return s
}

func (w *world) coinBal(a common.Address, denom string) *big.Int {
	var out *big.Int
	hlib.Catch(func() { out = w.app.BankKeeper.GetBalance(w.ctx(), a.Bytes(), denom).Amount.BigInt() })
	return out
}

func (w *world) tokBal(t *token, a common.Address) *big.Int {
	if t == nil {
		return nil
	}
	b, ok := new(big.Int).SetString(w.view(w.ctx(), t.addr, "balanceOf", a), 10)
	if !ok {
		return nil
	}
	return b
}

func amountOf(s string) sdk.Int {
	neg := strings.HasPrefix(s, "-")
	b, ok := new(big.Int).SetString(strings.TrimPrefix(s, "-"), 10)
	if !ok {
		panic("bad amount " + s)
	}
	if neg {
		b.Neg(b)
	}
	return sdk.NewIntFromBigInt(b)
}

func metadataFor(denom string) banktypes.Metadata {
	return banktypes.Metadata{
		Description: "verif coin " + denom,
		Base:        denom,
		DenomUnits:  []*banktypes.DenomUnit{{Denom: denom, Exponent: 0}},
		Name:        denom,
		Symbol:      "VRF",
		Display:     denom,
	}
}

// deliverTx signs msg with the sender's key and runs it through BaseApp.DeliverTx (ante handler, message
// routing, atomic state branch, panic recovery).
func (w *world) deliverTx(u *user, msg sdk.Msg) (int, string) {
	ctx := w.ctx()
	acc := w.app.AccountKeeper.GetAccount(ctx, u.addr.Bytes())
	if acc == nil {
		return 3, "signer has no account"
	}
	txCfg := encoding.MakeConfig(app.ModuleBasics).TxConfig
	tx, err := helpers.GenTx(txCfg, []sdk.Msg{msg}, sdk.Coins{sdk.NewInt64Coin(sdk.DefaultBondDenom, 0)}, 40000000,
		chainID, []uint64{acc.GetAccountNumber()}, []uint64{acc.GetSequence()}, u.priv)
	if err != nil {
		return 3, "gentx: " + err.Error()
	}
	_, _, err = w.app.BaseApp.Deliver(txCfg.TxEncoder(), tx)
	return classOf(err)
}

// serverCall mirrors baseapp.runTx/runMsgs for one message without the ante handler: ValidateBasic, the
// handler registered in the MsgServiceRouter on a state branch, written back only on success, panics recovered.
func (w *world) serverCall(msg sdk.Msg) (int, string) {
	if err := msg.ValidateBasic(); err != nil {
		return 1, "validate basic: " + err.Error()
	}
	h := w.app.MsgServiceRouter().Handler(msg)
	if h == nil {
		return 3, "no handler"
	}
	return w.apply(func(ctx sdk.Context) error {
		_, err := h(ctx, msg)
		return err
	})
}

// rich: "@rich" -> the user holding most of the asset (coin denomination, or token when t != nil)
func (w *world) rich(ref string, t *token, denom string) string {
	if !strings.HasPrefix(ref, "@rich") {
		return ref
	}
	best, bestBal := 0, big.NewInt(-1)
	for i, u := range w.users {
		var b *big.Int
		if t != nil {
			b = w.tokBal(t, u.addr)
		} else {
			b = w.coinBal(u.addr, denom)
		}
		if b != nil && b.Cmp(bestBal) > 0 {
			best, bestBal = i, b
		}
	}
	return fmt.Sprintf("@u%d", best) + strings.TrimPrefix(ref, "@rich")
}

func (w *world) userByAddr(a common.Address) *user {
	for _, u := range w.users {
		if u.addr == a {
			return u
		}
	}
	return nil
}

func (w *world) evmCall(ctx sdk.Context, from common.Address, to *common.Address, data []byte) error {
	_, err := w.app.AggregateKeeper.CallEVMWithData(ctx, from, to, data)
	return err
}

func (w *world) run(st Step) StepRes {
	r := StepRes{Op: st.Op, Tok: st.Tok, Via: st.Via}
	a := w.app
	if t := w.tok(st.Tok); t != nil {
		r.TokAddr, r.TokKind = hex40(t.addr), t.kind
	}
	switch st.Op {
	case "fund": // mint coins to an address (set-up)
		to, _ := w.resolveAddr(st.To)
		r.ToHex, r.Denom, r.Amount = hex40(to), st.Denom, st.Amount
		r.Class, r.Err = w.apply(func(ctx sdk.Context) error {
			cs := sdk.Coins{sdk.Coin{Denom: st.Denom, Amount: amountOf(st.Amount)}}
			if err := a.BankKeeper.MintCoins(ctx, aggtypes.ModuleName, cs); err != nil {
				return err
			}
			if to == moduleAddr { // coins that sit in the module account without any token minted for them
				return nil
			}
			return a.BankKeeper.SendCoins(ctx, moduleAddr.Bytes(), to.Bytes(), cs)
		})
	case "register_coin":
		r.Denom = st.Denom
		var addr common.Address
		r.Class, r.Err = w.apply(func(ctx sdk.Context) error {
			p, err := a.AggregateKeeper.RegisterCoin(ctx, metadataFor(st.Denom))
			if err == nil {
				addr = p.GetERC20Contract()
			}
			return err
		})
		if r.Class == 0 {
			w.addToken(addr, kindModule, moduleAddr)
			r.Tok, r.TokAddr = len(w.tokens)-1, hex40(addr)
		}
	case "add_coin":
		r.Denom = st.Denom
		t := w.tok(st.Tok)
		r.Class, r.Err = w.apply(func(ctx sdk.Context) error {
			if t == nil {
				return errors.New("no such token")
			}
			_, err := a.AggregateKeeper.AddCoin(ctx, metadataFor(st.Denom), t.addr.Hex())
			return err
		})
	case "deploy":
		from, _ := w.resolveAddr(st.From)
		r.FromHex = hex40(from)
		var addr common.Address
		r.Class, r.Err = w.apply(func(ctx sdk.Context) error {
			switch st.Kind {
			case kindAdv:
				n := 0
				for _, t := range w.tokens {
					if t.kind == kindAdv {
						n++
					}
				}
				if n >= len(advAddrs) {
					return errors.New("too many adv tokens")
				}
				addr = advAddrs[n]
				// one trailing (unreachable) byte makes the code of every instance distinct: ethermint v0.13.0 stores
				// code by hash and DeleteAccount (SELFDESTRUCT) removes it for EVERY account sharing that hash, so
				// killing one instance would silently strip the others of their code (IsContract stays true)
				a.SetEVMCode(ctx, addr, append(advTokenCode(), byte(n+1)))
				return nil
			case kindStd, kindDelayed, kindManip:
				var data []byte
				switch st.Kind {
				case kindStd:
					args, err := erc20ABI.Pack("", fmt.Sprintf("Std%d Token", len(w.tokens)), "STD", uint8(0))
					if err != nil {
						return err
					}
					data = append(append([]byte{}, erc20contracts.ERC20MinterBurnerDecimalsContract.Bin...), args...)
				case kindDelayed:
					args, err := erc20contracts.ERC20MaliciousDelayedContract.ABI.Pack("", big.NewInt(0))
					if err != nil {
						return err
					}
					data = append(append([]byte{}, erc20contracts.ERC20MaliciousDelayedContract.Bin...), args...)
				case kindManip:
					args, err := erc20contracts.ERC20DirectBalanceManipulationContract.ABI.Pack("", big.NewInt(0))
					if err != nil {
						return err
					}
					data = append(append([]byte{}, erc20contracts.ERC20DirectBalanceManipulationContract.Bin...), args...)
				}
				nonce, err := a.AccountKeeper.GetSequence(ctx, from.Bytes())
				if err != nil {
					return err
				}
				addr = crypto.CreateAddress(from, nonce)
				return w.evmCall(ctx, from, nil, data)
			}
			return errors.New("bad kind")
		})
		if r.Class == 0 {
			w.addToken(addr, st.Kind, from)
			r.Tok, r.TokAddr = len(w.tokens)-1, hex40(addr)
		}
	case "register_erc20":
		t := w.tok(st.Tok)
		r.Class, r.Err = w.apply(func(ctx sdk.Context) error {
			if t == nil {
				return errors.New("no such token")
			}
			_, err := a.AggregateKeeper.RegisterERC20(ctx, t.addr)
			return err
		})
	case "token_mint": // external tokens: the role holder mints / the adversary writes a balance
		t := w.tok(st.Tok)
		to, _ := w.resolveAddr(st.To)
		r.ToHex, r.Amount = hex40(to), st.Amount
		r.Class, r.Err = w.apply(func(ctx sdk.Context) error {
			if t == nil {
				return errors.New("no such token")
			}
			amt := amountOf(st.Amount).BigInt()
			if t.kind == kindAdv {
				cur := a.EvmKeeper.GetState(ctx, t.addr, common.BytesToHash(to.Bytes()))
				nb := new(big.Int).Add(new(big.Int).SetBytes(cur.Bytes()), amt)
				tot := a.EvmKeeper.GetState(ctx, t.addr, common.Hash{})
				nt := new(big.Int).Add(new(big.Int).SetBytes(tot.Bytes()), amt)
				if err := w.advSet(ctx, t, new(big.Int).SetBytes(to.Bytes()), nb); err != nil {
					return err
				}
				return w.advSet(ctx, t, big.NewInt(0), nt)
			}
			data, err := erc20ABI.Pack("mint", to, amt)
			if err != nil {
				return err
			}
			return w.evmCall(ctx, t.owner, &t.addr, data)
		})
	case "token_cfg": // AdvToken: the adversary sets a configuration slot
		t := w.tok(st.Tok)
		r.Amount = st.Amount
		r.Class, r.Err = w.apply(func(ctx sdk.Context) error {
			if t == nil || t.kind != kindAdv {
				return errors.New("not an adv token")
			}
			var v *big.Int
			if strings.HasPrefix(st.To, "@") { // value is an address
				ad, _ := w.resolveAddr(st.To)
				v = new(big.Int).SetBytes(ad.Bytes())
			} else {
				v = amountOf(st.Amount).BigInt()
			}
			return w.advSet(ctx, t, big.NewInt(int64(st.Slot)), v)
		})
	case "token_kill":
		t := w.tok(st.Tok)
		r.Class, r.Err = w.apply(func(ctx sdk.Context) error {
			if t == nil || t.kind != kindAdv {
				return errors.New("not an adv token")
			}
			return w.evmCall(ctx, w.users[0].addr, &t.addr, []byte{0x5e, 0xed, 0x00, 0x02})
		})
	case "toggle":
		t := w.tok(st.Tok)
		r.Class, r.Err = w.apply(func(ctx sdk.Context) error {
			if t == nil {
				return errors.New("no such token")
			}
			_, err := a.AggregateKeeper.ToggleRelay(ctx, t.addr.Hex())
			return err
		})
	case "params":
		r.Class, r.Err = w.apply(func(ctx sdk.Context) error {
			p := a.AggregateKeeper.GetParams(ctx)
			p.EnableAggregate = st.Flag
			a.AggregateKeeper.SetParams(ctx, p)
			return nil
		})
	case "evm_call_enabled":
		r.Class, r.Err = w.apply(func(ctx sdk.Context) error {
			p := a.EvmKeeper.GetParams(ctx)
			p.EnableCall = st.Flag
			a.EvmKeeper.SetParams(ctx, p)
			return nil
		})
	case "send_enabled":
		r.Denom = st.Denom
		r.Class, r.Err = w.apply(func(ctx sdk.Context) error {
			p := a.BankKeeper.GetParams(ctx)
			if st.Denom == "" {
				p.DefaultSendEnabled = st.Flag
			} else {
				p = p.SetSendEnabledParam(st.Denom, st.Flag)
			}
			a.BankKeeper.SetParams(ctx, p)
			return nil
		})
	case "bank_send": // environment: a user sends coins (bank keeper SendCoins, as MsgSend does after its gates)
		denom := w.denomString(st.Denom)
		from, _ := w.resolveAddr(w.rich(st.From, nil, denom))
		to, _ := w.resolveAddr(st.To)
		amt := symAmount(st.Amount, w.coinBal(from, denom))
		r.FromHex, r.ToHex, r.Denom, r.Amount = hex40(from), hex40(to), denom, amt
		r.Class, r.Err = w.apply(func(ctx sdk.Context) error {
			if a.BankKeeper.BlockedAddr(to.Bytes()) {
				return errors.New("blocked")
			}
			return a.BankKeeper.SendCoins(ctx, from.Bytes(), to.Bytes(), sdk.Coins{sdk.Coin{Denom: denom, Amount: amountOf(amt)}})
		})
	case "tok_transfer", "tok_burn": // environment: a user calls transfer / burn on a token contract
		t := w.tok(st.Tok)
		from, _ := w.resolveAddr(w.rich(st.From, t, ""))
		to, _ := w.resolveAddr(st.To)
		amt := symAmount(st.Amount, w.tokBal(t, from))
		if strings.HasPrefix(amt, "-") {
			amt = "0"
		}
		r.FromHex, r.ToHex, r.Amount = hex40(from), hex40(to), amt
		r.Class, r.Err = w.apply(func(ctx sdk.Context) error {
			if t == nil {
				return errors.New("no such token")
			}
			var data []byte
			var err error
			if st.Op == "tok_transfer" {
				data, err = erc20ABI.Pack("transfer", to, amountOf(amt).BigInt())
			} else {
				data, err = erc20ABI.Pack("burn", amountOf(amt).BigInt())
			}
			if err != nil {
				return err
			}
			return w.evmCall(ctx, from, &t.addr, data)
		})
	case "tok_approve", "tok_inc_allow", "tok_dec_allow": // environment: a holder manages an allowance
		t := w.tok(st.Tok)
		from, _ := w.resolveAddr(w.rich(st.From, t, ""))
		sp, _ := w.resolveAddr(st.To)
		amt := symAmount(st.Amount, w.tokBal(t, from))
		if strings.HasPrefix(amt, "-") {
			amt = "0"
		}
		r.FromHex, r.ToHex, r.Amount = hex40(from), hex40(sp), amt
		if t != nil {
			t.track(from, sp)
		}
		r.Class, r.Err = w.apply(func(ctx sdk.Context) error {
			if t == nil {
				return errors.New("no such token")
			}
			method := map[string]string{"tok_approve": "approve", "tok_inc_allow": "increaseAllowance", "tok_dec_allow": "decreaseAllowance"}[st.Op]
			data, err := erc20ABI.Pack(method, sp, amountOf(amt).BigInt())
			if err != nil {
				return err
			}
			return w.evmCall(ctx, from, &t.addr, data)
		})
	case "tok_transfer_from", "tok_burn_from": // environment: a spender uses an allowance
		t := w.tok(st.Tok)
		from, _ := w.resolveAddr(st.From)
		owner, _ := w.resolveAddr(w.rich(st.Sender, t, ""))
		to, _ := w.resolveAddr(st.To)
		amt := st.Amount
		if amt == "allow" || amt == "allow+1" {
			cur, _ := new(big.Int).SetString(w.view(w.ctx(), t.addr, "allowance", owner, from), 10)
			if cur == nil {
				cur = big.NewInt(0)
			}
			if amt == "allow+1" && cur.BitLen() < 256 { // (an infinite allowance cannot be exceeded)
				cur.Add(cur, big.NewInt(1))
			}
			amt = cur.String()
		} else {
			amt = symAmount(st.Amount, w.tokBal(t, owner))
		}
		if strings.HasPrefix(amt, "-") {
			amt = "0"
		}
		r.FromHex, r.OwnerHex, r.ToHex, r.Amount = hex40(from), hex40(owner), hex40(to), amt
		if t != nil {
			t.track(owner, from)
		}
		r.Class, r.Err = w.apply(func(ctx sdk.Context) error {
			if t == nil {
				return errors.New("no such token")
			}
			var data []byte
			var err error
			if st.Op == "tok_transfer_from" {
				data, err = erc20ABI.Pack("transferFrom", owner, to, amountOf(amt).BigInt())
			} else {
				data, err = erc20ABI.Pack("burnFrom", owner, amountOf(amt).BigInt())
			}
			if err != nil {
				return err
			}
			return w.evmCall(ctx, from, &t.addr, data)
		})
	case "convert_coin":
		denom := w.denomString(st.Denom)
		sref := w.rich(st.Sender, nil, denom)
		senderStr := w.bech32String(sref)
		receiverStr := w.hexString(w.rich(st.Receiver, nil, denom))
		sa, err := sdk.AccAddressFromBech32(senderStr)
		amt := symAmount(st.Amount, w.coinBal(common.BytesToAddress(sa), denom))
		msg := &aggtypes.MsgConvertCoin{Coin: sdk.Coin{Denom: denom, Amount: amountOf(amt)}, Receiver: receiverStr, Sender: senderStr}
		r.SenderOK = err == nil && len(sa) == 20
		if r.SenderOK {
			r.SenderHex = hex.EncodeToString(sa)
		}
		r.ReceiverRaw, r.ReceiverOK = receiverStr, common.IsHexAddress(receiverStr)
		r.ReceiverHex = hex40(common.HexToAddress(receiverStr))
		r.Denom, r.Amount = denom, amt
		u := w.userByAddr(common.BytesToAddress(sa))
		if st.Via == "tx" && r.SenderOK && u != nil {
			r.Class, r.Err = w.deliverTx(u, msg)
		} else {
			r.Via = "server"
			r.Class, r.Err = w.serverCall(msg)
		}
	case "convert_erc20":
		sref := w.rich(st.Sender, w.tok(st.Tok), "")
		senderStr := w.hexString(sref)
		receiverStr := w.bech32String(w.rich(st.Receiver, w.tok(st.Tok), ""))
		contractStr := w.hexString(st.Contract)
		denom := w.denomString(st.Denom)
		amt := symAmount(st.Amount, w.tokBal(w.tok(st.Tok), common.HexToAddress(senderStr)))
		msg := &aggtypes.MsgConvertERC20{ContractAddress: contractStr, Amount: amountOf(amt), Receiver: receiverStr, Sender: senderStr, Denom: denom}
		ra, err := sdk.AccAddressFromBech32(receiverStr)
		r.ReceiverOK = err == nil && len(ra) == 20
		if r.ReceiverOK {
			r.ReceiverHex = hex.EncodeToString(ra)
		}
		r.SenderRaw, r.SenderOK = senderStr, common.IsHexAddress(senderStr)
		r.SenderHex = hex40(common.HexToAddress(senderStr))
		r.ContractRaw = contractStr
		r.Denom, r.Amount = denom, amt
		u := w.userByAddr(common.HexToAddress(senderStr))
		if st.Via == "tx" && r.SenderOK && u != nil {
			r.Class, r.Err = w.deliverTx(u, msg)
		} else {
			r.Via = "server"
			r.Class, r.Err = w.serverCall(msg)
		}
	case "ibc_recv":
		// Keeper.OnRecvPacket (the ICS-20 middleware hook) with a real packet, in the context of the enclosing
		// transaction: a branch of the deliver state that is written unless the hook panics.  The vouchers were
		// credited before by a "fund" step (what the transfer application does right before the hook runs).
		channel := st.Channel
		if channel == "" {
			channel = "channel-0"
		}
		hookDenom, _ := aggtypes.IBCDenom("transfer", channel, st.Denom)
		recvStr := st.Receiver
		switch {
		case st.Receiver == "@long": // a 32-byte address (interchain account style)
			recvStr = sdk.AccAddress(append(make([]byte, 12), w.users[1].addr.Bytes()...)).String()
		case strings.HasPrefix(st.Receiver, "@"):
			recvStr = w.bech32String(w.rich(st.Receiver, nil, hookDenom))
		}
		ra, rerr := sdk.AccAddressFromBech32(recvStr)
		amt := st.Amount
		if rerr == nil {
			amt = symAmount(st.Amount, w.coinBal(common.BytesToAddress(ra), hookDenom))
		}
		parsed, okAmt := sdk.NewIntFromString(amt)
		r.HookOK = okAmt && rerr == nil && len(ra) == 20
		r.Denom, r.Amount = hookDenom, amt
		if r.HookOK {
			r.ReceiverHex, r.Amount = hex.EncodeToString(ra), parsed.String()
		}
		data := transfertypes.FungibleTokenPacketData{Denom: st.Denom, Amount: amt, Sender: "cosmos1sender", Receiver: recvStr}
		packet := channeltypes.NewPacket(data.GetBytes(), 1, "transfer", "channel-7", "transfer", channel, clienttypes.NewHeight(0, 1000), 0)
		ack := channeltypes.NewResultAcknowledgement([]byte{1})
		cctx, write := w.ctx().CacheContext()
		cctx = cctx.WithEventManager(sdk.NewEventManager())
		panicked, val := hlib.Catch(func() { w.app.AggregateKeeper.OnRecvPacket(cctx, packet, ack) })
		if panicked {
			r.Class, r.Err = 2, val
		} else {
			write()
			r.Class = 1
			for _, ev := range cctx.EventManager().Events() {
				if !strings.HasSuffix(ev.Type, "EventIBCAggregate") {
					continue
				}
				for _, at := range ev.Attributes {
					if string(at.Key) == "status" && strings.Trim(string(at.Value), "\"") == "STATUS_SUCCESS" {
						r.Class = 0
					}
					if string(at.Key) == "message" {
						r.Err = string(at.Value)
						if len(r.Err) > 160 {
							r.Err = r.Err[:160]
						}
					}
				}
			}
		}
	default:
		r.Class, r.Err = 3, "unknown op "+st.Op
	}
	r.Obs = w.observe()
	return r
}

func (w *world) advSet(ctx sdk.Context, t *token, slot, val *big.Int) error {
	data := append([]byte{0x5e, 0xed, 0x00, 0x01}, common.LeftPadBytes(slot.Bytes(), 32)...)
	data = append(data, common.LeftPadBytes(val.Bytes(), 32)...)
	return w.evmCall(ctx, w.users[0].addr, &t.addr, data)
}

func runSpec(s Spec) (res Result) {
	res.Spec = s
	res.Module = hex40(moduleAddr)
	defer func() {
		if r := recover(); r != nil {
			res.Fatal = fmt.Sprint(r)
		}
	}()
	w := newWorld()
	res.Init = w.observe()
	for _, st := range s.Steps {
		res.Steps = append(res.Steps, w.run(st))
	}
	return res
}

func main() {
	seed := flag.Uint64("seed", 1, "PRNG seed")
	n := flag.Int("n", 20, "number of generated histories")
	steps := flag.Int("steps", 14, "conversion/environment steps per history (after set-up)")
	in := flag.String("in", "", "replay: file of specs (JSON lines) instead of generating")
	out := flag.String("out", "/dev/stdout", "output file (JSON lines)")
	shard := flag.Int("shard", 0, "this process handles histories i with i % shards == shard")
	shards := flag.Int("shards", 1, "number of processes sharing the work")
	flag.Parse()

	var specs []Spec
	if *in != "" {
		hlib.ReadLines(*in, func(line []byte) {
			var s Spec
			if err := json.Unmarshal(line, &s); err != nil {
				panic(err)
			}
			specs = append(specs, s)
		})
	} else {
		specs = generate(*seed, *n, *steps)
	}
	o := hlib.NewOut(*out)
	defer o.Close()
	for i, s := range specs {
		if i%*shards != *shard {
			continue
		}
		o.Emit(runSpec(s))
	}
	_ = os.Stderr
}
