package main

// Exhaustive small-scope sweep of the two voting-power thresholds: every power vector in {1,2,3}^n (n <= maxVals), every
// signer subset, trust levels 1/3 and 2/3, adjacent and skipping headers, for a new validator set that equals the trusted
// one and for one whose first validator is replaced by an outsider (so trusted-set and own-set tallies differ).  Each
// (power vector, level, variant) is one history; every header trusts the initial height, so rejected and accepted steps
// do not influence the verdict of the later ones (an accepted header only stores/replaces heights 11 and 14).

import (
	"fmt"

	clienttypes "github.com/teleport-network/teleport/x/xibc/core/client/types"
)

func sweep(e *env, maxVals int) []Result {
	var out []Result
	id := 200000
	th := clienttypes.NewHeight(0, 10)
	var vectors [][]int64
	var rec func(cur []int64)
	rec = func(cur []int64) {
		if len(cur) > 0 {
			vectors = append(vectors, append([]int64(nil), cur...))
		}
		if len(cur) == maxVals {
			return
		}
		for p := int64(1); p <= 3; p++ {
			rec(append(cur, p))
		}
	}
	rec(nil)
	for _, pv := range vectors {
		trusted := vset(pv...)
		for _, lv := range []level{{1, 3}, {2, 3}} {
			for variant := 0; variant < 2; variant++ {
				own := append([]ValP(nil), trusted...)
				if variant == 1 {
					own[0] = ValP{Key: 9, Power: own[0].Power}
				}
				s := e.scenario(id, fmt.Sprintf("sweep-%v-%d/%d-v%d", pv, lv.num, lv.den, variant), "testchain", 10, lv, 600*sec, 10*sec, 0, trusted)
				id++
				now := 30 * sec
				for mask := 0; mask < 1<<uint(len(own)); mask++ {
					var absent []int
					for i := range own {
						if mask>>uint(i)&1 == 0 {
							absent = append(absent, i)
						}
					}
					if variant == 0 {
						// adjacent: own set must be the stored next set
						s.update(fmt.Sprintf("adjacent-mask-%d", mask), "testchain", 11, 5*sec, own, own, trusted, th, now, absent...)
						now += sec
					}
					s.update(fmt.Sprintf("skip-mask-%d", mask), "testchain", 14, 20*sec, own, own, trusted, th, now, absent...)
					now += sec
				}
				out = append(out, s.run.res)
			}
		}
	}
	return out
}
