package main

// Generator of update histories.  One splitmix PRNG per history.  A history is
// generated WHILE it is executed, so that trusted heights, back-filled heights
// and boundary clocks can be chosen from the real store's current contents; the
// recorded spec (concrete proto headers, clocks, verify requests) replays
// without the generator.

import (
	"encoding/binary"
	"fmt"
	"sort"
	"strings"

	tmproto "github.com/tendermint/tendermint/proto/tendermint/types"

	tmclient "github.com/teleport-network/teleport/x/xibc/clients/light-clients/tendermint/types"
	clienttypes "github.com/teleport-network/teleport/x/xibc/core/client/types"

	"verifharness/hlib"
)

const baseTime = int64(1640995200) * 1000000000 // 2022-01-01T00:00:00Z
const sec = int64(1000000000)
const maxTotalPower = int64(1152921504606846975)

// truth: the simulated counterparty chain (validator set and time per height)
type truth struct {
	chainID string
	rev     uint64
	h0      int64
	t0      int64
	sets    [][]ValP // sets[i] = validators of height h0+i
	r       *hlib.Rand
	big     bool
	times   map[int64]int64 // block time per height, assigned when a height is first used
}

// time of block h.  Blocks are "produced" as the clock advances: a height above every known one gets a time shortly
// before the current clock (but after its predecessors), a height between known ones is interpolated, so times
// increase with heights and fresh headers keep the client alive.
func (t *truth) time(h int64, now int64) int64 {
	if v, ok := t.times[h]; ok {
		return v
	}
	if h < t.h0 {
		return t.t0 - (t.h0-h)*5*sec
	}
	lo, hi := t.h0, int64(-1)
	for k := range t.times {
		if k < h && k > lo {
			lo = k
		}
		if k > h && (hi < 0 || k < hi) {
			hi = k
		}
	}
	var v int64
	if hi < 0 {
		v = now - sec
		if m := t.times[lo] + (h-lo)*1000; v < m {
			v = m
		}
	} else {
		v = t.times[lo] + (t.times[hi]-t.times[lo])/(hi-lo)*(h-lo)
	}
	t.times[h] = v
	return v
}

func (t *truth) power(r *hlib.Rand) int64 {
	p := int64(1 + r.Intn(4))
	if t.big {
		p *= 100000000000000
	}
	return p
}

func (t *truth) vals(h int64) []ValP {
	if h < t.h0 {
		h = t.h0
	}
	if h > t.h0+400 {
		h = t.h0 + 400
	}
	for int64(len(t.sets)) <= h-t.h0 {
		prev := t.sets[len(t.sets)-1]
		r := t.r.Fork(uint64(len(t.sets)))
		next := append([]ValP(nil), prev...)
		if r.Chance(18, 100) {
			switch []int{0, 0, 0, 1, 1, 2, 3, 4}[r.Intn(8)] {
			case 0: // change one power
				i := r.Intn(len(next))
				next[i].Power = t.power(r)
			case 1: // add a validator not yet in the set
				if len(next) < 7 {
					used := map[int]bool{}
					for _, v := range next {
						used[v.Key] = true
					}
					k := r.Intn(nKeys)
					for used[k] {
						k = (k + 1) % nKeys
					}
					next = append(next, ValP{Key: k, Power: t.power(r)})
				}
			case 2: // remove one
				if len(next) > 1 {
					i := r.Intn(len(next))
					next = append(next[:i:i], next[i+1:]...)
				}
			case 3: // replace the whole set by a disjoint one
				used := map[int]bool{}
				for _, v := range next {
					used[v.Key] = true
				}
				var repl []ValP
				for k := 0; k < nKeys && len(repl) < 1+r.Intn(3); k++ {
					if !used[k] {
						repl = append(repl, ValP{Key: k, Power: t.power(r)})
					}
				}
				if len(repl) > 0 {
					next = repl
				}
			case 4: // replace about half
				used := map[int]bool{}
				for _, v := range next {
					used[v.Key] = true
				}
				for i := range next {
					if r.Bool() {
						k := r.Intn(nKeys)
						for used[k] {
							k = (k + 1) % nKeys
						}
						used[k] = true
						next[i] = ValP{Key: k, Power: t.power(r)}
					}
				}
			}
		}
		t.sets = append(t.sets, next)
	}
	return append([]ValP(nil), t.sets[h-t.h0]...)
}

func sumPower(vs []ValP) int64 {
	var s int64
	for _, v := range vs {
		s += v.Power
	}
	return s
}

type stored struct {
	h    clienttypes.Height
	time int64
}

// storedHeights lists the consensus states currently in the real client store.
func storedHeights(r *run) []stored {
	var out []stored
	store := r.store()
	it := store.Iterator(nil, nil)
	defer it.Close()
	prefix := "consensusStates/"
	for ; it.Valid(); it.Next() {
		k := it.Key()
		if len(k) == len(prefix)+16 && string(k[:len(prefix)]) == prefix {
			h := clienttypes.NewHeight(binary.BigEndian.Uint64(k[len(prefix):len(prefix)+8]), binary.BigEndian.Uint64(k[len(prefix)+8:]))
			if c, err := tmclient.GetConsensusState(store, r.e.cdc, h); err == nil {
				out = append(out, stored{h, c.Timestamp.UnixNano()})
			}
		}
	}
	sort.Slice(out, func(i, j int) bool { return out[i].h.LT(out[j].h) })
	return out
}

var chainIDs = []string{"testchain", "gaia-2", "tele_7001-1", "a-b-3", "gaia-2", "testchain"}
var startHeights = []int64{3, 7, 45, 250, 65530, 4294967293}

type level struct{ num, den uint64 }

var levels = []level{{1, 3}, {1, 3}, {1, 3}, {1, 3}, {2, 3}, {2, 3}, {1, 2}, {1, 1}, {3, 4}, {5, 6}, {2, 5}}
var oddLevels = []level{{0x5555555555555555, 0xFFFFFFFFFFFFFFFF}, {0, 1}, {1, 0}, {0x5000000000000000, 0x8000000000000000}, {7, 3}}

func genHistory(e *env, r *hlib.Rand, id, maxSteps int) Result {
	t := &truth{r: r.Fork(77)}
	t.chainID = chainIDs[r.Intn(len(chainIDs))]
	t.rev = clienttypes.ParseChainID(t.chainID)
	t.h0 = startHeights[r.Intn(len(startHeights))]
	t.t0 = baseTime + int64(r.Intn(100000))*sec + int64(r.Intn(1000))
	t.big = r.Chance(1, 6)
	n0 := 1 + r.Intn(5)
	var first []ValP
	for i, k := 0, r.Intn(nKeys); i < n0; i, k = i+1, (k+1)%nKeys {
		first = append(first, ValP{Key: k, Power: t.power(r)})
	}
	t.sets = [][]ValP{first}
	t.times = map[int64]int64{t.h0: t.t0}

	lv := levels[r.Intn(len(levels))]
	if r.Chance(1, 20) {
		lv = oddLevels[r.Intn(len(oddLevels))]
	}
	trusting := []int64{300, 600, 2000}[r.Intn(3)] * sec
	drift := []int64{10 * sec, 10 * sec, sec, 1}[r.Intn(4)]
	createNow := t.t0 + 10*sec
	delay := []uint64{0, 0, uint64(10 * sec), uint64(60 * sec)}[r.Intn(4)]
	overflow := r.Chance(1, 14)
	if overflow {
		// processedTime + delay wraps around 2^64 to a small value
		delay = ^uint64(0) - uint64(createNow) + 1 + uint64(r.Intn(3))*uint64(sec)
	}
	root := e.fx.root
	if r.Chance(1, 8) {
		root = h32("some other app hash")
	}
	spec := Spec{ID: id, Client: ClientSpec{ChainID: t.chainID, TLNum: lv.num, TLDen: lv.den, Trusting: trusting,
		Unbonding: trusting * 2, Drift: drift, Latest: HeightJ{t.rev, uint64(t.h0)}, Delay: delay,
		ConsTime: t.t0, ConsRoot: hx(root), ConsNVH: hx(hashOf(t.vals(t.h0 + 1))), CreateNow: createNow}}
	run := e.start(spec)
	now := createNow
	nsteps := 3 + r.Intn(maxSteps)
	for i := 0; i < nsteps; i++ {
		now += []int64{sec, 5 * sec, 5 * sec, 20 * sec, 60 * sec}[r.Intn(5)]
		if (overflow && i == 0) || r.Chance(1, 4) {
			now = genVerify(run, r.Fork(uint64(1000+i)), t, now, overflow)
		} else {
			now = genUpdate(run, r.Fork(uint64(1000+i)), t, now, i >= nsteps-2)
		}
	}
	return run.res
}

func pick(r *hlib.Rand, weights ...int) int {
	tot := 0
	for _, w := range weights {
		tot += w
	}
	x := r.Intn(tot)
	for i, w := range weights {
		if x < w {
			return i
		}
		x -= w
	}
	return 0
}

// genUpdate builds one update step and runs it; returns the (possibly advanced) clock.
func genUpdate(run *run, r *hlib.Rand, t *truth, now int64, late bool) int64 {
	cs := run.clientState()
	st := storedHeights(run)
	latest := int64(cs.LatestHeight.RevisionHeight)
	var desc []string

	// target height
	var H int64
	switch pick(r, 24, 34, 30, 7, 5) {
	case 0:
		H = latest + 1
		desc = append(desc, "fwd-adjacent")
	case 1:
		H = latest + 2 + int64(r.Intn(7))
		desc = append(desc, "fwd-skip")
	case 2:
		H = 0
		if len(st) >= 1 {
			lo := int64(st[0].h.RevisionHeight)
			var free []int64
			for x := lo + 1; x < latest && x < lo+60; x++ {
				used := false
				for _, s := range st {
					if int64(s.h.RevisionHeight) == x {
						used = true
					}
				}
				if !used {
					free = append(free, x)
				}
			}
			if len(free) > 0 {
				H = free[r.Intn(len(free))]
				desc = append(desc, "backfill")
			}
		}
		if H == 0 {
			H = latest + 1
			desc = append(desc, "fwd-adjacent")
		}
	case 3:
		H = int64(st[r.Intn(len(st))].h.RevisionHeight)
		desc = append(desc, "existing-height")
	default:
		H = []int64{0, -1, 1, latest - 1000, 1 << 62}[r.Intn(5)]
		desc = append(desc, "odd-height")
	}

	// trusted height
	var th clienttypes.Height
	var below []stored
	for _, s := range st {
		if int64(s.h.RevisionHeight) < H {
			below = append(below, s)
		}
	}
	switch {
	case len(below) > 0 && r.Chance(82, 100):
		th = below[len(below)-1].h
		desc = append(desc, "trusted-nearest")
	case len(below) > 0 && r.Chance(1, 2):
		th = below[r.Intn(len(below))].h
		desc = append(desc, "trusted-older")
	case r.Chance(1, 2):
		th = st[r.Intn(len(st))].h
		desc = append(desc, "trusted-any-stored")
	default:
		th = clienttypes.NewHeight(t.rev, uint64(H-1-int64(r.Intn(3))))
		desc = append(desc, "trusted-unstored")
	}
	tH := int64(th.RevisionHeight)
	if tH+1 == H {
		desc = append(desc, "adjacent")
	} else {
		desc = append(desc, "non-adjacent")
	}

	vals := t.vals(H)
	tvals := t.vals(tH + 1)
	p := defaultHP(t.chainID, H, t.time(H, now), vals)
	p.NextValsHash = hashOf(t.vals(H + 1))
	p.AppHash = run.e.fx.root
	if r.Chance(1, 10) {
		p.AppHash = h32(fmt.Sprint("app", H))
	}
	p.TrustedHeight = th
	p.TrustedVals = tvals

	// header times lie shortly before the clock; sometimes a header comes "from the future", exactly around now + drift
	if H > latest && r.Chance(1, 12) {
		p.Time = now + cs.MaxClockDrift.Nanoseconds() - 1 + int64(r.Intn(3))
		t.times[H] = p.Time
		desc = append(desc, "clock-drift-boundary")
	}
	// ... or on the expiry boundary of the trusted consensus state
	for _, s := range st {
		if s.h.EQ(th) {
			exp := s.time + cs.TrustingPeriod.Nanoseconds()
			// only in the last steps: a clock at the expiry boundary leaves the rest of the history with a dead client
			if exp-1 >= now && late && r.Chance(1, 3) {
				now = exp - 2 + int64(r.Intn(3))
				desc = append(desc, "clock-expiry-boundary")
				if H > latest {
					p.Time = now - sec
					t.times[H] = p.Time
				}
			}
		}
	}
	if late && r.Chance(1, 6) {
		now += cs.TrustingPeriod.Nanoseconds() * int64(1+r.Intn(2))
		desc = append(desc, "clock-far-future")
		if H > latest && r.Chance(2, 3) {
			p.Time = now - sec
			t.times[H] = p.Time
		}
	}

	// signer subset: enumerate the subsets of the header's own validators, classify, pick a class
	type cand struct {
		mask   int
		own    bool // > 2/3 of own set
		trust  bool // > trust level of the trusted set (by key)
		margin int64
	}
	tot := sumPower(vals)
	ttot := sumPower(tvals)
	tpow := map[int]int64{}
	for _, v := range tvals {
		tpow[v.Key] += v.Power
	}
	num, den := cs.TrustLevel.Numerator, cs.TrustLevel.Denominator
	var cands []cand
	for m := 0; m < 1<<uint(len(vals)); m++ {
		var s, ts int64
		for i, v := range vals {
			if m>>uint(i)&1 == 1 {
				s += v.Power
				ts += tpow[v.Key]
			}
		}
		c := cand{mask: m, own: 3*s > 2*tot, margin: 3*s - 2*tot}
		if den != 0 && den < 1<<62 && num < 1<<62 {
			c.trust = mulGT(uint64(ts), den, uint64(ttot), num)
		}
		cands = append(cands, c)
	}
	choose := func(f func(c cand) bool) (int, bool) {
		var ok []cand
		for _, c := range cands {
			if f(c) {
				ok = append(ok, c)
			}
		}
		if len(ok) == 0 {
			return 0, false
		}
		return ok[r.Intn(len(ok))].mask, true
	}
	mask := 1<<uint(len(vals)) - 1
	sdesc := "signers-all"
	switch pick(r, 34, 22, 10, 8, 12, 6, 2) {
	case 1: // smallest subsets above 2/3
		best := int64(-1)
		for _, c := range cands {
			if c.own && (best < 0 || c.margin < best) {
				best = c.margin
			}
		}
		if m, ok := choose(func(c cand) bool { return c.own && c.margin == best }); ok {
			mask, sdesc = m, "signers-just-above-2/3"
		}
	case 2: // largest subsets not above 2/3 (exactly 2/3 when the powers allow)
		best := int64(-1 << 62)
		for _, c := range cands {
			if !c.own && c.margin > best {
				best = c.margin
			}
		}
		if m, ok := choose(func(c cand) bool { return !c.own && c.margin == best }); ok {
			mask, sdesc = m, "signers-at-or-just-below-2/3"
			if best == 0 {
				sdesc = "signers-exactly-2/3"
			}
		}
	case 3:
		if m, ok := choose(func(c cand) bool { return c.own && !c.trust }); ok {
			mask, sdesc = m, "signers-own-ok-trust-short"
		}
	case 4:
		if m, ok := choose(func(c cand) bool { return c.own && c.trust }); ok {
			mask, sdesc = m, "signers-own-ok-trust-ok"
		}
	case 5:
		mask, sdesc = r.Intn(1<<uint(len(vals))), "signers-random"
	case 6:
		mask, sdesc = 0, "signers-none"
	}
	desc = append(desc, sdesc)
	for i, v := range vals {
		s := SigP{Flag: 2, Signer: v.Key, TsOff: int64(i)}
		if mask>>uint(i)&1 == 0 {
			if r.Chance(2, 3) {
				s.Flag = 1
			} else {
				s.Flag = 3
			}
		}
		p.Sigs = append(p.Sigs, s)
	}

	post := func(h *tmclient.Header) {}
	mut := "mut-none"
	if r.Chance(30, 100) {
		mut, post = mutate(r, p, t, run)
	}
	desc = append(desc, mut)
	hdr := build(p)
	post(hdr)
	bz, err := run.e.cdc.Marshal(hdr)
	if err != nil {
		panic(err)
	}
	run.step(Step{Kind: "update", Now: now, Header: hx(bz), Desc: strings.Join(desc, " ")})
	return now
}

// mulGT: a*b > c*d for values < 2^62 (128-bit product comparison via big-free split)
func mulGT(a, b, c, d uint64) bool {
	hi1, lo1 := mul64(a, b)
	hi2, lo2 := mul64(c, d)
	return hi1 > hi2 || (hi1 == hi2 && lo1 > lo2)
}

func mul64(x, y uint64) (hi, lo uint64) {
	const mask32 = 1<<32 - 1
	x0, x1 := x&mask32, x>>32
	y0, y1 := y&mask32, y>>32
	w0 := x0 * y0
	t := x1*y0 + w0>>32
	w1, w2 := t&mask32, t>>32
	w1 += x0 * y1
	hi = x1*y1 + w2 + w1>>32
	lo = x * y
	return
}

// mutate applies one mutation; pre-signing mutations change the parameters (the commit then signs the mutated
// header, so exactly the mutated field decides), post-signing mutations change the built header.
func mutate(r *hlib.Rand, p *HP, t *truth, run *run) (string, func(h *tmclient.Header)) {
	none := func(h *tmclient.Header) {}
	short := func(b []byte) []byte { return b[:len(b)-1] }
	for {
		switch r.Intn(47) {
		case 0:
			p.ChainID = "otherchain"
			return "mut-chain-other", none
		case 1:
			p.ChainID = t.chainID + "-9"
			return "mut-chain-other-revision", none
		case 2:
			h := p.Height + 1
			p.CommitHeight = &h
			return "mut-commit-height", none
		case 3:
			for _, s := range storedHeights(run) {
				if s.h.EQ(p.TrustedHeight) {
					p.Time = s.time + int64(r.Intn(3)) - 1
					return "mut-time-around-trusted-time", none
				}
			}
		case 4:
			p.VersionBlock = 10
			return "mut-version", none
		case 5:
			p.DataHash = short(p.DataHash)
			return "mut-datahash-len", none
		case 6:
			p.ProposerAddr = make([]byte, 19)
			return "mut-proposer-len", none
		case 7:
			p.NextValsHash = h32("wrong next vals")
			return "mut-nextvals-other", none
		case 8:
			p.NextValsHash = nil
			return "mut-nextvals-empty", none
		case 9:
			p.ValsHash = h32("wrong vals hash")
			return "mut-valshash-other", none
		case 10:
			p.ValsHash = []byte{}
			return "mut-valshash-empty", none
		case 11:
			p.AppHash = nil
			return "mut-apphash-empty", none
		case 12:
			p.Round = -1
			return "mut-round-negative", none
		case 13:
			p.PartsTotal, p.PartsHash = 0, nil
			return "mut-parts-zero", none
		case 14:
			p.LastBlockID = tmproto.BlockID{Hash: make([]byte, 31)}
			return "mut-lastblockid-len", none
		case 15:
			return "mut-post-apphash", func(h *tmclient.Header) { h.SignedHeader.Header.AppHash = h32("flipped") }
		case 16:
			return "mut-post-time", func(h *tmclient.Header) { h.SignedHeader.Header.Time = h.SignedHeader.Header.Time.Add(1) }
		case 17:
			return "mut-post-nextvals", func(h *tmclient.Header) { h.SignedHeader.Header.NextValidatorsHash = h32("flipped") }
		case 18:
			return "mut-post-height", func(h *tmclient.Header) { h.SignedHeader.Header.Height++ }
		case 19:
			p.NilSigned = true
			return "mut-nil-signed-header", none
		case 20:
			p.NilHeader = true
			return "mut-nil-header", none
		case 21:
			p.NilCommit = true
			return "mut-nil-commit", none
		case 22:
			p.NilValset = true
			return "mut-nil-valset", none
		case 23:
			p.NilTrusted = true
			return "mut-nil-trusted", none
		case 24:
			if len(p.Sigs) > 1 {
				p.Sigs = p.Sigs[:len(p.Sigs)-1]
				return "mut-sigs-fewer", none
			}
		case 25:
			p.Sigs = append(p.Sigs, SigP{Flag: 1})
			return "mut-sigs-more", none
		case 26:
			return "mut-post-valset-drop", func(h *tmclient.Header) {
				if h.ValidatorSet != nil && len(h.ValidatorSet.Validators) > 1 {
					h.ValidatorSet.Validators = h.ValidatorSet.Validators[1:]
				}
			}
		case 27:
			p.Proposer = -1
			return "mut-proposer-nil", none
		case 28:
			p.Vals[r.Intn(len(p.Vals))].Addr = make([]byte, 19)
			return "mut-val-addr-len", none
		case 29:
			p.Vals[r.Intn(len(p.Vals))].Power = -1
			return "mut-val-power-negative", none
		case 30:
			for i := range p.Vals {
				p.Vals[i].Power = 1 << 59
			}
			return "mut-val-power-overflow", none
		case 31:
			p.Vals[r.Intn(len(p.Vals))].PK = 1 + r.Intn(3)
			return "mut-val-pubkey", none
		case 32:
			p.TrustedHeight.RevisionNumber++
			return "mut-trusted-revision", none
		case 33: // trusted set with permuted address labels: same hash (addresses are not hashed), other lookups
			if len(p.TrustedVals) > 1 {
				a0 := keyAddr(p.TrustedVals[0].Key)
				for i := range p.TrustedVals {
					if i+1 < len(p.TrustedVals) {
						p.TrustedVals[i].Addr = keyAddr(p.TrustedVals[i+1].Key)
					} else {
						p.TrustedVals[i].Addr = a0
					}
				}
				return "mut-trusted-relabelled", none
			}
		case 34: // all trusted validators carry the same address: the tally sees double votes or one validator
			if len(p.TrustedVals) > 1 {
				a0 := keyAddr(p.TrustedVals[r.Intn(len(p.TrustedVals))].Key)
				for i := range p.TrustedVals {
					p.TrustedVals[i].Addr = a0
				}
				return "mut-trusted-same-address", none
			}
		case 35:
			p.TrustedVals = t.vals(int64(p.TrustedHeight.RevisionHeight) + 2 + int64(r.Intn(3)))
			return "mut-trusted-other-height-set", none
		case 36:
			p.TrustedVals = append(p.TrustedVals, ValP{Key: r.Intn(nKeys), Power: 1})
			return "mut-trusted-extra-validator", none
		case 37:
			for i := range p.TrustedVals {
				p.TrustedVals[i].Power = 1 << 59
			}
			return "mut-trusted-power-overflow", none
		case 38:
			p.TrustedVals = nil
			return "mut-trusted-empty", none
		case 39: // one commit signature is not a valid signature of this vote
			var idx []int
			for i, s := range p.Sigs {
				if s.Flag == 2 {
					idx = append(idx, i)
				}
			}
			if len(idx) > 0 {
				i := idx[r.Intn(len(idx))]
				p.Sigs[i].Mode = 1 + r.Intn(6)
				return fmt.Sprintf("mut-sig-mode-%d", p.Sigs[i].Mode), none
			}
		case 40: // a signature made by a key that is not the validator at that position
			var idx []int
			for i, s := range p.Sigs {
				if s.Flag == 2 {
					idx = append(idx, i)
				}
			}
			if len(idx) > 0 {
				i := idx[r.Intn(len(idx))]
				p.Sigs[i].Addr = keyAddr(p.Sigs[i].Signer)
				p.Sigs[i].Signer = (p.Sigs[i].Signer + 1 + r.Intn(nKeys-1)) % nKeys
				return "mut-sig-wrong-key", none
			}
		case 41: // swap two commit signatures (positions no longer match the validator set)
			if len(p.Sigs) > 1 {
				i := r.Intn(len(p.Sigs) - 1)
				p.Sigs[i], p.Sigs[i+1] = p.Sigs[i+1], p.Sigs[i]
				return "mut-sig-swapped", none
			}
		case 42: // exactly on / one above the voting power cap
			if len(p.Vals) > 0 {
				rest := sumPower(p.Vals) - p.Vals[0].Power
				p.Vals[0].Power = maxTotalPower - rest + int64(r.Intn(2))
				p.NextValsHash = hashOf(p.Vals)
				return "mut-val-power-at-cap", none
			}
		case 43:
			p.Sigs[r.Intn(len(p.Sigs))].Flag = 4
			return "mut-sig-flag-unknown", none
		case 44:
			p.ChainID = strings.Repeat("c", 51)
			return "mut-chain-too-long", none
		case 45:
			p.ChainID = "overflow-99999999999999999999999"
			return "mut-chain-revision-overflow", none
		case 46: // the same chain in its NEXT revision (well formed): updates must stay within the trusted height's revision
			if clienttypes.IsRevisionFormat(t.chainID) {
				p.ChainID, _ = clienttypes.SetRevisionNumber(t.chainID, t.rev+1)
				return "mut-chain-next-revision", none
			}
		}
	}
}

// genVerify issues a VerifyPacketCommitment / VerifyPacketAcknowledgement request.
func genVerify(run *run, r *hlib.Rand, t *truth, now int64, overflow bool) int64 {
	cs := run.clientState()
	st := storedHeights(run)
	var desc []string
	var h clienttypes.Height
	switch pick(r, 70, 10, 10, 5, 5) {
	case 0:
		h = st[r.Intn(len(st))].h
		desc = append(desc, "height-stored")
	case 1:
		h = clienttypes.NewHeight(t.rev, cs.LatestHeight.RevisionHeight+1+uint64(r.Intn(2)))
		desc = append(desc, "height-above-latest")
	case 2:
		h = clienttypes.NewHeight(t.rev, cs.LatestHeight.RevisionHeight-1-uint64(r.Intn(3)))
		desc = append(desc, "height-below-latest")
	case 3:
		h = clienttypes.NewHeight(t.rev+1, st[0].h.RevisionHeight)
		desc = append(desc, "height-next-revision")
	default:
		h = clienttypes.NewHeight(t.rev, 0)
		desc = append(desc, "height-zero")
	}
	ack := r.Bool()
	step := Step{Kind: "verify", VHeight: hj(h), Ack: ack, Seq: fxSeq}
	if ack {
		step.Proof, step.Value = 1, hx(run.e.fx.ack)
	} else {
		step.Proof, step.Value = 0, hx(run.e.fx.commit)
	}
	switch pick(r, 72, 8, 5, 5, 10) {
	case 0:
		desc = append(desc, "proof-valid")
	case 1:
		step.Proof = 1 - step.Proof
		desc = append(desc, "proof-for-other-path")
	case 2:
		step.Proof = 2
		desc = append(desc, "proof-undecodable")
	case 3:
		step.Proof = 3
		desc = append(desc, "proof-empty")
	default:
		step.Proof = -1
		desc = append(desc, "proof-nil")
	}
	switch pick(r, 86, 8, 6) {
	case 1:
		step.Value = hx(h32("another value"))
		desc = append(desc, "value-other")
	case 2:
		step.Value = ""
		desc = append(desc, "value-empty")
	}
	if r.Chance(1, 12) {
		step.Seq = 2
		desc = append(desc, "seq-other")
	}
	// clock around processedTime + delay
	if pt, ok := tmclient.GetProcessedTime(run.store(), h); ok && !overflow {
		valid := int64(pt + cs.TimeDelay)
		if valid-1 >= now && r.Chance(1, 2) {
			now = valid - 1 + int64(r.Intn(3))
			desc = append(desc, "clock-delay-boundary")
		} else if valid > now && r.Chance(1, 2) {
			now = valid + int64(r.Intn(int(5*sec)))
			desc = append(desc, "clock-after-delay")
		}
	}
	if overflow {
		desc = append(desc, "delay-overflow")
	}
	step.Now = now
	step.Desc = strings.Join(desc, " ")
	run.step(step)
	return now
}
