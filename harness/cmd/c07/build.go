package main

// Construction of Tendermint client headers signed with deterministic mock
// validators (adapted from x/xibc/testing/chain.go: CreateTMClientHeader, but
// every part — validator sets, power splits, signer subsets, commit signatures,
// hashes, times, trusted fields — is under the generator's control).

import (
	"fmt"
	"time"

	"github.com/tendermint/tendermint/crypto/ed25519"
	"github.com/tendermint/tendermint/crypto/tmhash"
	pc "github.com/tendermint/tendermint/proto/tendermint/crypto"
	tmproto "github.com/tendermint/tendermint/proto/tendermint/types"
	tmprotoversion "github.com/tendermint/tendermint/proto/tendermint/version"
	tmtypes "github.com/tendermint/tendermint/types"

	tmclient "github.com/teleport-network/teleport/x/xibc/clients/light-clients/tendermint/types"
	clienttypes "github.com/teleport-network/teleport/x/xibc/core/client/types"
)

const nKeys = 16

var keys []ed25519.PrivKey

func init() {
	for i := 0; i < nKeys; i++ {
		keys = append(keys, ed25519.GenPrivKeyFromSecret([]byte(fmt.Sprintf("c07-validator-%d", i))))
	}
}

// ValP describes one validator of a (proto) validator set.
type ValP struct {
	Key   int    // index into keys
	Power int64  // voting power
	Addr  []byte // nil: address derived from the key
	PK    int    // 0 ed25519, 1 secp256k1 (33 bytes), 2 no key, 3 ed25519 with 31 bytes
}

func keyAddr(k int) []byte { return keys[k].PubKey().Address() }

func (v ValP) proto() *tmproto.Validator {
	pub := keys[v.Key].PubKey().Bytes()
	var ppk pc.PublicKey
	switch v.PK {
	case 0:
		ppk = pc.PublicKey{Sum: &pc.PublicKey_Ed25519{Ed25519: pub}}
	case 1:
		ppk = pc.PublicKey{Sum: &pc.PublicKey_Secp256K1{Secp256K1: append([]byte{2}, pub...)}}
	case 2:
		ppk = pc.PublicKey{}
	default:
		ppk = pc.PublicKey{Sum: &pc.PublicKey_Ed25519{Ed25519: pub[:31]}}
	}
	addr := v.Addr
	if addr == nil {
		addr = keyAddr(v.Key)
	}
	return &tmproto.Validator{Address: addr, PubKey: ppk, VotingPower: v.Power}
}

func valsetProto(vs []ValP, proposer int) *tmproto.ValidatorSet {
	out := &tmproto.ValidatorSet{}
	for _, v := range vs {
		out.Validators = append(out.Validators, v.proto())
	}
	if proposer >= 0 && proposer < len(vs) {
		out.Proposer = vs[proposer].proto()
	}
	return out
}

// hashOf computes the real ValidatorSet.Hash of a list of validators (nil if a key does not convert).
func hashOf(vs []ValP) []byte {
	h, ok := valsetHash(valsetProto(vs, 0))
	if !ok {
		return nil
	}
	return h
}

// SigP describes one commit signature.
type SigP struct {
	Flag   int    // 1 absent, 2 commit, 3 nil, other: invalid
	Signer int    // key that signs (index into keys)
	Addr   []byte // nil: address of the signer key
	TsOff  int64  // timestamp = header time + TsOff ns
	Mode   int    // 0 valid signature, 1 signed for another chain id, 2 garbage (64 bytes), 3 empty, 4 too long (65 bytes), 5 signed for another block id, 6 signed for another height
}

// HP: everything that goes into a header.
type HP struct {
	ChainID      string
	Height       int64
	Time         int64 // ns
	VersionBlock uint64
	Vals         []ValP
	Proposer     int
	ValsHash     []byte // nil: real hash of Vals
	NextValsHash []byte
	AppHash      []byte
	DataHash     []byte
	ConsHash     []byte
	LastResHash  []byte
	EvidHash     []byte
	LastCommit   []byte
	ProposerAddr []byte
	LastBlockID  tmproto.BlockID

	CommitHeight *int64 // nil: Height
	Round        int32
	BlockHash    []byte // nil: real header hash
	PartsTotal   uint32
	PartsHash    []byte
	Sigs         []SigP

	TrustedHeight clienttypes.Height
	TrustedVals   []ValP
	TrustedProp   int

	NilSigned, NilHeader, NilCommit, NilValset, NilTrusted bool
}

func h32(s string) []byte { return tmhash.Sum([]byte(s)) }

func defaultHP(chainID string, height int64, t int64, vals []ValP) *HP {
	return &HP{
		ChainID: chainID, Height: height, Time: t, VersionBlock: 11, Vals: vals,
		AppHash: h32("app"), DataHash: h32("data_hash"), ConsHash: h32("consensus_hash"),
		LastResHash: h32("last_results_hash"), EvidHash: h32("evidence_hash"), LastCommit: h32("last_commit"),
		LastBlockID: tmproto.BlockID{Hash: make([]byte, 32), PartSetHeader: tmproto.PartSetHeader{Total: 10000, Hash: make([]byte, 32)}},
		Round:       1, PartsTotal: 3, PartsHash: h32("part_set"),
	}
}

func tmTime(ns int64) time.Time { return time.Unix(0, ns).UTC() }

// build constructs and signs the header.
func build(p *HP) *tmclient.Header {
	valsHash := p.ValsHash
	if valsHash == nil {
		valsHash = hashOf(p.Vals)
	}
	propAddr := p.ProposerAddr
	if propAddr == nil {
		if len(p.Vals) > 0 {
			propAddr = keyAddr(p.Vals[0].Key)
		} else {
			propAddr = make([]byte, 20)
		}
	}
	ph := &tmproto.Header{
		Version: tmprotoversion.Consensus{Block: p.VersionBlock, App: 2},
		ChainID: p.ChainID, Height: p.Height, Time: tmTime(p.Time), LastBlockId: p.LastBlockID,
		LastCommitHash: p.LastCommit, DataHash: p.DataHash, ValidatorsHash: valsHash, NextValidatorsHash: p.NextValsHash,
		ConsensusHash: p.ConsHash, AppHash: p.AppHash, LastResultsHash: p.LastResHash, EvidenceHash: p.EvidHash,
		ProposerAddress: propAddr,
	}
	blockHash := p.BlockHash
	if blockHash == nil {
		blockHash = headerHash(ph)
	}
	ch := p.Height
	if p.CommitHeight != nil {
		ch = *p.CommitHeight
	}
	bid := tmtypes.BlockID{Hash: blockHash, PartSetHeader: tmtypes.PartSetHeader{Total: p.PartsTotal, Hash: p.PartsHash}}
	pc := &tmproto.Commit{Height: ch, Round: p.Round, BlockID: bid.ToProto()}
	for i, s := range p.Sigs {
		cs := tmproto.CommitSig{BlockIdFlag: tmproto.BlockIDFlag(s.Flag)}
		if s.Flag != 1 {
			addr := s.Addr
			if addr == nil {
				addr = keyAddr(s.Signer)
			}
			ts := tmTime(p.Time + s.TsOff)
			cs.ValidatorAddress = addr
			cs.Timestamp = ts
			vbid := bid
			if s.Flag != 2 {
				vbid = tmtypes.BlockID{}
			}
			chain, vh := p.ChainID, ch
			switch s.Mode {
			case 1:
				chain = p.ChainID + "x"
			case 5:
				vbid = tmtypes.BlockID{Hash: h32("other block"), PartSetHeader: bid.PartSetHeader}
			case 6:
				vh = ch + 1
			}
			vote := &tmtypes.Vote{Type: tmproto.PrecommitType, Height: vh, Round: p.Round, BlockID: vbid,
				Timestamp: ts, ValidatorAddress: addr, ValidatorIndex: int32(i)}
			sig, err := keys[s.Signer].Sign(tmtypes.VoteSignBytes(chain, vote.ToProto()))
			if err != nil {
				panic(err)
			}
			switch s.Mode {
			case 2:
				sig = h32(fmt.Sprint("garbage", i))
				sig = append(sig, sig...)
			case 3:
				sig = nil
			case 4:
				sig = append(sig, 0)
			}
			cs.Signature = sig
		} else {
			cs.Timestamp = time.Time{}
		}
		pc.Signatures = append(pc.Signatures, cs)
	}
	out := &tmclient.Header{TrustedHeight: p.TrustedHeight}
	if !p.NilSigned {
		out.SignedHeader = &tmproto.SignedHeader{}
		if !p.NilHeader {
			out.SignedHeader.Header = ph
		}
		if !p.NilCommit {
			out.SignedHeader.Commit = pc
		}
	}
	if !p.NilValset {
		out.ValidatorSet = valsetProto(p.Vals, p.Proposer)
	}
	if !p.NilTrusted {
		out.TrustedValidators = valsetProto(p.TrustedVals, p.TrustedProp)
	}
	return out
}
