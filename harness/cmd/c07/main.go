// c07: drives the REAL Tendermint light client of x/xibc
// (ClientState.CheckHeaderAndUpdateState, ClientKeeper.UpdateClient,
// Header.ValidateBasic, ClientState.VerifyPacketCommitment/Acknowledgement) on a
// real client store over generated update histories and records, per step, the
// projected observables: result class, returned client/consensus state, sorted
// raw dump of the client store, plus the oracle tables (real ValidatorSet.Hash,
// Header.Hash, per (key, vote) signature verdicts, Merkle proof verdicts) the
// Coq model is evaluated with.
package main

import (
	"encoding/json"
	"flag"
	"fmt"
	"math/big"
	"os"
	"time"

	"github.com/cosmos/cosmos-sdk/codec"
	sdk "github.com/cosmos/cosmos-sdk/types"
	"github.com/tendermint/tendermint/crypto"
	ce "github.com/tendermint/tendermint/crypto/encoding"
	tmcrypto "github.com/tendermint/tendermint/proto/tendermint/crypto"
	tmproto "github.com/tendermint/tendermint/proto/tendermint/types"
	tmtypes "github.com/tendermint/tendermint/types"

	"github.com/teleport-network/teleport/app"
	tmclient "github.com/teleport-network/teleport/x/xibc/clients/light-clients/tendermint/types"
	clienttypes "github.com/teleport-network/teleport/x/xibc/core/client/types"
	commitmenttypes "github.com/teleport-network/teleport/x/xibc/core/commitment/types"
	"github.com/teleport-network/teleport/x/xibc/core/host"
	"github.com/teleport-network/teleport/x/xibc/exported"

	"verifharness/hlib"
)

const clientName = "tmc07"

// ---------------------------------------------------------------------------
// spec (input) types
// ---------------------------------------------------------------------------

type HeightJ struct {
	Rev uint64 `json:"rev"`
	H   uint64 `json:"h"`
}

func (h HeightJ) height() clienttypes.Height { return clienttypes.NewHeight(h.Rev, h.H) }
func hj(h exported.Height) HeightJ {
	return HeightJ{h.GetRevisionNumber(), h.GetRevisionHeight()}
}

type ClientSpec struct {
	ChainID   string  `json:"chain_id"`
	TLNum     uint64  `json:"tl_num"`
	TLDen     uint64  `json:"tl_den"`
	Trusting  int64   `json:"trusting"`
	Unbonding int64   `json:"unbonding"`
	Drift     int64   `json:"drift"`
	Latest    HeightJ `json:"latest"`
	Delay     uint64  `json:"delay"`
	ConsTime  int64   `json:"cons_time"`
	ConsRoot  string  `json:"cons_root"`
	ConsNVH   string  `json:"cons_nvh"`
	CreateNow int64   `json:"create_now"`
	// entries written into the client store right after CreateClient (stores that no update history of the unchanged code
	// produces: the gates of the Verify* functions and of the pruning step must hold for every store)
	Inject []InjectJ `json:"inject,omitempty"`
}

// InjectJ: one height's worth of directly written entries.
type InjectJ struct {
	Height HeightJ `json:"height"`
	Cons   bool    `json:"cons"` // consensus state (ConsTime, ConsRoot, ConsNVH)
	Time   int64   `json:"time,omitempty"`
	Root   string  `json:"root,omitempty"`
	NVH    string  `json:"nvh,omitempty"`
	PT     string  `json:"pt,omitempty"` // raw value of the processed-time key (hex); empty: not written
	Iter   bool    `json:"iter"`         // iteration key
}

type Step struct {
	Kind   string `json:"kind"` // "update" | "verify"
	Now    int64  `json:"now"`
	Header string `json:"header,omitempty"` // hex of the proto-encoded Header
	Desc   string `json:"desc,omitempty"`
	// verify
	VHeight HeightJ `json:"vheight"`
	Proof   int     `json:"proof"` // index into the proof fixtures; -1 = nil proof
	Ack     bool    `json:"ack"`
	Seq     uint64  `json:"seq"`
	Value   string  `json:"value"` // hex
}

type Spec struct {
	ID     int        `json:"id"`
	Client ClientSpec `json:"client"`
	Steps  []Step     `json:"steps"`
}

// ---------------------------------------------------------------------------
// projected observables
// ---------------------------------------------------------------------------

type JPK struct {
	T int    `json:"t"`
	B string `json:"b"`
}
type JVal struct {
	Addr  string `json:"addr"`
	PK    *JPK   `json:"pk"`
	Power int64  `json:"power"`
}
type JValSet struct {
	Vals     []JVal `json:"vals"`
	Proposer *JVal  `json:"proposer"`
}
type JBlockID struct {
	Hash  string `json:"hash"`
	Total uint32 `json:"total"`
	PHash string `json:"phash"`
}
type JHeader struct {
	VB       uint64   `json:"vb"`
	VA       uint64   `json:"va"`
	Chain    string   `json:"chain"` // hex
	Height   int64    `json:"height"`
	Time     string   `json:"time"`
	Last     JBlockID `json:"last"`
	LastCom  string   `json:"last_commit"`
	Data     string   `json:"data"`
	Vals     string   `json:"vals"`
	NextVals string   `json:"next_vals"`
	Cons     string   `json:"cons"`
	App      string   `json:"app"`
	LastRes  string   `json:"last_res"`
	Evid     string   `json:"evid"`
	Proposer string   `json:"proposer"`
}
type JSig struct {
	Flag int    `json:"flag"`
	Addr string `json:"addr"`
	Time string `json:"time"`
	Sig  string `json:"sig"`
}
type JCommit struct {
	Height int64    `json:"height"`
	Round  int32    `json:"round"`
	Block  JBlockID `json:"block"`
	Sigs   []JSig   `json:"sigs"`
}
type JSigned struct {
	Header *JHeader `json:"header"`
	Commit *JCommit `json:"commit"`
}
type JHdr struct {
	Signed *JSigned `json:"signed"`
	ValSet *JValSet `json:"valset"`
	TH     HeightJ  `json:"th"`
	TVals  *JValSet `json:"tvals"`
}
type JSigOk struct {
	T   int    `json:"t"`
	PK  string `json:"pk"`
	Idx int    `json:"idx"`
	Ok  bool   `json:"ok"`
}
type JOracle struct {
	HeaderHash string   `json:"header_hash"`
	ValsHash   *string  `json:"vals_hash"`
	TValsHash  *string  `json:"tvals_hash"`
	Sigs       []JSigOk `json:"sigs"`
}

type JClient struct {
	ChainID   string  `json:"chain_id"` // hex
	TLNum     uint64  `json:"tl_num"`
	TLDen     uint64  `json:"tl_den"`
	Trusting  int64   `json:"trusting"`
	Unbonding int64   `json:"unbonding"`
	Drift     int64   `json:"drift"`
	Latest    HeightJ `json:"latest"`
	Delay     uint64  `json:"delay"`
	Rest      string  `json:"rest"`
}
type JCons struct {
	Time string `json:"time"`
	Root string `json:"root"`
	NVH  string `json:"nvh"`
}
type JEntry struct {
	Key    string   `json:"k"`
	Client *JClient `json:"client,omitempty"`
	Cons   *JCons   `json:"cons,omitempty"`
	Bytes  *string  `json:"bytes,omitempty"`
}

type StepObs struct {
	Kind string `json:"kind"`
	// update
	Hdr         *JHdr    `json:"hdr,omitempty"`
	Oracle      *JOracle `json:"oracle,omitempty"`
	VBClass     int      `json:"vb_class"`
	ChusClass   int      `json:"chus_class"`
	ChusClient  *JClient `json:"chus_client,omitempty"`
	ChusCons    *JCons   `json:"chus_cons,omitempty"`
	ChusStore   []JEntry `json:"chus_store,omitempty"`
	KeeperClass int      `json:"keeper_class"`
	// verify
	VClass   int    `json:"v_class"`
	Decodes  bool   `json:"decodes"`
	Member   bool   `json:"member"`
	ProofNil bool   `json:"proof_nil"`
	ProofHex string `json:"proof_hex,omitempty"`
	// both: the client store after the step (after a rejected keeper update: the store the failed call left behind)
	Store []JEntry `json:"store"`
	Panic string   `json:"panic,omitempty"`
	Err   string   `json:"err,omitempty"` // debugging aid only, never compared
}

type Result struct {
	Spec        Spec      `json:"spec"`
	ClientValid int       `json:"client_valid"` // result class of ClientState.Validate on the initial client state
	InitStore   []JEntry  `json:"init_store"`
	Obs         []StepObs `json:"obs"`
}

// ---------------------------------------------------------------------------
// helpers
// ---------------------------------------------------------------------------

func tns(t time.Time) string {
	x := new(big.Int).Mul(big.NewInt(t.Unix()), big.NewInt(1000000000))
	x.Add(x, big.NewInt(int64(t.Nanosecond())))
	return x.String()
}

func hx(b []byte) string { return hlib.Hex(b) }

var lastErr string

func classify(f func() error) (int, string) {
	var err error
	lastErr = ""
	p, val := hlib.Catch(func() { err = f() })
	if p {
		return 2, val
	}
	if err != nil {
		lastErr = err.Error()
		if len(lastErr) > 160 {
			lastErr = lastErr[len(lastErr)-160:]
		}
		return 1, ""
	}
	return 0, ""
}

func pkProj(k tmcrypto.PublicKey) *JPK {
	switch s := k.Sum.(type) {
	case *tmcrypto.PublicKey_Ed25519:
		return &JPK{0, hx(s.Ed25519)}
	case *tmcrypto.PublicKey_Secp256K1:
		return &JPK{1, hx(s.Secp256K1)}
	}
	return nil
}

func valProj(v *tmproto.Validator) JVal {
	return JVal{Addr: hx(v.Address), PK: pkProj(v.PubKey), Power: v.VotingPower}
}

func valsetProj(vs *tmproto.ValidatorSet) *JValSet {
	if vs == nil {
		return nil
	}
	out := &JValSet{Vals: []JVal{}}
	for _, v := range vs.Validators {
		if v == nil {
			panic("nil validator entries are not generated")
		}
		out.Vals = append(out.Vals, valProj(v))
	}
	if vs.Proposer != nil {
		p := valProj(vs.Proposer)
		out.Proposer = &p
	}
	return out
}

func bidProj(b tmproto.BlockID) JBlockID {
	return JBlockID{hx(b.Hash), b.PartSetHeader.Total, hx(b.PartSetHeader.Hash)}
}

func headerProj(h *tmclient.Header) *JHdr {
	out := &JHdr{TH: hj(h.TrustedHeight), ValSet: valsetProj(h.ValidatorSet), TVals: valsetProj(h.TrustedValidators)}
	if h.SignedHeader != nil {
		out.Signed = &JSigned{}
		if ph := h.SignedHeader.Header; ph != nil {
			out.Signed.Header = &JHeader{VB: ph.Version.Block, VA: ph.Version.App, Chain: hx([]byte(ph.ChainID)), Height: ph.Height,
				Time: tns(ph.Time), Last: bidProj(ph.LastBlockId), LastCom: hx(ph.LastCommitHash), Data: hx(ph.DataHash),
				Vals: hx(ph.ValidatorsHash), NextVals: hx(ph.NextValidatorsHash), Cons: hx(ph.ConsensusHash), App: hx(ph.AppHash),
				LastRes: hx(ph.LastResultsHash), Evid: hx(ph.EvidenceHash), Proposer: hx(ph.ProposerAddress)}
		}
		if c := h.SignedHeader.Commit; c != nil {
			jc := &JCommit{Height: c.Height, Round: c.Round, Block: bidProj(c.BlockID), Sigs: []JSig{}}
			for _, s := range c.Signatures {
				jc.Sigs = append(jc.Sigs, JSig{int(s.BlockIdFlag), hx(s.ValidatorAddress), tns(s.Timestamp), hx(s.Signature)})
			}
			out.Signed.Commit = jc
		}
	}
	return out
}

// valsetHash: the real ValidatorSet.Hash over the validators as converted by the real PubKeyFromProto
// (no validation: the hash only covers keys and powers).
func valsetHash(vs *tmproto.ValidatorSet) ([]byte, bool) {
	if vs == nil {
		return nil, false
	}
	set := &tmtypes.ValidatorSet{}
	for _, v := range vs.Validators {
		pk, err := ce.PubKeyFromProto(v.PubKey)
		if err != nil {
			return nil, false
		}
		set.Validators = append(set.Validators, &tmtypes.Validator{Address: v.Address, PubKey: pk, VotingPower: v.VotingPower})
	}
	return set.Hash(), true
}

// headerHash: the real tendermint Header.Hash of the proto header (fields copied as HeaderFromProto does).
func headerHash(ph *tmproto.Header) []byte {
	h := tmtypes.Header{Version: ph.Version, ChainID: ph.ChainID, Height: ph.Height, Time: ph.Time,
		LastBlockID: tmtypes.BlockID{Hash: ph.LastBlockId.Hash, PartSetHeader: tmtypes.PartSetHeader{
			Total: ph.LastBlockId.PartSetHeader.Total, Hash: ph.LastBlockId.PartSetHeader.Hash}},
		LastCommitHash: ph.LastCommitHash, DataHash: ph.DataHash, ValidatorsHash: ph.ValidatorsHash,
		NextValidatorsHash: ph.NextValidatorsHash, ConsensusHash: ph.ConsensusHash, AppHash: ph.AppHash,
		LastResultsHash: ph.LastResultsHash, EvidenceHash: ph.EvidenceHash, ProposerAddress: ph.ProposerAddress}
	return h.Hash()
}

// oracleTables evaluates the real hash / signature functions on everything occurring in the header.
func oracleTables(h *tmclient.Header) *JOracle {
	o := &JOracle{Sigs: []JSigOk{}}
	if hh, ok := valsetHash(h.ValidatorSet); ok {
		s := hx(hh)
		o.ValsHash = &s
	}
	if hh, ok := valsetHash(h.TrustedValidators); ok {
		s := hx(hh)
		o.TValsHash = &s
	}
	if h.SignedHeader == nil {
		return o
	}
	var chain string
	if ph := h.SignedHeader.Header; ph != nil {
		o.HeaderHash = hx(headerHash(ph))
		chain = ph.ChainID
	}
	pc := h.SignedHeader.Commit
	if pc == nil || h.SignedHeader.Header == nil {
		return o
	}
	// commit as CommitFromProto builds it (without validation)
	commit := &tmtypes.Commit{Height: pc.Height, Round: pc.Round,
		BlockID: tmtypes.BlockID{Hash: pc.BlockID.Hash, PartSetHeader: tmtypes.PartSetHeader{
			Total: pc.BlockID.PartSetHeader.Total, Hash: pc.BlockID.PartSetHeader.Hash}}}
	for _, s := range pc.Signatures {
		commit.Signatures = append(commit.Signatures, tmtypes.CommitSig{BlockIDFlag: tmtypes.BlockIDFlag(s.BlockIdFlag),
			ValidatorAddress: s.ValidatorAddress, Timestamp: s.Timestamp, Signature: s.Signature})
	}
	type kk struct {
		t int
		b string
	}
	seen := map[kk]crypto.PubKey{}
	var order []kk
	for _, vs := range []*tmproto.ValidatorSet{h.ValidatorSet, h.TrustedValidators} {
		if vs == nil {
			continue
		}
		for _, v := range vs.Validators {
			pk, err := ce.PubKeyFromProto(v.PubKey)
			if err != nil {
				continue
			}
			j := pkProj(v.PubKey)
			k := kk{j.T, j.B}
			if _, ok := seen[k]; !ok {
				seen[k] = pk
				order = append(order, k)
			}
		}
	}
	for i, s := range commit.Signatures {
		if !s.ForBlock() {
			continue
		}
		var sb []byte
		if p, _ := hlib.Catch(func() { sb = commit.VoteSignBytes(chain, int32(i)) }); p {
			continue
		}
		for _, k := range order {
			o.Sigs = append(o.Sigs, JSigOk{k.t, k.b, i, seen[k].VerifySignature(sb, s.Signature)})
		}
	}
	return o
}

// ---------------------------------------------------------------------------
// store dump
// ---------------------------------------------------------------------------

func clientProj(cdc codec.BinaryCodec, cs *tmclient.ClientState) *JClient {
	rest := &tmclient.ClientState{ProofSpecs: cs.ProofSpecs, MerklePrefix: cs.MerklePrefix}
	bz, err := cdc.Marshal(rest)
	if err != nil {
		panic(err)
	}
	sum := h32(string(bz))
	return &JClient{ChainID: hx([]byte(cs.ChainId)), TLNum: cs.TrustLevel.Numerator, TLDen: cs.TrustLevel.Denominator,
		Trusting: int64(cs.TrustingPeriod), Unbonding: int64(cs.UnbondingPeriod), Drift: int64(cs.MaxClockDrift),
		Latest: hj(cs.LatestHeight), Delay: cs.TimeDelay, Rest: hx(sum[:8])}
}

func consProj(c *tmclient.ConsensusState) *JCons {
	return &JCons{tns(c.Timestamp), hx(c.Root), hx(c.NextValidatorsHash)}
}

func dump(cdc codec.BinaryCodec, store sdk.KVStore) []JEntry {
	out := []JEntry{}
	it := store.Iterator(nil, nil)
	defer it.Close()
	for ; it.Valid(); it.Next() {
		k, v := it.Key(), it.Value()
		e := JEntry{Key: hx(k)}
		consPrefix := host.KeyConsensusStatePrefix + "/"
		switch {
		case string(k) == host.KeyClientState:
			if csI, err := clienttypes.UnmarshalClientState(cdc, v); err == nil {
				if cs, ok := csI.(*tmclient.ClientState); ok {
					e.Client = clientProj(cdc, cs)
				}
			}
		case len(k) == len(consPrefix)+16 && string(k[:len(consPrefix)]) == consPrefix:
			if cI, err := clienttypes.UnmarshalConsensusState(cdc, v); err == nil {
				if c, ok := cI.(*tmclient.ConsensusState); ok {
					e.Cons = consProj(c)
				}
			}
		}
		if e.Client == nil && e.Cons == nil {
			s := hx(v)
			e.Bytes = &s
		}
		out = append(out, e)
	}
	return out
}

// ---------------------------------------------------------------------------
// running a spec on the real code
// ---------------------------------------------------------------------------

type env struct {
	app  *app.Teleport
	base sdk.Context
	cdc  codec.BinaryCodec
	fx   *fixtures
}

func (e *env) ctxAt(ctx sdk.Context, now int64, n int) sdk.Context {
	return ctx.WithBlockHeader(tmproto.Header{Height: int64(10 + n), ChainID: "teleport_9000-1", Time: tmTime(now)})
}

func (s ClientSpec) states() (*tmclient.ClientState, *tmclient.ConsensusState) {
	cs := tmclient.NewClientState(s.ChainID, tmclient.Fraction{Numerator: s.TLNum, Denominator: s.TLDen},
		time.Duration(s.Trusting), time.Duration(s.Unbonding), time.Duration(s.Drift), s.Latest.height(),
		commitmenttypes.GetSDKSpecs(), commitmenttypes.NewMerklePrefix([]byte(fixtureStore)), s.Delay)
	cons := tmclient.NewConsensusState(tmTime(s.ConsTime), hlib.UnHex(s.ConsRoot), hlib.UnHex(s.ConsNVH))
	return cs, cons
}

// run holds the state of one history being executed.
type run struct {
	e   *env
	ctx sdk.Context // the history's own branch of the application state
	res Result
}

func (e *env) start(spec Spec) *run {
	ctx, _ := e.base.CacheContext()
	r := &run{e: e, ctx: ctx, res: Result{Spec: Spec{ID: spec.ID, Client: spec.Client}}}
	cs, cons := spec.Client.states()
	r.res.ClientValid, _ = classify(func() error { return cs.Validate() })
	k := e.app.XIBCKeeper.ClientKeeper
	if err := k.CreateClient(e.ctxAt(r.ctx, spec.Client.CreateNow, 0), clientName, cs, cons); err != nil {
		panic(err)
	}
	for _, in := range spec.Client.Inject {
		store := k.ClientStore(r.ctx, clientName)
		h := in.Height.height()
		if in.Cons {
			k.SetClientConsensusState(r.ctx, clientName, h, tmclient.NewConsensusState(tmTime(in.Time), hlib.UnHex(in.Root), hlib.UnHex(in.NVH)))
		}
		if in.PT != "" {
			store.Set(tmclient.ProcessedTimeKey(h), hlib.UnHex(in.PT))
		}
		if in.Iter {
			tmclient.SetIterationKey(store, h)
		}
	}
	r.res.InitStore = dump(e.cdc, k.ClientStore(r.ctx, clientName))
	return r
}

func (r *run) store() sdk.KVStore {
	return r.e.app.XIBCKeeper.ClientKeeper.ClientStore(r.ctx, clientName)
}

func (r *run) clientState() *tmclient.ClientState {
	csI, ok := r.e.app.XIBCKeeper.ClientKeeper.GetClientState(r.ctx, clientName)
	if !ok {
		panic("client state missing")
	}
	return csI.(*tmclient.ClientState)
}

func (r *run) step(st Step) StepObs {
	e := r.e
	k := e.app.XIBCKeeper.ClientKeeper
	n := len(r.res.Obs) + 1
	o := StepObs{Kind: st.Kind}
	switch st.Kind {
	case "update":
		var hdr tmclient.Header
		if err := e.cdc.Unmarshal(hlib.UnHex(st.Header), &hdr); err != nil {
			panic(fmt.Sprint("spec header does not decode: ", err))
		}
		o.Hdr = headerProj(&hdr)
		o.Oracle = oracleTables(&hdr)
		o.VBClass, _ = classify(func() error { return hdr.ValidateBasic() })
		// (1) CheckHeaderAndUpdateState directly, on a branch that is thrown away
		{
			bctx, _ := r.ctx.CacheContext()
			bctx = e.ctxAt(bctx, st.Now, n)
			bstore := k.ClientStore(bctx, clientName)
			var ncs exported.ClientState
			var ncons exported.ConsensusState
			h2 := hdr // the call must not see state of the other call
			o.ChusClass, o.Panic = classify(func() error {
				var err error
				ncs, ncons, err = r.clientState().CheckHeaderAndUpdateState(bctx, e.cdc, bstore, &h2)
				return err
			})
			if o.ChusClass == 0 {
				o.ChusClient = clientProj(e.cdc, ncs.(*tmclient.ClientState))
				o.ChusCons = consProj(ncons.(*tmclient.ConsensusState))
			}
			o.ChusStore = dump(e.cdc, bstore)
		}
		// (2) ClientKeeper.UpdateClient; a failing message is rolled back as BaseApp.runMsgs does
		{
			bctx, write := r.ctx.CacheContext()
			bctx = e.ctxAt(bctx, st.Now, n)
			h2 := hdr
			var pv string
			o.KeeperClass, pv = classify(func() error { return k.UpdateClient(bctx, clientName, &h2) })
			o.Err = lastErr
			if pv != "" {
				o.Panic = pv
			}
			o.Store = dump(e.cdc, k.ClientStore(bctx, clientName))
			if o.KeeperClass == 0 {
				write()
			}
		}
	case "verify":
		ctx := e.ctxAt(r.ctx, st.Now, n)
		store := k.ClientStore(ctx, clientName)
		cs := r.clientState()
		var proof []byte
		if st.Proof >= 0 {
			proof = e.fx.proofs[st.Proof]
		}
		o.ProofNil = proof == nil
		o.ProofHex = hx(h32(string(proof))[:6])
		value := hlib.UnHex(st.Value)
		o.VClass, o.Panic = classify(func() error {
			if st.Ack {
				return cs.VerifyPacketAcknowledgement(ctx, store, e.cdc, st.VHeight.height(), proof, fxSrc, fxDst, st.Seq, value)
			}
			return cs.VerifyPacketCommitment(ctx, store, e.cdc, st.VHeight.height(), proof, fxSrc, fxDst, st.Seq, value)
		})
		o.Err = lastErr
		// oracle verdicts: the real proto decoding and the real ICS-23 verification against the root stored at that height
		var mp commitmenttypes.MerkleProof
		if proof != nil {
			o.Decodes = e.cdc.Unmarshal(proof, &mp) == nil
		}
		if o.Decodes {
			if cons, err := tmclient.GetConsensusState(store, e.cdc, st.VHeight.height()); err == nil {
				pathStr := host.PacketCommitmentPath(fxSrc, fxDst, st.Seq)
				if st.Ack {
					pathStr = host.PacketAcknowledgementPath(fxSrc, fxDst, st.Seq)
				}
				if path, err := commitmenttypes.ApplyPrefix(cs.GetPrefix(), commitmenttypes.NewMerklePath(pathStr)); err == nil {
					o.Member = mp.VerifyMembership(cs.ProofSpecs, cons.GetRoot(), path, value) == nil
				}
			}
		}
		o.Store = dump(e.cdc, store)
	default:
		panic("unknown step kind " + st.Kind)
	}
	r.res.Spec.Steps = append(r.res.Spec.Steps, st)
	r.res.Obs = append(r.res.Obs, o)
	return o
}

func main() {
	seed := flag.Uint64("seed", 1, "PRNG seed")
	n := flag.Int("n", 50, "number of generated histories")
	steps := flag.Int("steps", 8, "max steps per history")
	in := flag.String("in", "", "replay: file of specs (JSON lines) instead of generating")
	out := flag.String("out", "/dev/stdout", "output file (JSON lines)")
	withCorpus := flag.Bool("corpus", true, "run the fixed corpus histories before the generated ones")
	sweepN := flag.Int("sweep", 0, "exhaustive threshold sweep over power vectors in {1,2,3}^n, n <= this (0: none)")
	flag.Parse()

	a := app.Setup(false, nil)
	e := &env{app: a, cdc: a.AppCodec(), fx: makeFixtures(a.AppCodec())}
	e.base = a.BaseApp.NewContext(false, tmproto.Header{Height: 1, ChainID: "teleport_9000-1", Time: tmTime(baseTime)})

	w := hlib.NewOut(*out)
	defer w.Close()
	if *in != "" {
		hlib.ReadLines(*in, func(line []byte) {
			var wrap struct {
				Spec *Spec `json:"spec"`
			}
			var s Spec
			if err := json.Unmarshal(line, &wrap); err == nil && wrap.Spec != nil {
				s = *wrap.Spec
			} else if err := json.Unmarshal(line, &s); err != nil {
				panic(err)
			}
			r := e.start(s)
			for _, st := range s.Steps {
				r.step(st)
			}
			w.Emit(r.res)
		})
		return
	}
	if *withCorpus {
		for _, r := range corpus(e) {
			w.Emit(r)
		}
	}
	if *sweepN > 0 {
		for _, r := range sweep(e, *sweepN) {
			w.Emit(r)
		}
	}
	root := hlib.NewRand(*seed)
	for i := 0; i < *n; i++ {
		w.Emit(genHistory(e, root.Fork(uint64(i)), i, *steps))
	}
	_ = os.Stdout
}
