package main

// Fixed histories that run first on every check, independent of the seed:
// witnesses of repaired findings and boundary scenarios a random run might miss.

import (
	tmclient "github.com/teleport-network/teleport/x/xibc/clients/light-clients/tendermint/types"
	clienttypes "github.com/teleport-network/teleport/x/xibc/core/client/types"
)

type scen struct {
	e    *env
	run  *run
	t0   int64
	h0   int64
	desc string
}

func (e *env) scenario(id int, desc string, chain string, latest uint64, lv level, trusting, drift int64, delay uint64, next []ValP) *scen {
	t0 := baseTime + 1000*sec
	spec := Spec{ID: id, Client: ClientSpec{ChainID: chain, TLNum: lv.num, TLDen: lv.den, Trusting: trusting, Unbonding: 2 * trusting,
		Drift: drift, Latest: HeightJ{clienttypes.ParseChainID(chain), latest}, Delay: delay, ConsTime: t0, ConsRoot: hx(e.fx.root),
		ConsNVH: hx(hashOf(next)), CreateNow: t0 + 10*sec}}
	return &scen{e: e, run: e.start(spec), t0: t0, h0: int64(latest), desc: desc}
}

// update: header for height h with time t (ns offsets from t0), own set vals (all sign unless listed in absent), trusted
// height th with trusted set tvals, at clock now.
func (s *scen) update(name string, chain string, h int64, t int64, vals, next, tvals []ValP, th clienttypes.Height, now int64, absent ...int) {
	p := defaultHP(chain, h, s.t0+t, vals)
	p.NextValsHash = hashOf(next)
	p.AppHash = s.e.fx.root
	p.TrustedHeight = th
	p.TrustedVals = tvals
	for i, v := range vals {
		sg := SigP{Flag: 2, Signer: v.Key, TsOff: int64(i)}
		for _, a := range absent {
			if a == i {
				sg.Flag = 1
			}
		}
		p.Sigs = append(p.Sigs, sg)
	}
	hdr := build(p)
	bz, err := s.e.cdc.Marshal(hdr)
	if err != nil {
		panic(err)
	}
	s.run.step(Step{Kind: "update", Now: s.t0 + now, Header: hx(bz), Desc: "corpus:" + s.desc + ":" + name})
}

func (s *scen) verify(name string, h clienttypes.Height, now int64) {
	s.run.step(Step{Kind: "verify", Now: s.t0 + now, VHeight: hj(h), Proof: 0, Seq: fxSeq, Value: hx(s.e.fx.commit),
		Desc: "corpus:" + s.desc + ":" + name})
}

func vset(powers ...int64) []ValP {
	var out []ValP
	for i, p := range powers {
		if p >= 0 {
			out = append(out, ValP{Key: i, Power: p})
		}
	}
	return out
}

func corpus(e *env) []Result {
	var out []Result
	hh := func(rev, h uint64) clienttypes.Height { return clienttypes.NewHeight(rev, h) }
	one := vset(1)
	third := level{1, 3}

	// A. tm-delay-overflow (repaired by ea14df6): TimeDelay so large that processedTime + TimeDelay wraps to +1s
	{
		create := uint64(baseTime + 1010*sec)
		s := e.scenario(100000, "delay-overflow-witness", "testchain", 5, third, 600*sec, 10*sec, ^uint64(0)-create+1+uint64(sec), one)
		s.verify("verify-5s-after-processing", hh(0, 5), 15*sec)
		s.verify("verify-much-later", hh(0, 5), 500*sec)
		out = append(out, s.run.res)
	}
	// B. only the Status gate of the keeper stands between an expired latest state and a header that light.Verify accepts:
	//    a back-filled header carries a LATER time than the latest one
	{
		s := e.scenario(100001, "expired-latest-fresh-backfill", "testchain", 10, third, 300*sec, 10*sec, 0, one)
		s.update("skip-to-20", "testchain", 20, 50*sec, one, one, one, hh(0, 10), 60*sec)
		s.update("backfill-15-with-later-time", "testchain", 15, 200*sec, one, one, one, hh(0, 10), 195*sec)
		s.update("latest-expired-exactly", "testchain", 16, 201*sec, one, one, one, hh(0, 15), 350*sec)
		s.update("latest-one-ns-before-expiry", "testchain", 16, 201*sec, one, one, one, hh(0, 15), 350*sec-1)
		out = append(out, s.run.res)
	}
	// C. trusted height >= 2^63: int64(trusted height) is negative inside light.Verify; only the LTE test of checkValidity
	//    keeps an OLDER header out
	{
		s := e.scenario(100002, "trusted-height-above-int64", "testchain", 1<<63+5, third, 600*sec, 10*sec, 0, one)
		s.update("older-header", "testchain", 7, 20*sec, one, one, one, hh(0, 1<<63+5), 30*sec)
		out = append(out, s.run.res)
	}
	// D. pruning: the earliest consensus state is deleted (with its metadata) exactly when expired; heights cross a byte boundary
	{
		s := e.scenario(100003, "prune-earliest-expired", "gaia-2", 254, third, 300*sec, 10*sec, 0, one)
		s.update("255", "gaia-2", 255, 5*sec, one, one, one, hh(2, 254), 20*sec)
		s.update("257", "gaia-2", 257, 15*sec, one, one, one, hh(2, 255), 30*sec)
		s.update("256-not-yet-expired", "gaia-2", 256, 10*sec, one, one, one, hh(2, 255), 300*sec-1)
		s.update("258-prunes-254", "gaia-2", 258, 20*sec, one, one, one, hh(2, 257), 300*sec)
		s.verify("pruned-height", hh(2, 254), 301*sec)
		s.update("259-prunes-255", "gaia-2", 259, 25*sec, one, one, one, hh(2, 258), 305*sec)
		s.update("260-nothing-to-prune", "gaia-2", 260, 30*sec, one, one, one, hh(2, 259), 306*sec)
		out = append(out, s.run.res)
	}
	// E. thresholds with three equal validators
	{
		three := vset(1, 1, 1)
		s := e.scenario(100004, "thresholds", "testchain", 10, third, 600*sec, 10*sec, 0, three)
		s.update("adjacent-exactly-2/3", "testchain", 11, 5*sec, three, three, three, hh(0, 10), 20*sec, 2)
		newSet := []ValP{{Key: 0, Power: 1}, {Key: 3, Power: 1}, {Key: 4, Power: 1}}
		s.update("skip-exactly-1/3-of-trusted", "testchain", 14, 20*sec, newSet, newSet, three, hh(0, 10), 30*sec)
		newSet2 := []ValP{{Key: 0, Power: 1}, {Key: 1, Power: 1}, {Key: 3, Power: 1}}
		s.update("skip-2/3-of-trusted", "testchain", 14, 20*sec, newSet2, newSet2, three, hh(0, 10), 30*sec)
		s.update("adjacent-all", "testchain", 11, 5*sec, three, three, three, hh(0, 10), 31*sec)
		out = append(out, s.run.res)
	}
	// F. trust level 0x5555555555555555/0xFFFFFFFFFFFFFFFF (= 1/3, passes ValidateTrustLevel): int64(denominator) = -1
	//    (Refuted/C07_refuted.v: C07_trust_level_int64_refuted)
	{
		trusted := []ValP{{Key: 0, Power: 1}, {Key: 1, Power: 0}}
		own := []ValP{{Key: 1, Power: 0}, {Key: 2, Power: 1}}
		s := e.scenario(100005, "trust-level-int64", "testchain", 10, level{0x5555555555555555, 0xFFFFFFFFFFFFFFFF}, 600*sec, 10*sec, 0, trusted)
		s.update("zero-power-trusted-signer-only", "testchain", 14, 20*sec, own, own, trusted, hh(0, 10), 30*sec)
		out = append(out, s.run.res)
	}
	_ = tmclient.DefaultTrustLevel
	return out
}
