package main

// Fixed histories that run first on every check, independent of the seed:
// witnesses of repaired findings and boundary scenarios a random run might miss.

import (
	"encoding/binary"

	tmclient "github.com/teleport-network/teleport/x/xibc/clients/light-clients/tendermint/types"
	clienttypes "github.com/teleport-network/teleport/x/xibc/core/client/types"
)

type scen struct {
	e    *env
	run  *run
	t0   int64
	h0   int64
	desc string
}

func (e *env) scenario(id int, desc string, chain string, latest uint64, lv level, trusting, drift int64, delay uint64, next []ValP, inject ...InjectJ) *scen {
	t0 := baseTime + 1000*sec
	spec := Spec{ID: id, Client: ClientSpec{ChainID: chain, TLNum: lv.num, TLDen: lv.den, Trusting: trusting, Unbonding: 2 * trusting,
		Drift: drift, Latest: HeightJ{clienttypes.ParseChainID(chain), latest}, Delay: delay, ConsTime: t0, ConsRoot: hx(e.fx.root),
		ConsNVH: hx(hashOf(next)), CreateNow: t0 + 10*sec, Inject: inject}}
	return &scen{e: e, run: e.start(spec), t0: t0, h0: int64(latest), desc: desc}
}

// hp: parameters of a header for height h with time t (ns offset from t0), own set vals (all sign unless listed in absent),
// trusted height th with trusted set tvals.
func (s *scen) hp(chain string, h int64, t int64, vals, next, tvals []ValP, th clienttypes.Height, absent ...int) *HP {
	p := defaultHP(chain, h, s.t0+t, vals)
	p.NextValsHash = hashOf(next)
	p.AppHash = s.e.fx.root
	p.TrustedHeight = th
	p.TrustedVals = tvals
	for i, v := range vals {
		sg := SigP{Flag: 2, Signer: v.Key, TsOff: int64(i)}
		for _, a := range absent {
			if a == i {
				sg.Flag = 1
			}
		}
		p.Sigs = append(p.Sigs, sg)
	}
	return p
}

// submit: builds, signs and submits the header at clock now (ns offset from t0).
func (s *scen) submit(name string, now int64, p *HP) {
	hdr := build(p)
	bz, err := s.e.cdc.Marshal(hdr)
	if err != nil {
		panic(err)
	}
	s.run.step(Step{Kind: "update", Now: s.t0 + now, Header: hx(bz), Desc: "corpus:" + s.desc + ":" + name})
}

func (s *scen) update(name string, chain string, h int64, t int64, vals, next, tvals []ValP, th clienttypes.Height, now int64, absent ...int) {
	s.submit(name, now, s.hp(chain, h, t, vals, next, tvals, th, absent...))
}

func (s *scen) verify(name string, h clienttypes.Height, now int64) {
	s.verifyX(name, h, now, false, 0, s.e.fx.commit)
}

// verifyX: proof = index into the proof fixtures (0 commitment, 1 acknowledgement, 2 undecodable, 3 empty, -1 nil)
func (s *scen) verifyX(name string, h clienttypes.Height, now int64, ack bool, proof int, value []byte) {
	s.run.step(Step{Kind: "verify", Now: s.t0 + now, VHeight: hj(h), Ack: ack, Proof: proof, Seq: fxSeq, Value: hx(value),
		Desc: "corpus:" + s.desc + ":" + name})
}

func vset(powers ...int64) []ValP {
	var out []ValP
	for i, p := range powers {
		if p >= 0 {
			out = append(out, ValP{Key: i, Power: p})
		}
	}
	return out
}

func corpus(e *env) []Result {
	var out []Result
	hh := func(rev, h uint64) clienttypes.Height { return clienttypes.NewHeight(rev, h) }
	one := vset(1)
	third := level{1, 3}

	// A. tm-delay-overflow (repaired by ea14df6): TimeDelay so large that processedTime + TimeDelay wraps to +1s
	{
		create := uint64(baseTime + 1010*sec)
		s := e.scenario(100000, "delay-overflow-witness", "testchain", 5, third, 600*sec, 10*sec, ^uint64(0)-create+1+uint64(sec), one)
		s.verify("verify-5s-after-processing", hh(0, 5), 15*sec)
		s.verify("verify-much-later", hh(0, 5), 500*sec)
		out = append(out, s.run.res)
	}
	// B. only the Status gate of the keeper stands between an expired latest state and a header that light.Verify accepts:
	//    a back-filled header carries a LATER time than the latest one
	{
		s := e.scenario(100001, "expired-latest-fresh-backfill", "testchain", 10, third, 300*sec, 10*sec, 0, one)
		s.update("skip-to-20", "testchain", 20, 50*sec, one, one, one, hh(0, 10), 60*sec)
		s.update("backfill-15-with-later-time", "testchain", 15, 200*sec, one, one, one, hh(0, 10), 195*sec)
		s.update("latest-expired-exactly", "testchain", 16, 201*sec, one, one, one, hh(0, 15), 350*sec)
		s.update("latest-one-ns-before-expiry", "testchain", 16, 201*sec, one, one, one, hh(0, 15), 350*sec-1)
		out = append(out, s.run.res)
	}
	// C. trusted height >= 2^63: int64(trusted height) is negative inside light.Verify; only the LTE test of checkValidity
	//    keeps an OLDER header out
	{
		s := e.scenario(100002, "trusted-height-above-int64", "testchain", 1<<63+5, third, 600*sec, 10*sec, 0, one)
		s.update("older-header", "testchain", 7, 20*sec, one, one, one, hh(0, 1<<63+5), 30*sec)
		out = append(out, s.run.res)
	}
	// D. pruning: the earliest consensus state is deleted (with its metadata) exactly when expired; heights cross a byte boundary
	{
		s := e.scenario(100003, "prune-earliest-expired", "gaia-2", 254, third, 300*sec, 10*sec, 0, one)
		s.update("255", "gaia-2", 255, 5*sec, one, one, one, hh(2, 254), 20*sec)
		s.update("257", "gaia-2", 257, 15*sec, one, one, one, hh(2, 255), 30*sec)
		s.update("256-not-yet-expired", "gaia-2", 256, 10*sec, one, one, one, hh(2, 255), 300*sec-1)
		s.update("258-prunes-254", "gaia-2", 258, 20*sec, one, one, one, hh(2, 257), 300*sec)
		s.verify("pruned-height", hh(2, 254), 301*sec)
		s.update("259-prunes-255", "gaia-2", 259, 25*sec, one, one, one, hh(2, 258), 305*sec)
		s.update("260-nothing-to-prune", "gaia-2", 260, 30*sec, one, one, one, hh(2, 259), 306*sec)
		out = append(out, s.run.res)
	}
	// E. thresholds with three equal validators
	{
		three := vset(1, 1, 1)
		s := e.scenario(100004, "thresholds", "testchain", 10, third, 600*sec, 10*sec, 0, three)
		s.update("adjacent-exactly-2/3", "testchain", 11, 5*sec, three, three, three, hh(0, 10), 20*sec, 2)
		newSet := []ValP{{Key: 0, Power: 1}, {Key: 3, Power: 1}, {Key: 4, Power: 1}}
		s.update("skip-exactly-1/3-of-trusted", "testchain", 14, 20*sec, newSet, newSet, three, hh(0, 10), 30*sec)
		newSet2 := []ValP{{Key: 0, Power: 1}, {Key: 1, Power: 1}, {Key: 3, Power: 1}}
		s.update("skip-2/3-of-trusted", "testchain", 14, 20*sec, newSet2, newSet2, three, hh(0, 10), 30*sec)
		s.update("adjacent-all", "testchain", 11, 5*sec, three, three, three, hh(0, 10), 31*sec)
		out = append(out, s.run.res)
	}
	// E2. a configured trust level other than the default reaches light.Verify: level 2/3, three equal trusted validators,
	//     two of them (exactly 2/3) in the new set => refused; all three => accepted.  Level 1/1: never enough.
	{
		three := vset(1, 1, 1)
		s := e.scenario(100015, "trust-level-two-thirds", "testchain", 10, level{2, 3}, 600*sec, 10*sec, 0, three)
		two := []ValP{{Key: 0, Power: 1}, {Key: 1, Power: 1}, {Key: 3, Power: 1}}
		s.update("skip-exactly-2/3-of-trusted", "testchain", 14, 20*sec, two, two, three, hh(0, 10), 30*sec)
		four := []ValP{{Key: 0, Power: 1}, {Key: 1, Power: 1}, {Key: 2, Power: 1}, {Key: 3, Power: 1}}
		s.update("skip-3/3-of-trusted", "testchain", 14, 20*sec, four, four, three, hh(0, 10), 31*sec)
		out = append(out, s.run.res)
		s = e.scenario(100016, "trust-level-one", "testchain", 10, level{1, 1}, 600*sec, 10*sec, 0, three)
		s.update("skip-all-of-trusted", "testchain", 14, 20*sec, three, three, three, hh(0, 10), 30*sec)
		s.update("adjacent-all", "testchain", 11, 5*sec, three, three, three, hh(0, 10), 31*sec)
		out = append(out, s.run.res)
	}
	// F. trust level 0x5555555555555555/0xFFFFFFFFFFFFFFFF (= 1/3, passes ValidateTrustLevel): int64(denominator) = -1
	//    (Refuted/C07_refuted.v: C07_trust_level_int64_refuted)
	{
		trusted := []ValP{{Key: 0, Power: 1}, {Key: 1, Power: 0}}
		own := []ValP{{Key: 1, Power: 0}, {Key: 2, Power: 1}}
		s := e.scenario(100005, "trust-level-int64", "testchain", 10, level{0x5555555555555555, 0xFFFFFFFFFFFFFFFF}, 600*sec, 10*sec, 0, trusted)
		s.update("zero-power-trusted-signer-only", "testchain", 14, 20*sec, own, own, trusted, hh(0, 10), 30*sec)
		out = append(out, s.run.res)
	}
	// G. revisions: an update stays within the revision of its trusted height.  The headers are well formed and properly
	//    signed for the chain id of ANOTHER revision of the same chain, with a revision height above the trusted one, so
	//    that only the revision comparison of checkValidity stands between them and light.Verify.
	{
		s := e.scenario(100006, "revisions", "gaia-2", 10, third, 600*sec, 10*sec, 0, one)
		s.update("next-revision-skip", "gaia-3", 14, 20*sec, one, one, one, hh(2, 10), 30*sec)
		s.update("next-revision-adjacent", "gaia-3", 11, 20*sec, one, one, one, hh(2, 10), 31*sec)
		s.update("previous-revision-skip", "gaia-1", 14, 20*sec, one, one, one, hh(2, 10), 32*sec)
		s.update("previous-revision-adjacent", "gaia-1", 11, 20*sec, one, one, one, hh(2, 10), 33*sec)
		s.update("far-revision-skip", "gaia-18446744073709551615", 14, 20*sec, one, one, one, hh(2, 10), 34*sec)
		s.update("trusted-height-of-next-revision", "gaia-3", 14, 20*sec, one, one, one, hh(3, 10), 35*sec)
		s.update("trusted-height-of-previous-revision", "gaia-2", 14, 20*sec, one, one, one, hh(1, 10), 36*sec)
		s.update("same-revision-skip", "gaia-2", 14, 20*sec, one, one, one, hh(2, 10), 37*sec)
		s.update("next-revision-after-update", "gaia-3", 16, 25*sec, one, one, one, hh(2, 14), 38*sec)
		s.update("same-revision-adjacent", "gaia-2", 15, 22*sec, one, one, one, hh(2, 14), 39*sec)
		out = append(out, s.run.res)
	}
	// H. a second header accepted for an already stored height replaces time / app hash / next-validators hash AND the
	//    processing time; the delay period is measured from the processing of the header that is stored
	{
		s := e.scenario(100007, "replace-stored-height", "testchain", 10, third, 2000*sec, 10*sec, uint64(60*sec), one)
		s.update("first-12", "testchain", 12, 15*sec, one, one, one, hh(0, 10), 20*sec)
		s.verify("12-one-ns-before-delay", hh(0, 12), 80*sec-1)
		s.verify("12-exactly-at-delay", hh(0, 12), 80*sec)
		s.update("second-12-other-time", "testchain", 12, 16*sec, one, one, one, hh(0, 10), 200*sec)
		s.verify("12-delay-restarted-refused", hh(0, 12), 230*sec)
		s.verify("12-one-ns-before-restarted-delay", hh(0, 12), 260*sec-1)
		s.verify("12-at-restarted-delay", hh(0, 12), 260*sec)
		p := s.hp("testchain", 12, 17*sec, one, one, one, hh(0, 10))
		p.AppHash = h32("another app hash")
		s.submit("third-12-other-app-hash", 300*sec, p)
		s.verify("12-proof-against-replaced-root", hh(0, 12), 400*sec)
		s.submit("third-12-resubmitted", 500*sec, p)
		s.update("replace-latest-14", "testchain", 14, 30*sec, one, one, one, hh(0, 12), 510*sec)
		s.update("replace-latest-14-again", "testchain", 14, 31*sec, one, one, one, hh(0, 12), 520*sec)
		s.update("replace-initial-10-via-older-trusted", "testchain", 12, 18*sec, one, one, one, hh(0, 10), 530*sec)
		out = append(out, s.run.res)
	}
	// I. only checkTrustedHeader stands between the client and a header that brings its own "trusted" validators:
	//    set {5,6} signs a header whose own set and claimed trusted set are both {5,6}
	{
		attackers := []ValP{{Key: 5, Power: 1}, {Key: 6, Power: 1}}
		s := e.scenario(100008, "foreign-trusted-set", "testchain", 10, third, 600*sec, 10*sec, 0, one)
		s.update("skip-own-and-trusted-foreign", "testchain", 14, 20*sec, attackers, attackers, attackers, hh(0, 10), 30*sec)
		s.update("adjacent-own-and-trusted-foreign", "testchain", 11, 20*sec, attackers, attackers, attackers, hh(0, 10), 31*sec)
		// ... the stored next set supplied as trusted set, the header's own set foreign: adjacent => own set must BE the
		// stored next set; skipping => more than the trust level of the trusted set must have signed
		s.update("adjacent-own-foreign", "testchain", 11, 20*sec, attackers, attackers, one, hh(0, 10), 32*sec)
		s.update("skip-own-foreign", "testchain", 14, 20*sec, attackers, attackers, one, hh(0, 10), 33*sec)
		// trusted set = stored next set plus a zero-power member / with another power: other hash
		s.update("skip-trusted-padded", "testchain", 14, 20*sec, one, one, []ValP{{Key: 0, Power: 1}, {Key: 5, Power: 0}}, hh(0, 10), 34*sec)
		s.update("skip-trusted-other-power", "testchain", 14, 20*sec, one, one, vset(2), hh(0, 10), 35*sec)
		s.update("skip-genuine", "testchain", 14, 20*sec, one, attackers, one, hh(0, 10), 36*sec)
		// the set stored at 10 is no longer the one to trust at 14
		s.update("skip-trusted-set-of-older-height", "testchain", 18, 25*sec, one, one, one, hh(0, 14), 40*sec)
		s.update("skip-trusted-set-of-14", "testchain", 18, 25*sec, attackers, attackers, attackers, hh(0, 14), 41*sec)
		out = append(out, s.run.res)
	}
	// K. time boundaries of light.Verify as fed by checkValidity: header time vs trusted time, vs now + drift; trusting
	//    period of a trusted state that is NOT the latest one
	{
		s := e.scenario(100009, "time-boundaries", "testchain", 10, third, 300*sec, 10*sec, 0, one)
		s.update("time-equals-trusted-time", "testchain", 12, 0, one, one, one, hh(0, 10), 20*sec)
		s.update("time-one-ns-after-trusted-time", "testchain", 12, 1, one, one, one, hh(0, 10), 21*sec)
		s.update("time-at-now-plus-drift", "testchain", 16, 60*sec, one, one, one, hh(0, 12), 50*sec)
		s.update("time-one-ns-before-now-plus-drift", "testchain", 16, 60*sec-1, one, one, one, hh(0, 12), 50*sec)
		s.update("backfill-time-before-trusted-time", "testchain", 14, 1, one, one, one, hh(0, 12), 51*sec)
		s.update("trusted-10-one-ns-before-expiry", "testchain", 11, 1, one, one, one, hh(0, 10), 300*sec-1)
		s.update("trusted-10-expired-latest-fresh", "testchain", 11, 2, one, one, one, hh(0, 10), 300*sec)
		s.update("trusted-12-expired-by-one-ns", "testchain", 13, 2, one, one, one, hh(0, 12), 300*sec+1)
		s.update("trusted-16-still-fresh", "testchain", 17, 61*sec, one, one, one, hh(0, 16), 300*sec+1)
		out = append(out, s.run.res)
	}
	// L. the gates of VerifyPacketCommitment/Acknowledgement one by one (client created at +10s, delay 60s)
	{
		s := e.scenario(100010, "verify-gates", "testchain", 10, third, 2000*sec, 10*sec, uint64(60*sec), one)
		s.verifyX("one-ns-before-delay", hh(0, 10), 70*sec-1, false, 0, e.fx.commit)
		s.verifyX("exactly-at-delay", hh(0, 10), 70*sec, false, 0, e.fx.commit)
		s.verifyX("ack-exactly-at-delay", hh(0, 10), 70*sec, true, 1, e.fx.ack)
		s.verifyX("ack-one-ns-before-delay", hh(0, 10), 70*sec-1, true, 1, e.fx.ack)
		s.verifyX("commitment-proof-for-ack", hh(0, 10), 80*sec, true, 0, e.fx.ack)
		s.verifyX("ack-proof-for-commitment", hh(0, 10), 80*sec, false, 1, e.fx.commit)
		s.verifyX("other-value", hh(0, 10), 80*sec, false, 0, e.fx.ack)
		s.verifyX("nil-proof", hh(0, 10), 80*sec, false, -1, e.fx.commit)
		s.verifyX("empty-proof", hh(0, 10), 80*sec, false, 3, e.fx.commit)
		s.verifyX("undecodable-proof", hh(0, 10), 80*sec, false, 2, e.fx.commit)
		s.verifyX("above-latest", hh(0, 11), 80*sec, false, 0, e.fx.commit)
		s.verifyX("next-revision", hh(1, 10), 80*sec, false, 0, e.fx.commit)
		p := s.hp("testchain", 14, 20*sec, one, one, one, hh(0, 10))
		p.AppHash = h32("another app hash")
		s.submit("14-other-app-hash", 90*sec, p)
		s.verifyX("14-root-does-not-match", hh(0, 14), 200*sec, false, 0, e.fx.commit)
		s.verifyX("10-still-honoured", hh(0, 10), 200*sec, false, 0, e.fx.commit)
		s.update("12-backfilled", "testchain", 12, 15*sec, one, one, one, hh(0, 10), 210*sec)
		s.verifyX("12-before-its-own-delay", hh(0, 12), 270*sec-1, false, 0, e.fx.commit)
		s.verifyX("12-after-its-own-delay", hh(0, 12), 270*sec, false, 0, e.fx.commit)
		out = append(out, s.run.res)
	}
	// M. stores that no history of the unchanged code produces (entries written directly after CreateClient): every gate
	//    must hold on its own
	{
		create := uint64(baseTime + 1010*sec)
		pt := hx(sdkUint64(create))
		root, nvh := hx(e.fx.root), hx(hashOf(one))
		t0 := baseTime + 1000*sec
		// consensus states with full metadata ABOVE the latest height (same and next revision)
		s := e.scenario(100011, "state-above-latest", "gaia-2", 10, third, 600*sec, 10*sec, 0, one,
			InjectJ{Height: HeightJ{2, 20}, Cons: true, Time: t0 + 5*sec, Root: root, NVH: nvh, PT: pt, Iter: true},
			InjectJ{Height: HeightJ{3, 5}, Cons: true, Time: t0 + 5*sec, Root: root, NVH: nvh, PT: pt, Iter: true})
		s.verify("latest", hh(2, 10), 20*sec)
		s.verify("above-latest-same-revision", hh(2, 20), 20*sec)
		s.verify("above-latest-next-revision", hh(3, 5), 20*sec)
		s.update("trusted-above-latest", "gaia-2", 22, 20*sec, one, one, one, hh(2, 20), 30*sec)
		s.verify("20-now-below-latest", hh(2, 20), 31*sec)
		s.update("next-revision-trusted-there", "gaia-3", 7, 20*sec, one, one, one, hh(3, 5), 32*sec)
		out = append(out, s.run.res)
		// consensus state without processed time / with a processed time that is not 8 bytes
		s = e.scenario(100012, "state-without-metadata", "testchain", 10, third, 600*sec, 10*sec, 0, one,
			InjectJ{Height: HeightJ{0, 7}, Cons: true, Time: t0 - 5*sec, Root: root, NVH: nvh},
			InjectJ{Height: HeightJ{0, 8}, Cons: true, Time: t0 - 4*sec, Root: root, NVH: nvh, PT: "0102"},
			InjectJ{Height: HeightJ{0, 9}, Cons: false, PT: pt})
		s.verify("no-processed-time", hh(0, 7), 20*sec)
		s.verify("short-processed-time", hh(0, 8), 20*sec)
		s.verify("processed-time-without-state", hh(0, 9), 20*sec)
		s.update("trusted-without-metadata", "testchain", 9, -3*sec, one, one, one, hh(0, 7), 30*sec)
		s.verify("9-now-stored", hh(0, 9), 31*sec)
		out = append(out, s.run.res)
		// iteration key without consensus state: the pruning step fails, nothing is accepted
		s = e.scenario(100013, "iteration-key-without-state", "testchain", 10, third, 600*sec, 10*sec, 0, one,
			InjectJ{Height: HeightJ{0, 5}, Iter: true})
		s.update("adjacent", "testchain", 11, 20*sec, one, one, one, hh(0, 10), 30*sec)
		out = append(out, s.run.res)
		// the earliest iteration key belongs to a LOWER revision: pruned first
		s = e.scenario(100014, "prune-across-revisions", "gaia-2", 10, third, 300*sec, 10*sec, 0, one,
			InjectJ{Height: HeightJ{1, 4000000000000}, Cons: true, Time: t0 - 100*sec, Root: root, NVH: nvh, PT: pt, Iter: true})
		s.update("11-nothing-expired", "gaia-2", 11, 20*sec, one, one, one, hh(2, 10), 30*sec)
		s.update("12-prunes-revision-1", "gaia-2", 12, 25*sec, one, one, one, hh(2, 11), 200*sec)
		s.update("13-prunes-10", "gaia-2", 13, 290*sec, one, one, one, hh(2, 12), 300*sec)
		out = append(out, s.run.res)
	}
	_ = tmclient.DefaultTrustLevel
	return out
}

func sdkUint64(x uint64) []byte {
	b := make([]byte, 8)
	binary.BigEndian.PutUint64(b, x)
	return b
}
