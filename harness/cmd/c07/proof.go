package main

// Real ICS-23 proofs for the height/delay gates of VerifyPacketCommitment /
// VerifyPacketAcknowledgement: a cosmos-sdk rootmulti store with one IAVL store
// named like the client's Merkle prefix holds one packet commitment and one
// acknowledgement; its commit hash is the app hash the generated headers carry,
// so the proofs verify against the consensus states those headers create.

import (
	"github.com/cosmos/cosmos-sdk/codec"
	"github.com/cosmos/cosmos-sdk/store/rootmulti"
	storetypes "github.com/cosmos/cosmos-sdk/store/types"
	sdk "github.com/cosmos/cosmos-sdk/types"
	abci "github.com/tendermint/tendermint/abci/types"
	dbm "github.com/tendermint/tm-db"

	commitmenttypes "github.com/teleport-network/teleport/x/xibc/core/commitment/types"
	"github.com/teleport-network/teleport/x/xibc/core/host"
)

const (
	fixtureStore = "xibc"
	fxSrc        = "srcchain"
	fxDst        = "dstchain"
	fxSeq        = uint64(1)
)

type fixtures struct {
	root   []byte   // app hash under which the proofs verify
	commit []byte   // committed packet commitment value
	ack    []byte   // committed acknowledgement value
	proofs [][]byte // 0: commitment proof, 1: acknowledgement proof, 2: bytes that do not decode, 3: empty (decodes to an empty proof)
}

func makeFixtures(cdc codec.BinaryCodec) *fixtures {
	db := dbm.NewMemDB()
	ms := rootmulti.NewStore(db)
	key := sdk.NewKVStoreKey(fixtureStore)
	other := sdk.NewKVStoreKey("bank")
	ms.MountStoreWithDB(key, storetypes.StoreTypeIAVL, nil)
	ms.MountStoreWithDB(other, storetypes.StoreTypeIAVL, nil)
	if err := ms.LoadLatestVersion(); err != nil {
		panic(err)
	}
	fx := &fixtures{commit: h32("packet commitment"), ack: h32("packet acknowledgement")}
	st := ms.GetKVStore(key)
	st.Set(host.PacketCommitmentKey(fxSrc, fxDst, fxSeq), fx.commit)
	st.Set(host.PacketAcknowledgementKey(fxSrc, fxDst, fxSeq), fx.ack)
	st.Set([]byte("unrelated"), []byte("x"))
	ms.GetKVStore(other).Set([]byte("k"), []byte("v"))
	cid := ms.Commit()
	fx.root = cid.Hash
	prove := func(k []byte) []byte {
		res := ms.Query(abci.RequestQuery{Path: "/" + fixtureStore + "/key", Data: k, Height: cid.Version, Prove: true})
		if res.ProofOps == nil {
			panic("no proof: " + res.Log)
		}
		mp, err := commitmenttypes.ConvertProofs(res.ProofOps)
		if err != nil {
			panic(err)
		}
		bz, err := cdc.Marshal(&mp)
		if err != nil {
			panic(err)
		}
		return bz
	}
	fx.proofs = [][]byte{
		prove(host.PacketCommitmentKey(fxSrc, fxDst, fxSeq)),
		prove(host.PacketAcknowledgementKey(fxSrc, fxDst, fxSeq)),
		{0xff, 0xff, 0xff, 0x01, 0x02},
		{},
	}
	// self-check: the fixtures must verify with the real verifier, otherwise the gate tests are vacuous
	var mp commitmenttypes.MerkleProof
	if err := cdc.Unmarshal(fx.proofs[0], &mp); err != nil {
		panic(err)
	}
	path, err := commitmenttypes.ApplyPrefix(&commitmenttypes.MerklePrefix{KeyPrefix: []byte(fixtureStore)},
		commitmenttypes.NewMerklePath(host.PacketCommitmentPath(fxSrc, fxDst, fxSeq)))
	if err != nil {
		panic(err)
	}
	if err := mp.VerifyMembership(commitmenttypes.GetSDKSpecs(), fx.root, path, fx.commit); err != nil {
		panic("fixture proof does not verify: " + err.Error())
	}
	return fx
}
