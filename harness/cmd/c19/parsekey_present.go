//go:build !c19_noparsekey

package main

import "github.com/teleport-network/teleport/x/xibc/core/host"

// The fixed-offset key parsers of host/parse.go (introduced by the repair of defect D7).  When they do not exist in the
// tree under test the harness is built with the tag c19_noparsekey (parsekey_absent.go) so that every other case still runs.
const parseKeyPresent = true

func hostParseClientKey(key []byte) (string, []byte, bool) { return host.ParseClientKey(key) }

func hostParseConsensusStateKey(key []byte) (uint64, uint64, bool) {
	return host.ParseConsensusStateKey(key)
}
