package main

import (
	"bytes"
	"crypto/sha256"
	"encoding/json"

	packettypes "github.com/teleport-network/teleport/x/xibc/core/packet/types"

	"verifharness/hlib"
)

// abiVal is what the five ABI types have in common (pointer receivers).
type abiVal interface {
	ABIPack() ([]byte, error)
	ABIDecode([]byte) error
}

// field types of the five ABI types IN GO STRUCT FIELD ORDER
// 0 Packet, 1 Acknowledgement, 2 TransferData, 3 CallData, 4 Result
var abiSigs = []string{"ssusbbsu", "ubssu", "sbss", "sb", "ubs"}

func checkTy(ty int) {
	if ty < 0 || ty >= len(abiSigs) {
		bad("unknown ty %d", ty)
	}
}

func fresh(ty int) abiVal {
	checkTy(ty)
	switch ty {
	case 0:
		return &packettypes.Packet{}
	case 1:
		return &packettypes.Acknowledgement{}
	case 2:
		return &packettypes.TransferData{}
	case 3:
		return &packettypes.CallData{}
	}
	return &packettypes.Result{}
}

func fromFields(ty int, f []F) abiVal {
	checkTy(ty)
	sig := abiSigs[ty]
	if len(f) != len(sig) {
		bad("ty %d wants %d fields, got %d", ty, len(sig), len(f))
	}
	for i := range f {
		if f[i].T != string(sig[i]) {
			bad("ty %d field %d has type %q, want %q", ty, i, f[i].T, string(sig[i]))
		}
	}
	switch ty {
	case 0:
		return &packettypes.Packet{SrcChain: f[0].S(), DstChain: f[1].S(), Sequence: f[2].U(), Sender: f[3].S(),
			TransferData: f[4].B(), CallData: f[5].B(), CallbackAddress: f[6].S(), FeeOption: f[7].U()}
	case 1:
		return &packettypes.Acknowledgement{Code: f[0].U(), Result: f[1].B(), Message: f[2].S(), Relayer: f[3].S(), FeeOption: f[4].U()}
	case 2:
		return &packettypes.TransferData{Receiver: f[0].S(), Amount: f[1].B(), Token: f[2].S(), OriToken: f[3].S()}
	case 3:
		return &packettypes.CallData{ContractAddress: f[0].S(), CallData: f[1].B()}
	}
	return &packettypes.Result{Code: f[0].U(), Result: f[1].B(), Message: f[2].S()}
}

func toFields(v abiVal) []F {
	switch x := v.(type) {
	case *packettypes.Packet:
		return []F{fs(x.SrcChain), fs(x.DstChain), fu(x.Sequence), fs(x.Sender), fb(x.TransferData), fb(x.CallData), fs(x.CallbackAddress), fu(x.FeeOption)}
	case *packettypes.Acknowledgement:
		return []F{fu(x.Code), fb(x.Result), fs(x.Message), fs(x.Relayer), fu(x.FeeOption)}
	case *packettypes.TransferData:
		return []F{fs(x.Receiver), fb(x.Amount), fs(x.Token), fs(x.OriToken)}
	case *packettypes.CallData:
		return []F{fs(x.ContractAddress), fb(x.CallData)}
	case *packettypes.Result:
		return []F{fu(x.Code), fb(x.Result), fs(x.Message)}
	}
	panic("toFields: unknown type")
}

func pack(v abiVal) (int, []byte) {
	var out []byte
	c, _ := class(func() error {
		bz, err := v.ABIPack()
		out = bz
		return err
	})
	if c != 0 {
		return c, nil
	}
	return 0, out
}

// decode runs (fresh zero struct).ABIDecode(bz)
func decode(ty int, bz []byte) (int, abiVal) {
	v := fresh(ty)
	c, _ := class(func() error { return v.ABIDecode(bz) })
	if c != 0 {
		return c, nil
	}
	return 0, v
}

type AbiSpec struct {
	Ty     int `json:"ty"`
	Fields []F `json:"fields"`
}

type AbiObs struct {
	EncClass    int    `json:"enc_class"`
	Enc         string `json:"enc"`
	DecClass    int    `json:"dec_class"`
	Dec         []F    `json:"dec"`
	ReencClass  int    `json:"reenc_class"`
	Reenc       string `json:"reenc"`
	Commit      string `json:"commit"`
	CommitIsSha bool   `json:"commit_is_sha"`
}

func runAbi(raw json.RawMessage) interface{} {
	var s AbiSpec
	decodeSpec(raw, &s)
	v := fromFields(s.Ty, s.Fields)
	o := AbiObs{DecClass: -1, Dec: []F{}, ReencClass: -1, CommitIsSha: true}
	var enc []byte
	o.EncClass, enc = pack(v)
	o.Enc = hlib.Hex(enc)
	if o.EncClass == 0 {
		var d abiVal
		o.DecClass, d = decode(s.Ty, enc)
		if o.DecClass == 0 {
			o.Dec = toFields(d)
			var re []byte
			o.ReencClass, re = pack(d)
			o.Reenc = hlib.Hex(re)
		}
	}
	if s.Ty == 0 {
		var cm []byte
		c, _ := class(func() error {
			bz, err := packettypes.CommitPacket(v.(*packettypes.Packet))
			cm = bz
			return err
		})
		if c != 0 {
			cm = nil
		}
		o.Commit = hlib.Hex(cm)
		h := sha256.Sum256(enc)
		o.CommitIsSha = o.EncClass == 0 && c == 0 && bytes.Equal(cm, h[:])
	}
	return o
}

type AbiRawSpec struct {
	Ty    int    `json:"ty"`
	Input string `json:"input"`
}

type AbiRawObs struct {
	DecClass   int    `json:"dec_class"`
	Dec        []F    `json:"dec"`
	ReencClass int    `json:"reenc_class"`
	Reenc      string `json:"reenc"`
	RedecClass int    `json:"redec_class"`
	Redec      []F    `json:"redec"`
}

func runAbiRaw(raw json.RawMessage) interface{} {
	var s AbiRawSpec
	decodeSpec(raw, &s)
	checkTy(s.Ty)
	in := unhex(s.Input)
	o := AbiRawObs{Dec: []F{}, ReencClass: -1, RedecClass: -1, Redec: []F{}}
	var d abiVal
	o.DecClass, d = decode(s.Ty, in)
	if o.DecClass != 0 {
		return o
	}
	o.Dec = toFields(d)
	var re []byte
	o.ReencClass, re = pack(d)
	o.Reenc = hlib.Hex(re)
	if o.ReencClass != 0 {
		return o
	}
	var d2 abiVal
	o.RedecClass, d2 = decode(s.Ty, re)
	if o.RedecClass == 0 {
		o.Redec = toFields(d2)
	}
	return o
}

type CommitSpec struct {
	P []F `json:"p"`
	Q []F `json:"q"`
}

type CommitObs struct {
	CP   string `json:"cp"`
	CQ   string `json:"cq"`
	EncP string `json:"enc_p"`
	EncQ string `json:"enc_q"`
}

func runCommit(raw json.RawMessage) interface{} {
	var s CommitSpec
	decodeSpec(raw, &s)
	one := func(f []F) (string, string) {
		v := fromFields(0, f)
		var cm []byte
		c, _ := class(func() error {
			bz, err := packettypes.CommitPacket(v.(*packettypes.Packet))
			cm = bz
			return err
		})
		if c != 0 {
			cm = nil
		}
		ec, enc := pack(v)
		if ec != 0 {
			enc = nil
		}
		return hlib.Hex(cm), hlib.Hex(enc)
	}
	o := CommitObs{}
	o.CP, o.EncP = one(s.P)
	o.CQ, o.EncQ = one(s.Q)
	return o
}
