// c19: drives the real ABI codecs of x/xibc/core/packet/types, the real store-key builders / parsers of
// x/xibc/core/host and the light clients, and the real keeper iterators over a real app store, and records
// the projected observables (property C19: ABI encoding + store keys).
//
//	c19 -seed N -n K -out f.jsonl     generate K cases from one splitmix PRNG (fork per case)
//	c19 -in specs.jsonl -out f.jsonl  re-execute the given specs (lines {"id":..,"kind":..,"spec":..})
//
// One JSON object per line: {"id","kind","spec","obs"}.  Every byte string / Go string is hex, every uint64 a
// decimal string.  class: 0 ok, 1 error / ok=false, 2 panic, 3 malformed spec (only for hand-written specs),
// -1 step not executed because an earlier step of the same case failed.
package main

import (
	"encoding/json"
	"flag"
	"fmt"
	"os"
	"strconv"

	"verifharness/hlib"
)

// F is one field value: {"t":"u","v":"<decimal>"} | {"t":"s","v":"<hex>"} | {"t":"b","v":"<hex>"}.
type F struct {
	T string `json:"t"`
	V string `json:"v"`
}

func fu(x uint64) F { return F{"u", strconv.FormatUint(x, 10)} }
func fs(s string) F { return F{"s", hlib.Hex([]byte(s))} }
func fb(b []byte) F { return F{"b", hlib.Hex(b)} }

type badSpec string

func bad(format string, a ...interface{}) { panic(badSpec(fmt.Sprintf(format, a...))) }

func (f F) U() uint64 {
	if f.T != "u" {
		bad("field type %q, want u", f.T)
	}
	return parseU(f.V)
}
func (f F) S() string {
	if f.T != "s" {
		bad("field type %q, want s", f.T)
	}
	return string(unhex(f.V))
}
func (f F) B() []byte {
	if f.T != "b" {
		bad("field type %q, want b", f.T)
	}
	return unhex(f.V)
}

func parseU(s string) uint64 {
	v, err := strconv.ParseUint(s, 10, 64)
	if err != nil {
		bad("bad uint64 %q", s)
	}
	return v
}

func unhex(s string) []byte {
	var out []byte
	if p, _ := hlib.Catch(func() { out = hlib.UnHex(s) }); p {
		bad("bad hex %q", s)
	}
	return out
}

func us(x uint64) string { return strconv.FormatUint(x, 10) }

// class runs f (a call into /repo code) under hlib.Catch: 2 = panic, 1 = error, 0 = ok.
func class(f func() error) (int, string) {
	var err error
	p, val := hlib.Catch(func() { err = f() })
	if p {
		return 2, val
	}
	if err != nil {
		return 1, ""
	}
	return 0, ""
}

type Line struct {
	ID   int             `json:"id"`
	Kind string          `json:"kind"`
	Spec json.RawMessage `json:"spec"`
	Obs  interface{}     `json:"obs"`
}

var kinds = []string{"abi", "abiraw", "commit", "key", "name", "parse", "iter", "contract"}

// budget in 50ths: abi 30%, abiraw 22%, commit 4%, key 16%, name 6%, parse 12%, iter 10%; kind "contract" gets
// max(6, K*2/100) cases taken out of the abi share (see kindsFor)
var weights = []int{15, 11, 2, 8, 3, 6, 5}

// pattern spreads the kinds evenly over a period of 50 ids (largest-deficit rule, ties to the lower index).
func pattern() []int {
	cnt := make([]int, len(weights))
	pat := make([]int, 0, 50)
	for j := 1; j <= 50; j++ {
		best, bestDef := -1, 0
		for k, w := range weights {
			def := w*j - cnt[k]*50
			if best < 0 || def > bestDef {
				best, bestDef = k, def
			}
		}
		cnt[best]++
		pat = append(pat, best)
	}
	return pat
}

// kindsFor: the kind of every id 0..n-1.  The pattern assigns the seven basic kinds; then max(6, n*2/100) of the ids of
// kind "abi" (evenly spread over them) become "contract".
func kindsFor(n int) []string {
	pat := pattern()
	out := make([]string, n)
	var abiIDs []int
	for i := 0; i < n; i++ {
		out[i] = kinds[pat[i%len(pat)]]
		if out[i] == "abi" {
			abiIDs = append(abiIDs, i)
		}
	}
	need := n * 2 / 100
	if need < 6 {
		need = 6
	}
	if need > len(abiIDs) {
		need = len(abiIDs)
	}
	for j := 0; j < need; j++ {
		out[abiIDs[j*len(abiIDs)/need]] = "contract"
	}
	return out
}

func mustJSON(v interface{}) json.RawMessage {
	bz, err := json.Marshal(v)
	if err != nil {
		panic(err)
	}
	return bz
}

func decodeSpec(raw json.RawMessage, into interface{}) {
	if err := json.Unmarshal(raw, into); err != nil {
		bad("cannot decode spec: %v", err)
	}
}

// runCase executes one spec.  A malformed spec (wrong arity / field types / unknown function) does not stop the
// harness: it yields obs {"class":3,"bad_spec":"..."}.
func runCase(kind string, raw json.RawMessage) (obs interface{}) {
	defer func() {
		if r := recover(); r != nil {
			if b, ok := r.(badSpec); ok {
				obs = map[string]interface{}{"class": 3, "bad_spec": string(b)}
				return
			}
			panic(r)
		}
	}()
	switch kind {
	case "abi":
		return runAbi(raw)
	case "abiraw":
		return runAbiRaw(raw)
	case "commit":
		return runCommit(raw)
	case "key":
		return runKey(raw)
	case "name":
		return runName(raw)
	case "parse":
		return runParse(raw)
	case "iter":
		return runIter(raw)
	case "contract":
		return runContract(raw)
	}
	bad("unknown kind %q", kind)
	return nil
}

func main() {
	seed := flag.Uint64("seed", 1, "PRNG seed")
	n := flag.Int("n", 500, "number of generated cases")
	in := flag.String("in", "", "replay: file of specs (JSON lines) instead of generating")
	out := flag.String("out", "/dev/stdout", "output file (JSON lines)")
	withCorpus := flag.Bool("corpus", true, "when generating: run the directed corpus (corpus.go) first")
	flag.Parse()

	type inLine struct {
		ID   int             `json:"id"`
		Kind string          `json:"kind"`
		Spec json.RawMessage `json:"spec"`
	}
	var cases []inLine
	if *in != "" {
		hlib.ReadLines(*in, func(line []byte) {
			var l inLine
			if err := json.Unmarshal(line, &l); err != nil {
				panic(fmt.Sprintf("bad input line: %v", err))
			}
			cases = append(cases, l)
		})
	} else {
		if *withCorpus {
			for _, c := range corpus() {
				cases = append(cases, inLine{ID: len(cases), Kind: c.Kind, Spec: c.Spec})
			}
		}
		nc := len(cases)
		root := hlib.NewRand(*seed)
		ks := kindsFor(*n)
		for i := 0; i < *n; i++ {
			kind := ks[i]
			cases = append(cases, inLine{ID: nc + i, Kind: kind, Spec: genSpec(root.Fork(uint64(i)), kind)})
		}
		fmt.Fprintf(os.Stderr, "c19: %d corpus cases, %d generated\n", nc, *n)
	}
	w := hlib.NewOut(*out)
	counts := map[string]int{}
	for _, c := range cases {
		counts[c.Kind]++
		w.Emit(Line{ID: c.ID, Kind: c.Kind, Spec: c.Spec, Obs: runCase(c.Kind, c.Spec)})
	}
	w.Close()
	sum := fmt.Sprintf("c19: %d cases", len(cases))
	for _, k := range kinds {
		sum += fmt.Sprintf(" %s=%d", k, counts[k])
		delete(counts, k)
	}
	for k, v := range counts { // unknown kinds of a hand-written input (order irrelevant: stderr only)
		sum += fmt.Sprintf(" %s=%d", k, v)
	}
	fmt.Fprintln(os.Stderr, sum)
}
