package main

// The directed corpus: seed-independent cases that run FIRST on every check (before the generated cases).
// It holds (a) the minimised witnesses of the past failures (D7: binary heights with a 0x2f byte; D14: a field lost
// in the ABI round trip), and (b) for every iterator over a client's prefix store and over the xibc store the
// ADVERSARIAL inputs of its key family: binary heights whose 16 bytes spell the suffixes / prefixes / separators of
// the client-store key families (derived from the real constants of /repo, not from copies), chain names that equal
// key literals, names that extend one another, boundary sequences.

import (
	"bytes"
	"encoding/binary"
	"encoding/json"

	bsctypes "github.com/teleport-network/teleport/x/xibc/clients/light-clients/bsc/types"
	ethclient "github.com/teleport-network/teleport/x/xibc/clients/light-clients/eth/types"
	tmclient "github.com/teleport-network/teleport/x/xibc/clients/light-clients/tendermint/types"
	clienttypes "github.com/teleport-network/teleport/x/xibc/core/client/types"
	"github.com/teleport-network/teleport/x/xibc/core/host"

	"verifharness/hlib"
)

// familyLiterals: every literal that occurs in a key of a client's prefix store or that a parser of such keys looks for.
func familyLiterals() [][]byte {
	return [][]byte{
		tmclient.KeyProcessedTime,                        // "/processedTime"
		[]byte(host.KeyClientState),                      // "clientState"
		[]byte("/" + host.KeyClientState),                // "/clientState"
		[]byte(host.KeyConsensusStatePrefix),             // "consensusStates"
		[]byte(host.KeyConsensusStatePrefix + "/"),       // "consensusStates/"
		[]byte("/" + host.KeyConsensusStatePrefix + "/"), // "/consensusStates/"
		[]byte(tmclient.KeyIterateConsensusStatePrefix),  // "iterateConsensusStates"
		[]byte(bsctypes.PrefixKeyRecentSingers + "/"),    // "recentSingers/"
		[]byte(bsctypes.PrefixPendingValidators),         // "pendingValidators"
		[]byte(ethclient.KeyIndexEthHeaderPrefix + "/"),  // "ethHeaderIndex/"
		[]byte(ethclient.KeyMainRootPrefix + "/"),        // "ethRootMain/"
		host.KeyClientStorePrefix,                        // "clients"
		[]byte("/"),
		[]byte("//"),
	}
}

// boundarySeqs: the sequences at which a narrowing / sign-changing conversion of the uint64 shows (int32, uint32, float64
// mantissa, int64) and the ends of the range
var boundarySeqs = []uint64{0, 1, 47, 1<<31 - 1, 1 << 31, 1<<32 - 1, 1 << 32, 1<<32 + 1, 1<<53 + 1, 1<<63 - 1, 1 << 63, 1<<63 + 1, ^uint64(0) - 1, ^uint64(0)}

// literalBytes: every distinct byte occurring in a literal of the client-store key families — the bytes a
// cutset-based trim (bytes.TrimLeft / TrimRight / Trim with the literal as cutset) would eat
func literalBytes() []byte {
	seen := map[byte]bool{}
	var out []byte
	for _, l := range familyLiterals() {
		for _, c := range l {
			if !seen[c] {
				seen[c] = true
				out = append(out, c)
			}
		}
	}
	return out
}

// cutsetHeights: for every such byte c the heights (c<<56, 5) (top byte of the revision number, i.e. the byte right after
// the textual prefix of a fixed-offset key), (5, ...c) (last byte of the key) and all sixteen bytes = c
func cutsetHeights() (top, low, all [][2]uint64) {
	for _, c := range literalBytes() {
		top = append(top, [2]uint64{uint64(c) << 56, 5})
		low = append(low, [2]uint64{5, 1<<56 | uint64(c)})
		all = append(all, heightOf(bytes.Repeat([]byte{c}, 16)))
	}
	return
}

func heightOf(b []byte) [2]uint64 {
	return [2]uint64{binary.BigEndian.Uint64(b[:8]), binary.BigEndian.Uint64(b[8:16])}
}

// advHeights: for every family literal L the heights whose 16 big-endian bytes END with (the tail of) L and those
// that BEGIN with (the head of) L, the remaining bytes being 0x00, 'A' or '/'.
func advHeights() [][2]uint64 {
	var out [][2]uint64
	seen := map[[2]uint64]bool{}
	add := func(b []byte) {
		h := heightOf(b)
		if !seen[h] {
			seen[h] = true
			out = append(out, h)
		}
	}
	for _, lit := range familyLiterals() {
		for _, fill := range []byte{0x00, 'A', '/'} {
			// suffix attack
			b := bytes.Repeat([]byte{fill}, 16)
			l := lit
			if len(l) > 16 {
				l = l[len(l)-16:]
			}
			copy(b[16-len(l):], l)
			add(b)
			// prefix attack
			b = bytes.Repeat([]byte{fill}, 16)
			l = lit
			if len(l) > 16 {
				l = l[:16]
			}
			copy(b, l)
			add(b)
		}
	}
	// the witnesses of D7 and the boundaries
	for _, h := range [][2]uint64{{0, 47}, {47, 9}, {303, 303}, {0, 12032}, {0x2F636C69, 0x656E745374617465}, {0, 0}, {^uint64(0), ^uint64(0)},
		{0, 1}, {1, 0}, {0x2F00000000000000, 0x000000000000002F}} {
		b := make([]byte, 16)
		binary.BigEndian.PutUint64(b, h[0])
		binary.BigEndian.PutUint64(b[8:], h[1])
		add(b)
	}
	return out
}

func hs(l [][2]uint64) [][2]string {
	out := [][2]string{}
	for _, h := range l {
		out = append(out, [2]string{us(h[0]), us(h[1])})
	}
	return out
}

func hexS(s string) string { return hlib.Hex([]byte(s)) }

func clienttypesHeight(h [2]uint64) clienttypes.Height { return clienttypes.NewHeight(h[0], h[1]) }

func t3(a, b string, q uint64) [3]string { return [3]string{hexS(a), hexS(b), us(q)} }

type corpusCase struct {
	Kind string
	Spec json.RawMessage
}

func emptyIter() IterSpec {
	return IterSpec{Clients: []ClientSpec{}, Commitments: [][3]string{}, Acks: [][3]string{}, Receipts: [][3]string{}, NextSeq: [][3]string{}, Relayers: []string{}}
}

func corpus() []corpusCase {
	var out []corpusCase
	add := func(kind string, spec interface{}) { out = append(out, corpusCase{kind, mustJSON(spec)}) }

	adv := advHeights()
	// ---- iter: every client type holds every adversarial height (chunks of 12 heights per store)
	for _, typ := range []string{"tm", "bsc", "eth"} {
		for i := 0; i < len(adv); i += 12 {
			j := i + 12
			if j > len(adv) {
				j = len(adv)
			}
			s := emptyIter()
			c := ClientSpec{Name: hexS("adv-" + typ), Type: typ, Heights: hs(adv[i:j])}
			if typ == "bsc" {
				c.Signers = hs(adv[i:j])
				c.Pending = true
			}
			if typ == "eth" {
				c.EthEntries = [][3]string{
					{hlib.Hex(bytes.Repeat([]byte{0x2f}, 32)), hlib.Hex(bytes.Repeat([]byte{0x11}, 32)), us(adv[i][1])},
					{hlib.Hex(bytes.Repeat([]byte{0x00}, 32)), hlib.Hex(bytes.Repeat([]byte{0x2f}, 32)), "47"},
					{hlib.Hex(bytes.Repeat([]byte{0xab}, 32)), hlib.Hex(bytes.Repeat([]byte{0xcd}, 32)), us(^uint64(0))},
				}
			}
			s.Clients = []ClientSpec{c}
			add("iter", s)
		}
	}
	// ---- iter: three client types side by side, names that are key literals / extend one another
	{
		s := emptyIter()
		few := hs([][2]uint64{adv[0], adv[1], {0, 47}, {0x2F636C69, 0x656E745374617465}})
		s.Clients = []ClientSpec{
			{Name: hexS(host.KeyConsensusStatePrefix), Type: "tm", Heights: few},
			{Name: hexS(host.KeyClientState), Type: "bsc", Heights: few, Signers: few, Pending: true},
			{Name: hexS(string(host.KeyClientStorePrefix)), Type: "eth", Heights: few,
				EthEntries: [][3]string{{hlib.Hex(bytes.Repeat([]byte{1}, 32)), hlib.Hex(bytes.Repeat([]byte{2}, 32)), "7"}}},
			{Name: hexS("abc"), Type: "tm", Heights: few},
			{Name: hexS("abcd"), Type: "tm", Heights: few},
			{Name: hexS("abc-"), Type: "bsc", Heights: few, Signers: few},
			{Name: hexS(tmclient.KeyIterateConsensusStatePrefix), Type: "eth", Heights: few},
		}
		// packet keys: names equal to key literals, names extending one another, boundary sequences
		names := []string{"abc", "abcd", "abc-", host.KeySequencePrefix, host.KeyPacketCommitmentPrefix, host.KeyPacketAckPrefix, host.KeyPacketReceiptPrefix}
		for i, a := range names {
			b := names[(i+1)%len(names)]
			for _, q := range []uint64{0, 1, 47, ^uint64(0)} {
				s.Commitments = append(s.Commitments, t3(a, b, q))
				s.Acks = append(s.Acks, t3(b, a, q))
				s.Receipts = append(s.Receipts, t3(a, a, q))
			}
			s.NextSeq = append(s.NextSeq, t3(a, b, uint64(i)+1))
		}
		s.Commitments = append(s.Commitments, t3("abc", "abc", 5), t3("abc", "abcd", 5), t3("abcd", "abc", 6), t3("abc", "abc-", 7))
		s.ByPath = [][2]string{{hexS("abc"), hexS("abc")}, {hexS("abc"), hexS("abcd")}, {hexS("abcd"), hexS("abc")}, {hexS("abc"), hexS("ab")},
			{hexS("abc"), hexS("abc-")}, {hexS(host.KeySequencePrefix), hexS(host.KeyPacketCommitmentPrefix)}, {hexS("nobody"), hexS("home")}}
		s.Relayers = []string{hexS("teleport1qqqqqqqqqqqqqqqqqqqqqqqqqqqqqqqqqqqqqq"), hexS("0x0000000000000000000000000000000000000001")}
		add("iter", s)
	}
	// ---- iter: heights whose first / last byte is a byte of a key literal (cutset-trimming parsers), every client type
	{
		top, low, _ := cutsetHeights()
		hsAll := append(append([][2]uint64{}, top...), low...)
		for _, typ := range []string{"tm", "bsc", "eth"} {
			for i := 0; i < len(hsAll); i += 16 {
				j := i + 16
				if j > len(hsAll) {
					j = len(hsAll)
				}
				s := emptyIter()
				c := ClientSpec{Name: hexS("cut-" + typ), Type: typ, Heights: hs(hsAll[i:j])}
				if typ == "bsc" {
					c.Signers = hs(hsAll[i:j])
				}
				s.Clients = []ClientSpec{c}
				add("iter", s)
			}
		}
	}
	// ---- iter: every packet key family at the boundary sequences (real builders through the keeper setters), read back
	// through every iterator (GetAllPacketCommitments / Acks / Receipts, by path) and point read (relayer, next sequence)
	{
		s := emptyIter()
		for _, q := range boundarySeqs {
			s.Commitments = append(s.Commitments, t3("abc", "abcd", q))
			s.Acks = append(s.Acks, t3("abc", "abcd", q))
			s.Receipts = append(s.Receipts, t3("abc", "abcd", q))
			s.PRelayers = append(s.PRelayers, t3("abc", "abcd", q))
		}
		s.NextSeq = [][3]string{t3("abc", "abcd", 1<<63), t3("abcd", "abc", ^uint64(0)), t3("abc", "abc", 1<<32)}
		s.ByPath = [][2]string{{hexS("abc"), hexS("abcd")}}
		add("iter", s)
		// one family per store, so that a panic of one iterator is attributed to its own family
		for fam := 0; fam < 3; fam++ {
			for _, q := range []uint64{1<<63 - 1, 1 << 63, ^uint64(0), 1 << 32} {
				s := emptyIter()
				l := [][3]string{t3("teleport", "bsc-testnet", q), t3("teleport", "bsc-testnet", 7)}
				switch fam {
				case 0:
					s.Commitments = l
					s.ByPath = [][2]string{{hexS("teleport"), hexS("bsc-testnet")}}
				case 1:
					s.Acks = l
				default:
					s.Receipts = l
				}
				s.PRelayers = [][3]string{t3("teleport", "bsc-testnet", q)}
				add("iter", s)
			}
		}
	}
	// ---- iter: raw metadata imported through SetAllClientMetadata (genesis import): keys NOT produced by the builders
	{
		cons := []byte(host.KeyConsensusStatePrefix + "/")
		raws := [][]byte{
			[]byte(bsctypes.PrefixKeyRecentSingers),                            // no separator (0d61436: an error, not a panic)
			[]byte(bsctypes.PrefixKeyRecentSingers + "/1-2/3"),                 // three fields
			[]byte(bsctypes.PrefixKeyRecentSingers + "/x-y"),                   // not a height
			[]byte(bsctypes.PrefixKeyRecentSingers + "Extra/7-8"),              // under the prefix, other first field
			append(append([]byte{}, cons...), tmclient.KeyProcessedTime...),    // "consensusStates//processedTime": no height at all
			append(append([]byte{}, cons...), bytes.Repeat([]byte{'x'}, 15)...), // 15 height bytes
			append(append([]byte{}, cons...), bytes.Repeat([]byte{'x'}, 17)...), // 17 height bytes
			append(append(append([]byte{}, cons...), bytes.Repeat([]byte{'/'}, 16)...), []byte("/processedTimeX")...),
			[]byte(tmclient.KeyIterateConsensusStatePrefix + "-not-a-height-but-16+"),
			[]byte(bsctypes.PrefixPendingValidators + "2"),
			[]byte(ethclient.KeyIndexEthHeaderPrefix),
			[]byte(ethclient.KeyMainRootPrefix + "/zz"),
			[]byte(host.KeyClientState + "2"),
			[]byte("zzz"),
		}
		for _, typ := range []string{"tm", "bsc", "eth"} {
			s := emptyIter()
			c := ClientSpec{Name: hexS("raw-" + typ), Type: typ, Heights: hs([][2]uint64{{1, 5}, adv[0]})}
			if typ == "bsc" {
				c.Signers = hs([][2]uint64{{1, 5}})
			}
			for _, k := range raws {
				c.Raw = append(c.Raw, hlib.Hex(k))
			}
			s.Clients = []ClientSpec{c}
			add("iter", s)
		}
		// recent-signer keys that are malformed in one way only, each in a store of its own (GetRecentSigners stops at the first error)
		for _, k := range raws[:4] {
			s := emptyIter()
			s.Clients = []ClientSpec{{Name: hexS("raw-one"), Type: "bsc", Heights: hs([][2]uint64{{0, 47}}), Signers: hs([][2]uint64{{0, 47}, {2, 3}}),
				Raw: []string{hlib.Hex(k)}}}
			add("iter", s)
		}
	}

	// ---- parse: every parser on the adversarial keys
	for _, h := range adv[:10] {
		hh := clienttypesHeight(h)
		add("parse", ParseSpec{Fn: "host.ParseConsensusStateKey", Input: hlib.Hex(host.ConsensusStateKey(hh))})
		add("parse", ParseSpec{Fn: "host.ParseConsensusStateKey", Input: hlib.Hex(tmclient.ProcessedTimeKey(hh))})
		add("parse", ParseSpec{Fn: "host.ParseClientKey", Input: hlib.Hex(host.FullConsensusStateKey("abc", hh))})
		add("parse", ParseSpec{Fn: "tm.GetHeightFromIterationKey", Input: hlib.Hex(tmclient.IterationKey(hh))})
		add("parse", ParseSpec{Fn: "bsc.GetHeightFromIterationKey", Input: hlib.Hex(host.ConsensusStateKey(hh))})
		add("parse", ParseSpec{Fn: "eth.GetHeightFromIterationKey", Input: hlib.Hex(host.ConsensusStateKey(hh))})
		add("parse", ParseSpec{Fn: "clienttypes.ParseHeight", Input: hlib.Hex([]byte(hh.String()))})
	}
	{
		top, low, all := cutsetHeights()
		for _, l := range [][][2]uint64{top, low, all} {
			for _, h := range l {
				hh := clienttypesHeight(h)
				add("parse", ParseSpec{Fn: "host.ParseConsensusStateKey", Input: hlib.Hex(host.ConsensusStateKey(hh))})
				add("parse", ParseSpec{Fn: "tm.GetHeightFromIterationKey", Input: hlib.Hex(tmclient.IterationKey(hh))})
				add("parse", ParseSpec{Fn: "bsc.GetHeightFromIterationKey", Input: hlib.Hex(host.ConsensusStateKey(hh))})
				add("parse", ParseSpec{Fn: "eth.GetHeightFromIterationKey", Input: hlib.Hex(host.ConsensusStateKey(hh))})
			}
		}
		// ParseClientKey: chain names made of the bytes of its own prefix ("clients/"), and paths beginning with them
		for _, n := range []string{"clients", "stneilc", "ccc", "sss", "cli"} {
			add("parse", ParseSpec{Fn: "host.ParseClientKey", Input: hlib.Hex(host.FullClientStateKey(n))})
			add("parse", ParseSpec{Fn: "host.ParseClientKey", Input: hlib.Hex(host.FullClientKey(n, []byte("clients/"+n)))})
			add("parse", ParseSpec{Fn: "host.ParsePath", Input: hexS(host.NextSequenceSendPath(n, "clients"))})
		}
	}
	for _, p := range []string{"", "a", "a/b", "a/b/c", "nextSequenceSend/abc/abcd", "commitments/abc/abcd/sequences/1", "//", "clients/abc/clientState"} {
		add("parse", ParseSpec{Fn: "host.ParsePath", Input: hexS(p)})
		add("parse", ParseSpec{Fn: "host.ParseClientKey", Input: hexS(p)})
	}

	// ---- key: every builder once with separator-laden numbers, and the pairs that collide when a separator is dropped
	for _, fn := range keyFnNames {
		sig := keyFns[fn].sig
		mk := func(names [2]string, nums [2]uint64) []F {
			var a []F
			si, ni := 0, 0
			for i := range sig {
				switch sig[i] {
				case 's':
					a = append(a, fs(names[si%2]))
					si++
				case 'u':
					a = append(a, fu(nums[ni%2]))
					ni++
				case 'b':
					if fn == "host.FullClientKey" {
						a = append(a, fb(host.ConsensusStateKey(clienttypesHeight(adv[0]))))
					} else {
						a = append(a, fb(bytes.Repeat([]byte{0x2f}, 32)))
					}
				}
			}
			return a
		}
		add("key", KeySpec{Fn: fn, Args: mk([2]string{"abc1", "1cde"}, [2]uint64{47, 303})})
		add("key", KeySpec{Fn: fn, Args: mk([2]string{"abc", "11cde"}, [2]uint64{4, 7303})}) // same concatenation, other split
		add("key", KeySpec{Fn: fn, Args: mk([2]string{"abc11", "cde"}, [2]uint64{473, 3})})
		if sig != "" {
			add("key", KeySpec{Fn: fn, Args: mk([2]string{"teleport", "bsc-testnet"}, [2]uint64{adv[0][0], adv[0][1]})})
		}
		if sig == "ssu" || sig == "bu" {
			for _, q := range []uint64{1<<31 - 1, 1 << 31, 1 << 32, 1<<53 + 1, 1<<63 - 1, 1 << 63, ^uint64(0)} {
				add("key", KeySpec{Fn: fn, Args: mk([2]string{"teleport", "bsc-testnet"}, [2]uint64{q, q})})
			}
		}
	}

	// ---- abi: the witnesses of the lost-field defects (every field non-zero, and each single field non-zero alone)
	for ty, sig := range abiSigs {
		full := make([]F, len(sig))
		for i := range sig {
			switch sig[i] {
			case 'u':
				full[i] = fu(uint64(7 + i))
			case 's':
				full[i] = fs(string(rune('a'+i)) + "€/")
			default:
				full[i] = fb([]byte{0x2f, byte(i), 0x00})
			}
		}
		add("abi", AbiSpec{Ty: ty, Fields: full})
		for i := range sig {
			one := make([]F, len(sig))
			for j := range sig {
				switch sig[j] {
				case 'u':
					one[j] = fu(0)
				case 's':
					one[j] = fs("")
				default:
					one[j] = fb(nil)
				}
			}
			one[i] = full[i]
			if sig[i] == 'u' {
				one[i] = fu(^uint64(0))
			}
			add("abi", AbiSpec{Ty: ty, Fields: one})
		}
	}
	// ---- commit: bytes moved across every pair of adjacent dynamic fields of the packet
	{
		base := []F{fs("abc"), fs("abcd"), fu(1), fs("sender"), fb([]byte("td")), fb([]byte("cd")), fs("cb"), fu(0)}
		for _, pr := range [][2]int{{0, 1}, {1, 3}, {3, 4}, {4, 5}, {5, 6}} {
			q := append([]F{}, base...)
			a, b := hlib.UnHex(q[pr[0]].V), hlib.UnHex(q[pr[1]].V)
			q[pr[0]] = F{q[pr[0]].T, hlib.Hex(a[:len(a)-1])}
			q[pr[1]] = F{q[pr[1]].T, hlib.Hex(append([]byte{a[len(a)-1]}, b...))}
			add("commit", CommitSpec{P: base, Q: q})
		}
		q := append([]F{}, base...)
		q[2], q[7] = fu(0), fu(1) // sequence and fee option swapped
		add("commit", CommitSpec{P: base, Q: q})
		add("commit", CommitSpec{P: base, Q: append([]F{}, base...)})
	}
	// ---- name
	for _, n := range []string{"abc", "ab", "a/b", "abc/", "/abc", "", " ", "abc def", host.KeyClientState, "consensusStates/x"} {
		add("name", NameSpec{S: hexS(n)})
	}
	// key cases first (the pairwise collision monitor works inside one evaluation shard), then the stores, then the rest
	order := map[string]int{"key": 0, "iter": 1, "abi": 2, "commit": 3, "name": 4, "parse": 5}
	var sorted []corpusCase
	for k := 0; k <= 5; k++ {
		for _, c := range out {
			if order[c.Kind] == k {
				sorted = append(sorted, c)
			}
		}
	}
	return sorted
}
