//go:build c19_noparsekey

package main

const parseKeyPresent = false

func hostParseClientKey(key []byte) (string, []byte, bool) {
	panic("host.ParseClientKey does not exist in this tree")
}

func hostParseConsensusStateKey(key []byte) (uint64, uint64, bool) {
	panic("host.ParseConsensusStateKey does not exist in this tree")
}
