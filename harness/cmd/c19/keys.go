package main

import (
	"bytes"
	"encoding/json"
	"math/big"

	sdk "github.com/cosmos/cosmos-sdk/types"
	"github.com/ethereum/go-ethereum/common"
	"github.com/ethereum/go-ethereum/crypto"

	bsctypes "github.com/teleport-network/teleport/x/xibc/clients/light-clients/bsc/types"
	ethclient "github.com/teleport-network/teleport/x/xibc/clients/light-clients/eth/types"
	tmclient "github.com/teleport-network/teleport/x/xibc/clients/light-clients/tendermint/types"
	clienttypes "github.com/teleport-network/teleport/x/xibc/core/client/types"
	"github.com/teleport-network/teleport/x/xibc/core/host"
	"github.com/teleport-network/teleport/x/xibc/exported"

	"verifharness/hlib"
)

type KeySpec struct {
	Fn   string `json:"fn"`
	Args []F    `json:"args"`
}

type KeyObs struct {
	Class int    `json:"class"`
	Out   string `json:"out"`
	Pre   string `json:"pre"`
}

// keyFn: sig = flattened argument types; f returns (out, pre, ok).  ok=false => class 1.
type keyFn struct {
	sig string
	f   func(a []F) (out, pre []byte, ok bool)
}

func ht(a, b F) exported.Height { return clienttypes.NewHeight(a.U(), b.U()) }

func plain(b []byte) ([]byte, []byte, bool)  { return b, nil, true }
func plainS(s string) ([]byte, []byte, bool) { return []byte(s), nil, true }

// proofKey: pre = storeKey ++ leftpad32(208) ONLY IF keccak256(pre) == out
func proofKey(out, storeKey []byte) ([]byte, []byte, bool) {
	pre := append(append([]byte{}, storeKey...), common.LeftPadBytes(big.NewInt(208).Bytes(), 32)...)
	if !bytes.Equal(crypto.Keccak256(pre), out) {
		pre = nil
	}
	return out, pre, true
}

const marker = "c19-marker-value"

// storePrefix: write key "K" through the given prefixed store accessor on a cache of the real app context and
// find the full key in the xibc store.
func storePrefix(get func(ctx sdk.Context) sdk.KVStore) ([]byte, []byte, bool) {
	e := getEnv()
	ctx, _ := e.base.CacheContext()
	get(ctx).Set([]byte("K"), []byte(marker))
	var found [][]byte
	it := sdk.KVStorePrefixIterator(ctx.KVStore(e.key), nil)
	for ; it.Valid(); it.Next() {
		if string(it.Value()) == marker {
			found = append(found, append([]byte{}, it.Key()...))
		}
	}
	it.Close()
	if len(found) != 1 || !bytes.HasSuffix(found[0], []byte("K")) {
		return nil, nil, false
	}
	return found[0][:len(found[0])-1], nil, true
}

var keyFns map[string]keyFn
var keyFnNames []string // deterministic order for the generator

func addKey(name, sig string, f func(a []F) ([]byte, []byte, bool)) {
	keyFns[name] = keyFn{sig, f}
	keyFnNames = append(keyFnNames, name)
}

func init() {
	keyFns = map[string]keyFn{}
	addKey("host.FullClientPath", "ss", func(a []F) ([]byte, []byte, bool) { return plainS(host.FullClientPath(a[0].S(), a[1].S())) })
	addKey("host.FullClientKey", "sb", func(a []F) ([]byte, []byte, bool) { return plain(host.FullClientKey(a[0].S(), a[1].B())) })
	addKey("host.FullClientStateKey", "s", func(a []F) ([]byte, []byte, bool) { return plain(host.FullClientStateKey(a[0].S())) })
	addKey("host.ClientStateKey", "", func(a []F) ([]byte, []byte, bool) { return plain(host.ClientStateKey()) })
	addKey("host.FullConsensusStateKey", "suu", func(a []F) ([]byte, []byte, bool) {
		return plain(host.FullConsensusStateKey(a[0].S(), ht(a[1], a[2])))
	})
	addKey("host.ConsensusStatePath", "uu", func(a []F) ([]byte, []byte, bool) { return plainS(host.ConsensusStatePath(ht(a[0], a[1]))) })
	addKey("host.ConsensusStateKey", "uu", func(a []F) ([]byte, []byte, bool) { return plain(host.ConsensusStateKey(ht(a[0], a[1]))) })
	addKey("host.NextSequenceSendPath", "ss", func(a []F) ([]byte, []byte, bool) { return plainS(host.NextSequenceSendPath(a[0].S(), a[1].S())) })
	addKey("host.NextSequenceSendKey", "ss", func(a []F) ([]byte, []byte, bool) { return plain(host.NextSequenceSendKey(a[0].S(), a[1].S())) })

	type trio struct {
		name   string
		path   func(string, string, uint64) string
		key    func(string, string, uint64) []byte
		prefix func(string, string) string
	}
	for _, t := range []trio{
		{"Commitment", host.PacketCommitmentPath, host.PacketCommitmentKey, host.PacketCommitmentPrefixPath},
		{"Relayer", host.PacketRelayerPath, host.PacketRelayerKey, host.PacketRelayerPrefixPath},
		{"Acknowledgement", host.PacketAcknowledgementPath, host.PacketAcknowledgementKey, host.PacketAcknowledgementPrefixPath},
		{"Receipt", host.PacketReceiptPath, host.PacketReceiptKey, host.PacketReceiptPrefixPath},
	} {
		t := t
		addKey("host.Packet"+t.name+"Path", "ssu", func(a []F) ([]byte, []byte, bool) { return plainS(t.path(a[0].S(), a[1].S(), a[2].U())) })
		addKey("host.Packet"+t.name+"Key", "ssu", func(a []F) ([]byte, []byte, bool) { return plain(t.key(a[0].S(), a[1].S(), a[2].U())) })
		addKey("host.Packet"+t.name+"PrefixPath", "ss", func(a []F) ([]byte, []byte, bool) { return plainS(t.prefix(a[0].S(), a[1].S())) })
	}

	addKey("tm.ProcessedTimeKey", "uu", func(a []F) ([]byte, []byte, bool) { return plain(tmclient.ProcessedTimeKey(ht(a[0], a[1]))) })
	addKey("tm.IterationKey", "uu", func(a []F) ([]byte, []byte, bool) { return plain(tmclient.IterationKey(ht(a[0], a[1]))) })
	addKey("bsc.keyRecentSinger", "uu", func(a []F) ([]byte, []byte, bool) {
		// unexported: SetSigner on a scratch client store, read back the single key
		e := getEnv()
		ctx, _ := e.base.CacheContext()
		store := e.app.XIBCKeeper.ClientKeeper.ClientStore(ctx, "c19-scratch")
		bsctypes.SetSigner(store, bsctypes.Signer{Height: clienttypes.NewHeight(a[0].U(), a[1].U()), Validator: bytes.Repeat([]byte{7}, 20)})
		var found [][]byte
		it := sdk.KVStorePrefixIterator(store, nil)
		for ; it.Valid(); it.Next() {
			found = append(found, append([]byte{}, it.Key()...))
		}
		it.Close()
		if len(found) != 1 {
			return nil, nil, false
		}
		return found[0], nil, true
	})
	hashOf := func(f F) common.Hash { return common.BytesToHash(f.B()) }
	addKey("eth.EthHeaderIndexKey", "bu", func(a []F) ([]byte, []byte, bool) { return plain(ethclient.EthHeaderIndexKey(hashOf(a[0]), a[1].U())) })
	addKey("eth.EthHeaderIndexPath", "bu", func(a []F) ([]byte, []byte, bool) {
		return plainS(ethclient.EthHeaderIndexPath(hashOf(a[0]), a[1].U()))
	})
	addKey("eth.EthRootMainKey", "bu", func(a []F) ([]byte, []byte, bool) { return plain(ethclient.EthRootMainKey(hashOf(a[0]), a[1].U())) })
	addKey("eth.EthRootMainPath", "bu", func(a []F) ([]byte, []byte, bool) { return plainS(ethclient.EthRootMainPath(hashOf(a[0]), a[1].U())) })

	addKey("bsc.GetPacketCommitmentProofKey", "ssu", func(a []F) ([]byte, []byte, bool) {
		return proofKey(bsctypes.NewProofKeyConstructor(a[0].S(), a[1].S(), a[2].U()).GetPacketCommitmentProofKey(),
			host.PacketCommitmentKey(a[0].S(), a[1].S(), a[2].U()))
	})
	addKey("bsc.GetAckProofKey", "ssu", func(a []F) ([]byte, []byte, bool) {
		return proofKey(bsctypes.NewProofKeyConstructor(a[0].S(), a[1].S(), a[2].U()).GetAckProofKey(),
			host.PacketAcknowledgementKey(a[0].S(), a[1].S(), a[2].U()))
	})
	addKey("eth.GetPacketCommitmentProofKey", "ssu", func(a []F) ([]byte, []byte, bool) {
		return proofKey(ethclient.NewProofKeyConstructor(a[0].S(), a[1].S(), a[2].U()).GetPacketCommitmentProofKey(),
			host.PacketCommitmentKey(a[0].S(), a[1].S(), a[2].U()))
	})
	addKey("eth.GetAckProofKey", "ssu", func(a []F) ([]byte, []byte, bool) {
		return proofKey(ethclient.NewProofKeyConstructor(a[0].S(), a[1].S(), a[2].U()).GetAckProofKey(),
			host.PacketAcknowledgementKey(a[0].S(), a[1].S(), a[2].U()))
	})

	addKey("clientkeeper.ClientStore", "s", func(a []F) ([]byte, []byte, bool) {
		name := a[0].S()
		return storePrefix(func(ctx sdk.Context) sdk.KVStore { return getEnv().app.XIBCKeeper.ClientKeeper.ClientStore(ctx, name) })
	})
	addKey("clientkeeper.RelayerStore", "", func(a []F) ([]byte, []byte, bool) {
		return storePrefix(func(ctx sdk.Context) sdk.KVStore { return getEnv().app.XIBCKeeper.ClientKeeper.RelayerStore(ctx) })
	})
}

// checkArgs validates arity and types of a flattened argument list and pre-decodes every value (so that a
// malformed spec is reported as such and never looks like a panic of the code under test).
func checkArgs(fn, sig string, a []F) {
	if len(a) != len(sig) {
		bad("%s wants %d args, got %d", fn, len(sig), len(a))
	}
	for i := range a {
		if a[i].T != string(sig[i]) {
			bad("%s arg %d has type %q, want %q", fn, i, a[i].T, string(sig[i]))
		}
		switch a[i].T {
		case "u":
			a[i].U()
		default:
			unhex(a[i].V)
		}
	}
}

func runKey(raw json.RawMessage) interface{} {
	var s KeySpec
	decodeSpec(raw, &s)
	kf, ok := keyFns[s.Fn]
	if !ok {
		bad("unknown key builder %q", s.Fn)
	}
	checkArgs(s.Fn, kf.sig, s.Args)
	if s.Fn == "clientkeeper.ClientStore" || s.Fn == "clientkeeper.RelayerStore" || s.Fn == "bsc.keyRecentSinger" {
		getEnv() // build the app outside of Catch: a failure here is a harness failure
	}
	var out, pre []byte
	var good bool
	p, _ := hlib.Catch(func() { out, pre, good = kf.f(s.Args) })
	o := KeyObs{}
	switch {
	case p:
		o.Class = 2
	case !good:
		o.Class = 1
	default:
		o.Out, o.Pre = hlib.Hex(out), hlib.Hex(pre)
	}
	return o
}

type NameSpec struct {
	S string `json:"s"`
}

type NameObs struct {
	Client bool `json:"client"`
	Src    bool `json:"src"`
	Dst    bool `json:"dst"`
}

func runName(raw json.RawMessage) interface{} {
	var s NameSpec
	decodeSpec(raw, &s)
	id := string(unhex(s.S))
	ok := func(f func(string) error) bool {
		c, _ := class(func() error { return f(id) })
		return c == 0
	}
	return NameObs{Client: ok(host.ClientIdentifierValidator), Src: ok(host.SrcChainValidator), Dst: ok(host.DstChainValidator)}
}

type ParseSpec struct {
	Fn    string `json:"fn"`
	Input string `json:"input"`
}

type ParseObs struct {
	Class int `json:"class"`
	Out   []F `json:"out"`
}

var parseFnNames = []string{
	"host.ParseClientKey", "host.ParseConsensusStateKey", "host.ParsePath", "clienttypes.ParseHeight",
	"tm.GetHeightFromIterationKey", "bsc.GetHeightFromIterationKey", "eth.GetHeightFromIterationKey",
}

func runParse(raw json.RawMessage) interface{} {
	var s ParseSpec
	decodeSpec(raw, &s)
	in := unhex(s.Input)
	var out []F
	var f func() error
	errFalse := errNotOK{}
	heightOut := func(g func([]byte) exported.Height) func() error {
		return func() error {
			h := g(in)
			out = []F{fu(h.GetRevisionNumber()), fu(h.GetRevisionHeight())}
			return nil
		}
	}
	switch s.Fn {
	case "host.ParseClientKey":
		f = func() error {
			name, path, ok := hostParseClientKey(in)
			if !ok {
				return errFalse
			}
			out = []F{fs(name), fb(path)}
			return nil
		}
	case "host.ParseConsensusStateKey":
		f = func() error {
			rev, h, ok := hostParseConsensusStateKey(in)
			if !ok {
				return errFalse
			}
			out = []F{fu(rev), fu(h)}
			return nil
		}
	case "host.ParsePath":
		f = func() error {
			a, b, err := host.ParsePath(string(in))
			if err != nil {
				return err
			}
			out = []F{fs(a), fs(b)}
			return nil
		}
	case "clienttypes.ParseHeight":
		f = func() error {
			h, err := clienttypes.ParseHeight(string(in))
			if err != nil {
				return err
			}
			out = []F{fu(h.RevisionNumber), fu(h.RevisionHeight)}
			return nil
		}
	case "tm.GetHeightFromIterationKey":
		f = heightOut(tmclient.GetHeightFromIterationKey)
	case "bsc.GetHeightFromIterationKey":
		f = heightOut(bsctypes.GetHeightFromIterationKey)
	case "eth.GetHeightFromIterationKey":
		f = heightOut(ethclient.GetHeightFromIterationKey)
	default:
		bad("unknown parser %q", s.Fn)
	}
	o := ParseObs{Out: []F{}}
	o.Class, _ = class(f)
	if o.Class == 0 {
		o.Out = out
	}
	return o
}

type errNotOK struct{}

func (errNotOK) Error() string { return "ok=false" }
