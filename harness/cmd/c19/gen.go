package main

import (
	"bytes"
	"encoding/binary"
	"encoding/json"
	"math/big"
	"strings"
	"unicode/utf8"

	bsctypes "github.com/teleport-network/teleport/x/xibc/clients/light-clients/bsc/types"
	tmclient "github.com/teleport-network/teleport/x/xibc/clients/light-clients/tendermint/types"
	clienttypes "github.com/teleport-network/teleport/x/xibc/core/client/types"
	"github.com/teleport-network/teleport/x/xibc/core/host"
	xibctesting "github.com/teleport-network/teleport/x/xibc/testing"

	"verifharness/hlib"
)

func genSpec(r *hlib.Rand, kind string) json.RawMessage {
	switch kind {
	case "abi":
		return mustJSON(genAbi(r))
	case "abiraw":
		return mustJSON(genAbiRaw(r))
	case "commit":
		return mustJSON(genCommit(r))
	case "key":
		return mustJSON(genKey(r))
	case "name":
		return mustJSON(genName(r))
	case "parse":
		return mustJSON(genParse(r))
	case "iter":
		return mustJSON(genIter(r))
	case "contract":
		return mustJSON(genContract(r))
	}
	panic("genSpec: " + kind)
}

// ---------------------------------------------------------------- primitive generators

func genAbiU64(r *hlib.Rand) uint64 {
	switch r.Intn(8) {
	case 0:
		return 0
	case 1:
		return 1
	case 2:
		return 1 << 63
	case 3:
		return ^uint64(0)
	case 4:
		return 1 << 32
	case 5:
		return uint64(r.Intn(1000))
	default:
		return r.U64()
	}
}

func genLen(r *hlib.Rand) int {
	switch r.Intn(20) {
	case 0, 1:
		return 0
	case 2:
		return 1
	case 3:
		return 31
	case 4, 5:
		return 32
	case 6:
		return 33
	case 7:
		return 64
	case 8:
		return 95
	case 9:
		return 96
	case 10:
		return 97
	case 11:
		if r.Chance(1, 4) {
			return 990 + r.Intn(40)
		}
		return r.Intn(201)
	case 12, 13, 14:
		return r.Intn(201)
	default:
		return 1 + r.Intn(42) // realistic: names, addresses
	}
}

var multiRunes = []string{
	"\u00e9", "\u0430", "\u00df", "\u07ff", // 2-byte
	"\u20ac", "\u4e2d", "\ufffd", "\u2028", "\u2029", "\u0800", "\uffff", "\ud7ff", "\ue000", // 3-byte (incl. U+FFFD itself)
	"\U0010ffff", "\U0001f600", "\U0001f4a9", "\U00010000", // 4-byte
}

var jsonSpecials = []byte{'"', '\\', '<', '>', '&', '/', 0x7f, '\'', '`', '{', '}', '[', ']', ':', ','}

var invalidSeqs = [][]byte{
	{0x80}, {0xff}, {0xe2, 0x82}, {0xc0, 0xaf}, {0xed, 0xa0, 0x80}, {0xf4, 0x90, 0x80, 0x80},
	{0xc3}, {0xf0, 0x9f, 0x98}, {0xfe}, {0xbf}, {0xe0, 0x80, 0x80}, {0xf8, 0x88, 0x80, 0x80, 0x80},
}

func asciiByte(r *hlib.Rand) byte { return byte(0x20 + r.Intn(0x5f)) }

// genValidStr: valid UTF-8 of exactly n bytes.  style 0 ASCII, 1 multi-byte runes, 2 JSON-special / control chars
func genValidStr(r *hlib.Rand, n, style int) []byte {
	out := make([]byte, 0, n)
	for len(out) < n {
		rem := n - len(out)
		switch style {
		case 1:
			if r.Chance(2, 3) {
				ru := multiRunes[r.Intn(len(multiRunes))]
				if len(ru) <= rem {
					out = append(out, ru...)
					continue
				}
			}
			out = append(out, asciiByte(r))
		case 2:
			switch r.Intn(3) {
			case 0:
				out = append(out, jsonSpecials[r.Intn(len(jsonSpecials))])
			case 1:
				out = append(out, byte(r.Intn(0x20)))
			default:
				out = append(out, asciiByte(r))
			}
		default:
			out = append(out, asciiByte(r))
		}
	}
	return out
}

// genStr: a Go string of n bytes; invalid => contains at least one invalid UTF-8 sequence (if n > 0)
func genStr(r *hlib.Rand, n int, invalid bool) string {
	style := 0
	switch r.Intn(10) {
	case 0, 1, 2:
		style = 1
	case 3, 4:
		style = 2
	}
	b := genValidStr(r, n, style)
	if invalid && n > 0 {
		k := 1 + r.Intn(2)
		for i := 0; i < k; i++ {
			seq := invalidSeqs[r.Intn(len(invalidSeqs))]
			if len(seq) > n {
				seq = seq[:1] // 0x80, 0xff, 0xe2, 0xc0, 0xed, 0xf4 ... alone: all invalid
			}
			// at the end (truncated sequence at end of string) or anywhere
			pos := n - len(seq)
			if !r.Chance(1, 3) {
				pos = r.Intn(n - len(seq) + 1)
			}
			copy(b[pos:], seq)
		}
		if r.Chance(1, 10) {
			b = r.Bytes(n) // arbitrary bytes as a string
		}
		if utf8.Valid(b) {
			b[r.Intn(n)] = 0xff
		}
	}
	return string(b)
}

func genBytes(r *hlib.Rand, n int) []byte {
	switch r.Intn(8) {
	case 0:
		return bytes.Repeat([]byte{0x2f}, n)
	case 1:
		return make([]byte, n)
	case 2:
		return bytes.Repeat([]byte{0xff}, n)
	case 3:
		return genValidStr(r, n, 0)
	default:
		b := r.Bytes(n)
		if n > 0 && r.Chance(1, 3) {
			b[r.Intn(n)] = 0x2f
		}
		return b
	}
}

// genFields: a value of ABI type ty.  invalidMode: string fields get invalid UTF-8 (at least one of them).
func genFields(r *hlib.Rand, ty int, invalidMode bool, lenFn func(*hlib.Rand) int) []F {
	sig := abiSigs[ty]
	out := make([]F, len(sig))
	var strIdx []int
	for i := range sig {
		if sig[i] == 's' {
			strIdx = append(strIdx, i)
		}
	}
	forced := -1
	if invalidMode && len(strIdx) > 0 {
		forced = strIdx[r.Intn(len(strIdx))]
	}
	for i := range sig {
		switch sig[i] {
		case 'u':
			out[i] = fu(genAbiU64(r))
		case 's':
			n := lenFn(r)
			inv := invalidMode && (i == forced || r.Chance(1, 3))
			if inv && n == 0 {
				n = 1 + r.Intn(5)
			}
			out[i] = fs(genStr(r, n, inv))
		case 'b':
			n := lenFn(r)
			// packet payloads are sometimes real nested encodings
			if ty == 0 && r.Chance(1, 3) {
				sub := 2
				if i == 5 {
					sub = 3
				}
				if c, enc := pack(fromFields(sub, genFields(r, sub, false, shortLen))); c == 0 {
					out[i] = fb(enc)
					continue
				}
			}
			out[i] = fb(genBytes(r, n))
		}
	}
	return out
}

func shortLen(r *hlib.Rand) int {
	switch r.Intn(6) {
	case 0:
		return 0
	case 1:
		return 32
	default:
		return 1 + r.Intn(44)
	}
}

// ---------------------------------------------------------------- abi

func genAbi(r *hlib.Rand) AbiSpec {
	ty := r.Intn(5)
	if r.Chance(1, 3) {
		ty = 0 // the packet is the type that is committed to
	}
	return AbiSpec{Ty: ty, Fields: genFields(r, ty, r.Chance(15, 100), genLen)}
}

// ---------------------------------------------------------------- abiraw

func word(v uint64) []byte {
	w := make([]byte, 32)
	binary.BigEndian.PutUint64(w[24:], v)
	return w
}

func wordBig(v *big.Int) []byte {
	w := make([]byte, 32)
	b := v.Bytes()
	if len(b) > 32 {
		b = b[len(b)-32:]
	}
	copy(w[32-len(b):], b)
	return w
}

func getWord(b []byte, pos int) (uint64, bool) {
	if pos < 0 || pos+32 > len(b) {
		return 0, false
	}
	return binary.BigEndian.Uint64(b[pos+24 : pos+32]), true
}

func setWord(b []byte, pos int, w []byte) bool {
	if pos < 0 || pos+32 > len(b) {
		return false
	}
	copy(b[pos:pos+32], w)
	return true
}

func pad32(n uint64) uint64 { return (n + 31) / 32 * 32 }

// dynInfo: layout of one dynamic field of a canonical encoding
type dynInfo struct {
	field   int
	offPos  int    // position of the offset word
	off     uint64 // its value (relative to the tuple start = 32)
	tailPos int    // position of the length word
	length  uint64
}

func layoutOf(b []byte, sig string) []dynInfo {
	var out []dynInfo
	for i := range sig {
		if sig[i] == 'u' {
			continue
		}
		offPos := 32 + 32*i
		off, ok := getWord(b, offPos)
		if !ok {
			return nil
		}
		tailPos := 32 + int(off)
		l, ok := getWord(b, tailPos)
		if !ok {
			return nil
		}
		out = append(out, dynInfo{i, offPos, off, tailPos, l})
	}
	return out
}

func hugeWord(r *hlib.Rand, total int) []byte {
	switch r.Intn(8) {
	case 0:
		return wordBig(new(big.Int).Lsh(big.NewInt(1), 63))
	case 1:
		return wordBig(new(big.Int).Lsh(big.NewInt(1), 255))
	case 2:
		return word(uint64(total + 1))
	case 3:
		return word(uint64(total - 31))
	case 4:
		return word(uint64(total))
	case 5:
		return word(uint64(total - 32))
	case 6:
		return wordBig(new(big.Int).Lsh(big.NewInt(1), 64))
	default:
		return wordBig(new(big.Int).Sub(new(big.Int).Lsh(big.NewInt(1), 256), big.NewInt(1)))
	}
}

// mutate applies one mutation to a (so far possibly already mutated) canonical encoding; lay is the layout of
// the ORIGINAL canonical encoding.  Returns false when the mutation is not applicable.
func mutate(r *hlib.Rand, b []byte, sig string, lay []dynInfo) ([]byte, bool) {
	b = append([]byte{}, b...)
	n := len(sig)
	switch r.Intn(12) {
	case 0: // flip a padding byte to non-zero
		var cand []dynInfo
		for _, d := range lay {
			if d.length%32 != 0 {
				cand = append(cand, d)
			}
		}
		if len(cand) == 0 {
			return b, false
		}
		d := cand[r.Intn(len(cand))]
		padLen := int(pad32(d.length) - d.length)
		pos := d.tailPos + 32 + int(d.length) + r.Intn(padLen)
		if r.Chance(1, 3) {
			pos = d.tailPos + 32 + int(pad32(d.length)) - 1 // the very last padding byte
		}
		if pos >= len(b) {
			return b, false
		}
		b[pos] = byte(1 + r.Intn(255))
		return b, true
	case 1: // append 1..64 trailing bytes
		k := 1 + r.Intn(64)
		if r.Chance(1, 3) {
			k = 32
		}
		if r.Bool() {
			return append(b, make([]byte, k)...), true
		}
		return append(b, r.Bytes(k)...), true
	case 2: // truncate by 1..40 bytes
		k := 1 + r.Intn(40)
		if k > len(b) {
			return b, false
		}
		return b[:len(b)-k], true
	case 3: // set high bytes (0..23) of a uint64 word
		var cand []int
		for i := range sig {
			if sig[i] == 'u' {
				cand = append(cand, i)
			}
		}
		if len(cand) == 0 {
			return b, false
		}
		pos := 32 + 32*cand[r.Intn(len(cand))]
		if pos+32 > len(b) {
			return b, false
		}
		b[pos+r.Intn(24)] = byte(1 + r.Intn(255))
		if r.Chance(1, 4) {
			b[pos+23] = 1 // 2^64 + v
		}
		return b, true
	case 4, 5: // overwrite an offset word
		if len(lay) == 0 {
			return b, false
		}
		d := lay[r.Intn(len(lay))]
		var w []byte
		switch r.Intn(5) {
		case 0: // aliasing: another field's offset
			o := lay[r.Intn(len(lay))]
			if o.field == d.field {
				return b, false
			}
			w = word(o.off)
		case 1:
			w = word(d.off + 1)
		case 2:
			w = word(d.off - 32) // points into the head / previous tail
		case 3:
			w = word(d.off + 32)
		default:
			w = hugeWord(r, len(b))
		}
		return b, setWord(b, d.offPos, w)
	case 6: // overwrite a length word
		if len(lay) == 0 {
			return b, false
		}
		d := lay[r.Intn(len(lay))]
		var w []byte
		switch r.Intn(6) {
		case 0:
			w = word(d.length + 1)
		case 1:
			w = wordBig(new(big.Int).Lsh(big.NewInt(1), 64))
		case 2:
			w = word(1<<63 - 1)
		case 3:
			if d.length == 0 {
				return b, false
			}
			w = word(d.length - 1)
		case 4:
			w = word(pad32(d.length) + 32)
		default:
			w = wordBig(new(big.Int).Add(new(big.Int).Lsh(big.NewInt(1), 64), new(big.Int).SetUint64(d.length))) // 2^64 + len
		}
		return b, setWord(b, d.tailPos, w)
	case 7: // change the first word (outer offset 32)
		vals := []uint64{0, 31, 33, 64, uint64(len(b)), uint64(len(b) + 1), 1}
		return b, setWord(b, 0, word(vals[r.Intn(len(vals))]))
	case 8: // swap two tails, re-pointing the offsets (out-of-order tails)
		if len(lay) < 2 {
			return b, false
		}
		return relayout(r, b, n, lay, true, false)
	case 9: // a gap between head and tails (offsets re-pointed): lenient decoders accept it
		if len(lay) == 0 {
			return b, false
		}
		return relayout(r, b, n, lay, false, true)
	case 10: // shift the outer tuple: first word 64 and one extra word in front of the tuple
		if len(b) < 32 {
			return b, false
		}
		nb := append([]byte{}, word(64)...)
		nb = append(nb, r.Bytes(32)...)
		nb = append(nb, b[32:]...)
		return nb, true
	default: // flip one random bit anywhere
		if len(b) == 0 {
			return b, false
		}
		b[r.Intn(len(b))] ^= 1 << uint(r.Intn(8))
		return b, true
	}
}

// relayout rebuilds an encoding from the head and the tails of b (positions taken from the canonical layout),
// with the tails permuted and/or a gap in front of them, and offsets pointing to the new positions.
func relayout(r *hlib.Rand, b []byte, n int, lay []dynInfo, swap, gap bool) ([]byte, bool) {
	headEnd := 32 + 32*n
	if len(b) < headEnd {
		return b, false
	}
	tails := make([][]byte, len(lay))
	for i, d := range lay {
		end := d.tailPos + 32 + int(pad32(d.length))
		if d.tailPos < headEnd || end > len(b) {
			return b, false
		}
		tails[i] = b[d.tailPos:end]
	}
	order := make([]int, len(lay))
	for i := range order {
		order[i] = i
	}
	if swap {
		i := r.Intn(len(order))
		j := r.Intn(len(order) - 1)
		if j >= i {
			j++
		}
		order[i], order[j] = order[j], order[i]
	}
	out := append([]byte{}, b[:headEnd]...)
	if gap {
		k := 32 * (1 + r.Intn(2))
		if r.Chance(1, 4) {
			k = 1 + r.Intn(31) // unaligned tails
		}
		out = append(out, r.Bytes(k)...)
	}
	for _, idx := range order {
		setWord(out, lay[idx].offPos, word(uint64(len(out)-32)))
		out = append(out, tails[idx]...)
	}
	return out, true
}

func genAbiRaw(r *hlib.Rand) AbiRawSpec {
	ty := r.Intn(5)
	if r.Chance(1, 3) {
		ty = 0
	}
	canon := func(t int) []byte {
		c, enc := pack(fromFields(t, genFields(r, t, r.Chance(1, 20), shortOrBoundaryLen)))
		if c != 0 {
			return nil
		}
		return enc
	}
	var in []byte
	switch x := r.Intn(100); {
	case x < 4:
		in = nil
	case x < 8:
		in = r.Bytes(1 + r.Intn(31))
	case x < 15:
		in = r.Bytes(32 * (1 + r.Intn(12)))
		if r.Bool() { // plausible first word
			copy(in, word(32))
		}
	case x < 25: // the canonical encoding of ANOTHER type
		o := r.Intn(4)
		if o >= ty {
			o++
		}
		in = canon(o)
	case x < 28: // unmutated canonical encoding
		in = canon(ty)
	default:
		in = canon(ty)
		lay := layoutOf(in, abiSigs[ty])
		k := 1 + r.Intn(3)
		for done, tries := 0, 0; done < k && tries < 20; tries++ {
			nb, ok := mutate(r, in, abiSigs[ty], lay)
			if ok {
				in = nb
				done++
			}
		}
	}
	return AbiRawSpec{Ty: ty, Input: hlib.Hex(in)}
}

func shortOrBoundaryLen(r *hlib.Rand) int {
	if r.Chance(1, 4) {
		return genLen(r) % 130
	}
	return shortLen(r)
}

// ---------------------------------------------------------------- commit

func genCommit(r *hlib.Rand) CommitSpec {
	p := genFields(r, 0, r.Chance(1, 10), shortLen)
	q := append([]F{}, p...)
	raw := func(f F) []byte { return hlib.UnHex(f.V) }
	switch x := r.Intn(10); {
	case x == 0: // identical
	case x <= 4: // one field changed slightly
		i := r.Intn(len(q))
		if q[i].T == "u" {
			v := q[i].U()
			switch r.Intn(3) {
			case 0:
				v++
			case 1:
				v ^= 1 << uint(r.Intn(64))
			default:
				v += 1 << 32
			}
			q[i] = fu(v)
		} else {
			b := append([]byte{}, raw(q[i])...)
			switch r.Intn(5) {
			case 0:
				b = append(b, 0) // trailing zero byte: same padded data, other length
			case 1:
				b = append(b, asciiByte(r))
			case 2:
				if len(b) > 0 {
					b = b[:len(b)-1]
				} else {
					b = []byte{0}
				}
			case 3:
				if len(b) > 0 {
					b[r.Intn(len(b))] ^= 1 << uint(r.Intn(7))
				} else {
					b = []byte{'a'}
				}
			default:
				b = append([]byte{asciiByte(r)}, b...)
			}
			q[i] = F{q[i].T, hlib.Hex(b)}
		}
	case x <= 7: // bytes moved across a field boundary
		pairs := [][2]int{{0, 1}, {0, 1}, {1, 3}, {3, 4}, {4, 5}, {5, 6}, {3, 6}}
		pr := pairs[r.Intn(len(pairs))]
		a, b := raw(q[pr[0]]), raw(q[pr[1]])
		if len(a) == 0 && len(b) == 0 {
			a = []byte("ab")
			b = []byte("c")
			p[pr[0]] = F{p[pr[0]].T, hlib.Hex(a)}
			p[pr[1]] = F{p[pr[1]].T, hlib.Hex(b)}
		}
		var na, nb []byte
		if len(a) > 0 && (len(b) == 0 || r.Bool()) {
			k := 1 + r.Intn(len(a))
			na = a[:len(a)-k]
			nb = append(append([]byte{}, a[len(a)-k:]...), b...)
		} else {
			k := 1 + r.Intn(len(b))
			na = append(append([]byte{}, a...), b[:k]...)
			nb = b[k:]
		}
		q[pr[0]] = F{q[pr[0]].T, hlib.Hex(na)}
		q[pr[1]] = F{q[pr[1]].T, hlib.Hex(nb)}
	default: // two fields of the same type swapped
		sw := [][2]int{{0, 1}, {4, 5}, {2, 7}, {3, 6}, {0, 3}}
		pr := sw[r.Intn(len(sw))]
		q[pr[0]], q[pr[1]] = q[pr[1]], q[pr[0]]
	}
	return CommitSpec{P: p, Q: q}
}

// ---------------------------------------------------------------- names, uint64 and hashes for keys

const validChars = "abcdefghijklmnopqrstuvwxyzABCDEFGHIJKLMNOPQRSTUVWXYZ0123456789._+-#[]<>"
const validPunct = "._+-#[]<>"

var wellKnown = []string{"teleport", "bsc-testnet", "eth", "rinkeby", "chain-A", "teleport_9000-1", "qa-net.3", "bsc", "arbitrum#1", "tss[0]", "<x>"}

func pick(r *hlib.Rand, alphabet string, n int) string {
	b := make([]byte, n)
	for i := range b {
		b[i] = alphabet[r.Intn(len(alphabet))]
	}
	return string(b)
}

func genValidName(r *hlib.Rand) string {
	n := 3 + r.Intn(10)
	switch r.Intn(10) {
	case 0:
		n = 3
	case 1:
		n = 4
	case 2:
		n = 63
	case 3:
		n = 64
	case 4:
		n = 3 + r.Intn(62)
	}
	switch r.Intn(20) {
	case 0, 1, 2:
		return pick(r, validPunct, n)
	case 3, 4:
		return pick(r, "0123456789", n)
	case 5, 6, 7:
		return wellKnown[r.Intn(len(wellKnown))]
	case 8:
		return strings.Repeat(string(validPunct[r.Intn(len(validPunct))]), n) // "...", "###"
	default:
		return pick(r, validChars, n)
	}
}

func genBadName(r *hlib.Rand) string {
	switch r.Intn(24) {
	case 0:
		return ""
	case 1:
		return "/"
	case 2:
		return genValidName(r) + "/" + genValidName(r)
	case 3:
		return genValidName(r) + "/"
	case 4:
		return "/" + genValidName(r)
	case 5:
		return "abc def"
	case 6:
		return " " + genValidName(r)
	case 7:
		return genValidName(r) + " "
	case 8:
		return pick(r, validChars, 65)
	case 9:
		return pick(r, validChars, 1+r.Intn(2))
	case 10:
		return "caf\u00e9-net"
	case 11:
		return "abc\x00"
	case 12:
		return "\x00\x00\x00"
	case 13:
		return strings.Repeat(" ", 1+r.Intn(5))
	case 14:
		return pick(r, "\t\n\r ", 1+r.Intn(5))
	case 15:
		return genValidName(r) + "\n"
	case 16:
		return strings.Repeat("\xa0", 3)
	case 17:
		return strings.Repeat("\u00a0", 2)
	case 18:
		return "abc*"
	case 19:
		return "a,b,c"
	case 20:
		return "consensusStates/" + genValidName(r)
	case 21:
		return genValidName(r) + "/clientState"
	case 22:
		return pick(r, validChars, 100+r.Intn(100))
	default:
		return string(r.Bytes(1 + r.Intn(12)))
	}
}

func genChainArg(r *hlib.Rand) string {
	if r.Chance(1, 5) {
		return genBadName(r)
	}
	return genValidName(r)
}

var keyU64s = []uint64{0, 1, 47, 303, 12032, ^uint64(0), 0x2F2F2F2F2F2F2F2F, 0x2F00000000000000, 0x2F636C69, 0x656E745374617465,
	2, 10, 46, 48, 100, 1 << 32, 1 << 63}

func genKeyU64(r *hlib.Rand) uint64 {
	switch r.Intn(10) {
	case 0, 1, 2, 3, 4:
		return keyU64s[r.Intn(len(keyU64s))]
	case 5, 6: // 0x2f at one byte position, the other bytes zero / random
		pos := uint(8 * r.Intn(8))
		v := uint64(0)
		if r.Bool() {
			v = r.U64()
		}
		return v&^(0xff<<pos) | 0x2f<<pos
	case 7:
		return uint64(r.Intn(100000))
	default:
		return r.U64()
	}
}

func hasSlash(v uint64) bool {
	for i := 0; i < 8; i++ {
		if byte(v>>(8*uint(i))) == 0x2f {
			return true
		}
	}
	return false
}

func genHash(r *hlib.Rand) []byte {
	switch r.Intn(8) {
	case 0:
		return bytes.Repeat([]byte{0x2f}, 32)
	case 1:
		return make([]byte, 32)
	case 2:
		return r.Bytes(20) // short: left-padded by BytesToHash
	default:
		return r.Bytes(32)
	}
}

func genSeq(r *hlib.Rand) uint64 {
	if r.Chance(1, 6) {
		return boundarySeqs[r.Intn(len(boundarySeqs))]
	}
	switch r.Intn(8) {
	case 0:
		return 0
	case 1, 2:
		return 1
	case 3:
		return 47
	case 4:
		return ^uint64(0)
	case 5:
		return uint64(r.Intn(1000))
	default:
		return genKeyU64(r)
	}
}

// ---------------------------------------------------------------- key

func genArgs(r *hlib.Rand, fn, sig string) []F {
	out := []F{}
	for i := range sig {
		switch sig[i] {
		case 's':
			if fn == "host.FullClientPath" && i == 1 {
				out = append(out, fs(string(genPath(r))))
			} else {
				out = append(out, fs(genChainArg(r)))
			}
		case 'u':
			if sig == "ssu" {
				out = append(out, fu(genSeq(r)))
			} else {
				out = append(out, fu(genKeyU64(r)))
			}
		case 'b':
			if strings.HasPrefix(fn, "eth.") {
				out = append(out, fb(genHash(r)))
			} else {
				out = append(out, fb(genPath(r)))
			}
		}
	}
	return out
}

func genHeight(r *hlib.Rand) clienttypes.Height {
	return clienttypes.NewHeight(genKeyU64(r), genKeyU64(r))
}

// genPath: a client-store-relative key
func genPath(r *hlib.Rand) []byte {
	switch r.Intn(8) {
	case 0:
		return host.ClientStateKey()
	case 1, 2:
		return host.ConsensusStateKey(genHeight(r))
	case 3:
		return tmclient.ProcessedTimeKey(genHeight(r))
	case 4:
		return tmclient.IterationKey(genHeight(r))
	case 5:
		return []byte("recentSingers/" + genHeight(r).String())
	case 6:
		return nil
	default:
		return r.Bytes(1 + r.Intn(24))
	}
}

func genKey(r *hlib.Rand) KeySpec {
	fn := keyFnNames[r.Intn(len(keyFnNames))]
	if keyFns[fn].sig == "" && !r.Chance(1, 5) { // constant builders: fewer cases
		fn = keyFnNames[r.Intn(len(keyFnNames))]
	}
	return KeySpec{Fn: fn, Args: genArgs(r, fn, keyFns[fn].sig)}
}

// ---------------------------------------------------------------- name

const asciiPunct = "!\"#$%&'()*+,-./:;<=>?@[\\]^_`{|}~"

func genName(r *hlib.Rand) NameSpec {
	var s string
	switch r.Intn(12) {
	case 0, 1, 2:
		s = genValidName(r)
	case 3, 4:
		s = genBadName(r)
	case 5: // lengths 0,1,2,3,64,65
		s = pick(r, validChars, []int{0, 1, 2, 3, 64, 65}[r.Intn(6)])
	case 6, 7: // every single punctuation char of ASCII inside / in front / at the end
		c := string(asciiPunct[r.Intn(len(asciiPunct))])
		switch r.Intn(4) {
		case 0:
			s = c + pick(r, validChars, 2+r.Intn(5))
		case 1:
			s = pick(r, validChars, 2+r.Intn(5)) + c
		case 2:
			s = strings.Repeat(c, 3+r.Intn(3))
		default:
			s = pick(r, validChars, 1+r.Intn(4)) + c + pick(r, validChars, 1+r.Intn(4))
		}
	case 8: // whitespace only / around
		ws := []string{" ", "\t", "\n", "\r", "\v", "\f", "\xa0", "\u00a0", "\u2003", "\u0085", "\u3000", "\ufeff"}
		w := ws[r.Intn(len(ws))]
		switch r.Intn(4) {
		case 0:
			s = strings.Repeat(w, 1+r.Intn(5))
		case 1:
			s = w + genValidName(r)
		case 2:
			s = genValidName(r) + w
		default:
			s = w + w + w
		}
	case 9: // control / high bytes inside
		b := []byte(pick(r, validChars, 3+r.Intn(8)))
		b[r.Intn(len(b))] = []byte{0x00, 0x1f, 0x7f, 0x80, 0xff, 0x0a, 0x2f}[r.Intn(7)]
		s = string(b)
	case 10: // a 64 / 65 byte name by multi-byte characters
		s = strings.Repeat("\u00e9", 32)
		if r.Bool() {
			s = pick(r, validChars, 63) + "\u00e9"
		}
	default:
		s = string(r.Bytes(r.Intn(70)))
	}
	return NameSpec{S: hlib.Hex([]byte(s))}
}

// ---------------------------------------------------------------- parse

func mutateBytes(r *hlib.Rand, b []byte) []byte {
	b = append([]byte{}, b...)
	switch r.Intn(8) {
	case 0: // one byte short
		if len(b) > 0 {
			return b[:len(b)-1]
		}
		return b
	case 1: // one byte long
		return append(b, byte(r.U64()))
	case 2: // truncated somewhere
		return b[:r.Intn(len(b)+1)]
	case 3: // first byte dropped
		if len(b) > 0 {
			return b[1:]
		}
		return b
	case 4: // separators removed
		return bytes.ReplaceAll(b, []byte("/"), nil)
	case 5: // one byte changed
		if len(b) > 0 {
			b[r.Intn(len(b))] ^= byte(1 + r.Intn(255))
		}
		return b
	case 6: // separator doubled
		return bytes.Replace(b, []byte("/"), []byte("//"), 1)
	default:
		return append(b, r.Bytes(1+r.Intn(20))...)
	}
}

var heightStrings = []string{"007-1", "+1-2", "1-2-3", "18446744073709551616-0", "", "-", "1-", "-1", "1", "0x1-2", " 1-2", "1-2 ", "1--2",
	"-1-2", "18446744073709551615-18446744073709551615", "0-18446744073709551616", "1_0-2", "\u0661-\u0662", "1-2\n", "0-0", "00-00", "1e3-1",
	"1-+2", "1.0-2", "1\u20132", "99999999999999999999-1", "1-0000000000000000000000047", "-0-1", "0--1"}

func genParse(r *hlib.Rand) ParseSpec {
	fn := parseFnNames[r.Intn(len(parseFnNames))]
	good := r.Chance(6, 10)
	var in []byte
	switch fn {
	case "host.ParseClientKey":
		if r.Bool() {
			in = host.FullClientKey(genChainArg(r), genPath(r))
		} else {
			in = host.FullConsensusStateKey(genChainArg(r), genHeight(r))
		}
		if !good {
			switch r.Intn(10) {
			case 0:
				in = []byte("clients")
			case 1:
				in = []byte("clients/")
			case 2:
				in = []byte("clients/" + genValidName(r))
			case 3:
				in = append([]byte("client/"), in[len("clients/"):]...)
			case 4:
				in = in[len("clients/"):]
			case 5:
				in = append([]byte("clients"), in[len("clients/"):]...) // no separator after the prefix
			case 6:
				in = r.Bytes(r.Intn(40))
			default:
				in = mutateBytes(r, in)
			}
		}
	case "host.ParseConsensusStateKey":
		h := genHeight(r)
		in = host.ConsensusStateKey(h)
		if !good {
			switch r.Intn(10) {
			case 0:
				in = tmclient.ProcessedTimeKey(h)
			case 1:
				in = []byte("consensusStates/")
			case 2:
				in = append([]byte("consensusStates"), in[len("consensusStates/"):]...)
			case 3:
				in = append([]byte("consensusStatez/"), in[len("consensusStates/"):]...)
			case 4:
				in = tmclient.IterationKey(h)
			case 5:
				in = []byte(host.ConsensusStatePath(h))
			case 6:
				in = r.Bytes(len(in))
			case 7:
				in = host.FullConsensusStateKey(genValidName(r), h)
			default:
				in = mutateBytes(r, in)
			}
		}
	case "host.ParsePath":
		a, b, q := genChainArg(r), genChainArg(r), genSeq(r)
		switch r.Intn(6) {
		case 0:
			in = []byte(host.PacketCommitmentPath(a, b, q))
		case 1:
			in = []byte(host.PacketAcknowledgementPath(a, b, q))
		case 2:
			in = []byte(host.PacketReceiptPath(a, b, q))
		case 3:
			in = []byte(host.NextSequenceSendPath(a, b))
		case 4:
			in = []byte(host.PacketRelayerPath(a, b, q))
		default:
			in = []byte(host.PacketCommitmentPrefixPath(a, b))
		}
		if !good {
			fixed := []string{"", "a", "a/b", "a/b/c", "/", "//", "///", "nextSequenceSend", "nextSequenceSend/", "nextSequenceSend/a", "nextSequenceSend//"}
			switch r.Intn(4) {
			case 0:
				in = []byte(fixed[r.Intn(len(fixed))])
			case 1:
				in = r.Bytes(r.Intn(30))
			default:
				in = mutateBytes(r, in)
			}
		}
	case "clienttypes.ParseHeight":
		in = []byte(genHeight(r).String())
		if !good {
			switch r.Intn(4) {
			case 0:
				in = mutateBytes(r, in)
			case 1:
				in = r.Bytes(r.Intn(12))
			default:
				in = []byte(heightStrings[r.Intn(len(heightStrings))])
			}
		}
	case "tm.GetHeightFromIterationKey":
		h := genHeight(r)
		in = tmclient.IterationKey(h)
		if !good {
			p := len(tmclient.KeyIterateConsensusStatePrefix)
			switch r.Intn(10) {
			case 0:
				in = in[:p]
			case 1:
				in = in[:p+8]
			case 2:
				in = in[:p+15]
			case 3:
				in = append(in, byte(r.U64()))
			case 4:
				in = nil
			case 5:
				in = host.ConsensusStateKey(h)
			case 6:
				in = in[:r.Intn(p)]
			case 7:
				in = r.Bytes(r.Intn(50))
			default:
				in = mutateBytes(r, in)
			}
		}
	default: // bsc / eth GetHeightFromIterationKey: consensus state keys
		h := genHeight(r)
		in = host.ConsensusStateKey(h)
		if !good {
			p := len("consensusStates/")
			switch r.Intn(10) {
			case 0:
				in = in[:p]
			case 1:
				in = in[:p-1]
			case 2:
				in = in[:p+8]
			case 3:
				in = in[:p+15]
			case 4:
				in = append(in, byte(r.U64()))
			case 5:
				in = tmclient.ProcessedTimeKey(h)
			case 6:
				in = nil
			case 7:
				in = r.Bytes(r.Intn(50))
			case 8:
				in = in[:p+1+r.Intn(7)]
			default:
				in = mutateBytes(r, in)
			}
		}
	}
	return ParseSpec{Fn: fn, Input: hlib.Hex(in)}
}

// ---------------------------------------------------------------- iter

var slashHeights = [][2]uint64{
	{0, 47}, {47, 9}, {303, 303}, {0x2F636C69, 0x656E745374617465}, {0, 12032}, {1, 0x2F2F2F2F2F2F2F2F}, {0x2F00000000000000, 1},
	{0, 303}, {47, 47}, {0x2F2F2F2F2F2F2F2F, 0x2F2F2F2F2F2F2F2F}, {1, 47}, {0, 0x2F00}, {0, 0x2F0000}, {12032, 0},
	{0, 0x2F70726F63657373}, // "/process"
}

var advHeightsCache [][2]uint64

func genIterHeight(r *hlib.Rand) [2]uint64 {
	if advHeightsCache == nil {
		advHeightsCache = advHeights()
	}
	switch r.Intn(20) {
	case 0, 1, 2, 3, 4:
		return slashHeights[r.Intn(len(slashHeights))]
	case 5, 6, 7, 8: // heights spelling the suffixes / prefixes of the client-store key families (corpus.go)
		return advHeightsCache[r.Intn(len(advHeightsCache))]
	case 9, 10:
		pos := uint(8 * r.Intn(8))
		return [2]uint64{uint64(r.Intn(3)), uint64(r.Intn(1000))&^(0xff<<pos) | 0x2f<<pos}
	case 11:
		return [2]uint64{0, 0}
	case 12:
		return [2]uint64{^uint64(0), ^uint64(0)}
	case 13, 14, 15, 16:
		return [2]uint64{uint64(r.Intn(3)), uint64(1 + r.Intn(300))}
	default:
		return [2]uint64{genKeyU64(r), genKeyU64(r)}
	}
}

func genHeightList(r *hlib.Rand, max int) [][2]string {
	n := r.Intn(max + 1)
	out := [][2]string{}
	seen := map[[2]uint64]bool{}
	slash := 0
	for tries := 0; len(out) < n && tries < 50; tries++ {
		h := genIterHeight(r)
		// at least half of the heights contain a 0x2f byte
		if !(hasSlash(h[0]) || hasSlash(h[1])) && 2*slash < len(out)+1 {
			continue
		}
		if seen[h] {
			continue
		}
		seen[h] = true
		if hasSlash(h[0]) || hasSlash(h[1]) {
			slash++
		}
		out = append(out, [2]string{us(h[0]), us(h[1])})
	}
	return out
}

func genIter(r *hlib.Rand) IterSpec {
	s := IterSpec{Clients: []ClientSpec{}, Commitments: [][3]string{}, Acks: [][3]string{}, Receipts: [][3]string{}, NextSeq: [][3]string{}, Relayers: []string{}}
	if r.Chance(1, 10) {
		return s // everything empty
	}
	nc := 1 + r.Intn(3)
	names := []string{}
	seen := map[string]bool{}
	for len(names) < nc {
		nm := genValidName(r)
		if len(names) > 0 && r.Chance(1, 4) {
			// a name that extends / is a prefix of an earlier one (prefix-store separation)
			base := names[r.Intn(len(names))]
			if len(base) < 64 && r.Bool() {
				nm = base + string(validChars[r.Intn(len(validChars))])
			} else if len(base) > 3 {
				nm = base[:len(base)-1]
			}
		}
		if seen[nm] {
			continue
		}
		seen[nm] = true
		names = append(names, nm)
	}
	types := []string{"tm", "bsc", "eth"}
	for _, nm := range names {
		c := ClientSpec{Name: hlib.Hex([]byte(nm)), Type: types[r.Intn(3)], Heights: genHeightList(r, 5)}
		if c.Type == "bsc" {
			c.Signers = genHeightList(r, 4)
			c.Pending = r.Bool()
		}
		if c.Type == "eth" {
			seenE := map[string]bool{}
			for i, n := 0, r.Intn(4); i < n; i++ {
				h := genHash(r)
				if len(h) != 32 {
					h = append(make([]byte, 32-len(h)), h...)
				}
				e := [3]string{hlib.Hex(genHash32(r)), hlib.Hex(h), us(genSeq(r))}
				// one entry per (root, height) and per (hash, height): a second write of the same key replaces the value
				if seenE[e[0]+e[2]] || seenE[e[1]+e[2]] {
					continue
				}
				seenE[e[0]+e[2]], seenE[e[1]+e[2]] = true, true
				c.EthEntries = append(c.EthEntries, e)
			}
		}
		if r.Chance(1, 6) { // raw metadata imported through SetAllClientMetadata: keys the builders never produce
			seenR := map[string]bool{}
			for i, n := 0, 1+r.Intn(3); i < n; i++ {
				k := genRawKey(r)
				if len(k) == 0 || string(k) == host.KeyClientState || seenR[string(k)] {
					continue
				}
				seenR[string(k)] = true
				c.Raw = append(c.Raw, hlib.Hex(k))
			}
		}
		s.Clients = append(s.Clients, c)
	}
	chain := func() string {
		if r.Chance(1, 3) {
			return names[r.Intn(len(names))]
		}
		return genValidName(r)
	}
	fam := func() [][3]string {
		out := [][3]string{}
		seen := map[[3]string]bool{}
		n := r.Intn(5)
		for tries := 0; len(out) < n && tries < 20; tries++ {
			t := [3]string{hlib.Hex([]byte(chain())), hlib.Hex([]byte(chain())), us(genSeq(r))}
			if len(out) > 0 && r.Chance(1, 3) { // same path, another sequence
				t[0], t[1] = out[0][0], out[0][1]
			}
			if seen[t] {
				continue
			}
			seen[t] = true
			out = append(out, t)
		}
		return out
	}
	s.Commitments, s.Acks, s.Receipts = fam(), fam(), fam()
	if r.Chance(1, 2) {
		s.PRelayers = fam()
	}
	// by-path iteration: paths of written commitments, paths whose names extend / are cut from them, unrelated paths
	for i, n := 0, r.Intn(4); i < n; i++ {
		a, b := hlib.Hex([]byte(chain())), hlib.Hex([]byte(chain()))
		if len(s.Commitments) > 0 && r.Chance(2, 3) {
			t := s.Commitments[r.Intn(len(s.Commitments))]
			a, b = t[0], t[1]
			switch r.Intn(4) {
			case 0:
				b = b + hlib.Hex([]byte{validChars[r.Intn(len(validChars))]})
			case 1:
				if len(b) > 6 {
					b = b[:len(b)-2]
				}
			}
		}
		s.ByPath = append(s.ByPath, [2]string{a, b})
	}
	// next sequences: distinct paths
	{
		seenP := map[[2]string]bool{}
		for _, t := range fam() {
			p := [2]string{t[0], t[1]}
			if seenP[p] {
				continue
			}
			seenP[p] = true
			s.NextSeq = append(s.NextSeq, t)
		}
	}
	nr := r.Intn(3)
	seenR := map[string]bool{}
	for i := 0; i < nr; i++ {
		var a string
		switch r.Intn(3) {
		case 0:
			a = "teleport1" + pick(r, "qpzry9x8gf2tvdw0s3jn54khce6mua7l", 38)
		case 1:
			a = "0x" + hlib.Hex(r.Bytes(20))
		default:
			a = genValidName(r)
		}
		if seenR[a] {
			continue
		}
		seenR[a] = true
		s.Relayers = append(s.Relayers, hlib.Hex([]byte(a)))
	}
	return s
}

func genHash32(r *hlib.Rand) []byte {
	h := genHash(r)
	if len(h) != 32 {
		h = append(make([]byte, 32-len(h)), h...)
	}
	return h
}

// genRawKey: a client-store key as a genesis file could carry it: a builder key, or a damaged / foreign one
func genRawKey(r *hlib.Rand) []byte {
	lits := familyLiterals()
	switch r.Intn(6) {
	case 0:
		return genPath(r)
	case 1, 2:
		return mutateBytes(r, genPath(r))
	case 3: // a literal, bare or followed by a few bytes
		l := append([]byte{}, lits[r.Intn(len(lits))]...)
		if r.Bool() {
			l = append(l, r.Bytes(r.Intn(20))...)
		}
		return l
	case 4:
		return []byte(bsctypes.PrefixKeyRecentSingers + "/" + heightStrings[r.Intn(len(heightStrings))])
	default:
		return append(append([]byte(host.KeyConsensusStatePrefix+"/"), r.Bytes(r.Intn(20))...), lits[r.Intn(len(lits))]...)
	}
}

// ---------------------------------------------------------------- contract

func genContract(r *hlib.Rand) ContractSpec {
	s := ContractSpec{Token: "native", Dst: hlib.Hex([]byte(xibctesting.GetChainID(1)))}
	if r.Bool() {
		s.Token = "erc20"
	}
	if r.Chance(1, 25) {
		s.Dst = hlib.Hex([]byte(genValidName(r))) // unknown chain: the transaction fails
	}
	// receiver
	n := []int{0, 1, 31, 32, 33, 64, 20, 42, 42, 42}[r.Intn(10)]
	switch r.Intn(4) {
	case 0:
		s.Receiver = hlib.Hex(genValidStr(r, n, 1)) // multi-byte UTF-8
	case 1:
		s.Receiver = hlib.Hex(genValidStr(r, n, 2)) // JSON-special / control characters
	case 2:
		s.Receiver = hlib.Hex([]byte("0x" + hlib.Hex(r.Bytes(20))))
	default:
		s.Receiver = hlib.Hex(genValidStr(r, n, 0))
	}
	// amount
	switch r.Intn(8) {
	case 0:
		s.Amount = "1"
	case 1:
		s.Amount = "1000000000000000000"
	case 2:
		s.Amount = new(big.Int).Lsh(big.NewInt(1), 255).String()
	case 3:
		s.Amount = new(big.Int).Lsh(big.NewInt(1), uint(r.Intn(250))).String()
	case 4:
		s.Amount = new(big.Int).SetBytes(r.Bytes(1 + r.Intn(31))).String()
	case 5:
		s.Amount = "255" // 0xff, 0x0100: leading-byte boundaries of the amount bytes
	case 6:
		s.Amount = "256"
	default:
		s.Amount = us(uint64(1 + r.Intn(100000)))
	}
	s.HasCall = r.Chance(1, 2)
	if s.HasCall {
		switch r.Intn(4) {
		case 0:
			s.ContractAddress = hlib.Hex(genValidStr(r, []int{1, 31, 32, 33, 64}[r.Intn(5)], r.Intn(3)))
		default:
			s.ContractAddress = hlib.Hex([]byte("0x" + hlib.Hex(r.Bytes(20))))
		}
		s.CallData = hlib.Hex(genBytes(r, []int{0, 1, 31, 32, 33, 100, 4, 68}[r.Intn(8)]))
		if r.Chance(1, 3) {
			s.Amount = "0" // call only, no transfer
		}
	} else if r.Chance(1, 20) {
		s.Amount = "0" // neither transfer nor call
	}
	if r.Chance(1, 3) {
		s.Callback = hlib.Hex(r.Bytes(20))
	}
	switch r.Intn(5) {
	case 0:
		s.FeeOption = "0"
	case 1:
		s.FeeOption = "1"
	case 2:
		s.FeeOption = us(^uint64(0))
	case 3:
		s.FeeOption = us(uint64(r.Intn(4)))
	default:
		s.FeeOption = us(r.U64())
	}
	return s
}
