package main

import (
	"bytes"
	"crypto/sha256"
	"encoding/json"
	"time"

	sdk "github.com/cosmos/cosmos-sdk/types"
	"github.com/ethereum/go-ethereum/common"
	tmproto "github.com/tendermint/tendermint/proto/tendermint/types"

	"github.com/teleport-network/teleport/app"
	bsctypes "github.com/teleport-network/teleport/x/xibc/clients/light-clients/bsc/types"
	ethclient "github.com/teleport-network/teleport/x/xibc/clients/light-clients/eth/types"
	tmclient "github.com/teleport-network/teleport/x/xibc/clients/light-clients/tendermint/types"
	clienttypes "github.com/teleport-network/teleport/x/xibc/core/client/types"
	commitmenttypes "github.com/teleport-network/teleport/x/xibc/core/commitment/types"
	"github.com/teleport-network/teleport/x/xibc/core/host"
	packettypes "github.com/teleport-network/teleport/x/xibc/core/packet/types"
	"github.com/teleport-network/teleport/x/xibc/exported"

	"verifharness/hlib"
)

// env: ONE real app, built lazily; every case works on a CacheContext of base (never written back).
type env struct {
	app  *app.Teleport
	base sdk.Context
	key  sdk.StoreKey
}

var theEnv *env

func getEnv() *env {
	if theEnv == nil {
		a := app.Setup(false, nil)
		base := a.BaseApp.NewContext(false, tmproto.Header{Height: 1, ChainID: "teleport_9000-1", Time: time.Unix(1700000000, 0).UTC()})
		theEnv = &env{app: a, base: base, key: a.GetKey(host.StoreKey)}
	}
	return theEnv
}

type ClientSpec struct {
	Name    string      `json:"name"`
	Type    string      `json:"type"` // tm | bsc | eth
	Heights [][2]string `json:"heights"`
	Signers [][2]string `json:"signers,omitempty"` // bsc only
	Pending bool        `json:"pending,omitempty"` // bsc only: call SetPendingValidators
	// eth only: [root (32 bytes hex), header hash (32 bytes hex), height]: SetEthConsensusRoot + the header index entry
	EthEntries [][3]string `json:"eth_entries,omitempty"`
	// raw metadata keys (hex, relative to the client store) imported through ClientKeeper.SetAllClientMetadata
	// (the genesis-import path: any non-empty key).  Written last.  Never "clientState", never empty.
	Raw []string `json:"raw,omitempty"`
}

type IterSpec struct {
	Clients     []ClientSpec `json:"clients"`
	Commitments [][3]string  `json:"commitments"`
	Acks        [][3]string  `json:"acks"`
	Receipts    [][3]string  `json:"receipts"`
	NextSeq     [][3]string  `json:"nextseq"`
	Relayers    []string     `json:"relayers"`
	ByPath      [][2]string  `json:"by_path,omitempty"` // (src, dst) pairs for GetAllPacketCommitmentsByPath
	// packet relayer entries (SetPacketRelayer): no iterator exists for this family, every entry is read back by GetPacketRelayer
	PRelayers [][3]string `json:"prelayers,omitempty"`
}

type Items3 struct {
	Class int         `json:"class"`
	Items [][3]string `json:"items"`
}
type Items2 struct {
	Class int         `json:"class"`
	Items [][2]string `json:"items"`
}
type Items1 struct {
	Class int      `json:"class"`
	Items []string `json:"items"`
}
type KeysObs struct {
	Class int      `json:"class"`
	Keys  []string `json:"keys"`
	Vals  []string `json:"vals"`
}

// Entry: one metadata write as it reached the client store (key recorded by a recording store wrapper, or the raw key).
// Tag: 1 processed time, 2 iteration key, 3 recent signer, 4 pending validators, 5 eth header index, 6 eth root main, 7 raw
type Entry struct {
	Tag int    `json:"tag"`
	Key string `json:"key"`
	Val string `json:"val"`
}

type MetaObs struct {
	Name string   `json:"name"`
	Keys []string `json:"keys"`
	Vals []string `json:"vals"`
}

type AllMetaObs struct {
	Class int       `json:"class"`
	Items []MetaObs `json:"items"`
}
type CountObs struct {
	Class int `json:"class"`
	N     int `json:"n"`
}

type PerClient struct {
	Name      string   `json:"name"`
	Type      string   `json:"type"`
	StoreKeys []string `json:"store_keys"`
	PTime     KeysObs  `json:"ptime"`
	TmAsc     Items2   `json:"tm_asc"`
	EvmAsc    Items2   `json:"evm_asc"`
	EthAsc    Items2   `json:"eth_asc"`
	Signers   Items2   `json:"signers"`
	Written   []Entry  `json:"written"`
	ExpTm     KeysObs  `json:"exp_tm"`  // tendermint ClientState.ExportMetadata on this store
	ExpBsc    KeysObs  `json:"exp_bsc"` // bsc ClientState.ExportMetadata
	ExpEth    KeysObs  `json:"exp_eth"` // eth ClientState.ExportMetadata
	// keys left under the recent-signer prefix after bsc DeleteAllSigner on a branch of the store
	SignersLeft KeysObs `json:"signers_left"`
}

type IterObs struct {
	SetupClass  int         `json:"setup_class"` // 0: every write of the procedure returned; 2: one of them panicked
	BaseKeys    []string    `json:"base_keys"`   // keys of the xibc store before the case writes anything
	StoreKeys   []string    `json:"store_keys"`
	Cons        Items3      `json:"cons"`
	Clients     Items1      `json:"clients"`
	PerClient   []PerClient `json:"per_client"`
	Commitments Items3      `json:"commitments"`
	Acks        Items3      `json:"acks"`
	Receipts    Items3      `json:"receipts"`
	NextSeq     Items3      `json:"nextseq"`
	Relayers    CountObs    `json:"relayers"`
	AllMeta     AllMetaObs  `json:"all_meta"` // ClientKeeper.GetAllClientMetadata(GetAllGenesisClients)
	ByPath      []Items3    `json:"by_path"`  // GetAllPacketCommitmentsByPath per requested (src, dst)
	// GetPacketRelayer of every written (src, dst, seq), in spec order: class and the value read (hex)
	PRelayers KeysObs `json:"prelayers"`
}

// recStore records every Set that reaches the wrapped store.
type recStore struct {
	sdk.KVStore
	tag int
	log *[]Entry
}

func (r recStore) Set(key, value []byte) {
	*r.log = append(*r.log, Entry{Tag: r.tag, Key: hlib.Hex(key), Val: hlib.Hex(value)})
	r.KVStore.Set(key, value)
}

// valid client / consensus state values (they only have to marshal and unmarshal)
func clientStateOf(typ string) exported.ClientState {
	switch typ {
	case "tm":
		return &tmclient.ClientState{
			ChainId:         "testchain-1",
			TrustLevel:      tmclient.Fraction{Numerator: 1, Denominator: 3},
			TrustingPeriod:  14 * 24 * time.Hour,
			UnbondingPeriod: 21 * 24 * time.Hour,
			MaxClockDrift:   10 * time.Second,
			LatestHeight:    clienttypes.NewHeight(1, 10),
			ProofSpecs:      commitmenttypes.GetSDKSpecs(),
			MerklePrefix:    commitmenttypes.MerklePrefix{KeyPrefix: []byte("xibc")},
		}
	case "bsc":
		return &bsctypes.ClientState{
			Header: bsctypes.Header{
				ParentHash: bytes.Repeat([]byte{1}, 32), UncleHash: bytes.Repeat([]byte{2}, 32), Coinbase: bytes.Repeat([]byte{2}, 20),
				Root: bytes.Repeat([]byte{3}, 32), TxHash: bytes.Repeat([]byte{4}, 32), ReceiptHash: bytes.Repeat([]byte{5}, 32),
				Bloom: bytes.Repeat([]byte{6}, 256), Difficulty: []byte{2}, Height: clienttypes.NewHeight(0, 200),
				GasLimit: 30000000, GasUsed: 1, Time: 1700000000, Extra: bytes.Repeat([]byte{0x11}, 97),
				MixDigest: bytes.Repeat([]byte{0}, 32), Nonce: bytes.Repeat([]byte{0}, 8),
			},
			ChainId: 97, Epoch: 200, BlockInteval: 3,
			Validators: [][]byte{bytes.Repeat([]byte{9}, 20)}, ContractAddress: bytes.Repeat([]byte{8}, 20), TrustingPeriod: 200,
		}
	case "eth":
		return &ethclient.ClientState{Header: ethHeader(100), ChainId: 4, ContractAddress: bytes.Repeat([]byte{8}, 20),
			TrustingPeriod: 200, TimeDelay: 1, BlockDelay: 1}
	}
	bad("unknown client type %q", typ)
	return nil
}

func ethHeader(height uint64) ethclient.Header {
	return ethclient.Header{
		ParentHash: bytes.Repeat([]byte{1}, 32), UncleHash: bytes.Repeat([]byte{2}, 32), Coinbase: bytes.Repeat([]byte{2}, 20),
		Root: bytes.Repeat([]byte{3}, 32), TxHash: bytes.Repeat([]byte{4}, 32), ReceiptHash: bytes.Repeat([]byte{5}, 32),
		Bloom: bytes.Repeat([]byte{6}, 256), Difficulty: []byte{2}, Height: clienttypes.NewHeight(0, height),
		GasLimit: 30000000, GasUsed: 1, Time: 1700000000, Extra: bytes.Repeat([]byte{0x11}, 8),
		MixDigest: bytes.Repeat([]byte{0}, 32), Nonce: 7, BaseFee: []byte{1},
	}
}

func consStateOf(typ string, i int) exported.ConsensusState {
	switch typ {
	case "tm":
		return &tmclient.ConsensusState{Timestamp: time.Unix(1700000000+int64(i), 0).UTC(), Root: []byte("root"),
			NextValidatorsHash: bytes.Repeat([]byte{7}, 32)}
	case "bsc":
		return &bsctypes.ConsensusState{Timestamp: 1700000000 + uint64(i), Height: clienttypes.NewHeight(0, 1), Root: bytes.Repeat([]byte{3}, 32)}
	case "eth":
		return &ethclient.ConsensusState{Timestamp: 1700000000 + uint64(i), Height: clienttypes.NewHeight(0, 1), Root: bytes.Repeat([]byte{3}, 32)}
	}
	bad("unknown client type %q", typ)
	return nil
}

type triple struct {
	src, dst string
	seq      uint64
}

func triples(l [][3]string) []triple {
	out := []triple{}
	for _, t := range l {
		out = append(out, triple{string(unhex(t[0])), string(unhex(t[1])), parseU(t[2])})
	}
	return out
}

func heights(l [][2]string) []clienttypes.Height {
	out := []clienttypes.Height{}
	for _, h := range l {
		out = append(out, clienttypes.NewHeight(parseU(h[0]), parseU(h[1])))
	}
	return out
}

func allKeys(store sdk.KVStore) []string {
	out := []string{}
	it := sdk.KVStorePrefixIterator(store, nil)
	defer it.Close()
	for ; it.Valid(); it.Next() {
		out = append(out, hlib.Hex(it.Key()))
	}
	return out
}

func h2(h exported.Height) [2]string {
	return [2]string{us(h.GetRevisionNumber()), us(h.GetRevisionHeight())}
}

func catchClass(f func()) int {
	if p, _ := hlib.Catch(f); p {
		return 2
	}
	return 0
}

func runIter(raw json.RawMessage) interface{} {
	var s IterSpec
	decodeSpec(raw, &s)
	// decode everything first: a malformed spec must not look like a panic of the code under test
	type ethEntry struct {
		root, hash common.Hash
		height     uint64
	}
	type cl struct {
		name, typ string
		hs, sg    []clienttypes.Height
		cs        exported.ClientState
		pending   bool
		eth       []ethEntry
		raw       [][]byte
		written   []Entry
	}
	var cls []*cl
	for _, c := range s.Clients {
		x := &cl{name: string(unhex(c.Name)), typ: c.Type, hs: heights(c.Heights), sg: heights(c.Signers), cs: clientStateOf(c.Type), pending: c.Pending}
		for _, e := range c.EthEntries {
			r, h := unhex(e[0]), unhex(e[1])
			if len(r) != 32 || len(h) != 32 {
				bad("eth entry: root and hash must be 32 bytes")
			}
			x.eth = append(x.eth, ethEntry{common.BytesToHash(r), common.BytesToHash(h), parseU(e[2])})
		}
		for _, k := range c.Raw {
			kb := unhex(k)
			if len(kb) == 0 || string(kb) == host.KeyClientState {
				bad("raw metadata key must be non-empty and not the client state key")
			}
			x.raw = append(x.raw, kb)
		}
		cls = append(cls, x)
	}
	var byPath [][2]string
	for _, p := range s.ByPath {
		byPath = append(byPath, [2]string{string(unhex(p[0])), string(unhex(p[1]))})
	}
	comm, acks, recs, nseq := triples(s.Commitments), triples(s.Acks), triples(s.Receipts), triples(s.NextSeq)
	prel := triples(s.PRelayers)
	var rels []string
	for _, r := range s.Relayers {
		rels = append(rels, string(unhex(r)))
	}

	e := getEnv()
	ctx, _ := e.base.CacheContext()
	ck := e.app.XIBCKeeper.ClientKeeper
	pk := e.app.XIBCKeeper.PacketKeeper
	cdc := e.app.AppCodec()
	o := IterObs{}
	do := func(f func()) {
		if p, _ := hlib.Catch(f); p {
			o.SetupClass = 2
		}
	}

	o.BaseKeys = allKeys(ctx.KVStore(e.key))

	// ---- writes
	for _, c := range cls {
		c := c
		do(func() { ck.SetClientState(ctx, c.name, c.cs) })
		var store sdk.KVStore
		do(func() { store = ck.ClientStore(ctx, c.name) })
		if store == nil {
			continue
		}
		rec := func(tag int) sdk.KVStore { return recStore{store, tag, &c.written} }
		for i, h := range c.hs {
			i, h := i, h
			do(func() { ck.SetClientConsensusState(ctx, c.name, h, consStateOf(c.typ, i)) })
			if c.typ == "tm" {
				do(func() { tmclient.SetProcessedTime(rec(1), h, 1700000000000000000+uint64(i)) })
				do(func() { tmclient.SetIterationKey(rec(2), h) })
			}
		}
		for i, h := range c.sg {
			i, h := i, h
			do(func() {
				bsctypes.SetSigner(rec(3), bsctypes.Signer{Height: h, Validator: bytes.Repeat([]byte{byte(0x30 + i)}, 20)})
			})
		}
		if c.pending {
			do(func() {
				bsctypes.SetPendingValidators(rec(4), cdc, [][]byte{bytes.Repeat([]byte{9}, 20), bytes.Repeat([]byte{10}, 20)})
			})
		}
		for i, e := range c.eth {
			i, e := i, e
			do(func() {
				rec(5).Set(ethclient.EthHeaderIndexKey(e.hash, e.height), append([]byte("header-"), byte(0x30+i)))
			})
			do(func() { ethclient.SetEthConsensusRoot(rec(6), e.height, e.root, e.hash) })
		}
		if len(c.raw) > 0 {
			// the value of a raw entry is a marshalled consensus state of the client's type, so that an entry whose key
			// happens to be a well-formed consensus state key does not make the keeper's unmarshalling panic
			val := ck.MustMarshalConsensusState(consStateOf(c.typ, 99))
			var mds []clienttypes.GenesisMetadata
			for _, k := range c.raw {
				mds = append(mds, clienttypes.NewGenesisMetadata(k, val))
				c.written = append(c.written, Entry{Tag: 7, Key: hlib.Hex(k), Val: hlib.Hex(val)})
			}
			do(func() {
				ck.SetAllClientMetadata(ctx, []clienttypes.IdentifiedGenesisMetadata{clienttypes.NewIdentifiedGenesisMetadata(c.name, mds)})
			})
		}
	}
	hashOf := func(tag string, t triple) []byte {
		h := sha256.Sum256([]byte(tag + "/" + t.src + "/" + t.dst + "/" + us(t.seq)))
		return h[:]
	}
	for _, t := range comm {
		t := t
		do(func() { pk.SetPacketCommitment(ctx, t.src, t.dst, t.seq, hashOf("c", t)) })
	}
	for _, t := range acks {
		t := t
		do(func() { pk.SetPacketAcknowledgement(ctx, t.src, t.dst, t.seq, hashOf("a", t)) })
	}
	for _, t := range recs {
		t := t
		do(func() { pk.SetPacketReceipt(ctx, t.src, t.dst, t.seq) })
	}
	for _, t := range nseq {
		t := t
		do(func() { pk.SetNextSequenceSend(ctx, t.src, t.dst, t.seq) })
	}
	for _, r := range rels {
		r := r
		do(func() { ck.RegisterRelayers(ctx, r, []string{"x"}, []string{"y"}) })
	}
	prelVal := func(i int) string { return "relayer-" + us(uint64(i)) }
	for i, t := range prel {
		i, t := i, t
		do(func() { pk.SetPacketRelayer(ctx, t.src, t.dst, t.seq, prelVal(i)) })
	}

	// ---- observations
	o.StoreKeys = allKeys(ctx.KVStore(e.key))

	o.Cons.Items = [][3]string{}
	o.Cons.Class = catchClass(func() {
		ck.IterateConsensusStates(ctx, func(name string, cs clienttypes.ConsensusStateWithHeight) bool {
			o.Cons.Items = append(o.Cons.Items, [3]string{hlib.Hex([]byte(name)), us(cs.Height.RevisionNumber), us(cs.Height.RevisionHeight)})
			return false
		})
	})
	o.Clients.Items = []string{}
	o.Clients.Class = catchClass(func() {
		ck.IterateClients(ctx, func(name string, _ exported.ClientState) bool {
			o.Clients.Items = append(o.Clients.Items, hlib.Hex([]byte(name)))
			return false
		})
	})

	o.PerClient = []PerClient{}
	for _, c := range cls {
		pc := PerClient{Name: hlib.Hex([]byte(c.name)), Type: c.typ, StoreKeys: []string{}, Written: c.written}
		if pc.Written == nil {
			pc.Written = []Entry{}
		}
		pc.PTime.Keys, pc.PTime.Vals = []string{}, []string{}
		for _, e := range []*KeysObs{&pc.ExpTm, &pc.ExpBsc, &pc.ExpEth, &pc.SignersLeft} {
			e.Keys, e.Vals = []string{}, []string{}
		}
		pc.TmAsc.Items, pc.EvmAsc.Items, pc.EthAsc.Items, pc.Signers.Items = [][2]string{}, [][2]string{}, [][2]string{}, [][2]string{}
		var store sdk.KVStore
		if p, _ := hlib.Catch(func() { store = ck.ClientStore(ctx, c.name) }); p || store == nil {
			pc.PTime.Class, pc.TmAsc.Class, pc.EvmAsc.Class, pc.EthAsc.Class, pc.Signers.Class = 2, 2, 2, 2, 2
			pc.ExpTm.Class, pc.ExpBsc.Class, pc.ExpEth.Class, pc.SignersLeft.Class = 2, 2, 2, 2
			o.PerClient = append(o.PerClient, pc)
			continue
		}
		pc.StoreKeys = allKeys(store)
		pc.PTime.Class = catchClass(func() {
			tmclient.IterateProcessedTime(store, func(key, val []byte) bool {
				pc.PTime.Keys = append(pc.PTime.Keys, hlib.Hex(key))
				pc.PTime.Vals = append(pc.PTime.Vals, hlib.Hex(val))
				return false
			})
		})
		export := func(dst *KeysObs, f func(sdk.KVStore) []exported.GenesisMetadata) {
			dst.Class = catchClass(func() {
				for _, m := range f(store) {
					dst.Keys = append(dst.Keys, hlib.Hex(m.GetKey()))
					dst.Vals = append(dst.Vals, hlib.Hex(m.GetValue()))
				}
			})
		}
		export(&pc.ExpTm, tmclient.ClientState{}.ExportMetadata)
		export(&pc.ExpBsc, bsctypes.ClientState{}.ExportMetadata)
		export(&pc.ExpEth, ethclient.ClientState{}.ExportMetadata)
		pc.SignersLeft.Class, _ = class(func() error {
			ctx2, _ := ctx.CacheContext()
			st2 := ck.ClientStore(ctx2, c.name)
			if err := bsctypes.DeleteAllSigner(st2); err != nil {
				return err
			}
			it := sdk.KVStorePrefixIterator(st2, []byte(bsctypes.PrefixKeyRecentSingers))
			defer it.Close()
			for ; it.Valid(); it.Next() {
				pc.SignersLeft.Keys = append(pc.SignersLeft.Keys, hlib.Hex(it.Key()))
			}
			return nil
		})
		asc := func(dst *Items2, iter func(sdk.KVStore, func(exported.Height) bool)) {
			dst.Class = catchClass(func() {
				iter(store, func(h exported.Height) bool {
					dst.Items = append(dst.Items, h2(h))
					return false
				})
			})
		}
		asc(&pc.TmAsc, tmclient.IterateConsensusStateAscending)
		asc(&pc.EvmAsc, bsctypes.IterateConsensusStateAscending)
		asc(&pc.EthAsc, ethclient.IterateConsensusStateAscending)
		pc.Signers.Class, _ = class(func() error {
			sg, err := bsctypes.GetRecentSigners(store)
			if err != nil {
				return err
			}
			for _, x := range sg {
				pc.Signers.Items = append(pc.Signers.Items, h2(x.Height))
			}
			return nil
		})
		o.PerClient = append(o.PerClient, pc)
	}

	states := func(dst *Items3, get func(sdk.Context) []packettypes.PacketState) {
		dst.Items = [][3]string{}
		dst.Class = catchClass(func() {
			for _, ps := range get(ctx) {
				dst.Items = append(dst.Items, [3]string{hlib.Hex([]byte(ps.SrcChain)), hlib.Hex([]byte(ps.DstChain)), us(ps.Sequence)})
			}
		})
	}
	states(&o.Commitments, pk.GetAllPacketCommitments)
	states(&o.Acks, pk.GetAllPacketAcks)
	states(&o.Receipts, pk.GetAllPacketReceipts)
	o.NextSeq.Items = [][3]string{}
	o.NextSeq.Class = catchClass(func() {
		for _, ps := range pk.GetAllPacketSendSeqs(ctx) {
			o.NextSeq.Items = append(o.NextSeq.Items, [3]string{hlib.Hex([]byte(ps.SrcChain)), hlib.Hex([]byte(ps.DstChain)), us(ps.Sequence)})
		}
	})
	o.Relayers.Class = catchClass(func() { o.Relayers.N = len(ck.GetAllRelayers(ctx)) })

	o.AllMeta.Items = []MetaObs{}
	o.AllMeta.Class, _ = class(func() error {
		gms, err := ck.GetAllClientMetadata(ctx, ck.GetAllGenesisClients(ctx))
		if err != nil {
			return err
		}
		for _, igm := range gms {
			m := MetaObs{Name: hlib.Hex([]byte(igm.ChainName)), Keys: []string{}, Vals: []string{}}
			for _, md := range igm.Metadata {
				m.Keys = append(m.Keys, hlib.Hex(md.Key))
				m.Vals = append(m.Vals, hlib.Hex(md.Value))
			}
			o.AllMeta.Items = append(o.AllMeta.Items, m)
		}
		return nil
	})
	o.PRelayers.Keys, o.PRelayers.Vals = []string{}, []string{}
	o.PRelayers.Class = catchClass(func() {
		for _, t := range prel {
			o.PRelayers.Vals = append(o.PRelayers.Vals, hlib.Hex([]byte(pk.GetPacketRelayer(ctx, t.src, t.dst, t.seq))))
		}
	})
	o.ByPath = []Items3{}
	for _, p := range byPath {
		p := p
		var it Items3
		states(&it, func(c sdk.Context) []packettypes.PacketState { return pk.GetAllPacketCommitmentsByPath(c, p[0], p[1]) })
		o.ByPath = append(o.ByPath, it)
	}
	return o
}
