package main

// kind "contract": packet bytes EMITTED BY THE REAL PACKET CONTRACT.  A user EVM transaction calls
// endpoint.crossChainCall on a real x/xibc/testing TestChain; the raw EVM log PacketSent(bytes) of the packet contract
// is taken from the MsgEthereumTxResponse (before / independently of the Go hook that decodes it), unpacked the way
// x/xibc/core/packet/keeper/evm_hooks.go does, and the real Go codecs decode and re-encode the emitted bytes.
//
// ONE world (2 chains, light clients both ways, one funded user, one ERC-20) is built lazily.  Every case executes its
// transaction on a CacheContext of chain A's deliver state that is thrown away, so cases are independent of each other
// (the packet sequence is always the same) and a replay reproduces the same bytes.

import (
	"bytes"
	"encoding/json"
	"math/big"
	"testing"

	abci "github.com/tendermint/tendermint/abci/types"
	tmproto "github.com/tendermint/tendermint/proto/tendermint/types"

	sdk "github.com/cosmos/cosmos-sdk/types"

	"github.com/ethereum/go-ethereum/common"
	ethtypes "github.com/ethereum/go-ethereum/core/types"
	"github.com/ethereum/go-ethereum/crypto"

	"github.com/tharsis/ethermint/crypto/ethsecp256k1"
	"github.com/tharsis/ethermint/server/config"
	"github.com/tharsis/ethermint/tests"
	evm "github.com/tharsis/ethermint/x/evm/types"

	erc20contracts "github.com/teleport-network/teleport/syscontracts/erc20"
	endpointcontract "github.com/teleport-network/teleport/syscontracts/xibc_endpoint"
	packetcontract "github.com/teleport-network/teleport/syscontracts/xibc_packet"
	packettypes "github.com/teleport-network/teleport/x/xibc/core/packet/types"
	xibctesting "github.com/teleport-network/teleport/x/xibc/testing"

	"verifharness/hlib"
)

var (
	erc20ABI     = erc20contracts.ERC20MinterBurnerDecimalsContract.ABI
	endpointABI  = endpointcontract.EndpointContract.ABI
	packetABI    = packetcontract.PacketContract.ABI
	endpointAddr = endpointcontract.EndpointContractAddress
	packetAddr   = packetcontract.PacketContractAddress
	zeroAddr     = common.Address{}
	maxU256      = new(big.Int).Sub(new(big.Int).Lsh(big.NewInt(1), 256), big.NewInt(1))
)

type world struct {
	coord *xibctesting.Coordinator
	a, b  *xibctesting.TestChain
	priv  *ethsecp256k1.PrivKey
	user  common.Address
	token common.Address // ERC-20 native to chain a
}

var theWorld *world

// commit ends the current block of the chain and begins the next one (as cmd/c03 does: one BeginBlock, no touching
// of the other chain).
func (w *world) commit(c *xibctesting.TestChain) {
	c.App.EndBlock(abci.RequestEndBlock{Height: c.CurrentHeader.Height})
	c.App.Commit()
	c.LastHeader = c.CurrentTMClientHeader()
	w.coord.CurrentTime = w.coord.CurrentTime.Add(xibctesting.TimeIncrement).UTC()
	c.CurrentHeader = tmproto.Header{
		ChainID:            c.ChainID,
		Height:             c.App.LastBlockHeight() + 1,
		AppHash:            c.App.LastCommitID().Hash,
		Time:               w.coord.CurrentTime,
		ValidatorsHash:     c.Vals.Hash(),
		NextValidatorsHash: c.Vals.Hash(),
		ProposerAddress:    c.Vals.Proposer.Address,
	}
	c.App.BeginBlock(abci.RequestBeginBlock{Header: c.CurrentHeader})
}

func must(err error) {
	if err != nil {
		panic(err)
	}
}

type txResult struct {
	err     error
	vmError string
	logs    []*evm.Log
}

// userTx signs and executes an Ethereum transaction of the user (gas price 0) on ctx.
func (w *world) userTx(ctx sdk.Context, priv *ethsecp256k1.PrivKey, from, to common.Address, value *big.Int, data []byte) txResult {
	c := w.a
	chainID := c.App.EvmKeeper.ChainID()
	nonce := c.App.EvmKeeper.GetNonce(ctx, from)
	tx := evm.NewTx(chainID, nonce, &to, value, config.DefaultGasCap, big.NewInt(0), big.NewInt(0), big.NewInt(0), data,
		&ethtypes.AccessList{})
	tx.From = from.Hex()
	must(tx.Sign(ethtypes.LatestSignerForChainID(chainID), tests.NewSigner(priv)))
	rsp, err := c.App.EvmKeeper.EthereumTx(sdk.WrapSDKContext(ctx), tx)
	out := txResult{err: err}
	if err == nil {
		out.vmError = rsp.VmError
		out.logs = rsp.Logs
	}
	return out
}

func (w *world) setupTx(priv *ethsecp256k1.PrivKey, from, to common.Address, data []byte, what string) {
	r := w.userTx(w.a.GetContext(), priv, from, to, big.NewInt(0), data)
	if r.err != nil || r.vmError != "" {
		panic("c19 contract world: " + what + " failed: " + r.vmError)
	}
	w.commit(w.a)
}

func getWorld() *world {
	if theWorld != nil {
		return theWorld
	}
	w := &world{coord: xibctesting.NewCoordinator(&testing.T{}, 2)}
	w.a = w.coord.GetChain(xibctesting.GetChainID(0))
	w.b = w.coord.GetChain(xibctesting.GetChainID(1))
	w.coord.SetupClientsWithoutRelayer(xibctesting.NewPath(w.a, w.b))
	w.commit(w.a)

	k := make([]byte, 32)
	k[0], k[1], k[31] = 0x0c, 0x19, 1
	w.priv = &ethsecp256k1.PrivKey{Key: k}
	w.user = common.BytesToAddress(w.priv.PubKey().Address().Bytes())

	a := w.a
	// native coins of the user: 2^250 (minted through the aggregate module account, which may mint)
	coins := sdk.NewCoins(sdk.NewCoin(sdk.DefaultBondDenom, sdk.NewIntFromBigInt(new(big.Int).Lsh(big.NewInt(1), 250))))
	must(a.App.BankKeeper.MintCoins(a.GetContext(), "aggregate", coins))
	must(a.App.BankKeeper.SendCoinsFromModuleToAccount(a.GetContext(), "aggregate", sdk.AccAddress(w.user.Bytes()), coins))
	w.commit(a)

	// ERC-20 whose admin is the endpoint contract (as the repository's integration tests deploy it); the chain's
	// sender account may mint
	ctor, err := erc20ABI.Pack("", "name", "symbol", uint8(18))
	must(err)
	data := append(append([]byte{}, erc20contracts.ERC20MinterBurnerDecimalsContract.Bin...), ctor...)
	nonce := a.App.EvmKeeper.GetNonce(a.GetContext(), endpointAddr)
	w.token = crypto.CreateAddress(endpointAddr, nonce)
	modCall := func(to *common.Address, data []byte, what string) {
		res, err := a.App.AggregateKeeper.CallEVMWithData(a.GetContext(), endpointAddr, to, data)
		must(err)
		if res.Failed() {
			panic("c19 contract world: " + what + ": " + res.VmError)
		}
		w.commit(a)
	}
	modCall(nil, data, "deploy erc20")
	grant, _ := erc20ABI.Pack("grantRole", common.BytesToHash(crypto.Keccak256([]byte("MINTER_ROLE"))), a.SenderAddress)
	modCall(&w.token, grant, "grant minter")
	mint, _ := erc20ABI.Pack("mint", w.user, maxU256)
	w.setupTx(a.SenderPrivKey.(*ethsecp256k1.PrivKey), a.SenderAddress, w.token, mint, "mint")
	for _, spender := range []common.Address{endpointAddr, packetAddr} {
		ap, _ := erc20ABI.Pack("approve", spender, maxU256)
		w.setupTx(w.priv, w.user, w.token, ap, "approve")
	}
	theWorld = w
	return w
}

type ContractSpec struct {
	Token           string `json:"token"` // native | erc20
	Dst             string `json:"dst"`   // hex chain name
	Receiver        string `json:"receiver"`
	Amount          string `json:"amount"` // decimal, < 2^256
	HasCall         bool   `json:"has_call"`
	ContractAddress string `json:"contract_address"`
	CallData        string `json:"call_data"`
	Callback        string `json:"callback"` // hex: 20 bytes or empty
	FeeOption       string `json:"fee_option"`
}

type ContractObs struct {
	Class             int    `json:"class"`
	Why               string `json:"why,omitempty"` // class 1 only, for the human reader (not an observable)
	LogData           string `json:"log_data"`      // raw data of the EVM log PacketSent
	Emitted           string `json:"emitted"`
	DecClass          int    `json:"dec_class"`
	Dec               []F    `json:"dec"`
	ReencClass        int    `json:"reenc_class"`
	Reenc             string `json:"reenc"`
	TransferRaw       string `json:"transfer_raw"`
	TransferDecClass  int    `json:"transfer_dec_class"`
	TransferDec       []F    `json:"transfer_dec"`
	TransferReencCls  int    `json:"transfer_reenc_class"`
	TransferReenc     string `json:"transfer_reenc"`
	CallRaw           string `json:"call_raw"`
	CallDecClass      int    `json:"call_dec_class"`
	CallDec           []F    `json:"call_dec"`
	CallReencClass    int    `json:"call_reenc_class"`
	CallReenc         string `json:"call_reenc"`
	WorldSrc          string `json:"world_src"`   // hex: chain name of the sending chain
	WorldDst          string `json:"world_dst"`   // hex: the existing counterparty
	WorldUser         string `json:"world_user"`  // hex 20 bytes: sender of the transaction
	WorldToken        string `json:"world_token"` // hex 20 bytes: the ERC-20 of token "erc20"
	HookPacketMatches bool   `json:"hook_packet_matches"`
}

// nested decodes raw with a fresh value of ABI type ty and re-encodes: (dec_class, dec, reenc_class, reenc)
func nested(ty int, raw []byte) (int, []F, int, string) {
	if len(raw) == 0 {
		return -1, []F{}, -1, ""
	}
	c, v := decode(ty, raw)
	if c != 0 {
		return c, []F{}, -1, ""
	}
	rc, re := pack(v)
	return 0, toFields(v), rc, hlib.Hex(re)
}

func runContract(raw json.RawMessage) interface{} {
	var s ContractSpec
	decodeSpec(raw, &s)
	if s.Token != "native" && s.Token != "erc20" {
		bad("token %q", s.Token)
	}
	amount, ok := new(big.Int).SetString(s.Amount, 10)
	if !ok || amount.Sign() < 0 || amount.BitLen() > 256 {
		bad("amount %q", s.Amount)
	}
	cb := unhex(s.Callback)
	if len(cb) != 0 && len(cb) != 20 {
		bad("callback must be 20 bytes or empty")
	}
	d := packettypes.CrossChainData{
		DstChain:        string(unhex(s.Dst)),
		TokenAddress:    zeroAddr,
		Receiver:        string(unhex(s.Receiver)),
		Amount:          amount,
		ContractAddress: "",
		CallData:        []byte{},
		CallbackAddress: common.BytesToAddress(cb),
		FeeOption:       parseU(s.FeeOption),
	}
	if s.HasCall {
		d.ContractAddress = string(unhex(s.ContractAddress))
		d.CallData = unhex(s.CallData)
	}
	w := getWorld()
	if s.Token == "erc20" {
		d.TokenAddress = w.token
	}
	o := ContractObs{Class: 1, DecClass: -1, Dec: []F{}, ReencClass: -1, TransferDecClass: -1, TransferDec: []F{}, TransferReencCls: -1,
		CallDecClass: -1, CallDec: []F{}, CallReencClass: -1,
		WorldSrc: hlib.Hex([]byte(w.a.ChainID)), WorldDst: hlib.Hex([]byte(w.b.ChainID)), WorldUser: hlib.Hex(w.user.Bytes()), WorldToken: hlib.Hex(w.token.Bytes())}

	data, err := endpointABI.Pack("crossChainCall", d, packettypes.Fee{TokenAddress: zeroAddr, Amount: big.NewInt(0)})
	if err != nil {
		bad("cannot pack crossChainCall: %v", err)
	}
	value := big.NewInt(0)
	if s.Token == "native" {
		value = amount
	}
	ctx, _ := w.a.GetContext().CacheContext()
	ctx = ctx.WithEventManager(sdk.NewEventManager())
	var res txResult
	if p, val := hlib.Catch(func() { res = w.userTx(ctx, w.priv, w.user, endpointAddr, value, data) }); p {
		o.Class, o.Why = 2, val
		return o
	}
	if res.err != nil {
		o.Why = "tx error: " + res.err.Error()
		return o
	}
	if res.vmError != "" {
		o.Why = "vm error: " + res.vmError
		return o
	}
	// the raw logs of the packet contract's PacketSent event
	sentID := packetABI.Events[packettypes.PacketSendEvent].ID
	var found [][]byte
	for _, l := range res.logs {
		if common.HexToAddress(l.Address) != packetAddr || len(l.Topics) == 0 || common.HexToHash(l.Topics[0]) != sentID {
			continue
		}
		found = append(found, l.Data)
	}
	if len(found) != 1 {
		o.Why = "PacketSent logs: " + us(uint64(len(found)))
		return o
	}
	o.LogData = hlib.Hex(found[0])
	// exactly what PostTxProcessing does with the log data
	var emitted []byte
	c, _ := class(func() error {
		sendEvent, err := packetABI.Unpack(packettypes.PacketSendEvent, found[0])
		if err != nil {
			return err
		}
		bzTmp, err := json.Marshal(sendEvent[0])
		if err != nil {
			return err
		}
		return json.Unmarshal(bzTmp, &emitted)
	})
	if c != 0 {
		o.Why = "cannot unpack the log data"
		return o
	}
	o.Class = 0
	o.Emitted = hlib.Hex(emitted)

	// what the Go hook made of it: the EventSendPacket typed event carries packet.ABIPack() of the DECODED packet
	for _, ev := range ctx.EventManager().Events().ToABCIEvents() {
		if len(ev.Type) < 15 || ev.Type[len(ev.Type)-15:] != "EventSendPacket" {
			continue
		}
		if msg, err := sdk.ParseTypedEvent(ev); err == nil {
			if sp, ok := msg.(*packettypes.EventSendPacket); ok && bytes.Equal(sp.Packet, emitted) {
				o.HookPacketMatches = true
			}
		}
	}

	var pk abiVal
	o.DecClass, pk = decode(0, emitted)
	if o.DecClass != 0 {
		return o
	}
	o.Dec = toFields(pk)
	var re []byte
	o.ReencClass, re = pack(pk)
	o.Reenc = hlib.Hex(re)
	p := pk.(*packettypes.Packet)
	o.TransferRaw = hlib.Hex(p.TransferData)
	o.TransferDecClass, o.TransferDec, o.TransferReencCls, o.TransferReenc = nested(2, p.TransferData)
	o.CallRaw = hlib.Hex(p.CallData)
	o.CallDecClass, o.CallDec, o.CallReencClass, o.CallReenc = nested(3, p.CallData)
	return o
}
