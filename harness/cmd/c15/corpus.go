package main

import (
	"bytes"
	"encoding/hex"
	"strings"
	"time"

	sdk "github.com/cosmos/cosmos-sdk/types"
)

// corpus: the witnesses of the findings of this property (all repaired in /repo by `fix:` commits; if a
// defect returns, the corresponding case fails its monitor) plus one plainly valid case per handler.
func corpus() []*Case {
	unc := hex.EncodeToString(uncleHash.Bytes())
	bscHdr := func() *HdrSpec {
		return &HdrSpec{Height: H{0, 200}, ExtraLen: 32 + 40 + 65, Mix: zero32, Uncle: unc, Diff: "02", BloomLen: 256, NonceLen: 8, GasLimit: 30000000, GasUsed: 1000000, Seal: "good"}
	}
	ethHdr := func() *HdrSpec {
		return &HdrSpec{Height: H{0, 100}, ExtraLen: 10, Mix: zero32, Uncle: unc, Diff: "020000", BloomLen: 256, NonceLen: 8, GasLimit: 30000000, GasUsed: 1000000}
	}
	bsc := func(f func(c *CSSpec)) CSSpec {
		c := CSSpec{Kind: "bsc", Hdr: bscHdr(), ChainNum: 56, Epoch: 200, TrustingPeriod: 1 << 40}
		if f != nil {
			f(&c)
		}
		return c
	}
	eth := func(f func(c *CSSpec)) CSSpec {
		c := CSSpec{Kind: "eth", Hdr: ethHdr(), ChainNum: 4, TrustingPeriod: 1 << 40}
		if f != nil {
			f(&c)
		}
		return c
	}
	tm := CSSpec{Kind: "tm", ChainID: hx("testchain-1"), TLNum: 1, TLDen: 3, Trusting: int64(14 * 24 * time.Hour), Unbonding: int64(21 * 24 * time.Hour),
		Drift: int64(10 * time.Second), Latest: H{1, 10}, NSpecs: 2}
	tss := CSSpec{Kind: "tss", TssAddr: hx(sdk.AccAddress(bytes.Repeat([]byte{1}, 20)).String())}
	step := func(op string, cs CSSpec, cons string) XStep {
		return XStep{Op: op, Title: hx("t"), DescLen: 1, Chain: hx("chain-a"), CS: cs, Cons: ConsSpec{Kind: cons, Ts: 1700000000}}
	}
	x := func(steps ...XStep) *Case { return &Case{Kind: "xibc", Xibc: &XibcSpec{Steps: steps}} }
	relayer := func(addr string) XStep {
		return XStep{Op: "relayer", Title: hx("t"), DescLen: 1, Address: hx(addr), Chains: []string{hx("chain-a")}, Addresses: []string{hx("0xabc")}}
	}
	out := []*Case{
		// valid life cycles of every client type
		x(step("create", tm, "tm"), step("upgrade", tm, "tm"), step("toggle", tss, "tss"), step("toggle", bsc(nil), "bsc"), step("upgrade", bsc(nil), "bsc"), step("toggle", eth(nil), "eth"), step("upgrade", eth(nil), "eth")),
		x(step("create", tss, "tss"), step("upgrade", tss, "tss"), step("toggle", tm, "tm")),
		// D4a: BSC epoch 0 (create, upgrade, toggle)
		x(step("create", bsc(func(c *CSSpec) { c.Epoch = 0 }), "bsc")),
		x(step("create", bsc(nil), "bsc"), step("upgrade", bsc(func(c *CSSpec) { c.Epoch = 0 }), "bsc")),
		x(step("create", tm, "tm"), step("toggle", bsc(func(c *CSSpec) { c.Epoch = 0 }), "bsc")),
		x(step("create", bsc(func(c *CSSpec) { c.Epoch, c.Hdr.Height.H = 0, 0 }), "bsc")),
		// relayer proposals: valid, empty and malformed address
		x(relayer(sdk.AccAddress(bytes.Repeat([]byte{1}, 20)).String()), relayer(""), relayer("x")),
		// D4b: ETH 257-byte bloom at height 0
		x(step("create", eth(func(c *CSSpec) { c.Hdr.Height.H, c.Hdr.BloomLen = 0, 257 }), "eth")),
		x(step("create", eth(nil), "eth"), step("upgrade", eth(func(c *CSSpec) { c.Hdr.Height.H, c.Hdr.BloomLen = 0, 257 }), "eth")),
		x(step("create", eth(func(c *CSSpec) { c.Hdr.BloomLen = 300 }), "eth")),
		// D4c: BSC over-long bloom / nonce at height 0 and above
		x(step("create", bsc(func(c *CSSpec) { c.Hdr.Height.H, c.Hdr.BloomLen = 0, 257 }), "bsc")),
		x(step("create", bsc(func(c *CSSpec) { c.Hdr.Height.H, c.Hdr.NonceLen = 0, 9 }), "bsc")),
		x(step("create", bsc(func(c *CSSpec) { c.Hdr.BloomLen = 257 }), "bsc")),
		x(step("create", bsc(func(c *CSSpec) { c.Hdr.NonceLen = 9 }), "bsc")),
		// BSC extra-data shorter than vanity + seal but long enough to carry a (valid) seal, at an epoch height:
		// must be rejected by ValidateBasic, ParseValidators would slice out of range
		x(step("create", bsc(func(c *CSSpec) { c.Hdr.ExtraLen = 65 }), "bsc")),
		x(step("create", bsc(func(c *CSSpec) { c.Hdr.ExtraLen = 96 }), "bsc")),
		x(step("create", bsc(nil), "bsc"), step("upgrade", bsc(func(c *CSSpec) { c.Hdr.ExtraLen = 80; c.Hdr.Height.H = 400 }), "bsc")),
		// D4d: BSC chain id >= 2^63
		x(step("create", bsc(func(c *CSSpec) { c.ChainNum = 1 << 63 }), "bsc")),
		x(step("create", bsc(nil), "bsc"), step("upgrade", bsc(func(c *CSSpec) { c.ChainNum = ^uint64(0) }), "bsc")),
		// D11: toggles in both directions, mismatched consensus state types
		x(step("create", tm, "tm"), step("toggle", tss, "tm"), step("toggle", tm, "tss")),
		x(step("create", tss, "tm"), step("toggle", eth(nil), "tss"), step("upgrade", eth(nil), "tm")),
	}
	// D5 (rvesting): duplicate / bank-invalid denominations
	tr := true
	out = append(out,
		&Case{Kind: "rv", Rv: &RvSpec{Pool: []Pair{{"atele", "8"}}, Steps: []Change{{Rewards: []Pair{{"atele", "5"}, {"atele", "7"}}, HasRew: true, Enable: &tr}, {}}}},
		&Case{Kind: "rv", Rv: &RvSpec{Pool: []Pair{{"atele", "8"}}, Steps: []Change{{Rewards: []Pair{{"1", "5"}}, HasRew: true, Enable: &tr}, {}}}},
		&Case{Kind: "rv", Rv: &RvSpec{Pool: []Pair{{"atele", "8"}}, Steps: []Change{{Rewards: []Pair{{"atele", "5"}, {"stake", "1"}}, HasRew: true, Enable: &tr}, {}, {}}}},
	)
	// genesis
	good := sdk.AccAddress(bytes.Repeat([]byte{0x21}, 20)).String()
	out = append(out,
		&Case{Kind: "gen_xibc", GenX: &GenXSpec{Native: hx("teleport"), Relayers: []GXRelayer{{Address: hx(""), Chains: []string{hx("chain-a")}, Addresses: []string{hx("0xabc")}}}}},
		&Case{Kind: "gen_xibc", GenX: &GenXSpec{Native: hx("teleport"), Clients: []GXClient{{Chain: hx("chain-a"), CS: tm}, {Chain: hx("bsc-testnet"), CS: bsc(nil)}},
			Consensus: []GXCons{{Chain: hx("chain-a"), States: []GXConsAt{{Height: H{1, 10}, Cons: ConsSpec{Kind: "tm", Ts: 1700000000}}}}},
			Relayers:  []GXRelayer{{Address: hx(good), Chains: []string{hx("chain-a")}, Addresses: []string{hx("0xabc")}}}}},
		// finding bsc-upgrade-malformed-signer-key: imported metadata key "recentSingers", then an upgrade proposal
		&Case{Kind: "gen_xibc", GenX: &GenXSpec{Native: hx("teleport"), Clients: []GXClient{{Chain: hx("chain-a"), CS: bsc(nil)}},
			Metadata: []GXMeta{{Chain: hx("chain-a"), Items: []GXItem{{Key: hx("recentSingers"), ValLen: 1}}}},
			Then:     []XStep{step("upgrade", bsc(nil), "bsc")}}},
		&Case{Kind: "gen_xibc", GenX: &GenXSpec{Native: hx("teleport"), Clients: []GXClient{{Chain: hx("chain-a"), CS: tm}},
			Metadata: []GXMeta{{Chain: hx("chain-a"), Items: []GXItem{{Key: hx("k"), ValLen: 0}}}}}},
		&Case{Kind: "gen_xibc", GenX: &GenXSpec{Native: hx("teleport"), Clients: []GXClient{{Chain: hx("chain-a"), CS: tm}},
			Metadata: []GXMeta{{Chain: hx("chain-a"), Items: []GXItem{{Key: "", ValLen: 3}}}}}},
		&Case{Kind: "gen_xibc", GenX: &GenXSpec{Native: hx("teleport"),
			Receipts: []GXPacket{{Src: hx("chain-a"), Dst: hx("chain-b"), Seq: 1, DataLen: 0}}, Acks: []GXPacket{{Src: hx("chain-a"), Dst: hx("chain-b"), Seq: 1, DataLen: 2}}}},
		&Case{Kind: "gen_xibc", GenX: &GenXSpec{Native: hx("teleport"), Acks: []GXPacket{{Src: hx("chain-a"), Dst: hx("chain-b"), Seq: 1, DataLen: 0}}}},
		&Case{Kind: "gen_agg", GenA: &GenASpec{EnableAggregate: true, EnableEVMHook: true, Pairs: []GAPair{{Erc20: hx(hexAddrs[1]), Denoms: nil, Enabled: true, Owner: 1}}}},
		&Case{Kind: "gen_agg", GenA: &GenASpec{EnableAggregate: true, EnableEVMHook: true, Pairs: []GAPair{{Erc20: hx(hexAddrs[1]), Denoms: []string{hx("ucoin"), hx("uother")}, Enabled: true, Owner: 1}}}},
		&Case{Kind: "gen_rv", GenR: &GenRSpec{Enable: true, Rewards: []Pair{{"atele", "5"}}, From: hx(good), InitReward: []Pair{{"atele", "100"}}, FromBal: []Pair{{"atele", "100"}}}},
		&Case{Kind: "gen_rv", GenR: &GenRSpec{Enable: true, Rewards: []Pair{{"atele", "5"}}, From: hx(good), InitReward: []Pair{{"atele", "100"}}, FromBal: []Pair{{"atele", "99"}}}},
		&Case{Kind: "gen_rv", GenR: &GenRSpec{Enable: true, Rewards: []Pair{{"atele", "5"}, {"atele", "7"}}, From: hx("")}},
		&Case{Kind: "gen_rv", GenR: &GenRSpec{Enable: true, Rewards: []Pair{{"atele", "5"}}, From: hx(good), InitReward: []Pair{{"atele", "5"}, {"atele", "5"}}, FromBal: []Pair{{"atele", "100"}}}},
		&Case{Kind: "gen_rv", GenR: &GenRSpec{Enable: true, Rewards: []Pair{{"atele", "5"}}, From: hx(good), InitReward: []Pair{{"stake", "5"}, {"atele", "5"}}, FromBal: []Pair{{"atele", "100"}, {"stake", "100"}}}},
		&Case{Kind: "gen_rv", GenR: &GenRSpec{Enable: true, Rewards: []Pair{{"atele", "5"}}, From: hx(good), InitReward: []Pair{{"atele", "0"}}, FromBal: []Pair{{"atele", "100"}}}},
	)
	// aggregate: one valid proposal of every type in the state that lets it reach its deepest code
	astep := func(op string, f func(s *AStep)) AStep {
		s := AStep{Op: op, Title: hx("t"), DescLen: 1}
		f(&s)
		return s
	}
	meta := func(base, display string) *MetaSpec {
		return &MetaSpec{Name: hx("Other Coin"), Symbol: hx("OC"), Base: hx(base), Display: hx(display), Units: []UnitSpec{{Denom: hx(base), Exponent: 0}, {Denom: hx(display), Exponent: 6}}}
	}
	out = append(out, &Case{Kind: "agg", Agg: &AggSpec{Setup: []string{"coin", "erc20", "erc20b"}, Steps: []AStep{
		astep("register_coin", func(s *AStep) { s.Meta = meta("uother", "other") }),
		astep("add_coin", func(s *AStep) { s.Meta = meta("ibc/27394FB092D2ECCD56123C74F36E4C1F926001CEADA9CA97EA622B25F41E5EB2", "disp"); s.Meta.Name = hx("channel-0 coin"); s.Meta.Symbol = hx("ibcVC"); s.Contract = hx("@pair") }),
		astep("register_erc20", func(s *AStep) { s.Contract = hx("@deployed2") }),
		astep("toggle", func(s *AStep) { s.Contract = hx("@pair") }),
		astep("toggle", func(s *AStep) { s.Contract = hx("ucoin") }),
		astep("update_erc20", func(s *AStep) { s.Contract, s.NewAddr = hx("@deployed"), hx(hexAddrs[1]) }),
		astep("trace", func(s *AStep) { s.Contract, s.Token, s.Chain, s.Scale = hx("@deployed"), hx("0xabc"), hx("eth"), 0 }),
		astep("enable_limit", func(s *AStep) { s.Contract = hx("@deployed"); s.Nums = []string{hx("10"), hx("1000"), hx("100"), hx("1")} }),
		astep("disable_limit", func(s *AStep) { s.Contract = hx("@deployed") }),
		// numeric strings with surrounding white space: ValidateBasic and the handler must agree on what parses
		astep("enable_limit", func(s *AStep) { s.Contract = hx("@deployed"); s.Nums = []string{hx(" 10"), hx("1000"), hx("100"), hx("1")} }),
		astep("enable_limit", func(s *AStep) { s.Contract = hx("@deployed"); s.Nums = []string{hx("10"), hx("1000\n"), hx("100"), hx("1")} }),
		astep("enable_limit", func(s *AStep) { s.Contract = hx("@deployed"); s.Nums = []string{hx("10"), hx("1000"), hx("\t100"), hx("1 ")} }),
		astep("enable_limit", func(s *AStep) { s.Contract = hx("@deployed"); s.Nums = []string{hx("+10"), hx("1000"), hx("100"), hx("\u00a01")} }),
		astep("param", func(s *AStep) { s.Key, s.Value = "EnableAggregate", hx("false") }),
		astep("register_coin", func(s *AStep) { s.Meta = meta("uother", "other") }),
	}}})
	_ = strings.Repeat
	return out
}
