package main

// InitGenesis of xibc / aggregate / rvesting for generated genesis states.  Every genesis state goes
// through the JSON codec (as a genesis file does), then through the module's genesis validation, then
// - if accepted - through the real InitGenesis on a fresh branch of the application state.

import (
	"bytes"
	"strings"

	"github.com/cosmos/cosmos-sdk/codec"
	sdk "github.com/cosmos/cosmos-sdk/types"

	"github.com/teleport-network/teleport/x/aggregate"
	aggtypes "github.com/teleport-network/teleport/x/aggregate/types"
	rvtypes "github.com/teleport-network/teleport/x/rvesting/types"
	"github.com/teleport-network/teleport/x/xibc"
	clienttypes "github.com/teleport-network/teleport/x/xibc/core/client/types"
	packettypes "github.com/teleport-network/teleport/x/xibc/core/packet/types"
	xibctypes "github.com/teleport-network/teleport/x/xibc/types"

	"verifharness/hlib"
)

// ---------------------------------------------------------------------------------------------
// xibc

type GXClient struct {
	Chain string `json:"chain"` // hex
	CS    CSSpec `json:"cs"`
}

type GXConsAt struct {
	Height H        `json:"height"`
	Cons   ConsSpec `json:"cons"`
}

type GXCons struct {
	Chain  string     `json:"chain"`
	States []GXConsAt `json:"states"`
}

type GXItem struct {
	Key    string `json:"key"` // hex
	ValLen int    `json:"val_len"`
}

type GXMeta struct {
	Chain string   `json:"chain"`
	Items []GXItem `json:"items"`
}

type GXRelayer struct {
	Address   string   `json:"address"` // hex
	Chains    []string `json:"chains"`
	Addresses []string `json:"addresses"`
}

type GXPacket struct {
	Src     string `json:"src"`
	Dst     string `json:"dst"`
	Seq     uint64 `json:"seq"`
	DataLen int    `json:"data_len"`
}

type GenXSpec struct {
	Clients     []GXClient  `json:"clients"`
	Consensus   []GXCons    `json:"consensus"`
	Metadata    []GXMeta    `json:"metadata"`
	Relayers    []GXRelayer `json:"relayers"`
	Native      string      `json:"native"` // hex
	Acks        []GXPacket  `json:"acks"`
	Commitments []GXPacket  `json:"commitments"`
	Receipts    []GXPacket  `json:"receipts"`
	Seqs        []GXPacket  `json:"seqs"`
	Then        []XStep     `json:"then,omitempty"` // proposals executed on the state InitGenesis produced
}

func packetStates(l []GXPacket) []packettypes.PacketState {
	out := []packettypes.PacketState{}
	for _, p := range l {
		out = append(out, packettypes.PacketState{SrcChain: string(unhex(p.Src)), DstChain: string(unhex(p.Dst)), Sequence: p.Seq, Data: bytes.Repeat([]byte{7}, p.DataLen)})
	}
	return out
}

// jsonRoundTrip: marshal + unmarshal with the application's JSON codec; class 1 if either fails.
func jsonRoundTrip(cdc codec.Codec, in, out codec.ProtoMarshaler) (int, string) {
	var err error
	p, val := hlib.Catch(func() {
		var bz []byte
		bz, err = cdc.MarshalJSON(in)
		if err != nil {
			return
		}
		err = cdc.UnmarshalJSON(bz, out)
	})
	if p {
		return 1, "codec panic: " + val // a genesis file that cannot be produced / decoded is not a validated genesis
	}
	if err != nil {
		return 1, errText(err)
	}
	return 0, ""
}

func runGenX(e *env, s *GenXSpec) []StepObs {
	o, ctx := runGenXInit(e, s)
	obs := []StepObs{o}
	if o.V == 0 && o.X == 0 {
		obs = append(obs, runXSteps(e, ctx, s.Then)...)
	}
	return obs
}

func runGenXInit(e *env, s *GenXSpec) (StepObs, sdk.Context) {
	o := StepObs{X: -1}
	ctx, _ := e.base.CacheContext()
	cg := clienttypes.GenesisState{NativeChainName: string(unhex(s.Native))}
	for i := range s.Clients {
		any, or := buildCS(&s.Clients[i].CS)
		o.COracles = append(o.COracles, or)
		cg.Clients = append(cg.Clients, clienttypes.IdentifiedClientState{ChainName: string(unhex(s.Clients[i].Chain)), ClientState: any})
	}
	for _, cc := range s.Consensus {
		ccs := clienttypes.ClientConsensusStates{ChainName: string(unhex(cc.Chain))}
		for i := range cc.States {
			ccs.ConsensusStates = append(ccs.ConsensusStates, clienttypes.ConsensusStateWithHeight{
				Height: clienttypes.NewHeight(cc.States[i].Height.Rev, cc.States[i].Height.H), ConsensusState: buildCons(&cc.States[i].Cons)})
		}
		cg.ClientsConsensus = append(cg.ClientsConsensus, ccs)
	}
	for _, m := range s.Metadata {
		im := clienttypes.IdentifiedGenesisMetadata{ChainName: string(unhex(m.Chain))}
		for _, it := range m.Items {
			im.Metadata = append(im.Metadata, clienttypes.GenesisMetadata{Key: unhex(it.Key), Value: bytes.Repeat([]byte{5}, it.ValLen)})
		}
		cg.ClientsMetadata = append(cg.ClientsMetadata, im)
	}
	for _, r := range s.Relayers {
		cg.Relayers = append(cg.Relayers, clienttypes.IdentifiedRelayer{Address: string(unhex(r.Address)), Chains: unhexAll(r.Chains), Addresses: unhexAll(r.Addresses)})
		_, berr := sdk.AccAddressFromBech32(string(unhex(r.Address)))
		o.ROracles = append(o.ROracles, berr == nil)
	}
	pg := packettypes.GenesisState{Acknowledgements: packetStates(s.Acks), Commitments: packetStates(s.Commitments), Receipts: packetStates(s.Receipts)}
	for _, q := range s.Seqs {
		pg.SendSequences = append(pg.SendSequences, packettypes.PacketSequence{SrcChain: string(unhex(q.Src)), DstChain: string(unhex(q.Dst)), Sequence: q.Seq})
	}
	gs := xibctypes.GenesisState{ClientGenesis: cg, PacketGenesis: pg}
	var back xibctypes.GenesisState
	if c, txt := jsonRoundTrip(e.app.AppCodec(), &gs, &back); c != 0 {
		o.V, o.XErr = c, txt
		return o, ctx
	}
	var err error
	p, val := hlib.Catch(func() { err = back.Validate() })
	o.V = classOf(p, err)
	o.VPanic = val
	if o.V != 0 {
		o.XErr = errText(err)
		return o, ctx
	}
	p, val = hlib.Catch(func() { xibc.InitGenesis(ctx, *e.app.XIBCKeeper, false, &back) })
	o.X = classOf(p, nil)
	o.XPanic = val
	return o, ctx
}

func genPacket(r *hlib.Rand) GXPacket {
	p := GXPacket{Src: hx(chainPool[r.Intn(len(chainPool))]), Dst: hx(chainPool[r.Intn(len(chainPool))]), Seq: pickU(r, 1, 2, 3, 1<<63, ^uint64(0)), DataLen: 1 + r.Intn(40)}
	if r.Chance(1, 12) {
		switch r.Intn(4) {
		case 0:
			p.Src = hx(badChains[r.Intn(len(badChains))])
		case 1:
			p.Dst = hx(badChains[r.Intn(len(badChains))])
		case 2:
			p.Seq = 0
		case 3:
			p.DataLen = 0
		}
	}
	return p
}

func genRelayer(r *hlib.Rand) GXRelayer {
	good := sdk.AccAddress(bytes.Repeat([]byte{byte(1 + r.Intn(3))}, 20)).String()
	rl := GXRelayer{Address: hx(good)}
	if r.Chance(1, 6) {
		rl.Address = hx(pick(r, "", "", "x", "not-bech32", good+"x"))
	}
	n := 1 + r.Intn(3)
	if r.Chance(1, 10) {
		n = 0
	}
	for i := 0; i < n; i++ {
		rl.Chains = append(rl.Chains, hx(chainPool[r.Intn(len(chainPool))]))
		rl.Addresses = append(rl.Addresses, hx("0xabc"))
	}
	if r.Chance(1, 10) {
		rl.Chains = append(rl.Chains, hx(pick(r, "", "ab", "chain-b")))
	}
	if r.Chance(1, 12) {
		rl.Addresses = append(rl.Addresses, hx("0xdef"))
	}
	return rl
}

var metaKeys = []string{"recentSingers/0-5", "recentSingers/0-200", "recentSingers", "recentSingersX", "recentSingers/x", "recentSingers/1-2/3",
	"pendingValidators", "iterateConsensusStates", "k", "clientState",
	"consensusStates/\x00\x00\x00\x00\x00\x00\x00\x00\x00\x00\x00\x00\x00\x00\x00\x01", "consensusStates/\x00\x00\x00\x00\x00\x00\x00\x00\x00\x00\x00\x00\x00\x00\x00\xc8",
	"consensusStates/x", "consensusStates/\x00\x00\x00\x00\x00\x00\x00\x00\x00\x00\x00\x00\x00\x00\x00\x01/processedTime"}

func genGenX(r *hlib.Rand) *GenXSpec {
	s := &GenXSpec{Native: hx("teleport")}
	if r.Chance(1, 15) {
		s.Native = hx(badChains[r.Intn(len(badChains))])
	}
	known := []string{}
	kindOf := map[string]string{}
	nc := r.Intn(4)
	for i := 0; i < nc; i++ {
		chain := chainPool[r.Intn(len(chainPool))]
		if r.Chance(1, 20) {
			chain = badChains[r.Intn(len(badChains))]
		}
		kind := kinds[r.Intn(4)]
		if r.Chance(1, 20) {
			kind = pick(r, "nil", "wrong")
		}
		s.Clients = append(s.Clients, GXClient{Chain: hx(chain), CS: genCSp(r, kind, 1, 8)})
		known = append(known, chain)
		kindOf[chain] = kind
	}
	pickChain := func() string {
		if len(known) > 0 && !r.Chance(1, 15) {
			return known[r.Intn(len(known))]
		}
		return chainPool[r.Intn(len(chainPool))]
	}
	for i := r.Intn(3); i > 0 && len(known) > 0; i-- {
		chain := pickChain()
		cc := GXCons{Chain: hx(chain)}
		for j := r.Intn(3); j >= 0; j-- {
			k := kindOf[chain]
			if k == "" || k == "nil" || k == "wrong" || r.Chance(1, 10) {
				k = kinds[r.Intn(4)]
			}
			if r.Chance(1, 20) {
				k = pick(r, "nil", "wrong")
			}
			h := genHeight(r)
			if !r.Chance(1, 6) && h.Rev == 0 && h.H == 0 {
				h.H = 1
			}
			c := genCons(r, k)
			if k == "tm" && c.Ts%(1<<33) == 0 && !r.Chance(1, 4) {
				c.Ts = 1700000000
			}
			cc.States = append(cc.States, GXConsAt{Height: h, Cons: c})
		}
		s.Consensus = append(s.Consensus, cc)
	}
	for i := r.Intn(3); i > 0 && len(known) > 0; i-- {
		m := GXMeta{Chain: hx(pickChain())}
		for j := r.Intn(3); j >= 0; j-- {
			it := GXItem{Key: hx(metaKeys[r.Intn(len(metaKeys))]), ValLen: 1 + r.Intn(8)}
			if r.Chance(1, 15) {
				it.Key = ""
			}
			if r.Chance(1, 15) {
				it.ValLen = 0
			}
			m.Items = append(m.Items, it)
		}
		s.Metadata = append(s.Metadata, m)
	}
	for i := r.Intn(3); i > 0; i-- {
		s.Relayers = append(s.Relayers, genRelayer(r))
	}
	for i := r.Intn(3); i > 0; i-- {
		s.Acks = append(s.Acks, genPacket(r))
	}
	for i := r.Intn(3); i > 0; i-- {
		s.Commitments = append(s.Commitments, genPacket(r))
	}
	for i := r.Intn(3); i > 0; i-- {
		s.Receipts = append(s.Receipts, genPacket(r))
	}
	for i := r.Intn(3); i > 0; i-- {
		s.Seqs = append(s.Seqs, genPacket(r))
	}
	// proposals on the imported state (mostly on the imported chains, mostly of the imported type)
	if len(known) > 0 && r.Chance(2, 3) {
		types := map[string]string{}
		for c, k := range kindOf {
			types[c] = k
		}
		for i := 1 + r.Intn(3); i > 0; i-- {
			st := genXStep(r, false, types)
			if st.Op != "relayer" && !r.Chance(1, 8) {
				st.Chain = hx(known[r.Intn(len(known))])
				if st.Op == "upgrade" && r.Chance(3, 4) {
					if k := kindOf[string(unhex(st.Chain))]; k == "tm" || k == "bsc" || k == "eth" || k == "tss" {
						st.CS = genCSp(r, k, 1, 4)
						st.Cons = genCons(r, k)
					}
				}
			}
			s.Then = append(s.Then, st)
		}
	}
	return s
}

// ---------------------------------------------------------------------------------------------
// aggregate

type GAPair struct {
	Erc20   string   `json:"erc20"`  // hex of the address string
	Denoms  []string `json:"denoms"` // hex
	Enabled bool     `json:"enabled"`
	Owner   int32    `json:"owner"`
}

type GenASpec struct {
	EnableAggregate bool     `json:"enable_aggregate"`
	EnableEVMHook   bool     `json:"enable_evm_hook"`
	Pairs           []GAPair `json:"pairs"`
}

func runGenA(e *env, s *GenASpec) StepObs {
	o := StepObs{X: -1}
	gs := aggtypes.GenesisState{Params: aggtypes.Params{EnableAggregate: s.EnableAggregate, EnableEVMHook: s.EnableEVMHook}}
	for _, p := range s.Pairs {
		gs.TokenPairs = append(gs.TokenPairs, aggtypes.TokenPair{ERC20Address: string(unhex(p.Erc20)), Denoms: unhexAll(p.Denoms), Enabled: p.Enabled, ContractOwner: aggtypes.Owner(p.Owner)})
		if len(p.Denoms) == 0 {
			gs.TokenPairs[len(gs.TokenPairs)-1].Denoms = nil
		}
	}
	var back aggtypes.GenesisState
	if c, txt := jsonRoundTrip(e.app.AppCodec(), &gs, &back); c != 0 {
		o.V, o.XErr = c, txt
		return o
	}
	var err error
	p, val := hlib.Catch(func() { err = back.Validate() })
	o.V = classOf(p, err)
	o.VPanic = val
	if o.V != 0 {
		o.XErr = errText(err)
		return o
	}
	ctx, _ := e.base.CacheContext()
	p, val = hlib.Catch(func() { aggregate.InitGenesis(ctx, *e.app.AggregateKeeper, e.app.AccountKeeper, back) })
	o.X = classOf(p, nil)
	o.XPanic = val
	return o
}

var hexAddrs = []string{"0x5dCA2483280D9727c80b5518faC4556617fb19ZZ", "0x5dCA2483280D9727c80b5518faC4556617fb194F", "5dca2483280d9727c80b5518fac4556617fb194f",
	"0x0000000000000000000000000000000000000000", "0XAbCdEf0123456789aBcDeF0123456789AbCdEf01", "0x1234", "", "0x5dCA2483280D9727c80b5518faC4556617fb194F00"}

func genHexAddr(r *hlib.Rand) string {
	if r.Chance(3, 4) {
		return pick(r, hexAddrs[1], hexAddrs[2], hexAddrs[3], "0x00000000000000000000000000000000000000Aa")
	}
	return hexAddrs[r.Intn(len(hexAddrs))]
}

func genDenom(r *hlib.Rand) string {
	if r.Chance(1, 8) {
		return badDenoms[r.Intn(len(badDenoms))]
	}
	return pick(r, "atele", "stake", "ufoo", "a/b-c", "abcdef0123456789abcdef0123456789abcdef01", "ABCDEF0123456789abcdef0123456789abcdef0", "ibc/27394FB092D2ECCD56123C74F36E4C1F926001CEADA9CA97EA622B25F41E5EB2", "aggregate/0x5dCA2483280D9727c80b5518faC4556617fb194F")
}

func genGenA(r *hlib.Rand) *GenASpec {
	s := &GenASpec{EnableAggregate: !r.Chance(1, 4), EnableEVMHook: !r.Chance(1, 4)}
	for i := r.Intn(4); i > 0; i-- {
		p := GAPair{Erc20: hx(genHexAddr(r)), Enabled: r.Bool(), Owner: int32(r.Intn(4))}
		for j := r.Intn(4); j > 0; j-- {
			p.Denoms = append(p.Denoms, hx(genDenom(r)))
		}
		if len(p.Denoms) == 0 && !r.Chance(1, 3) {
			p.Denoms = []string{hx(genDenom(r))}
		}
		s.Pairs = append(s.Pairs, p)
	}
	return s
}

// ---------------------------------------------------------------------------------------------
// rvesting

type GenRSpec struct {
	Enable     bool   `json:"enable"`
	Rewards    []Pair `json:"rewards"`
	From       string `json:"from"`     // hex of the from string ("" = none)
	FromBal    []Pair `json:"from_bal"` // balances of the from account when InitGenesis runs
	InitReward []Pair `json:"init_reward"`
}

func rawCoins(ps []Pair) sdk.Coins {
	cs := sdk.Coins{}
	for _, p := range ps {
		a, ok := sdk.NewIntFromString(p[1])
		if !ok {
			panic("bad amount " + p[1])
		}
		cs = append(cs, sdk.Coin{Denom: p[0], Amount: a})
	}
	return cs
}

func runGenR(e *env, s *GenRSpec) StepObs {
	o := StepObs{X: -1, Oracle: &Oracle{}}
	from := string(unhex(s.From))
	gs := rvtypes.GenesisState{Params: rvtypes.Params{EnableVesting: s.Enable, PerBlockReward: rawCoins(s.Rewards)}, From: from, InitReward: rawCoins(s.InitReward)}
	var back rvtypes.GenesisState
	if c, txt := jsonRoundTrip(e.app.AppCodec(), &gs, &back); c != 0 {
		o.V, o.XErr = c, txt
		return o
	}
	fromAddr, ferr := sdk.AccAddressFromBech32(from)
	o.Oracle.FromOK = ferr == nil
	var err error
	p, val := hlib.Catch(func() { err = rvtypes.ValidateGenesis(&back) })
	o.V = classOf(p, err)
	o.VPanic = val
	if o.V != 0 {
		o.XErr = errText(err)
		return o
	}
	ctx, _ := e.base.CacheContext()
	if ferr == nil {
		fund(e, ctx, "", fromAddr, s.FromBal)
		o.Oracle.Funded = e.app.BankKeeper.GetAllBalances(ctx, fromAddr).IsAllGTE(back.InitReward) || len(back.InitReward) == 0
	}
	p, val = hlib.Catch(func() { e.app.RVestingKeeper.InitGenesis(ctx, &back) })
	o.X = classOf(p, nil)
	o.XPanic = val
	return o
}

func genGenR(r *hlib.Rand) *GenRSpec {
	s := &GenRSpec{Enable: r.Bool(), Rewards: genRewards(r)}
	good := sdk.AccAddress(bytes.Repeat([]byte{byte(0x20 + r.Intn(3))}, 20)).String()
	switch r.Intn(6) {
	case 0, 1:
		s.From = ""
	case 2:
		s.From = hx(pick(r, "x", good+"x", strings.ToUpper(good)[:10]))
	default:
		s.From = hx(good)
	}
	// init_reward: mostly a valid (sorted, positive, distinct) coin set, sometimes degenerate
	ds := append([]string{}, validDenoms...)
	sortStrings(ds)
	for _, d := range ds {
		if r.Chance(1, 2) {
			a := genAmount(r)
			if a == "0" && !r.Chance(1, 5) {
				a = "3"
			}
			s.InitReward = append(s.InitReward, Pair{d, a})
		}
	}
	if r.Chance(1, 5) && len(s.InitReward) > 0 {
		switch r.Intn(4) {
		case 0:
			s.InitReward = append(s.InitReward, s.InitReward[0])
		case 1:
			s.InitReward[0][0] = badDenoms[r.Intn(len(badDenoms))]
		case 2:
			s.InitReward[0][1] = "-4"
		case 3:
			s.InitReward = append([]Pair{{"zzz", "1"}}, s.InitReward...)
		}
	}
	// balances of from: usually enough, sometimes short or missing
	for _, p := range s.InitReward {
		if sdk.ValidateDenom(p[0]) != nil || strings.HasPrefix(p[1], "-") || p[1] == "0" {
			continue
		}
		switch r.Intn(6) {
		case 0: // nothing
		case 1:
			a, _ := sdk.NewIntFromString(p[1])
			if a.GT(sdk.OneInt()) {
				s.FromBal = append(s.FromBal, Pair{p[0], a.SubRaw(1).String()})
			}
		default:
			a, _ := sdk.NewIntFromString(p[1])
			s.FromBal = append(s.FromBal, Pair{p[0], a.AddRaw(int64(r.Intn(3))).String()})
		}
	}
	return s
}

func sortStrings(l []string) {
	for i := 1; i < len(l); i++ {
		for j := i; j > 0 && l[j] < l[j-1]; j-- {
			l[j], l[j-1] = l[j-1], l[j]
		}
	}
}
