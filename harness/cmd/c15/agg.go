package main

// aggregate part: the eight aggregate governance proposals (and parameter changes on the aggregate
// parameter set), decoded from bytes, validated statelessly and executed the way gov.EndBlocker does,
// in several module states (nothing registered / a native coin pair / an ERC20 pair / module disabled).

import (
	"strings"

	sdk "github.com/cosmos/cosmos-sdk/types"
	banktypes "github.com/cosmos/cosmos-sdk/x/bank/types"
	govtypes "github.com/cosmos/cosmos-sdk/x/gov/types"
	"github.com/ethereum/go-ethereum/common"
	"github.com/ethereum/go-ethereum/crypto"

	erc20contracts "github.com/teleport-network/teleport/syscontracts/erc20"
	"github.com/teleport-network/teleport/x/aggregate"
	aggtypes "github.com/teleport-network/teleport/x/aggregate/types"

	"verifharness/hlib"
)

type UnitSpec struct {
	Denom    string   `json:"denom"` // hex
	Exponent uint32   `json:"exponent"`
	Aliases  []string `json:"aliases"` // hex
}

type MetaSpec struct {
	Name    string     `json:"name"` // hex
	Symbol  string     `json:"symbol"`
	Base    string     `json:"base"`
	Display string     `json:"display"`
	Units   []UnitSpec `json:"units"`
}

type AStep struct {
	Op       string    `json:"op"` // register_coin add_coin register_erc20 toggle update_erc20 trace enable_limit disable_limit param
	Title    string    `json:"title"`
	DescLen  int       `json:"desc_len"`
	Meta     *MetaSpec `json:"meta,omitempty"`
	Contract string    `json:"contract,omitempty"`     // hex of the string; "@deployed" "@deployed2" "@pair" are replaced by set-up addresses
	NewAddr  string    `json:"new_contract,omitempty"` // update_erc20
	Token    string    `json:"token,omitempty"`        // hex: trace origin token
	Chain    string    `json:"chain,omitempty"`        // hex: trace origin chain
	Scale    uint64    `json:"scale"`
	Nums     []string  `json:"nums,omitempty"` // enable_limit: time period, time based limit, max amount, min amount (hex of the decimal strings)
	Key      string    `json:"key,omitempty"`  // param
	Value    string    `json:"value,omitempty"`
}

type AggSpec struct {
	Setup []string `json:"setup"` // coin | erc20 | erc20b | disable
	Steps []AStep  `json:"steps"`
}

type aggRefs struct {
	deployed, deployed2, pair, twin, twin2 string
}

func deployERC20(e *env, ctx sdk.Context, name, symbol string, decimals uint8) common.Address {
	ctor, err := erc20contracts.ERC20MinterBurnerDecimalsContract.ABI.Pack("", name, symbol, decimals)
	if err != nil {
		panic(err)
	}
	data := append(append([]byte{}, erc20contracts.ERC20MinterBurnerDecimalsContract.Bin...), ctor...)
	nonce, err := e.app.AccountKeeper.GetSequence(ctx, aggtypes.ModuleAddress.Bytes())
	if err != nil {
		panic(err)
	}
	addr := crypto.CreateAddress(aggtypes.ModuleAddress, nonce)
	if _, err := e.app.AggregateKeeper.CallEVMWithData(ctx, aggtypes.ModuleAddress, nil, data); err != nil {
		panic("harness: cannot deploy ERC20: " + err.Error())
	}
	return addr
}

func stdMeta(base, display, name, symbol string) banktypes.Metadata {
	return banktypes.Metadata{Description: "verif", Base: base, Display: display, Name: name, Symbol: symbol,
		DenomUnits: []*banktypes.DenomUnit{{Denom: base, Exponent: 0}, {Denom: display, Exponent: 6}}}
}

func aggSetup(e *env, ctx sdk.Context, setup []string) aggRefs {
	refs := aggRefs{deployed: "0x00000000000000000000000000000000000000d1", deployed2: "0x00000000000000000000000000000000000000d2", pair: "0x00000000000000000000000000000000000000d3",
		twin: "0x00000000000000000000000000000000000000d4", twin2: "0x00000000000000000000000000000000000000d5"}
	k := e.app.AggregateKeeper
	// coins that exist (have a supply) in every case
	fund(e, ctx, "", sdk.AccAddress(e.addr.Bytes()), []Pair{{"ucoin", "1000"}, {"uother", "1000"}, {"ucoin2", "7"}, {"ucoin3", "7"}, {"ibc/27394FB092D2ECCD56123C74F36E4C1F926001CEADA9CA97EA622B25F41E5EB2", "5"}})
	for _, s := range setup {
		switch s {
		case "coin":
			p, err := k.RegisterCoin(ctx, stdMeta("ucoin", "coin", "Verif Coin", "VC"))
			if err != nil {
				panic("harness setup: " + err.Error())
			}
			refs.pair = p.ERC20Address
		case "erc20":
			a := deployERC20(e, ctx, "Test Token", "TST", 18)
			if _, err := k.RegisterERC20(ctx, a); err != nil {
				panic("harness setup: " + err.Error())
			}
			refs.deployed = a.Hex()
		case "erc20b":
			refs.deployed2 = deployERC20(e, ctx, "Other", "OTH", 0).Hex()
		case "twin":
			// two identical ERC20 contracts, the first one registered: UpdateTokenPairERC20 from one to the other passes
			// every comparison (name without characters to sanitize, decimals > 0)
			a := deployERC20(e, ctx, "twin", "TWN", 6)
			if _, err := k.RegisterERC20(ctx, a); err != nil {
				panic("harness setup: " + err.Error())
			}
			refs.twin = a.Hex()
			refs.twin2 = deployERC20(e, ctx, "twin", "TWN", 6).Hex()
		case "meta":
			// bank metadata of a coin that is not registered as a token pair (verifyMetadata compares)
			e.app.BankKeeper.SetDenomMetaData(ctx, stdMeta("uother", "other", "Other Coin", "OC"))
		case "disable":
			if c := paramChange(e, ctx, aggtypes.ModuleName, string(aggtypes.ParamStoreKeyEnableAggregate), "false"); c != 0 {
				panic("harness setup: cannot disable")
			}
		}
	}
	return refs
}

func (r aggRefs) resolve(hexs string) string {
	s := string(unhex(hexs))
	switch s {
	case "@deployed":
		return r.deployed
	case "@deployed2":
		return r.deployed2
	case "@pair":
		return r.pair
	case "@twin":
		return r.twin
	case "@twin2":
		return r.twin2
	case "@pair_lower":
		return strings.ToLower(r.pair)
	case "@pair_nox":
		return strings.TrimPrefix(r.pair, "0x")
	}
	return s
}

func buildMeta(m *MetaSpec) banktypes.Metadata {
	md := banktypes.Metadata{Description: "verif", Name: string(unhex(m.Name)), Symbol: string(unhex(m.Symbol)), Base: string(unhex(m.Base)), Display: string(unhex(m.Display))}
	for _, u := range m.Units {
		md.DenomUnits = append(md.DenomUnits, &banktypes.DenomUnit{Denom: string(unhex(u.Denom)), Exponent: u.Exponent, Aliases: unhexAll(u.Aliases)})
		if len(u.Aliases) == 0 {
			md.DenomUnits[len(md.DenomUnits)-1].Aliases = nil
		}
	}
	return md
}

func num(st *AStep, i int) string {
	if i < len(st.Nums) {
		return string(unhex(st.Nums[i]))
	}
	return ""
}

func buildAggContent(st *AStep, refs aggRefs) govtypes.Content {
	title := string(unhex(st.Title))
	desc := strings.Repeat("d", st.DescLen)
	switch st.Op {
	case "register_coin":
		return &aggtypes.RegisterCoinProposal{Title: title, Description: desc, Metadata: buildMeta(st.Meta)}
	case "add_coin":
		return &aggtypes.AddCoinProposal{Title: title, Description: desc, Metadata: buildMeta(st.Meta), ContractAddress: refs.resolve(st.Contract)}
	case "register_erc20":
		return &aggtypes.RegisterERC20Proposal{Title: title, Description: desc, ERC20Address: refs.resolve(st.Contract)}
	case "toggle":
		return &aggtypes.ToggleTokenRelayProposal{Title: title, Description: desc, Token: refs.resolve(st.Contract)}
	case "update_erc20":
		return &aggtypes.UpdateTokenPairERC20Proposal{Title: title, Description: desc, ERC20Address: refs.resolve(st.Contract), NewERC20Address: refs.resolve(st.NewAddr)}
	case "trace":
		return &aggtypes.RegisterERC20TraceProposal{Title: title, Description: desc, ERC20Address: refs.resolve(st.Contract), OriginToken: string(unhex(st.Token)), OriginChain: string(unhex(st.Chain)), Scale: st.Scale}
	case "enable_limit":
		return &aggtypes.EnableTimeBasedSupplyLimitProposal{Title: title, Description: desc, ERC20Address: refs.resolve(st.Contract),
			TimePeriod: num(st, 0), TimeBasedLimit: num(st, 1), MaxAmount: num(st, 2), MinAmount: num(st, 3)}
	case "disable_limit":
		return &aggtypes.DisableTimeBasedSupplyLimitProposal{Title: title, Description: desc, ERC20Address: refs.resolve(st.Contract)}
	}
	panic("bad aggregate op " + st.Op)
}

func runAgg(e *env, s *AggSpec) []StepObs {
	ctx, _ := e.base.CacheContext()
	refs := aggSetup(e, ctx, s.Setup)
	handler := aggregate.NewAggregateProposalHandler(e.app.AggregateKeeper)
	obs := []StepObs{}
	for i := range s.Steps {
		st := &s.Steps[i]
		o := StepObs{X: -1}
		if st.Op == "param" {
			// parameter change on the aggregate parameter set (registered keys only: Subspace.Update panics on an
			// unregistered key, which is SDK behaviour outside the property's quantifier)
			o.V = 0
			o.X = paramChange(e, ctx, aggtypes.ModuleName, st.Key, string(unhex(st.Value)))
			obs = append(obs, o)
			if o.X == 2 {
				break
			}
			continue
		}
		content := buildAggContent(st, refs)
		o.Res = map[string]string{}
		if st.Contract != "" {
			o.Res["contract"] = hx(refs.resolve(st.Contract))
		}
		if st.NewAddr != "" {
			o.Res["new_contract"] = hx(refs.resolve(st.NewAddr))
		}
		decoded, v, vtxt := submitRoundTrip(e, content)
		o.V = v
		if v == 2 {
			o.VPanic = vtxt
		}
		if v == 0 {
			o.X, o.XPanic, o.XErr = govExecute(ctx, handler, decoded)
		}
		obs = append(obs, o)
		if o.X == 2 {
			break
		}
	}
	return obs
}

// ---------------------------------------------------------------------------------------------
// generator

func genMeta(r *hlib.Rand) *MetaSpec {
	bases := []string{"ucoin", "uother", "unosupply", "ibc/27394FB092D2ECCD56123C74F36E4C1F926001CEADA9CA97EA622B25F41E5EB2", "atele"}
	base := bases[r.Intn(len(bases))]
	display := pick(r, "coin", "other", "disp")
	m := &MetaSpec{Name: hx(pick(r, "Verif Coin", "Other Coin", "channel-0 coin")), Symbol: hx(pick(r, "VC", "OC", "ibcVC")), Base: hx(base), Display: hx(display),
		Units: []UnitSpec{{Denom: hx(base), Exponent: 0}, {Denom: hx(display), Exponent: 6}}}
	if r.Chance(1, 2) {
		return m
	}
	switch r.Intn(14) {
	case 0:
		m.Units = nil
	case 1:
		m.Units = m.Units[:1] // display missing
	case 2:
		m.Display = m.Base
		m.Units = m.Units[:1]
	case 3:
		m.Units[0].Exponent = 3
	case 4:
		m.Units[1].Exponent = 0
	case 5:
		m.Units = append(m.Units, m.Units[1])
	case 6:
		m.Name = hx(pick(r, "", " ", "\u00a0"))
	case 7:
		m.Symbol = hx(pick(r, "", "\t"))
	case 8:
		m.Base = hx(badDenoms[r.Intn(len(badDenoms))])
		m.Units[0].Denom = m.Base
	case 9:
		m.Display = hx(badDenoms[r.Intn(len(badDenoms))])
	case 10:
		m.Units[1].Aliases = []string{hx("x"), hx(pick(r, "x", "", " ", "y"))}
	case 11:
		m.Base = hx(pick(r, "ibc", "ibc/", "ibc/zz", "ibc/ABCD", "ibc/27394FB092D2ECCD56123C74F36E4C1F926001CEADA9CA97EA622B25F41E5EB"))
		m.Units[0].Denom = m.Base
	case 12:
		m.Units[0].Denom = hx("different")
	case 13:
		m.Units = append([]UnitSpec{{Denom: hx(string(unhex(m.Base))), Exponent: 0}}, UnitSpec{Denom: hx("mid"), Exponent: 4294967295}, m.Units[1])
	}
	return m
}

func genContract(r *hlib.Rand) string {
	if r.Chance(3, 4) {
		return hx(pick(r, "@deployed", "@deployed", "@deployed2", "@pair", "@pair_lower", "@pair_nox"))
	}
	return hx(hexAddrs[r.Intn(len(hexAddrs))])
}

func genNum(r *hlib.Rand, base int) string {
	if r.Chance(1, 6) {
		// a valid number in a spelling the two parsers of the proposal might treat differently
		v := []string{"1", "10", "100", "1000", "10000"}[base%5]
		return hx(pick(r, " "+v, v+" ", "\t"+v, v+"\n", "+"+v, "0"+v, "\u00a0"+v, " +"+v+" "))
	}
	if r.Chance(1, 6) {
		return hx(pick(r, "", "0", "-1", "+5", "1_000", "0x10", " 7", "7 ", "1e3", "12345678901234567890123456789012345678901234567890123456789012345678901234567890", "\u0663"))
	}
	return hx([]string{"1", "10", "100", "1000", "115792089237316195423570985008687907853269984665640564039457584007913129639936"}[(base+r.Intn(2))%5])
}

func genAStep(r *hlib.Rand) AStep {
	st := AStep{}
	st.Title, st.DescLen = genTitle(r)
	ops := []string{"register_coin", "add_coin", "register_erc20", "toggle", "update_erc20", "trace", "enable_limit", "disable_limit", "param"}
	st.Op = ops[r.Intn(len(ops))]
	switch st.Op {
	case "register_coin":
		st.Meta = genMeta(r)
	case "add_coin":
		st.Meta = genMeta(r)
		st.Contract = genContract(r)
	case "register_erc20", "disable_limit":
		st.Contract = genContract(r)
	case "toggle":
		st.Contract = genContract(r)
		if r.Chance(1, 2) {
			st.Contract = hx(pick(r, "ucoin", "uother", "aggregate/0x5dCA2483280D9727c80b5518faC4556617fb194F", "1", "", "coin"))
		}
	case "update_erc20":
		st.Contract, st.NewAddr = genContract(r), genContract(r)
	case "trace":
		st.Contract = genContract(r)
		st.Token, st.Chain = hx(pick(r, "0xabc", "", " ", "tok")), hx(pick(r, "eth", "", "\n", "bsc-testnet"))
		st.Scale = pickU(r, 0, 1, 18, 19, 255, 256, 1<<63)
	case "enable_limit":
		st.Contract = genContract(r)
		st.Nums = []string{genNum(r, 0), genNum(r, 3), genNum(r, 2), genNum(r, 1)}
	case "param":
		st.Key = pick(r, "EnableAggregate", "EnableEVMHook")
		st.Value = hx(pick(r, "true", "false", "\"true\"", "1", "null", "", "{}", "tru"))
	}
	return st
}

func genAgg(r *hlib.Rand) *AggSpec {
	s := &AggSpec{}
	for _, x := range []string{"coin", "erc20", "erc20b"} {
		if r.Chance(1, 2) {
			s.Setup = append(s.Setup, x)
		}
	}
	if r.Chance(1, 8) {
		s.Setup = append(s.Setup, "disable")
	}
	for i := 1 + r.Intn(4); i > 0; i-- {
		s.Steps = append(s.Steps, genAStep(r))
	}
	return s
}
