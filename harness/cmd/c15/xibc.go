package main

import (
	"bytes"
	"encoding/hex"
	"math/big"
	"sort"
	"strings"
	"time"

	ics23 "github.com/confio/ics23/go"
	codectypes "github.com/cosmos/cosmos-sdk/codec/types"
	sdk "github.com/cosmos/cosmos-sdk/types"
	govtypes "github.com/cosmos/cosmos-sdk/x/gov/types"
	"github.com/ethereum/go-ethereum/common"
	ethtypes "github.com/ethereum/go-ethereum/core/types"
	"github.com/ethereum/go-ethereum/crypto"
	"github.com/gogo/protobuf/proto"

	bsctypes "github.com/teleport-network/teleport/x/xibc/clients/light-clients/bsc/types"
	ethclient "github.com/teleport-network/teleport/x/xibc/clients/light-clients/eth/types"
	tmclient "github.com/teleport-network/teleport/x/xibc/clients/light-clients/tendermint/types"
	tsstypes "github.com/teleport-network/teleport/x/xibc/clients/tss-client/types"
	xibcclient "github.com/teleport-network/teleport/x/xibc/core/client"
	clienttypes "github.com/teleport-network/teleport/x/xibc/core/client/types"
	commitmenttypes "github.com/teleport-network/teleport/x/xibc/core/commitment/types"
	"github.com/teleport-network/teleport/x/xibc/exported"

	"verifharness/hlib"
)

type H struct {
	Rev uint64 `json:"rev"`
	H   uint64 `json:"h"`
}

// HdrSpec describes a BSC / ETH header embedded in a client state.
type HdrSpec struct {
	Height   H      `json:"height"`
	ExtraLen int    `json:"extra_len"`
	Mix      string `json:"mix"`   // hex
	Uncle    string `json:"uncle"` // hex
	Root     string `json:"root,omitempty"` // hex of the state root; "" = 32 bytes 0x03, "empty" = no bytes
	Diff     string `json:"diff"`  // hex, big endian
	BloomLen int    `json:"bloom_len"`
	NonceLen int    `json:"nonce_len"` // bsc
	GasLimit uint64 `json:"gas_limit"`
	GasUsed  uint64 `json:"gas_used"`
	Seal     string `json:"seal"` // bsc: good | mismatch | bad
}

// CSSpec describes the client-state Any of a proposal / genesis entry.
type CSSpec struct {
	Kind string `json:"kind"` // tm | bsc | eth | tss | nil | emptyurl | wrong
	// tendermint
	ChainID   string `json:"chain_id,omitempty"` // hex of the chain id string
	TLNum     uint64 `json:"tl_num"`
	TLDen     uint64 `json:"tl_den"`
	Trusting  int64  `json:"trusting"` // ns
	Unbonding int64  `json:"unbonding"`
	Drift     int64  `json:"drift"`
	Latest    H      `json:"latest"`
	NSpecs    int    `json:"nspecs"`
	// bsc / eth
	Hdr            *HdrSpec `json:"hdr,omitempty"`
	ChainNum       uint64   `json:"chain_num"`
	Epoch          uint64   `json:"epoch"`
	TrustingPeriod uint64   `json:"trusting_period"`
	// tss
	TssAddr string `json:"tss_addr,omitempty"` // hex of the address string
}

type ConsSpec struct {
	Kind string `json:"kind"` // tm | bsc | eth | tss | nil | emptyurl | wrong
	Ts   uint64 `json:"ts"`   // bsc / eth timestamp; tm: unix seconds
	Root string `json:"root,omitempty"` // bsc / eth: hex of the root; "" = 32 bytes 0x03, "empty" = no bytes
}

type XStep struct {
	Op      string   `json:"op"`       // create | upgrade | toggle | relayer
	Title   string   `json:"title"`    // hex
	DescLen int      `json:"desc_len"` // description = DescLen times 'd'
	Chain   string   `json:"chain"`    // hex of the chain name
	CS      CSSpec   `json:"cs"`
	Cons    ConsSpec `json:"cons"`
	// relayer
	Address   string   `json:"address,omitempty"` // hex of the address string
	Chains    []string `json:"chains,omitempty"`  // hex
	Addresses []string `json:"addresses,omitempty"`
}

type XibcSpec struct {
	Steps []XStep `json:"steps"`
}

// Oracle: answers of library functions the model takes as oracle arguments.
type Oracle struct {
	SealOK    bool `json:"seal_ok"`    // bsc: ecrecover succeeded and the signer equals the coinbase
	Bech32OK  bool `json:"bech32_ok"`  // tss address / relayer address parses
	FromOK    bool `json:"from_ok"`    // rvesting genesis: from address parses
	Funded    bool `json:"funded"`     // rvesting genesis: from holds init_reward
	HasSupply bool `json:"has_supply"` // unused placeholder
}

type ConsObs struct {
	Rev  uint64 `json:"rev"`
	H    uint64 `json:"h"`
	Kind string `json:"kind"`
	Ts   uint64 `json:"ts"`
}

type Post struct {
	Type   string    `json:"type"` // none | tendermint | bsc | eth | tss
	Latest H         `json:"latest"`
	Cons   []ConsObs `json:"cons"`
}

func unhex(s string) []byte {
	b, err := hex.DecodeString(s)
	if err != nil {
		panic(err)
	}
	return b
}

func hx(s string) string { return hex.EncodeToString([]byte(s)) }

// rootBytes: the convention of the Root fields of HdrSpec / ConsSpec
func rootBytes(s string) []byte {
	switch s {
	case "":
		return bytes.Repeat([]byte{3}, 32)
	case "empty":
		return []byte{}
	}
	return unhex(s)
}

var sealKey, _ = crypto.ToECDSA(crypto.Keccak256([]byte("verif-c15-sealer")))

var uncleHash = ethtypes.CalcUncleHash(nil)

func buildBscHeader(h *HdrSpec, chainNum uint64) bsctypes.Header {
	extra := bytes.Repeat([]byte{0x11}, h.ExtraLen)
	hd := bsctypes.Header{
		ParentHash:  bytes.Repeat([]byte{1}, 32),
		UncleHash:   unhex(h.Uncle),
		Coinbase:    bytes.Repeat([]byte{2}, 20),
		Root:        rootBytes(h.Root),
		TxHash:      bytes.Repeat([]byte{4}, 32),
		ReceiptHash: bytes.Repeat([]byte{5}, 32),
		Bloom:       bytes.Repeat([]byte{6}, h.BloomLen),
		Difficulty:  unhex(h.Diff),
		Height:      clienttypes.NewHeight(h.Height.Rev, h.Height.H),
		GasLimit:    h.GasLimit,
		GasUsed:     h.GasUsed,
		Time:        1700000000,
		Extra:       extra,
		MixDigest:   unhex(h.Mix),
		Nonce:       bytes.Repeat([]byte{0}, h.NonceLen),
	}
	if h.Seal != "bad" && h.ExtraLen >= 65 {
		// seal the header with the harness key (the seal hash panics for chain ids >= 2^63: leave unsealed then)
		signer := crypto.PubkeyToAddress(sealKey.PublicKey)
		if h.Seal == "good" {
			hd.Coinbase = signer.Bytes()
		}
		hlib.Catch(func() {
			sh := bsctypes.VerifSealHash(hd, big.NewInt(int64(chainNum)))
			sig, err := crypto.Sign(sh.Bytes(), sealKey)
			if err != nil {
				panic(err)
			}
			copy(hd.Extra[len(hd.Extra)-65:], sig)
		})
	}
	return hd
}

func buildEthHeader(h *HdrSpec) ethclient.Header {
	return ethclient.Header{
		ParentHash:  bytes.Repeat([]byte{1}, 32),
		UncleHash:   unhex(h.Uncle),
		Coinbase:    bytes.Repeat([]byte{2}, 20),
		Root:        rootBytes(h.Root),
		TxHash:      bytes.Repeat([]byte{4}, 32),
		ReceiptHash: bytes.Repeat([]byte{5}, 32),
		Bloom:       bytes.Repeat([]byte{6}, h.BloomLen),
		Difficulty:  unhex(h.Diff),
		Height:      clienttypes.NewHeight(h.Height.Rev, h.Height.H),
		GasLimit:    h.GasLimit,
		GasUsed:     h.GasUsed,
		Time:        1700000000,
		Extra:       bytes.Repeat([]byte{0x11}, h.ExtraLen),
		MixDigest:   unhex(h.Mix),
		Nonce:       7,
		BaseFee:     []byte{1},
	}
}

func mustAny(m proto.Message) *codectypes.Any {
	a, err := codectypes.NewAnyWithValue(m)
	if err != nil {
		panic(err)
	}
	// drop the cached value: the proposal is decoded from bytes before it is used
	return &codectypes.Any{TypeUrl: a.TypeUrl, Value: a.Value}
}

func wrongAny(r int) *codectypes.Any {
	switch r % 3 {
	case 0: // a registered type of ANOTHER interface
		return mustAny(&tmclient.Header{})
	case 1:
		return &codectypes.Any{TypeUrl: "/verif.Unregistered", Value: []byte{1, 2, 3}}
	default: // registered type, undecodable payload
		return &codectypes.Any{TypeUrl: "/xibc.clients.lightclients.bsc.v1.ClientState", Value: []byte{0xff, 0xff, 0xff}}
	}
}

func buildCS(s *CSSpec) (*codectypes.Any, *Oracle) {
	or := &Oracle{}
	switch s.Kind {
	case "nil":
		return nil, or
	case "emptyurl":
		return &codectypes.Any{}, or
	case "wrong":
		return wrongAny(int(s.TLNum)), or
	case "tm":
		specs := []*ics23.ProofSpec{}
		for i := 0; i < s.NSpecs; i++ {
			specs = append(specs, commitmenttypes.GetSDKSpecs()[i%2])
		}
		if s.NSpecs == 0 {
			specs = nil
		}
		cs := &tmclient.ClientState{
			ChainId:         string(unhex(s.ChainID)),
			TrustLevel:      tmclient.Fraction{Numerator: s.TLNum, Denominator: s.TLDen},
			TrustingPeriod:  time.Duration(s.Trusting),
			UnbondingPeriod: time.Duration(s.Unbonding),
			MaxClockDrift:   time.Duration(s.Drift),
			LatestHeight:    clienttypes.NewHeight(s.Latest.Rev, s.Latest.H),
			ProofSpecs:      specs,
			MerklePrefix:    commitmenttypes.MerklePrefix{KeyPrefix: []byte("xibc")},
		}
		return mustAny(cs), or
	case "bsc":
		hd := buildBscHeader(s.Hdr, s.ChainNum)
		cs := &bsctypes.ClientState{Header: hd, ChainId: s.ChainNum, Epoch: s.Epoch, BlockInteval: 3,
			Validators: [][]byte{bytes.Repeat([]byte{9}, 20)}, ContractAddress: bytes.Repeat([]byte{8}, 20),
			TrustingPeriod: s.TrustingPeriod}
		hlib.Catch(func() {
			signer, err := bsctypes.VerifEcrecover(hd, big.NewInt(int64(s.ChainNum)))
			or.SealOK = err == nil && signer == common.BytesToAddress(hd.Coinbase)
		})
		return mustAny(cs), or
	case "eth":
		cs := &ethclient.ClientState{Header: buildEthHeader(s.Hdr), ChainId: s.ChainNum,
			ContractAddress: bytes.Repeat([]byte{8}, 20), TrustingPeriod: s.TrustingPeriod, TimeDelay: 1, BlockDelay: 1}
		return mustAny(cs), or
	case "tss":
		addr := string(unhex(s.TssAddr))
		_, err := sdk.AccAddressFromBech32(addr)
		or.Bech32OK = err == nil
		return mustAny(&tsstypes.ClientState{TssAddress: addr, Pubkey: []byte{1}, Threshold: 1}), or
	}
	panic("bad client state kind " + s.Kind)
}

func buildCons(s *ConsSpec) *codectypes.Any {
	switch s.Kind {
	case "nil":
		return nil
	case "emptyurl":
		return &codectypes.Any{}
	case "wrong":
		return wrongAny(int(s.Ts))
	case "tm":
		return mustAny(&tmclient.ConsensusState{Timestamp: time.Unix(int64(s.Ts%(1<<33)), 0).UTC(), Root: []byte("root"),
			NextValidatorsHash: bytes.Repeat([]byte{7}, 32)})
	case "bsc":
		return mustAny(&bsctypes.ConsensusState{Timestamp: s.Ts, Height: clienttypes.NewHeight(0, 1), Root: rootBytes(s.Root)})
	case "eth":
		return mustAny(&ethclient.ConsensusState{Timestamp: s.Ts, Height: clienttypes.NewHeight(0, 1), Root: rootBytes(s.Root)})
	case "tss":
		return mustAny(&tsstypes.ConsensusState{})
	}
	panic("bad consensus state kind " + s.Kind)
}

func unhexAll(l []string) []string {
	out := []string{}
	for _, s := range l {
		out = append(out, string(unhex(s)))
	}
	return out
}

func buildContent(st *XStep) (govtypes.Content, *Oracle) {
	title := string(unhex(st.Title))
	desc := strings.Repeat("d", st.DescLen)
	chain := string(unhex(st.Chain))
	switch st.Op {
	case "create":
		cs, or := buildCS(&st.CS)
		return &clienttypes.CreateClientProposal{Title: title, Description: desc, ChainName: chain, ClientState: cs, ConsensusState: buildCons(&st.Cons)}, or
	case "upgrade":
		cs, or := buildCS(&st.CS)
		return &clienttypes.UpgradeClientProposal{Title: title, Description: desc, ChainName: chain, ClientState: cs, ConsensusState: buildCons(&st.Cons)}, or
	case "toggle":
		cs, or := buildCS(&st.CS)
		return &clienttypes.ToggleClientProposal{Title: title, Description: desc, ChainName: chain, ClientState: cs, ConsensusState: buildCons(&st.Cons)}, or
	case "relayer":
		addr := string(unhex(st.Address))
		_, err := sdk.AccAddressFromBech32(addr)
		return &clienttypes.RegisterRelayerProposal{Title: title, Description: desc, Address: addr,
			Chains: unhexAll(st.Chains), Addresses: unhexAll(st.Addresses)}, &Oracle{Bech32OK: err == nil}
	}
	panic("bad op " + st.Op)
}

// submitRoundTrip is what a proposal goes through before gov stores it: the content is packed into
// MsgSubmitProposal, serialised, decoded by the application codec (which unpacks the Any values) and
// validated statelessly.  Returns the decoded content (nil unless accepted) and the validation class.
func submitRoundTrip(e *env, content govtypes.Content) (govtypes.Content, int, string) {
	var decoded govtypes.Content
	var err error
	p, val := hlib.Catch(func() {
		var msg *govtypes.MsgSubmitProposal
		msg, err = govtypes.NewMsgSubmitProposal(content, sdk.NewCoins(sdk.NewInt64Coin("atele", 1)), sdk.AccAddress(e.addr.Bytes()))
		if err != nil {
			return
		}
		var bz []byte
		bz, err = e.app.AppCodec().Marshal(msg)
		if err != nil {
			return
		}
		var back govtypes.MsgSubmitProposal
		if err = e.app.AppCodec().Unmarshal(bz, &back); err != nil {
			return
		}
		if err = back.ValidateBasic(); err != nil {
			return
		}
		decoded = back.GetContent()
	})
	if p {
		return nil, 2, val
	}
	if err != nil {
		return nil, 1, errText(err)
	}
	return decoded, 0, ""
}

// govExecute runs a handler the way gov.EndBlocker does: cache context, written on success, no recover
// (the recover is the harness's).
func govExecute(ctx sdk.Context, handler govtypes.Handler, content govtypes.Content) (int, string, string) {
	var err error
	cctx, write := ctx.CacheContext()
	p, val := hlib.Catch(func() { err = handler(cctx, content) })
	if p {
		return 2, val, ""
	}
	if err != nil {
		return 1, "", errText(err)
	}
	write()
	return 0, "", ""
}

func consKind(cs exported.ConsensusState) (string, uint64) {
	switch c := cs.(type) {
	case *tmclient.ConsensusState:
		return "tm", 0
	case *bsctypes.ConsensusState:
		return "bsc", c.Timestamp
	case *ethclient.ConsensusState:
		return "eth", c.Timestamp
	case *tsstypes.ConsensusState:
		return "tss", 0
	}
	return "?", 0
}

func projectClient(e *env, ctx sdk.Context, chain string) *Post {
	p := &Post{Type: "none", Cons: []ConsObs{}}
	k := e.app.XIBCKeeper.ClientKeeper
	var cs exported.ClientState
	var has bool
	if pn, _ := hlib.Catch(func() { cs, has = k.GetClientState(ctx, chain) }); pn {
		p.Type = "unreadable"
		return p
	}
	if has {
		p.Type = cs.ClientType()
		lh := cs.GetLatestHeight()
		p.Latest = H{lh.GetRevisionNumber(), lh.GetRevisionHeight()}
	}
	store := k.ClientStore(ctx, chain)
	prefix := []byte("consensusStates/")
	it := sdk.KVStorePrefixIterator(store, prefix)
	defer it.Close()
	for ; it.Valid(); it.Next() {
		key := it.Key()
		if len(key) != len(prefix)+16 {
			continue
		}
		kind, ts := "?", uint64(0)
		if c, err := clienttypes.UnmarshalConsensusState(e.app.AppCodec(), it.Value()); err == nil {
			kind, ts = consKind(c)
		}
		p.Cons = append(p.Cons, ConsObs{Rev: sdk.BigEndianToUint64(key[len(prefix) : len(prefix)+8]), H: sdk.BigEndianToUint64(key[len(prefix)+8:]), Kind: kind, Ts: ts})
	}
	sort.Slice(p.Cons, func(i, j int) bool {
		if p.Cons[i].Rev != p.Cons[j].Rev {
			return p.Cons[i].Rev < p.Cons[j].Rev
		}
		return p.Cons[i].H < p.Cons[j].H
	})
	return p
}

func runXibc(e *env, s *XibcSpec) []StepObs {
	ctx, _ := e.base.CacheContext()
	return runXSteps(e, ctx, s.Steps)
}

func runXSteps(e *env, ctx sdk.Context, steps []XStep) []StepObs {
	handler := xibcclient.NewClientProposalHandler(e.app.XIBCKeeper.ClientKeeper)
	obs := []StepObs{}
	for i := range steps {
		st := &steps[i]
		o := StepObs{X: -1}
		var content govtypes.Content
		if p, val := hlib.Catch(func() { content, o.Oracle = buildContent(st) }); p {
			panic("harness: cannot build proposal: " + val)
		}
		decoded, v, vtxt := submitRoundTrip(e, content)
		o.V = v
		if v == 2 {
			o.VPanic = vtxt
		}
		if v == 0 {
			o.X, o.XPanic, o.XErr = govExecute(ctx, handler, decoded)
		}
		if st.Op != "relayer" {
			o.Post = projectClient(e, ctx, string(unhex(st.Chain)))
		}
		obs = append(obs, o)
		if o.X == 2 {
			break // the chain would have halted here
		}
	}
	return obs
}

// ---------------------------------------------------------------------------------------------
// generator

var zero32 = strings.Repeat("00", 32)

func pick(r *hlib.Rand, l ...string) string { return l[r.Intn(len(l))] }

func pickU(r *hlib.Rand, l ...uint64) uint64 { return l[r.Intn(len(l))] }

func genHeight(r *hlib.Rand) H {
	return H{Rev: pickU(r, 0, 0, 0, 1, 47, 1<<63, ^uint64(0)), H: pickU(r, 0, 1, 5, 47, 100, 200, 303, 0x2f00, 1<<63 - 1, 1 << 63, ^uint64(0))}
}

func validHdr(r *hlib.Rand) *HdrSpec {
	return &HdrSpec{Height: H{0, pickU(r, 0, 200, 400, 1000)}, ExtraLen: 32 + 20*r.Intn(4) + 65, Mix: zero32, Uncle: hex.EncodeToString(uncleHash.Bytes()),
		Diff: "02", BloomLen: 256, NonceLen: 8, GasLimit: 30000000, GasUsed: 1000000, Seal: "good"}
}

func mutateHdr(r *hlib.Rand, h *HdrSpec) {
	switch r.Intn(12) {
	case 0:
		h.Height = genHeight(r)
	case 1:
		h.ExtraLen = []int{0, 1, 31, 32, 64, 65, 96, 97, 98, 116, 117, 118, 137, 500}[r.Intn(14)]
	case 2:
		h.Mix = pick(r, "", "01", zero32+"00", "01"+zero32, zero32[:62]+"01", strings.Repeat("00", 31))
	case 3:
		h.Uncle = pick(r, "", zero32, "ff"+hex.EncodeToString(uncleHash.Bytes()), hex.EncodeToString(uncleHash.Bytes())+"00", hex.EncodeToString(uncleHash.Bytes()[1:]))
	case 4:
		h.Diff = pick(r, "", "00", "01", "010000000000000000", "0000000000000000000001", strings.Repeat("ff", 40), "0100000000000000000000000000000000")
	case 5:
		h.BloomLen = []int{0, 1, 255, 256, 257, 300, 1000}[r.Intn(7)]
	case 6:
		h.NonceLen = []int{0, 1, 7, 8, 9, 32}[r.Intn(6)]
	case 7:
		h.GasLimit = pickU(r, 0, 1, 5000, 1<<63-1, 1<<63, ^uint64(0))
	case 8:
		h.GasUsed = pickU(r, 0, 1, 30000000, 30000001, 1<<63, ^uint64(0))
	case 9:
		h.Seal = pick(r, "good", "mismatch", "bad")
	case 10:
		h.Height.H = 0
	case 11:
		h.BloomLen, h.Height.H = 257+r.Intn(3), 0
	}
}

var goodChainIDs = []string{"testchain-1", "cosmoshub-4", "x", "a-b-c-9"}
var oddChainIDs = []string{"", " ", "\t\n", "\u00a0", "\u2003\u2003", "\u3000", " x ", "\u0085", "\u200b", "\u1680 \u2028\u2029\u202f\u205f", "\u00a0x"}

func validTM(r *hlib.Rand) CSSpec {
	return CSSpec{Kind: "tm", ChainID: hx(goodChainIDs[r.Intn(len(goodChainIDs))]), TLNum: 1, TLDen: 3,
		Trusting: int64(14 * 24 * time.Hour), Unbonding: int64(21 * 24 * time.Hour), Drift: int64(10 * time.Second),
		Latest: H{pickU(r, 0, 1), pickU(r, 1, 5, 10, 47, 100)}, NSpecs: 2}
}

func genCS(r *hlib.Rand, kind string) CSSpec { return genCSp(r, kind, 2, 3) }

// genCSp: a client state of the given kind; with probability num/den it carries one or two mutations
func genCSp(r *hlib.Rand, kind string, num, den int) CSSpec {
	valid := !r.Chance(num, den)
	switch kind {
	case "tm":
		c := validTM(r)
		for m := 0; !valid && m < 1+r.Intn(2); m++ {
			switch r.Intn(9) {
			case 0:
				c.ChainID = hx(oddChainIDs[r.Intn(len(oddChainIDs))])
			case 1:
				c.TLNum, c.TLDen = pickU(r, 0, 1, 2, 3, 1<<62, 1<<63, 6148914691236517206, ^uint64(0)), pickU(r, 0, 1, 2, 3, 4, 1<<63, ^uint64(0))
			case 2:
				c.Trusting = []int64{0, -1, 1, c.Unbonding, c.Unbonding + 1, -1 << 62, 1<<63 - 1}[r.Intn(7)]
			case 3:
				c.Unbonding = []int64{0, -1, 1, 1<<63 - 1, -(1 << 62)}[r.Intn(5)]
			case 4:
				c.Drift = []int64{0, -1, 1}[r.Intn(3)]
			case 5:
				c.Latest = genHeight(r)
			case 6:
				c.NSpecs = []int{0, 1, 3}[r.Intn(3)]
			case 7:
				c.Latest.H = 0
			case 8:
				c.Trusting, c.Unbonding = -5, -3
			}
		}
		return c
	case "bsc":
		c := CSSpec{Kind: "bsc", Hdr: validHdr(r), ChainNum: pickU(r, 56, 97, 1), Epoch: 200, TrustingPeriod: pickU(r, 0, 100, 1<<40, ^uint64(0))}
		for m := 0; !valid && m < 1+r.Intn(2); m++ {
			switch r.Intn(5) {
			case 0:
				c.Epoch = pickU(r, 0, 0, 1, 2, 3, 7, 199, 201, 1<<63, ^uint64(0))
			case 1:
				c.ChainNum = pickU(r, 0, 1<<63-1, 1<<63, 1<<63+1, ^uint64(0))
			default:
				mutateHdr(r, c.Hdr)
			}
		}
		return c
	case "eth":
		h := validHdr(r)
		h.Diff, h.ExtraLen, h.Seal = "020000", 10, ""
		c := CSSpec{Kind: "eth", Hdr: h, ChainNum: pickU(r, 1, 4, 5), TrustingPeriod: pickU(r, 0, 100, 1<<40, ^uint64(0))}
		for m := 0; !valid && m < 1+r.Intn(2); m++ {
			mutateHdr(r, c.Hdr)
		}
		return c
	case "tss":
		good := sdk.AccAddress(bytes.Repeat([]byte{byte(1 + r.Intn(3))}, 20)).String()
		a := good
		if !valid {
			a = pick(r, "", "x", good[:len(good)-1], good+"x", strings.ToUpper(good), "teleport1qqqq", " "+good)
		}
		return CSSpec{Kind: "tss", TssAddr: hx(a)}
	}
	return CSSpec{Kind: kind, TLNum: uint64(r.Intn(3))}
}

func genCons(r *hlib.Rand, kind string) ConsSpec {
	ts := pickU(r, 0, 1, 1700000000, uint64(blockTime.Unix())-50, uint64(blockTime.Unix()), uint64(blockTime.Unix())+50, 1<<63, ^uint64(0)-10, ^uint64(0))
	return ConsSpec{Kind: kind, Ts: ts}
}

var chainPool = []string{"chain-a", "bsc-testnet", "eth", "a.b_c+d-e#f[g]<h>"}
var badChains = []string{"", "ab", "a/b", " ", "abc def", strings.Repeat("c", 64), strings.Repeat("c", 65), "chainé", "ab\n"}
var kinds = []string{"tm", "bsc", "eth", "tss"}
var oddKinds = []string{"nil", "emptyurl", "wrong"}

func genTitle(r *hlib.Rand) (string, int) {
	t, d := "t", 1+r.Intn(3)
	if r.Chance(1, 12) {
		t = pick(r, "", " ", " \t", strings.Repeat("t", 140), strings.Repeat("t", 141), " t ")
	}
	if r.Chance(1, 15) {
		d = []int{0, 10000, 10001}[r.Intn(3)]
	}
	return hx(t), d
}

func genXStep(r *hlib.Rand, first bool, types map[string]string) XStep {
	st := XStep{}
	st.Title, st.DescLen = genTitle(r)
	chain := chainPool[r.Intn(2)]
	if r.Chance(1, 4) {
		chain = chainPool[r.Intn(len(chainPool))]
	}
	if r.Chance(1, 12) {
		chain = badChains[r.Intn(len(badChains))]
	}
	st.Chain = hx(chain)
	switch k := r.Intn(10); {
	case first && k < 8 || k < 3:
		st.Op = "create"
	case k < 6:
		st.Op = "upgrade"
	case k < 9:
		st.Op = "toggle"
	default:
		st.Op = "relayer"
	}
	if st.Op == "relayer" {
		good := sdk.AccAddress(bytes.Repeat([]byte{byte(1 + r.Intn(3))}, 20)).String()
		st.Address = hx(good)
		if r.Chance(1, 5) {
			st.Address = hx(pick(r, "", "x", good+"x"))
		}
		n := r.Intn(4)
		for i := 0; i < n; i++ {
			c := chainPool[r.Intn(len(chainPool))]
			if r.Chance(1, 8) {
				c = badChains[r.Intn(len(badChains))]
			}
			st.Chains = append(st.Chains, hx(c))
			st.Addresses = append(st.Addresses, hx(pick(r, "0xabc", "", "relayer-on-other-chain")))
		}
		if r.Chance(1, 6) {
			st.Addresses = append(st.Addresses, hx("extra"))
		}
		if r.Chance(1, 10) {
			st.Chains = append(st.Chains, st.Chains...)
			st.Addresses = append(st.Addresses, st.Addresses...)
		}
		return st
	}
	// client kind: related to the type currently stored under the chain name so that upgrades hit the
	// same-type path and toggles the different-type path most of the time
	cur := types[chain]
	kind := kinds[r.Intn(4)]
	if st.Op == "upgrade" && cur != "" && r.Chance(3, 4) {
		kind = cur
	}
	if r.Chance(1, 12) {
		kind = oddKinds[r.Intn(3)]
	}
	st.CS = genCS(r, kind)
	ck := kind
	if r.Chance(1, 4) || ck == "nil" || ck == "emptyurl" || ck == "wrong" {
		ck = kinds[r.Intn(4)]
	}
	if r.Chance(1, 10) {
		ck = oddKinds[r.Intn(3)]
	}
	st.Cons = genCons(r, ck)
	if st.Op != "relayer" && st.CS.Kind != "nil" && st.CS.Kind != "emptyurl" && st.CS.Kind != "wrong" {
		types[chain] = st.CS.Kind // optimistic: only used to bias the generator
	}
	return st
}

func genXibc(r *hlib.Rand) *XibcSpec {
	s := &XibcSpec{}
	types := map[string]string{}
	n := 1 + r.Intn(5)
	for i := 0; i < n; i++ {
		s.Steps = append(s.Steps, genXStep(r, i == 0, types))
	}
	return s
}
