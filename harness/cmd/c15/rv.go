package main

// rvesting part: parameter-change proposals on the rvesting parameter set executed the way gov does,
// followed by the real BeginBlocker (same observables and spec format as the C20 harness, so that the
// C20 model Model/Rvesting.v is reused unchanged), and InitGenesis of validated rvesting genesis states.

import (
	"encoding/json"
	"fmt"
	"math/big"
	"sort"
	"strings"

	sdk "github.com/cosmos/cosmos-sdk/types"
	authtypes "github.com/cosmos/cosmos-sdk/x/auth/types"
	"github.com/cosmos/cosmos-sdk/x/params"
	proposaltypes "github.com/cosmos/cosmos-sdk/x/params/types/proposal"

	rvesting "github.com/teleport-network/teleport/x/rvesting/module"
	rvtypes "github.com/teleport-network/teleport/x/rvesting/types"

	"verifharness/hlib"
)

type Pair [2]string // denom, amount (decimal)

type Change struct {
	Rewards []Pair `json:"rewards,omitempty"`
	HasRew  bool   `json:"has_rewards"`
	Enable  *bool  `json:"enable,omitempty"`
}

type RvSpec struct {
	Pool  []Pair   `json:"pool"`
	Fee   []Pair   `json:"fee"`
	Other []Pair   `json:"other"`
	Steps []Change `json:"steps"`
}

type RvStepObs struct {
	RewardsClass int    `json:"rewards_class"` // -1 none, 0 accepted, 1 rejected, 2 panic
	EnableClass  int    `json:"enable_class"`
	Class        int    `json:"class"` // BeginBlocker: 0 returned, 2 panicked
	Panic        string `json:"panic,omitempty"`
	Pool         []Pair `json:"pool"`
	Fee          []Pair `json:"fee"`
	RestSame     bool   `json:"rest_same"`
}

type RvResult struct {
	Denoms []string    `json:"denoms"`
	Obs    []RvStepObs `json:"obs"`
}

var validDenoms = []string{"atele", "stake", "ufoo", "a/b-c", "Zed9"}
var badDenoms = []string{"1", "ab", "9abc", "x y z", "a", "-abc", strings.Repeat("a", 129), "abc!", "a/b:c.d_e-f", "ab\n", "abc\n"}

func genAmount(r *hlib.Rand) string {
	switch r.Intn(8) {
	case 0:
		return "0"
	case 1:
		return "1"
	case 2:
		return fmt.Sprint(r.Intn(10))
	case 3:
		return new(big.Int).Lsh(big.NewInt(1), uint(r.Intn(200))).String()
	case 4:
		return "100000000000000000"
	default:
		return fmt.Sprint(r.Intn(1000))
	}
}

func genRewards(r *hlib.Rand) []Pair {
	n := 1 + r.Intn(4)
	if r.Chance(1, 25) {
		n = 0
	}
	out := []Pair{}
	for i := 0; i < n; i++ {
		d := validDenoms[r.Intn(len(validDenoms))]
		if r.Chance(1, 10) {
			d = badDenoms[r.Intn(len(badDenoms))]
		}
		if r.Chance(1, 40) {
			d = ""
		}
		a := genAmount(r)
		if r.Chance(1, 15) {
			a = "-" + a
		}
		out = append(out, Pair{d, a})
	}
	if !r.Chance(1, 3) { // mostly-valid stream: two thirds of the lists are de-duplicated
		seen := map[string]bool{}
		ded := []Pair{}
		for _, p := range out {
			if !seen[p[0]] {
				seen[p[0]] = true
				ded = append(ded, p)
			}
		}
		out = ded
	}
	return out
}

func genBal(r *hlib.Rand, p int) []Pair {
	out := []Pair{}
	for _, d := range validDenoms {
		if r.Chance(p, 10) {
			out = append(out, Pair{d, genAmount(r)})
		}
	}
	return out
}

func genRv(r *hlib.Rand) *RvSpec {
	s := &RvSpec{Pool: genBal(r, 7), Fee: genBal(r, 3), Other: genBal(r, 5)}
	n := 2 + r.Intn(5)
	enabled := false
	for i := 0; i < n; i++ {
		c := Change{}
		if i == 0 || r.Chance(1, 3) {
			c.Rewards = genRewards(r)
			c.HasRew = true
		}
		if (!enabled && r.Chance(2, 3)) || r.Chance(1, 8) {
			e := !enabled || r.Chance(1, 2)
			if enabled && r.Chance(1, 2) {
				e = false
			}
			c.Enable = &e
			enabled = e
		}
		s.Steps = append(s.Steps, c)
	}
	return s
}

func toCoins(ps []Pair) sdk.Coins {
	cs := sdk.Coins{}
	for _, p := range ps {
		a, ok := sdk.NewIntFromString(p[1])
		if !ok {
			panic("bad amount " + p[1])
		}
		if a.IsPositive() {
			cs = cs.Add(sdk.NewCoin(p[0], a))
		}
	}
	return cs
}

func rewardsJSON(ps []Pair) string {
	type c struct {
		Denom  string `json:"denom"`
		Amount string `json:"amount"`
	}
	l := []c{}
	for _, p := range ps {
		l = append(l, c{p[0], p[1]})
	}
	bz, _ := json.Marshal(l)
	return string(bz)
}

type snapshot struct {
	pool, fee map[string]string
	rest      string
}

func snap(ctx sdk.Context, e *env) snapshot {
	a := e.app
	poolAddr := a.AccountKeeper.GetModuleAddress(rvtypes.ModuleName)
	feeAddr := a.AccountKeeper.GetModuleAddress(authtypes.FeeCollectorName)
	s := snapshot{pool: map[string]string{}, fee: map[string]string{}}
	var rest []string
	a.BankKeeper.IterateAllBalances(ctx, func(addr sdk.AccAddress, c sdk.Coin) bool {
		switch {
		case addr.Equals(poolAddr):
			s.pool[c.Denom] = c.Amount.String()
		case addr.Equals(feeAddr):
			s.fee[c.Denom] = c.Amount.String()
		default:
			rest = append(rest, addr.String()+"/"+c.String())
		}
		return false
	})
	a.BankKeeper.IterateTotalSupply(ctx, func(c sdk.Coin) bool {
		rest = append(rest, "supply/"+c.String())
		return false
	})
	sort.Strings(rest)
	s.rest = strings.Join(rest, ";")
	return s
}

func project(m map[string]string, denoms []string) []Pair {
	out := []Pair{}
	for _, d := range denoms {
		v, ok := m[d]
		if !ok {
			v = "0"
		}
		out = append(out, Pair{d, v})
	}
	return out
}

func fund(e *env, ctx sdk.Context, module string, to sdk.AccAddress, ps []Pair) {
	cs := toCoins(ps)
	if cs.Empty() {
		return
	}
	if err := e.app.BankKeeper.MintCoins(ctx, "aggregate", cs); err != nil {
		panic(err)
	}
	var err error
	if module != "" {
		err = e.app.BankKeeper.SendCoinsFromModuleToModule(ctx, "aggregate", module, cs)
	} else {
		err = e.app.BankKeeper.SendCoinsFromModuleToAccount(ctx, "aggregate", to, cs)
	}
	if err != nil {
		panic(err)
	}
}

// paramChange executes one parameter-change proposal the way gov's EndBlocker does.
func paramChange(e *env, ctx sdk.Context, subspace, key, value string) int {
	handler := params.NewParamChangeProposalHandler(e.app.ParamsKeeper)
	content := proposaltypes.NewParameterChangeProposal("t", "d", []proposaltypes.ParamChange{proposaltypes.NewParamChange(subspace, key, value)})
	c, _, _ := govExecute(ctx, handler, content)
	return c
}

func runRv(e *env, s *RvSpec) *RvResult {
	ctx, _ := e.base.CacheContext()
	a := e.app
	res := &RvResult{}
	dset := map[string]bool{}
	for _, d := range validDenoms {
		dset[d] = true
	}
	for _, st := range s.Steps {
		for _, p := range st.Rewards {
			if sdk.ValidateDenom(p[0]) == nil {
				dset[p[0]] = true
			}
		}
	}
	for d := range dset {
		res.Denoms = append(res.Denoms, d)
	}
	sort.Strings(res.Denoms)
	fund(e, ctx, rvtypes.ModuleName, nil, s.Pool)
	fund(e, ctx, authtypes.FeeCollectorName, nil, s.Fee)
	fund(e, ctx, "", sdk.AccAddress([]byte("verif-other-account-")), s.Other)
	for _, st := range s.Steps {
		o := RvStepObs{RewardsClass: -1, EnableClass: -1}
		if st.HasRew {
			o.RewardsClass = paramChange(e, ctx, rvtypes.ModuleName, string(rvtypes.KeyPerBlockReward), rewardsJSON(st.Rewards))
		}
		if st.Enable != nil {
			v := "false"
			if *st.Enable {
				v = "true"
			}
			o.EnableClass = paramChange(e, ctx, rvtypes.ModuleName, string(rvtypes.KeyEnableVesting), v)
		}
		before := snap(ctx, e)
		p, val := hlib.Catch(func() { rvesting.BeginBlocker(ctx, a.RVestingKeeper) })
		after := snap(ctx, e)
		if p {
			o.Class = 2
			o.Panic = val
		}
		o.Pool = project(after.pool, res.Denoms)
		o.Fee = project(after.fee, res.Denoms)
		o.RestSame = before.rest == after.rest
		res.Obs = append(res.Obs, o)
		if p {
			break
		}
	}
	return res
}
