package main

// tour: DIRECTED cases that run on every check right after the corpus (they do not depend on the seed).
// The random generator reaches the deeper branches of the code in scope only now and then (measured with a
// coverage build of this harness: e.g. BSC pruning, coinbase mismatch, ParseValidators errors, "client
// exists", UpdateTokenPairERC20's tail were not reached by 300 random cases), so every branch of the model
// gets at least one case here:
//   - every single-field degenerate value of a valid client state of each of the four types, pushed through
//     all three client proposals (create on a fresh chain name, upgrade of a client of the same type, toggle
//     of a client of another type);
//   - every shape of the consensus-state Any with every proposal;
//   - the keeper branches (exists / not found / same type / other type), titles, descriptions, chain names;
//   - relayer proposals over address / list shapes;
//   - BSC UpgradeState: pruning of the earliest consensus state (expired, not expired, wrap-around, exactly
//     at the limit), foreign / undecodable entries and non-consensus keys under the consensus prefix,
//     recent-signer keys of every shape (through genesis metadata);
//   - genesis states hitting every branch of the three genesis validations;
//   - aggregate proposals in the module states that reach the tails of the handlers.

import (
	"bytes"
	"encoding/hex"
	"strings"
	"time"

	sdk "github.com/cosmos/cosmos-sdk/types"
)

func tourBscHdr() *HdrSpec {
	return &HdrSpec{Height: H{0, 200}, ExtraLen: 32 + 40 + 65, Mix: zero32, Uncle: hex.EncodeToString(uncleHash.Bytes()), Diff: "02",
		BloomLen: 256, NonceLen: 8, GasLimit: 30000000, GasUsed: 1000000, Seal: "good"}
}

func tourEthHdr() *HdrSpec {
	return &HdrSpec{Height: H{0, 100}, ExtraLen: 10, Mix: zero32, Uncle: hex.EncodeToString(uncleHash.Bytes()), Diff: "020000",
		BloomLen: 256, NonceLen: 8, GasLimit: 30000000, GasUsed: 1000000}
}

func tourCS(kind string) CSSpec {
	switch kind {
	case "tm":
		return CSSpec{Kind: "tm", ChainID: hx("testchain-1"), TLNum: 1, TLDen: 3, Trusting: int64(14 * 24 * time.Hour), Unbonding: int64(21 * 24 * time.Hour),
			Drift: int64(10 * time.Second), Latest: H{1, 10}, NSpecs: 2}
	case "bsc":
		return CSSpec{Kind: "bsc", Hdr: tourBscHdr(), ChainNum: 56, Epoch: 200, TrustingPeriod: 1 << 40}
	case "eth":
		return CSSpec{Kind: "eth", Hdr: tourEthHdr(), ChainNum: 4, TrustingPeriod: 1 << 40}
	case "tss":
		return CSSpec{Kind: "tss", TssAddr: hx(sdk.AccAddress(bytes.Repeat([]byte{1}, 20)).String())}
	}
	return CSSpec{Kind: kind}
}

func tourStep(op, chain string, cs CSSpec, cons ConsSpec) XStep {
	return XStep{Op: op, Title: hx("t"), DescLen: 1, Chain: hx(chain), CS: cs, Cons: cons}
}

func otherKind(k string) string {
	if k == "tss" {
		return "tm"
	}
	return "tss"
}

// csMutations: every single-field degenerate value (and a few pairs that matter at height 0).
func csMutations(kind string) []CSSpec {
	var out []CSSpec
	add := func(f func(c *CSSpec)) {
		c := tourCS(kind)
		f(&c)
		out = append(out, c)
	}
	unc := hex.EncodeToString(uncleHash.Bytes())
	hdr := func(bsc bool) {
		for _, h := range []uint64{0, 1, 199, 201, 400, 1<<63 - 1, 1 << 63, ^uint64(0)} {
			h := h
			add(func(c *CSSpec) { c.Hdr.Height.H = h })
		}
		for _, r := range []uint64{1, 1 << 63, ^uint64(0)} {
			r := r
			add(func(c *CSSpec) { c.Hdr.Height.Rev = r })
		}
		extras := []int{0, 32, 1000}
		if bsc {
			extras = []int{0, 1, 31, 32, 64, 65, 66, 80, 96, 97, 98, 116, 117, 118, 138, 500}
		}
		for _, x := range extras {
			x := x
			add(func(c *CSSpec) { c.Hdr.ExtraLen = x })
			if bsc {
				add(func(c *CSSpec) { c.Hdr.ExtraLen, c.Hdr.Height.H = x, 0 })
			}
		}
		for _, m := range []string{"", "01", zero32 + "00", "01" + zero32, zero32[:62] + "01", strings.Repeat("00", 31)} {
			m := m
			add(func(c *CSSpec) { c.Hdr.Mix = m })
		}
		for _, u := range []string{"", zero32, "ff" + unc, unc + "00", unc[2:]} {
			u := u
			add(func(c *CSSpec) { c.Hdr.Uncle = u })
		}
		for _, d := range []string{"", "00", "01", "010000000000000000", "0000000000000000000001", strings.Repeat("ff", 40), "0100000000000000000000000000000000"} {
			d := d
			add(func(c *CSSpec) { c.Hdr.Diff = d })
			add(func(c *CSSpec) { c.Hdr.Diff, c.Hdr.Height.H = d, 0 })
		}
		for _, b := range []int{0, 1, 255, 257, 258, 300, 1000} {
			b := b
			add(func(c *CSSpec) { c.Hdr.BloomLen = b })
			add(func(c *CSSpec) { c.Hdr.BloomLen, c.Hdr.Height.H = b, 0 })
		}
		if bsc {
			for _, n := range []int{0, 1, 7, 9, 10, 32} {
				n := n
				add(func(c *CSSpec) { c.Hdr.NonceLen = n })
				add(func(c *CSSpec) { c.Hdr.NonceLen, c.Hdr.Height.H = n, 0 })
			}
			for _, s := range []string{"mismatch", "bad"} {
				s := s
				add(func(c *CSSpec) { c.Hdr.Seal = s })
			}
		}
		for _, g := range []uint64{0, 1, 5000, 1<<63 - 1, 1 << 63, ^uint64(0)} {
			g := g
			add(func(c *CSSpec) { c.Hdr.GasLimit = g })
		}
		for _, g := range []uint64{0, 1, 30000000, 30000001, 1 << 63, ^uint64(0)} {
			g := g
			add(func(c *CSSpec) { c.Hdr.GasUsed = g })
		}
		for _, t := range []uint64{0, 100, ^uint64(0)} {
			t := t
			add(func(c *CSSpec) { c.TrustingPeriod = t })
		}
	}
	switch kind {
	case "bsc":
		hdr(true)
		for _, e := range []uint64{0, 1, 2, 3, 7, 199, 201, 400, 1 << 63, ^uint64(0)} {
			e := e
			add(func(c *CSSpec) { c.Epoch = e })
			add(func(c *CSSpec) { c.Epoch, c.Hdr.Height.H = e, 0 })
		}
		for _, n := range []uint64{0, 1<<63 - 1, 1 << 63, 1<<63 + 1, ^uint64(0)} {
			n := n
			add(func(c *CSSpec) { c.ChainNum = n })
		}
	case "eth":
		hdr(false)
	case "tm":
		for _, id := range oddChainIDs {
			id := id
			add(func(c *CSSpec) { c.ChainID = hx(id) })
		}
		for _, tl := range [][2]uint64{{0, 0}, {0, 1}, {1, 0}, {1, 1}, {1, 2}, {2, 3}, {1, 4}, {3, 2}, {1 << 62, 1 << 63}, {1 << 63, 1 << 63}, {6148914691236517206, 2}, {6148914691236517206, 3},
			{^uint64(0), ^uint64(0)}, {1<<63 - 1, 1<<63 - 1}, {1 << 63, ^uint64(0)}, {1, 3}} {
			tl := tl
			add(func(c *CSSpec) { c.TLNum, c.TLDen = tl[0], tl[1] })
		}
		for _, t := range []int64{0, -1, 1, int64(21 * 24 * time.Hour), int64(21*24*time.Hour) + 1, -1 << 62, 1<<63 - 1} {
			t := t
			add(func(c *CSSpec) { c.Trusting = t })
		}
		for _, u := range []int64{0, -1, 1, 1<<63 - 1, -(1 << 62)} {
			u := u
			add(func(c *CSSpec) { c.Unbonding = u })
		}
		for _, d := range []int64{0, -1, 1} {
			d := d
			add(func(c *CSSpec) { c.Drift = d })
		}
		for _, l := range []H{{0, 0}, {1, 0}, {0, 1}, {1 << 63, 1 << 63}, {^uint64(0), ^uint64(0)}, {0, 0x2f00}} {
			l := l
			add(func(c *CSSpec) { c.Latest = l })
		}
		for _, n := range []int{0, 1, 3} {
			n := n
			add(func(c *CSSpec) { c.NSpecs = n })
		}
		add(func(c *CSSpec) { c.Trusting, c.Unbonding = -5, -3 })
	case "tss":
		good := sdk.AccAddress(bytes.Repeat([]byte{1}, 20)).String()
		for _, a := range []string{"", " ", "x", good[:len(good)-1], good + "x", strings.ToUpper(good), "teleport1qqqq", " " + good, good + " ", "cosmos1qyqszqgpqyqszqgpqyqszqgpqyqszqgpjnp7du"} {
			a := a
			add(func(c *CSSpec) { c.TssAddr = hx(a) })
		}
	}
	return out
}

func xcase(steps ...XStep) *Case { return &Case{Kind: "xibc", Xibc: &XibcSpec{Steps: steps}} }

func tour() []*Case {
	var out []*Case
	ts := uint64(1700000000)
	cons := func(kind string) ConsSpec { return ConsSpec{Kind: kind, Ts: ts} }
	kindsAll := []string{"tm", "bsc", "eth", "tss"}

	// 1. every mutated client state through create / upgrade / toggle
	for _, k := range kindsAll {
		o := otherKind(k)
		for _, m := range csMutations(k) {
			out = append(out, xcase(
				tourStep("create", "chain-a", tourCS(k), cons(k)),
				tourStep("create", "chain-b", tourCS(o), cons(o)),
				tourStep("create", "chain-c", m, cons(k)),
				tourStep("upgrade", "chain-a", m, cons(k)),
				tourStep("toggle", "chain-b", m, cons(k)),
			))
		}
	}
	// 2. every shape of the consensus-state Any (and of the client-state Any) with every proposal
	for _, k := range kindsAll {
		o := otherKind(k)
		for _, ck := range []string{"nil", "emptyurl", "wrong", "tm", "bsc", "eth", "tss"} {
			if ck == k {
				continue
			}
			for wr := 0; wr < 3; wr++ {
				c := ConsSpec{Kind: ck, Ts: ts + uint64(wr)} // "wrong": the three undecodable shapes
				out = append(out, xcase(
					tourStep("create", "chain-a", tourCS(k), cons(k)),
					tourStep("create", "chain-b", tourCS(o), cons(o)),
					tourStep("create", "chain-c", tourCS(k), c),
					tourStep("upgrade", "chain-a", tourCS(k), c),
					tourStep("toggle", "chain-b", tourCS(k), c),
				))
				if ck != "wrong" {
					break
				}
			}
		}
	}
	for _, odd := range []string{"nil", "emptyurl", "wrong"} {
		for wr := uint64(0); wr < 3; wr++ {
			cs := CSSpec{Kind: odd, TLNum: wr}
			out = append(out, xcase(
				tourStep("create", "chain-a", tourCS("tm"), cons("tm")),
				tourStep("create", "chain-c", cs, cons("tm")),
				tourStep("upgrade", "chain-a", cs, cons("tm")),
				tourStep("toggle", "chain-a", cs, cons("tss")),
			))
			if odd != "wrong" {
				break
			}
		}
	}
	// 3. keeper branches
	out = append(out, xcase(
		tourStep("upgrade", "chain-a", tourCS("tm"), cons("tm")), // not found
		tourStep("toggle", "chain-a", tourCS("tm"), cons("tm")),  // not found
		tourStep("create", "chain-a", tourCS("tm"), cons("tm")),
		tourStep("create", "chain-a", tourCS("tm"), cons("tm")),   // exists
		tourStep("create", "chain-a", tourCS("bsc"), cons("bsc")), // exists
		tourStep("upgrade", "chain-a", tourCS("bsc"), cons("bsc")), // type mismatch
		tourStep("toggle", "chain-a", tourCS("tm"), cons("tm")),    // same type
		tourStep("toggle", "chain-a", tourCS("eth"), cons("eth")),
		tourStep("upgrade", "chain-a", tourCS("tm"), cons("tm")), // type mismatch after the toggle
		tourStep("toggle", "chain-a", tourCS("bsc"), cons("bsc")),
		tourStep("toggle", "chain-a", tourCS("tss"), cons("tss")),
		tourStep("upgrade", "chain-a", tourCS("tss"), cons("tss")),
	))
	// a9e74e1: the chain's own name ("teleport" in the application's default genesis) is refused by CreateClient only
	out = append(out, xcase(
		tourStep("create", "teleport", tourCS("tm"), cons("tm")),
		tourStep("create", "teleport", tourCS("tss"), cons("tss")),
		tourStep("upgrade", "teleport", tourCS("tm"), cons("tm")),
		tourStep("toggle", "teleport", tourCS("tss"), cons("tss")),
		tourStep("create", "teleport", CSSpec{Kind: "nil"}, cons("tm")),
		tourStep("create", "teleport", tourCS("tm"), ConsSpec{Kind: "nil"}),
		tourStep("create", "Teleport", tourCS("tm"), cons("tm")),
		tourStep("create", "teleport-1", tourCS("tm"), cons("tm")),
	))
	// aa5560b: ETH Initialize / UpgradeState compare the consensus state's root with the header's state root
	r32 := func(b byte) string { return hex.EncodeToString(bytes.Repeat([]byte{b}, 32)) }
	for _, rr := range [][2]string{{"", r32(4)}, {r32(4), ""}, {r32(4), r32(4)}, {"", "empty"}, {"empty", ""}, {"empty", "empty"}, {"empty", r32(0)}, {r32(0), "empty"},
		{"", r32(3)[2:]}, {r32(3)[2:], ""}, {"", "07" + r32(3)}, {"07" + r32(3), ""}, {"07" + r32(3), "08" + r32(3)}, {"00" + r32(3)[2:], r32(3)[2:]}, {"", r32(3) + "00"}} {
		e1, e2 := tourCS("eth"), tourCS("eth")
		e1.Hdr.Root, e2.Hdr.Root, e2.Hdr.Height.H = rr[0], rr[0], 300
		ec := ConsSpec{Kind: "eth", Ts: ts, Root: rr[1]}
		bad := tourCS("eth")
		bad.Hdr.Root, bad.Hdr.BloomLen, bad.Hdr.Height.H = rr[0], 257, 0
		out = append(out, xcase(
			tourStep("create", "chain-a", tourCS("eth"), cons("eth")),
			tourStep("create", "chain-b", tourCS("tss"), cons("tss")),
			tourStep("create", "chain-c", e1, ec),
			tourStep("upgrade", "chain-a", e2, ec),
			tourStep("toggle", "chain-b", e1, ec),
			tourStep("create", "chain-d", bad, ec),
			tourStep("upgrade", "chain-a", bad, ec),
		))
		// the BSC client does not compare roots
		b1 := tourCS("bsc")
		b1.Hdr.Root = rr[0]
		out = append(out, xcase(tourStep("create", "chain-a", b1, ConsSpec{Kind: "bsc", Ts: ts, Root: rr[1]})))
	}
	// toggle whose Initialize fails / returns an error
	for _, f := range []func(c *CSSpec){
		func(c *CSSpec) { c.Hdr.Seal = "mismatch" }, func(c *CSSpec) { c.Hdr.Seal = "bad" }, func(c *CSSpec) { c.Hdr.Height.H = 201 },
		func(c *CSSpec) { c.Hdr.ExtraLen = 32 + 7 + 65 },
	} {
		m := tourCS("bsc")
		f(&m)
		out = append(out, xcase(tourStep("create", "chain-a", tourCS("tss"), cons("tss")), tourStep("toggle", "chain-a", m, cons("bsc")),
			tourStep("create", "chain-b", tourCS("bsc"), cons("bsc")), tourStep("upgrade", "chain-b", m, cons("bsc"))))
	}
	// titles, descriptions, chain names
	var metaSteps []XStep
	for _, t := range []string{"", " ", " \t", " ", strings.Repeat("t", 140), strings.Repeat("t", 141), " t ", "\xff", "\xc2", "\xe2\x80", "\xe2\x80\xa8", "\xe2\x80\xa8\xc2\x85", "\xe2\x80\x8b", "\xef\xbb\xbf", "\xe1\xa0\x8e", " \xff ", "\xc2\xa0\xe3\x80\x80", strings.Repeat("\xc3\xa9", 70), strings.Repeat("\xc3\xa9", 71)} {
		s := tourStep("create", "chain-t", tourCS("tss"), cons("tss"))
		s.Title = hx(t)
		metaSteps = append(metaSteps, s)
		u := s
		u.Op = "upgrade"
		metaSteps = append(metaSteps, u)
	}
	for _, d := range []int{0, 10000, 10001} {
		s := tourStep("create", "chain-d", tourCS("tss"), cons("tss"))
		s.DescLen = d
		metaSteps = append(metaSteps, s)
		u := s
		u.Op = "toggle"
		u.CS, u.Cons = tourCS("tm"), cons("tm")
		metaSteps = append(metaSteps, u)
	}
	for _, c := range append(append([]string{}, badChains...), chainPool...) {
		metaSteps = append(metaSteps, tourStep("create", c, tourCS("tss"), cons("tss")), tourStep("upgrade", c, tourCS("tss"), cons("tss")),
			tourStep("toggle", c, tourCS("tm"), cons("tm")))
	}
	out = append(out, xcase(metaSteps...))

	// 4. relayer proposals
	good := sdk.AccAddress(bytes.Repeat([]byte{1}, 20)).String()
	rel := func(addr string, chains, addrs []string) XStep {
		s := XStep{Op: "relayer", Title: hx("t"), DescLen: 1, Address: hx(addr)}
		for _, c := range chains {
			s.Chains = append(s.Chains, hx(c))
		}
		for _, a := range addrs {
			s.Addresses = append(s.Addresses, hx(a))
		}
		return s
	}
	var rs []XStep
	for _, a := range []string{good, "", " ", "\t", " ", "x", good + "x", good[:len(good)-1], strings.ToUpper(good), " " + good, "cosmos1qyqszqgpqyqszqgpqyqszqgpqyqszqgpjnp7du"} {
		rs = append(rs, rel(a, []string{"chain-a"}, []string{"0xabc"}))
	}
	rs = append(rs, rel("\xff", []string{"chain-a"}, []string{"0xabc"}), rel("\xe2\x80\xa8", []string{"chain-a"}, []string{"0xabc"}), rel("\xc2\xa0 ", []string{"chain-a"}, []string{"0xabc"}),
		rel(good, []string{"chain-a"}, []string{"\xff\xfe"}), rel(good, []string{"cha\xc3\xa9n"}, []string{"x"}))
	rs = append(rs, rel(good, nil, nil), rel(good, []string{"chain-a"}, nil), rel(good, nil, []string{"0xabc"}), rel(good, []string{"chain-a"}, []string{"0xabc", "0xdef"}),
		rel(good, []string{"chain-a", "chain-a"}, []string{"", ""}), rel(good, []string{"chain-a", "ab"}, []string{"x", "y"}), rel(good, []string{"a/b"}, []string{"x"}),
		rel(good, []string{strings.Repeat("c", 64)}, []string{"x"}), rel(good, []string{strings.Repeat("c", 65)}, []string{"x"}))
	for _, t := range []string{"", strings.Repeat("t", 141)} {
		s := rel(good, []string{"chain-a"}, []string{"0xabc"})
		s.Title = hx(t)
		rs = append(rs, s)
	}
	out = append(out, xcase(rs...))

	// 5. BSC UpgradeState: pruning of the earliest consensus state
	now := uint64(blockTime.Unix())
	up := func(h uint64, trusting uint64) CSSpec {
		c := tourCS("bsc")
		c.Hdr.Height.H, c.TrustingPeriod = h, trusting
		return c
	}
	for _, p := range [][2]uint64{{ts, 100}, {ts, 1 << 40}, {^uint64(0) - 10, 100}, {now - 50, 50}, {now - 50, 49}, {now - 50, 51}, {now, 0}, {now + 1, 0}, {0, 0}, {0, ^uint64(0)}, {1, ^uint64(0)}} {
		out = append(out, xcase(
			tourStep("create", "chain-a", up(200, p[1]), ConsSpec{Kind: "bsc", Ts: p[0]}),
			tourStep("upgrade", "chain-a", up(400, p[1]), ConsSpec{Kind: "bsc", Ts: p[0]}),
			tourStep("upgrade", "chain-a", up(600, p[1]), ConsSpec{Kind: "bsc", Ts: now}),
			tourStep("upgrade", "chain-a", up(0, p[1]), ConsSpec{Kind: "bsc", Ts: now}),
		))
		e := tourCS("eth")
		e.TrustingPeriod = p[1]
		e2 := tourCS("eth")
		e2.Hdr.Height.H, e2.TrustingPeriod = 300, p[1]
		out = append(out, xcase(tourStep("create", "chain-a", e, ConsSpec{Kind: "eth", Ts: p[0]}), tourStep("upgrade", "chain-a", e2, ConsSpec{Kind: "eth", Ts: p[0]})))
	}

	// 6. genesis: what a validated genesis can put into a client store, then proposals on it
	be := func(rev, h uint64) string {
		b := make([]byte, 16)
		for i := 0; i < 8; i++ {
			b[7-i] = byte(rev >> (8 * i))
			b[15-i] = byte(h >> (8 * i))
		}
		return string(b)
	}
	gx := func(f func(g *GenXSpec)) *Case {
		g := &GenXSpec{Native: hx("teleport")}
		f(g)
		return &Case{Kind: "gen_xibc", GenX: g}
	}
	items := func(keys ...string) []GXItem {
		var l []GXItem
		for _, k := range keys {
			l = append(l, GXItem{Key: hx(k), ValLen: 3})
		}
		return l
	}
	bscUp := tourStep("upgrade", "chain-a", up(400, 100), ConsSpec{Kind: "bsc", Ts: now})
	for _, keys := range [][]string{
		{"consensusStates/" + be(0, 1)},                                   // undecodable earliest consensus state: pruneError
		{"consensusStates/x", "consensusStates/" + be(0, 1) + "/processedTime"}, // not consensus-state keys: skipped
		{"recentSingers/0-5", "recentSingers/0-200"},
		{"recentSingers/x"}, {"recentSingers/1-2/3"}, {"recentSingersX"}, {"recentSingers"}, {"recentSingers/"}, {"recentSingers/-"}, {"recentSingers/1-"},
		{"recentSingers/18446744073709551615-18446744073709551615"}, {"recentSingers/18446744073709551616-1"}, {"recentSingers/+1-2"}, {"recentSingers/01-002"},
		{"pendingValidators", "iterateConsensusStates", "k", "clientState"},
	} {
		keys := keys
		out = append(out, gx(func(g *GenXSpec) {
			g.Clients = []GXClient{{Chain: hx("chain-a"), CS: up(200, 100)}}
			g.Metadata = []GXMeta{{Chain: hx("chain-a"), Items: items(keys...)}}
			g.Then = []XStep{bscUp, tourStep("upgrade", "chain-a", up(600, 100), ConsSpec{Kind: "bsc", Ts: now})}
		}))
	}
	// listed consensus states (earliest one expired / not / of the listed type), then upgrades and a toggle
	for _, t0 := range []uint64{ts, now} {
		t0 := t0
		out = append(out, gx(func(g *GenXSpec) {
			g.Clients = []GXClient{{Chain: hx("chain-a"), CS: up(200, 100)}, {Chain: hx("chain-b"), CS: tourCS("tm")}, {Chain: hx("eth"), CS: tourCS("eth")}}
			g.Consensus = []GXCons{{Chain: hx("chain-a"), States: []GXConsAt{{Height: H{0, 0}, Cons: ConsSpec{Kind: "bsc", Ts: t0}}, {Height: H{0, 200}, Cons: ConsSpec{Kind: "bsc", Ts: now}}}},
				{Chain: hx("chain-b"), States: []GXConsAt{{Height: H{1, 10}, Cons: ConsSpec{Kind: "tm", Ts: ts}}}},
				{Chain: hx("eth"), States: []GXConsAt{{Height: H{0, 0}, Cons: ConsSpec{Kind: "eth", Ts: ts}}}}}
			g.Then = []XStep{bscUp, tourStep("upgrade", "chain-b", tourCS("tm"), cons("tm")), tourStep("toggle", "chain-b", up(200, 100), cons("bsc")),
				tourStep("upgrade", "eth", tourCS("eth"), cons("eth")), tourStep("create", "chain-a", tourCS("tm"), cons("tm"))}
		}))
	}
	// every branch of the client genesis validation
	tmAt := func(h H, c ConsSpec) []GXCons { return []GXCons{{Chain: hx("chain-a"), States: []GXConsAt{{Height: h, Cons: c}}}} }
	for _, f := range []func(g *GenXSpec){
		func(g *GenXSpec) { g.Clients[0].Chain = hx("a/b") },
		func(g *GenXSpec) { g.Clients[0].CS = CSSpec{Kind: "nil"} },
		func(g *GenXSpec) { g.Clients[0].CS = CSSpec{Kind: "wrong"} },
		func(g *GenXSpec) { g.Clients[0].CS = CSSpec{Kind: "emptyurl"} },
		func(g *GenXSpec) { g.Clients[0].CS.Latest.H = 0 },
		func(g *GenXSpec) { g.Clients = append(g.Clients, GXClient{Chain: hx("chain-a"), CS: tourCS("bsc")}) }, // same name twice: the last type wins
		func(g *GenXSpec) { g.Consensus = tmAt(H{1, 10}, cons("tm")) },
		func(g *GenXSpec) { g.Consensus = tmAt(H{0, 0}, cons("tm")) },
		func(g *GenXSpec) { g.Consensus = tmAt(H{1, 10}, ConsSpec{Kind: "tm", Ts: 0}) },
		func(g *GenXSpec) { g.Consensus = tmAt(H{1, 10}, cons("bsc")) },
		func(g *GenXSpec) { g.Consensus = tmAt(H{1, 10}, ConsSpec{Kind: "nil"}) },
		func(g *GenXSpec) { g.Consensus = tmAt(H{1, 10}, ConsSpec{Kind: "emptyurl"}) },
		func(g *GenXSpec) { g.Consensus = tmAt(H{1, 10}, ConsSpec{Kind: "wrong"}) },
		func(g *GenXSpec) { g.Consensus = []GXCons{{Chain: hx("chain-z"), States: []GXConsAt{{Height: H{1, 10}, Cons: cons("tm")}}}} },
		func(g *GenXSpec) { g.Consensus = []GXCons{{Chain: hx("chain-a")}} },
		func(g *GenXSpec) { g.Metadata = []GXMeta{{Chain: hx("chain-z"), Items: items("k")}} },
		func(g *GenXSpec) { g.Metadata = []GXMeta{{Chain: hx("chain-a"), Items: []GXItem{{Key: "", ValLen: 1}}}} },
		func(g *GenXSpec) { g.Metadata = []GXMeta{{Chain: hx("chain-a"), Items: []GXItem{{Key: hx("k"), ValLen: 0}}}} },
		func(g *GenXSpec) { g.Metadata = []GXMeta{{Chain: hx("chain-a")}} },
		func(g *GenXSpec) { g.Native = hx("") },
		func(g *GenXSpec) { g.Native = hx("ab") },
		func(g *GenXSpec) { g.Relayers = []GXRelayer{{Address: hx(good), Chains: []string{hx("chain-a")}, Addresses: []string{hx("0xabc")}}} },
		func(g *GenXSpec) { g.Relayers = []GXRelayer{{Address: hx(" "), Chains: []string{hx("chain-a")}, Addresses: []string{hx("0xabc")}}} },
		func(g *GenXSpec) { g.Relayers = []GXRelayer{{Address: hx("x"), Chains: []string{hx("chain-a")}, Addresses: []string{hx("0xabc")}}} },
		func(g *GenXSpec) { g.Relayers = []GXRelayer{{Address: hx(good)}} },
		func(g *GenXSpec) { g.Relayers = []GXRelayer{{Address: hx(good), Chains: []string{hx("chain-a")}}} },
		func(g *GenXSpec) { g.Relayers = []GXRelayer{{Address: hx(good), Chains: []string{hx("ab")}, Addresses: []string{hx("0xabc")}}} },
		func(g *GenXSpec) { g.Acks = []GXPacket{{Src: hx("chain-a"), Dst: hx("chain-b"), Seq: 1, DataLen: 1}} },
		func(g *GenXSpec) { g.Acks = []GXPacket{{Src: hx("ab"), Dst: hx("chain-b"), Seq: 1, DataLen: 1}} },
		func(g *GenXSpec) { g.Acks = []GXPacket{{Src: hx("chain-a"), Dst: hx("a/b"), Seq: 1, DataLen: 1}} },
		func(g *GenXSpec) { g.Acks = []GXPacket{{Src: hx("chain-a"), Dst: hx("chain-b"), Seq: 0, DataLen: 1}} },
		func(g *GenXSpec) { g.Commitments = []GXPacket{{Src: hx("chain-a"), Dst: hx("chain-b"), Seq: 1, DataLen: 0}} },
		func(g *GenXSpec) { g.Commitments = []GXPacket{{Src: hx("chain-a"), Dst: hx("chain-b"), Seq: ^uint64(0), DataLen: 40}} },
		func(g *GenXSpec) { g.Receipts = []GXPacket{{Src: hx("chain-a"), Dst: hx("chain-b"), Seq: 0, DataLen: 0}} },
		func(g *GenXSpec) { g.Seqs = []GXPacket{{Src: hx("chain-a"), Dst: hx("chain-b"), Seq: 0}} },
		func(g *GenXSpec) { g.Seqs = []GXPacket{{Src: hx("chain-a"), Dst: hx("chain-b"), Seq: 7}} },
	} {
		f := f
		out = append(out, gx(func(g *GenXSpec) {
			g.Clients = []GXClient{{Chain: hx("chain-a"), CS: tourCS("tm")}}
			f(g)
			g.Then = []XStep{tourStep("upgrade", "chain-a", tourCS("tm"), cons("tm")), tourStep("upgrade", "chain-a", tourCS("bsc"), cons("bsc"))}
		}))
	}
	// the native chain name set by the genesis is the one CreateClient refuses; a genesis may list a client under it
	out = append(out, gx(func(g *GenXSpec) {
		g.Native = hx("chain-a")
		g.Clients = []GXClient{{Chain: hx("chain-b"), CS: tourCS("tm")}}
		g.Then = []XStep{tourStep("create", "chain-a", tourCS("tm"), cons("tm")), tourStep("create", "teleport", tourCS("tm"), cons("tm")),
			tourStep("upgrade", "chain-a", tourCS("tm"), cons("tm")), tourStep("create", "chain-c", tourCS("tss"), cons("tss"))}
	}), gx(func(g *GenXSpec) {
		g.Native = hx("chain-a")
		g.Clients = []GXClient{{Chain: hx("chain-a"), CS: tourCS("eth")}}
		g.Consensus = []GXCons{{Chain: hx("chain-a"), States: []GXConsAt{{Height: H{0, 100}, Cons: ConsSpec{Kind: "eth", Ts: ts, Root: r32(9)}}}}}
		e2 := tourCS("eth")
		e2.Hdr.Height.H = 300
		g.Then = []XStep{tourStep("create", "chain-a", tourCS("tm"), cons("tm")), tourStep("upgrade", "chain-a", e2, ConsSpec{Kind: "eth", Ts: ts, Root: r32(9)}),
			tourStep("upgrade", "chain-a", e2, cons("eth")), tourStep("toggle", "chain-a", tourCS("tss"), cons("tss"))}
	}))
	// every mutated client state as a genesis client (the genesis validation calls the same Validate)
	for _, k := range kindsAll {
		for _, m := range csMutations(k) {
			m, k := m, k
			out = append(out, gx(func(g *GenXSpec) {
				g.Clients = []GXClient{{Chain: hx("chain-a"), CS: m}}
				g.Then = []XStep{tourStep("upgrade", "chain-a", tourCS(k), cons(k))}
			}))
		}
	}

	// 7. aggregate genesis and rvesting genesis: every validation branch
	ga := func(pairs ...GAPair) *Case {
		return &Case{Kind: "gen_agg", GenA: &GenASpec{EnableAggregate: true, EnableEVMHook: true, Pairs: pairs}}
	}
	pair := func(erc20 string, denoms ...string) GAPair {
		p := GAPair{Erc20: hx(erc20), Enabled: true, Owner: 1}
		for _, d := range denoms {
			p.Denoms = append(p.Denoms, hx(d))
		}
		return p
	}
	a1, a1l, a2 := hexAddrs[1], hexAddrs[2], hexAddrs[3]
	noDenoms := func(enabled bool, owner int32) GAPair { return GAPair{Erc20: hx(a2), Enabled: enabled, Owner: owner} }
	out = append(out, ga(noDenoms(false, 0)), ga(noDenoms(false, 1)), ga(noDenoms(true, 2)), ga(pair(a1, "ucoin"), noDenoms(false, 2)))
	out = append(out, ga(), ga(pair(a1, "ucoin")), ga(pair(a1)), ga(pair(a1, "ucoin"), pair(a2)), ga(pair(a1, "ucoin"), pair(a1l, "uother")), ga(pair(a1, "ucoin"), pair(a2, "ucoin")),
		ga(pair(a1, "ucoin", "ucoin")), ga(pair(a1, "ucoin", "uother"), pair(a2, "ufoo", "uother")), ga(pair(a1, "1")), ga(pair(a1, "ucoin", "ab")), ga(pair(hexAddrs[0], "ucoin")),
		ga(pair("", "ucoin")), ga(pair(hexAddrs[5], "ucoin")), ga(pair(a1, "abcdef0123456789abcdef0123456789abcdef01")), ga(pair(a1, "ucoin", "0x5dCA2483280D9727c80b5518faC4556617fb194F")),
		ga(pair(hexAddrs[4], "ucoin"), pair(a2, "uother", "ufoo", "a/b-c")))
	gr := func(from string, rewards, init, bal []Pair) *Case {
		return &Case{Kind: "gen_rv", GenR: &GenRSpec{Enable: true, Rewards: rewards, From: hx(from), InitReward: init, FromBal: bal}}
	}
	g21 := sdk.AccAddress(bytes.Repeat([]byte{0x21}, 20)).String()
	okR := []Pair{{"atele", "5"}}
	out = append(out,
		gr("", okR, nil, nil), gr("", nil, nil, nil), gr("", []Pair{{"atele", "0"}}, nil, nil), gr("", []Pair{{"atele", "-1"}}, nil, nil), gr("", []Pair{{"", "1"}}, nil, nil),
		gr("", []Pair{{"1", "1"}}, nil, nil), gr("", []Pair{{"atele", "1"}, {"stake", "2"}, {"atele", "3"}}, nil, nil), gr("", okR, []Pair{{"zzz", "1"}, {"atele", "1"}}, nil),
		gr("x", okR, nil, nil), gr(g21+"x", okR, nil, nil), gr(" ", okR, nil, nil), gr(g21, okR, nil, nil), gr(g21, okR, []Pair{{"atele", "1"}}, []Pair{{"atele", "1"}}),
		gr(g21, okR, []Pair{{"atele", "1"}, {"stake", "2"}}, []Pair{{"atele", "1"}, {"stake", "2"}}), gr(g21, okR, []Pair{{"stake", "2"}, {"atele", "1"}}, []Pair{{"atele", "1"}, {"stake", "2"}}),
		gr(g21, okR, []Pair{{"atele", "1"}, {"atele", "1"}}, []Pair{{"atele", "5"}}), gr(g21, okR, []Pair{{"atele", "0"}}, []Pair{{"atele", "5"}}),
		gr(g21, okR, []Pair{{"atele", "-1"}}, []Pair{{"atele", "5"}}), gr(g21, okR, []Pair{{"1", "1"}}, []Pair{{"atele", "5"}}), gr(g21, okR, []Pair{{"", "1"}}, []Pair{{"atele", "5"}}),
		gr(g21, []Pair{{"atele", "5"}, {"atele", "6"}}, []Pair{{"atele", "1"}}, []Pair{{"atele", "5"}}))

	// 8. aggregate proposals in the module states that reach the tails of the handlers
	astep := func(op string, f func(s *AStep)) AStep {
		s := AStep{Op: op, Title: hx("t"), DescLen: 1}
		f(&s)
		return s
	}
	meta := func(base, display, name, symbol string) *MetaSpec {
		return &MetaSpec{Name: hx(name), Symbol: hx(symbol), Base: hx(base), Display: hx(display), Units: []UnitSpec{{Denom: hx(base), Exponent: 0}, {Denom: hx(display), Exponent: 6}}}
	}
	ibc := "ibc/27394FB092D2ECCD56123C74F36E4C1F926001CEADA9CA97EA622B25F41E5EB2"
	out = append(out, &Case{Kind: "agg", Agg: &AggSpec{Setup: []string{"coin", "twin", "meta"}, Steps: []AStep{
		astep("update_erc20", func(s *AStep) { s.Contract, s.NewAddr = hx("@twin"), hx("@twin2") }),   // the whole of UpdateTokenPairERC20
		astep("update_erc20", func(s *AStep) { s.Contract, s.NewAddr = hx("@twin2"), hx("@twin") }),   // and back
		astep("update_erc20", func(s *AStep) { s.Contract, s.NewAddr = hx("@twin"), hx("@twin") }),    // already registered
		astep("update_erc20", func(s *AStep) { s.Contract, s.NewAddr = hx("@pair"), hx("@twin2") }),   // metadata of a native coin pair does not match
		astep("update_erc20", func(s *AStep) { s.Contract, s.NewAddr = hx("@twin"), hx(hexAddrs[1]) }), // no contract at the new address
		astep("register_coin", func(s *AStep) { s.Meta = meta("ucoin", "coin", "Verif Coin", "VC") }),  // already registered
		astep("register_coin", func(s *AStep) { s.Meta = meta("uother", "other", "Other Coin", "OC") }), // bank metadata exists: EqualMetadata
		astep("register_coin", func(s *AStep) { s.Meta = meta("uother", "other", "Another", "OC") }),
		astep("register_coin", func(s *AStep) { s.Meta = meta("atele", "tele", "Tele", "TELE") }), // the EVM denomination
		astep("register_coin", func(s *AStep) { s.Meta = meta("abcdef0123456789abcdef0123456789abcdef01", "hexy", "Hexy", "HX") }),
		astep("register_coin", func(s *AStep) { s.Meta = meta("unosupply", "nosupply", "No Supply", "NS") }),
		astep("register_coin", func(s *AStep) { s.Meta = meta(ibc, "disp", "channel-0 coin", "ibcVC") }),
		astep("add_coin", func(s *AStep) { s.Meta = meta("ufoo", "foo", "Foo", "FOO"); s.Contract = hx("@pair") }), // no supply
		astep("add_coin", func(s *AStep) { s.Meta = meta("ucoin2", "coin2", "Coin Two", "C2"); s.Contract = hx("@twin") }), // a second denomination for an ERC20-owned pair
		astep("add_coin", func(s *AStep) { s.Meta = meta("ucoin3", "coin3", "Coin Three", "C3"); s.Contract = hx("@pair") }), // ... and for a module-owned pair
		astep("toggle", func(s *AStep) { s.Contract = hx("ucoin3") }),
		astep("update_erc20", func(s *AStep) { s.Contract, s.NewAddr = hx("@twin"), hx("@twin2") }), // re-indexes both denominations
		astep("add_coin", func(s *AStep) { s.Meta = meta("ufoo", "foo", "Foo", "FOO"); s.Contract = hx(hexAddrs[1]) }),
		astep("add_coin", func(s *AStep) { s.Meta = meta("ucoin", "coin", "Verif Coin", "VC"); s.Contract = hx("@pair") }),
		astep("register_erc20", func(s *AStep) { s.Contract = hx("@twin") }),      // registered
		astep("register_erc20", func(s *AStep) { s.Contract = hx(hexAddrs[1]) }),  // no contract there
		astep("register_erc20", func(s *AStep) { s.Contract = hx("@pair") }),      // registered (module owned)
		astep("toggle", func(s *AStep) { s.Contract = hx("@twin") }),
		astep("toggle", func(s *AStep) { s.Contract = hx("ucoin") }),
		astep("toggle", func(s *AStep) { s.Contract = hx("unknown") }),
		astep("trace", func(s *AStep) { s.Contract, s.Token, s.Chain, s.Scale = hx("@twin"), hx("0xabc"), hx("eth"), 18 }),
		astep("trace", func(s *AStep) { s.Contract, s.Token, s.Chain, s.Scale = hx("@twin"), hx("0xabc"), hx("eth"), 18 }), // bound twice
		astep("enable_limit", func(s *AStep) { s.Contract = hx("@twin"); s.Nums = []string{hx("10"), hx("1000"), hx("100"), hx("1")} }),
		astep("enable_limit", func(s *AStep) {
			s.Contract = hx("@twin")
			big := "115792089237316195423570985008687907853269984665640564039457584007913129639936"
			s.Nums = []string{hx(big), hx(big + "3"), hx(big + "2"), hx(big + "1")}
		}),
		astep("enable_limit", func(s *AStep) { s.Contract = hx(hexAddrs[1]); s.Nums = []string{hx("+10"), hx("+1000"), hx("0100"), hx("1")} }),
		astep("disable_limit", func(s *AStep) { s.Contract = hx("@twin") }),
		astep("disable_limit", func(s *AStep) { s.Contract = hx(hexAddrs[1]) }),
	}}})
	out = append(out, &Case{Kind: "agg", Agg: &AggSpec{Setup: []string{"coin", "twin", "disable"}, Steps: []AStep{
		astep("register_coin", func(s *AStep) { s.Meta = meta("uother", "other", "Other Coin", "OC") }),
		astep("add_coin", func(s *AStep) { s.Meta = meta("ufoo", "foo", "Foo", "FOO"); s.Contract = hx("@pair") }),
		astep("register_erc20", func(s *AStep) { s.Contract = hx("@twin2") }),
		astep("toggle", func(s *AStep) { s.Contract = hx("@twin") }),
		astep("update_erc20", func(s *AStep) { s.Contract, s.NewAddr = hx("@twin"), hx("@twin2") }),
		astep("param", func(s *AStep) { s.Key, s.Value = "EnableAggregate", hx("true") }),
		astep("register_erc20", func(s *AStep) { s.Contract = hx("@twin2") }),
	}}})
	return out
}

// tourMore: rvesting parameter changes and aggregate proposal shapes (one degenerate field at a time).
func tourMore() []*Case {
	var out []*Case
	tr, fa := true, false
	rv := func(pool []Pair, steps ...Change) *Case { return &Case{Kind: "rv", Rv: &RvSpec{Pool: pool, Steps: steps}} }
	rew := func(en *bool, ps ...Pair) Change { return Change{Rewards: ps, HasRew: true, Enable: en} }
	big200 := "1606938044258990275541962092341162602522202993782792835301376"
	pool := []Pair{{"atele", "8"}, {"stake", "100"}, {"ufoo", big200}}
	for _, r := range [][]Pair{
		{}, {{"atele", "0"}}, {{"atele", "5"}}, {{"atele", "8"}}, {{"atele", "9"}}, {{"atele", "-1"}}, {{"", "1"}}, {{"1", "5"}}, {{"ab", "5"}}, {{"abc\n", "5"}},
		{{"atele", "5"}, {"atele", "7"}}, {{"atele", "5"}, {"stake", "1"}, {"atele", "1"}}, {{"stake", "1"}, {"atele", "5"}}, {{"atele", "5"}, {"stake", "101"}},
		{{"ufoo", big200}}, {{"ufoo", big200 + "0"}}, {{"nosuch", "5"}}, {{"atele", "5"}, {"nosuch", "5"}, {"stake", "0"}}, {{"a/b-c", "1"}, {"Zed9", "2"}},
	} {
		// enabled first, then the rewards; rewards first, then enabled; disabled throughout
		out = append(out, rv(pool, Change{Enable: &tr}, rew(nil, r...), Change{}, Change{}),
			rv(pool, rew(nil, r...), Change{Enable: &tr}, Change{}, Change{Enable: &fa}, Change{}),
			rv([]Pair{{"atele", "3"}}, rew(&tr, r...), Change{}, Change{}),
			rv(nil, rew(&tr, r...), Change{}))
	}

	astep := func(op string, f func(s *AStep)) AStep {
		s := AStep{Op: op, Title: hx("t"), DescLen: 1}
		f(&s)
		return s
	}
	base := func() *MetaSpec {
		return &MetaSpec{Name: hx("Other Coin"), Symbol: hx("OC"), Base: hx("uother"), Display: hx("other"),
			Units: []UnitSpec{{Denom: hx("uother"), Exponent: 0}, {Denom: hx("other"), Exponent: 6}}}
	}
	var metas []*MetaSpec
	addM := func(f func(m *MetaSpec)) {
		m := base()
		f(m)
		metas = append(metas, m)
	}
	addM(func(m *MetaSpec) {})
	addM(func(m *MetaSpec) { m.Units = nil })
	addM(func(m *MetaSpec) { m.Units = m.Units[:1] })
	addM(func(m *MetaSpec) { m.Display = m.Base; m.Units = m.Units[:1] })
	addM(func(m *MetaSpec) { m.Units = m.Units[1:] })
	addM(func(m *MetaSpec) { m.Units[0].Exponent = 3 })
	addM(func(m *MetaSpec) { m.Units[1].Exponent = 0 })
	addM(func(m *MetaSpec) { m.Units = append(m.Units, m.Units[1]) })
	addM(func(m *MetaSpec) { m.Units = append(m.Units, UnitSpec{Denom: hx("mega"), Exponent: 4294967295}) })
	addM(func(m *MetaSpec) { m.Units[0].Denom = hx("different") })
	addM(func(m *MetaSpec) { m.Units[1].Aliases = []string{hx("x"), hx("x")} })
	addM(func(m *MetaSpec) { m.Units[1].Aliases = []string{hx("x"), hx(" ")} })
	addM(func(m *MetaSpec) { m.Units[1].Aliases = []string{hx("x"), hx("y")} })
	for _, n := range []string{"", " ", " "} {
		n := n
		addM(func(m *MetaSpec) { m.Name = hx(n) })
		addM(func(m *MetaSpec) { m.Symbol = hx(n) })
	}
	for _, d := range badDenoms {
		d := d
		addM(func(m *MetaSpec) { m.Base = hx(d); m.Units[0].Denom = m.Base })
		addM(func(m *MetaSpec) { m.Display = hx(d); m.Units[1].Denom = m.Display })
	}
	for _, b := range []string{"ibc", "ibc/", "ibc/zz", "ibc/ABCD", "ibc/27394FB092D2ECCD56123C74F36E4C1F926001CEADA9CA97EA622B25F41E5EB", "ibc/27394FB092D2ECCD56123C74F36E4C1F926001CEADA9CA97EA622B25F41E5EB2",
		"transfer/channel-0/uatom", "uother/x", "/uother"} {
		b := b
		addM(func(m *MetaSpec) { m.Base = hx(b); m.Units[0].Denom = m.Base })
		addM(func(m *MetaSpec) { m.Base = hx(b); m.Units[0].Denom = m.Base; m.Name = hx("channel-7 coin"); m.Symbol = hx("ibcX") })
	}
	for _, setup := range [][]string{{"coin"}, {"coin", "meta"}} {
		var steps []AStep
		for _, m := range metas {
			m := m
			steps = append(steps, astep("register_coin", func(s *AStep) { s.Meta = m }))
			steps = append(steps, astep("add_coin", func(s *AStep) { s.Meta = m; s.Contract = hx("@pair") }))
		}
		// one case per pair of steps: a panic must not hide the following mutations
		for i := 0; i+1 < len(steps); i += 2 {
			out = append(out, &Case{Kind: "agg", Agg: &AggSpec{Setup: setup, Steps: []AStep{steps[i], steps[i+1]}}})
		}
	}
	// numeric strings of EnableTimeBasedSupplyLimit, one odd field at a time
	good := []string{"10", "1000", "100", "1"}
	for pos := 0; pos < 4; pos++ {
		for _, v := range []string{"", " ", "0", "-1", "-0", "+5", "+", "-", "1_000", "0x10", "0b1", "1e3", "1.0", "٣", " 7", "7 ", "\t7", "7\n", " 7", "７",
			"12345678901234567890123456789012345678901234567890123456789012345678901234567890", "00000000000000000000000000000000000000000000000000000000000000000000000000000000007"} {
			nums := append([]string{}, good...)
			nums[pos] = v
			hs := []string{hx(nums[0]), hx(nums[1]), hx(nums[2]), hx(nums[3])}
			out = append(out, &Case{Kind: "agg", Agg: &AggSpec{Setup: []string{"erc20"}, Steps: []AStep{
				astep("enable_limit", func(s *AStep) { s.Contract = hx("@deployed"); s.Nums = hs })}}})
		}
	}
	// addresses / tokens of the other proposals
	var addrSteps []AStep
	for _, a := range append(append([]string{}, hexAddrs...), "@deployed", "ucoin", "1", "ab", "aggregate/0x5dCA2483280D9727c80b5518faC4556617fb194F", " ", "0x") {
		a := a
		addrSteps = append(addrSteps,
			astep("register_erc20", func(s *AStep) { s.Contract = hx(a) }),
			astep("toggle", func(s *AStep) { s.Contract = hx(a) }),
			astep("update_erc20", func(s *AStep) { s.Contract, s.NewAddr = hx(a), hx("@deployed2") }),
			astep("update_erc20", func(s *AStep) { s.Contract, s.NewAddr = hx("@deployed"), hx(a) }),
			astep("trace", func(s *AStep) { s.Contract, s.Token, s.Chain, s.Scale = hx(a), hx("0xabc"), hx("eth"), 6 }),
			astep("disable_limit", func(s *AStep) { s.Contract = hx(a) }),
			astep("add_coin", func(s *AStep) { s.Meta = base(); s.Contract = hx(a) }))
	}
	for _, sc := range []uint64{0, 18, 19, 255, 256, 1 << 63} {
		sc := sc
		addrSteps = append(addrSteps, astep("trace", func(s *AStep) { s.Contract, s.Token, s.Chain, s.Scale = hx("@deployed"), hx("tok"), hx("bsc-testnet"), sc }))
	}
	for _, tk := range []string{"", " ", "\n"} {
		tk := tk
		addrSteps = append(addrSteps, astep("trace", func(s *AStep) { s.Contract, s.Token, s.Chain, s.Scale = hx("@deployed"), hx(tk), hx("eth"), 1 }),
			astep("trace", func(s *AStep) { s.Contract, s.Token, s.Chain, s.Scale = hx("@deployed"), hx("tok"), hx(tk), 1 }))
	}
	for i := 0; i < len(addrSteps); i += 7 {
		j := i + 7
		if j > len(addrSteps) {
			j = len(addrSteps)
		}
		out = append(out, &Case{Kind: "agg", Agg: &AggSpec{Setup: []string{"coin", "erc20", "erc20b"}, Steps: addrSteps[i:j]}})
	}
	// parameter changes on the aggregate parameter set
	var ps []AStep
	for _, k := range []string{"EnableAggregate", "EnableEVMHook"} {
		for _, v := range []string{"true", "false", "\"true\"", "1", "null", "", "{}", "tru", "[]"} {
			k, v := k, v
			ps = append(ps, astep("param", func(s *AStep) { s.Key, s.Value = k, hx(v) }))
		}
	}
	out = append(out, &Case{Kind: "agg", Agg: &AggSpec{Setup: []string{"coin"}, Steps: ps}})
	return out
}
