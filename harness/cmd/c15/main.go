// c15: drives the code of /repo that runs OUTSIDE per-transaction panic recovery
//   - the xibc client and aggregate governance proposal handlers, invoked exactly as
//     gov.EndBlocker does (cache context, written on success, no recover),
//   - parameter-change proposals on teleport's parameter sets followed by rvesting's BeginBlocker,
//   - InitGenesis of xibc / aggregate / rvesting for genesis states that went through the module's
//     ValidateGenesis,
// over generated inputs, each call under recover() in the harness, and records the outcome class
// (0 ok, 1 error, 2 panic) of the stateless validation and of the execution plus projected state.
package main

import (
	"encoding/json"
	"flag"
	"fmt"
	"os"
	"time"

	sdk "github.com/cosmos/cosmos-sdk/types"
	authtypes "github.com/cosmos/cosmos-sdk/x/auth/types"
	stakingtypes "github.com/cosmos/cosmos-sdk/x/staking/types"
	"github.com/ethereum/go-ethereum/common"
	"github.com/ethereum/go-ethereum/crypto"
	tmproto "github.com/tendermint/tendermint/proto/tendermint/types"
	"github.com/tharsis/ethermint/crypto/ethsecp256k1"
	ethermint "github.com/tharsis/ethermint/types"

	"github.com/teleport-network/teleport/app"

	"verifharness/hlib"
)

// Case is one generated input; exactly one of the spec members is set (by Kind).
type Case struct {
	ID    int        `json:"id"`
	Kind  string     `json:"kind"` // xibc | agg | rv | gen_xibc | gen_agg | gen_rv
	Origin string    `json:"origin,omitempty"` // corpus | tour | gen (informational)
	Xibc  *XibcSpec  `json:"xibc,omitempty"`
	Agg   *AggSpec   `json:"agg,omitempty"`
	Rv    *RvSpec    `json:"rv,omitempty"`
	GenX  *GenXSpec  `json:"gen_xibc,omitempty"`
	GenA  *GenASpec  `json:"gen_agg,omitempty"`
	GenR  *GenRSpec  `json:"gen_rv,omitempty"`
	Obs   []StepObs  `json:"obs,omitempty"`
	RvObs *RvResult  `json:"rv_obs,omitempty"`
	Extra *ExtraInfo `json:"extra,omitempty"`
}

// StepObs: what was observed for one step (one proposal / one genesis).
type StepObs struct {
	V      int     `json:"v"`                 // validation (decode + ValidateBasic / ValidateGenesis): 0 ok, 1 error, 2 panic
	X      int     `json:"x"`                 // execution: 0 ok, 1 error, 2 panic, -1 not executed
	VPanic string  `json:"v_panic,omitempty"` // panic text (report only)
	XPanic string  `json:"x_panic,omitempty"`
	XErr   string  `json:"x_err,omitempty"`   // error text (report only, never compared)
	Oracle *Oracle `json:"oracle,omitempty"`  // observed answers of library oracles for this step
	Post   *Post   `json:"post,omitempty"`    // projected state after the step
	COracles []*Oracle         `json:"client_oracles,omitempty"` // genesis: oracle answers per listed client
	ROracles []bool            `json:"relayer_oracles,omitempty"` // genesis: does the relayer's address parse (bech32)
	Res      map[string]string `json:"res,omitempty"`            // aggregate: set-up addresses substituted into the proposal (hex)
}

type ExtraInfo struct {
	Now    uint64 `json:"now"`    // block time (unix seconds) of the context the handlers ran in
	Native string `json:"native"` // hex of Keeper.GetChainName on the application state the xibc cases start from
}

const chainID = "teleport_9000-1"

var blockTime = time.Date(2026, 1, 1, 0, 0, 0, 0, time.UTC)

type env struct {
	app  *app.Teleport
	base sdk.Context
	priv *ethsecp256k1.PrivKey // funded account / validator operator
	addr common.Address
}

func setup() *env {
	a := app.Setup(false, nil)
	// deterministic keys: the harness never depends on crypto/rand
	priv := &ethsecp256k1.PrivKey{Key: crypto.Keccak256([]byte("verif-c15-account"))}
	cons := &ethsecp256k1.PrivKey{Key: crypto.Keccak256([]byte("verif-c15-consensus"))}
	addr := common.BytesToAddress(priv.PubKey().Address().Bytes())
	consAddr := sdk.ConsAddress(cons.PubKey().Address())
	ctx := a.BaseApp.NewContext(false, tmproto.Header{
		Height: 2, ChainID: chainID, Time: blockTime, ProposerAddress: consAddr.Bytes(),
	})
	acc := &ethermint.EthAccount{
		BaseAccount: authtypes.NewBaseAccount(sdk.AccAddress(addr.Bytes()), nil, 0, 0),
		CodeHash:    common.BytesToHash(crypto.Keccak256(nil)).String(),
	}
	a.AccountKeeper.SetAccount(ctx, acc)
	valAddr := sdk.ValAddress(addr.Bytes())
	validator, err := stakingtypes.NewValidator(valAddr, cons.PubKey(), stakingtypes.Description{})
	if err != nil {
		panic(err)
	}
	if err := a.StakingKeeper.SetValidatorByConsAddr(ctx, validator); err != nil {
		panic(err)
	}
	a.StakingKeeper.SetValidator(ctx, validator)
	return &env{app: a, base: ctx, priv: priv, addr: addr}
}

func classOf(panicked bool, err error) int {
	if panicked {
		return 2
	}
	if err != nil {
		return 1
	}
	return 0
}

func errText(err error) string {
	if err == nil {
		return ""
	}
	s := err.Error()
	if len(s) > 160 {
		s = s[:160]
	}
	return s
}

func runCase(e *env, c *Case) {
	c.Extra = &ExtraInfo{Now: uint64(blockTime.Unix()), Native: hx(e.app.XIBCKeeper.ClientKeeper.GetChainName(e.base))}
	switch c.Kind {
	case "xibc":
		c.Obs = runXibc(e, c.Xibc)
	case "agg":
		c.Obs = runAgg(e, c.Agg)
	case "rv":
		c.RvObs = runRv(e, c.Rv)
	case "gen_xibc":
		c.Obs = runGenX(e, c.GenX)
	case "gen_agg":
		c.Obs = []StepObs{runGenA(e, c.GenA)}
	case "gen_rv":
		c.Obs = []StepObs{runGenR(e, c.GenR)}
	default:
		panic("unknown case kind " + c.Kind)
	}
}

func genCase(r *hlib.Rand, id int) *Case {
	c := &Case{ID: id}
	switch k := r.Intn(20); {
	case k < 9:
		c.Kind, c.Xibc = "xibc", genXibc(r)
	case k < 13:
		c.Kind, c.Agg = "agg", genAgg(r)
	case k < 15:
		c.Kind, c.Rv = "rv", genRv(r)
	case k < 17:
		c.Kind, c.GenX = "gen_xibc", genGenX(r)
	case k < 18:
		c.Kind, c.GenA = "gen_agg", genGenA(r)
	default:
		c.Kind, c.GenR = "gen_rv", genGenR(r)
	}
	return c
}

func main() {
	seed := flag.Uint64("seed", 1, "PRNG seed")
	n := flag.Int("n", 50, "number of generated cases (in addition to the corpus and the directed tour)")
	noTour := flag.Bool("notour", false, "skip the directed tour")
	in := flag.String("in", "", "replay: file of cases (JSON lines) instead of generating")
	out := flag.String("out", "/dev/stdout", "output file (JSON lines)")
	only := flag.String("only", "", "generate only this kind of case")
	flag.Parse()

	e := setup()
	var cases []*Case
	if *in != "" {
		hlib.ReadLines(*in, func(line []byte) {
			c := &Case{}
			if err := json.Unmarshal(line, c); err != nil {
				panic(err)
			}
			c.Obs, c.RvObs = nil, nil
			cases = append(cases, c)
		})
	} else {
		root := hlib.NewRand(*seed)
		// the corpus of witnesses of (former) findings runs first on every check
		for _, c := range corpus() {
			c.ID, c.Origin = len(cases), "corpus"
			cases = append(cases, c)
		}
		// then the directed tour of every branch of the model (independent of the seed)
		if !*noTour {
			for _, c := range append(tour(), tourMore()...) {
				c.ID, c.Origin = len(cases), "tour"
				cases = append(cases, c)
			}
		}
		// then -n generated cases
		for i, made := 0, 0; made < *n; i++ {
			c := genCase(root.Fork(uint64(i)), len(cases))
			if *only != "" && c.Kind != *only {
				continue
			}
			c.Origin = "gen"
			cases = append(cases, c)
			made++
		}
	}
	w := hlib.NewOut(*out)
	defer w.Close()
	for _, c := range cases {
		runCase(e, c)
		w.Emit(c)
	}
	fmt.Fprintf(os.Stderr, "c15: %d cases\n", len(cases))
}
