package main

import (
	"fmt"
	"testing"
	"time"

	"github.com/cosmos/cosmos-sdk/simapp/helpers"
	sdk "github.com/cosmos/cosmos-sdk/types"
	"github.com/tharsis/ethermint/crypto/ethsecp256k1"

	xibcclient "github.com/teleport-network/teleport/x/xibc/core/client"
	clienttypes "github.com/teleport-network/teleport/x/xibc/core/client/types"
	tsstypes "github.com/teleport-network/teleport/x/xibc/clients/tss-client/types"
	xibctesting "github.com/teleport-network/teleport/x/xibc/testing"
)

type acct struct {
	priv *ethsecp256k1.PrivKey
	addr sdk.AccAddress
}

func deliver(ch *xibctesting.TestChain, a *acct, msgs ...sdk.Msg) (*sdk.Result, error) {
	ctx := ch.GetContext()
	acc := ch.App.AccountKeeper.GetAccount(ctx, a.addr)
	tx, err := helpers.GenTx(ch.TxConfig, msgs, sdk.Coins{sdk.NewInt64Coin(sdk.DefaultBondDenom, 0)}, helpers.DefaultGenTxGas*2,
		ch.ChainID, []uint64{acc.GetAccountNumber()}, []uint64{acc.GetSequence()}, a.priv)
	if err != nil {
		panic(err)
	}
	_, res, err := ch.App.BaseApp.Deliver(ch.TxConfig.TxEncoder(), tx)
	return res, err
}

func main() {
	t0 := time.Now()
	coord := xibctesting.NewCoordinator(&testing.T{}, 2)
	A := coord.GetChain(xibctesting.GetChainID(0))
	B := coord.GetChain(xibctesting.GetChainID(1))
	fmt.Println("setup", time.Since(t0))
	path := xibctesting.NewPath(A, B)
	coord.SetupClientsWithoutRelayer(path)
	fmt.Println("clients", time.Since(t0))
	var accts []*acct
	for i := 0; i < 4; i++ {
		k := make([]byte, 32)
		k[31] = byte(i + 1)
		k[0] = 7
		p := &ethsecp256k1.PrivKey{Key: k}
		a := &acct{priv: p, addr: sdk.AccAddress(p.PubKey().Address().Bytes())}
		accts = append(accts, a)
		if err := A.App.BankKeeper.SendCoins(A.GetContext(), A.SenderAcc, a.addr, sdk.NewCoins(sdk.NewInt64Coin("stake", 1000000))); err != nil {
			panic(err)
		}
		fmt.Println(a.addr.String())
	}
	h := xibcclient.NewClientProposalHandler(A.App.XIBCKeeper.ClientKeeper)
	p := clienttypes.NewRegisterRelayerProposal("t", "d", accts[0].addr.String(), []string{B.ChainID}, []string{"0xabc"})
	fmt.Println("vb", p.ValidateBasic(), "handler", h(A.GetContext(), p))
	// TSS client
	cs := &tsstypes.ClientState{TssAddress: accts[1].addr.String()}
	cp, err := clienttypes.NewCreateClientProposal("t", "d", "tss-chain", cs, &tsstypes.ConsensusState{})
	fmt.Println("cp", err)
	fmt.Println("vb", cp.ValidateBasic(), "handler", h(A.GetContext(), cp))
	coord.CommitBlock(A, B)
	coord.CommitBlock(B)
	hdr, err := A.ConstructUpdateTMClientHeader(B, B.ChainID)
	fmt.Println("hdr", err)
	t1 := time.Now()
	for i, a := range accts {
		msg, _ := clienttypes.NewMsgUpdateClient(B.ChainID, hdr, a.addr)
		res, err := deliver(A, a, msg)
		fmt.Println(i, res != nil, err)
	}
	for i, a := range accts[:1] {
		msg, _ := clienttypes.NewMsgUpdateClient(B.ChainID, hdr, a.addr)
		res, err := deliver(A, a, msg)
		fmt.Println(i, res != nil, err)
	}
	fmt.Println("5 delivers", time.Since(t1))
	thdr := &tsstypes.Header{TssAddress: accts[2].addr.String()}
	for i, a := range accts {
		msg, _ := clienttypes.NewMsgUpdateClient("tss-chain", thdr, a.addr)
		res, err := deliver(A, a, msg)
		fmt.Println(i, res != nil, err)
	}
}
