package main

import (
	"fmt"
	"testing"
	"strings"
	"math/big"

	sdk "github.com/cosmos/cosmos-sdk/types"
	"github.com/ethereum/go-ethereum/common"
	ethtypes "github.com/ethereum/go-ethereum/core/types"
	"github.com/tharsis/ethermint/server/config"
	"github.com/tharsis/ethermint/tests"
	evmtypes "github.com/tharsis/ethermint/x/evm/types"
	endpointcontract "github.com/teleport-network/teleport/syscontracts/xibc_endpoint"
	packetcontract "github.com/teleport-network/teleport/syscontracts/xibc_packet"
	packettypes "github.com/teleport-network/teleport/x/xibc/core/packet/types"
	xibctesting "github.com/teleport-network/teleport/x/xibc/testing"
)

func main() {
	coord := xibctesting.NewCoordinator(&testing.T{}, 2)
	A := coord.GetChain(xibctesting.GetChainID(0))
	B := coord.GetChain(xibctesting.GetChainID(1))
	path := xibctesting.NewPath(A, B)
	coord.SetupClientsWithoutRelayer(path)
	data := packettypes.CrossChainData{
		DstChain:        B.ChainID,
		TokenAddress:    common.Address{},
		Receiver:        strings.ToLower(A.SenderAddress.String()),
		Amount:          big.NewInt(100),
		CallData:        []byte(""),
	}
	f := packettypes.Fee{Amount: big.NewInt(7)}
	payload, err := endpointcontract.EndpointContract.ABI.Pack("crossChainCall", data, f)
	fmt.Println(err)
	ctx := A.GetContext()
	chainID := A.App.EvmKeeper.ChainID()
	nonce := A.App.EvmKeeper.GetNonce(ctx, A.SenderAddress)
	tx := evmtypes.NewTx(chainID, nonce, &endpointcontract.EndpointContractAddress, big.NewInt(107), config.DefaultGasCap, big.NewInt(0), big.NewInt(0), big.NewInt(0), payload, &ethtypes.AccessList{})
	tx.From = A.SenderAddress.Hex()
	fmt.Println(tx.Sign(ethtypes.LatestSignerForChainID(chainID), tests.NewSigner(A.SenderPrivKey)))
	rsp, err := A.App.EvmKeeper.EthereumTx(sdk.WrapSDKContext(ctx), tx)
	fmt.Println(err, rsp.VmError, len(rsp.Logs), rsp.Ret)
	fmt.Println(A.App.XIBCKeeper.PacketKeeper.GetNextSequenceSend(A.GetContext(), A.ChainID, B.ChainID))
	res, err := A.App.XIBCKeeper.PacketKeeper.CallEVM(A.GetContext(), packetcontract.PacketContract.ABI, packettypes.ModuleAddress, packetcontract.PacketContractAddress, "latestPacket")
	fmt.Println(err, len(res.Ret))
	var p packettypes.Packet
	fmt.Println(packetcontract.PacketContract.ABI.UnpackIntoInterface(&p, "latestPacket", res.Ret))
	fmt.Printf("%+v\n", p)
	for _, o := range packetcontract.PacketContract.ABI.Methods["latestPacket"].Outputs { fmt.Println(o.Name) }
}
