// c09: drives the real BSC light client (ClientState.CheckHeaderAndUpdateState on a real client store, and
// ClientKeeper.CreateClient / UpdateClient) over generated header chains sealed with real secp256k1 keys and
// records the projected observables (result class / error code, client state, recent signers, pending
// validators, consensus states) together with the oracle table (real header hash and recovered sealer).
package main

import (
	"bytes"
	"crypto/ecdsa"
	"encoding/json"
	"flag"
	"fmt"
	"io/ioutil"
	"math/big"
	"os"
	"sort"
	"strings"
	"time"

	sdk "github.com/cosmos/cosmos-sdk/types"
	sdkerrors "github.com/cosmos/cosmos-sdk/types/errors"
	"github.com/ethereum/go-ethereum/common"
	ethtypes "github.com/ethereum/go-ethereum/core/types"
	"github.com/ethereum/go-ethereum/crypto"
	"github.com/ethereum/go-ethereum/rlp"
	tmproto "github.com/tendermint/tendermint/proto/tendermint/types"

	"github.com/teleport-network/teleport/app"
	bsctypes "github.com/teleport-network/teleport/x/xibc/clients/light-clients/bsc/types"
	clienttypes "github.com/teleport-network/teleport/x/xibc/core/client/types"
	"github.com/teleport-network/teleport/x/xibc/exported"

	"verifharness/hlib"
)

const chainName = "bsc"

// ---------------------------------------------------------------------------------------------
// JSON shapes
// ---------------------------------------------------------------------------------------------

type Hdr struct {
	Rev      uint64 `json:"rev"`
	Num      uint64 `json:"num"`
	Parent   string `json:"parent"`
	Uncle    string `json:"uncle"`
	Coinbase string `json:"coinbase"`
	Root     string `json:"root"`
	Tx       string `json:"tx"`
	Receipt  string `json:"receipt"`
	Bloom    string `json:"bloom"`
	Diff     string `json:"diff"`
	GasLimit uint64 `json:"gaslimit"`
	GasUsed  uint64 `json:"gasused"`
	Time     uint64 `json:"time"`
	Extra    string `json:"extra"`
	Mix      string `json:"mix"`
	Nonce    string `json:"nonce"`
}

type Step struct {
	BT  uint64 `json:"bt"` // block time (unix seconds) of the transaction carrying the update
	H   Hdr    `json:"h"`
	Tag string `json:"tag"` // generator's label of the scenario (evidence only)
}

type Spec struct {
	ID       int      `json:"id"`
	Mode     string   `json:"mode"` // "raw": CheckHeaderAndUpdateState on the client store; "keeper": ClientKeeper.UpdateClient
	ChainID  uint64   `json:"chain_id"`
	Epoch    uint64   `json:"epoch"`
	Interval uint64   `json:"interval"`
	Trust    uint64   `json:"trust"`
	Vals     []string `json:"vals"`
	Contract string   `json:"contract"`
	Genesis  Hdr      `json:"genesis"`
	ConsTime uint64   `json:"cons_time"`
	ConsRev  uint64   `json:"cons_rev"`
	ConsNum  uint64   `json:"cons_num"`
	ConsRoot string   `json:"cons_root"`
	Steps    []Step   `json:"steps"`
}

type KV struct {
	K string `json:"k"`
	V string `json:"v"`
}

type ConsObs struct {
	Key  string `json:"key"`
	Time uint64 `json:"time"`
	Rev  uint64 `json:"rev"`
	Num  uint64 `json:"num"`
	Root string `json:"root"`
}

type StateObs struct {
	Exists         bool      `json:"exists"`
	Head           int       `json:"head"` // 0 = genesis header, i+1 = header of step i, -1 = none of them
	Vals           []string  `json:"vals"`
	RestSame       bool      `json:"rest_same"` // chain id, epoch, interval, contract, trusting period as created
	Recents        []KV      `json:"recents"`   // store iteration order
	PendingPresent bool      `json:"pending_present"`
	Pending        []string  `json:"pending"`
	Cons           []ConsObs `json:"cons"`  // store iteration order
	Other          int       `json:"other"` // keys of the client store outside the four families
}

type Obs struct {
	Class    int      `json:"class"` // 0 ok, 1 error, 2 panic
	Kind     int      `json:"kind"`  // error code (see Model/Bsc.v result)
	Panic    string   `json:"panic,omitempty"`
	HasDirty bool     `json:"has_dirty"` // raw mode, rejected: recent signers of the store the call wrote to (before discarding)
	Dirty    []KV     `json:"dirty"`
	State    StateObs `json:"state"`
}

type Oracle struct {
	Hash     string `json:"hash"`
	HashOK   bool   `json:"hash_ok"`
	Sealer   string `json:"sealer"`
	SealerOK bool   `json:"sealer_ok"`
	// the pre-images of the two hashes as the real code builds them (Model/BscRlp.v computes the same byte strings)
	BlockPre   string `json:"block_pre"`    // rlp.Encode(ToBscHeader()); empty when the encoder returns an error
	BlockPreOK bool   `json:"block_pre_ok"` // false: ToBscHeader panics
	SealPre    string `json:"seal_pre"`     // encodeSigHeader output
	SealPreOK  bool   `json:"seal_pre_ok"`  // false: extra data shorter than the seal
	// Go-side facts: Hash() == keccak256(BlockPre), sealHash == keccak256(SealPre), and the recovered sealer is
	// crypto.Ecrecover(keccak256(SealPre), last 65 bytes of the extra data) turned into an address
	HashIsKeccak bool `json:"hash_is_keccak"`
	SealIsKeccak bool `json:"seal_is_keccak"`
}

type Result struct {
	Spec   Spec     `json:"spec"`
	Create Obs      `json:"create"`
	Oracle []Oracle `json:"oracle"` // index 0 genesis, i+1 step i
	Obs    []Obs    `json:"obs"`
}

// ---------------------------------------------------------------------------------------------
// conversions
// ---------------------------------------------------------------------------------------------

func toProto(h Hdr) bsctypes.Header {
	return bsctypes.Header{
		ParentHash: hlib.UnHex(h.Parent), UncleHash: hlib.UnHex(h.Uncle), Coinbase: hlib.UnHex(h.Coinbase),
		Root: hlib.UnHex(h.Root), TxHash: hlib.UnHex(h.Tx), ReceiptHash: hlib.UnHex(h.Receipt), Bloom: hlib.UnHex(h.Bloom),
		Difficulty: hlib.UnHex(h.Diff), Height: clienttypes.NewHeight(h.Rev, h.Num), GasLimit: h.GasLimit, GasUsed: h.GasUsed,
		Time: h.Time, Extra: hlib.UnHex(h.Extra), MixDigest: hlib.UnHex(h.Mix), Nonce: hlib.UnHex(h.Nonce),
	}
}

func fromProto(h bsctypes.Header) Hdr {
	return Hdr{
		Rev: h.Height.RevisionNumber, Num: h.Height.RevisionHeight, Parent: hlib.Hex(h.ParentHash), Uncle: hlib.Hex(h.UncleHash),
		Coinbase: hlib.Hex(h.Coinbase), Root: hlib.Hex(h.Root), Tx: hlib.Hex(h.TxHash), Receipt: hlib.Hex(h.ReceiptHash),
		Bloom: hlib.Hex(h.Bloom), Diff: hlib.Hex(h.Difficulty), GasLimit: h.GasLimit, GasUsed: h.GasUsed, Time: h.Time,
		Extra: hlib.Hex(h.Extra), Mix: hlib.Hex(h.MixDigest), Nonce: hlib.Hex(h.Nonce),
	}
}

func errKind(err error) int {
	cs, code, _ := sdkerrors.ABCIInfo(err, false)
	switch cs {
	case "xibc-bsc-client":
		return int(code)
	case "xibc-client":
		return 100 + int(code)
	default:
		return 1
	}
}

// ---------------------------------------------------------------------------------------------
// running the real code
// ---------------------------------------------------------------------------------------------

type runner struct {
	a       *app.Teleport
	ctx     sdk.Context
	spec    *Spec
	headers []bsctypes.Header // 0 genesis, i+1 step i
}

func newRunner(a *app.Teleport, base sdk.Context, spec *Spec) *runner {
	ctx, _ := base.CacheContext()
	return &runner{a: a, ctx: ctx, spec: spec}
}

func (rn *runner) clientState(ctx sdk.Context) *bsctypes.ClientState {
	csI, ok := rn.a.XIBCKeeper.ClientKeeper.GetClientState(ctx, chainName)
	if !ok {
		return nil
	}
	return csI.(*bsctypes.ClientState)
}

func dumpRecents(store sdk.KVStore) []KV {
	out := []KV{}
	it := sdk.KVStorePrefixIterator(store, []byte("recentSingers"))
	defer it.Close()
	for ; it.Valid(); it.Next() {
		out = append(out, KV{hlib.Hex(it.Key()), hlib.Hex(it.Value())})
	}
	return out
}

func (rn *runner) observe(ctx sdk.Context) StateObs {
	o := StateObs{Head: -1, Vals: []string{}, Recents: []KV{}, Pending: []string{}, Cons: []ConsObs{}}
	cs := rn.clientState(ctx)
	if cs == nil {
		return o
	}
	o.Exists = true
	hb, _ := cs.Header.Marshal()
	for i := len(rn.headers) - 1; i >= 0; i-- {
		b, _ := rn.headers[i].Marshal()
		if bytes.Equal(b, hb) {
			o.Head = i
			break
		}
	}
	for _, v := range cs.Validators {
		o.Vals = append(o.Vals, hlib.Hex(v))
	}
	sp := rn.spec
	o.RestSame = cs.ChainId == sp.ChainID && cs.Epoch == sp.Epoch && cs.BlockInteval == sp.Interval &&
		cs.TrustingPeriod == sp.Trust && bytes.Equal(cs.ContractAddress, hlib.UnHex(sp.Contract))
	store := rn.a.XIBCKeeper.ClientKeeper.ClientStore(ctx, chainName)
	cdc := rn.a.AppCodec()
	it := store.Iterator(nil, nil)
	defer it.Close()
	for ; it.Valid(); it.Next() {
		k := string(it.Key())
		switch {
		case k == "clientState":
		case strings.HasPrefix(k, "recentSingers"):
			o.Recents = append(o.Recents, KV{hlib.Hex(it.Key()), hlib.Hex(it.Value())})
		case k == "pendingValidators":
			o.PendingPresent = true
			var vs bsctypes.ValidatorSet
			cdc.MustUnmarshal(it.Value(), &vs)
			for _, v := range vs.Validators {
				o.Pending = append(o.Pending, hlib.Hex(v))
			}
		case strings.HasPrefix(k, "consensusStates/"):
			csI, err := clienttypes.UnmarshalConsensusState(cdc, it.Value())
			if err != nil {
				o.Other++
				continue
			}
			c, ok := csI.(*bsctypes.ConsensusState)
			if !ok {
				o.Other++
				continue
			}
			o.Cons = append(o.Cons, ConsObs{Key: hlib.Hex(it.Key()), Time: c.Timestamp, Rev: c.Height.RevisionNumber,
				Num: c.Height.RevisionHeight, Root: hlib.Hex(c.Root)})
		default:
			o.Other++
		}
	}
	return o
}

func (rn *runner) oracle(h bsctypes.Header) Oracle {
	var o Oracle
	p, _ := hlib.Catch(func() { hh := h.Hash(); o.Hash = hlib.Hex(hh[:]) })
	o.HashOK = !p
	var addr common.Address
	var err error
	chain := new(big.Int).SetUint64(rn.spec.ChainID)
	p, _ = hlib.Catch(func() { addr, err = bsctypes.VerifEcrecover(h, chain) })
	if !p && err == nil {
		o.SealerOK = true
		o.Sealer = hlib.Hex(addr[:])
	}
	// pre-images
	o.HashIsKeccak, o.SealIsKeccak = true, true
	var pre []byte
	p, _ = hlib.Catch(func() {
		b, e := rlp.EncodeToBytes(h.ToBscHeader())
		if e == nil {
			pre = b
		}
	})
	if !p {
		o.BlockPreOK = true
		o.BlockPre = hlib.Hex(pre)
		if o.HashOK {
			o.HashIsKeccak = hlib.Hex(crypto.Keccak256(pre)) == o.Hash
		}
	}
	if len(h.Extra) >= 65 {
		var sp []byte
		p, _ = hlib.Catch(func() { sp = bsctypes.VerifSealPreimage(h, chain) })
		if !p {
			o.SealPreOK = true
			o.SealPre = hlib.Hex(sp)
			digest := crypto.Keccak256(sp)
			sh := bsctypes.VerifSealHash(h, chain)
			o.SealIsKeccak = bytes.Equal(digest, sh[:])
			pub, e := crypto.Ecrecover(digest, h.Extra[len(h.Extra)-65:])
			if e != nil {
				o.SealIsKeccak = o.SealIsKeccak && !o.SealerOK
			} else {
				o.SealIsKeccak = o.SealIsKeccak && o.SealerOK && bytes.Equal(crypto.Keccak256(pub[1:])[12:], addr[:])
			}
		}
	}
	return o
}

func (rn *runner) create() Obs {
	sp := rn.spec
	g := toProto(sp.Genesis)
	rn.headers = []bsctypes.Header{g}
	vals := [][]byte{}
	for _, v := range sp.Vals {
		vals = append(vals, hlib.UnHex(v))
	}
	cs := exported.ClientState(&bsctypes.ClientState{Header: g, ChainId: sp.ChainID, Epoch: sp.Epoch, BlockInteval: sp.Interval,
		Validators: vals, ContractAddress: hlib.UnHex(sp.Contract), TrustingPeriod: sp.Trust})
	cons := exported.ConsensusState(&bsctypes.ConsensusState{Timestamp: sp.ConsTime,
		Height: clienttypes.NewHeight(sp.ConsRev, sp.ConsNum), Root: hlib.UnHex(sp.ConsRoot)})
	var o Obs
	var err error
	// executed the way gov's EndBlocker runs a proposal handler: cache context, written only on success
	cctx, write := rn.ctx.CacheContext()
	p, val := hlib.Catch(func() { err = rn.a.XIBCKeeper.ClientKeeper.CreateClient(cctx, chainName, cs, cons) })
	switch {
	case p:
		o.Class, o.Panic = 2, val
	case err != nil:
		o.Class, o.Kind = 1, errKind(err)
	default:
		write()
	}
	o.Dirty = []KV{}
	o.State = rn.observe(rn.ctx)
	return o
}

func (rn *runner) step(st Step) Obs {
	h := toProto(st.H)
	rn.headers = append(rn.headers, h)
	k := rn.a.XIBCKeeper.ClientKeeper
	var o Obs
	o.Dirty = []KV{}
	var err error
	cctx, write := rn.ctx.WithBlockTime(time.Unix(int64(st.BT), 0)).CacheContext()
	var p bool
	var val string
	if rn.spec.Mode == "keeper" {
		p, val = hlib.Catch(func() { err = k.UpdateClient(cctx, chainName, &h) })
	} else {
		csI, _ := k.GetClientState(cctx, chainName)
		store := k.ClientStore(cctx, chainName)
		var ncs exported.ClientState
		var ncons exported.ConsensusState
		p, val = hlib.Catch(func() { ncs, ncons, err = csI.CheckHeaderAndUpdateState(cctx, rn.a.AppCodec(), store, &h) })
		if p || err != nil {
			if !p {
				o.HasDirty = true
				o.Dirty = dumpRecents(store)
			}
		} else {
			k.SetClientState(cctx, chainName, ncs)
			k.SetClientConsensusState(cctx, chainName, h.GetHeight(), ncons)
		}
	}
	switch {
	case p:
		o.Class, o.Panic = 2, val
	case err != nil:
		o.Class, o.Kind = 1, errKind(err)
	default:
		write()
	}
	o.State = rn.observe(rn.ctx)
	return o
}

func runSpec(a *app.Teleport, base sdk.Context, sp Spec) Result {
	rn := newRunner(a, base, &sp)
	res := Result{Spec: sp, Obs: []Obs{}}
	res.Create = rn.create()
	res.Oracle = append(res.Oracle, rn.oracle(rn.headers[0]))
	if res.Create.Class != 0 {
		res.Spec.Steps = nil
		return res
	}
	for _, st := range sp.Steps {
		res.Obs = append(res.Obs, rn.step(st))
		res.Oracle = append(res.Oracle, rn.oracle(rn.headers[len(rn.headers)-1]))
	}
	return res
}

// ---------------------------------------------------------------------------------------------
// generator
// ---------------------------------------------------------------------------------------------

type gen struct {
	r      *hlib.Rand
	keys   []*ecdsa.PrivateKey
	addrs  []common.Address
	byAddr map[common.Address]*ecdsa.PrivateKey
	sp     *Spec
	rn     *runner
	tags   map[string]int
}

var emptyUncle = ethtypes.EmptyUncleHash

func (g *gen) mkKeys(n int) {
	g.byAddr = map[common.Address]*ecdsa.PrivateKey{}
	for len(g.keys) < n {
		k, err := crypto.ToECDSA(g.r.Bytes(32))
		if err != nil {
			continue
		}
		a := crypto.PubkeyToAddress(k.PublicKey)
		g.keys = append(g.keys, k)
		g.addrs = append(g.addrs, a)
		g.byAddr[a] = k
	}
}

func seal(h *bsctypes.Header, key *ecdsa.PrivateKey, chainID uint64) {
	if len(h.Extra) < 65 {
		return
	}
	hlib.Catch(func() {
		sig, err := crypto.Sign(bsctypes.VerifSealHash(*h, new(big.Int).SetUint64(chainID)).Bytes(), key)
		if err != nil {
			panic(err)
		}
		copy(h.Extra[len(h.Extra)-65:], sig)
	})
}

func mkExtra(r *hlib.Rand, vals []common.Address) []byte {
	e := r.Bytes(32)
	for _, v := range vals {
		e = append(e, v[:]...)
	}
	return append(e, make([]byte, 65)...)
}

func diffBytes(d uint64) []byte { return new(big.Int).SetUint64(d).Bytes() }

// pickSet chooses the validator list announced by an epoch header.
func (g *gen) pickSet(cur []common.Address) []common.Address {
	r := g.r
	pool := g.addrs[:24]
	inCur := map[common.Address]bool{}
	for _, a := range cur {
		inCur[a] = true
	}
	var out []common.Address
	switch c := r.Intn(100); {
	case c < 30: // same
		out = append(out, cur...)
	case c < 52: // grow
		out = append(out, cur...)
		add := 1 + r.Intn(4)
		for _, a := range pool {
			if add > 0 && !inCur[a] && len(out) < 21 {
				out = append(out, a)
				add--
			}
		}
	case c < 74: // shrink
		out = append(out, cur...)
		drop := 1 + r.Intn(4)
		for drop > 0 && len(out) > 1 {
			i := r.Intn(len(out))
			out = append(out[:i], out[i+1:]...)
			drop--
		}
	case c < 90: // random subset
		n := 1 + r.Intn(21)
		perm := append([]common.Address{}, pool...)
		for i := range perm {
			j := i + r.Intn(len(perm)-i)
			perm[i], perm[j] = perm[j], perm[i]
		}
		out = perm[:n]
	case c < 94: // duplicate entry
		out = append(out, cur...)
		if len(out) > 0 {
			out = append(out, out[r.Intn(len(out))])
		}
	case c < 97: // single
		out = []common.Address{pool[r.Intn(len(pool))]}
	default: // empty
	}
	// shuffle (the code sorts)
	for i := range out {
		j := i + r.Intn(len(out)-i)
		out[i], out[j] = out[j], out[i]
	}
	return out
}

func (g *gen) genSpec(id int) {
	r := g.r
	g.mkKeys(30)
	sp := &Spec{ID: id, Mode: "raw", ChainID: 56, Interval: 3, Contract: hlib.Hex(r.Bytes(20))}
	if r.Chance(3, 10) {
		sp.Mode = "keeper"
	}
	if r.Chance(1, 5) {
		sp.ChainID = []uint64{1, 97, 714, 1 << 40, 0, 1<<63 + 5}[r.Intn(6)]
	}
	epochs := []uint64{2, 3, 4, 5, 6, 7, 8, 10, 11, 12, 16, 20, 24, 30, 50, 100, 200}
	sp.Epoch = epochs[r.Intn(len(epochs))]
	nv := 1 + r.Intn(21)
	if r.Chance(1, 3) {
		nv = 1 + r.Intn(7)
	}
	// initial validator set and the list carried by the genesis (epoch) header
	perm := append([]common.Address{}, g.addrs[:24]...)
	for i := range perm {
		j := i + r.Intn(len(perm)-i)
		perm[i], perm[j] = perm[j], perm[i]
	}
	cur := perm[:nv]
	for _, a := range cur {
		sp.Vals = append(sp.Vals, hlib.Hex(a[:]))
	}
	if r.Chance(1, 40) && len(sp.Vals) > 0 { // a raw validator entry that is not 20 bytes long (BytesToAddress pads / crops)
		i := r.Intn(len(sp.Vals))
		if r.Bool() {
			sp.Vals[i] = "00" + sp.Vals[i]
		} else {
			sp.Vals[i] = sp.Vals[i][2:]
		}
	}
	var p0 []common.Address
	if r.Chance(6, 10) {
		p0 = append(p0, cur...)
	} else {
		p0 = g.pickSet(cur)
	}
	// genesis height: a multiple of the epoch
	var k uint64
	switch c := r.Intn(100); {
	case c < 12:
		k = 0
	case c < 30:
		k = uint64(1 + r.Intn(3))
	case c < 40: // chains passing heights whose big-endian bytes contain 0x2f ('/')
		tgt := []uint64{47, 303, 12079, 0x2f00}[r.Intn(4)]
		k = tgt / sp.Epoch
		if k > 0 && r.Bool() {
			k--
		}
	case c < 44:
		k = (1 << 63) / sp.Epoch
	default:
		k = uint64(r.Intn(2000000))
	}
	gnum := k * sp.Epoch
	rev := uint64(0)
	if r.Chance(1, 6) {
		rev = []uint64{1, 7, 10, 47}[r.Intn(4)]
	}
	gas := uint64(30000000 + r.Intn(1000000))
	switch c := r.Intn(40); c {
	case 0:
		gas = 5000 + uint64(r.Intn(600))
	case 1:
		gas = 1<<63 - 1
	case 2:
		gas = 1<<63 + uint64(r.Intn(1000))
	case 3:
		gas = uint64(r.Intn(300))
	case 4:
		gas = 1280000 + uint64(r.Intn(3))*256
	case 5, 6: // does not fit an int64 (a creation header is not validated): the gas-bound test must not be fooled
		gas = ^uint64(0) - uint64(r.Intn(1000))
	}
	t0 := uint64(1600000000 + r.Intn(100000000))
	gh := bsctypes.Header{
		ParentHash: r.Bytes(32), UncleHash: emptyUncle[:], Root: r.Bytes(32), TxHash: r.Bytes(32), ReceiptHash: r.Bytes(32),
		Bloom: make([]byte, 256), Difficulty: diffBytes(2), Height: clienttypes.NewHeight(rev, gnum), GasLimit: gas,
		GasUsed: gas / 2, Time: t0, Extra: mkExtra(r, p0), MixDigest: make([]byte, 32), Nonce: make([]byte, 8),
	}
	signer := g.addrs[r.Intn(len(g.addrs))]
	gh.Coinbase = signer[:]
	sp.Trust = 1000000000
	if r.Chance(1, 8) {
		sp.Trust = uint64(10 + r.Intn(120))
	}
	// creation-time faults (rare): the chain then has no steps
	switch c := r.Intn(60); c {
	case 0:
		gh.Height.RevisionHeight++ // not an epoch block (unless epoch 1)
	case 1:
		sp.Epoch = 0
	case 2:
		gh.Extra = gh.Extra[:len(gh.Extra)-1-r.Intn(len(gh.Extra))] // truncated extra
	case 3:
		gh.Coinbase = g.addrs[29][:]
		signer = g.addrs[28]
	case 4:
		gh.Extra = append(gh.Extra[:32], append(r.Bytes(1+r.Intn(19)), gh.Extra[32:]...)...) // validator bytes not a multiple of 20
	case 5:
		gh.Bloom = make([]byte, 257) // a client created without validation: Hash() of this header panics in the first update
	}
	seal(&gh, g.byAddr[signer], sp.ChainID)
	if r.Chance(1, 80) {
		gh.Extra[len(gh.Extra)-1] = 9 // invalid recovery id
	}
	sp.Genesis = fromProto(gh)
	sp.ConsTime, sp.ConsRev, sp.ConsNum, sp.ConsRoot = gh.Time, rev, gh.Height.RevisionHeight, hlib.Hex(gh.Root)
	if r.Chance(1, 30) { // governance supplies an unrelated consensus state
		sp.ConsRoot = hlib.Hex(r.Bytes(32))
		sp.ConsTime = t0 - uint64(r.Intn(1000))
	}
	g.sp = sp
}

func sortedAddrs(vals [][]byte) []common.Address {
	m := map[common.Address]struct{}{}
	for _, v := range vals {
		m[common.BytesToAddress(v)] = struct{}{}
	}
	out := make([]common.Address, 0, len(m))
	for a := range m {
		out = append(out, a)
	}
	sort.Slice(out, func(i, j int) bool { return bytes.Compare(out[i][:], out[j][:]) < 0 })
	return out
}

// genStep builds the next submission from the REAL client's current state.
func (g *gen) genStep(bt *uint64, idx int) Step {
	r := g.r
	sp := g.sp
	cs := g.rn.clientState(g.rn.ctx)
	store := g.rn.a.XIBCKeeper.ClientKeeper.ClientStore(g.rn.ctx, chainName)
	head := cs.Header
	n := head.Height.RevisionHeight + 1
	vals := sortedAddrs(cs.Validators)
	limit := uint64(len(vals)/2 + 1)
	recents, _ := bsctypes.GetRecentSigners(store)
	recentAt := map[uint64]common.Address{}
	for _, s := range recents {
		recentAt[s.Height.RevisionHeight] = common.BytesToAddress(s.Validator)
	}
	blocked := map[common.Address]bool{}
	var recentList []common.Address
	for seen, a := range recentAt {
		if seen > n-limit {
			blocked[a] = true
		}
	}
	for _, s := range recents {
		recentList = append(recentList, common.BytesToAddress(s.Validator))
	}
	var eligible []common.Address
	for _, a := range vals {
		if !blocked[a] && g.byAddr[a] != nil {
			eligible = append(eligible, a)
		}
	}
	var inturnAddr common.Address
	if len(vals) > 0 {
		inturnAddr = vals[n%uint64(len(vals))]
	}
	isEpoch := sp.Epoch != 0 && n%sp.Epoch == 0

	// base header
	pg := head.GasLimit
	gl := pg
	if pg >= 1<<63 && r.Chance(3, 4) {
		gl = 5000 + uint64(r.Intn(1000000)) // far from the parent's limit
	} else if b := pg / 256; b > 1 {
		d := uint64(r.Intn(int(minU(b-1, 1<<30)) + 1))
		if r.Chance(1, 12) {
			d = b - 1
		}
		if d > b-1 {
			d = b - 1
		}
		if r.Bool() && pg+d < 1<<63 {
			gl = pg + d
		} else if pg-d >= 5000 {
			gl = pg - d
		}
	}
	var extraVals []common.Address
	if isEpoch {
		extraVals = g.pickSet(vals)
	}
	var ph common.Hash
	hlib.Catch(func() { ph = head.Hash() }) // panics for a created-unvalidated head with an over-long bloom
	h := bsctypes.Header{
		ParentHash: ph[:], UncleHash: emptyUncle[:], Root: r.Bytes(32), TxHash: r.Bytes(32), ReceiptHash: r.Bytes(32),
		Bloom: make([]byte, 256), Height: clienttypes.NewHeight(head.Height.RevisionNumber, n), GasLimit: gl,
		GasUsed: uint64(r.Intn(1000)) * (gl / 1000), Time: head.Time + sp.Interval, Extra: mkExtra(r, extraVals),
		MixDigest: make([]byte, 32), Nonce: make([]byte, 8),
	}
	if r.Chance(1, 10) {
		h.Bloom = r.Bytes(256)
	}
	// sealer
	var signer common.Address
	haveSigner := false
	pickEligible := func() {
		if len(eligible) == 0 {
			return
		}
		haveSigner = true
		if !blocked[inturnAddr] && g.byAddr[inturnAddr] != nil && r.Chance(11, 20) {
			signer = inturnAddr
			return
		}
		signer = eligible[r.Intn(len(eligible))]
	}
	tag := "valid"
	sc := r.Intn(1000)
	presign := func(*bsctypes.Header) {}
	postsign := func(*bsctypes.Header) {}
	wrongDiff := int64(-1)
	switch {
	case sc < 560:
		pickEligible()
	case sc < 600: // the validator that has just been shifted out of the window (must be accepted)
		if a, ok := recentAt[n-limit]; ok && g.byAddr[a] != nil && !blocked[a] {
			signer, haveSigner, tag = a, true, "valid-just-shifted-out"
		} else {
			pickEligible()
		}
	case sc < 660: // a validator inside the recent window
		var bl []common.Address
		for a := range blocked {
			if g.byAddr[a] != nil {
				bl = append(bl, a)
			}
		}
		sort.Slice(bl, func(i, j int) bool { return bytes.Compare(bl[i][:], bl[j][:]) < 0 })
		if len(bl) > 0 {
			signer, haveSigner, tag = bl[r.Intn(len(bl))], true, "recently-signed"
		} else {
			pickEligible()
		}
	case sc < 700: // any validator with a stored recent-signer entry (covers number < limit)
		if len(recentList) > 0 {
			a := recentList[r.Intn(len(recentList))]
			if g.byAddr[a] != nil {
				signer, haveSigner, tag = a, true, "stored-recent"
				if !blocked[a] {
					tag = "stored-recent-not-blocked"
				}
			}
		}
		if !haveSigner {
			pickEligible()
		}
	case sc < 740: // not a member
		for tries := 0; tries < 50; tries++ {
			a := g.addrs[r.Intn(len(g.addrs))]
			member := false
			for _, v := range vals {
				if v == a {
					member = true
				}
			}
			if !member {
				signer, haveSigner, tag = a, true, "non-member"
				break
			}
		}
		if !haveSigner {
			pickEligible()
		}
	case sc < 780:
		pickEligible()
		tag = "wrong-difficulty"
		wrongDiff = int64(r.Intn(6))
	case sc < 800:
		pickEligible()
		tag = "bad-parent"
		presign = func(h *bsctypes.Header) {
			switch r.Intn(3) {
			case 0:
				h.ParentHash = r.Bytes(32)
			case 1:
				h.ParentHash[r.Intn(32)] ^= 1 << uint(r.Intn(8))
			default:
				h.ParentHash = append([]byte{0}, h.ParentHash...) // 33 bytes: BytesToHash crops the first byte
				tag = "parent-33-bytes"
			}
		}
	case sc < 830:
		pickEligible()
		tag = "bad-number"
		presign = func(h *bsctypes.Header) {
			h.Height.RevisionHeight = []uint64{n + 1, n - 1, n - 2, 0, n + sp.Epoch, ^uint64(0)}[r.Intn(6)]
		}
	case sc < 850:
		pickEligible()
		tag = "coinbase-other"
		presign = func(h *bsctypes.Header) {
			o := g.addrs[r.Intn(len(g.addrs))]
			h.Coinbase = o[:]
		}
	case sc < 930:
		pickEligible()
		k := r.Intn(16)
		tag = fmt.Sprintf("struct-%d", k)
		presign = func(h *bsctypes.Header) {
			switch k {
			case 0:
				h.MixDigest = r.Bytes(32)
			case 1:
				h.UncleHash = r.Bytes(32)
			case 2: // validator bytes outside an epoch block / missing inside
				if isEpoch {
					h.Extra = mkExtra(r, nil)
					tag = "struct-epoch-empty-list"
				} else {
					h.Extra = mkExtra(r, g.addrs[:1+r.Intn(3)])
				}
			case 3: // validator bytes not a multiple of 20
				e := mkExtra(r, g.addrs[:1+r.Intn(3)])
				cut := 1 + r.Intn(19)
				h.Extra = append(e[:len(e)-65-cut], make([]byte, 65)...)
			case 4: // extra data shorter than vanity + seal; 65..96 bytes can still be sealed, 77 = 97-20 at an epoch block
				h.Extra = r.Bytes([]int{r.Intn(32), 32 + r.Intn(33), 65 + r.Intn(32), 77, 96, 65}[r.Intn(6)])
			case 5:
				h.GasLimit = 1<<63 + uint64(r.Intn(5))
			case 6:
				h.GasUsed = h.GasLimit + 1 + uint64(r.Intn(3))
			case 7: // gas limit exactly on / just inside the bound
				b := pg / 256
				if r.Bool() {
					h.GasLimit = pg + b
				} else if pg >= b {
					h.GasLimit = pg - b
				}
				if h.GasUsed > h.GasLimit {
					h.GasUsed = h.GasLimit
				}
				tag = "struct-gas-bound-edge"
			case 8:
				h.GasLimit = uint64(r.Intn(5000))
				if h.GasUsed > h.GasLimit {
					h.GasUsed = h.GasLimit
				}
			case 9:
				h.Bloom = r.Bytes(257)
			case 10:
				h.Nonce = r.Bytes(9)
			case 11: // short fields: BytesToHash / BytesToAddress left-pad
				h.MixDigest = nil
				h.Nonce = nil
				h.Bloom = nil
				tag = "struct-short-fields-valid"
			case 12:
				h.Difficulty = nil
				wrongDiff = -2
			case 13:
				h.Time = []uint64{0, ^uint64(0), head.Time - 100, head.Time}[r.Intn(4)]
				tag = "time-odd-valid"
			case 14:
				h.UncleHash = append([]byte{7}, emptyUncle[:]...) // 33 bytes, cropped to the empty-uncle hash
				tag = "struct-uncle-33-valid"
			default:
				h.MixDigest = make([]byte, 40)
				tag = "struct-mix-40-zero-valid"
			}
		}
	case sc < 960: // revision number chosen by the relayer (not covered by the hashes)
		pickEligible()
		tag = "other-revision"
		presign = func(h *bsctypes.Header) {
			h.Height.RevisionNumber = []uint64{0, 1, 2, 10, ^uint64(0)}[r.Intn(5)]
		}
	case sc < 975:
		pickEligible()
		tag = "bad-signature"
		postsign = func(h *bsctypes.Header) {
			if len(h.Extra) >= 65 {
				switch r.Intn(3) {
				case 0:
					h.Extra[len(h.Extra)-1] = byte(4 + r.Intn(200))
				case 1:
					copy(h.Extra[len(h.Extra)-65:], make([]byte, 65))
				default:
					copy(h.Extra[len(h.Extra)-65:], r.Bytes(64))
				}
			}
		}
	default: // one field changed after sealing
		pickEligible()
		f := r.Intn(17)
		tag = fmt.Sprintf("mutate-%d", f)
		flip := func(b []byte) []byte {
			if len(b) == 0 {
				return []byte{1}
			}
			c := append([]byte{}, b...)
			c[r.Intn(len(c))] ^= 1 << uint(r.Intn(8))
			return c
		}
		postsign = func(h *bsctypes.Header) {
			switch f {
			case 0:
				h.ParentHash = flip(h.ParentHash)
			case 1:
				h.UncleHash = flip(h.UncleHash)
			case 2:
				h.Coinbase = flip(h.Coinbase)
			case 3:
				h.Root = flip(h.Root)
			case 4:
				h.TxHash = flip(h.TxHash)
			case 5:
				h.ReceiptHash = flip(h.ReceiptHash)
			case 6:
				h.Bloom = flip(h.Bloom)
			case 7:
				h.Difficulty = flip(h.Difficulty)
			case 8:
				h.Height.RevisionHeight ^= 1 << uint(r.Intn(3))
			case 9:
				h.GasLimit ^= 1 << uint(r.Intn(10))
			case 10:
				h.GasUsed ^= 1 << uint(r.Intn(10))
			case 11:
				h.Time ^= 1 << uint(r.Intn(10))
			case 12:
				h.Extra[r.Intn(32)] ^= 1
			case 13:
				h.Extra[len(h.Extra)-65+r.Intn(64)] ^= 1
			case 14:
				h.MixDigest = flip(h.MixDigest)
			case 15:
				h.Nonce = flip(h.Nonce)
			default:
				if len(h.Extra) > 97 {
					h.Extra[32+r.Intn(len(h.Extra)-97)] ^= 1
				} else {
					h.Root = flip(h.Root)
				}
			}
		}
	}
	if !haveSigner { // nobody can seal (empty set, or all blocked): an outsider tries
		signer = g.addrs[r.Intn(len(g.addrs))]
		tag = "no-eligible-validator"
	}
	h.Coinbase = signer[:]
	d := uint64(1)
	if signer == inturnAddr && len(vals) > 0 {
		d = 2
	}
	h.Difficulty = diffBytes(d)
	switch wrongDiff {
	case 0:
		h.Difficulty = diffBytes(3 - d)
	case 1:
		h.Difficulty = diffBytes(3)
	case 2:
		h.Difficulty = nil
	case 3:
		h.Difficulty = new(big.Int).Lsh(big.NewInt(1), 64).Bytes() // Uint64() == 0
	case 4:
		h.Difficulty = new(big.Int).Add(new(big.Int).Lsh(big.NewInt(1), 64), big.NewInt(int64(d))).Bytes()
	case 5:
		h.Difficulty = append([]byte{0, 0}, diffBytes(d)...) // leading zeros: same number
		tag = "difficulty-leading-zeros-valid"
	}
	presign(&h)
	if wrongDiff == -2 {
		h.Difficulty = nil
	}
	seal(&h, g.byAddr[signer], sp.ChainID)
	postsign(&h)
	// block time of the carrying transaction
	*bt += sp.Interval
	if r.Chance(1, 400) {
		*bt += sp.Trust // the head expires
		tag += "+clock-jump"
	}
	g.tags[tag]++
	return Step{BT: *bt, H: fromProto(h), Tag: tag}
}

func minU(a, b uint64) uint64 {
	if a < b {
		return a
	}
	return b
}

func genCase(a *app.Teleport, base sdk.Context, r *hlib.Rand, id, maxSteps int, tags map[string]int) Result {
	g := &gen{r: r, tags: tags}
	g.genSpec(id)
	rn := newRunner(a, base, g.sp)
	g.rn = rn
	res := Result{Obs: []Obs{}}
	res.Create = rn.create()
	res.Oracle = append(res.Oracle, rn.oracle(rn.headers[0]))
	if res.Create.Class == 0 {
		n := 10 + r.Intn(maxSteps-9)
		bt := g.sp.Genesis.Time + 2
		rejectedInRow := 0
		for i := 0; i < n; i++ {
			st := g.genStep(&bt, i)
			g.sp.Steps = append(g.sp.Steps, st)
			o := rn.step(st)
			res.Obs = append(res.Obs, o)
			res.Oracle = append(res.Oracle, rn.oracle(rn.headers[len(rn.headers)-1]))
			if o.Class == 0 {
				rejectedInRow = 0
			} else {
				rejectedInRow++
				if rejectedInRow >= 6 { // stuck (expired client, empty validator set, ...)
					break
				}
			}
		}
	}
	res.Spec = *g.sp
	return res
}

// ---------------------------------------------------------------------------------------------
// corpus: the witnesses of the two repaired defects (KNOWN_FINDINGS.txt, "fixed:" entries), first in every run
// ---------------------------------------------------------------------------------------------

type scripted struct {
	who int    // index into the ascending validator list
	bt  uint64 // block time of the submission
}

func scriptCase(a *app.Teleport, base sdk.Context, id int, mode string, nvals int, epoch, gnum, trust uint64, script []scripted, tag string) Result {
	r := hlib.NewRand(uint64(7700 + id))
	g := &gen{r: r, tags: map[string]int{}}
	g.mkKeys(nvals)
	sorted := sortedAddrs(func() [][]byte {
		var v [][]byte
		for _, x := range g.addrs {
			v = append(v, append([]byte{}, x[:]...))
		}
		return v
	}())
	sp := &Spec{ID: id, Mode: mode, ChainID: 56, Epoch: epoch, Interval: 3, Trust: trust, Contract: "00"}
	for _, x := range sorted {
		sp.Vals = append(sp.Vals, hlib.Hex(x[:]))
	}
	gh := bsctypes.Header{
		ParentHash: make([]byte, 32), UncleHash: emptyUncle[:], Coinbase: sorted[0][:], Root: r.Bytes(32), TxHash: make([]byte, 32),
		ReceiptHash: make([]byte, 32), Bloom: make([]byte, 256), Difficulty: diffBytes(2), Height: clienttypes.NewHeight(0, gnum),
		GasLimit: 30000000, Time: 1000, Extra: mkExtra(r, sorted), MixDigest: make([]byte, 32), Nonce: make([]byte, 8),
	}
	seal(&gh, g.byAddr[sorted[0]], sp.ChainID)
	sp.Genesis = fromProto(gh)
	sp.ConsTime, sp.ConsRev, sp.ConsNum, sp.ConsRoot = gh.Time, 0, gnum, hlib.Hex(gh.Root)
	rn := newRunner(a, base, sp)
	res := Result{Obs: []Obs{}}
	res.Create = rn.create()
	res.Oracle = append(res.Oracle, rn.oracle(rn.headers[0]))
	for _, sc := range script {
		head := rn.clientState(rn.ctx).Header
		n := head.Height.RevisionHeight + 1
		ph := head.Hash()
		signer := sorted[sc.who]
		d := uint64(1)
		if sorted[n%uint64(len(sorted))] == signer {
			d = 2
		}
		h := bsctypes.Header{
			ParentHash: ph[:], UncleHash: emptyUncle[:], Coinbase: signer[:], Root: r.Bytes(32), TxHash: make([]byte, 32),
			ReceiptHash: make([]byte, 32), Bloom: make([]byte, 256), Difficulty: diffBytes(d), Height: clienttypes.NewHeight(0, n),
			GasLimit: 30000000, Time: head.Time + 3, Extra: mkExtra(r, nil), MixDigest: make([]byte, 32), Nonce: make([]byte, 8),
		}
		seal(&h, g.byAddr[signer], sp.ChainID)
		st := Step{BT: sc.bt, H: fromProto(h), Tag: tag}
		sp.Steps = append(sp.Steps, st)
		res.Obs = append(res.Obs, rn.step(st))
		res.Oracle = append(res.Oracle, rn.oracle(rn.headers[len(rn.headers)-1]))
	}
	res.Spec = *sp
	return res
}

// gasCorpus: created with gas limit 2^64-1; the first child carries limit 5000
func gasCorpus(a *app.Teleport, base sdk.Context, id int, mode string) Result {
	r := hlib.NewRand(uint64(7800 + id))
	g := &gen{r: r, tags: map[string]int{}}
	g.mkKeys(5)
	var raw [][]byte
	for _, x := range g.addrs {
		raw = append(raw, append([]byte{}, x[:]...))
	}
	sorted := sortedAddrs(raw)
	sp := &Spec{ID: id, Mode: mode, ChainID: 56, Epoch: 200, Interval: 3, Trust: 999999999, Contract: "00"}
	for _, x := range sorted {
		sp.Vals = append(sp.Vals, hlib.Hex(x[:]))
	}
	gh := bsctypes.Header{
		ParentHash: make([]byte, 32), UncleHash: emptyUncle[:], Coinbase: sorted[0][:], Root: r.Bytes(32), TxHash: make([]byte, 32),
		ReceiptHash: make([]byte, 32), Bloom: make([]byte, 256), Difficulty: diffBytes(2), Height: clienttypes.NewHeight(0, 1000),
		GasLimit: ^uint64(0), Time: 1000, Extra: mkExtra(r, sorted), MixDigest: make([]byte, 32), Nonce: make([]byte, 8),
	}
	seal(&gh, g.byAddr[sorted[0]], sp.ChainID)
	sp.Genesis = fromProto(gh)
	sp.ConsTime, sp.ConsRev, sp.ConsNum, sp.ConsRoot = gh.Time, 0, 1000, hlib.Hex(gh.Root)
	rn := newRunner(a, base, sp)
	res := Result{Obs: []Obs{}}
	res.Create = rn.create()
	res.Oracle = append(res.Oracle, rn.oracle(rn.headers[0]))
	ph := gh.Hash()
	signer := sorted[1]
	d := uint64(1)
	if sorted[1001%5] == signer {
		d = 2
	}
	h := bsctypes.Header{
		ParentHash: ph[:], UncleHash: emptyUncle[:], Coinbase: signer[:], Root: r.Bytes(32), TxHash: make([]byte, 32),
		ReceiptHash: make([]byte, 32), Bloom: make([]byte, 256), Difficulty: diffBytes(d), Height: clienttypes.NewHeight(0, 1001),
		GasLimit: 5000, Time: 1003, Extra: mkExtra(r, nil), MixDigest: make([]byte, 32), Nonce: make([]byte, 8),
	}
	seal(&h, g.byAddr[signer], sp.ChainID)
	st := Step{BT: 1010, H: fromProto(h), Tag: "corpus-gas-cast"}
	sp.Steps = append(sp.Steps, st)
	res.Obs = append(res.Obs, rn.step(st))
	res.Oracle = append(res.Oracle, rn.oracle(rn.headers[1]))
	res.Spec = *sp
	return res
}

// ---------------------------------------------------------------------------------------------
// directed cases: one submission per branch of the verification code, the validator-set switch with a shrinking
// and a growing set probed at the edges of the recent-signer window, heights and chain ids from 2^63 on
// ---------------------------------------------------------------------------------------------

type director struct {
	g      *gen
	rn     *runner
	sp     *Spec
	res    Result
	r      *hlib.Rand
	sorted []common.Address // all keys of the case, ascending
	bt     uint64
}

// newDirector creates a client whose validator list is sorted[:nvals]; the creation header announces
// sorted[i] for i in announce (nil: the same list) and is sealed by sorted[0]; mod may change spec and header
// before sealing.
func newDirector(a *app.Teleport, base sdk.Context, id int, mode string, nvals int, epoch, gnum, trust uint64, announce []int,
	mod func(*Spec, *bsctypes.Header)) *director {
	r := hlib.NewRand(uint64(8800 + id))
	g := &gen{r: r, tags: map[string]int{}}
	g.mkKeys(30)
	var raw [][]byte
	for _, x := range g.addrs {
		raw = append(raw, append([]byte{}, x[:]...))
	}
	d := &director{g: g, r: r, sorted: sortedAddrs(raw), bt: 1010}
	sp := &Spec{ID: id, Mode: mode, ChainID: 56, Epoch: epoch, Interval: 3, Trust: trust, Contract: "00"}
	for _, x := range d.sorted[:nvals] {
		sp.Vals = append(sp.Vals, hlib.Hex(x[:]))
	}
	gh := bsctypes.Header{
		ParentHash: make([]byte, 32), UncleHash: emptyUncle[:], Coinbase: d.sorted[0][:], Root: r.Bytes(32), TxHash: make([]byte, 32),
		ReceiptHash: make([]byte, 32), Bloom: make([]byte, 256), Difficulty: diffBytes(2), Height: clienttypes.NewHeight(0, gnum),
		GasLimit: 30000000, Time: 1000, Extra: mkExtra(r, d.pick(announce, d.sorted[:nvals])), MixDigest: make([]byte, 32), Nonce: make([]byte, 8),
	}
	if mod != nil {
		mod(sp, &gh)
	}
	seal(&gh, g.byAddr[d.sorted[0]], sp.ChainID)
	sp.Genesis = fromProto(gh)
	sp.ConsTime, sp.ConsRev, sp.ConsNum, sp.ConsRoot = gh.Time, 0, gh.Height.RevisionHeight, hlib.Hex(gh.Root)
	d.sp = sp
	d.rn = newRunner(a, base, sp)
	d.res = Result{Obs: []Obs{}}
	d.res.Create = d.rn.create()
	d.res.Oracle = append(d.res.Oracle, d.rn.oracle(d.rn.headers[0]))
	return d
}

func (d *director) pick(idx []int, dflt []common.Address) []common.Address {
	if idx == nil {
		return dflt
	}
	out := []common.Address{}
	for _, i := range idx {
		out = append(out, d.sorted[i])
	}
	return out
}

// submit builds the child of the REAL client's head sealed by sorted[who] with the difficulty of its turn;
// an epoch block announces sorted[announce...] (nil: the current list); pre runs before sealing, post after.
func (d *director) submit(who int, tag string, announce []int, pre, post func(*bsctypes.Header)) Obs {
	if d.res.Create.Class != 0 {
		return Obs{Class: 1}
	}
	cs := d.rn.clientState(d.rn.ctx)
	head := cs.Header
	n := head.Height.RevisionHeight + 1
	vals := sortedAddrs(cs.Validators)
	signer := d.sorted[who]
	df := uint64(1)
	if len(vals) > 0 && vals[n%uint64(len(vals))] == signer {
		df = 2
	}
	var ph common.Hash
	hlib.Catch(func() { ph = head.Hash() })
	var ann []common.Address
	if d.sp.Epoch != 0 && n%d.sp.Epoch == 0 {
		ann = d.pick(announce, vals)
	}
	h := bsctypes.Header{
		ParentHash: ph[:], UncleHash: append([]byte{}, emptyUncle[:]...), Coinbase: signer[:], Root: d.r.Bytes(32), TxHash: make([]byte, 32),
		ReceiptHash: make([]byte, 32), Bloom: make([]byte, 256), Difficulty: diffBytes(df), Height: clienttypes.NewHeight(head.Height.RevisionNumber, n),
		GasLimit: head.GasLimit, GasUsed: 21000, Time: head.Time + 3, Extra: mkExtra(d.r, ann), MixDigest: make([]byte, 32), Nonce: make([]byte, 8),
	}
	if pre != nil {
		pre(&h)
	}
	seal(&h, d.g.byAddr[signer], d.sp.ChainID)
	if post != nil {
		post(&h)
	}
	st := Step{BT: d.bt, H: fromProto(h), Tag: tag}
	d.sp.Steps = append(d.sp.Steps, st)
	o := d.rn.step(st)
	d.res.Obs = append(d.res.Obs, o)
	d.res.Oracle = append(d.res.Oracle, d.rn.oracle(d.rn.headers[len(d.rn.headers)-1]))
	return o
}

func (d *director) result() Result {
	d.res.Spec = *d.sp
	if d.res.Create.Class != 0 {
		d.res.Spec.Steps = nil
	}
	return d.res
}

// next free sealer: the lowest validator of the current list that the real client would accept now
func (d *director) free() int {
	cs := d.rn.clientState(d.rn.ctx)
	store := d.rn.a.XIBCKeeper.ClientKeeper.ClientStore(d.rn.ctx, chainName)
	vals := sortedAddrs(cs.Validators)
	n := cs.Header.Height.RevisionHeight + 1
	limit := uint64(len(vals)/2 + 1)
	recents, _ := bsctypes.GetRecentSigners(store)
	blocked := map[common.Address]bool{}
	for _, s := range recents {
		if n < limit || s.Height.RevisionHeight > n-limit {
			blocked[common.BytesToAddress(s.Validator)] = true
		}
	}
	for _, v := range vals {
		if !blocked[v] {
			for i, x := range d.sorted {
				if x == v {
					return i
				}
			}
		}
	}
	return 0
}

// tourCase: every rejection branch of ValidateBasic / verifyHeader / verifyCascadingFields / verifySeal once, valid
// blocks in between (7 validators, epoch 10, created at 1000)
func tourCase(a *app.Teleport, base sdk.Context, id int, mode string) Result {
	d := newDirector(a, base, id, mode, 7, 10, 1000, 999999999, nil, nil)
	ok := func() { d.submit(d.free(), "tour-valid", nil, nil, nil) }
	bad := func(tag string, pre func(*bsctypes.Header)) { d.submit(d.free(), tag, nil, pre, nil) }
	ok()
	bad("tour-bloom-257", func(h *bsctypes.Header) { h.Bloom = make([]byte, 257) })
	bad("tour-nonce-9", func(h *bsctypes.Header) { h.Nonce = make([]byte, 9) })
	bad("tour-extra-31", func(h *bsctypes.Header) { h.Extra = make([]byte, 31) })
	bad("tour-extra-0", func(h *bsctypes.Header) { h.Extra = nil })
	bad("tour-extra-96", func(h *bsctypes.Header) { h.Extra = make([]byte, 96) })
	bad("tour-extra-32", func(h *bsctypes.Header) { h.Extra = make([]byte, 32) })
	bad("tour-mix", func(h *bsctypes.Header) { h.MixDigest[31] = 1 })
	bad("tour-mix-33", func(h *bsctypes.Header) { h.MixDigest = append([]byte{1}, h.MixDigest...) }) // cropped: valid
	bad("tour-uncle", func(h *bsctypes.Header) { h.UncleHash[0] ^= 1 })
	bad("tour-difficulty-0", func(h *bsctypes.Header) { h.Difficulty = nil })
	bad("tour-difficulty-2^64", func(h *bsctypes.Header) { h.Difficulty = new(big.Int).Lsh(big.NewInt(1), 64).Bytes() })
	bad("tour-difficulty-2^64+d", func(h *bsctypes.Header) {
		h.Difficulty = new(big.Int).Add(new(big.Int).Lsh(big.NewInt(1), 64), new(big.Int).SetBytes(h.Difficulty)).Bytes()
	})
	bad("tour-extra-validators", func(h *bsctypes.Header) { h.Extra = mkExtra(d.r, d.sorted[:2]) })
	bad("tour-number+1", func(h *bsctypes.Header) { h.Height.RevisionHeight++ })
	bad("tour-number-1", func(h *bsctypes.Header) { h.Height.RevisionHeight-- })
	bad("tour-number-0", func(h *bsctypes.Header) { h.Height.RevisionHeight = 0 })
	bad("tour-parent-bit", func(h *bsctypes.Header) { h.ParentHash[7] ^= 4 })
	bad("tour-parent-33", func(h *bsctypes.Header) { h.ParentHash = append([]byte{9}, h.ParentHash...) }) // cropped: valid
	ok()
	bad("tour-gas-cap", func(h *bsctypes.Header) { h.GasLimit = 1 << 63 })
	bad("tour-gas-used", func(h *bsctypes.Header) { h.GasUsed = h.GasLimit + 1 })
	bad("tour-gas-bound-up", func(h *bsctypes.Header) { h.GasLimit += h.GasLimit / 256 })
	bad("tour-gas-bound-down", func(h *bsctypes.Header) { h.GasLimit -= h.GasLimit / 256 })
	bad("tour-gas-inside-up", func(h *bsctypes.Header) { h.GasLimit += h.GasLimit/256 - 1 })   // valid
	bad("tour-gas-inside-down", func(h *bsctypes.Header) { h.GasLimit -= h.GasLimit/256 - 1 }) // valid
	bad("tour-gas-min", func(h *bsctypes.Header) { h.GasLimit, h.GasUsed = 4999, 0 })
	d.submit(d.free(), "tour-seal-zero", nil, nil, func(h *bsctypes.Header) { copy(h.Extra[len(h.Extra)-65:], make([]byte, 65)) })
	d.submit(d.free(), "tour-seal-recid", nil, nil, func(h *bsctypes.Header) { h.Extra[len(h.Extra)-1] = 7 })
	d.submit(d.free(), "tour-seal-bitflip", nil, nil, func(h *bsctypes.Header) { h.Extra[len(h.Extra)-30] ^= 1 })
	bad("tour-coinbase", func(h *bsctypes.Header) { h.Coinbase = d.sorted[20][:] })
	d.submit(20, "tour-non-member", nil, nil, nil)
	// the recent-signer window (limit 4): whoever sealed one of the last three blocks is refused, the sealer of the
	// fourth-last is admitted
	cs := d.rn.clientState(d.rn.ctx)
	store := d.rn.a.XIBCKeeper.ClientKeeper.ClientStore(d.rn.ctx, chainName)
	recents, _ := bsctypes.GetRecentSigners(store)
	n := cs.Header.Height.RevisionHeight + 1
	for back := uint64(1); back <= 4; back++ {
		for _, s := range recents {
			if s.Height.RevisionHeight == n-back {
				for i, x := range d.sorted {
					if x == common.BytesToAddress(s.Validator) {
						d.submit(i, fmt.Sprintf("tour-sealer-of-n-%d", back), nil, nil, nil)
					}
				}
			}
		}
	}
	bad("tour-difficulty-swapped", func(h *bsctypes.Header) { h.Difficulty = diffBytes(3 - new(big.Int).SetBytes(h.Difficulty).Uint64()) })
	bad("tour-difficulty-3", func(h *bsctypes.Header) { h.Difficulty = diffBytes(3) })
	bad("tour-difficulty-leading-zero", func(h *bsctypes.Header) { h.Difficulty = append([]byte{0}, h.Difficulty...) }) // valid
	bad("tour-revision-5", func(h *bsctypes.Header) { h.Height.RevisionNumber = 5 })                                    // valid: not covered by the hashes
	// up to the epoch block 1010 and its faults
	for k := 0; k < 12 && d.rn.clientState(d.rn.ctx).Header.Height.RevisionHeight < 1009; k++ {
		ok()
	}
	bad("tour-epoch-not-x20", func(h *bsctypes.Header) { h.Extra = append(h.Extra[:40], h.Extra[41:]...) })
	bad("tour-epoch-97", func(h *bsctypes.Header) { h.Extra = mkExtra(d.r, nil) }) // valid: announces the empty set
	return d.result()
}

// switchCase: 7 validators, epoch 10, created at 1000.  1010 announces three of them: they come into force at 1013
// (shrink, limit 4 -> 2); 1020 announces nine: in force at 1021 (3/2 = 1; grow, limit 2 -> 5).  Around both switches
// the sealers at the edges of the window, members of the old / new list only, and the blocks next to the offset.
func switchCase(a *app.Teleport, base sdk.Context, id int, mode string) Result {
	d := newDirector(a, base, id, mode, 7, 10, 1000, 999999999, nil, nil)
	small := []int{1, 3, 5}
	big9 := []int{0, 1, 2, 3, 4, 5, 6, 7, 8}
	seq := []int{1, 2, 3, 4, 5, 6, 0, 1, 2} // 1001..1009
	for _, w := range seq {
		d.submit(w, "switch-valid", nil, nil, nil)
	}
	d.submit(3, "switch-epoch-announces-3", small, nil, nil)  // 1010
	d.submit(7, "switch-new-member-too-early", nil, nil, nil) // 1011 by a validator of neither list
	d.submit(4, "switch-valid", nil, nil, nil)                // 1011
	d.submit(5, "switch-valid", nil, nil, nil)                // 1012
	d.submit(6, "switch-old-member-at-offset", nil, nil, nil) // 1013: still verified against the old list; the three come into force
	d.submit(6, "switch-old-member-after", nil, nil, nil)     // 1014: 6 is no longer a validator
	d.submit(5, "switch-shrunk-window-n-2", nil, nil, nil)    // 1014: 5 sealed 1012, which left the window of the limit 2
	d.submit(5, "switch-shrunk-window-n-1", nil, nil, nil)    // 1015: 5 sealed 1014
	d.submit(3, "switch-shrunk-window-old-entry", nil, nil, nil)
	d.submit(1, "switch-valid", nil, nil, nil)
	for k := 0; k < 12 && d.rn.clientState(d.rn.ctx).Header.Height.RevisionHeight < 1019; k++ {
		d.submit(d.free(), "switch-valid", nil, nil, nil)
	}
	d.submit(d.free(), "switch-epoch-announces-9", big9, nil, nil) // 1020
	d.submit(8, "switch-new-member-at-offset", nil, nil, nil)      // 1021: still the three
	d.submit(d.free(), "switch-valid", nil, nil, nil)              // 1021: the nine come into force
	d.submit(8, "switch-new-member-after", nil, nil, nil)          // 1022
	// the window after the growth: the sealers of the last blocks are refused as far as their entries were kept
	cs := d.rn.clientState(d.rn.ctx)
	store := d.rn.a.XIBCKeeper.ClientKeeper.ClientStore(d.rn.ctx, chainName)
	recents, _ := bsctypes.GetRecentSigners(store)
	n := cs.Header.Height.RevisionHeight + 1
	for back := uint64(1); back <= 5; back++ {
		for _, s := range recents {
			if s.Height.RevisionHeight == n-back {
				for i, x := range d.sorted {
					if x == common.BytesToAddress(s.Validator) {
						d.submit(i, fmt.Sprintf("switch-grown-window-n-%d", back), nil, nil, nil)
					}
				}
			}
		}
	}
	for k := 0; k < 8; k++ {
		d.submit(d.free(), "switch-valid", nil, nil, nil)
	}
	return d.result()
}

// edgeCases: a head whose Hash() panics (created with a 257-byte bloom), heights from 2^63 on (the block hash is
// keccak256("") there), a chain id above 2^63, creation at height 0 with epoch 1 (every block is an epoch block)
func edgeCases(a *app.Teleport, base sdk.Context, id int, emit func(Result)) {
	d := newDirector(a, base, id, "raw", 5, 200, 1000, 999999999, nil, func(sp *Spec, h *bsctypes.Header) { h.Bloom = make([]byte, 257) })
	d.submit(1, "edge-bloom-head-valid-number", nil, nil, nil)
	d.submit(1, "edge-bloom-head-bad-number", nil, func(h *bsctypes.Header) { h.Height.RevisionHeight += 5 }, nil)
	d.submit(1, "edge-bloom-head-number-max", nil, func(h *bsctypes.Header) { h.Height.RevisionHeight = ^uint64(0) }, nil)
	emit(d.result())
	for i, mode := range []string{"raw", "keeper"} {
		d = newDirector(a, base, id+1+i, mode, 5, 4, 1<<63-4, 999999999, nil, nil)
		for k := 0; k < 8; k++ {
			d.submit(d.free(), "edge-height-2^63", nil, nil, nil)
		}
		d.submit(d.free(), "edge-height-2^63-parent-random", nil, func(h *bsctypes.Header) { h.ParentHash = d.r.Bytes(32) }, nil)
		emit(d.result())
	}
	d = newDirector(a, base, id+3, "keeper", 4, 3, 999, 999999999, nil, func(sp *Spec, h *bsctypes.Header) { sp.ChainID = 1<<63 + 5 })
	for k := 0; k < 6; k++ {
		d.submit(d.free(), "edge-chain-id-2^63", nil, nil, nil)
	}
	emit(d.result())
	d = newDirector(a, base, id+4, "raw", 3, 1, 0, 999999999, []int{0, 1, 2, 3}, nil)
	for k := 0; k < 6; k++ {
		d.submit(d.free(), "edge-epoch-1", []int{k % 4, (k + 1) % 4, 4}, nil, nil)
	}
	emit(d.result())
}

// sweepCase (thorough tier): a validators, the first epoch header announces b (sorted[2..2+b)), the second c
// (sorted[0..c)); epoch 16, created at 1600.  From each epoch block until three blocks after the switch every
// sealer of the last blocks (as far back as the larger of the two limits + 1) is tried before a valid block is added:
// the edges of the window across a shrinking / growing set for every pair of sizes.
func sweepCase(a *app.Teleport, base sdk.Context, id int, mode string, na, nb, nc int) Result {
	d := newDirector(a, base, id, mode, na, 16, 1600, 999999999, nil, nil)
	type acc struct {
		num uint64
		who int
	}
	chain := []acc{{1600, 0}}
	head := func() uint64 { return d.rn.clientState(d.rn.ctx).Header.Height.RevisionHeight }
	rng := func(lo, n int) []int {
		out := []int{}
		for i := 0; i < n; i++ {
			out = append(out, lo+i)
		}
		return out
	}
	valid := func(tag string, announce []int) {
		w := d.free()
		if o := d.submit(w, tag, announce, nil, nil); o.Class == 0 {
			chain = append(chain, acc{head(), w})
		}
	}
	probe := func(depth int) {
		n := head() + 1
		for back := 1; back <= depth; back++ {
			for _, c := range chain {
				if c.num+uint64(back) == n {
					if o := d.submit(c.who, fmt.Sprintf("sweep-sealer-of-n-%d", back), nil, nil, nil); o.Class == 0 {
						chain = append(chain, acc{head(), c.who})
						return
					}
				}
			}
		}
	}
	limit := func(n int) int { return n/2 + 1 }
	phase := func(from, to int, announce []int, tag string) {
		for k := 0; k < 20 && head()%16 != 15; k++ {
			valid("sweep-valid", nil)
		}
		valid(tag, announce) // the epoch block
		depth := limit(from)
		if limit(to) > depth {
			depth = limit(to)
		}
		for k := 0; k < from/2+4; k++ {
			probe(depth + 1)
			valid("sweep-valid", nil)
		}
	}
	phase(na, nb, rng(2, nb), "sweep-epoch-1")
	phase(nb, nc, rng(0, nc), "sweep-epoch-2")
	return d.result()
}

// churnCase: the smallest epochs (2 and 3), a new list of another size announced by EVERY epoch header, so that
// switches follow each other directly (with epoch 2 a shrink at an odd block can be followed by a growth at the next,
// itself an epoch block); before every valid block the sealers of the last five blocks are tried.
func churnCase(a *app.Teleport, base sdk.Context, id int, mode string, epoch uint64, sizes []int) Result {
	d := newDirector(a, base, id, mode, sizes[0], epoch, 1200, 999999999, nil, nil)
	type acc struct {
		num uint64
		who int
	}
	chain := []acc{{1200, 0}}
	head := func() uint64 { return d.rn.clientState(d.rn.ctx).Header.Height.RevisionHeight }
	k := 0
	for step := 0; step < 26; step++ {
		n := head() + 1
		var announce []int
		if n%epoch == 0 { // whoever seals the epoch block announces the next list
			k++
			sz := sizes[k%len(sizes)]
			for i := 0; i < sz; i++ { // nested lists: earlier sealers stay members when the list grows again
				announce = append(announce, i)
			}
		}
		tried := map[int]bool{}
		for back := 1; back <= 5; back++ {
			for _, c := range chain {
				if c.num+uint64(back) == n && !tried[c.who] && head()+1 == n {
					tried[c.who] = true
					if o := d.submit(c.who, fmt.Sprintf("churn-sealer-of-n-%d", back), announce, nil, nil); o.Class == 0 {
						chain = append(chain, acc{head(), c.who})
					}
				}
			}
		}
		if head()+1 != n {
			continue
		}
		w := d.free()
		if o := d.submit(w, "churn-valid", announce, nil, nil); o.Class == 0 {
			chain = append(chain, acc{head(), w})
		}
	}
	return d.result()
}

func sweep(a *app.Teleport, base sdk.Context, emit func(Result)) {
	sizes := []int{1, 2, 3, 4, 5, 7, 9}
	id := 910000
	for _, na := range sizes {
		for _, nb := range sizes {
			mode := "raw"
			if (na+nb)%3 == 0 {
				mode = "keeper"
			}
			emit(sweepCase(a, base, id, mode, na, nb, na))
			id++
		}
	}
}

func corpus(a *app.Teleport, base sdk.Context, emit func(Result)) {
	emit(gasCorpus(a, base, 900100, "raw"))
	emit(tourCase(a, base, 900200, "raw"))
	emit(tourCase(a, base, 900201, "keeper"))
	emit(switchCase(a, base, 900210, "raw"))
	emit(switchCase(a, base, 900211, "keeper"))
	edgeCases(a, base, 900220, emit)
	// (a list with len/2 >= epoch can never be replaced: the switch offset is never reached — sizes stay below)
	emit(churnCase(a, base, 900230, "raw", 2, []int{3, 1, 2, 3, 1, 3, 2}))
	emit(churnCase(a, base, 900231, "keeper", 3, []int{5, 1, 4, 2, 5, 1, 5}))
	emit(churnCase(a, base, 900232, "raw", 4, []int{7, 1, 5, 2, 6, 1, 7}))
	id := 900000
	for _, mode := range []string{"raw", "keeper"} {
		// number < limit: validator 1 seals block 1 and tries block 2 (and 3); 12 validators: blocks 1, 4, 5
		emit(scriptCase(a, base, id, mode, 5, 200, 0, 999999999, []scripted{{1, 1010}, {1, 1010}, {2, 1010}, {1, 1010}, {3, 1010}, {1, 1010}}, "corpus-wrap"))
		emit(scriptCase(a, base, id+1, mode, 12, 20, 0, 999999999, []scripted{{1, 1010}, {2, 1010}, {3, 1010}, {1, 1010}, {4, 1010}, {1, 1010}, {4, 1010}}, "corpus-wrap"))
		// the consensus state of the creation height expires and is pruned while that height is inside the window
		emit(scriptCase(a, base, id+2, mode, 7, 200, 1000, 12, []scripted{{1, 1010}, {2, 1014}, {0, 1014}, {3, 1014}, {0, 1020}}, "corpus-prune"))
		id += 3
	}
}

// ---------------------------------------------------------------------------------------------
// recorded main-net fixture of the package's testdata
// ---------------------------------------------------------------------------------------------

func fixtureSpec(repo string) Spec {
	dir := repo + "/x/xibc/clients/light-clients/bsc/types/testdata/"
	var gs struct {
		GenesisHeader          *bsctypes.BscHeader `json:"genesis_header"`
		GenesisValidatorHeader *bsctypes.BscHeader `json:"genesis_validator_header"`
	}
	bz, err := ioutil.ReadFile(dir + "genesis_state.json")
	if err != nil {
		panic(err)
	}
	if err := json.Unmarshal(bz, &gs); err != nil {
		panic(err)
	}
	var ups []*bsctypes.BscHeader
	bz, err = ioutil.ReadFile(dir + "update_headers.json")
	if err != nil {
		panic(err)
	}
	if err := json.Unmarshal(bz, &ups); err != nil {
		panic(err)
	}
	gh := gs.GenesisHeader.ToHeader()
	vals, err := bsctypes.ParseValidators(gs.GenesisValidatorHeader.Extra)
	if err != nil {
		panic(err)
	}
	sp := Spec{ID: 0, Mode: "keeper", ChainID: 56, Epoch: 200, Interval: 3, Trust: 999999999, Contract: "30783030",
		Genesis: fromProto(gh), ConsTime: gh.Time, ConsRev: 0, ConsNum: gh.Height.RevisionHeight, ConsRoot: hlib.Hex(gh.Root)}
	for _, v := range vals {
		sp.Vals = append(sp.Vals, hlib.Hex(v))
	}
	for _, u := range ups {
		sp.Steps = append(sp.Steps, Step{BT: gh.Time + 10, H: fromProto(u.ToHeader()), Tag: "mainnet-fixture"})
	}
	return sp
}

func main() {
	seed := flag.Uint64("seed", 1, "PRNG seed")
	n := flag.Int("n", 20, "number of generated chains")
	steps := flag.Int("steps", 60, "maximal number of submissions per chain")
	in := flag.String("in", "", "replay: file of specs (JSON lines) instead of generating")
	fixture := flag.String("fixture", "", "replay the recorded main-net fixture of <repo>/x/xibc/clients/light-clients/bsc/types/testdata")
	doSweep := flag.Bool("sweep", false, "emit the set-size sweep (thorough tier) instead of generating")
	out := flag.String("out", "/dev/stdout", "output file (JSON lines)")
	flag.Parse()

	a := app.Setup(false, nil)
	base := a.BaseApp.NewContext(false, tmproto.Header{Height: 1, ChainID: "teleport_9000-1", Time: time.Unix(1600000000, 0)})
	o := hlib.NewOut(*out)
	defer o.Close()
	switch {
	case *doSweep:
		sweep(a, base, func(r Result) { o.Emit(r) })
	case *fixture != "":
		o.Emit(runSpec(a, base, fixtureSpec(*fixture)))
	case *in != "":
		hlib.ReadLines(*in, func(line []byte) {
			var sp Spec
			if err := json.Unmarshal(line, &sp); err != nil {
				panic(err)
			}
			o.Emit(runSpec(a, base, sp))
		})
	default:
		root := hlib.NewRand(*seed)
		tags := map[string]int{}
		corpus(a, base, func(r Result) { o.Emit(r) })
		for i := 0; i < *n; i++ {
			o.Emit(genCase(a, base, root.Fork(uint64(i)), i, *steps, tags))
		}
		bz, _ := json.Marshal(tags)
		fmt.Fprintln(os.Stderr, "tags", string(bz))
	}
}
