(** Format terms for store keys (library, no repository content).

    A key builder of the Go code ([fmt.Sprintf] with [%s]/[%d], [append] of
    byte slices, [sdk.Uint64ToBigEndian] ...) is represented by a list of
    [item]s; the translator tools/gotocoq/keys regenerates one such term per
    Go key function (Gen/KeysGen.v).  This file gives

    - [render f a]   : the bytes the Go function returns for arguments [a];
    - [parse f k]    : the canonical parser of the format;
    - [wf f]         : a decidable well-formedness condition;
    - [parse_render] : [wf f = true -> valid f a = true -> parse f (render f a) = Some (binds f a)];
    - [render_inj]   : hence [render f] is injective on valid arguments;
    - [apart f g]    : a decidable criterion under which NO key of [f] equals a
                       key of [g] ([apart_sound]), and [heads_apart], under
                       which no key of one format is even a prefix of a key of
                       the other (prefix iterators never see the other family);
    - big-endian byte strings of a fixed width ([be_bytes], [be_val]) and the
      decimal rendering of Go's [%d] ([dec]), with their round trips; Go's
      [strings.Split] on one separator byte ([split_on]). *)
From Coq Require Import DecimalN.
From Teleport Require Import Base.Bytes.
Local Open Scope N_scope.

(** * Bytes and numbers *)

Definition byte_of_N (n : N) : byte :=
  match Byte.of_N (n mod 256) with Some b => b | None => x00 end.

Lemma byte_of_N_to_N n : Byte.to_N (byte_of_N n) = n mod 256.
Proof.
  unfold byte_of_N. destruct (Byte.of_N (n mod 256)) eqn:E.
  - apply Byte.to_of_N in E. exact E.
  - apply Byte.of_N_None_iff in E. pose proof (N.mod_upper_bound n 256). lia.
Qed.

Lemma byte_of_to_N b : byte_of_N (Byte.to_N b) = b.
Proof.
  unfold byte_of_N. pose proof (Byte.to_N_bounded b).
  rewrite N.mod_small by lia. rewrite Byte.of_to_N. reflexivity.
Qed.

(** little-endian, [k] bytes *)
Fixpoint le_bytes (k : nat) (n : N) : bytes :=
  match k with O => [] | S k' => byte_of_N n :: le_bytes k' (n / 256) end.

Fixpoint le_val (l : bytes) : N :=
  match l with [] => 0 | b :: r => Byte.to_N b + 256 * le_val r end.

Lemma le_bytes_length k n : length (le_bytes k n) = k.
Proof. revert n; induction k; intros; cbn; [reflexivity | f_equal; apply IHk]. Qed.

Lemma le_val_bytes k n : le_val (le_bytes k n) = n mod 256 ^ N.of_nat k.
Proof.
  revert n; induction k as [|k IH]; intros n.
  - cbn. rewrite N.mod_1_r. reflexivity.
  - cbn [le_bytes le_val]. rewrite byte_of_N_to_N, IH.
    rewrite Nnat.Nat2N.inj_succ, N.pow_succ_r'.
    rewrite N.mod_mul_r by (try apply N.pow_nonzero; lia). reflexivity.
Qed.

Lemma le_val_bound l : le_val l < 256 ^ N.of_nat (length l).
Proof.
  induction l as [|b r IH].
  - cbn. lia.
  - cbn [le_val length]. rewrite Nnat.Nat2N.inj_succ, N.pow_succ_r'.
    pose proof (Byte.to_N_bounded b). lia.
Qed.

Lemma le_bytes_val l : le_bytes (length l) (le_val l) = l.
Proof.
  induction l as [|b r IH]; [reflexivity|].
  cbn [length le_val le_bytes]. pose proof (Byte.to_N_bounded b). f_equal.
  - unfold byte_of_N. rewrite (N.mul_comm 256), N.mod_add by lia.
    rewrite N.mod_small by lia. rewrite Byte.of_to_N. reflexivity.
  - rewrite (N.mul_comm 256), N.div_add by lia.
    rewrite N.div_small by lia. rewrite N.add_0_l. exact IH.
Qed.

(** big-endian, [k] bytes: Go [binary.BigEndian.PutUint64] for [k = 8], the
    32-byte ABI word for [k = 32] *)
Definition be_bytes (k : nat) (n : N) : bytes := rev (le_bytes k n).
Definition be_val (l : bytes) : N := le_val (rev l).

Lemma be_bytes_length k n : length (be_bytes k n) = k.
Proof. unfold be_bytes. rewrite rev_length. apply le_bytes_length. Qed.

Lemma be_val_bytes k n : be_val (be_bytes k n) = n mod 256 ^ N.of_nat k.
Proof. unfold be_val, be_bytes. rewrite rev_involutive. apply le_val_bytes. Qed.

Lemma be_val_bytes_small k n : n < 256 ^ N.of_nat k -> be_val (be_bytes k n) = n.
Proof. intro H. rewrite be_val_bytes. apply N.mod_small. exact H. Qed.

Lemma be_bytes_val l : be_bytes (length l) (be_val l) = l.
Proof.
  unfold be_bytes, be_val. rewrite <- (rev_length l), le_bytes_val. apply rev_involutive.
Qed.

Lemma be_val_bound l : be_val l < 256 ^ N.of_nat (length l).
Proof. unfold be_val. rewrite <- (rev_length l). apply le_val_bound. Qed.

Lemma be_bytes_inj k a b : a < 256 ^ N.of_nat k -> b < 256 ^ N.of_nat k -> be_bytes k a = be_bytes k b -> a = b.
Proof.
  intros Ha Hb E. rewrite <- (be_val_bytes_small k a Ha), <- (be_val_bytes_small k b Hb), E. reflexivity.
Qed.

Definition two64 : N := 18446744073709551616.
Lemma two64_eq : two64 = 256 ^ N.of_nat 8. Proof. reflexivity. Qed.

(** * Decimal rendering (Go [%d] / [strconv.FormatUint(n, 10)]) *)

Fixpoint uint_bytes (u : Decimal.uint) : bytes :=
  match u with
  | Decimal.Nil => []
  | Decimal.D0 r => x30 :: uint_bytes r | Decimal.D1 r => x31 :: uint_bytes r
  | Decimal.D2 r => x32 :: uint_bytes r | Decimal.D3 r => x33 :: uint_bytes r
  | Decimal.D4 r => x34 :: uint_bytes r | Decimal.D5 r => x35 :: uint_bytes r
  | Decimal.D6 r => x36 :: uint_bytes r | Decimal.D7 r => x37 :: uint_bytes r
  | Decimal.D8 r => x38 :: uint_bytes r | Decimal.D9 r => x39 :: uint_bytes r
  end.

Fixpoint bytes_uint (l : bytes) : option Decimal.uint :=
  match l with
  | [] => Some Decimal.Nil
  | c :: r =>
      match bytes_uint r with
      | None => None
      | Some u =>
          match c with
          | x30 => Some (Decimal.D0 u) | x31 => Some (Decimal.D1 u) | x32 => Some (Decimal.D2 u)
          | x33 => Some (Decimal.D3 u) | x34 => Some (Decimal.D4 u) | x35 => Some (Decimal.D5 u)
          | x36 => Some (Decimal.D6 u) | x37 => Some (Decimal.D7 u) | x38 => Some (Decimal.D8 u)
          | x39 => Some (Decimal.D9 u)
          | _ => None
          end
      end
  end.

Definition is_digit (b : byte) : bool :=
  match b with
  | x30 | x31 | x32 | x33 | x34 | x35 | x36 | x37 | x38 | x39 => true
  | _ => false
  end.

Definition dec (n : N) : bytes := uint_bytes (N.to_uint n).

Lemma bytes_uint_bytes u : bytes_uint (uint_bytes u) = Some u.
Proof. induction u; cbn; try rewrite IHu; reflexivity. Qed.

Lemma uint_bytes_digits u : forallb is_digit (uint_bytes u) = true.
Proof. induction u; cbn; auto. Qed.

Lemma dec_digits n : forallb is_digit (dec n) = true.
Proof. apply uint_bytes_digits. Qed.

Lemma dec_nonempty n : dec n <> [].
Proof.
  unfold dec. intro E.
  assert (U : N.to_uint n = Decimal.Nil) by (destruct (N.to_uint n); cbn in E; congruence).
  assert (Z : n = 0) by (rewrite <- (Unsigned.of_to n), U; reflexivity).
  subst n. cbn in U. discriminate.
Qed.

Lemma dec_inj a b : dec a = dec b -> a = b.
Proof.
  unfold dec. intro E.
  assert (U : Some (N.to_uint a) = Some (N.to_uint b)) by (rewrite <- !bytes_uint_bytes, E; reflexivity).
  inversion U as [U']. rewrite <- (Unsigned.of_to a), <- (Unsigned.of_to b), U'. reflexivity.
Qed.

(** * Scanning *)

Fixpoint span (p : byte -> bool) (l : bytes) : bytes * bytes :=
  match l with
  | [] => ([], [])
  | x :: r => if p x then (x :: fst (span p r), snd (span p r)) else ([], l)
  end.

Definition stops (p : byte -> bool) (r : bytes) : bool :=
  match r with [] => true | x :: _ => negb (p x) end.

Lemma span_app p a r : forallb p a = true -> stops p r = true -> span p (a ++ r) = (a, r).
Proof.
  induction a as [|x a IH]; cbn; intros Ha Hr.
  - destruct r as [|y r]; [reflexivity|]. cbn in Hr. cbn. destruct (p y); [discriminate|reflexivity].
  - apply andb_true_iff in Ha as [Hx Ha]. rewrite Hx, (IH Ha Hr). reflexivity.
Qed.

Lemma span_eq p l : fst (span p l) ++ snd (span p l) = l.
Proof. induction l as [|x l IH]; cbn; [reflexivity|]. destruct (p x); cbn; [f_equal; exact IH | reflexivity]. Qed.

Fixpoint strip (p l : bytes) : option bytes :=
  match p, l with
  | [], _ => Some l
  | x :: p', y :: l' => if Byte.eqb x y then strip p' l' else None
  | _ :: _, [] => None
  end.

Lemma byte_eqb_refl x : Byte.eqb x x = true.
Proof. apply byte_dec_lb. reflexivity. Qed.

Lemma byte_eqb_eq x y : Byte.eqb x y = true <-> x = y.
Proof. split; [apply byte_dec_bl | intros ->; apply byte_eqb_refl]. Qed.

Lemma strip_app p r : strip p (p ++ r) = Some r.
Proof. induction p as [|x p IH]; cbn; [reflexivity|]. rewrite byte_eqb_refl. exact IH. Qed.

Lemma strip_some p l r : strip p l = Some r -> l = p ++ r.
Proof.
  revert l; induction p as [|x p IH]; intros l; cbn.
  - intros [= ->]. reflexivity.
  - destruct l as [|y l]; [discriminate|]. destruct (Byte.eqb x y) eqn:E; [|discriminate].
    apply byte_eqb_eq in E. subst y. intro H. apply IH in H. subst l. reflexivity.
Qed.

Definition take_n (n : nat) (l : bytes) : option (bytes * bytes) :=
  if Nat.leb n (length l) then Some (firstn n l, skipn n l) else None.

Lemma take_n_app a r : take_n (length a) (a ++ r) = Some (a, r).
Proof.
  unfold take_n. rewrite app_length.
  replace (Nat.leb (length a) (length a + length r)) with true by (symmetry; apply Nat.leb_le; lia).
  rewrite firstn_app, Nat.sub_diag, firstn_all, skipn_app, Nat.sub_diag, skipn_all. cbn. rewrite app_nil_r. reflexivity.
Qed.

(** * Hexadecimal (go-ethereum [common.Hash] under [%s]: "0x" + lower-case hex) *)

Definition hexdigit (n : N) : byte :=
  match n with
  | 0 => x30 | 1 => x31 | 2 => x32 | 3 => x33 | 4 => x34 | 5 => x35 | 6 => x36 | 7 => x37
  | 8 => x38 | 9 => x39 | 10 => x61 | 11 => x62 | 12 => x63 | 13 => x64 | 14 => x65 | _ => x66
  end.

Definition unhexdigit (b : byte) : option N :=
  match b with
  | x30 => Some 0 | x31 => Some 1 | x32 => Some 2 | x33 => Some 3 | x34 => Some 4 | x35 => Some 5
  | x36 => Some 6 | x37 => Some 7 | x38 => Some 8 | x39 => Some 9 | x61 => Some 10 | x62 => Some 11
  | x63 => Some 12 | x64 => Some 13 | x65 => Some 14 | x66 => Some 15
  | _ => None
  end.

Fixpoint hex (l : bytes) : bytes :=
  match l with
  | [] => []
  | b :: r => hexdigit (Byte.to_N b / 16) :: hexdigit (Byte.to_N b mod 16) :: hex r
  end.

Fixpoint unhex (l : bytes) : option bytes :=
  match l with
  | [] => Some []
  | h :: lo :: r =>
      match unhexdigit h, unhexdigit lo, unhex r with
      | Some a, Some b, Some t => Some (byte_of_N (16 * a + b) :: t)
      | _, _, _ => None
      end
  | _ => None
  end.

Lemma unhex_byte b :
  unhexdigit (hexdigit (Byte.to_N b / 16)) = Some (Byte.to_N b / 16) /\
  unhexdigit (hexdigit (Byte.to_N b mod 16)) = Some (Byte.to_N b mod 16).
Proof. destruct b; split; reflexivity. Qed.

Lemma unhex_hex l : unhex (hex l) = Some l.
Proof.
  induction l as [|b r IH]; [reflexivity|].
  cbn [hex unhex]. destruct (unhex_byte b) as [H1 H2]. rewrite H1, H2, IH.
  do 2 f_equal. rewrite <- (byte_of_to_N b) at 3. f_equal.
  pose proof (N.div_mod (Byte.to_N b) 16). lia.
Qed.

Lemma hex_length l : length (hex l) = (2 * length l)%nat.
Proof. induction l; cbn; [reflexivity|]. rewrite IHl. lia. Qed.

(** * Format terms *)

Inductive item :=
| Lit (s : bytes)        (* literal text *)
| Sep                    (* the separator "/" *)
| Str (i : nat)          (* argument i, a string without separator (chain name) *)
| Dec (i : nat)          (* argument i, a uint64 printed by %d *)
| BE64 (i : nat)         (* argument i, a uint64 as 8 big-endian bytes *)
| Hex32 (i : nat)        (* argument i, a 32-byte hash printed by %s: 0x + 64 hex digits *)
| Raw (i : nat).         (* argument i, arbitrary bytes (only as the last item) *)

Definition fmt := list item.

Inductive val := VS (s : bytes) | VN (n : N).
Definition args := list val.

Definition sep : byte := x2f.
Definition is_sep (b : byte) : bool := Byte.eqb b sep.
Definition not_sep (b : byte) : bool := negb (is_sep b).
Definition no_sep (s : bytes) : bool := forallb not_sep s.

Definition get_s (a : args) (i : nat) : bytes := match nth_error a i with Some (VS s) => s | _ => [] end.
Definition get_n (a : args) (i : nat) : N := match nth_error a i with Some (VN n) => n | _ => 0 end.

Definition render_item (a : args) (it : item) : bytes :=
  match it with
  | Lit s => s
  | Sep => [sep]
  | Str i => get_s a i
  | Dec i => dec (get_n a i)
  | BE64 i => be_bytes 8 (get_n a i)
  | Hex32 i => x30 :: x78 :: hex (get_s a i)
  | Raw i => get_s a i
  end.

Fixpoint render (f : fmt) (a : args) : bytes :=
  match f with [] => [] | it :: f' => render_item a it ++ render f' a end.

Lemma render_app f g a : render (f ++ g) a = render f a ++ render g a.
Proof. induction f as [|it f IH]; cbn; [reflexivity|]. rewrite IH, app_assoc. reflexivity. Qed.

(** arguments acceptable for an item: right type; strings free of the separator,
    numbers in the uint64 range, hashes 32 bytes long *)
Definition item_ok (a : args) (it : item) : bool :=
  match it with
  | Lit _ | Sep => true
  | Str i => match nth_error a i with Some (VS s) => no_sep s | _ => false end
  | Dec i | BE64 i => match nth_error a i with Some (VN n) => n <? two64 | _ => false end
  | Hex32 i => match nth_error a i with Some (VS s) => Nat.eqb (length s) 32 | _ => false end
  | Raw i => match nth_error a i with Some (VS _) => true | _ => false end
  end.

Definition valid (f : fmt) (a : args) : bool := forallb (item_ok a) f.

Definition bind1 (a : args) (i : nat) : list (nat * val) :=
  match nth_error a i with Some v => [(i, v)] | None => [] end.

Definition item_binds (a : args) (it : item) : list (nat * val) :=
  match it with
  | Lit _ | Sep => []
  | Str i | Dec i | BE64 i | Hex32 i | Raw i => bind1 a i
  end.

Definition binds (f : fmt) (a : args) : list (nat * val) := flat_map (item_binds a) f.

(** ** Canonical parser *)

Definition parse_dec (l : bytes) : option (N * bytes) :=
  let ds := fst (span is_digit l) in
  match bytes_uint ds with
  | Some u => let v := N.of_uint u in
              if bytes_eqb (dec v) ds && (v <? two64) then Some (v, snd (span is_digit l)) else None
  | None => None
  end.

Definition parse_hex32 (l : bytes) : option (bytes * bytes) :=
  match l with
  | x30 :: x78 :: l' =>
      match take_n 64 l' with
      | Some (h, r) => match unhex h with Some s => Some (s, r) | None => None end
      | None => None
      end
  | _ => None
  end.

Definition pcons (b : nat * val) (r : option (list (nat * val))) : option (list (nat * val)) :=
  match r with Some l => Some (b :: l) | None => None end.

Fixpoint parse (f : fmt) (l : bytes) : option (list (nat * val)) :=
  match f with
  | [] => match l with [] => Some [] | _ => None end
  | it :: f' =>
      match it with
      | Lit s => match strip s l with Some r => parse f' r | None => None end
      | Sep => match l with c :: r => if is_sep c then parse f' r else None | [] => None end
      | Str i => pcons (i, VS (fst (span not_sep l))) (parse f' (snd (span not_sep l)))
      | Dec i => match parse_dec l with Some (v, r) => pcons (i, VN v) (parse f' r) | None => None end
      | BE64 i => match take_n 8 l with Some (h, r) => pcons (i, VN (be_val h)) (parse f' r) | None => None end
      | Hex32 i => match parse_hex32 l with Some (s, r) => pcons (i, VS s) (parse f' r) | None => None end
      | Raw i => match f' with [] => Some [(i, VS l)] | _ => None end
      end
  end.

(** ** Well-formedness: every variable-width item is delimited *)

Definition starts_sep (f : fmt) : bool := match f with [] => true | Sep :: _ => true | _ => false end.
Definition starts_nondigit (f : fmt) : bool :=
  match f with
  | [] => true
  | Sep :: _ => true
  | Lit (c :: _) :: _ => negb (is_digit c)
  | _ => false
  end.

Fixpoint wf (f : fmt) : bool :=
  match f with
  | [] => true
  | Str _ :: f' => starts_sep f' && wf f'
  | Dec _ :: f' => starts_nondigit f' && wf f'
  | Raw _ :: f' => match f' with [] => true | _ => false end
  | _ :: f' => wf f'
  end.

Lemma starts_sep_stops f a : starts_sep f = true -> stops not_sep (render f a) = true.
Proof. destruct f as [|[] f]; cbn; try discriminate; reflexivity. Qed.

Lemma starts_nondigit_stops f a : starts_nondigit f = true -> stops is_digit (render f a) = true.
Proof.
  destruct f as [|[] f]; cbn; try discriminate; try reflexivity.
  destruct s as [|c s]; [discriminate|]. cbn. auto.
Qed.

Lemma parse_dec_render n r : n < two64 -> stops is_digit r = true -> parse_dec (dec n ++ r) = Some (n, r).
Proof.
  intros Hn Hr. unfold parse_dec. rewrite (span_app is_digit (dec n) r (dec_digits n) Hr). cbn [fst snd].
  unfold dec at 1. rewrite bytes_uint_bytes, Unsigned.of_to, bytes_eqb_refl.
  apply N.ltb_lt in Hn. rewrite Hn. reflexivity.
Qed.

Lemma parse_hex32_render s r : length s = 32%nat -> parse_hex32 (x30 :: x78 :: hex s ++ r) = Some (s, r).
Proof.
  intro L. unfold parse_hex32.
  replace 64%nat with (length (hex s)) by (rewrite hex_length, L; reflexivity).
  rewrite take_n_app, unhex_hex. reflexivity.
Qed.

Theorem parse_render f a : wf f = true -> valid f a = true -> parse f (render f a) = Some (binds f a).
Proof.
  induction f as [|it f IH]; [reflexivity|].
  intros W V. cbn in V. apply andb_true_iff in V as [V1 V]. unfold binds in *. cbn [flat_map render].
  destruct it as [s| |i|i|i|i|i]; cbn [wf] in W; cbn [parse render_item item_binds app].
  - rewrite strip_app. auto.
  - cbn. auto.
  - apply andb_true_iff in W as [W1 W]. cbn in V1. unfold bind1, get_s.
    destruct (nth_error a i) as [[s|n]|]; try discriminate.
    rewrite (span_app not_sep s (render f a) V1 (starts_sep_stops f a W1)). cbn [fst snd].
    rewrite (IH W V). reflexivity.
  - apply andb_true_iff in W as [W1 W]. cbn in V1. unfold bind1, get_n.
    destruct (nth_error a i) as [[s|n]|]; try discriminate. apply N.ltb_lt in V1.
    rewrite (parse_dec_render n (render f a) V1 (starts_nondigit_stops f a W1)).
    rewrite (IH W V). reflexivity.
  - cbn in V1. unfold bind1, get_n. destruct (nth_error a i) as [[s|n]|]; try discriminate. apply N.ltb_lt in V1.
    replace 8%nat with (length (be_bytes 8 n)) at 1 by apply be_bytes_length.
    rewrite take_n_app, (IH W V). rewrite be_val_bytes_small by (rewrite <- two64_eq; exact V1). reflexivity.
  - cbn in V1. unfold bind1, get_s. destruct (nth_error a i) as [[s|n]|]; try discriminate.
    apply Nat.eqb_eq in V1. cbn [app]. rewrite (parse_hex32_render s (render f a) V1), (IH W V). reflexivity.
  - destruct f; [|discriminate]. cbn in V1. unfold bind1, get_s.
    destruct (nth_error a i) as [[s|n]|]; try discriminate. cbn. rewrite app_nil_r. reflexivity.
Qed.

(** ** Injectivity *)

Definition item_idx (it : item) : list nat :=
  match it with Lit _ | Sep => [] | Str i | Dec i | BE64 i | Hex32 i | Raw i => [i] end.
Definition var_idx (f : fmt) : list nat := flat_map item_idx f.

(** every argument position below [n] occurs in the format *)
Definition covers (f : fmt) (n : nat) : bool :=
  forallb (fun i => existsb (Nat.eqb i) (var_idx f)) (seq 0 n).

Lemma valid_bound f a i : valid f a = true -> In i (var_idx f) -> exists v, nth_error a i = Some v.
Proof.
  induction f as [|it f IH]; cbn; [tauto|]. intros V H. apply andb_true_iff in V as [V1 V].
  apply in_app_or in H as [H|H]; [|auto].
  destruct it; cbn in H; try tauto; destruct H as [<-|[]]; cbn in V1;
    destruct (nth_error a _) as [v|]; try discriminate; eauto.
Qed.

Lemma binds_agree f a b i :
  valid f a = true -> valid f b = true -> binds f a = binds f b -> In i (var_idx f) -> nth_error a i = nth_error b i.
Proof.
  unfold binds. induction f as [|it f IH]; cbn; [tauto|]. intros Va Vb E H.
  apply andb_true_iff in Va as [Va1 Va]. apply andb_true_iff in Vb as [Vb1 Vb].
  assert (C : forall j, item_idx it = [j] -> item_binds a it = bind1 a j /\ item_binds b it = bind1 b j /\
            (exists v, nth_error a j = Some v) /\ (exists v, nth_error b j = Some v)).
  { intros j Hj. destruct it; cbn in Hj; try discriminate; inversion Hj; subst; cbn [item_binds];
      (split; [reflexivity|split; [reflexivity|]]); cbn in Va1, Vb1;
      destruct (nth_error a j); try discriminate; destruct (nth_error b j); try discriminate; eauto. }
  destruct (item_idx it) as [|j [|]] eqn:Ei.
  - assert (N1 : item_binds a it = [] /\ item_binds b it = []) by (destruct it; cbn in Ei; try discriminate; auto).
    destruct N1 as [N1 N2]. rewrite N1, N2 in E. cbn in H. auto.
  - destruct (C j eq_refl) as (Ea & Eb & [va Ha] & [vb Hb]). rewrite Ea, Eb in E. unfold bind1 in E.
    rewrite Ha, Hb in E. cbn in E. inversion E as [[E1 E2]]. subst vb.
    cbn in H. destruct H as [<-|H]; [congruence | auto].
  - destruct it; cbn in Ei; discriminate.
Qed.

Lemma nth_error_ext {A} (a b : list A) :
  length a = length b -> (forall i, (i < length a)%nat -> nth_error a i = nth_error b i) -> a = b.
Proof.
  revert b; induction a as [|x a IH]; intros [|y b] L H; cbn in L; try discriminate; [reflexivity|].
  f_equal.
  - specialize (H 0%nat). cbn in H. assert (E : Some x = Some y) by (apply H; lia). congruence.
  - apply IH; [lia|]. intros i Hi. apply (H (S i)). cbn. lia.
Qed.

Lemma covers_in f n i : covers f n = true -> (i < n)%nat -> In i (var_idx f).
Proof.
  unfold covers. rewrite forallb_forall. intros H Hi.
  specialize (H i). rewrite existsb_exists in H. destruct H as [j [Hj E]].
  - apply in_seq. lia.
  - apply Nat.eqb_eq in E. subst. exact Hj.
Qed.

(** The generic injectivity lemma: the side conditions [wf] and [covers] are
    evaluated by [vm_compute] on the regenerated format term. *)
Theorem render_inj f n a b :
  wf f = true -> covers f n = true ->
  length a = n -> length b = n -> valid f a = true -> valid f b = true ->
  render f a = render f b -> a = b.
Proof.
  intros W C La Lb Va Vb E.
  assert (P : Some (binds f a) = Some (binds f b)).
  { rewrite <- (parse_render f a W Va), <- (parse_render f b W Vb), E. reflexivity. }
  inversion P as [P'].
  apply nth_error_ext; [congruence|]. intros i Hi.
  apply (binds_agree f a b i Va Vb P'). apply (covers_in f n); [exact C | lia].
Qed.

(** ** Argument signatures: the decidable typing side condition *)

Inductive kind := KStr | KNum | KHash | KRaw.

Definition val_ok (k : kind) (v : val) : bool :=
  match k, v with
  | KStr, VS s => no_sep s
  | KNum, VN n => n <? two64
  | KHash, VS s => Nat.eqb (length s) 32
  | KRaw, VS _ => true
  | _, _ => false
  end.

Fixpoint args_ok (sg : list kind) (a : args) : bool :=
  match sg, a with
  | [], [] => true
  | k :: sg', v :: a' => val_ok k v && args_ok sg' a'
  | _, _ => false
  end.

Definition kind_eqb (a b : kind) : bool :=
  match a, b with KStr, KStr | KNum, KNum | KHash, KHash | KRaw, KRaw => true | _, _ => false end.

Definition item_typed (sg : list kind) (it : item) : bool :=
  match it with
  | Lit _ | Sep => true
  | Str i => match nth_error sg i with Some k => kind_eqb k KStr | None => false end
  | Dec i | BE64 i => match nth_error sg i with Some k => kind_eqb k KNum | None => false end
  | Hex32 i => match nth_error sg i with Some k => kind_eqb k KHash | None => false end
  | Raw i => match nth_error sg i with Some k => kind_eqb k KRaw || kind_eqb k KStr | None => false end
  end.

(** every item refers to an argument of the right kind *)
Definition typed (f : fmt) (sg : list kind) : bool := forallb (item_typed sg) f.

Lemma args_ok_length sg a : args_ok sg a = true -> length a = length sg.
Proof.
  revert a; induction sg as [|k sg IH]; intros [|v a]; cbn; try discriminate; [reflexivity|].
  intro H. apply andb_true_iff in H as [_ H]. f_equal. auto.
Qed.

Lemma args_ok_nth sg a i k :
  args_ok sg a = true -> nth_error sg i = Some k -> exists v, nth_error a i = Some v /\ val_ok k v = true.
Proof.
  revert a i; induction sg as [|k0 sg IH]; intros [|v a] [|i]; cbn; try discriminate.
  - intros H [= ->]. apply andb_true_iff in H as [H _]. eauto.
  - intros H E. apply andb_true_iff in H as [_ H]. eauto.
Qed.

Lemma typed_valid f sg a : typed f sg = true -> args_ok sg a = true -> valid f a = true.
Proof.
  unfold typed, valid. rewrite !forallb_forall. intros T A it Hit. specialize (T it Hit).
  destruct it as [s| |i|i|i|i|i]; cbn in *; try reflexivity;
    destruct (nth_error sg i) as [k|] eqn:E; try discriminate;
    destruct (args_ok_nth sg a i k A E) as (v & -> & V); destruct k; try discriminate;
    destruct v; cbn in V; try discriminate; auto.
Qed.

(** The generic injectivity lemma in the form the key theorems instantiate: all
    three side conditions are closed Boolean computations on the regenerated term. *)
Definition key_ok (f : fmt) (sg : list kind) : bool := wf f && covers f (length sg) && typed f sg.

Theorem key_inj f sg a b :
  key_ok f sg = true -> args_ok sg a = true -> args_ok sg b = true -> render f a = render f b -> a = b.
Proof.
  unfold key_ok. intros K A Bk E. apply andb_true_iff in K as [K T]. apply andb_true_iff in K as [W C].
  apply (render_inj f (length sg)); auto using args_ok_length; eapply typed_valid; eauto.
Qed.

Theorem key_parse f sg a :
  key_ok f sg = true -> args_ok sg a = true -> parse f (render f a) = Some (binds f a).
Proof.
  unfold key_ok. intros K A. apply andb_true_iff in K as [K T]. apply andb_true_iff in K as [W C].
  apply parse_render; eauto using typed_valid.
Qed.

(** * Disjointness of two formats *)

(** ** Literal heads: no key of one is a prefix of a key of the other *)

Fixpoint head_lit (f : fmt) : bytes :=
  match f with
  | Lit s :: f' => s ++ head_lit f'
  | Sep :: f' => sep :: head_lit f'
  | _ => []
  end.

Lemma head_lit_prefix f a : exists t, render f a = head_lit f ++ t.
Proof.
  induction f as [|it f [t IH]]; [exists []; reflexivity|].
  destruct it; cbn [head_lit render render_item]; try (eexists; reflexivity).
  - exists t. rewrite IH, app_assoc. reflexivity.
  - exists t. rewrite IH. reflexivity.
Qed.

Definition incomparable (p q : bytes) : bool := negb (is_prefix p q) && negb (is_prefix q p).
Definition heads_apart (f g : fmt) : bool := incomparable (head_lit f) (head_lit g).

Lemma is_prefix_false_app p q t u : is_prefix p q = false -> is_prefix q p = false -> is_prefix (p ++ t) (q ++ u) = false.
Proof.
  revert q; induction p as [|x p IH]; intros [|y q]; cbn; try discriminate.
  destruct (Byte.eqb x y) eqn:E; cbn; [|reflexivity].
  apply byte_eqb_eq in E. subst y. rewrite byte_eqb_refl. cbn. apply IH.
Qed.

(** No key of [f] is a prefix of a key of [g] nor conversely — for ALL
    arguments, valid or not.  In particular the keys differ, and a prefix
    iterator over the literal head of one family never meets the other. *)
Theorem heads_apart_sound f g a b :
  heads_apart f g = true ->
  is_prefix (render f a) (render g b) = false /\ is_prefix (render g b) (render f a) = false.
Proof.
  unfold heads_apart, incomparable. intro H. apply andb_true_iff in H as [H1 H2].
  apply negb_true_iff in H1, H2.
  destruct (head_lit_prefix f a) as [t ->]. destruct (head_lit_prefix g b) as [u ->].
  split; apply is_prefix_false_app; assumption.
Qed.

Lemma is_prefix_refl p : is_prefix p p = true.
Proof. rewrite <- (app_nil_r p) at 2. apply is_prefix_app. Qed.

Corollary heads_apart_neq f g a b : heads_apart f g = true -> render f a <> render g b.
Proof.
  intros H E. destruct (heads_apart_sound f g a b H) as [H1 _]. rewrite E, is_prefix_refl in H1. discriminate.
Qed.

(** A literal prefix [p] (as handed to [KVStorePrefixIterator]) selects no key of [g]. *)
Definition prefix_apart (p : bytes) (g : fmt) : bool := incomparable p (head_lit g).

Lemma prefix_apart_sound p g b : prefix_apart p g = true -> is_prefix p (render g b) = false.
Proof.
  unfold prefix_apart, incomparable. intro H. apply andb_true_iff in H as [H1 H2]. apply negb_true_iff in H1, H2.
  destruct (head_lit_prefix g b) as [u ->]. rewrite <- (app_nil_r p). apply is_prefix_false_app; assumption.
Qed.

(** ** Structural apartness: formats with a common head (e.g. [consensusStates/<h>]
    and [consensusStates/<h>/processedTime]) *)

Inductive atom := ACh (c : byte) | AStr | ADec | AFix (n : nat) | ARaw.

Definition item_atoms (it : item) : list atom :=
  match it with
  | Lit s => map ACh s
  | Sep => [ACh sep]
  | Str _ => [AStr]
  | Dec _ => [ADec]
  | BE64 _ => [AFix 8]
  | Hex32 _ => [AFix 66]
  | Raw _ => [ARaw]
  end.
Definition atoms (f : fmt) : list atom := flat_map item_atoms f.

(** the byte strings an atom list can produce *)
Fixpoint matches (A : list atom) (l : bytes) : Prop :=
  match A with
  | [] => l = []
  | ACh c :: A' => exists r, l = c :: r /\ matches A' r
  | AStr :: A' => exists s r, l = s ++ r /\ no_sep s = true /\ matches A' r
  | ADec :: A' => exists s r, l = s ++ r /\ s <> [] /\ forallb is_digit s = true /\ matches A' r
  | AFix n :: A' => exists s r, l = s ++ r /\ length s = n /\ matches A' r
  | ARaw :: A' => exists s r, l = s ++ r /\ matches A' r
  end.

Lemma matches_app A B l m : matches A l -> matches B m -> matches (A ++ B) (l ++ m).
Proof.
  revert l; induction A as [|x A IH]; intros l HA HB; cbn in *.
  - subst. exact HB.
  - destruct x.
    + destruct HA as (r & -> & H). exists (r ++ m). split; [reflexivity | auto].
    + destruct HA as (s & r & -> & H1 & H). exists s, (r ++ m). rewrite app_assoc. auto.
    + destruct HA as (s & r & -> & H1 & H2 & H). exists s, (r ++ m). rewrite app_assoc. auto.
    + destruct HA as (s & r & -> & H1 & H). exists s, (r ++ m). rewrite app_assoc. auto.
    + destruct HA as (s & r & -> & H). exists s, (r ++ m). rewrite app_assoc. auto.
Qed.

Lemma matches_chars s : matches (map ACh s) s.
Proof. induction s as [|c s IH]; cbn; [reflexivity | eauto]. Qed.

Lemma render_matches f a : valid f a = true -> matches (atoms f) (render f a).
Proof.
  unfold atoms. induction f as [|it f IH]; cbn; [reflexivity|]. intro V. apply andb_true_iff in V as [V1 V].
  apply matches_app; [|auto]. clear IH V.
  destruct it; cbn in *.
  - apply matches_chars.
  - eauto.
  - unfold get_s. destruct (nth_error a i) as [[s|]|]; try discriminate. exists s, []. rewrite app_nil_r. auto.
  - exists (dec (get_n a i)), []. rewrite app_nil_r.
    split; [reflexivity | split; [apply dec_nonempty | split; [apply dec_digits | reflexivity]]].
  - exists (be_bytes 8 (get_n a i)), []. rewrite app_nil_r.
    split; [reflexivity | split; [apply be_bytes_length | reflexivity]].
  - unfold get_s. destruct (nth_error a i) as [[s|]|]; try discriminate. apply Nat.eqb_eq in V1.
    exists (x30 :: x78 :: hex s), []. rewrite app_nil_r.
    split; [reflexivity | split; [cbn [length]; rewrite hex_length, V1; reflexivity | reflexivity]].
  - exists (get_s a i), []. rewrite app_nil_r. auto.
Qed.

Definition a_starts_sep (A : list atom) : bool :=
  match A with [] => true | ACh c :: _ => is_sep c | _ => false end.
Definition a_starts_nondigit (A : list atom) : bool :=
  match A with [] => true | ACh c :: _ => negb (is_digit c) | _ => false end.

(** delimitation of the variable-width atoms (the atom-level image of [wf]) *)
Fixpoint awf (A : list atom) : bool :=
  match A with
  | [] => true
  | AStr :: A' => a_starts_sep A' && awf A'
  | ADec :: A' => a_starts_nondigit A' && awf A'
  | ARaw :: A' => match A' with [] => true | _ => false end
  | _ :: A' => awf A'
  end.

Fixpoint apart_atoms (A B : list atom) : bool :=
  match A, B with
  | [], [] => false
  | [], (ACh _ | ADec | AFix (S _)) :: _ => true
  | (ACh _ | ADec | AFix (S _)) :: _, [] => true
  | ACh c :: A', ACh d :: B' => negb (Byte.eqb c d) || apart_atoms A' B'
  | AStr :: A', AStr :: B' => apart_atoms A' B'
  | ADec :: A', ADec :: B' => apart_atoms A' B'
  | AFix n :: A', AFix m :: B' => Nat.eqb n m && apart_atoms A' B'
  | ADec :: _, ACh c :: _ => negb (is_digit c)
  | ACh c :: _, ADec :: _ => negb (is_digit c)
  | _, _ => false
  end.

Lemma a_starts_sep_stops A r : a_starts_sep A = true -> matches A r -> stops not_sep r = true.
Proof.
  destruct A as [|[] A]; cbn; try discriminate.
  - intros _ ->. reflexivity.
  - intros H (r' & -> & _). cbn. unfold not_sep. rewrite H. reflexivity.
Qed.

Lemma a_starts_nondigit_stops A r : a_starts_nondigit A = true -> matches A r -> stops is_digit r = true.
Proof.
  destruct A as [|[] A]; cbn; try discriminate.
  - intros _ ->. reflexivity.
  - intros H (r' & -> & _). cbn. exact H.
Qed.

Lemma span_unique p s1 r1 s2 r2 :
  forallb p s1 = true -> stops p r1 = true -> forallb p s2 = true -> stops p r2 = true ->
  s1 ++ r1 = s2 ++ r2 -> s1 = s2 /\ r1 = r2.
Proof.
  intros H1 H2 H3 H4 E.
  assert (X : span p (s1 ++ r1) = span p (s2 ++ r2)) by (rewrite E; reflexivity).
  rewrite (span_app p s1 r1 H1 H2), (span_app p s2 r2 H3 H4) in X. inversion X. auto.
Qed.

Lemma app_same_length {A} (s1 r1 s2 r2 : list A) :
  length s1 = length s2 -> s1 ++ r1 = s2 ++ r2 -> s1 = s2 /\ r1 = r2.
Proof.
  revert s2; induction s1 as [|x s1 IH]; intros [|y s2] L E; cbn in *; try discriminate; [auto|].
  inversion E; subst. destruct (IH s2) as [-> ->]; auto.
Qed.

Theorem apart_atoms_sound A B l :
  awf A = true -> awf B = true -> apart_atoms A B = true -> matches A l -> matches B l -> False.
Proof.
  revert B l; induction A as [|x A IH]; intros B l WA WB AP MA MB.
  - cbn in MA. subst l. destruct B as [|y B]; [discriminate|].
    destruct y as [c| | |n|]; cbn in AP; try discriminate.
    + destruct MB as (r & E & _). discriminate.
    + destruct MB as (s & r & E & N & _). destruct s; [congruence | discriminate].
    + destruct n; [discriminate|]. destruct MB as (s & r & E & L & _). destruct s; discriminate.
  - destruct x as [c| | |n|].
    + (* ACh *) destruct MA as (r & -> & MA). destruct B as [|y B]; [cbn in MB; discriminate|].
      destruct y as [d| | |m|]; cbn in AP; try discriminate.
      * destruct MB as (r' & E & MB). inversion E; subst.
        rewrite byte_eqb_refl in AP. cbn in AP, WA, WB. eapply IH; eauto.
      * destruct MB as (s & r' & E & N & D & _). destruct s as [|y s]; [congruence|].
        inversion E; subst. cbn in D. apply andb_true_iff in D as [D _]. rewrite D in AP. discriminate.
    + (* AStr *) destruct B as [|y B]; [discriminate|]. destruct y; cbn in AP; try discriminate.
      cbn in WA, WB. apply andb_true_iff in WA as [SA WA]. apply andb_true_iff in WB as [SB WB].
      destruct MA as (s1 & r1 & -> & N1 & MA). destruct MB as (s2 & r2 & E & N2 & MB).
      assert (T1 : stops not_sep r1 = true) by (apply (a_starts_sep_stops A r1 SA MA)).
      assert (T2 : stops not_sep r2 = true) by (apply (a_starts_sep_stops B r2 SB MB)).
      destruct (span_unique not_sep s1 r1 s2 r2 N1 T1 N2 T2 E) as [-> ->].
      eapply IH; eauto.
    + (* ADec *) destruct B as [|y B].
      * cbn in MB. subst l. destruct MA as (s & r & E & N & _). destruct s; [congruence | discriminate].
      * destruct y as [d| | |m|]; cbn in AP; try discriminate.
        -- destruct MA as (s & r & -> & N & D & _). destruct MB as (r' & E & _).
           destruct s as [|y s]; [congruence|]. inversion E; subst.
           cbn in D. apply andb_true_iff in D as [D _]. rewrite D in AP. discriminate.
        -- cbn in WA, WB. apply andb_true_iff in WA as [SA WA]. apply andb_true_iff in WB as [SB WB].
           destruct MA as (s1 & r1 & -> & _ & D1 & MA). destruct MB as (s2 & r2 & E & _ & D2 & MB).
           assert (T1 : stops is_digit r1 = true) by (apply (a_starts_nondigit_stops A r1 SA MA)).
           assert (T2 : stops is_digit r2 = true) by (apply (a_starts_nondigit_stops B r2 SB MB)).
           destruct (span_unique is_digit s1 r1 s2 r2 D1 T1 D2 T2 E) as [-> ->].
           eapply IH; eauto.
    + (* AFix *) destruct B as [|y B].
      * destruct n; [discriminate|]. cbn in MB. subst l.
        destruct MA as (s & r & E & L & _). destruct s; discriminate.
      * destruct y as [d| | |m|]; cbn in AP; try (destruct n; discriminate).
        assert (AP' : Nat.eqb n m && apart_atoms A B = true) by (destruct n; exact AP).
        apply andb_true_iff in AP' as [Enm AP']. apply Nat.eqb_eq in Enm. subst m.
        destruct MA as (s1 & r1 & -> & L1 & MA). destruct MB as (s2 & r2 & E & L2 & MB).
        destruct (app_same_length s1 r1 s2 r2) as [-> ->]; [congruence | auto |].
        cbn in WA, WB. eapply IH; eauto.
    + (* ARaw *) destruct B as [|[]]; cbn in AP; discriminate.
Qed.

Lemma a_starts_sep_atoms f : starts_sep f = true -> a_starts_sep (atoms f) = true.
Proof. destruct f as [|[] f]; cbn; try discriminate; reflexivity. Qed.

Lemma a_starts_nondigit_atoms f : starts_nondigit f = true -> a_starts_nondigit (atoms f) = true.
Proof.
  destruct f as [|[] f]; cbn; try discriminate; try reflexivity.
  destruct s; [discriminate|]. cbn. auto.
Qed.

Lemma awf_chars s A : awf (map ACh s ++ A) = awf A.
Proof. induction s; cbn; auto. Qed.

Lemma wf_awf f : wf f = true -> awf (atoms f) = true.
Proof.
  induction f as [|it f IH]; [reflexivity|]. intro W.
  change (atoms (it :: f)) with (item_atoms it ++ atoms f).
  destruct it; cbn [wf] in W; cbn [item_atoms app].
  - rewrite awf_chars. auto.
  - cbn. auto.
  - apply andb_true_iff in W as [W1 W]. cbn. rewrite (a_starts_sep_atoms f W1). cbn. auto.
  - apply andb_true_iff in W as [W1 W]. cbn. rewrite (a_starts_nondigit_atoms f W1). cbn. auto.
  - cbn. auto.
  - cbn. auto.
  - destruct f; [reflexivity | discriminate].
Qed.

Definition apart (f g : fmt) : bool := wf f && wf g && apart_atoms (atoms f) (atoms g).

(** No key of [f] (valid arguments) equals a key of [g] (valid arguments). *)
Theorem apart_sound f g a b :
  apart f g = true -> valid f a = true -> valid g b = true -> render f a <> render g b.
Proof.
  unfold apart. intros H Va Vb E. apply andb_true_iff in H as [H AP]. apply andb_true_iff in H as [Wf Wg].
  eapply (apart_atoms_sound (atoms f) (atoms g) (render f a)); eauto using wf_awf, render_matches.
  rewrite E. apply render_matches. exact Vb.
Qed.

(** * Go [strings.Split(s, "/")] (one-byte separator): always at least one field *)

Fixpoint split_on (p : byte -> bool) (l : bytes) : list bytes :=
  match l with
  | [] => [[]]
  | c :: r =>
      if p c then [] :: split_on p r
      else match split_on p r with
           | [] => [[c]]          (* unreachable: split_on never returns [] *)
           | h :: t => (c :: h) :: t
           end
  end.

Definition split_sep : bytes -> list bytes := split_on is_sep.

Lemma split_on_nonempty p l : split_on p l <> [].
Proof.
  induction l as [|c r IH]; cbn [split_on]; [discriminate|].
  destruct (p c); [discriminate|]. destruct (split_on p r); [congruence | discriminate].
Qed.

Lemma split_on_free p s : forallb (fun c => negb (p c)) s = true -> split_on p s = [s].
Proof.
  induction s as [|c s IH]; cbn; [reflexivity|]. intro H. apply andb_true_iff in H as [H1 H2].
  apply negb_true_iff in H1. rewrite H1, (IH H2). reflexivity.
Qed.

Lemma split_on_app p s c r :
  forallb (fun c => negb (p c)) s = true -> p c = true -> split_on p (s ++ c :: r) = s :: split_on p r.
Proof.
  induction s as [|x s IH]; cbn; intros H Hc.
  - rewrite Hc. reflexivity.
  - apply andb_true_iff in H as [H1 H2]. apply negb_true_iff in H1. rewrite H1, (IH H2 Hc). reflexivity.
Qed.
