(** Result of a Go function that may return an error or panic. *)
Inductive outcome (A : Type) : Type :=
| Ok (a : A)
| Err            (* ordinary error return *)
| Panic.         (* run-time panic (not recovered at this level) *)
Arguments Ok {A} a.
Arguments Err {A}.
Arguments Panic {A}.

Definition obind {A B} (x : outcome A) (f : A -> outcome B) : outcome B :=
  match x with Ok a => f a | Err => Err | Panic => Panic end.

Definition is_ok {A} (x : outcome A) : bool := match x with Ok _ => true | _ => false end.
Definition is_panic {A} (x : outcome A) : bool := match x with Panic => true | _ => false end.

(** Outcome class as compared with the implementation: 0 ok, 1 error, 2 panic. *)
Definition oclass {A} (x : outcome A) : nat := match x with Ok _ => 0 | Err => 1 | Panic => 2 end.

Notation "x <- e ;; f" := (obind e (fun x => f)) (at level 61, e at next level, right associativity).
