(** Byte strings: Go [string] / [[]byte] are modelled as [list byte]. *)
From Coq Require Export List NArith ZArith Bool Lia.
From Coq Require Export Strings.Byte Strings.String Strings.Ascii.
Export ListNotations.
(* String is exported for literals only; keep the list functions it shadows. *)
Notation length := List.length (only parsing).
Notation concat := List.concat (only parsing).

Notation bytes := (list byte).

Definition B (s : string) : bytes := list_byte_of_string s.

Fixpoint bytes_eqb (a b : bytes) : bool :=
  match a, b with
  | [], [] => true
  | x :: a', y :: b' => Byte.eqb x y && bytes_eqb a' b'
  | _, _ => false
  end.

Lemma bytes_eqb_eq a b : bytes_eqb a b = true <-> a = b.
Proof.
  revert b; induction a as [|x a IH]; intros [|y b]; cbn; split; intro H;
    try reflexivity; try discriminate.
  - apply andb_true_iff in H as [H1 H2]. apply byte_dec_bl in H1. apply IH in H2. congruence.
  - inversion H; subst. apply andb_true_iff; split; [apply byte_dec_lb; reflexivity | apply IH; reflexivity].
Qed.

Lemma bytes_eqb_refl a : bytes_eqb a a = true.
Proof. apply bytes_eqb_eq; reflexivity. Qed.

Lemma bytes_eqb_neq a b : bytes_eqb a b = false <-> a <> b.
Proof.
  split; intro H.
  - intro E. apply bytes_eqb_eq in E. congruence.
  - destruct (bytes_eqb a b) eqn:E; [apply bytes_eqb_eq in E; contradiction | reflexivity].
Qed.

Lemma bytes_eqb_spec a b : reflect (a = b) (bytes_eqb a b).
Proof.
  destruct (bytes_eqb a b) eqn:E; constructor.
  - apply bytes_eqb_eq; exact E.
  - apply bytes_eqb_neq; exact E.
Qed.

Lemma bytes_eqb_sym a b : bytes_eqb a b = bytes_eqb b a.
Proof.
  destruct (bytes_eqb_spec a b) as [->|N]; [symmetry; apply bytes_eqb_refl|].
  symmetry; apply bytes_eqb_neq; congruence.
Qed.

Definition bytes_eq_dec (a b : bytes) : {a = b} + {a <> b} := list_eq_dec byte_eq_dec a b.

(** Lexicographic byte order = Go [bytes.Compare] / [strings.Compare]. *)
Fixpoint bytes_cmp (a b : bytes) : comparison :=
  match a, b with
  | [], [] => Eq
  | [], _ => Lt
  | _, [] => Gt
  | x :: a', y :: b' =>
      match N.compare (Byte.to_N x) (Byte.to_N y) with
      | Eq => bytes_cmp a' b'
      | c => c
      end
  end.

Definition bytes_ltb (a b : bytes) : bool := match bytes_cmp a b with Lt => true | _ => false end.

Lemma byte_to_N_inj x y : Byte.to_N x = Byte.to_N y -> x = y.
Proof.
  intro H. assert (E : Byte.of_N (Byte.to_N x) = Byte.of_N (Byte.to_N y)) by (rewrite H; reflexivity).
  rewrite !Byte.of_to_N in E. congruence.
Qed.

Lemma bytes_cmp_eq a b : bytes_cmp a b = Eq <-> a = b.
Proof.
  revert b; induction a as [|x a IH]; intros [|y b]; cbn; split; intro H; try reflexivity; try discriminate.
  - destruct (N.compare_spec (Byte.to_N x) (Byte.to_N y)) as [E|L|L]; try discriminate.
    apply byte_to_N_inj in E. apply IH in H. congruence.
  - inversion H; subst. rewrite N.compare_refl. apply IH; reflexivity.
Qed.

Lemma bytes_cmp_antisym a b : bytes_cmp b a = CompOpp (bytes_cmp a b).
Proof.
  revert b; induction a as [|x a IH]; intros [|y b]; cbn; try reflexivity.
  rewrite (N.compare_antisym (Byte.to_N x) (Byte.to_N y)).
  destruct (N.compare (Byte.to_N x) (Byte.to_N y)); cbn; auto.
Qed.

Lemma bytes_cmp_lt_trans a b c : bytes_cmp a b = Lt -> bytes_cmp b c = Lt -> bytes_cmp a c = Lt.
Proof.
  revert b c; induction a as [|x a IH]; intros [|y b] [|z c]; cbn; intros H1 H2; try discriminate; try reflexivity.
  destruct (N.compare_spec (Byte.to_N x) (Byte.to_N y)) as [E|L|L]; try discriminate;
  destruct (N.compare_spec (Byte.to_N y) (Byte.to_N z)) as [E2|L2|L2]; try discriminate.
  - rewrite E, E2, N.compare_refl. eapply IH; eauto.
  - rewrite E. apply N.compare_lt_iff in L2. rewrite L2. reflexivity.
  - rewrite <- E2. apply N.compare_lt_iff in L. rewrite L. reflexivity.
  - assert (L3 : (Byte.to_N x < Byte.to_N z)%N) by lia. apply N.compare_lt_iff in L3. rewrite L3. reflexivity.
Qed.

(** Hex rendering for readable output of the correspondence check. *)
Definition is_prefix := fix is_prefix (p s : bytes) : bool :=
  match p, s with
  | [], _ => true
  | x :: p', y :: s' => Byte.eqb x y && is_prefix p' s'
  | _, [] => false
  end.

Lemma is_prefix_app p s : is_prefix p (p ++ s) = true.
Proof. induction p as [|x p IH]; cbn; [reflexivity|]. rewrite IH, andb_true_r. apply byte_dec_lb; reflexivity. Qed.

Lemma is_prefix_spec p s : is_prefix p s = true <-> exists t, s = p ++ t.
Proof.
  revert s; induction p as [|x p IH]; intros s; cbn.
  - split; [intros _; exists s; reflexivity | reflexivity].
  - destruct s as [|y s]; [split; [discriminate | intros [t Ht]; discriminate]|].
    rewrite andb_true_iff, IH. split.
    + intros [H1 [t ->]]. apply byte_dec_bl in H1. subst. exists t; reflexivity.
    + intros [t Ht]. inversion Ht; subst. split; [apply byte_dec_lb; reflexivity | exists t; reflexivity].
Qed.
