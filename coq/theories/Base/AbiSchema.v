(** Types of the regenerated ABI schemas (library, no repository content):
    a Go struct and the ABI tuple(s) it is packed to / unpacked from. *)
From Teleport Require Import Base.Bytes.

(** ABI component types / Go field types occurring in the packet encodings *)
Inductive aty := TU64 | TStr | TBytes.

Definition aty_eqb (a b : aty) : bool :=
  match a, b with TU64, TU64 | TStr, TStr | TBytes, TBytes => true | _, _ => false end.

Lemma aty_eqb_eq a b : aty_eqb a b = true <-> a = b.
Proof. destruct a, b; cbn; split; intro H; try reflexivity; discriminate. Qed.

(** one component of an [abi.ArgumentMarshaling] list *)
Record tfield := { tf_name : bytes; tf_ty : aty }.

(** one field of the Go struct: Go name, the raw value of its [json:"..."] tag
    (None = no json tag), Go type *)
Record sfield := { sf_go : bytes; sf_tag : option bytes; sf_ty : aty }.

(** [sc_pack]: the tuple named in the struct's ABIPack method; [sc_unpack]: the
    tuple named in its ABIDecode method *)
Record schema := { sc_struct : list sfield; sc_pack : list tfield; sc_unpack : list tfield }.
