(** Association lists keyed by byte strings: the model of a KV store (and of the
    relayer registry / client table).  [aset] inserts in [bytes_cmp] order, so a
    list built by [aset] from [[]] is strictly sorted = the iterator order of the
    IAVL / cachekv store.  The lemmas below are extensional ([aget] after
    [aset]/[adel]) and hold for ARBITRARY lists (no sortedness invariant needed):
    [aget] returns the first binding, [adel] removes every binding of the key.
    (Used by the packet core C01/C02/C04/C05.) *)
From Teleport Require Import Base.Bytes.

Section AList.
  Context {V : Type}.

  Definition alist := list (bytes * V).

  Fixpoint aget (k : bytes) (l : alist) : option V :=
    match l with
    | [] => None
    | (k', v) :: l' => if bytes_eqb k k' then Some v else aget k l'
    end.

  Fixpoint aset (k : bytes) (v : V) (l : alist) : alist :=
    match l with
    | [] => [(k, v)]
    | (k', v') :: l' =>
        match bytes_cmp k k' with
        | Eq => (k, v) :: l'
        | Lt => (k, v) :: (k', v') :: l'
        | Gt => (k', v') :: aset k v l'
        end
    end.

  Definition adel (k : bytes) (l : alist) : alist :=
    filter (fun kv => negb (bytes_eqb k (fst kv))) l.

  Definition ahas (k : bytes) (l : alist) : bool :=
    match aget k l with Some _ => true | None => false end.

  Lemma aget_aset_same k v l : aget k (aset k v l) = Some v.
  Proof.
    induction l as [|[k' v'] l IH]; cbn.
    - rewrite bytes_eqb_refl; reflexivity.
    - destruct (bytes_cmp k k') eqn:E; cbn.
      + rewrite bytes_eqb_refl; reflexivity.
      + rewrite bytes_eqb_refl; reflexivity.
      + destruct (bytes_eqb_spec k k') as [->|N].
        * assert (X : bytes_cmp k' k' = Eq) by (apply bytes_cmp_eq; reflexivity). congruence.
        * exact IH.
  Qed.

  Lemma aget_aset_other k k2 v l : k2 <> k -> aget k2 (aset k v l) = aget k2 l.
  Proof.
    intro N. induction l as [|[k' v'] l IH]; cbn.
    - destruct (bytes_eqb_spec k2 k); [contradiction | reflexivity].
    - destruct (bytes_cmp k k') eqn:E; cbn.
      + apply bytes_cmp_eq in E; subst k'.
        destruct (bytes_eqb_spec k2 k); [contradiction | reflexivity].
      + destruct (bytes_eqb_spec k2 k); [contradiction | reflexivity].
      + destruct (bytes_eqb k2 k'); [reflexivity | exact IH].
  Qed.

  Lemma aget_adel_same k l : aget k (adel k l) = None.
  Proof.
    induction l as [|[k' v'] l IH]; cbn; [reflexivity|].
    destruct (bytes_eqb_spec k k') as [->|N]; cbn.
    - exact IH.
    - destruct (bytes_eqb_spec k k'); [contradiction | exact IH].
  Qed.

  Lemma aget_adel_other k k2 l : k2 <> k -> aget k2 (adel k l) = aget k2 l.
  Proof.
    intro N. induction l as [|[k' v'] l IH]; cbn; [reflexivity|].
    destruct (bytes_eqb_spec k k') as [->|N2]; cbn.
    - destruct (bytes_eqb_spec k2 k'); [contradiction | exact IH].
    - destruct (bytes_eqb k2 k'); [reflexivity | exact IH].
  Qed.

  Lemma aget_aset k k2 v l : aget k2 (aset k v l) = if bytes_eqb k2 k then Some v else aget k2 l.
  Proof.
    destruct (bytes_eqb_spec k2 k) as [->|N]; [apply aget_aset_same | apply aget_aset_other; exact N].
  Qed.

  Lemma aget_adel k k2 l : aget k2 (adel k l) = if bytes_eqb k2 k then None else aget k2 l.
  Proof.
    destruct (bytes_eqb_spec k2 k) as [->|N]; [apply aget_adel_same | apply aget_adel_other; exact N].
  Qed.
End AList.

Arguments alist V : clear implicits.
