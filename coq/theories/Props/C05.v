(** C05 — Ack lifecycle: one ack per delivered packet, processed at most once.
    Only statements; proofs in Proofs/PacketC05.v and Proofs/PacketC04.v. *)
From Teleport Require Import Base.Bytes Base.Outcome Base.AList Model.Packet Model.PacketKeys
     Proofs.Packet Proofs.PacketC01 Proofs.PacketC02 Proofs.PacketC05 Proofs.PacketC04 Proofs.PacketTx Proofs.PacketCb Proofs.PacketKeys Proofs.PacketExamples.
Local Open Scope N_scope.

(** Every accepted receive of a packet addressed to this chain writes, in the same step, exactly ONE acknowledgement:
    no ack was stored for the triple before; afterwards sha256 of the packed acknowledgement is stored, where the
    acknowledgement is the callback's result (code, result, message) or — if the callback failed — the error
    acknowledgement (1, "", "receive packet callback failed"), with the relayer's counterparty address and the packet's
    fee option; no other ack key changes; exactly one ack-written event is logged. *)
Theorem C05_ack_written_with_recv : forall P, real_keys P -> forall env s m cb s',
  exec P env s (ARecv m cb) = Ok s' ->
  let p := fst (decode P (rm_packet m)) in
  p_dst p = st_name s ->
  exists relayer a bz,
    relayer_on_other_chain s (p_src p) (rm_signer m) = Ok (Some relayer) /\
    (error_ack relayer p a \/ result_ack cb relayer p a) /\ pack_ack P a = Some bz /\
    sget (akey P (triple_of p)) s = None /\
    sget (akey P (triple_of p)) s' = Some (sha256 P bz) /\
    (forall k, is_akey P k -> k <> akey P (triple_of p) -> sget k s' = sget k s) /\
    cnt is_any_ackw (log (st_app s')) = S (cnt is_any_ackw (log (st_app s))) /\
    cnt (is_ackw (triple_of p)) (log (st_app s')) = S (cnt (is_ackw (triple_of p)) (log (st_app s))).
Proof. intros P K. exact (ack_written_with_recv P (real_keys_ok P K)). Qed.
Print Assumptions C05_ack_written_with_recv.

(** A stored acknowledgement is never overwritten or removed, in any history from any state satisfying [inv5]
    (names valid; every ack of a valid triple has its receipt; a commitment of a FOREIGN valid triple has a receipt and
    no ack) — this invariant is what makes the unguarded SetPacketAcknowledgement of AcknowledgePacket's relay branch
    harmless.  NO hypothesis about self-named clients is needed here. *)
Theorem C05_acks_monotone : forall P, real_keys P -> (forall x, sha256 P x <> []) -> forall ops s t v,
  inv5 P s -> sget (akey P t) s = Some v ->
  inv5 P (run P s ops) /\ sget (akey P t) (run P s ops) = Some v.
Proof.
  intros P K Sh ops s t v I H. destruct (run_inv5 P (real_keys_ok P K) Sh ops s I) as [I' Kp].
  split; [exact I' | exact (Kp _ _ (ex_intro _ t eq_refl) H)].
Qed.
Print Assumptions C05_acks_monotone.

(** A key of the store disappears only through an accepted acknowledgement of exactly the packet whose commitment it
    held: the action is an AAck, the key is the commitment key of the decoded packet, the stored value was
    sha256(abi_pack p), and the counterparty's client verified the acknowledgement (C02). *)
Theorem C05_commitment_removed_only_by_ack : forall P, (forall x, sha256 P x <> []) ->
  forall env s a s' k h,
  exec P env s a = Ok s' -> sget k s = Some h -> sget k s' = None ->
  exists m cb1 cb2 cb3,
    a = AAck m cb1 cb2 cb3 /\ k = ckey P (triple_of (fst (decode P (am_packet m)))) /\
    ack_verified P env s m /\
    exists bz, abi_pack P (fst (decode P (am_packet m))) = Some bz /\ h = sha256 P bz.
Proof. exact commitment_removed_only_by_ack. Qed.
Print Assumptions C05_commitment_removed_only_by_ack.

(** After an accepted acknowledgement of a packet, every later acknowledgement whose packet bytes decode to the same
    triple — after ANY history — is rejected and leaves the whole state equal.  ([inv4] of the state in which the first
    acknowledgement is delivered includes "no client under the chain's own name"; that is an invariant of every history
    since fix a9e74e1 (C04_noself_invariant), so it is a premise on the initial state only — necessary:
    Refuted/C05_selfclient.v; before the fix a governance proposal could break it, as replayed on the pre-fix code by
    seeded/C05-revert-fix-o7.) *)
Theorem C05_ack_processed_once : forall P, real_keys P -> (forall x, sha256 P x <> []) ->
  forall env s m cb1 cb2 cb3 s1 ops env' m' cb1' cb2' cb3',
  inv4 P s -> exec P env s (AAck m cb1 cb2 cb3) = Ok s1 ->
  triple_of (fst (decode P (am_packet m'))) = triple_of (fst (decode P (am_packet m))) ->
  step P (run P s1 ops) (env', AAck m' cb1' cb2' cb3') = (run P s1 ops, false).
Proof. intros P K. exact (ack_processed_once P (real_keys_ok P K)). Qed.
Print Assumptions C05_ack_processed_once.

(** setAckStatus (j = 0), sendPacketFeeToRelayer (j = 1) and OnAcknowledgePacket (j = 2) persist at most once per
    (destination, sequence) in every history. *)
Theorem C05_ack_effects_at_most_once : forall P, real_keys P -> (forall x, sha256 P x <> []) ->
  forall ops s j d k,
  inv4 P s -> acklog_ok P s -> valid_name P d = true ->
  (cnt (ackev j d k) (log (st_app (run P s ops))) <= 1)%nat.
Proof. intros P K. exact (ack_effects_once P (real_keys_ok P K)). Qed.
Print Assumptions C05_ack_effects_at_most_once.

(** The WHOLE state after an accepted receive addressed to this chain ("and nothing else changes"): receipt and
    acknowledgement hash are written on the parent state in every case; the callback's effects (including the sends
    its PacketSent logs cause) are kept exactly when it returned without error and reported result code 0. *)
Theorem C05_recv_step_exact : forall P env s m cb s',
  exec P env s (ARecv m cb) = Ok s' ->
  let p := fst (decode P (rm_packet m)) in
  p_dst p = st_name s ->
  let t := triple_of p in
  let s1 := set_kv (rkey P t) receipt_value s in
  exists h,
    match cb_persists P s1 p cb with
    | Some s2 => s' = add_log (EvAckWritten t h) (set_kv (akey P t) h s2)
    | None => s' = recv_min P s t h
    end.
Proof. exact recv_step_exact. Qed.
Print Assumptions C05_recv_step_exact.

(** An accepted acknowledgement of a packet sent from this chain records the outcome, pays the relayer fee and runs
    the sender's callback EXACTLY once each in that step (j = 0 setAckStatus, 1 sendPacketFeeToRelayer,
    2 OnAcknowledgePacket), and the recorded status is 1 for acknowledgement code 0 and 2 otherwise.  Together with
    C05_ack_effects_at_most_once: exactly once per packet over the whole history. *)
Theorem C05_ack_step_effects : forall P, real_keys P -> (forall x, sha256 P x <> []) ->
  forall env s m cb1 cb2 cb3 s',
  exec P env s (AAck m cb1 cb2 cb3) = Ok s' ->
  let p := fst (decode P (am_packet m)) in
  p_src p = st_name s ->
  forall j, (j < 3)%nat ->
    cnt (ackev j (p_dst p) (p_seq p)) (log (st_app s')) = S (cnt (ackev j (p_dst p) (p_seq p)) (log (st_app s))) /\
    (exists a, decode_ack P (am_ack m) = Some a /\
               cnt (fun e => match e with
                             | EvAckStatus d q st => bytes_eqb d (p_dst p) && (q =? p_seq p) && (st =? (if a_code a =? 0 then 1 else 2))
                             | _ => false end) (log (st_app s'))
               = S (cnt (fun e => match e with
                             | EvAckStatus d q st => bytes_eqb d (p_dst p) && (q =? p_seq p) && (st =? (if a_code a =? 0 then 1 else 2))
                             | _ => false end) (log (st_app s)))).
Proof. intros P K Sh. exact (ack_step_effects P Sh). Qed.
Print Assumptions C05_ack_step_effects.

(** Every state reachable from a fresh chain (empty packet families, contract counters never set, empty ghost log, valid
    names, no self-named client) by ANY history satisfies all four
    invariants at once: [inv4] (counters agree, own commitments below the counter), [inv5] (acks have receipts; foreign
    commitments have a receipt and no ack), [log_ok] (each receive effect / written ack logged at most once, and only
    with its receipt / ack in the store), [acklog_ok] (each ack effect at most once, and only for acknowledged
    packets).  So the hypotheses [inv4] / [inv5] / [log_ok] / [acklog_ok] of the theorems above are met by every
    reachable state, not only by the example states. *)
Theorem C05_reachable_invariants : forall P, real_keys P -> (forall x, sha256 P x <> []) -> forall ops s,
  fresh P s -> all_inv P (run P s ops).
Proof. intros P K Sh. exact (reachable_all_inv P (real_keys_ok P K) Sh). Qed.
Print Assumptions C05_reachable_invariants.

(** Non-vacuity: chain A sends (A,B,1), the acknowledgement is accepted once (commitment removed, three effects
    logged once), the duplicate is rejected; chain B's receive writes exactly one ack. *)
Example C05_nonvacuous :
  inv4 exP exA /\ inv5 exP exB /\ acklog_ok exP exA /\
  let p1 := fst (ex_decode (pkt x61 x62 1)) in
  let s := run exP exA [ (1, ASend (mkCb false [(p1, true)] None));
                         (2, AAck (ack_of (pkt x61 x62 1)) cb_plain cb_plain cb_plain) ] in
  sget (ckey exP (chA, chB, 1)) s = None /\
  cnt (ackev 0 chB 1) (log (st_app s)) = 1%nat /\ cnt (ackev 1 chB 1) (log (st_app s)) = 1%nat /\
  step exP s (3, AAck (ack_of (pkt x61 x62 1)) cb_plain cb_plain cb_plain) = (s, false) /\
  match exec exP 1 exB (ARecv (recv_of (pkt x61 x62 1)) cb_ok) with
  | Ok s' => length (filter (fun kv => is_prefix (B "acks/") (fst kv)) (st_store s')) = 1%nat
  | _ => False end.
Proof.
  split; [exact exA_inv4|]. split; [exact exB_inv5|]. split; [exact (acklog_ok_empty exP exA eq_refl)|].
  vm_compute. repeat split; reflexivity.
Qed.
