(** C08 -- tie of the model to definitions REGENERATED from the Go source on every run: the JSON schema of the proof record (Gen/EvmProofSchemaGen.v, tools/gotocoq/evmproof).
    One file per regenerated item (Props/C08_schema_*.v), apart from Props/C08.v: the theorems about the model build
    whatever the translators produce, and an item a translator could not determine breaks exactly the obligations that
    read it. *)
From Teleport Require Import Base.Bytes Base.Outcome Model.EvmProof Proofs.EvmProofRlp Proofs.EvmProofSchema.
From Teleport Require Gen.EvmProofSchemaGen.
Import EvmProofSchemaGen.
Local Open Scope N_scope.

(** JSON names and Go types of the [Proof] and [StorageResult] records of both client packages (as sets: the field
    order is irrelevant to JSON) are the ones the model's [proof_rec] / [storage_result] and the honest rendering assume *)
Theorem C08_proof_json_schema_matches_go_source :
  json_schema_ok eth_Proof_fields eth_StorageResult_fields = true /\
  json_schema_ok bsc_Proof_fields bsc_StorageResult_fields = true.
Proof. split; vm_compute; reflexivity. Qed.
Print Assumptions C08_proof_json_schema_matches_go_source.
