(** C12, tie to the source, item 1: the string [TokenPair.GetID] hashes, regenerated from the Go code
    (tools/gotocoq/registry -> Gen/RegistryGen.v [getid_parts]: a normalised operand list - delegation to helpers,
    append-built preimages, Sprintf, builders are followed, so only WHAT is hashed matters).  If this file does not
    build, only this obligation is broken. *)
From Teleport Require Import Base.Bytes Base.Outcome Base.AList Model.Registry Gen.RegistryGen Proofs.RegistrySource.

(** GetID hashes  text ++ separator ++ Denoms[0]  with a separator that starts with a character no hex address contains *)
Theorem C12_source_getid : getid_shape_ok getid_parts = true.
Proof. vm_compute. reflexivity. Qed.
Print Assumptions C12_source_getid.

(** Hence the oracle hypotheses about [hid] (Props/C12.v [Oracles], first two clauses) are met by the REAL GetID - the
    regenerated concatenation under ANY hash that is collision-free with 32-byte digests (sha256, idealised): they
    are assumptions about sha256 only. *)
Theorem C12_real_getid_meets_oracles : forall H : bytes -> bytes,
  (forall x y, H x = H y -> x = y) -> (forall x, length (H x) = 32%nat) ->
  let hid := hid_of_source H getid_parts in
  (forall t d t' d', is_hex_address t = true -> is_hex_address t' = true -> hid t d = hid t' d' -> t = t' /\ d = d') /\
  (forall t d, hid t d <> []).
Proof. intros H Hi Hl. exact (source_getid_meets_oracles H Hi Hl getid_parts C12_source_getid). Qed.
Print Assumptions C12_real_getid_meets_oracles.
