(** C13 — Genesis export/import round trip preserves all module state.
    Only statements here; proofs are in Proofs/Genesis*.v. *)
From Teleport Require Import Base.Bytes Base.Outcome Base.AList Base.Fmt Gen.KeysGen Model.Keys Model.Genesis Model.GenesisCheck.
From Teleport Require Import Proofs.GenesisStore Proofs.GenesisKeys Proofs.GenesisXibc Proofs.GenesisAgg Proofs.Genesis Proofs.GenesisExample.
From Teleport Require Model.Rvesting.
Local Open Scope N_scope.

(** For EVERY well-formed state of the three modules (any mix of client types, any consensus heights and
    revision numbers — all byte patterns —, any packet traffic, any relayers, any registry content, any
    parameters; codecs, SHA-256 and HexToAddress arbitrary functions): ExportGenesis returns a genesis (no
    panic) and InitGenesis of that genesis into empty stores rebuilds the state — both KV stores key by key
    and the parameters. *)
Theorem C13_export_import_id :
  forall (CS CONS : Type) (cs_unmarshal : bytes -> option CS) (cs_marshal : CS -> bytes) (cs_type : CS -> ctype)
         (cons_unmarshal : bytes -> option CONS) (cons_marshal : CONS -> bytes)
         (rel_unmarshal : bytes -> option relayer) (rel_marshal : relayer -> bytes)
         (tp_unmarshal : bytes -> option token_pair) (tp_marshal : token_pair -> bytes)
         (sha256 hex_to_address : bytes -> bytes) (st : mstate),
    wf_state CS CONS cs_unmarshal cs_marshal cs_type cons_unmarshal cons_marshal rel_unmarshal rel_marshal
             tp_unmarshal tp_marshal sha256 hex_to_address st = true ->
    exists g, export CS CONS cs_unmarshal cs_type cons_unmarshal rel_unmarshal tp_unmarshal st = Ok g /\
              import CS CONS cs_marshal cons_marshal rel_marshal tp_marshal sha256 hex_to_address g = Ok st.
Proof. exact export_import_id. Qed.
Print Assumptions C13_export_import_id.

(** Exporting the re-imported state yields the same genesis again. *)
Theorem C13_export_idempotent :
  forall (CS CONS : Type) (cs_unmarshal : bytes -> option CS) (cs_marshal : CS -> bytes) (cs_type : CS -> ctype)
         (cons_unmarshal : bytes -> option CONS) (cons_marshal : CONS -> bytes)
         (rel_unmarshal : bytes -> option relayer) (rel_marshal : relayer -> bytes)
         (tp_unmarshal : bytes -> option token_pair) (tp_marshal : token_pair -> bytes)
         (sha256 hex_to_address : bytes -> bytes) (st : mstate) (g : genesis CS CONS),
    wf_state CS CONS cs_unmarshal cs_marshal cs_type cons_unmarshal cons_marshal rel_unmarshal rel_marshal
             tp_unmarshal tp_marshal sha256 hex_to_address st = true ->
    export CS CONS cs_unmarshal cs_type cons_unmarshal rel_unmarshal tp_unmarshal st = Ok g ->
    exists st', import CS CONS cs_marshal cons_marshal rel_marshal tp_marshal sha256 hex_to_address g = Ok st' /\
                export CS CONS cs_unmarshal cs_type cons_unmarshal rel_unmarshal tp_unmarshal st' = Ok g.
Proof. exact export_idempotent. Qed.
Print Assumptions C13_export_idempotent.

(** The xibc store alone (client and packet sub-modules share it). *)
Theorem C13_xibc_round_trip :
  forall (CS CONS : Type) (cs_unmarshal : bytes -> option CS) (cs_marshal : CS -> bytes) (cs_type : CS -> ctype)
         (cons_unmarshal : bytes -> option CONS) (cons_marshal : CONS -> bytes)
         (rel_unmarshal : bytes -> option relayer) (rel_marshal : relayer -> bytes) (s : store),
    wf_xibc CS CONS cs_unmarshal cs_marshal cs_type cons_unmarshal cons_marshal rel_unmarshal rel_marshal s = true ->
    exists g, export_xibc CS CONS cs_unmarshal cs_type cons_unmarshal rel_unmarshal s = Ok g /\
              import_xibc CS CONS cs_marshal cons_marshal rel_marshal g = Ok s.
Proof. exact xibc_round_trip. Qed.
Print Assumptions C13_xibc_round_trip.

(** The aggregate store alone. *)
Theorem C13_agg_round_trip :
  forall (tp_unmarshal : bytes -> option token_pair) (tp_marshal : token_pair -> bytes) (sha256 hex_to_address : bytes -> bytes) (s : store),
    wf_agg tp_unmarshal tp_marshal sha256 hex_to_address s = true ->
    exists ps, export_agg tp_unmarshal s = Ok ps /\ import_agg tp_marshal sha256 hex_to_address ps = Ok s.
Proof. exact agg_round_trip. Qed.
Print Assumptions C13_agg_round_trip.

(** The generic core: a sequence of store.Set calls that writes exactly the entries of a strictly sorted store —
    in any order, with any repetitions — rebuilds that store. *)
Theorem C13_writes_rebuild_store : forall w s,
  sorted s = true -> (forall kv, In kv w -> In kv s) -> (forall kv, In kv s -> In kv w) -> apply_writes w [] = s.
Proof. exact apply_writes_exact. Qed.
Print Assumptions C13_writes_rebuild_store.

(** "Well-formed" covers what the modules write.  (1) The fixed-offset parsers are exact for EVERY key: what
    IterateClients / IterateConsensusStates read from a key renders back to that key. *)
Theorem C13_parsers_exact : forall k name h,
  (iter_clients k = Got name -> k = full_client_state_key name) /\
  (iter_consensus_states k = Got (name, h) -> k = full_consensus_state_key name h /\ valid_height h = true).
Proof.
  intros k name h. split; intro H.
  - exact (proj1 (iter_clients_exact k name H)).
  - destruct (iter_consensus_states_exact k name h H) as [A [_ B]]. split; assumption.
Qed.
Print Assumptions C13_parsers_exact.

(** (2) Consensus state keys of ALL heights and revision numbers, and client state keys, are classified as such. *)
Theorem C13_client_keys_classified : forall name h,
  no_sep name = true -> valid_height h = true ->
  parse_client_key (full_consensus_state_key name h) = Some (name, consensus_state_key h) /\
  parse_consensus_state_key (consensus_state_key h) = Some h /\
  parse_client_key (full_client_state_key name) = Some (name, host_KeyClientState).
Proof. exact client_keys_classified. Qed.
Print Assumptions C13_client_keys_classified.

(** (3) The metadata keys of the Tendermint client (processed time, iteration key) of ANY height are exported
    for a Tendermint client and are neither client state nor consensus state keys. *)
Theorem C13_tm_metadata_paths : forall h,
  metadata_path TM (tm_processed_time_key h) = true /\ metadata_path TM (tm_iteration_key h) = true /\
  parse_consensus_state_key (tm_processed_time_key h) = None /\
  bytes_eqb (tm_processed_time_key h) host_KeyClientState = false /\
  parse_consensus_state_key (tm_iteration_key h) = None /\
  bytes_eqb (tm_iteration_key h) host_KeyClientState = false.
Proof. exact tm_metadata_paths. Qed.
Print Assumptions C13_tm_metadata_paths.

(** (4) Packet keys of valid (source, destination, sequence) and send-sequence keys are read back. *)
Theorem C13_packet_keys_classified : forall t a b,
  valid_triple t = true -> valid_chain_name a = true -> valid_chain_name b = true ->
  wf_packet_key packet_ack_key (packet_ack_key t) = true /\
  wf_packet_key packet_commitment_key (packet_commitment_key t) = true /\
  wf_packet_key packet_receipt_key (packet_receipt_key t) = true /\
  parse_path (next_seq_send_key a b) = Ok (a, b).
Proof. exact packet_keys_classified. Qed.
Print Assumptions C13_packet_keys_classified.

(** (5) Values written by the keepers are canonical when the codecs round-trip (the only codec assumption). *)
Theorem C13_written_values_canonical :
  forall (CS CONS : Type) (cs_unmarshal : bytes -> option CS) (cs_marshal : CS -> bytes)
         (cons_unmarshal : bytes -> option CONS) (cons_marshal : CONS -> bytes),
    (forall x, cs_unmarshal (cs_marshal x) = Some x) -> (forall x, cons_unmarshal (cons_marshal x) = Some x) ->
    (forall x, canonical_cs CS cs_unmarshal cs_marshal (cs_marshal x) = true) /\
    (forall x, canonical_cons CONS cons_unmarshal cons_marshal (cons_marshal x) = true).
Proof.
  intros CS CONS cu cm nu nm H1 H2. split; intro x; [unfold canonical_cs; rewrite H1 | unfold canonical_cons; rewrite H2]; apply bytes_eqb_refl.
Qed.
Print Assumptions C13_written_values_canonical.

(** Non-vacuity: a concrete state with consensus heights 0-47, 0-303 and revision 47, three client types whose
    names are prefixes of one another, an ETH client at block 0, relayer, packets, a disabled two-denomination
    pair: it is well-formed, its export validates, and the round trip is the identity. *)
Example C13_nonvacuous :
  m_wf_xibc T0 s0 = true /\ m_wf_agg T0 a0 = true /\ length s0 = 20%nat /\
  match m_export T0 st0 with
  | Ok g => m_validate_xibc T0 g = true /\ m_validate_agg T0 g = true /\ m_validate_rv g = true /\
            length (g_consensus _ _ (g_client _ _ g)) = 2%nat /\
            match m_import T0 g with
            | Ok st => store_eqb (st_xibc st) s0 = true /\ store_eqb (st_agg st) a0 = true /\
                       (exists g2, m_export T0 st = Ok g2 /\ genesis_eqb g g2 = true)
            | _ => False
            end
  | _ => False
  end.
Proof. vm_compute. repeat split; try reflexivity. eexists. split; reflexivity. Qed.
