(** C13 — placeholder while the proofs are being written. *)
From Teleport Require Import Base.Bytes Model.Genesis.
Example C13_placeholder : sorted [] = true.
Proof. reflexivity. Qed.
