(** C13 — Genesis export/import round trip preserves all module state.
    Only statements here; proofs are in Proofs/Genesis*.v. *)
From Coq Require Import String.
From Teleport Require Import Base.Bytes Base.Outcome Base.AList Base.Fmt Gen.KeysGen Gen.GenesisSchemaGen Model.Keys Model.Genesis Model.GenesisCheck Model.GenesisOps
  Model.GenesisSchema.
From Teleport Require Import Proofs.GenesisStore Proofs.GenesisKeys Proofs.GenesisXibc Proofs.GenesisAgg Proofs.GenesisValid Proofs.Genesis Proofs.GenesisOps Proofs.GenesisAggOps Proofs.GenesisSchema Proofs.GenesisMonitor Proofs.GenesisExample.
From Teleport Require Model.Rvesting.
Local Open Scope N_scope.

(** For EVERY well-formed state of the three modules (any mix of client types, any consensus heights and
    revision numbers — all byte patterns —, any packet traffic, any relayers, any registry content, any
    parameters; codecs, SHA-256 and HexToAddress arbitrary functions): ExportGenesis returns a genesis (no
    panic) and InitGenesis of that genesis into empty stores rebuilds the state — both KV stores key by key
    and the parameters. *)
Theorem C13_export_import_id :
  forall (CS CONS : Type) (cs_unmarshal : bytes -> option CS) (cs_marshal : CS -> bytes) (cs_type : CS -> ctype)
         (cons_unmarshal : bytes -> option CONS) (cons_marshal : CONS -> bytes)
         (rel_unmarshal : bytes -> option relayer) (rel_marshal : relayer -> bytes)
         (tp_unmarshal : bytes -> option token_pair) (tp_marshal : token_pair -> bytes)
         (sha256 hex_to_address : bytes -> bytes) (st : mstate),
    wf_state CS CONS cs_unmarshal cs_marshal cs_type cons_unmarshal cons_marshal rel_unmarshal rel_marshal
             tp_unmarshal tp_marshal sha256 hex_to_address st = true ->
    exists g, export CS CONS cs_unmarshal cs_type cons_unmarshal rel_unmarshal tp_unmarshal st = Ok g /\
              import CS CONS cs_marshal cons_marshal rel_marshal tp_marshal sha256 hex_to_address g = Ok st.
Proof. exact export_import_id. Qed.
Print Assumptions C13_export_import_id.

(** The export passes the modules' own genesis validation: for EVERY well-formed state, the genesis ExportGenesis returns
    is accepted by the three [GenesisState.Validate] functions EXACTLY when [valid_state] holds of the state — entry by entry:
    client states validate under valid chain names, every consensus state validates, has the type of its client and a
    non-zero height (zero allowed for ETH / BSC), metadata values are non-empty, relayers pass IdentifiedRelayer.Validate,
    packet entries have valid chain names, non-zero sequences and data, the native chain name is valid, the token pairs pass
    the aggregate validation, the reward parameters the rvesting validation.  "Exactly": the condition is sufficient (the
    clause of the property) AND necessary (Refuted/C13_refuted.v has a concrete witness for every conjunct), so no state
    outside [valid_state] exports a genesis that validates. *)
Theorem C13_export_validates_iff :
  forall (CS CONS : Type) (cs_unmarshal : bytes -> option CS) (cs_marshal : CS -> bytes) (cs_type : CS -> ctype)
         (cons_unmarshal : bytes -> option CONS) (cons_marshal : CONS -> bytes)
         (rel_unmarshal : bytes -> option relayer) (rel_marshal : relayer -> bytes)
         (tp_unmarshal : bytes -> option token_pair) (tp_marshal : token_pair -> bytes)
         (sha256 hex_to_address : bytes -> bytes)
         (cs_valid : CS -> bool) (cons_type : CONS -> ctype) (cons_valid : CONS -> bool) (acc_addr_ok : bytes -> bool)
         (st : mstate) (g : genesis CS CONS),
    wf_state CS CONS cs_unmarshal cs_marshal cs_type cons_unmarshal cons_marshal rel_unmarshal rel_marshal
             tp_unmarshal tp_marshal sha256 hex_to_address st = true ->
    export CS CONS cs_unmarshal cs_type cons_unmarshal rel_unmarshal tp_unmarshal st = Ok g ->
    validate CS CONS cs_type cs_valid cons_type cons_valid acc_addr_ok hex_to_address g
    = valid_state CS CONS cs_unmarshal cs_type cs_valid cons_unmarshal cons_type cons_valid rel_unmarshal acc_addr_ok
                  tp_unmarshal hex_to_address st.
Proof. exact export_validates_iff. Qed.
Print Assumptions C13_export_validates_iff.

Theorem C13_export_validates :
  forall (CS CONS : Type) (cs_unmarshal : bytes -> option CS) (cs_marshal : CS -> bytes) (cs_type : CS -> ctype)
         (cons_unmarshal : bytes -> option CONS) (cons_marshal : CONS -> bytes)
         (rel_unmarshal : bytes -> option relayer) (rel_marshal : relayer -> bytes)
         (tp_unmarshal : bytes -> option token_pair) (tp_marshal : token_pair -> bytes)
         (sha256 hex_to_address : bytes -> bytes)
         (cs_valid : CS -> bool) (cons_type : CONS -> ctype) (cons_valid : CONS -> bool) (acc_addr_ok : bytes -> bool)
         (st : mstate),
    wf_state CS CONS cs_unmarshal cs_marshal cs_type cons_unmarshal cons_marshal rel_unmarshal rel_marshal
             tp_unmarshal tp_marshal sha256 hex_to_address st = true ->
    valid_state CS CONS cs_unmarshal cs_type cs_valid cons_unmarshal cons_type cons_valid rel_unmarshal acc_addr_ok
                tp_unmarshal hex_to_address st = true ->
    exists g, export CS CONS cs_unmarshal cs_type cons_unmarshal rel_unmarshal tp_unmarshal st = Ok g /\
              validate CS CONS cs_type cs_valid cons_type cons_valid acc_addr_ok hex_to_address g = true.
Proof. exact export_validates. Qed.
Print Assumptions C13_export_validates.

(** Exporting the re-imported state yields the same genesis again. *)
Theorem C13_export_idempotent :
  forall (CS CONS : Type) (cs_unmarshal : bytes -> option CS) (cs_marshal : CS -> bytes) (cs_type : CS -> ctype)
         (cons_unmarshal : bytes -> option CONS) (cons_marshal : CONS -> bytes)
         (rel_unmarshal : bytes -> option relayer) (rel_marshal : relayer -> bytes)
         (tp_unmarshal : bytes -> option token_pair) (tp_marshal : token_pair -> bytes)
         (sha256 hex_to_address : bytes -> bytes) (st : mstate) (g : genesis CS CONS),
    wf_state CS CONS cs_unmarshal cs_marshal cs_type cons_unmarshal cons_marshal rel_unmarshal rel_marshal
             tp_unmarshal tp_marshal sha256 hex_to_address st = true ->
    export CS CONS cs_unmarshal cs_type cons_unmarshal rel_unmarshal tp_unmarshal st = Ok g ->
    exists st', import CS CONS cs_marshal cons_marshal rel_marshal tp_marshal sha256 hex_to_address g = Ok st' /\
                export CS CONS cs_unmarshal cs_type cons_unmarshal rel_unmarshal tp_unmarshal st' = Ok g.
Proof. exact export_idempotent. Qed.
Print Assumptions C13_export_idempotent.

(** The xibc store alone (client and packet sub-modules share it). *)
Theorem C13_xibc_round_trip :
  forall (CS CONS : Type) (cs_unmarshal : bytes -> option CS) (cs_marshal : CS -> bytes) (cs_type : CS -> ctype)
         (cons_unmarshal : bytes -> option CONS) (cons_marshal : CONS -> bytes)
         (rel_unmarshal : bytes -> option relayer) (rel_marshal : relayer -> bytes) (s : store),
    wf_xibc CS CONS cs_unmarshal cs_marshal cs_type cons_unmarshal cons_marshal rel_unmarshal rel_marshal s = true ->
    exists g, export_xibc CS CONS cs_unmarshal cs_type cons_unmarshal rel_unmarshal s = Ok g /\
              import_xibc CS CONS cs_marshal cons_marshal rel_marshal g = Ok s.
Proof. exact xibc_round_trip. Qed.
Print Assumptions C13_xibc_round_trip.

(** The aggregate store alone. *)
Theorem C13_agg_round_trip :
  forall (tp_unmarshal : bytes -> option token_pair) (tp_marshal : token_pair -> bytes) (sha256 hex_to_address : bytes -> bytes) (s : store),
    wf_agg tp_unmarshal tp_marshal sha256 hex_to_address s = true ->
    exists ps, export_agg tp_unmarshal s = Ok ps /\ import_agg tp_marshal sha256 hex_to_address ps = Ok s.
Proof. exact agg_round_trip. Qed.
Print Assumptions C13_agg_round_trip.

(** The generic core: a sequence of store.Set calls that writes exactly the entries of a strictly sorted store —
    in any order, with any repetitions — rebuilds that store. *)
Theorem C13_writes_rebuild_store : forall w s,
  sorted s = true -> (forall kv, In kv w -> In kv s) -> (forall kv, In kv s -> In kv w) -> apply_writes w [] = s.
Proof. exact apply_writes_exact. Qed.
Print Assumptions C13_writes_rebuild_store.

(** "Well-formed" covers what the modules write.  (1) The fixed-offset parsers are exact for EVERY key: what
    IterateClients / IterateConsensusStates read from a key renders back to that key. *)
Theorem C13_parsers_exact : forall k name h,
  (iter_clients k = Got name -> k = full_client_state_key name) /\
  (iter_consensus_states k = Got (name, h) -> k = full_consensus_state_key name h /\ valid_height h = true).
Proof.
  intros k name h. split; intro H.
  - exact (proj1 (iter_clients_exact k name H)).
  - destruct (iter_consensus_states_exact k name h H) as [A [_ B]]. split; assumption.
Qed.
Print Assumptions C13_parsers_exact.

(** (2) Consensus state keys of ALL heights and revision numbers, and client state keys, are classified as such. *)
Theorem C13_client_keys_classified : forall name h,
  no_sep name = true -> valid_height h = true ->
  parse_client_key (full_consensus_state_key name h) = Some (name, consensus_state_key h) /\
  parse_consensus_state_key (consensus_state_key h) = Some h /\
  parse_client_key (full_client_state_key name) = Some (name, host_KeyClientState).
Proof. exact client_keys_classified. Qed.
Print Assumptions C13_client_keys_classified.

(** (3) The metadata keys of the Tendermint client (processed time, iteration key) of ANY height are exported
    for a Tendermint client and are neither client state nor consensus state keys. *)
Theorem C13_tm_metadata_paths : forall h,
  metadata_path TM (tm_processed_time_key h) = true /\ metadata_path TM (tm_iteration_key h) = true /\
  parse_consensus_state_key (tm_processed_time_key h) = None /\
  bytes_eqb (tm_processed_time_key h) host_KeyClientState = false /\
  parse_consensus_state_key (tm_iteration_key h) = None /\
  bytes_eqb (tm_iteration_key h) host_KeyClientState = false.
Proof. exact tm_metadata_paths. Qed.
Print Assumptions C13_tm_metadata_paths.

(** (4) Packet keys of valid (source, destination, sequence) and send-sequence keys are read back. *)
Theorem C13_packet_keys_classified : forall t a b,
  valid_triple t = true -> valid_chain_name a = true -> valid_chain_name b = true ->
  wf_packet_key packet_ack_key (packet_ack_key t) = true /\
  wf_packet_key packet_commitment_key (packet_commitment_key t) = true /\
  wf_packet_key packet_receipt_key (packet_receipt_key t) = true /\
  parse_path (next_seq_send_key a b) = Ok (a, b).
Proof. exact packet_keys_classified. Qed.
Print Assumptions C13_packet_keys_classified.

(** (5) Values written by the keepers are canonical when the codecs round-trip (the only codec assumption). *)
Theorem C13_written_values_canonical :
  forall (CS CONS : Type) (cs_unmarshal : bytes -> option CS) (cs_marshal : CS -> bytes)
         (cons_unmarshal : bytes -> option CONS) (cons_marshal : CONS -> bytes),
    (forall x, cs_unmarshal (cs_marshal x) = Some x) -> (forall x, cons_unmarshal (cons_marshal x) = Some x) ->
    (forall x, canonical_cs CS cs_unmarshal cs_marshal (cs_marshal x) = true) /\
    (forall x, canonical_cons CONS cons_unmarshal cons_marshal (cons_marshal x) = true).
Proof.
  intros CS CONS cu cm nu nm H1 H2. split; intro x; [unfold canonical_cs; rewrite H1 | unfold canonical_cons; rewrite H2]; apply bytes_eqb_refl.
Qed.
Print Assumptions C13_written_values_canonical.

(** The hypotheses [wf_xibc] and [valid_xibc] of the theorems above are not assumptions about an arbitrary store: they
    are INVARIANTS of everything the module writes.  [step] (Model/GenesisOps.v) is one store.Set / store.Delete of
    the client keeper, a light client, the packet keeper or ResetStates under the guard its callers establish; any
    such write takes a store inside the domain to a store inside the domain ... *)
Theorem C13_writes_preserve_domain :
  forall (CS CONS : Type) (cs_unmarshal : bytes -> option CS) (cs_marshal : CS -> bytes) (cs_type : CS -> ctype) (cs_valid : CS -> bool)
         (cons_unmarshal : bytes -> option CONS) (cons_marshal : CONS -> bytes) (cons_type : CONS -> ctype) (cons_valid : CONS -> bool)
         (rel_unmarshal : bytes -> option relayer) (rel_marshal : relayer -> bytes) (acc_addr_ok : bytes -> bool) (s s' : store),
    wf_xibc CS CONS cs_unmarshal cs_marshal cs_type cons_unmarshal cons_marshal rel_unmarshal rel_marshal s = true ->
    valid_xibc CS CONS cs_unmarshal cs_type cs_valid cons_unmarshal cons_type cons_valid rel_unmarshal acc_addr_ok s = true ->
    step CS CONS cs_unmarshal cs_marshal cs_type cs_valid cons_unmarshal cons_marshal cons_type cons_valid rel_unmarshal rel_marshal
         acc_addr_ok s s' ->
    wf_xibc CS CONS cs_unmarshal cs_marshal cs_type cons_unmarshal cons_marshal rel_unmarshal rel_marshal s' = true /\
    valid_xibc CS CONS cs_unmarshal cs_type cs_valid cons_unmarshal cons_type cons_valid rel_unmarshal acc_addr_ok s' = true.
Proof.
  intros until s'. intros W V St. apply inv_iff. eapply step_inv; [|exact St]. apply inv_iff. split; assumption.
Qed.
Print Assumptions C13_writes_preserve_domain.

(** ... so EVERY store reachable from an initialised chain (all histories of guarded writes: any mix of client types,
    any heights and revision numbers, creation, update, pruning, upgrade, toggle, relayers, packet traffic, resets)
    is exported without panic to a genesis that passes validation and whose import is exactly that store. *)
Theorem C13_reachable_round_trip :
  forall (CS CONS : Type) (cs_unmarshal : bytes -> option CS) (cs_marshal : CS -> bytes) (cs_type : CS -> ctype) (cs_valid : CS -> bool)
         (cons_unmarshal : bytes -> option CONS) (cons_marshal : CONS -> bytes) (cons_type : CONS -> ctype) (cons_valid : CONS -> bool)
         (rel_unmarshal : bytes -> option relayer) (rel_marshal : relayer -> bytes) (acc_addr_ok : bytes -> bool) (s : store),
    reach CS CONS cs_unmarshal cs_marshal cs_type cs_valid cons_unmarshal cons_marshal cons_type cons_valid rel_unmarshal rel_marshal
          acc_addr_ok s ->
    wf_xibc CS CONS cs_unmarshal cs_marshal cs_type cons_unmarshal cons_marshal rel_unmarshal rel_marshal s = true /\
    valid_xibc CS CONS cs_unmarshal cs_type cs_valid cons_unmarshal cons_type cons_valid rel_unmarshal acc_addr_ok s = true /\
    exists g, export_xibc CS CONS cs_unmarshal cs_type cons_unmarshal rel_unmarshal s = Ok g /\
              import_xibc CS CONS cs_marshal cons_marshal rel_marshal g = Ok s /\
              validate_xibc CS CONS cs_type cs_valid cons_type cons_valid acc_addr_ok g = true.
Proof. exact reach_round_trip. Qed.
Print Assumptions C13_reachable_round_trip.

(** The same for the aggregate store: [wf_agg] is an invariant of the writes of the aggregate keeper ([agg_step]: register
    a pair whose id / contract / denominations are new, DeleteTokenPair of a registered pair, rewriting a pair with the
    same contract and denominations (ToggleTokenRelay), AddCoin of a new denomination) ... *)
Theorem C13_agg_writes_preserve_domain :
  forall (tp_unmarshal : bytes -> option token_pair) (tp_marshal : token_pair -> bytes) (sha256 hex_to_address : bytes -> bytes) (s s' : store),
    wf_agg tp_unmarshal tp_marshal sha256 hex_to_address s = true ->
    agg_step tp_unmarshal tp_marshal sha256 hex_to_address s s' ->
    wf_agg tp_unmarshal tp_marshal sha256 hex_to_address s' = true.
Proof. exact agg_step_wf. Qed.
Print Assumptions C13_agg_writes_preserve_domain.

(** ... so every aggregate store reachable from the empty store (any registry content: any number of pairs, any number
    of denominations per pair, disabled pairs, replaced contracts = delete + register) round-trips through its export. *)
Theorem C13_agg_reachable_round_trip :
  forall (tp_unmarshal : bytes -> option token_pair) (tp_marshal : token_pair -> bytes) (sha256 hex_to_address : bytes -> bytes) (s : store),
    agg_reach tp_unmarshal tp_marshal sha256 hex_to_address s ->
    exists ps, export_agg tp_unmarshal s = Ok ps /\ import_agg tp_marshal sha256 hex_to_address ps = Ok s.
Proof. exact agg_reach_round_trip. Qed.
Print Assumptions C13_agg_reachable_round_trip.

(** The shape of the genesis code, REGENERATED from the Go source on every run (Gen/GenesisSchemaGen.v), agrees with the
    model: the five GenesisState structs have exactly the fields the model's records transcribe (plus the two import-only
    fields of rvesting), every ExportGenesis fills exactly the state fields from the state, every InitGenesis reads and
    every validation looks at every field. *)
Theorem C13_genesis_schema_ok : schema_ok = true.
Proof. exact schema_ok_true. Qed.
Print Assumptions C13_genesis_schema_ok.

(** ... each ClientState.ExportMetadata iterates exactly what [export_metadata] of the model transcribes, and every key
    family a light client writes into its client store (every Set on a sdk.KVStore parameter in the tendermint, bsc and
    eth packages) is a consensus state key, the Tendermint processed-time key or a key format under an exported prefix. *)
Theorem C13_light_client_families_ok : lc_ok = true.
Proof. exact lc_ok_true. Qed.
Print Assumptions C13_light_client_families_ok.

(** Consequently every key of every metadata family a light client writes — for ALL arguments (heights, revision
    numbers, hashes, block numbers) — is a metadata path of its client type: exported by ExportMetadata and accepted by
    [wf_xibc] (the repaired defect D8 as a regenerated obligation). *)
Theorem C13_written_families_exported : forall (name : string) (t : ctype) (heads : list string) (head : string) (f : fmt),
  In (name, t) lc_types -> slookup name lc_store_writes = Some heads -> In head heads ->
  write_family name head = Some (FMeta f) -> forall a, metadata_path t (render f a) = true.
Proof. exact written_families_exported. Qed.
Print Assumptions C13_written_families_exported.

(** Monitor soundness: the executable monitor of the correspondence check ([mon_case], evaluated on the observations of the
    REAL code) accepts the observations the model produces for every state inside the domain of the theorems (oracles =
    the decoding tables of a case): if the code behaves like the model on a well-formed, valid state no monitor code fires. *)
Theorem C13_monitor_accepts_model : forall (T : tables) (st : mstate),
  m_wf_state T st = true -> m_valid_state T st = true -> exists c, model_case T st = Some c /\ mon_case c = [].
Proof. exact monitor_accepts_model. Qed.
Print Assumptions C13_monitor_accepts_model.

(** Non-vacuity of [reach]: twelve guarded writes (create a Tendermint client, consensus state at height 47-303 with its
    metadata, relayer, packet traffic, commitment deletion, toggle to TSS) build the 9-entry store [r10] and, after the toggle, the 6-entry store [r12]. *)
Example C13_reach_nonvacuous : m_reach T0 r12 /\ length r12 = 6%nat /\ length r10 = 9%nat.
Proof.
  split; [|split; reflexivity].
  assert (R0 : m_reach T0 r0) by (apply ReachInit; reflexivity).
  assert (R1 : m_reach T0 r1).
  { apply (ReachStep _ _ _ _ _ _ _ _ _ _ _ _ _ r0 r1 R0). change r1 with (set_client_state bytes (fun v => v) (B "abc") csT r0).
    apply StSetClientState; try reflexivity. left. reflexivity. }
  assert (R2 : m_reach T0 r2).
  { apply (ReachStep _ _ _ _ _ _ _ _ _ _ _ _ _ r1 r2 R1). change r2 with (set_consensus_state bytes (fun v => v) (B "abc") (hh 47 303) (consT 1) r1).
    apply (StSetConsensusState _ _ _ _ _ _ _ _ _ _ _ _ _ r1 (B "abc") (hh 47 303) (consT 1) TM); reflexivity. }
  assert (R3 : m_reach T0 r3).
  { apply (ReachStep _ _ _ _ _ _ _ _ _ _ _ _ _ r2 r3 R2).
    change r3 with (client_store_set (B "abc") (tm_processed_time_key (hh 47 303)) (be_bytes 8 1000) r2).
    apply (StClientStoreSet _ _ _ _ _ _ _ _ _ _ _ _ _ r2 (B "abc") _ _ TM); try reflexivity. discriminate. }
  assert (R4 : m_reach T0 r4).
  { apply (ReachStep _ _ _ _ _ _ _ _ _ _ _ _ _ r3 r4 R3).
    change r4 with (client_store_set (B "abc") (tm_iteration_key (hh 47 303)) (consensus_state_key (hh 47 303)) r3).
    apply (StClientStoreSet _ _ _ _ _ _ _ _ _ _ _ _ _ r3 (B "abc") _ _ TM); try reflexivity. discriminate. }
  assert (R5 : m_reach T0 r5).
  { apply (ReachStep _ _ _ _ _ _ _ _ _ _ _ _ _ r4 r5 R4). change r5 with (register_relayer (o_rel_marshal T0) rel1 r4).
    apply StRegisterRelayer; try reflexivity. discriminate. }
  assert (R6 : m_reach T0 r6).
  { apply (ReachStep _ _ _ _ _ _ _ _ _ _ _ _ _ r5 r6 R5). change r6 with (set_packet_ack tr1 (B "ackhash") r5).
    apply StSetPacketAck; try reflexivity. discriminate. }
  assert (R7 : m_reach T0 r7).
  { apply (ReachStep _ _ _ _ _ _ _ _ _ _ _ _ _ r6 r7 R6). change r7 with (set_packet_commitment tr2 (B "commitment") r6).
    apply StSetPacketCommitment; try reflexivity. discriminate. }
  assert (R8 : m_reach T0 r8).
  { apply (ReachStep _ _ _ _ _ _ _ _ _ _ _ _ _ r7 r8 R7). change r8 with (set_next_sequence_send (B "teleport") (B "abc") 304 r7).
    apply StSetNextSequenceSend; reflexivity. }
  assert (R9 : m_reach T0 r9).
  { apply (ReachStep _ _ _ _ _ _ _ _ _ _ _ _ _ r8 r9 R8). change r9 with (delete_packet_commitment tr2 r8).
    apply StDeletePacketCommitment; reflexivity. }
  assert (R10 : m_reach T0 r10).
  { apply (ReachStep _ _ _ _ _ _ _ _ _ _ _ _ _ r9 r10 R9). change r10 with (set_packet_receipt tr1 r9).
    apply StSetPacketReceipt; reflexivity. }
  assert (R11 : m_reach T0 r11).
  { apply (ReachStep _ _ _ _ _ _ _ _ _ _ _ _ _ r10 r11 R10). change r11 with (clear_client_store (B "abc") r10).
    apply StClearClientStore; reflexivity. }
  apply (ReachStep _ _ _ _ _ _ _ _ _ _ _ _ _ r11 r12 R11). change r12 with (set_client_state bytes (fun v => v) (B "abc") (B "tss-client-state") r11).
  apply StSetClientState; try reflexivity. left. reflexivity.
Qed.

(** Non-vacuity: a concrete state with consensus heights 0-47, 0-303 and revision 47, three client types whose
    names are prefixes of one another, an ETH client at block 0, relayer, packets, a disabled two-denomination
    pair: it is well-formed, its export validates, and the round trip is the identity. *)
(** Non-vacuity of [agg_reach]: the 4-entry aggregate store [a0] (a two-denomination pair) is one registration away from
    the empty store. *)
Example C13_agg_reach_nonvacuous :
  agg_reach (o_tp_unmarshal T0) (o_tp_marshal T0) (o_sha T0) (o_addr T0) a0 /\ length a0 = 4%nat.
Proof.
  split; [|reflexivity]. apply (AggReachStep _ _ _ _ [] a0); [apply AggReachInit|].
  change a0 with (agg_register (o_tp_marshal T0) (o_sha T0) (o_addr T0)
                    {| tp_erc20 := B "0x00000000000000000000000000000000000000a2"; tp_denoms := [B "coin"; B "ibc/XYZ"]; tp_enabled := false; tp_owner := 1 |} []).
  apply AggRegister; [discriminate | reflexivity | intros kv _; reflexivity].
Qed.

Definition C13_nonvacuous_check : bool :=
  m_wf_xibc T0 s0 && m_wf_agg T0 a0 && Nat.eqb (length s0) 20 && m_valid_xibc T0 s0 &&
  match m_export T0 st0 with
  | Ok g => m_validate_xibc T0 g && m_validate_agg T0 g && m_validate_rv g &&
            Nat.eqb (length (g_consensus _ _ (g_client _ _ g))) 2 &&
            match m_import T0 g with
            | Ok st => store_eqb (st_xibc st) s0 && store_eqb (st_agg st) a0 &&
                       match m_export T0 st with Ok g2 => genesis_eqb g g2 | _ => false end
            | _ => false
            end
  | _ => false
  end.
Example C13_nonvacuous : C13_nonvacuous_check = true.
Proof. vm_compute. reflexivity. Qed.
