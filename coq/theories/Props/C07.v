(** C07 — Tendermint client trusts only sufficiently signed, fresh, newer headers.
    Only statements here; proofs are in Proofs/Tendermint*.v.  The oracles
    (ValidatorSet.Hash, Header.Hash, signature verification per (key, vote sign
    bytes), proto decoding and ICS-23 verification of Merkle proofs) are
    universally quantified function arguments of every theorem. *)
From Teleport Require Import Base.Bytes Base.Outcome Model.Tendermint Model.TendermintCheck
  Proofs.TendermintStore Proofs.TendermintVerify Proofs.Tendermint Proofs.TendermintMonitor
  Proofs.TendermintExample Proofs.TendermintHistory Proofs.TendermintExample2 Proofs.TendermintKeys.
From Teleport Require Base.Fmt Gen.KeysGen.
Local Open Scope Z_scope.

(** [wf_header]: the relayer-supplied numbers are in the range of their Go types
    (trusted height: two uint64; header height: int64).

    ACCEPTED => every conjunct of the property's first sentence.  [signed_own]
    and [signed_trusted] are the FULL tallies (every valid block signature
    counts), not the early-exit loops of the code:
    - the trusted validator set supplied with the header hashes to the
      next-validators hash stored at the trusted height;
    - the header is newer than the trusted height, in the same revision;
    - the trusted state is within the trusting period, the header time is after
      the trusted time and before now + clock drift;
    - chain id, commit height, block hash and validator-set hash are consistent;
    - [3 * signed_own > 2 * total_own];
    - non-adjacent: [den * signed_trusted > num * total_trusted] (for a trust
      level whose fields fit Go's int64 conversion);
    - adjacent: tendermint compares the header's validator-set hash with the
      stored next-validators hash INSTEAD of tallying the trust level (O1). *)
Theorem C07_tm_accept_sound :
  forall (valset_hash : list (pubkey * Z) -> bytes) (header_hash : pheader -> bytes)
         (verify_sig : pubkey -> bytes -> pcommit -> nat -> bool)
         cs s hdr now r,
  wf_header hdr ->
  check_header_and_update_state valset_hash header_hash verify_sig cs s hdr now = Ok r ->
  exists tc tvals ttot sh h c vals tot hrev,
    get_cons s (h_trusted_height hdr) = Ok tc /\
    valset_from_proto (h_trusted_vals hdr) = Ok (tvals, ttot) /\
    valset_hash (hash_input tvals) = c_nvh tc /\
    h_signed hdr = Some sh /\ sh_header sh = Some h /\ sh_commit sh = Some c /\
    valset_from_proto (h_valset hdr) = Ok (vals, tot) /\
    parse_chain_id (hd_chain_id h) = Ok hrev /\
    hrev = h_rev (h_trusted_height hdr) /\
    Z.of_N (h_hgt (h_trusted_height hdr)) < hd_height h /\
    c_time tc + cs_trusting cs > now /\
    c_time tc < hd_time h /\ hd_time h < now + cs_drift cs /\
    hd_chain_id h = verification_chain_id cs hrev /\
    cm_height c = hd_height h /\
    header_hash h = b_hash (cm_block_id c) /\
    valset_hash (hash_input vals) = hd_vals_hash h /\
    3 * signed_own verify_sig (hd_chain_id h) c (hash_input vals) > 2 * total_of (hash_input vals) /\
    (hd_height h = Z.of_N (h_hgt (h_trusted_height hdr)) + 1 -> hd_vals_hash h = c_nvh tc) /\
    (hd_height h <> Z.of_N (h_hgt (h_trusted_height hdr)) + 1 ->
     (cs_tl_num cs < 9223372036854775808)%N -> (cs_tl_den cs < 9223372036854775808)%N ->
     Z.of_N (cs_tl_den cs) * signed_trusted verify_sig (hd_chain_id h) c (hash_input tvals)
     > Z.of_N (cs_tl_num cs) * total_of (hash_input tvals)).
Proof. exact chus_accept_sound. Qed.
Print Assumptions C07_tm_accept_sound.

(** the same through ClientKeeper.UpdateClient (client state read from the store) *)
Theorem C07_update_client_accept_sound :
  forall valset_hash header_hash verify_sig s hdr now s',
  wf_header hdr ->
  update_client valset_hash header_hash verify_sig s hdr now = Ok s' ->
  exists cs, sget client_key s = Some (VClient cs) /\
             accept_facts valset_hash header_hash verify_sig cs s hdr now.
Proof. exact update_accept_sound. Qed.
Print Assumptions C07_update_client_accept_sound.

(** ... and for every configuration ClientState.Validate admits (trust level in
    [1/3, 1] with fields at most MaxInt64 — fix d656e11) the trust-level clause of
    a NON-adjacent accepted header holds without side condition. *)
Theorem C07_accept_sound_validated :
  forall valset_hash header_hash verify_sig cs s hdr now r,
  wf_header hdr -> client_validate cs = true ->
  check_header_and_update_state valset_hash header_hash verify_sig cs s hdr now = Ok r ->
  forall sh h c tvals ttot,
  h_signed hdr = Some sh -> sh_header sh = Some h -> sh_commit sh = Some c ->
  valset_from_proto (h_trusted_vals hdr) = Ok (tvals, ttot) ->
  hd_height h <> Z.of_N (h_hgt (h_trusted_height hdr)) + 1 ->
  Z.of_N (cs_tl_den cs) * signed_trusted verify_sig (hd_chain_id h) c (hash_input tvals)
  > Z.of_N (cs_tl_num cs) * total_of (hash_input tvals).
Proof. exact accept_sound_validated. Qed.
Print Assumptions C07_accept_sound_validated.

Theorem C07_validate_trust_level :
  forall cs, client_validate cs = true ->
  (cs_tl_num cs < 9223372036854775808)%N /\ (cs_tl_den cs < 9223372036854775808)%N /\
  (0 < cs_tl_den cs)%N /\ (cs_tl_den cs <= 3 * cs_tl_num cs)%N /\ (cs_tl_num cs <= cs_tl_den cs)%N.
Proof. exact client_validate_trust_level. Qed.
Print Assumptions C07_validate_trust_level.

(** O1 made precise: if more than 2/3 of a validator set signed (what an adjacent
    header proves about the stored next set, its hash being the stored one), then
    more than ANY trust level <= 2/3 of that set signed in the sense of the
    trusted-set tally.  For a configured level above 2/3 an adjacent header needs
    only 2/3 — Refuted/C07_refuted.v: C07_adjacent_level_above_two_thirds_refuted. *)
Theorem C07_adjacent_implies_trust_level :
  forall (verify_sig : pubkey -> bytes -> pcommit -> nat -> bool) chain c vals num den,
  nonneg_powers vals ->
  3 * signed_own verify_sig chain c (hash_input vals) > 2 * total_of (hash_input vals) ->
  0 <= num -> 0 < den -> 3 * num <= 2 * den ->
  den * signed_trusted verify_sig chain c (hash_input vals) > num * total_of (hash_input vals).
Proof. exact adjacent_implies_trust_level. Qed.
Print Assumptions C07_adjacent_implies_trust_level.

(** The uniform statement of the property for an accepted ADJACENT header and a
    trust level <= 2/3: unless the header's own (key, power) list and the trusted
    list are an explicit collision of ValidatorSet.Hash, more than the trust level
    of the TRUSTED set signed. *)
Theorem C07_adjacent_uniform :
  forall valset_hash header_hash verify_sig cs s hdr now r,
  wf_header hdr ->
  check_header_and_update_state valset_hash header_hash verify_sig cs s hdr now = Ok r ->
  forall sh h c tvals ttot vals tot,
  h_signed hdr = Some sh -> sh_header sh = Some h -> sh_commit sh = Some c ->
  valset_from_proto (h_trusted_vals hdr) = Ok (tvals, ttot) ->
  valset_from_proto (h_valset hdr) = Ok (vals, tot) ->
  hd_height h = Z.of_N (h_hgt (h_trusted_height hdr)) + 1 ->
  (0 < cs_tl_den cs)%N -> (3 * cs_tl_num cs <= 2 * cs_tl_den cs)%N ->
  (hash_input vals <> hash_input tvals /\ valset_hash (hash_input vals) = valset_hash (hash_input tvals)) \/
  Z.of_N (cs_tl_den cs) * signed_trusted verify_sig (hd_chain_id h) c (hash_input tvals)
  > Z.of_N (cs_tl_num cs) * total_of (hash_input tvals).
Proof. exact adjacent_uniform. Qed.
Print Assumptions C07_adjacent_uniform.

(** ACCEPTED UpdateClient => the client store afterwards is, key by key, exactly:
    the header's time / app hash / next-validators hash at the consensus-state key
    of its height, the processing time (block time as uint64 nanoseconds) and the
    iteration key at that height, the client state with only the latest height
    possibly raised to the header's height — and nothing else touched except the
    three keys of the pruned height (the first height in iteration order, only if
    its consensus state is expired). *)
Theorem C07_tm_update_exact :
  forall valset_hash header_hash verify_sig s hdr now s',
  update_client valset_hash header_hash verify_sig s hdr now = Ok s' ->
  exists cs h hh pruned,
    sget client_key s = Some (VClient cs) /\ header_pheader hdr = Ok h /\ get_height hdr = Ok hh /\
    prune_height cs s now = Ok pruned /\
    forall k, sget k s' =
      if bytes_eqb k (cons_key hh)
      then Some (VCons {| c_time := hd_time h; c_root := hd_app_hash h; c_nvh := hd_next_vals_hash h |})
      else if bytes_eqb k client_key
           then Some (VClient (if h_gt hh (cs_latest cs) then with_latest cs hh else cs))
      else if bytes_eqb k (iter_key hh) then Some (VBytes (cons_key hh))
      else if bytes_eqb k (pt_key hh) then Some (VBytes (be64 (u64 now)))
      else if in_pruned pruned k then None else sget k s.
Proof. exact update_exact. Qed.
Print Assumptions C07_tm_update_exact.

(** the same for CheckHeaderAndUpdateState itself (which leaves client and
    consensus state to the keeper): returned states and store *)
Theorem C07_chus_update_exact :
  forall valset_hash header_hash verify_sig cs s hdr now cs' cons' s1,
  check_header_and_update_state valset_hash header_hash verify_sig cs s hdr now = Ok (cs', cons', s1) ->
  exists h hh pruned,
    header_pheader hdr = Ok h /\ get_height hdr = Ok hh /\ prune_height cs s now = Ok pruned /\
    cs' = (if h_gt hh (cs_latest cs) then with_latest cs hh else cs) /\
    cons' = new_cons_state h /\
    forall k, sget k s1 =
      if bytes_eqb k (iter_key hh) then Some (VBytes (cons_key hh))
      else if bytes_eqb k (pt_key hh) then Some (VBytes (be64 (u64 now)))
      else if in_pruned pruned k then None else sget k s.
Proof. exact chus_exact. Qed.
Print Assumptions C07_chus_update_exact.

(** read back: after an accepted update the processed time of the header's height
    is the block time of that update, and other heights keep theirs unless pruned *)
Theorem C07_processed_time_recorded :
  forall valset_hash header_hash verify_sig s hdr now s' hh,
  update_client valset_hash header_hash verify_sig s hdr now = Ok s' -> get_height hdr = Ok hh ->
  get_processed_time s' hh = Some (Ok (u64 now)) /\ get_cons s' hh <> Err.
Proof. exact processed_time_recorded. Qed.
Print Assumptions C07_processed_time_recorded.

(** the pruned height really is the EARLIEST stored one: in a sorted store (the
    iteration order of the real store, preserved by every operation of the model)
    its iteration key is the smallest key with the iteration prefix, iteration keys
    are ordered like heights, and it is pruned only when expired *)
Theorem C07_prune_is_earliest_expired :
  forall cs s now p,
  sorted s -> prune_height cs s now = Ok (Some p) ->
  (exists c, get_cons s p = Ok c /\ c_time c + cs_trusting cs <= now) /\
  exists k v, In (k, v) s /\ is_prefix iter_prefix k = true /\ height_from_iter_key k = Ok p /\
    forall h', valid_height h' -> valid_height p -> k = iter_key p ->
               sget (iter_key h') s <> None -> h_lte p h' = true.
Proof. exact prune_is_earliest_expired. Qed.
Print Assumptions C07_prune_is_earliest_expired.

(** the same without side conditions on a well-formed store (CreateClient + any
    history, C07_store_wf_invariant): the pruned height is a genuine stored height,
    expired, and no stored height is lower; and nothing is pruned while the
    earliest stored state is within the trusting period *)
Theorem C07_prune_is_earliest_expired_wf :
  forall cs s now p,
  sorted s -> wf_iter_keys s -> prune_height cs s now = Ok (Some p) ->
  valid_height p /\
  (exists c, get_cons s p = Ok c /\ c_time c + cs_trusting cs <= now) /\
  sget (iter_key p) s <> None /\
  forall h', valid_height h' -> sget (iter_key h') s <> None -> h_lte p h' = true.
Proof. exact prune_is_earliest_expired_wf. Qed.
Print Assumptions C07_prune_is_earliest_expired_wf.

Theorem C07_prune_none_when_fresh :
  forall cs s now k v h c,
  first_with_prefix iter_prefix s = Some (k, v) -> height_from_iter_key k = Ok h -> get_cons s h = Ok c ->
  c_time c + cs_trusting cs > now -> prune_height cs s now = Ok None.
Proof. exact prune_none_when_fresh. Qed.
Print Assumptions C07_prune_none_when_fresh.

(** Over ALL update histories (any headers, any clocks, any order: forward,
    skipping, back-filling; failed messages rolled back): the latest height never
    decreases and no other field of the client state changes. *)
Theorem C07_latest_monotone :
  forall valset_hash header_hash verify_sig ops s cs,
  client_of s = Some cs ->
  exists cs', client_of (run_updates valset_hash header_hash verify_sig s ops) = Some cs' /\
              same_config cs cs' /\ h_lte (cs_latest cs) (cs_latest cs') = true.
Proof. exact latest_monotone. Qed.
Print Assumptions C07_latest_monotone.

(** one accepted update: latest' = max(latest, header height) *)
Theorem C07_latest_is_max :
  forall valset_hash header_hash verify_sig s hdr now s' cs,
  client_of s = Some cs -> update_client valset_hash header_hash verify_sig s hdr now = Ok s' ->
  exists cs' hh, client_of s' = Some cs' /\ get_height hdr = Ok hh /\ same_config cs cs' /\
    cs_latest cs' = (if h_gt hh (cs_latest cs) then hh else cs_latest cs) /\
    h_lte (cs_latest cs) (cs_latest cs') = true /\ h_lte hh (cs_latest cs') = true.
Proof. exact update_latest. Qed.
Print Assumptions C07_latest_is_max.

(** An expired client (latest consensus state at or past its trusting period, or
    missing) accepts NOTHING: every header is refused. *)
Theorem C07_expired_accepts_nothing :
  forall valset_hash header_hash verify_sig s cs hdr now,
  sget client_key s = Some (VClient cs) -> status_active cs s now = false ->
  update_client valset_hash header_hash verify_sig s hdr now = Err.
Proof. exact expired_accepts_nothing. Qed.
Print Assumptions C07_expired_accepts_nothing.

Theorem C07_status_expired :
  forall cs s now lc,
  get_cons s (cs_latest cs) = Ok lc -> c_time lc + cs_trusting cs <= now -> status_active cs s now = false.
Proof. exact status_expired. Qed.
Print Assumptions C07_status_expired.

(** Proofs are honoured only against a stored height not above the latest, only
    when the proof decodes and the ICS-23 oracle accepts it against THAT height's
    root, and only after the delay since that height was processed — in unbounded
    arithmetic: [pt + delay <= now] ([cs_delay] is a Go uint64). *)
Theorem C07_proof_height_gate_and_delay_gate :
  forall (proof_decodes : bytes -> bool)
         (membership_ok : client_state -> bytes -> bytes -> bool -> (bytes * bytes * N) -> bytes -> bool)
         cs s now h proof ack path val,
  (cs_delay cs < two64N)%N ->
  verify_packet proof_decodes membership_ok cs s now h proof ack path val = Ok tt ->
  h_lte h (cs_latest cs) = true /\
  exists cons pf pt,
    get_cons s h = Ok cons /\ proof = Some pf /\ proof_decodes pf = true /\
    membership_ok cs (c_root cons) pf ack path val = true /\
    get_processed_time s h = Some (Ok pt) /\ (pt + cs_delay cs <= u64 now)%N.
Proof. exact verify_packet_gates. Qed.
Print Assumptions C07_proof_height_gate_and_delay_gate.

(** Store well-formedness — strictly sorted keys (= iteration order of the real
    store) and every key with the iteration prefix being the iteration key of a
    height — holds after CreateClient and is preserved by every history, so the
    "first in iteration order" of the pruning step is the EARLIEST height. *)
Theorem C07_store_wf_invariant :
  forall valset_hash header_hash verify_sig ops cs cons now0,
  valid_height (cs_latest cs) ->
  let s := run_updates valset_hash header_hash verify_sig (create_client [] cs cons now0) ops in
  sorted s /\ wf_iter_keys s.
Proof.
  intros vh hh vs ops cs cons now0 V. destruct (create_client_wf cs cons now0 V).
  now apply run_updates_preserves_wf.
Qed.
Print Assumptions C07_store_wf_invariant.

(** The executable monitor applied to implementation traces accepts every accepted
    step of the model (well-formed store and header, oracle tables, trust level
    fields below 2^63). *)
Theorem C07_monitor_sound_update :
  forall valid ot pre hdr now post,
  wf_header hdr -> sorted pre -> wf_iter_keys pre ->
  (forall cs, client_of pre = Some cs ->
              (cs_tl_num cs < 9223372036854775808)%N /\ (cs_tl_den cs < 9223372036854775808)%N) ->
  update_client (tab_valset_hash ot) (tab_header_hash ot) (tab_verify_sig ot) pre hdr now = Ok post ->
  mon_update valid pre post now hdr ot = [].
Proof. exact mon_update_sound. Qed.
Print Assumptions C07_monitor_sound_update.

(** ([now]: a block time that fits uint64 nanoseconds; processed times are stored
    as 8 bytes — the only writer is setConsensusMetadata) *)
Theorem C07_monitor_sound_verify :
  forall decodes member cs pre now h (proof_nil : bool) ack path val,
  client_of pre = Some cs -> (cs_delay cs < two64N)%N -> 0 <= now < two64 ->
  (forall b, sget (pt_key h) pre = Some (VBytes b) -> length b = 8%nat) ->
  verify_packet (fun _ => decodes) (fun _ _ _ _ _ _ => member) cs pre now h
                (if proof_nil then None else Some []) ack path val = Ok tt ->
  mon_verify pre pre now h proof_nil decodes member = [].
Proof. exact mon_verify_sound. Qed.
Print Assumptions C07_monitor_sound_verify.

(** "trusted state AND HEADER are within the trusting period": an accepted header
    is itself younger than the trusting period (its time lies after the trusted
    state's time, which is) and not from beyond the clock drift. *)
Theorem C07_header_within_trusting_period :
  forall valset_hash header_hash verify_sig cs s hdr now r,
  wf_header hdr ->
  check_header_and_update_state valset_hash header_hash verify_sig cs s hdr now = Ok r ->
  forall sh h, h_signed hdr = Some sh -> sh_header sh = Some h ->
  hd_time h + cs_trusting cs > now /\ hd_time h < now + cs_drift cs.
Proof. exact header_within_trusting_period. Qed.
Print Assumptions C07_header_within_trusting_period.

(** * Whole histories with a ghost log of the accepted writes

    [run_log] is [run_updates] (failed messages rolled back) carrying the list of
    accepted writes, newest first; the first event is the initial consensus state
    of CreateClient.  For EVERY history (any headers, clocks, orders): *)

(** the ghost log does not influence the store *)
Theorem C07_run_log_is_run_updates :
  forall valset_hash header_hash verify_sig ops s log,
  fst (run_log valset_hash header_hash verify_sig s log ops) = run_updates valset_hash header_hash verify_sig s ops.
Proof. intros. apply run_log_fst. Qed.
Print Assumptions C07_run_log_is_run_updates.

(** every consensus state in the store is exactly (time, app hash, next-validators
    hash) of the LAST header accepted for its height (or the initial state), its
    stored processed time is the block time at which THAT header was processed
    (a header replacing a stored height restarts the delay period), its iteration
    key is present; every iteration key has its consensus state; and every logged
    write other than the initial one is an accepted UpdateClient message of the
    history *)
Theorem C07_history_invariants :
  forall valset_hash header_hash verify_sig ops cs cons now0,
  valid_height (cs_latest cs) ->
  let r := run_log valset_hash header_hash verify_sig (create_client [] cs cons now0) [init_event cs cons now0] ops in
  recorded (fst r) (snd r) /\ iter_backed (fst r) /\
  forall e, In e (snd r) -> e = init_event cs cons now0 \/ from_ops valset_hash header_hash verify_sig ops e.
Proof.
  intros vh hh vs ops cs cons now0 V r.
  destruct (run_log_invariants vh hh vs ops _ _ (create_client_recorded cs cons now0 V) (create_client_iter_backed cs cons now0 V))
    as (R & B & L).
  split; [exact R|]. split; [exact B|]. intros e I. destruct (L e I) as [[E|[]]|F]; auto.
Qed.
Print Assumptions C07_history_invariants.

(** ... hence, after ANY history, a proof is honoured only against a height not
    above the latest, only against the app hash of the last header accepted for
    that height, and only when the configured delay has passed since that very
    header was processed ([u64] = the Go conversion uint64(UnixNano)) *)
Theorem C07_verify_after_last_processing :
  forall valset_hash header_hash verify_sig
         (proof_decodes : bytes -> bool)
         (membership_ok : client_state -> bytes -> bytes -> bool -> (bytes * bytes * N) -> bytes -> bool)
         ops cs cons now0 cs' now h proof ack path val,
  valid_height (cs_latest cs) -> valid_height h ->
  let r := run_log valset_hash header_hash verify_sig (create_client [] cs cons now0) [init_event cs cons now0] ops in
  client_of (fst r) = Some cs' -> (cs_delay cs' < two64N)%N ->
  verify_packet proof_decodes membership_ok cs' (fst r) now h proof ack path val = Ok tt ->
  h_lte h (cs_latest cs') = true /\
  exists e pf, latest_event h (snd r) = Some e /\ proof = Some pf /\ proof_decodes pf = true /\
    membership_ok cs' (c_root (ev_cons e)) pf ack path val = true /\
    (u64 (ev_now e) + cs_delay cs' <= u64 now)%N.
Proof.
  intros vh hh vs pd mo ops cs cons now0 cs' now h proof ack path val V Vh r Hc Hd Hv.
  destruct (run_log_invariants vh hh vs ops _ _ (create_client_recorded cs cons now0 V) (create_client_iter_backed cs cons now0 V))
    as (R & _ & _).
  eapply verify_after_last_processing; eauto.
Qed.
Print Assumptions C07_verify_after_last_processing.

(** the pruning step of CheckHeaderAndUpdateState never fails after any history
    (its "this error should never occur" branch is dead on reachable stores, so a
    client is never wedged by it) *)
Theorem C07_prune_never_fails :
  forall valset_hash header_hash verify_sig ops cs cons now0 cs1 now,
  valid_height (cs_latest cs) ->
  exists p, prune_height cs1 (run_updates valset_hash header_hash verify_sig (create_client [] cs cons now0) ops) now = Ok p.
Proof.
  intros vh hh vs ops cs cons now0 cs1 now V.
  destruct (run_log_invariants vh hh vs ops _ _ (create_client_recorded cs cons now0 V) (create_client_iter_backed cs cons now0 V))
    as (_ & B & _).
  rewrite run_log_fst in B.
  destruct (create_client_wf cs cons now0 V) as [S W].
  destruct (run_updates_preserves_wf vh hh vs ops _ S W) as [_ W'].
  now apply prune_never_fails.
Qed.
Print Assumptions C07_prune_never_fails.

(** the trace-history monitor (kinds 26/27: delay counted from the step of the trace
    that last stored a header at the proof height; stored state = that header's)
    accepts every proof the model honours after any history *)
Theorem C07_monitor_sound_verify_history :
  forall (proof_decodes : bytes -> bool)
         (membership_ok : client_state -> bytes -> bytes -> bool -> (bytes * bytes * N) -> bytes -> bool)
         tl rest s cs now h proof ack path val,
  recorded s (tl ++ rest) -> valid_height h -> client_of s = Some cs -> (cs_delay cs < two64N)%N ->
  0 <= now < two64 ->
  verify_packet proof_decodes membership_ok cs s now h proof ack path val = Ok tt ->
  mon_verify_hist tl s now h = [].
Proof. exact mon_verify_hist_sound. Qed.
Print Assumptions C07_monitor_sound_verify_history.

(** * The model's store keys are the Go key builders (regenerated on every run by
    tools/gotocoq/keys from host/keys.go and tendermint/types/store.go) *)
Theorem C07_keys_are_the_go_key_builders :
  (forall h, Fmt.render KeysGen.host_ConsensusStateKey (height_args h) = cons_key h) /\
  (forall h, Fmt.render KeysGen.tm_ProcessedTimeKey (height_args h) = pt_key h) /\
  (forall h, Fmt.render KeysGen.tm_IterationKey (height_args h) = iter_key h) /\
  Fmt.render KeysGen.host_ClientStateKey [] = client_key /\
  KeysGen.tm_KeyIterateConsensusStatePrefix = iter_prefix.
Proof.
  split; [exact cons_key_gen|]. split; [exact pt_key_gen|]. split; [exact iter_key_gen|].
  split; [exact client_key_gen | reflexivity].
Qed.
Print Assumptions C07_keys_are_the_go_key_builders.

(** Non-vacuity: a concrete client and a concrete header (two validators, toy
    oracles: the signature of a key is the key) that IS accepted, skipping from
    height 5 to height 9, and raises the latest height. *)
Example C07_nonvacuous :
  exists s', update_client nv_valset_hash nv_header_hash nv_verify_sig nv_store nv_header nv_now = Ok s' /\
             wf_header nv_header /\ sorted nv_store /\
             match client_of s' with Some cs' => cs_latest cs' = mkH 2 9 | None => False end.
Proof. exact nonvacuous. Qed.
Print Assumptions C07_nonvacuous.

(** Non-vacuity of the history theorems: a concrete history (skip, adjacent update
    pruning the expired initial state, a second header replacing height 10, proofs
    refused one tick before and honoured at processed time + delay, everything
    refused once the latest state is expired). *)
Example C07_history_nonvacuous :
  length (snd h2_result) = 4%nat /\
  (match client_of (fst h2_result) with Some cs => cs_latest cs = mkH 2 10 | None => False end) /\
  get_cons (fst h2_result) (mkH 2 5) = Err /\
  get_cons (fst h2_result) (mkH 2 9) <> Err /\
  get_cons (fst h2_result) (mkH 2 10) = Ok {| c_time := 1101; c_root := [x01; x02]; c_nvh := nv_valset_hash (nv_inp nv_own) |} /\
  get_processed_time (fst h2_result) (mkH 2 10) = Some (Ok 1115%N) /\
  h2_verify 1144 (mkH 2 10) = Err /\ h2_verify 1145 (mkH 2 10) = Ok tt /\ h2_verify 1144 (mkH 2 9) = Ok tt /\
  h2_verify 5000 (mkH 2 11) = Err /\ h2_verify 5000 (mkH 2 5) = Err /\
  update_client nv_valset_hash nv_header_hash nv_verify_sig (fst h2_result)
    (nv_mk_header 11 2100 nv_own nv_own nv_own (mkH 2 10) [nv_sig x01 2100; nv_sig x03 2100]) 2101 = Err /\
  (match update_client nv_valset_hash nv_header_hash nv_verify_sig (fst h2_result)
    (nv_mk_header 11 2099 nv_own nv_own nv_own (mkH 2 10) [nv_sig x01 2099; nv_sig x03 2099]) 2100 with Ok _ => True | _ => False end).
Proof. exact history_nonvacuous. Qed.
Print Assumptions C07_history_nonvacuous.
