(** C08 -- tie of the model to definitions REGENERATED from the Go source on every run: the key formats (Gen/KeysGen.v, tools/gotocoq/keys).
    One file per regenerated item (Props/C08_schema_*.v), apart from Props/C08.v: the theorems about the model build
    whatever the translators produce, and an item a translator could not determine breaks exactly the obligations that
    read it. *)
From Teleport Require Import Base.Bytes Base.Outcome Model.EvmProof Proofs.EvmProofKeys.
From Teleport Require Base.Fmt Gen.KeysGen.
Local Open Scope N_scope.

(** The slot pre-images ([path ++ pad32(208)], hashed by [proof_key]) and the consensus-state store key of
    the model are the key builders of the Go source: they equal the renderings of the format terms that
    tools/gotocoq/keys regenerates from host/keys.go and {eth,bsc}/types/keys.go on every run (Gen/KeysGen.v);
    a changed Go key builder breaks this obligation. *)
Theorem C08_keys_match_go_source :
  (forall src dst seq,
     Fmt.render KeysGen.eth_ProofKeyConstructor_GetPacketCommitmentProofKey_preimage (path_args src dst seq)
     = packet_path false src dst seq ++ pad32_208 /\
     Fmt.render KeysGen.eth_ProofKeyConstructor_GetAckProofKey_preimage (path_args src dst seq)
     = packet_path true src dst seq ++ pad32_208 /\
     Fmt.render KeysGen.bsc_ProofKeyConstructor_GetPacketCommitmentProofKey_preimage (path_args src dst seq)
     = packet_path false src dst seq ++ pad32_208 /\
     Fmt.render KeysGen.bsc_ProofKeyConstructor_GetAckProofKey_preimage (path_args src dst seq)
     = packet_path true src dst seq ++ pad32_208) /\
  (forall h, Fmt.render KeysGen.host_ConsensusStateKey [Fmt.VN (rn h); Fmt.VN (rh h)] = consensus_key h).
Proof. exact keys_match_go_source. Qed.
Print Assumptions C08_keys_match_go_source.

