(** C09 — the BSC client accepts only the next block sealed by an eligible validator.
    Only statements here; definitions: Model/Bsc.v (the client), Proofs/BscInv.v ([reach]: histories since
    creation with their ghost chain [gblock], [kept], [last_epoch_extra]), Model/BscCheck.v (monitor functions);
    proofs: Proofs/Bsc*.v.

    [HH] (header hash = keccak256(rlp(header))) and [ER] (signer recovery from the seal) are arbitrary functions:
    the theorems hold for every hash function and every recovery function, "sealed by X" MEANS [ER chain h]
    returns X.  Premises [wf_hdr h] (number and extra-data length are below 2^64, as for every Go value) and
    [0 < h_num h] (the block number does not wrap around 2^64) are range facts, not behavioural assumptions. *)
From Teleport Require Import Base.Bytes Base.Outcome Model.Bsc Model.BscCheck Model.BscToy Model.BscRlp
  Proofs.BscBase Proofs.Bsc Proofs.BscInv Proofs.BscThm Proofs.BscMon Proofs.BscRlp Proofs.BscChain Proofs.BscGenTie Proofs.BscComplete.
From Teleport Require Gen.BscConstsGen Gen.KeysGen Base.Fmt.
Local Open Scope N_scope.

(** A header accepted by CheckHeaderAndUpdateState (in ANY client state and store) is the direct child of the
    head, structurally valid, sealed by its coinbase, which is a member of the validator set, is not blocked by
    the recent-signer map, and carries the difficulty of its turn. *)
Theorem C09_accept_sound : forall HH ER bt cs st h st' cs' c',
  check_header_and_update HH ER bt cs st h = (st', ROk (cs', c')) ->
  exists signer,
    (* direct child of the head: number + 1 (in uint64) and parent hash *)
    h_num (c_header cs) = sub64 (h_num h) 1 /\ HH (c_header cs) = to_hash (h_parent h) /\
    (* structure: extra data, zero mix digest, no uncles, difficulty not 0, bloom / nonce lengths *)
    97 <= len (h_extra h) /\ c_epoch cs <> 0 /\
    (if h_num h mod c_epoch cs =? 0 then (len (h_extra h) - 97) mod 20 = 0 else len (h_extra h) = 97) /\
    to_hash (h_mix h) = zeros 32 /\ to_hash (h_uncle h) = uncleHash /\
    len (h_bloom h) <= 256 /\ len (h_nonce h) <= 8 /\
    (* gas: limit <= 2^63-1, used <= limit, |parent - limit| < parent/256 and limit >= 5000 (C09_gas_bound_arith) *)
    h_gaslimit h <= 9223372036854775807 /\ h_gasused h <= h_gaslimit h /\
    gas_bound_bad (h_gaslimit (c_header cs)) (h_gaslimit h) = false /\
    (* sealed by the coinbase, a member of the current validator set *)
    sealer ER (c_chain cs) h = Some signer /\ signer = to_addr (h_coinbase h) /\
    In signer (map to_addr (c_vals cs)) /\
    (* not among the stored recent signers that still count *)
    recently_signed (recents st) signer (h_num h) (limit_of_vals (c_vals cs)) = false /\
    (* in-turn / out-of-turn difficulty, the turn taken over the byte-wise sorted validator list *)
    N_of_bytes (h_diff h) = (if inturn cs signer then 2 else 1).
Proof.
  intros HH ER bt cs st h st' cs' c' H.
  destruct (accept_sound HH ER _ _ _ _ _ _ _ H) as (signer & A & D). exists signer.
  destruct A. repeat (split; [assumption|]). exact D.
Qed.
Print Assumptions C09_accept_sound.

(** Conversely (the listed conditions are SUFFICIENT, the model rejects nothing for another reason): a header that
    meets every conjunct of [C09_accept_sound] is accepted, provided the consensus state of the head is in the store
    (always so in a reachable state: [C09_consensus_states_history]) and the head can be hashed (bloom <= 256 and
    nonce <= 8 bytes: so for every head that was itself accepted). *)
Theorem C09_accept_complete : forall HH ER bt cs st h signer,
  get_cons st (hheight (c_header cs)) <> None ->
  len (h_bloom (c_header cs)) <= 256 -> len (h_nonce (c_header cs)) <= 8 ->
  h_num (c_header cs) = sub64 (h_num h) 1 -> HH (c_header cs) = to_hash (h_parent h) ->
  97 <= len (h_extra h) -> c_epoch cs <> 0 ->
  (if h_num h mod c_epoch cs =? 0 then (len (h_extra h) - 97) mod 20 = 0 else len (h_extra h) = 97) ->
  to_hash (h_mix h) = zeros 32 -> to_hash (h_uncle h) = uncleHash ->
  len (h_bloom h) <= 256 -> len (h_nonce h) <= 8 ->
  (0 < h_num h -> N_of_bytes (h_diff h) mod two64 <> 0) ->
  h_gaslimit h <= 9223372036854775807 -> h_gasused h <= h_gaslimit h ->
  gas_bound_bad (h_gaslimit (c_header cs)) (h_gaslimit h) = false ->
  sealer ER (c_chain cs) h = Some signer -> signer = to_addr (h_coinbase h) ->
  In signer (map to_addr (c_vals cs)) ->
  recently_signed (recents st) signer (h_num h) (limit_of_vals (c_vals cs)) = false ->
  N_of_bytes (h_diff h) = (if inturn cs signer then 2 else 1) ->
  exists st' cs' c', check_header_and_update HH ER bt cs st h = (st', ROk (cs', c')).
Proof.
  intros HH ER bt cs st h signer G T1 T2 A9 A10 A3 A7 A8 A4 A5 A1 A2 A6 A11 A12 A13 A14 A15 A16 A17 D.
  apply (accept_complete HH ER bt cs st h signer G).
  - unfold tobsc_ok. apply andb_true_iff. split; apply N.leb_le; assumption.
  - constructor; assumption.
  - exact D.
Qed.
Print Assumptions C09_accept_complete.

(** The gas bound in ordinary arithmetic: |parent - limit| < parent/256 and limit >= 5000, for every parent
    limit (before the repair ff33d14 only for parent limits that fit an int64, Refuted/C09_refuted.v). *)
Theorem C09_gas_bound_arith : forall parent_limit limit,
  gas_bound_bad parent_limit limit = false <->
  (if limit <=? parent_limit then parent_limit - limit else limit - parent_limit) < parent_limit / 256 /\ 5000 <= limit.
Proof. exact gas_bound_math. Qed.
Print Assumptions C09_gas_bound_arith.

(** The list the turn is taken over is strictly ascending byte-wise and has exactly the members of the
    validator list (as 20-byte addresses). *)
Theorem C09_turn_list : forall vals,
  ascending (sorted_vals vals) /\ forall x, In x (sorted_vals vals) <-> In x (map to_addr vals).
Proof. intro vals. split; [apply sorted_vals_ascending | intro x; apply In_sorted_vals]. Qed.
Print Assumptions C09_turn_list.

(** The recent-signer window, over ALL histories since creation (any interleaving of accepted, rejected and
    panicking submissions, any revision numbers chosen by relayers, any trusting-period pruning): the sealer
    accepted at number n sealed none of the blocks b that lie within the last [limit - 1 = floor(N/2)] blocks
    (n < number b + limit, N = size of the de-duplicated set) and are [kept], i.e. were not dropped from the
    window by a smaller retention limit in between (Parlia semantics when the set shrinks and grows again:
    [gb_eff j] is the limit in force after block j). *)
Theorem C09_recents_window : forall HH ER cs st ch bt h st' cs',
  reach HH ER (cs, st) ch -> wf_hdr h -> 0 < h_num h ->
  update_client HH ER bt cs st h = (st', ROk cs') ->
  exists signer, sealer ER (c_chain cs) h = Some signer /\
    forall b, In b ch -> kept ch b -> h_num h < gnum b + limit_of_vals (c_vals cs) -> gb_sealer b <> signer.
Proof. exact recents_window. Qed.
Print Assumptions C09_recents_window.

(** Readable special case: if the retention limit has not been below the current limit since block b
    (e.g. the set size did not change), none of the last floor(N/2) blocks was sealed by the new sealer. *)
Theorem C09_recents_window_simple : forall HH ER cs st ch bt h st' cs',
  reach HH ER (cs, st) ch -> wf_hdr h -> 0 < h_num h ->
  update_client HH ER bt cs st h = (st', ROk cs') ->
  exists signer, sealer ER (c_chain cs) h = Some signer /\
    forall b, In b ch -> h_num h < gnum b + limit_of_vals (c_vals cs) ->
              (forall j, In j ch -> gnum b < gnum j -> limit_of_vals (c_vals cs) <= gb_eff j) ->
              gb_sealer b <> signer.
Proof. exact recents_window_simple. Qed.
Print Assumptions C09_recents_window_simple.

(** The stored recent signers are exactly sealers of accepted blocks: every entry is (height, sealer) of an
    accepted block (or of the creation block), every kept block has its entry, keys are unique. *)
Theorem C09_recents_store_exact : forall HH ER k ch,
  reach HH ER k ch ->
  (forall key v, In (key, v) (recents (snd k)) -> exists b, In b ch /\ gkey b = key /\ gb_sealer b = v) /\
  (forall b, In b ch -> kept ch b -> In (gkey b, gb_sealer b) (recents (snd k))) /\
  NoDup (map fst (recents (snd k))).
Proof. exact recents_genuine. Qed.
Print Assumptions C09_recents_store_exact.

(** The validator list changes only when number mod epoch = len(current list)/2, and then to the list parsed
    from the extra data of the last accepted epoch header (the creation header counts; a header that is itself
    an epoch header counts for its own switch); the pending set in the store is always that list. *)
Theorem C09_valset_changes_only_at_offset : forall HH ER cs st ch bt h st' cs',
  reach HH ER (cs, st) ch ->
  update_client HH ER bt cs st h = (st', ROk cs') ->
  exists x0, last_epoch_extra (c_epoch cs) ch = Some x0 /\
    let x := if h_num h mod c_epoch cs =? 0 then h_extra h else x0 in
    c_vals cs' = (if h_num h mod c_epoch cs =? len (c_vals cs) / 2 then parse_validators x else c_vals cs) /\
    pending st' = pend_of (parse_validators x).
Proof. exact valset_changes_only_at_offset. Qed.
Print Assumptions C09_valset_changes_only_at_offset.

(** An accepted update makes the header the head (number = head + 1), stores (time, height, state root) of
    the header as the consensus state of its height, leaves every other client-state field unchanged, and
    changes no other consensus state except that the expired earliest one may be pruned. *)
Theorem C09_consensus_root : forall HH ER bt cs st h st' cs',
  update_client HH ER bt cs st h = (st', ROk cs') ->
  c_header cs' = h /\ h_num (c_header cs) = sub64 (h_num h) 1 /\
  c_chain cs' = c_chain cs /\ c_epoch cs' = c_epoch cs /\ c_interval cs' = c_interval cs /\
  c_contract cs' = c_contract cs /\ c_trust cs' = c_trust cs /\
  get_cons st' (hheight h) = Some {| cs_time := h_time h; cs_height := hheight h; cs_root := h_root h |} /\
  forall k, k <> hheight h ->
    get_cons st' k = get_cons st k \/ (prune_target bt cs st = Some k /\ get_cons st' k = None).
Proof. exact consensus_root. Qed.
Print Assumptions C09_consensus_root.

(** Over histories: under the height of an accepted block there is its consensus state or (after pruning)
    nothing, the head's is present, and the store holds no consensus state of anything else. *)
Theorem C09_consensus_states_history : forall HH ER k ch,
  reach HH ER k ch ->
  (forall b, In b ch -> get_cons (snd k) (gkey b) = Some (gb_cons b) \/ get_cons (snd k) (gkey b) = None) /\
  (forall b rest, ch = b :: rest -> gb_hdr b = c_header (fst k) /\ get_cons (snd k) (gkey b) = Some (gb_cons b)) /\
  (forall key c, In (key, c) (cons (snd k)) -> exists b, In b ch /\ gkey b = key /\ gb_cons b = c).
Proof. exact consensus_states_history. Qed.
Print Assumptions C09_consensus_states_history.

(** A rejected (or panicking) raw CheckHeaderAndUpdateState call leaves the store untouched, except that a
    header failing ONLY the difficulty test (code 13) leaves the recent-signer entry that SetSigner wrote before
    that test — which is why the call has to run inside a transaction (BaseApp discards it: [deliver]). *)
Theorem C09_rejected_writes : forall HH ER bt cs st h st',
  (exists k, check_header_and_update HH ER bt cs st h = (st', RErr k)) \/
  check_header_and_update HH ER bt cs st h = (st', RPanic) ->
  st' = st \/
  exists signer, sealer ER (c_chain cs) h = Some signer /\ st' = set_signer st (hheight h) signer /\
                 check_header_and_update HH ER bt cs st h = (st', RErr 13).
Proof. exact rejected_writes. Qed.
Print Assumptions C09_rejected_writes.

(** [reach] covers every history: running any list of submissions (rejected and panicking ones leave the state
    unchanged — BaseApp discards a failed transaction) from a reachable state ends in a reachable state whose
    chain extends the old one. *)
Theorem C09_all_histories : forall HH ER steps k ch,
  reach HH ER k ch ->
  Forall (fun s => wf_hdr (snd s) /\ 0 < h_num (snd s)) steps ->
  exists ch', reach HH ER (run HH ER k steps) (ch' ++ ch).
Proof. exact run_reach. Qed.
Print Assumptions C09_all_histories.

(** Every header the model accepts in a reachable state passes the conjunct functions that the monitor
    evaluates on the implementation's trace (Model/BscCheck.v, kinds 21-27). *)
Theorem C09_monitor_sound : forall HH ER cs st ch bt h st' cs',
  reach HH ER (cs, st) ch -> wf_hdr h -> 0 < h_num h ->
  update_client HH ER bt cs st h = (st', ROk cs') ->
  exists x0, last_epoch_extra (c_epoch cs) ch = Some x0 /\
    let rec := ER (c_chain cs) h in
    let sealer := match rec with Some a => to_addr a | None => [] end in
    let epoch_extra := if h_num h mod c_epoch cs =? 0 then h_extra h else x0 in
    mon_link (HH (c_header cs)) (c_header cs) h = true /\
    mon_struct (c_epoch cs) (c_header cs) h = true /\
    mon_seal rec (c_vals cs) h = true /\
    mon_window (map tog ch) (h_num h) (nodup_len (c_vals cs) / 2 + 1) sealer = [] /\
    mon_diff (c_vals cs) (c_header cs) h sealer = true /\
    mon_vals (c_epoch cs) h (c_vals cs) (c_vals cs') epoch_extra = true /\
    mon_pending (pending st') epoch_extra = true.
Proof. exact monitor_sound. Qed.
Print Assumptions C09_monitor_sound.

(** The accepted headers form ONE chain, over all histories since creation: any two neighbours [b2], [b1] of the
    ghost chain have consecutive numbers, [b2] names the hash of [b1] as its parent, and both were sealed by the
    account they name as coinbase (the creation block included). *)
Theorem C09_chain_linked : forall HH ER k ch pre b2 b1 t,
  reach HH ER k ch -> ch = pre ++ b2 :: b1 :: t ->
  gnum b2 = gnum b1 + 1 /\ HH (gb_hdr b1) = to_hash (h_parent (gb_hdr b2)) /\
  (sealer ER (c_chain (fst k)) (gb_hdr b2) = Some (gb_sealer b2) /\ gb_sealer b2 = to_addr (h_coinbase (gb_hdr b2))) /\
  (sealer ER (c_chain (fst k)) (gb_hdr b1) = Some (gb_sealer b1) /\ gb_sealer b1 = to_addr (h_coinbase (gb_hdr b1))).
Proof. intros HH ER k ch pre b2 b1 t HR E. exact (chain_neighbours HH ER k ch pre b2 b1 t HR E). Qed.
Print Assumptions C09_chain_linked.

(** ** The oracles opened (Model/BscRlp.v): [HH] = keccak256 of the RLP of the normalised header, [ER] = signature
    recovery on keccak256 of the RLP of (chain id, raw fields, extra data without the seal).  [keccak] and
    [recover] stay arbitrary functions. *)

(** "Sealed by X" covers the chain id and every field of the header except the revision number and the seal
    itself: two (chain id, header) pairs have the same signed bytes iff they agree on all of those. *)
Theorem C09_seal_covers : forall c1 h1 c2 h2,
  enc_ranges c1 h1 -> enc_ranges c2 h2 ->
  (seal_rlp c1 h1 = seal_rlp c2 h2 <-> c1 = c2 /\ sealed_part h1 = sealed_part h2).
Proof. exact seal_rlp_covers. Qed.
Print Assumptions C09_seal_covers.

(** Equal seal digests: equal signed content, or two different byte strings with the same keccak256. *)
Theorem C09_seal_hash_binds : forall keccak c1 h1 c2 h2,
  enc_ranges c1 h1 -> enc_ranges c2 h2 ->
  seal_hash keccak c1 h1 = seal_hash keccak c2 h2 ->
  (c1 = c2 /\ sealed_part h1 = sealed_part h2) \/ (exists a b, a <> b /\ keccak a = keccak b).
Proof. exact seal_hash_binds. Qed.
Print Assumptions C09_seal_hash_binds.

(** The parent hash binds the whole normalised parent header (numbers below 2^63; from 2^63 on the hash is
    keccak256("") for every header: Refuted/C09_refuted.v, [C09_block_hash_above_2p63_refuted]). *)
Theorem C09_block_hash_binds : forall keccak c1 h1 c2 h2,
  enc_ranges c1 h1 -> enc_ranges c2 h2 -> h_num h1 < two63 -> h_num h2 < two63 ->
  block_hash keccak h1 = block_hash keccak h2 ->
  hashed_part h1 = hashed_part h2 \/ (exists a b, a <> b /\ keccak a = keccak b).
Proof. exact block_hash_binds. Qed.
Print Assumptions C09_block_hash_binds.

(** Acceptance in terms of keccak256 and signature recovery: the account recovered from the last 65 bytes of the
    extra data over keccak256(seal_rlp chain h) is the coinbase and a member of the validator list, and the parent
    field is keccak256(block_rlp head). *)
Theorem C09_accept_sound_opened : forall keccak recover bt cs st h st' cs' c',
  check_header_and_update (block_hash keccak) (seal_recover keccak recover) bt cs st h = (st', ROk (cs', c')) ->
  exists account,
    65 <= len (h_extra h) /\
    recover (keccak (seal_rlp (c_chain cs) h)) (extra_seal (h_extra h)) = Some account /\
    to_addr account = to_addr (h_coinbase h) /\ In (to_addr account) (map to_addr (c_vals cs)) /\
    keccak (block_rlp (c_header cs)) = to_hash (h_parent h).
Proof. exact accept_sound_opened. Qed.
Print Assumptions C09_accept_sound_opened.

(** The mechanical parts of the model are the ones REGENERATED from the Go source on this run
    (tools/gotocoq/bscconsts -> Gen/BscConstsGen.v): the list the sealer signs (elements, order, encoding of each),
    the list hashed for the block hash (fields of BscHeader in order, their types, what ToBscHeader fills them with;
    the encoding of each agrees with its Go type), the constants of bsc.go and the registered error codes. *)
Theorem C09_source_tie :
  seal_schema_view = BscConstsGen.bsc_seal_items /\
  block_schema_view = BscConstsGen.bsc_block_items /\ block_kinds_ok = true /\
  (forall k v, In (k, v) model_consts -> lookup k BscConstsGen.bsc_consts = Some v) /\
  (forall k v, In (k, v) model_codes -> lookup k BscConstsGen.bsc_error_codes = Some v).
Proof. exact gen_tie. Qed.
Print Assumptions C09_source_tie.

(** The store keys of the model are the key builders regenerated from store.go / host/keys.go (tools/gotocoq/keys):
    recentSingers/<rev>-<height> in decimal, consensusStates/<BE64 rev><BE64 height>, pendingValidators. *)
Theorem C09_store_keys_tie : forall rev num v, rev < two64 -> num < two64 ->
  recent_key (rev, num) = Fmt.render KeysGen.bsc_keyRecentSinger [Fmt.VN rev; Fmt.VN num; Fmt.VS v] /\
  cons_key (rev, num) = Fmt.render KeysGen.host_ConsensusStateKey [Fmt.VN rev; Fmt.VN num] /\
  pending_key = KeysGen.bsc_PrefixPendingValidators.
Proof. exact keys_tie. Qed.
Print Assumptions C09_store_keys_tie.

(** Non-vacuity (toy oracles of Model/BscToy.v, five validators, limit 3, created at height 0): blocks 1, 2, 3
    and 4 are accepted; B, the sealer of block 1, is rejected for block 2 and for block 3 (error 12 = recently
    signed; these are the inputs the code before repair c10316e accepted, Refuted/C09_refuted.v) and accepted
    again for block 4. *)
Example C09_nonvacuous_run :
  exists st0,
    create_client toy_er cs5 c5 = (st0, ROk tt) /\
    let d k bt h := deliver toy_hash toy_er bt k h in
    let k1 := fst (d (cs5, st0) 1010 b1) in
    let k2 := fst (d k1 1010 b2) in
    let k3 := fst (d k2 1010 b3) in
    snd (d (cs5, st0) 1010 b1) = ROk tt /\ snd (d k1 1010 b2_same) = RErr 12 /\
    snd (d k1 1010 b2) = ROk tt /\ snd (d k2 1010 b3_recent) = RErr 12 /\
    snd (d k2 1010 b3) = ROk tt /\ snd (d k3 1010 b4) = ROk tt /\
    map fst (recents (snd (fst (d k3 1010 b4)))) = [(0, 2); (0, 3); (0, 4)].
Proof. eexists. split; [vm_compute; reflexivity|]. vm_compute. repeat split; reflexivity. Qed.

(** Non-vacuity of [reach]: the same history is a reachable state with a four-block chain. *)
Example C09_nonvacuous_reach :
  exists k ch, reach toy_hash toy_er k ch /\ length ch = 4%nat /\ h_num (c_header (fst k)) = 3.
Proof.
  assert (Hw : forall h, h_num h < 100 -> len (h_extra h) < 1000 -> wf_hdr h).
  { intros h H1 H2. unfold wf_hdr. rewrite two64_val. split; lia. }
  eexists. eexists. split.
  - eapply (reach_step toy_hash toy_er _ _ _ 1010 b3).
    + eapply (reach_step toy_hash toy_er _ _ _ 1010 b2).
      * eapply (reach_step toy_hash toy_er _ _ _ 1010 b1).
        -- eapply (reach_create toy_hash toy_er cs5 c5).
           ++ vm_compute. reflexivity.
           ++ vm_compute. reflexivity.
           ++ apply Hw; vm_compute; reflexivity.
           ++ vm_compute. reflexivity.
        -- vm_compute. reflexivity.
        -- vm_compute. reflexivity.
        -- apply Hw; vm_compute; reflexivity.
        -- vm_compute. reflexivity.
      * vm_compute. reflexivity.
      * vm_compute. reflexivity.
      * apply Hw; vm_compute; reflexivity.
      * vm_compute. reflexivity.
    + vm_compute. reflexivity.
    + vm_compute. reflexivity.
    + apply Hw; vm_compute; reflexivity.
    + vm_compute. reflexivity.
  - split; reflexivity.
Qed.

(** The pruning witness of the repaired defect 5f05f37 on the current model: A, sealer of the creation block
    1000, is rejected for 1003 although the consensus state of 1000 was pruned in between. *)
Example C09_nonvacuous_prune :
  exists st0,
    create_client toy_er cs7 c7 = (st0, ROk tt) /\
    let d k bt h := deliver toy_hash toy_er bt k h in
    let k1 := fst (d (cs7, st0) 1010 p1) in
    let k2 := fst (d k1 1014 p2) in
    snd (d (cs7, st0) 1010 p1) = ROk tt /\ snd (d k1 1014 p2) = ROk tt /\
    get_cons (snd k2) (hheight g7) = None /\
    snd (d k2 1014 p3_recent) = RErr 12 /\ snd (d k2 1014 p3) = ROk tt.
Proof. eexists. split; [vm_compute; reflexivity|]. vm_compute. repeat split; reflexivity. Qed.
