(** C17 — System-contract staking / governance acts for the caller only, atomically.  (PARTIAL)

    PROVED here (about the Go decision logic transcribed in Model/Adapter.v, for ALL log lists):
    which native messages a receipt is turned into.  MODELLED and only VALIDATED by the
    correspondence run (harness/cmd/c17): the EVM and the Solidity byte code (Model/AdapterEvm.v),
    ethermint's transaction atomicity ([deliver]) and the SDK message handlers
    (Model/AdapterNative.v).  Only statements here; proofs are in Proofs/Adapter*.v. *)
From Teleport Require Import Base.Bytes Base.Outcome Model.Adapter Proofs.Adapter.
Local Open Scope N_scope.

(** hook_one_msg_per_event (full characterisation).  For every router behaviour [exec], hook, log
    list and state: the hook executes exactly the items of the logs it does not skip — a log is
    skipped iff its address is not the system contract or its first topic is not one of the
    contract's event ids ([classify]) — in log order, stopping at the first failure. *)
Theorem C17_hook_one_msg_per_event : forall (S : Type) (exec : msg -> S -> outcome S) h logs s,
  post_tx exec h logs s = run_items S exec (filter_map (classify h) logs) s.
Proof. intros; apply post_tx_char. Qed.
Print Assumptions C17_hook_one_msg_per_event.

(** On success: exactly one message per matching log (system address AND known event id), in log
    order, each the message built from that log, and the final state is the result of executing
    exactly these messages. *)
Theorem C17_hook_success_exact : forall (S : Type) (exec : msg -> S -> outcome S) h logs s s',
  post_tx exec h logs s = (Ok tt, s') ->
  exists ms, Forall2 (fun l m => classify h l = Some (Ok m)) (filter (is_match h) logs) ms /\
             run_msgs S exec ms s = Ok s'.
Proof.
  intros S exec h logs s s' H. rewrite post_tx_char in H.
  destruct (run_items_ok S exec _ _ _ H) as [ms [E R]]. exists ms. split; [|exact R].
  apply classified_ok_matching; exact E.
Qed.
Print Assumptions C17_hook_success_exact.

(** On failure the hook has already executed the messages before the failing item — the state
    it leaves in the context is that of a strict prefix; discarding it is the caller's duty. *)
Theorem C17_hook_failure_prefix : forall (S : Type) (exec : msg -> S -> outcome S) h logs s r s',
  post_tx exec h logs s = (r, s') -> r <> Ok tt ->
  exists ms rest, filter_map (classify h) logs = map Ok ms ++ rest /\ run_msgs S exec ms s = Ok s' /\ rest <> [].
Proof. intros S exec h logs s r s' H N. rewrite post_tx_char in H. eapply run_items_fail; eauto. Qed.
Print Assumptions C17_hook_failure_prefix.

(** Look-alike events: a log whose address is not the system contract contributes nothing,
    whatever its topics and data and wherever it stands in the receipt. *)
Theorem C17_lookalike_ignored : forall (S : Type) (exec : msg -> S -> outcome S) h l1 l l2 s,
  l_addr l <> sys_addr h -> post_tx exec h (l1 ++ l :: l2) s = post_tx exec h (l1 ++ l2) s.
Proof. intros; apply post_tx_drop_foreign; assumption. Qed.
Print Assumptions C17_lookalike_ignored.

Theorem C17_foreign_receipt_noop : forall (S : Type) (exec : msg -> S -> outcome S) h logs s,
  Forall (fun l => l_addr l <> sys_addr h) logs -> post_tx exec h logs s = (Ok tt, s).
Proof. intros; apply post_tx_all_foreign; assumption. Qed.
Print Assumptions C17_foreign_receipt_noop.

(** The two adapters in the order of app.go: all staking items first, then all governance items. *)
Theorem C17_multi_hook_order : forall (S : Type) (exec : msg -> S -> outcome S) logs s,
  multi_hook exec logs s =
  run_items S exec (filter_map (classify HStaking) logs ++ filter_map (classify HGov) logs) s.
Proof. intros; apply multi_hook_char. Qed.
Print Assumptions C17_multi_hook_order.
