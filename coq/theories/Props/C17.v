(** C17 — System-contract staking / governance acts for the caller only, atomically.  (PARTIAL)

    What is PROVED, and about what:
    (A) the Go decision logic of the adapters, transcribed in Model/Adapter.v
        ([PostTxProcessing], the six handlers, [ParseLog] with go-ethereum's ABI decoder,
        [ExecuteMsg]/[ValidateBasic], the hook order of app.go) — theorems
        [C17_hook_*], [C17_lookalike_*], [C17_fields_*], [C17_cast_*], [C17_decode_*], quantified
        over ALL log lists, ALL router behaviours and ALL field values;
    (B) the bank keeper override of adapter/bank/keeper.go on a bank model — [C17_supply_*].
    What is only MODELLED (theorems about the model are labelled "modelled"; the tie to the real
    component is the differential run of harness/cmd/c17, not a proof):
    (C) the EVM and the Solidity byte code of Staking / Gov (Model/AdapterEvm.v) —
        [C17_attribution_end_to_end], [C17_signer_is_msg_sender], [C17_sys_frame_only_by_call];
    (D) ethermint's transaction atomicity ([deliver]) — [C17_deliver_atomic];
    (E) the cosmos-sdk handlers reached through the router (Model/AdapterNative.v) —
        [C17_native_only_signer], [C17_native_conserves].
    Only statements here; proofs are in Proofs/Adapter*.v. *)
From Teleport Require Import Base.Bytes Base.Outcome Model.Adapter Model.AdapterEvm Model.AdapterNative Model.AdapterWiring
  Model.AdapterCheck Proofs.Adapter Proofs.AdapterAbi Proofs.AdapterFields Proofs.AdapterNative Proofs.AdapterCheck
  Proofs.AdapterEvm Proofs.AdapterWiring Proofs.AdapterCheckAttr.
Local Open Scope N_scope.

(** ** (A) the hooks *)

(** hook_one_msg_per_event (full characterisation).  For every router behaviour [exec], hook, log
    list and state: the hook executes exactly the items of the logs it does not skip — a log is
    skipped iff its address is not the system contract or its first topic is not one of the
    contract's event ids ([classify]) — in log order, stopping at the first failure. *)
Theorem C17_hook_one_msg_per_event : forall (S : Type) (exec : msg -> S -> outcome S) h logs s,
  post_tx exec h logs s = run_items S exec (filter_map (classify h) logs) s.
Proof. intros; apply post_tx_char. Qed.
Print Assumptions C17_hook_one_msg_per_event.

(** On success: exactly one message per matching log (system address AND known event id), in log
    order, each the message built from that log, and the final state is the result of executing
    exactly these messages. *)
Theorem C17_hook_success_exact : forall (S : Type) (exec : msg -> S -> outcome S) h logs s s',
  post_tx exec h logs s = (Ok tt, s') ->
  exists ms, Forall2 (fun l m => classify h l = Some (Ok m)) (filter (is_match h) logs) ms /\
             run_msgs S exec ms s = Ok s'.
Proof.
  intros S exec h logs s s' H. rewrite post_tx_char in H.
  destruct (run_items_ok S exec _ _ _ H) as [ms [E R]]. exists ms. split; [|exact R].
  apply classified_ok_matching; exact E.
Qed.
Print Assumptions C17_hook_success_exact.

(** On failure the hook has already executed the messages before the failing item — the state it
    leaves in the context is that of a strict prefix; discarding it is the caller's duty. *)
Theorem C17_hook_failure_prefix : forall (S : Type) (exec : msg -> S -> outcome S) h logs s r s',
  post_tx exec h logs s = (r, s') -> r <> Ok tt ->
  exists ms rest, filter_map (classify h) logs = map Ok ms ++ rest /\ run_msgs S exec ms s = Ok s' /\ rest <> [].
Proof. intros S exec h logs s r s' H N. rewrite post_tx_char in H. eapply run_items_fail; eauto. Qed.
Print Assumptions C17_hook_failure_prefix.

(** Look-alike events: a log whose address is not the system contract contributes nothing,
    whatever its topics and data and wherever it stands in the receipt. *)
Theorem C17_lookalike_ignored : forall (S : Type) (exec : msg -> S -> outcome S) h l1 l l2 s,
  l_addr l <> sys_addr h -> post_tx exec h (l1 ++ l :: l2) s = post_tx exec h (l1 ++ l2) s.
Proof. intros; apply post_tx_drop_foreign; assumption. Qed.
Print Assumptions C17_lookalike_ignored.

Theorem C17_foreign_receipt_noop : forall (S : Type) (exec : msg -> S -> outcome S) h logs s,
  Forall (fun l => l_addr l <> sys_addr h) logs -> post_tx exec h logs s = (Ok tt, s).
Proof. intros; apply post_tx_all_foreign; assumption. Qed.
Print Assumptions C17_foreign_receipt_noop.

(** The two adapters in the order of app.go: all staking items first, then all governance items
    (so "in log order" holds per contract, not across the two contracts — Refuted/C17_refuted.v). *)
Theorem C17_multi_hook_order : forall (S : Type) (exec : msg -> S -> outcome S) logs s,
  multi_hook exec logs s =
  run_items S exec (filter_map (classify HStaking) logs ++ filter_map (classify HGov) logs) s.
Proof. intros; apply multi_hook_char. Qed.
Print Assumptions C17_multi_hook_order.

(** The same for ANY list of registered adapters (ethermint's MultiEvmHooks is a loop over the list): the
    items of the first registered hook over the whole receipt, then those of the next, ... — so "once per
    emitted event" holds exactly when each adapter is registered once (Props/C17_wiring.v checks the list
    app.go registers; Refuted/C17_wiring_refuted.v: registered twice => executed twice). *)
Theorem C17_multi_hook_any_registration : forall (S : Type) (exec : msg -> S -> outcome S) hs logs s,
  multi_hook_list exec hs logs s = run_items S exec (flat_map (fun h => filter_map (classify h) logs) hs) s.
Proof. intros; apply multi_hook_list_char. Qed.
Print Assumptions C17_multi_hook_any_registration.

(** fields_verbatim: whenever a handler submits a message, each field is the event's field,
    unchanged: signer = first event field; validator strings byte for byte; amount for every value
    1 .. 2^256-1; proposal id; options 1..4 and weights 1..100 only (sum 100) — where a Go cast
    ([uint32 -> int32], [uint64 -> int64]) would change a value, no message is produced. *)
Theorem C17_fields_verbatim : forall e m,
  item_of_event e = Ok m ->
  match e with
  | EDelegated d v a => exists x, a = Some x /\ m = MDelegate d v (Z.of_N x) /\ v <> [] /\ 0 < x
  | EUndelegated d v a => exists x, a = Some x /\ m = MUndelegate d v (Z.of_N x) /\ v <> [] /\ 0 < x
  | ERedelegated d s t a => exists x, a = Some x /\ m = MRedelegate d s t (Z.of_N x) /\ s <> [] /\ t <> [] /\ 0 < x
  | EWithdrew d v => m = MWithdraw d v /\ v <> []
  | EVoted d pid opt => opt < 2 ^ 32 -> m = MVote d pid (Z.of_N opt) /\ 1 <= opt <= 4
  | EVotedW d pid os =>
      Forall opt_in_range os ->
      m = MVoteW d pid (map (fun ow => (Z.of_N (fst ow), Z.of_N (snd ow))) os) /\
      Forall (fun ow => 1 <= fst ow <= 4 /\ 1 <= snd ow <= 100) os /\
      fold_right (fun ow acc => snd ow + acc) 0 os = 100
  end.
Proof. exact item_fields_verbatim. Qed.
Print Assumptions C17_fields_verbatim.

(** the cast boundaries, explicitly: what the code does there is reject (hook error => revert) *)
Theorem C17_cast_vote_option_rejected : forall d pid opt,
  2 ^ 31 <= opt < 2 ^ 32 -> item_of_event (EVoted d pid opt) = Err.
Proof. exact vote_option_cast_boundary_rejected. Qed.
Print Assumptions C17_cast_vote_option_rejected.

Theorem C17_cast_vote_weight_rejected : forall d pid os o w,
  Forall opt_in_range os -> In (o, w) os -> 2 ^ 63 <= w -> item_of_event (EVotedW d pid os) = Err.
Proof. exact vote_weight_cast_boundary_rejected. Qed.
Print Assumptions C17_cast_vote_weight_rejected.

Theorem C17_amount_full_range : forall d v a,
  v <> [] -> 0 < a -> item_of_event (EDelegated d v (Some a)) = Ok (MDelegate d v (Z.of_N a)).
Proof. exact amount_verbatim_full_range. Qed.
Print Assumptions C17_amount_full_range.

(** decoding: [ParseLog] (go-ethereum's decoder as transcribed) reads back exactly the fields of
    an event encoded the way Solidity emits it (standard ABI encoding), for every well-formed event *)
Theorem C17_decode_roundtrip : forall e,
  wf_event e -> parse_log (kind_of_event e) 1 (encode_event e) = Some e.
Proof. exact parse_log_encode. Qed.
Print Assumptions C17_decode_roundtrip.

(** ... hence the canonical log emitted AT the system address is turned into the item of exactly
    that event by the hook of that contract, and into nothing by the other hook or when emitted
    from any other address *)
Theorem C17_canonical_log_classified : forall e,
  wf_event e ->
  classify (hook_of_kind (kind_of_event e)) (log_of_event (sys_addr (hook_of_kind (kind_of_event e))) e)
  = Some (item_of_event e).
Proof. exact classify_canonical. Qed.
Print Assumptions C17_canonical_log_classified.

Theorem C17_canonical_log_elsewhere_ignored : forall e h self,
  self <> sys_addr h -> classify h (log_of_event self e) = None.
Proof. exact classify_canonical_foreign. Qed.
Print Assumptions C17_canonical_log_elsewhere_ignored.

(** ** (B) supply.  [C17_supply_unchanged]: every burn goes through the override.  [C17_supply_unchanged_wired]:
    burns by the staking / gov keeper go through whichever bank keeper the module was built with; the
    hypothesis (both built with the override) is discharged for app.go in Props/C17_wiring.v and shown
    necessary in Refuted/C17_wiring_refuted.v.

    With the overridden BurnCoins, over ALL sequences of native messages, burns
    (slashing, deposit burning) and plain sends — failing actions being discarded — the total
    supply and the sum of all balances never change. *)
Theorem C17_supply_unchanged : forall resolve bonded notbonded distr fee max_entries acts s,
  n_supply (run_actions resolve bonded notbonded distr fee max_entries acts s) = n_supply s /\
  total_bal (run_actions resolve bonded notbonded distr fee max_entries acts s) = total_bal s.
Proof. intros; apply supply_unchanged_all. Qed.
Print Assumptions C17_supply_unchanged.

Theorem C17_supply_unchanged_wired : forall resolve bonded notbonded distr fee max_entries k_staking k_gov,
  k_staking = Base.AdapterWiringTypes.BKOverride -> k_gov = Base.AdapterWiringTypes.BKOverride ->
  forall acts s,
  n_supply (run_wactions resolve bonded notbonded distr fee max_entries k_staking k_gov acts s) = n_supply s /\
  total_bal (run_wactions resolve bonded notbonded distr fee max_entries k_staking k_gov acts s) = total_bal s.
Proof. intros; apply wired_supply_unchanged; assumption. Qed.
Print Assumptions C17_supply_unchanged_wired.

(** the burned coins arrive at the fee collector *)
Theorem C17_burn_goes_to_fee_collector : forall fee module a s s',
  burn_coins fee module a s = Ok s' ->
  n_supply s' = n_supply s /\ total_bal s' = total_bal s /\ (module <> fee -> bal s' fee = (bal s fee + a)%Z).
Proof. exact burn_coins_conserves. Qed.
Print Assumptions C17_burn_goes_to_fee_collector.

(** necessity of the override: the SDK's own BurnCoins shrinks the supply *)
Theorem C17_base_burn_shrinks_supply : forall module a s s',
  burn_coins_base module a s = Ok s' -> n_supply s' = (n_supply s - a)%Z /\ total_bal s' = (total_bal s - a)%Z.
Proof. exact burn_coins_base_shrinks. Qed.
Print Assumptions C17_base_burn_shrinks_supply.

(** ** (D) atomicity — MODELLED wrapper [deliver] (ethermint ApplyTransaction + BaseApp recovery;
    validated on real transactions, not proved about ethermint): if the hooks fail or panic, the
    state is the one before the transaction, EVM changes included; if they succeed the state is
    the hooks' result on top of the EVM changes. *)
Theorem C17_deliver_atomic : forall (S : Type) (exec : msg -> S -> outcome S) evm logs s r s',
  deliver exec evm logs s = (r, s') ->
  (r <> Ok tt -> s' = s) /\ (r = Ok tt -> multi_hook exec logs (evm s) = (Ok tt, s')).
Proof.
  intros S exec evm logs s r s' H. split.
  - intro N. eapply deliver_fail; eauto.
  - intros ->. apply deliver_ok; exact H.
Qed.
Print Assumptions C17_deliver_atomic.

(** ** (E) native handlers — MODELLED: a message changes delegations, unbondings, redelegations,
    votes and the balance of its signer only (besides the module pools its coins move through),
    and never the supply or the sum of balances. *)
Theorem C17_native_only_signer : forall resolve bonded notbonded distr max_entries m s s',
  exec_native resolve bonded notbonded distr max_entries m s = Ok s' ->
  forall d', d' <> signer m ->
    (forall i, aget dkey_eqb (n_dels s') (d', i) = aget dkey_eqb (n_dels s) (d', i)) /\
    (forall i, aget dkey_eqb (n_ubds s') (d', i) = aget dkey_eqb (n_ubds s) (d', i)) /\
    (forall i j, aget rkey_eqb (n_reds s') (d', i, j) = aget rkey_eqb (n_reds s) (d', i, j)) /\
    (forall p, aget vkey_eqb (n_votes s') (p, d') = aget vkey_eqb (n_votes s) (p, d')) /\
    (d' <> bonded -> d' <> notbonded -> d' <> distr -> bal s' d' = bal s d').
Proof. intros; eapply exec_native_only_signer; eauto. Qed.
Print Assumptions C17_native_only_signer.

Theorem C17_native_conserves : forall resolve bonded notbonded distr max_entries m s s',
  exec_native resolve bonded notbonded distr max_entries m s = Ok s' ->
  n_supply s' = n_supply s /\ total_bal s' = total_bal s.
Proof. intros; eapply exec_native_conserves; eauto. Qed.
Print Assumptions C17_native_conserves.

(** ** (C) end to end in the MODELLED EVM: for every well-formed user transaction (any call tree
    over the system contracts, forwarding proxies with CALL / DELEGATECALL / STATICCALL / CALLCODE,
    reverting or not, batch contracts performing any number of calls from one frame, and look-alike emitters), the native items executed by the hooks are exactly
    the surviving invocations of system-contract code running AT the system address — staking
    ones first — each built from that frame's msg.sender and call arguments. *)
Theorem C17_attribution_end_to_end : forall (S : Type) (exec : msg -> S -> outcome S) t s,
  wf_tx t = true -> tx_sizes_ok t ->
  multi_hook exec (fr_logs (run_tx t)) s =
  run_items S exec (map item_of_inv (filter (inv_for HStaking) (fr_inv (run_tx t))) ++
                    map item_of_inv (filter (inv_for HGov) (fr_inv (run_tx t)))) s.
Proof. intros S exec t s W Z. rewrite multi_hook_char, !run_tx_spec by assumption. reflexivity. Qed.
Print Assumptions C17_attribution_end_to_end.

(** A whole user transaction in the modelled stack (EVM call tree -> receipt -> hooks -> ethermint's
    commit-or-discard): if it succeeds, the state is the EVM's own changes followed by exactly one native
    message per surviving invocation of a system contract at its own address (staking ones first), each the
    message of that invocation (signer = its msg.sender, its arguments verbatim: C17_signer_is_msg_sender,
    C17_fields_verbatim); otherwise the state is the one before the transaction, EVM changes included. *)
Theorem C17_user_tx_end_to_end : forall (S : Type) (exec : msg -> S -> outcome S) (evm : S -> S) t s r s',
  wf_tx t = true -> tx_sizes_ok t ->
  deliver exec evm (fr_logs (run_tx t)) s = (r, s') ->
  (r = Ok tt ->
     exists ms,
       Forall2 (fun iv m => item_of_inv iv = Ok m)
               (filter (inv_for HStaking) (fr_inv (run_tx t)) ++ filter (inv_for HGov) (fr_inv (run_tx t))) ms /\
       run_msgs S exec ms (evm s) = Ok s') /\
  (r <> Ok tt -> s' = s).
Proof. intros; eapply user_tx_end_to_end; eauto. Qed.
Print Assumptions C17_user_tx_end_to_end.

Theorem C17_signer_is_msg_sender : forall iv m, item_of_inv iv = Ok m -> Proofs.AdapterEvm.msg_signer m = snd (fst iv).
Proof. exact item_signer. Qed.
Print Assumptions C17_signer_is_msg_sender.

(** a frame at the system address can only be entered by CALL / STATICCALL on that address, and
    its msg.sender is then the immediate caller (DELEGATECALL / CALLCODE keep the caller's address) *)
Theorem C17_sys_frame_only_by_call : forall k target x h,
  is_sys_addr (fx_self x) = false -> fx_self (child_ctx k target x) = sys_addr h ->
  (k = KCall \/ k = KStaticCall) /\ target = sys_addr h /\ fx_sender (child_ctx k target x) = fx_self x.
Proof. exact child_at_sys_only_by_call. Qed.
Print Assumptions C17_sys_frame_only_by_call.

(** ** monitor soundness: the executable monitors the check evaluates on the implementation's traces
    (Model/AdapterCheck.v) accept the model's own behaviour — for EVERY hook selection, receipt and injected
    router failure the pure-hook monitor (11 message without matching log, 12 not one message per matching
    log, 13 signer is not the event's first field, 14 a field of a message is not verbatim the field of its
    decoded event) and the comparison report nothing on the model's output *)
Theorem C17_hook_monitor_sound : forall w logs f,
  mon_hcase (model_hcase w logs f) = [] /\ cmp_hcase (model_hcase w logs f) = [].
Proof. exact hook_monitor_sound. Qed.
Print Assumptions C17_hook_monitor_sound.

(** ... and of the application monitor the supply part (44), the atomicity part (41) and (next theorem) the
    attribution part (42), for every transaction step of the model from a state whose balances add up to
    the supply.  PARTIAL: the exact-effect part (43) is not proved sound against [exec_native]; what is
    missing is a proof that [exact_ok]'s table update agrees with [exec_native] on every message sequence
    (the reward payments make the balance bound an interval) — it is validated by every run instead. *)
Theorem C17_app_monitor_sound_partial : forall e st,
  total_bal (o_n (a_pre st)) = n_supply (o_n (a_pre st)) ->
  supply_ok (o_n (a_pre (model_step e st))) (o_n (a_post (model_step e st))) = true /\
  (a_class (model_step e st) <> 0%nat -> unchanged (a_pre (model_step e st)) (a_post (model_step e st)) = true).
Proof. exact app_monitor_sound_supply_atomicity. Qed.
Print Assumptions C17_app_monitor_sound_partial.

(** attribution monitor (42): on every successful transaction step of the model (any well-formed call tree),
    delegations, unbondings, redelegations, votes and balances of every account that is NOT the msg.sender of a
    surviving system-contract invocation are untouched (module pools aside) *)
Theorem C17_app_monitor_sound_attribution : forall e st,
  wf_tx (a_tx st) = true -> tx_sizes_ok (a_tx st) ->
  fst (fst (model_tx e st)) = 0%nat ->
  attribution_ok e (map (fun iv : invocation => snd (fst iv)) (fr_inv (run_tx (a_tx st))))
                 (o_n (a_pre st)) (o_n (snd (fst (model_tx e st)))) = true.
Proof. exact app_monitor_sound_attribution. Qed.
Print Assumptions C17_app_monitor_sound_attribution.

(** ** non-vacuity *)
Definition ex_val : bytes := B "teleportvaloper1xyz".
Definition ex_eoa : bytes := repeat x11 20.
Definition ex_proxy : bytes := repeat x22 20.
Definition ex_rec (m : msg) (s : list msg) : outcome (list msg) := Ok (s ++ [m]).

(** a well-formed event exists; a receipt with a look-alike (same topic and data, other address),
    the real event and an unknown topic yields exactly the one message, signed by the emitter's
    first field *)
Example C17_nonvacuous_hook :
  let e := EDelegated ex_eoa ex_val (Some 5) in
  wf_event e /\
  post_tx ex_rec HStaking
    [log_of_event ex_proxy e; log_of_event staking_addr e;
     {| l_addr := staking_addr; l_topics := [repeat x00 32]; l_data := [] |}] []
  = (Ok tt, [MDelegate ex_eoa ex_val 5]).
Proof.
  cbv zeta. split; [|vm_compute; reflexivity].
  split; [vm_compute; reflexivity | split; [reflexivity | vm_compute; reflexivity]].
Qed.

(** call trees: EOA -> proxy -CALL-> Staking.delegate acts for the PROXY; the same through
    DELEGATECALL acts for nobody; the hypotheses of the end-to-end theorem hold for both *)
Example C17_nonvacuous_frames :
  let call k := {| tx_sender := ex_eoa; tx_to := ex_proxy;
                   tx_code := CProxy k false false false staking_addr (CSys HStaking (FDelegate ex_val 5)) |} in
  wf_tx (call KCall) = true /\ wf_tx (call KDelegateCall) = true /\
  fr_inv (run_tx (call KCall)) = [(HStaking, ex_proxy, FDelegate ex_val 5)] /\
  fr_inv (run_tx (call KDelegateCall)) = [] /\
  fr_ok (run_tx (call KDelegateCall)) = true /\
  multi_hook ex_rec (fr_logs (run_tx (call KCall))) [] = (Ok tt, [MDelegate ex_proxy ex_val 5]) /\
  multi_hook ex_rec (fr_logs (run_tx (call KDelegateCall))) [] = (Ok tt, []).
Proof. cbv zeta. repeat split; vm_compute; reflexivity. Qed.

(** one contract calling both system contracts in one transaction (batch): both act for THE BATCH CONTRACT,
    the staking action first although the vote was emitted first; a batch that ignores a reverting inner
    call keeps the other call only *)
Definition ex_batch : bytes := repeat x33 20.
Example C17_nonvacuous_batch :
  let t ign inner2 := {| tx_sender := ex_eoa; tx_to := ex_batch;
                  tx_code := CSeq KCall false gov_addr (CSys HGov (FVote 1 3))
                             (CSeq KCall ign staking_addr inner2 CStop) |} in
  let good := CSys HStaking (FDelegate ex_val 5) in
  let bad := CSys HStaking (FVote 1 3) in                       (* unknown selector: the inner call reverts *)
  wf_tx (t false good) = true /\ wf_tx (t true bad) = true /\
  fr_inv (run_tx (t false good)) = [(HGov, ex_batch, FVote 1 3); (HStaking, ex_batch, FDelegate ex_val 5)] /\
  multi_hook ex_rec (fr_logs (run_tx (t false good))) [] = (Ok tt, [MDelegate ex_batch ex_val 5; MVote ex_batch 1 3]) /\
  fr_ok (run_tx (t false bad)) = false /\
  multi_hook ex_rec (fr_logs (run_tx (t true bad))) [] = (Ok tt, [MVote ex_batch 1 3]).
Proof. cbv zeta. repeat split; vm_compute; reflexivity. Qed.
