(** C03 — refinement tie between the value layer (Model/Bridge.v) and the packet layer (Model/Packet.v = the
    transcription of msg_server.go, packet.go, evm.go, evm_hooks.go about which C01 C02 C04 C05 are proved).
    Only statements; proofs in Proofs/BridgePacket.v.  The abstract rules of Model/Bridge.v --
      [Recv] keeps the callback's effects iff the acknowledgement code is 0, the code being 1 when the call failed;
      [Ack] = setAckStatus(1 | 2), fee payout, refund path, all or nothing;
      each of them at most once per packet --
    are theorems about the transcribed handlers. *)
From Coq Require Import List NArith Bool.
From Teleport Require Import Base.Bytes Base.Outcome Base.AList Model.Packet Model.PacketKeys
  Proofs.Packet Proofs.PacketC01 Proofs.PacketC04 Proofs.PacketKeys Proofs.BridgePacket.
Import ListNotations.
Local Open Scope N_scope.

(** An accepted MsgRecvPacket on the packet's destination chain (any state, any message, any behaviour [cb] of the EVM
    call): exactly one acknowledgement [a] is written; its code is 1 if CallPacket returned an error (EVM revert or a
    failing post-transaction hook) and the result code returned by the packet contract otherwise; the ghost record of the
    callback's contract-side effects [EvOnRecv] persists iff that code is 0, and so do the packets it sent on. *)
Theorem C03_tie_recv : forall P env s m cb s',
  recv_handler P env s m cb = Ok s' ->
  let p := fst (decode P (rm_packet m)) in
  let t := triple_of p in
  p_dst p = st_name s ->
  exists s1 a bz,
    recv_keeper P env s m = Ok s1 /\
    pack_ack P a = Some bz /\ sget (akey P t) s' = Some (sha256 P bz) /\
    a_code a = match call_packet P s1 (EvOnRecv p) cb with
               | Ok _ => match cb_ret cb with Some (code, _, _) => ack_code_rule false code | None => 1 end
               | _ => ack_code_rule true 0
               end /\
    cnt (is_ackw t) (log (st_app s')) = S (cnt (is_ackw t) (log (st_app s))) /\
    cnt (is_onrecv t) (log (st_app s')) = (cnt (is_onrecv t) (log (st_app s)) + if keep_rule (a_code a) then 1 else 0)%nat /\
    cnt is_sent_ev (log (st_app s')) = (cnt is_sent_ev (log (st_app s)) + if keep_rule (a_code a) then length (cb_sends cb) else 0)%nat.
Proof. exact packet_recv_rule. Qed.
Print Assumptions C03_tie_recv.

(** The behaviour Model/Bridge.v assigns to a packet's callback (result code [c1]: 2 / 3 returned by value, 1 = the call
    fails; packets sent on) fed into the transcribed handler: the acknowledgement written carries exactly [c1], and the
    callback's effects persist exactly when [recv_chain] keeps the ledger ([keep_rule c1]). *)
Theorem C03_tie_recv_code : forall P env s m c1 sends s',
  recv_handler P env s m (cb_of_bridge c1 sends) = Ok s' ->
  let p := fst (decode P (rm_packet m)) in
  p_dst p = st_name s ->
  (c1 <> 1 -> forall s1, recv_keeper P env s m = Ok s1 ->
     exists s2, call_packet P s1 (EvOnRecv p) (cb_of_bridge c1 sends) = Ok s2) ->
  exists a, a_code a = c1 /\
    cnt (is_onrecv (triple_of p)) (log (st_app s')) = (cnt (is_onrecv (triple_of p)) (log (st_app s)) + if keep_rule c1 then 1 else 0)%nat.
Proof. exact packet_recv_bridge_code. Qed.
Print Assumptions C03_tie_recv_code.

(** An accepted MsgAcknowledgement on the packet's source chain: setAckStatus(1 if the acknowledgement's code is 0, else
    2), sendPacketFeeToRelayer and OnAcknowledgePacket(p, a) persist, each exactly once, and nothing else of the ghost log
    that is not a SendPacket record (stated for every event predicate [f] blind to SendPacket records). *)
Theorem C03_tie_ack : forall P env s m cb1 cb2 cb3 s',
  ack_handler P env s m cb1 cb2 cb3 = Ok s' ->
  let p := fst (decode P (am_packet m)) in
  p_src p = st_name s ->
  exists a addr,
    decode_ack P (am_ack m) = Some a /\
    let st := if keep_rule (a_code a) then 1 else 2 in
    (forall f, send_blind f ->
       cnt f (log (st_app s')) = (cnt f (log (st_app s)) + (if f (EvAckStatus (p_dst p) (p_seq p) st) then 1 else 0)
                                                       + (if f (EvFee (p_dst p) (p_seq p) addr) then 1 else 0)
                                                       + (if f (EvOnAck p a) then 1 else 0))%nat).
Proof. exact packet_ack_rule. Qed.
Print Assumptions C03_tie_ack.

(** Over ANY history of a chain (receives, acknowledgements, sends, client updates, governance), per triple: the
    callback's effects persist at most once and at most one acknowledgement is written (= [is_sent] gate of [Recv]);
    each of the three acknowledgement effects happens at most once (= [is_received] gate of [Ack]). *)
Theorem C03_tie_gates : forall P, keys_ok P -> forall ops s t,
  log_ok P s ->
  (cnt (is_onrecv t) (log (st_app (run P s ops))) <= 1)%nat /\ (cnt (is_ackw t) (log (st_app (run P s ops))) <= 1)%nat.
Proof. exact packet_gates. Qed.
Print Assumptions C03_tie_gates.

Theorem C03_tie_ack_gates : forall P, keys_ok P -> forall ops s j d k,
  (forall x, sha256 P x <> []) ->
  inv4 P s -> ops_noself (st_name s) ops -> acklog_ok P s -> valid_name P d = true ->
  (cnt (ackev j d k) (log (st_app (run P s ops))) <= 1)%nat.
Proof. exact packet_ack_gates. Qed.
Print Assumptions C03_tie_ack_gates.

(** The value layer applies the same two rules: [recv_chain] of Model/Bridge.v keeps the callback's ledger (and the
    onward packet) iff [keep_rule code]; [ack_chain] records status 1 iff [keep_rule code]. *)
Theorem C03_tie_bridge_recv : forall cfg cs p,
  let '(code, cs', d, onw) := Bridge.recv_chain cfg cs p in
  match Bridge.give_tokens cfg cs p with
  | None => code = 2 /\ cs' = cs /\ d = 0 /\ onw = None
  | Some (cs1, d1) =>
      let '(c1, cs2, onw1) := Bridge.run_calldata cfg cs1 p d1 in
      code = c1 /\ (cs', d, onw) = if keep_rule code then (cs2, d1, onw1) else (cs, 0, None)
  end.
Proof. exact bridge_recv_rule. Qed.
Print Assumptions C03_tie_bridge_recv.

Theorem C03_tie_bridge_ack : forall cfg cs p cs' r,
  Bridge.ack_chain cfg cs p = Some (cs', r) ->
  Bridge.ack_status cs' (Bridge.p_dst p) (Bridge.p_seq p) = (if keep_rule (Bridge.p_code p) then 1 else 2) /\
  Bridge.p_cb p <> Bridge.CbBroken.
Proof. exact bridge_ack_rule. Qed.
Print Assumptions C03_tie_bridge_ack.

(** Non-vacuity (concrete chain B of Proofs/PacketExamples.v, packet (A, B, 3)): with a callback that reports result code 3
    by value the receive is accepted, one acknowledgement is written and NO callback effect persists; with result code 0
    the effect persists once; with a failing call (code 1) nothing persists either. *)
From Teleport Require Import Proofs.PacketExamples.
Example C03_tie_nonvacuous :
  let m := recv_of (pkt x61 x62 3) in
  let t := (chA, chB, 3) in
  match recv_handler exP 1 exB m (cb_of_bridge 3 []), recv_handler exP 1 exB m (cb_of_bridge 0 []), recv_handler exP 1 exB m (cb_of_bridge 1 []) with
  | Ok s3, Ok s0, Ok s1 =>
      cnt (is_onrecv t) (log (st_app s3)) = 0%nat /\ cnt (is_ackw t) (log (st_app s3)) = 1%nat /\
      cnt (is_onrecv t) (log (st_app s0)) = 1%nat /\ cnt (is_ackw t) (log (st_app s0)) = 1%nat /\
      cnt (is_onrecv t) (log (st_app s1)) = 0%nat /\ cnt (is_ackw t) (log (st_app s1)) = 1%nat
  | _, _, _ => False
  end.
Proof. vm_compute. repeat split; reflexivity. Qed.
