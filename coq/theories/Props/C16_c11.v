(** C16 x C11 — the two independently written models of x/aggregate/keeper/ibc_hook.go agree, and C11's theorems about
    ConvertCoin over ADVERSARIAL token contracts therefore hold for what the C16 middleware does.
    Only statements here; proofs are in Proofs/Ics20C11.v (this file depends on property C11's Model/Convert.v and
    Proofs/Convert*.v; Props/C16.v does not). *)
From Coq Require Import List ZArith Bool.
From Teleport Require Import Base.Bytes Base.Outcome Model.Convert Model.Ics20 Proofs.Ics20 Proofs.ConvertExact
  Proofs.ConvertHook Proofs.Ics20C11.
Import ListNotations.
Local Open Scope Z_scope.

(** C16's hook (every return path of Keeper.OnRecvPacket, generic in the conversion) instantiated with C11's
    ConvertCoin — message {Coin = (voucher, amount), Receiver = Address.Hex() of the 20 bytes, Sender = the 20 bytes} —
    IS C11's [hook_recv] on every decoded packet whose receiver has 20 bytes: class 0 = converted and written, class 1 =
    returned without converting (not registered / ConvertCoin error), class 2 = panic (sdk.NewCoin, ConvertCoin). *)
Theorem C16_hook_agrees_with_C11 :
  forall X xcall xcontract MODULE sha256 decode parse_int from_bech32 (s : Convert.state X) pkt a d amt,
  decode (pk_data pkt) = Some d -> parse_int (fd_amount d) = Some amt ->
  length (hook_receiver from_bech32 d) = 20%nat ->
  let r := addr_of (hook_receiver from_bech32 d) in
  let dn := ibc_denom sha256 (pk_dport pkt) (pk_dchan pkt) (fd_denom d) in
  Ics20.hook (Convert.state X) sha256 decode parse_int from_bech32 (c11_registered X)
             (c11_convert X xcall xcontract MODULE) s pkt a =
  match Convert.hook_recv xcall xcontract MODULE s r dn amt with
  | (s', 0%nat) => Ok (s', Some a, HConverted)
  | (_, 1%nat) => Ok (s, Some a, if denom_registered s dn then HConvertErr else HNotRegistered)
  | _ => Panic
  end.
Proof. exact hook_agrees_with_c11. Qed.
Print Assumptions C16_hook_agrees_with_C11.

(** the 20 bytes of a receiver are an address in C11's range *)
Theorem C16_receiver_is_C11_address : forall b, length b = 20%nat -> 0 <= addr_of b < 2 ^ 160.
Proof. exact addr_of_bound. Qed.
Print Assumptions C16_receiver_is_C11_address.

(** The middleware around ANY wrapped application with C11's conversion (hostile tokens included): the returned
    acknowledgement is the wrapped application's, and the state is the wrapped application's bit for bit or the one
    C11's hook produced with class 0 for (receiver, voucher of the packet, packet amount) — to which
    [C11_hook_passed_gates] and [C11_hook_exact] apply. *)
Theorem C16_middleware_is_C11_hook :
  forall X xcall xcontract MODULE sha256 decode parse_int from_bech32
         (transfer_recv : Convert.state X -> packet -> outcome (Convert.state X * ack)) st pkt st1 a st2 oa hp,
  transfer_recv st pkt = Ok (st1, a) ->
  Ics20.middleware (Convert.state X) sha256 decode parse_int from_bech32 (c11_registered X)
                   (c11_convert X xcall xcontract MODULE) transfer_recv st pkt = Ok (st2, oa, hp) ->
  oa = Some a /\
  ((st2 = st1 /\ hp <> Some HConverted) \/
   (hp = Some HConverted /\ ack_success a = true /\ exists d amt,
      decode (pk_data pkt) = Some d /\ parse_int (fd_amount d) = Some amt /\ 0 <= amt /\
      length (hook_receiver from_bech32 d) = 20%nat /\ 0 <= addr_of (hook_receiver from_bech32 d) < 2 ^ 160 /\
      Convert.hook_recv xcall xcontract MODULE st1 (addr_of (hook_receiver from_bech32 d))
        (ibc_denom sha256 (pk_dport pkt) (pk_dchan pkt) (fd_denom d)) amt = (st2, 0%nat))).
Proof. exact middleware_is_c11_hook. Qed.
Print Assumptions C16_middleware_is_C11_hook.

(** ... spelled out with C11's exactness theorem: when the middleware converted, exactly the packet amount moved — out
    of the receiver's OWN coins of the voucher denomination into the escrow (module-owned pair) or out of the supply
    (external pair), into the token balance of the receiver's own address, whatever the token contract does; or the
    contract had self-destructed and only the pair was removed. *)
Theorem C16_conversion_exact_any_token :
  forall X xcall xcontract MODULE sha256 decode parse_int from_bech32
         (transfer_recv : Convert.state X -> packet -> outcome (Convert.state X * ack)) st pkt st1 a st2 oa d amt p,
  transfer_recv st pkt = Ok (st1, a) ->
  Ics20.middleware (Convert.state X) sha256 decode parse_int from_bech32 (c11_registered X)
                   (c11_convert X xcall xcontract MODULE) transfer_recv st pkt = Ok (st2, oa, Some HConverted) ->
  decode (pk_data pkt) = Some d -> parse_int (fd_amount d) = Some amt ->
  let r := addr_of (hook_receiver from_bech32 d) in
  let dn := ibc_denom sha256 (pk_dport pkt) (pk_dchan pkt) (fd_denom d) in
  cc_pair st1 (Convert.hook_msg r dn amt) = Ok p ->
  let c := p_erc20 p in
  if is_contract xcontract st1 c then
    (p_owner p = 1 \/ p_owner p = 2) /\ 0 < amt /\ amt <= bget (s_bank st1) r dn /\
    bank_shift st1 st2 (fun x y => ind ((x =? r) && bytes_eqb y dn) (- amt)
                                     + ind ((p_owner p =? 1) && (x =? MODULE) && bytes_eqb y dn) amt) /\
    supply_shift st1 st2 (fun y => ind ((p_owner p =? 2) && bytes_eqb y dn) (- amt)) /\
    same_gates st1 st2 /\ accts_plus st1 st2 MODULE /\
    exists res,
      (if p_owner p =? 1
       then token_effect xcall MODULE (s_tokens st1) (s_tokens st2) c MODULE (CMint r amt) r amt res
       else token_effect2 xcall MODULE (s_tokens st1) (s_tokens st2) c MODULE (CTransfer r amt) r amt MODULE (- amt) res) /\
      (p_owner p = 2 -> unpack_bool (cr_ret res) = Some true /\ approval_check (cr_logs res) = Ok tt)
  else st2 = Convert.delete_pair st1 p.
Proof.
  intros X xcall xcontract MODULE sha256 decode parse_int from_bech32 transfer_recv st pkt st1 a st2 oa d amt p
         Et Hm Ed Ea r dn Hp c.
  destruct (middleware_is_c11_hook X xcall xcontract MODULE sha256 decode parse_int from_bech32 transfer_recv
              _ _ _ _ _ _ _ Et Hm) as [_ [[_ Hc]|(_ & _ & d' & amt' & Ed' & Ea' & _ & _ & Hr & Hh)]].
  - exfalso. apply Hc. reflexivity.
  - rewrite Ed in Ed'. inversion Ed'; subst d'. rewrite Ea in Ea'. inversion Ea'; subst amt'.
    exact (hook_exact X xcall xcontract MODULE st1 r dn amt st2 p Hh Hr Hp).
Qed.
Print Assumptions C16_conversion_exact_any_token.
