(** C08 -- EVM storage proofs bind contract, slot, value, root and height (ETH and BSC light clients).
    Only statements here; proofs are in Proofs/EvmProofRlp.v and Proofs/EvmProof.v.

    [verify keccak256 mpt_verify json_proof cs cstore height proof ack src dst seq value] is the model of
    [ClientState.VerifyPacketCommitment] ([ack = false]) / [VerifyPacketAcknowledgement] ([ack = true]) of
    both copies ([cs_kind cs] selects the copy's [GetDelayBlock]).  The external functions are
    universally quantified: every theorem holds for ALL [keccak256], [mpt_verify] (= trie.VerifyProof on
    the node list), [json_proof] (= encoding/json into the Proof struct); what is assumed about
    [mpt_verify] is the explicit premise [mpt_sound] of the theorems that need it. *)
From Teleport Require Import Base.Bytes Base.Outcome Model.EvmProof Model.EvmProofCheck Model.EvmProofWitness
     Model.EvmProofMpt Model.EvmProofTrie Model.EvmProofMptCheck Model.EvmProofMptWitness Proofs.EvmProofRlp Proofs.EvmProof Proofs.EvmProofMpt
     Proofs.EvmProofMptWf Proofs.EvmProofMptFuel Proofs.EvmProofMptLoop Proofs.EvmProofDelay
     Proofs.EvmProofTrieRlp Proofs.EvmProofTrie.
Local Open Scope N_scope.

Section Statements.
  Variable keccak256 : bytes -> bytes.
  Variable mpt_verify : bytes -> bytes -> list bytes -> option bytes.
  Variable json_proof : bytes -> option proof_rec.
  Notation verify := (EvmProof.verify keccak256 mpt_verify json_proof).
  Notation proof_key := (EvmProof.proof_key keccak256).

  (** [commits root m]: [root] is the root hash of the trie holding the finite map [m] (abstract). *)
  Variable commits : bytes -> (bytes -> option bytes) -> Prop.

  (** the assumption on trie.VerifyProof: a returned value (empty = "key absent") is what every trie
      committed by the root holds at the key *)
  Definition mpt_sound : Prop := forall root key nodes v m,
    mpt_verify root key nodes = Some v -> commits root m -> m key = lookup_result v.
End Statements.

(** ** 1. Exact characterisation: accepted IFF every check of the code passes (oracle level). *)
Theorem C08_accept_iff : forall keccak256 mpt_verify json_proof cs cstore oh op ack src dst seq c,
  verify keccak256 mpt_verify json_proof cs cstore oh op ack src dst seq c = Ok tt <->
  exists h p, oh = Some h /\ op = Some p /\
    exists r rootb sp v t,
      height_lt (cs_head cs) h = false /\
      rn h = rn (cs_head cs) /\
      json_proof p = Some r /\
      cstore (consensus_key h) = ConsRoot rootb /\
      delay_block cs <= sub64 (rh (cs_head cs)) (rh h) /\
      from_hex (p_address r) = cs_contract cs /\
      mpt_verify (bytes_to_hash rootb) (keccak256 (cs_contract cs)) (map from_hex (p_account_proof r))
        = Some (rlp_account (account_of_record r)) /\
      p_storage_proof r = [Some sp] /\
      hex_to_hash (sr_key sp) = proof_key keccak256 ack src dst seq /\
      mpt_verify (a_storage (account_of_record r)) (keccak256 (proof_key keccak256 ack src dst seq))
                 (map from_hex (sr_proof sp)) = Some v /\
      rlp_decode_bytes v = Some t /\ left_pad32 t = c.
Proof. exact verify_ok_iff_plain. Qed.
Print Assumptions C08_accept_iff.

(** ** 2. Soundness.  Accepted => the proof height has the head's revision number, is not above the head and
    the (uint64) difference of the revision heights is at least [delay_block cs] (numeric reading, no
    wrap-around: [C08_gates_numeric]); a consensus state with root [rootb] is
    stored under the key of exactly this height, and in EVERY world committed by that root the account
    at keccak(configured contract address) is the RLP of an account [acct] such that in EVERY storage trie
    committed by [acct]'s storage root the key keccak(keccak(path ++ pad32(208))) -- [path] rendered from
    exactly this (kind, src, dst, seq) -- holds a canonical RLP string whose left-padding to 32 bytes is
    exactly the value (leading zeros included). *)
Theorem C08_evm_proof_sound : forall keccak256 mpt_verify json_proof commits,
  mpt_sound mpt_verify commits ->
  forall cs cstore oh op ack src dst seq c,
  verify keccak256 mpt_verify json_proof cs cstore oh op ack src dst seq c = Ok tt ->
  exists h p, oh = Some h /\ op = Some p /\
    (* the revision gate, the head gate and the delay gate, as coded *)
    (rn h = rn (cs_head cs) /\ rh h <= rh (cs_head cs) /\
     delay_block cs <= sub64 (rh (cs_head cs)) (rh h)) /\
    exists rootb acct,
      cstore (consensus_key h) = ConsRoot rootb /\
      account_wf acct /\ length (a_storage acct) = 32%nat /\ length (a_code acct) = 32%nat /\
      (forall world, commits (bytes_to_hash rootb) world ->
                     world (keccak256 (cs_contract cs)) = Some (rlp_account acct)) /\
      (forall st, commits (a_storage acct) st ->
                  exists raw t, st (keccak256 (proof_key keccak256 ack src dst seq)) = Some raw /\
                                rlp_decode_bytes raw = Some t /\ left_pad32 t = c).
Proof. exact sound. Qed.
Print Assumptions C08_evm_proof_sound.

(** What the gates mean numerically for a uint64 head: the subtraction cannot wrap, at least
    [delay_block cs] blocks lie between the proof height and the head.  (Before fix 0ebe7e9 this needed
    the premise "same revision number" -- Refuted/C08_refuted.v.) *)
Theorem C08_gates_numeric : forall cs h,
  h64 (cs_head cs) ->
  rn h = rn (cs_head cs) /\ rh h <= rh (cs_head cs) /\ delay_block cs <= sub64 (rh (cs_head cs)) (rh h) ->
  rn h = rn (cs_head cs) /\ rh h <= rh (cs_head cs) /\ delay_block cs <= rh (cs_head cs) - rh h.
Proof. exact gates_numeric. Qed.
Print Assumptions C08_gates_numeric.

(** The consensus state consulted is the one of exactly this (revision number, revision height). *)
Theorem C08_consensus_key_injective : forall h h', h64 h -> h64 h' -> consensus_key h = consensus_key h' -> h = h'.
Proof. exact consensus_key_injective. Qed.
Print Assumptions C08_consensus_key_injective.

(** ** 3. Completeness.  Any proof record whose fields decode to the configured address, to the account
    the account proof yields, to the slot of this path, with a storage proof yielding the canonical RLP of
    the zero-stripped 32-byte value, is accepted once the gates are passed. *)
Theorem C08_evm_proof_complete : forall keccak256 mpt_verify json_proof cs cstore h p r ack src dst seq c rootb sp,
  height_lt (cs_head cs) h = false ->
  rn h = rn (cs_head cs) ->
  delay_block cs <= sub64 (rh (cs_head cs)) (rh h) ->
  json_proof p = Some r ->
  cstore (consensus_key h) = ConsRoot rootb ->
  from_hex (p_address r) = cs_contract cs ->
  mpt_verify (bytes_to_hash rootb) (keccak256 (cs_contract cs)) (map from_hex (p_account_proof r))
    = Some (rlp_account (account_of_record r)) ->
  p_storage_proof r = [Some sp] ->
  hex_to_hash (sr_key sp) = proof_key keccak256 ack src dst seq ->
  mpt_verify (a_storage (account_of_record r)) (keccak256 (proof_key keccak256 ack src dst seq))
             (map from_hex (sr_proof sp)) = Some (rlp_string (strip_zeros c)) ->
  length c = 32%nat ->
  verify keccak256 mpt_verify json_proof cs cstore (Some h) (Some p) ack src dst seq c = Ok tt.
Proof. exact complete. Qed.
Print Assumptions C08_evm_proof_complete.

(** In particular the honest rendering ("0x" + lower-case hex of the address, of the minimal big-endian
    nonce and balance, of the hashes, of the slot and of every proof node) of an honest proof of a present
    slot -- any 32-byte value, leading zeros included -- at a height of the head's revision with the
    confirmations passed. *)
Theorem C08_honest_proof_accepted :
  forall keccak256 mpt_verify json_proof cs cstore h p ack src dst seq c rootb a acct_nodes st_nodes value,
  rn h = rn (cs_head cs) -> rh h <= rh (cs_head cs) -> h64 (cs_head cs) ->
  delay_block cs <= rh (cs_head cs) - rh h ->
  json_proof p = Some (honest_record (cs_contract cs) a (proof_key keccak256 ack src dst seq) acct_nodes st_nodes value) ->
  cstore (consensus_key h) = ConsRoot rootb ->
  a_nonce a < 2 ^ 256 -> a_balance a < 2 ^ 256 -> length (a_storage a) = 32%nat -> length (a_code a) = 32%nat ->
  length (proof_key keccak256 ack src dst seq) = 32%nat ->
  mpt_verify (bytes_to_hash rootb) (keccak256 (cs_contract cs)) acct_nodes = Some (rlp_account a) ->
  mpt_verify (a_storage a) (keccak256 (proof_key keccak256 ack src dst seq)) st_nodes = Some (rlp_string (strip_zeros c)) ->
  length c = 32%nat ->
  verify keccak256 mpt_verify json_proof cs cstore (Some h) (Some p) ack src dst seq c = Ok tt.
Proof. exact honest_accepted. Qed.
Print Assumptions C08_honest_proof_accepted.

(** ** 4. The encoders the binding rests on. *)

(** Equality of the re-encoded account binds nonce, balance, storage root and code hash. *)
Theorem C08_rlp_account_injective : forall a b,
  account_wf a -> account_wf b ->
  (length (a_storage a) <= 55)%nat -> (length (a_code a) <= 55)%nat ->
  (length (a_storage b) <= 55)%nat -> (length (a_code b) <= 55)%nat ->
  rlp_account a = rlp_account b -> a = b.
Proof. exact rlp_account_injective. Qed.
Print Assumptions C08_rlp_account_injective.

(** RLP byte strings are prefix-free and the strict decoder of [checkProofResult] inverts the encoder. *)
Theorem C08_rlp_string_prefix_free : forall a b x y,
  N.of_nat (length a) < two64 -> N.of_nat (length b) < two64 ->
  rlp_string a ++ x = rlp_string b ++ y -> a = b /\ x = y.
Proof. exact rlp_string_inj. Qed.
Print Assumptions C08_rlp_string_prefix_free.

Theorem C08_rlp_decode_encode : forall b, N.of_nat (length b) < two64 -> rlp_decode_bytes (rlp_string b) = Some b.
Proof. exact rlp_decode_encode. Qed.
Print Assumptions C08_rlp_decode_encode.

(** [checkProofResult] on the honest trie value of a 32-byte word: accepted for every number of leading zeros. *)
Theorem C08_check_proof_result_leading_zeros : forall c,
  length c = 32%nat -> check_proof_result (rlp_string (strip_zeros c)) c = true.
Proof. exact check_proof_result_honest. Qed.
Print Assumptions C08_check_proof_result_leading_zeros.

(** ** 5. Rejections. *)

(** Every mutation at once (truncated / padded / reordered node lists, other spellings, other account
    fields, ...): whatever is accepted establishes the ONE value the committed tries hold -- two accepted
    proofs for the same client state, store, height and path carry the same value. *)
Theorem C08_accepted_value_unique : forall keccak256 mpt_verify json_proof commits,
  mpt_sound mpt_verify commits ->
  forall cs cstore h p1 p2 ack src dst seq c1 c2 world,
  verify keccak256 mpt_verify json_proof cs cstore (Some h) (Some p1) ack src dst seq c1 = Ok tt ->
  verify keccak256 mpt_verify json_proof cs cstore (Some h) (Some p2) ack src dst seq c2 = Ok tt ->
  (forall rootb, cstore (consensus_key h) = ConsRoot rootb -> commits (bytes_to_hash rootb) world) ->
  (forall acct, world (keccak256 (cs_contract cs)) = Some (rlp_account acct) -> exists st, commits (a_storage acct) st) ->
  c1 = c2.
Proof. exact accepted_value_unique. Qed.
Print Assumptions C08_accepted_value_unique.

(** another value, or an absent key: if the committed storage of the committed contract account holds
    nothing at the slot, or something that does not read as this value, no proof is accepted *)
Theorem C08_false_claim_rejected : forall keccak256 mpt_verify json_proof commits,
  mpt_sound mpt_verify commits ->
  forall cs cstore h p ack src dst seq c rootb world acct st,
  cstore (consensus_key h) = ConsRoot rootb -> commits (bytes_to_hash rootb) world ->
  world (keccak256 (cs_contract cs)) = Some (rlp_account acct) ->
  account_wf acct -> length (a_storage acct) = 32%nat -> length (a_code acct) = 32%nat ->
  commits (a_storage acct) st ->
  match st (keccak256 (proof_key keccak256 ack src dst seq)) with
  | None => True
  | Some raw => forall t, rlp_decode_bytes raw = Some t -> left_pad32 t <> c
  end ->
  verify keccak256 mpt_verify json_proof cs cstore (Some h) (Some p) ack src dst seq c <> Ok tt.
Proof. exact false_claim_rejected. Qed.
Print Assumptions C08_false_claim_rejected.

(** another contract (1): the committed world has no account at the configured address *)
Theorem C08_missing_account_rejected : forall keccak256 mpt_verify json_proof commits,
  mpt_sound mpt_verify commits ->
  forall cs cstore h p ack src dst seq c rootb world,
  cstore (consensus_key h) = ConsRoot rootb -> commits (bytes_to_hash rootb) world ->
  world (keccak256 (cs_contract cs)) = None ->
  verify keccak256 mpt_verify json_proof cs cstore (Some h) (Some p) ack src dst seq c <> Ok tt.
Proof. exact missing_account_rejected. Qed.
Print Assumptions C08_missing_account_rejected.

(** another contract (2): the proof names another address *)
Theorem C08_other_contract_rejected : forall keccak256 mpt_verify json_proof cs cstore h p r ack src dst seq c,
  json_proof p = Some r -> from_hex (p_address r) <> cs_contract cs ->
  verify keccak256 mpt_verify json_proof cs cstore (Some h) (Some p) ack src dst seq c <> Ok tt.
Proof. exact reject_other_contract. Qed.
Print Assumptions C08_other_contract_rejected.

(** another slot: the storage proof's key is not the slot of this path *)
Theorem C08_other_slot_rejected : forall keccak256 mpt_verify json_proof cs cstore h p r sp ack src dst seq c,
  json_proof p = Some r -> p_storage_proof r = [Some sp] ->
  hex_to_hash (sr_key sp) <> proof_key keccak256 ack src dst seq ->
  verify keccak256 mpt_verify json_proof cs cstore (Some h) (Some p) ack src dst seq c <> Ok tt.
Proof. exact reject_other_slot. Qed.
Print Assumptions C08_other_slot_rejected.

(** missing or extra storage proof *)
Theorem C08_storage_proof_count_rejected : forall keccak256 mpt_verify json_proof cs cstore h p r ack src dst seq c,
  json_proof p = Some r -> length (p_storage_proof r) <> 1%nat ->
  verify keccak256 mpt_verify json_proof cs cstore (Some h) (Some p) ack src dst seq c <> Ok tt.
Proof. exact reject_storage_proof_count. Qed.
Print Assumptions C08_storage_proof_count_rejected.

(** another root / height: no (decodable) consensus state stored for exactly this height *)
Theorem C08_no_consensus_state_rejected : forall keccak256 mpt_verify json_proof cs cstore h p ack src dst seq c,
  (forall root, cstore (consensus_key h) <> ConsRoot root) ->
  verify keccak256 mpt_verify json_proof cs cstore (Some h) (Some p) ack src dst seq c <> Ok tt.
Proof. exact reject_no_consensus_state. Qed.
Print Assumptions C08_no_consensus_state_rejected.

(** height above the head: rejected whatever the revision numbers *)
Theorem C08_above_head_rejected : forall keccak256 mpt_verify json_proof cs cstore h p ack src dst seq c,
  rh (cs_head cs) < rh h ->
  verify keccak256 mpt_verify json_proof cs cstore (Some h) (Some p) ack src dst seq c <> Ok tt.
Proof. exact reject_above_head. Qed.
Print Assumptions C08_above_head_rejected.

(** height of another revision than the head's *)
Theorem C08_other_revision_rejected : forall keccak256 mpt_verify json_proof cs cstore h p ack src dst seq c,
  rn h <> rn (cs_head cs) ->
  verify keccak256 mpt_verify json_proof cs cstore (Some h) (Some p) ack src dst seq c <> Ok tt.
Proof. exact reject_other_revision. Qed.
Print Assumptions C08_other_revision_rejected.

(** confirmation blocks not passed *)
Theorem C08_unconfirmed_rejected : forall keccak256 mpt_verify json_proof cs cstore h p ack src dst seq c,
  h64 (cs_head cs) -> rh h <= rh (cs_head cs) -> rh (cs_head cs) - rh h < delay_block cs ->
  verify keccak256 mpt_verify json_proof cs cstore (Some h) (Some p) ack src dst seq c <> Ok tt.
Proof. exact reject_unconfirmed. Qed.
Print Assumptions C08_unconfirmed_rejected.

(** nil or undecodable proof bytes *)
Theorem C08_undecodable_rejected : forall keccak256 mpt_verify json_proof cs cstore oh op ack src dst seq c,
  (forall p, op = Some p -> json_proof p = None) ->
  verify keccak256 mpt_verify json_proof cs cstore oh op ack src dst seq c <> Ok tt.
Proof. exact reject_undecodable. Qed.
Print Assumptions C08_undecodable_rejected.

(** ** 6. Correspondence machinery.  (The ties to definitions REGENERATED from the Go source -- key formats, struct
    schemas, account wiring, constants -- are in Props/C08_schema.v, the only file of C08 that depends on Gen/.) *)

(** [verify] depends on the oracles only through the list [queries]: if the harness's tables agree with the
    real functions on these arguments, the model evaluated on the tables is the model on the real functions. *)
Theorem C08_oracle_footprint :
  forall keccak1 mpt1 json1 keccak2 mpt2 json2 cs cstore oh op ack src dst seq c,
  (forall q, In q (queries keccak1 mpt1 json1 cs cstore oh op ack src dst seq) ->
             agree keccak1 mpt1 json1 keccak2 mpt2 json2 q) ->
  EvmProof.verify keccak1 mpt1 json1 cs cstore oh op ack src dst seq c =
  EvmProof.verify keccak2 mpt2 json2 cs cstore oh op ack src dst seq c.
Proof. exact verify_footprint. Qed.
Print Assumptions C08_oracle_footprint.

(** The executable monitor has nothing to report on an accepting step of the model (ground truth = what the
    committed tries hold). *)
Theorem C08_monitor_sound : forall keccak256 mpt_verify json_proof commits,
  mpt_sound mpt_verify commits ->
  forall (c : ecase) (k : client_kind) h,
  c_height c = Some h -> h64 (c_head c) ->
  (forall p, c_proof c = Some p -> json_proof p = c_json c) ->
  gt_consistent keccak256 commits c k h ->
  EvmProof.verify keccak256 mpt_verify json_proof (cs_of c k) (cstore_of c) (c_height c) (c_proof c)
                  (c_ack c) (c_src c) (c_dst c) (c_seq c) (c_commitment c) = Ok tt ->
  mon_copy c (delay_block (cs_of c k)) 0 = [].
Proof. exact monitor_sound. Qed.
Print Assumptions C08_monitor_sound.

(** ** 8. No premise on the trie library: [trie.VerifyProof] itself is in the model.

    [mpt_verify_g keccak256] (Model/EvmProofMpt.v) transcribes go-ethereum's [trie.VerifyProof] on a
    [light.NodeList] (node RLP decoding, compact / hex-prefix keys, embedded nodes, the hash-keyed node set); Keccak
    is the ONLY oracle and nothing is assumed about it: the statements end in "... \/ collision keccak256", where
    [collision] exhibits two DIFFERENT byte strings with the SAME hash.

    [db_value keccak256 root key ov]: SOME node database (each node stored under its Keccak hash, as geth's trie
    database does) resolves [key] under [root] -- the walk of geth's trie reader -- and finds [ov] ([None] = not
    present).  [commits_db keccak256 root m]: one database resolves every key, and [m] is what it finds. *)

(** what a root holds at a key does not depend on the database *)
Theorem C08_db_value_unique : forall keccak256 root key ov1 ov2,
  db_value keccak256 root key ov1 -> db_value keccak256 root key ov2 -> ov1 = ov2 \/ collision keccak256.
Proof. exact db_value_unique. Qed.
Print Assumptions C08_db_value_unique.

(** the verifier's answer is what every database holds, or a collision is in hand *)
Theorem C08_mpt_verify_sound : forall keccak256 root key nodes v ov,
  mpt_verify_g keccak256 root key nodes = Some v -> db_value keccak256 root key ov ->
  ov = lookup_result v \/ collision keccak256.
Proof. exact mpt_verify_sound_at. Qed.
Print Assumptions C08_mpt_verify_sound.

Theorem C08_commits_db_value : forall keccak256 root m key,
  commits_db keccak256 root m -> db_value keccak256 root key (m key).
Proof. exact commits_db_value. Qed.
Print Assumptions C08_commits_db_value.

(** the premise [mpt_sound] of the theorems of sections 2 and 5 holds for the Gallina verifier when Keccak has no
    collision *)
Theorem C08_mpt_sound_of_no_collision : forall keccak256,
  ~ collision keccak256 -> mpt_sound (mpt_verify_g keccak256) (commits_db keccak256).
Proof. exact mpt_sound_of_no_collision. Qed.
Print Assumptions C08_mpt_sound_of_no_collision.

(** Soundness with Keccak as the only oracle (compare [C08_evm_proof_sound]). *)
Theorem C08_evm_proof_sound_mpt : forall keccak256 json_proof cs cstore oh op ack src dst seq c,
  verify keccak256 (mpt_verify_g keccak256) json_proof cs cstore oh op ack src dst seq c = Ok tt ->
  exists h p, oh = Some h /\ op = Some p /\
    (rn h = rn (cs_head cs) /\ rh h <= rh (cs_head cs) /\
     delay_block cs <= sub64 (rh (cs_head cs)) (rh h)) /\
    exists rootb acct,
      cstore (consensus_key h) = ConsRoot rootb /\
      account_wf acct /\ length (a_storage acct) = 32%nat /\ length (a_code acct) = 32%nat /\
      (forall oa, db_value keccak256 (bytes_to_hash rootb) (keccak256 (cs_contract cs)) oa ->
                  oa = Some (rlp_account acct) \/ collision keccak256) /\
      (forall ov, db_value keccak256 (a_storage acct) (keccak256 (proof_key keccak256 ack src dst seq)) ov ->
                  (exists raw t, ov = Some raw /\ rlp_decode_bytes raw = Some t /\ left_pad32 t = c)
                  \/ collision keccak256).
Proof. exact sound_mpt. Qed.
Print Assumptions C08_evm_proof_sound_mpt.

(** End to end: if the stored root holds account [acct] at the configured contract address and [acct]'s storage
    root holds [ov] at the slot of exactly this path, whatever is accepted for (kind, src, dst, seq, value) is
    there, as a canonical RLP string whose left-padding to 32 bytes is exactly the value. *)
Theorem C08_accepted_holds : forall keccak256 json_proof cs cstore h p ack src dst seq c rootb acct ov,
  verify keccak256 (mpt_verify_g keccak256) json_proof cs cstore (Some h) (Some p) ack src dst seq c = Ok tt ->
  cstore (consensus_key h) = ConsRoot rootb ->
  db_value keccak256 (bytes_to_hash rootb) (keccak256 (cs_contract cs)) (Some (rlp_account acct)) ->
  account_wf acct -> length (a_storage acct) = 32%nat -> length (a_code acct) = 32%nat ->
  db_value keccak256 (a_storage acct) (keccak256 (proof_key keccak256 ack src dst seq)) ov ->
  (exists raw t, ov = Some raw /\ rlp_decode_bytes raw = Some t /\ left_pad32 t = c) \/ collision keccak256.
Proof. exact accepted_holds_at. Qed.
Print Assumptions C08_accepted_holds.

(** another value / an absent key / a truncated, padded or otherwise mutated proof of a false claim: rejected *)
Theorem C08_false_claim_rejected_mpt : forall keccak256 json_proof cs cstore h p ack src dst seq c rootb acct ov,
  cstore (consensus_key h) = ConsRoot rootb ->
  db_value keccak256 (bytes_to_hash rootb) (keccak256 (cs_contract cs)) (Some (rlp_account acct)) ->
  account_wf acct -> length (a_storage acct) = 32%nat -> length (a_code acct) = 32%nat ->
  db_value keccak256 (a_storage acct) (keccak256 (proof_key keccak256 ack src dst seq)) ov ->
  match ov with
  | None => True
  | Some raw => forall t, rlp_decode_bytes raw = Some t -> left_pad32 t <> c
  end ->
  verify keccak256 (mpt_verify_g keccak256) json_proof cs cstore (Some h) (Some p) ack src dst seq c <> Ok tt
  \/ collision keccak256.
Proof. exact false_claim_rejected_at. Qed.
Print Assumptions C08_false_claim_rejected_mpt.

(** the same two statements against whole worlds ([commits_db]) *)
Theorem C08_accepted_holds_world : forall keccak256 json_proof cs cstore h p ack src dst seq c rootb world acct st,
  verify keccak256 (mpt_verify_g keccak256) json_proof cs cstore (Some h) (Some p) ack src dst seq c = Ok tt ->
  cstore (consensus_key h) = ConsRoot rootb -> commits_db keccak256 (bytes_to_hash rootb) world ->
  world (keccak256 (cs_contract cs)) = Some (rlp_account acct) ->
  account_wf acct -> length (a_storage acct) = 32%nat -> length (a_code acct) = 32%nat ->
  commits_db keccak256 (a_storage acct) st ->
  (exists raw t, st (keccak256 (proof_key keccak256 ack src dst seq)) = Some raw /\
                 rlp_decode_bytes raw = Some t /\ left_pad32 t = c) \/ collision keccak256.
Proof. exact accepted_holds_mpt. Qed.
Print Assumptions C08_accepted_holds_world.

Theorem C08_false_claim_rejected_world : forall keccak256 json_proof cs cstore h p ack src dst seq c rootb world acct st,
  cstore (consensus_key h) = ConsRoot rootb -> commits_db keccak256 (bytes_to_hash rootb) world ->
  world (keccak256 (cs_contract cs)) = Some (rlp_account acct) ->
  account_wf acct -> length (a_storage acct) = 32%nat -> length (a_code acct) = 32%nat ->
  commits_db keccak256 (a_storage acct) st ->
  match st (keccak256 (proof_key keccak256 ack src dst seq)) with
  | None => True
  | Some raw => forall t, rlp_decode_bytes raw = Some t -> left_pad32 t <> c
  end ->
  verify keccak256 (mpt_verify_g keccak256) json_proof cs cstore (Some h) (Some p) ack src dst seq c <> Ok tt
  \/ collision keccak256.
Proof. exact false_claim_rejected_mpt. Qed.
Print Assumptions C08_false_claim_rejected_world.

(** another contract: the stored root holds no account at the configured address *)
Theorem C08_missing_account_rejected_mpt : forall keccak256 json_proof cs cstore h p ack src dst seq c rootb,
  cstore (consensus_key h) = ConsRoot rootb ->
  db_value keccak256 (bytes_to_hash rootb) (keccak256 (cs_contract cs)) None ->
  verify keccak256 (mpt_verify_g keccak256) json_proof cs cstore (Some h) (Some p) ack src dst seq c <> Ok tt
  \/ collision keccak256.
Proof. exact missing_account_rejected_at. Qed.
Print Assumptions C08_missing_account_rejected_mpt.

(** ALL mutations at once, no world needed: two accepted proofs (any node lists, spellings, account fields) for
    the same client state, store, height and path carry the same value -- or exhibit a collision *)
Theorem C08_accepted_value_unique_mpt : forall keccak256 json_proof cs cstore h p1 p2 ack src dst seq c1 c2,
  verify keccak256 (mpt_verify_g keccak256) json_proof cs cstore (Some h) (Some p1) ack src dst seq c1 = Ok tt ->
  verify keccak256 (mpt_verify_g keccak256) json_proof cs cstore (Some h) (Some p2) ack src dst seq c2 = Ok tt ->
  c1 = c2 \/ collision keccak256.
Proof. exact accepted_value_unique_mpt. Qed.
Print Assumptions C08_accepted_value_unique_mpt.

(** Completeness of the verifier: a node list in which every hash the world's walk asks for finds the world's node
    (what [Trie.Prove] collects; order, duplicates and surplus nodes do not matter) resolves the key to the same
    answer -- or names a hash the list lacks. *)
Theorem C08_mpt_subproof_resolves : forall keccak256 world nodes root key v,
  resolves keccak256 world root key v ->
  (forall h b, find_node keccak256 world h = Some b ->
               find_node keccak256 nodes h = Some b \/ find_node keccak256 nodes h = None) ->
  resolves keccak256 nodes root key v \/
  exists h, find_node keccak256 world h <> None /\ find_node keccak256 nodes h = None.
Proof. exact resolves_subproof. Qed.
Print Assumptions C08_mpt_subproof_resolves.

(** The round budget of the Gallina verifier is never a limit (pigeonhole over (hash, key-suffix) states): it returns
    [v] exactly when its node list, read as a node database, resolves the key to [v] in ANY number of rounds. *)
Theorem C08_mpt_verify_iff_resolves : forall keccak256 root key nodes v,
  mpt_verify_g keccak256 root key nodes = Some v <-> resolves keccak256 nodes root key v.
Proof. exact mpt_verify_g_iff_resolves. Qed.
Print Assumptions C08_mpt_verify_iff_resolves.

(** ... and [WLoop] (budget exhausted) means that no number of rounds gives an answer: the Go loop does not end *)
Theorem C08_wloop_means_no_answer : forall keccak256 root key nodes,
  walk keccak256 nodes (walk_fuel nodes key) root (keybytes_to_hex key) = WLoop ->
  forall fuel, ~ definitive (walk keccak256 nodes fuel root (keybytes_to_hex key)).
Proof. exact wloop_means_no_answer. Qed.
Print Assumptions C08_wloop_means_no_answer.

(** the level bound of [decode_node] (embedded nodes) is never a limit either *)
Theorem C08_decode_node_fuel_enough : forall buf f, (length buf < f)%nat -> decode_node_fuel f buf = decode_node buf.
Proof. exact decode_node_fuel_enough. Qed.
Print Assumptions C08_decode_node_fuel_enough.

(** "Accepted EXACTLY WHEN", with the trie library inside the model and Keccak the only oracle: the gates hold, the
    record decodes, and the proof's own node lists -- as node databases -- resolve keccak(configured contract) under
    the root stored for exactly this height to the account the record's fields rebuild, and keccak(slot of exactly
    this path) under that account's storage root to a canonical RLP string whose left-padding to 32 bytes is the
    value.  (Compare [C08_accept_iff]; with [C08_db_value_unique] the two [resolves] facts are facts about EVERY node
    database under these roots, up to an explicit collision.) *)
Theorem C08_accept_iff_mpt : forall keccak256 json_proof cs cstore oh op ack src dst seq c,
  verify keccak256 (mpt_verify_g keccak256) json_proof cs cstore oh op ack src dst seq c = Ok tt <->
  exists h p, oh = Some h /\ op = Some p /\
    exists r rootb sp v t,
      height_lt (cs_head cs) h = false /\
      rn h = rn (cs_head cs) /\
      json_proof p = Some r /\
      cstore (consensus_key h) = ConsRoot rootb /\
      delay_block cs <= sub64 (rh (cs_head cs)) (rh h) /\
      from_hex (p_address r) = cs_contract cs /\
      resolves keccak256 (map from_hex (p_account_proof r)) (bytes_to_hash rootb) (keccak256 (cs_contract cs))
               (rlp_account (account_of_record r)) /\
      p_storage_proof r = [Some sp] /\
      hex_to_hash (sr_key sp) = proof_key keccak256 ack src dst seq /\
      resolves keccak256 (map from_hex (sr_proof sp)) (a_storage (account_of_record r))
               (keccak256 (proof_key keccak256 ack src dst seq)) v /\
      rlp_decode_bytes v = Some t /\ left_pad32 t = c.
Proof. exact verify_mpt_ok_iff. Qed.
Print Assumptions C08_accept_iff_mpt.

(** Completeness with the Gallina verifier in place: the honest rendering of node lists that resolve keccak(contract)
    under the stored root to the account and keccak(slot) under the account's storage root to the canonical RLP of
    the zero-stripped value is accepted (any 32-byte value, leading zeros included).  With
    [C08_mpt_subproof_resolves]: any node list containing the world's path nodes will do. *)
Theorem C08_honest_proof_accepted_mpt :
  forall keccak256 json_proof cs cstore h p ack src dst seq c rootb a acct_nodes st_nodes value,
  rn h = rn (cs_head cs) -> rh h <= rh (cs_head cs) -> h64 (cs_head cs) ->
  delay_block cs <= rh (cs_head cs) - rh h ->
  json_proof p = Some (honest_record (cs_contract cs) a (proof_key keccak256 ack src dst seq) acct_nodes st_nodes value) ->
  cstore (consensus_key h) = ConsRoot rootb ->
  a_nonce a < 2 ^ 256 -> a_balance a < 2 ^ 256 -> length (a_storage a) = 32%nat -> length (a_code a) = 32%nat ->
  length (proof_key keccak256 ack src dst seq) = 32%nat ->
  resolves keccak256 acct_nodes (bytes_to_hash rootb) (keccak256 (cs_contract cs)) (rlp_account a) ->
  resolves keccak256 st_nodes (a_storage a) (keccak256 (proof_key keccak256 ack src dst seq)) (rlp_string (strip_zeros c)) ->
  length c = 32%nat ->
  verify keccak256 (mpt_verify_g keccak256) json_proof cs cstore (Some h) (Some p) ack src dst seq c = Ok tt.
Proof. exact honest_accepted_resolves. Qed.
Print Assumptions C08_honest_proof_accepted_mpt.

(** Malleability, stated positively: whatever a node list proves, the list followed by ANY further nodes proves too;
    hence a "padded" proof of a TRUE claim is accepted (and, by the theorems above, only of a true claim).  The
    property text's "a padded proof is rejected" is refuted in this literal reading in Refuted/C08_refuted.v. *)
Theorem C08_mpt_verify_padded : forall keccak256 root key nodes extra v,
  mpt_verify_g keccak256 root key nodes = Some v -> mpt_verify_g keccak256 root key (nodes ++ extra) = Some v.
Proof. exact mpt_verify_g_padded. Qed.
Print Assumptions C08_mpt_verify_padded.

(** [trie.VerifyProof] cannot panic: the [key[0]] of go-ethereum's [get] is never evaluated on an exhausted key,
    because the walk's key is [keybytesToHex(k)] and decoded nodes consume the terminator only through values.
    (So the [option] result of the [mpt_verify] oracle loses nothing.) *)
Theorem C08_verify_proof_no_panic : forall keccak256 root key nodes,
  walk keccak256 nodes (walk_fuel nodes key) root (keybytes_to_hex key) <> WPanic.
Proof. exact verify_proof_no_panic. Qed.
Print Assumptions C08_verify_proof_no_panic.

(** ** 9. The confirmation depth.  BSC: [GetDelayBlock = len(Validators)/2 + 1] is, for every validator count a Go
    slice can have, the least number of blocks exceeding half of the validator set; ETH: the configured field. *)
Theorem C08_bsc_delay_block_majority : forall cs, cs_kind cs = BSC -> cs_nvalidators cs < 2 ^ 63 ->
  cs_nvalidators cs < 2 * delay_block cs /\ 2 * (delay_block cs - 1) <= cs_nvalidators cs /\ 1 <= delay_block cs.
Proof. exact bsc_delay_block_majority. Qed.
Print Assumptions C08_bsc_delay_block_majority.

Theorem C08_eth_delay_block_value : forall cs, cs_kind cs = ETH -> delay_block cs = cs_block_delay cs.
Proof. exact eth_delay_block_value. Qed.
Print Assumptions C08_eth_delay_block_value.

(** [GetDelayTime] (BSC) is the depth times the block interval while that fits in a uint64 *)
Theorem C08_bsc_delay_time_exact : forall n iv, n < 2 ^ 63 -> (n / 2 + 1) * iv < two64 ->
  delay_time BSC n iv 0 = (n / 2 + 1) * iv.
Proof. exact bsc_delay_time_exact. Qed.
Print Assumptions C08_bsc_delay_time_exact.

(** ** 10. Abstract tries: every trie is a world.

    [tnode] (Model/EvmProofTrie.v) is a Merkle-Patricia trie as a tree (leaf / extension / branch with resolved children),
    [enc] its node encoding as go-ethereum's hasher writes it (children shorter than 32 bytes embedded, others referred
    to by hash), [tlookup] its content, [db_of] its node database.  Keccak: an arbitrary function returning 32 bytes.
    [twf]: nibbles below 16, 16 children per branch, encodings shorter than 2^64 bytes. *)

(** [decodeNode] inverts the node encoder, whatever follows the node in the buffer *)
Theorem C08_decode_enc : forall keccak256, (forall x, length (keccak256 x) = 32%nat) ->
  forall t, twf keccak256 t -> forall rest, decode_node (enc keccak256 t ++ rest) = Some (shallow keccak256 t).
Proof. exact decode_enc. Qed.
Print Assumptions C08_decode_enc.

(** re-encoding the decoded node gives the bytes back (what the run-time check evaluates on geth's own nodes) *)
Theorem C08_enc_node_shallow : forall keccak256 t, twf keccak256 t -> enc_node (shallow keccak256 t) = enc keccak256 t.
Proof. exact enc_node_shallow. Qed.
Print Assumptions C08_enc_node_shallow.

(** the node database of a trie resolves every key to the trie's content: every trie is a world (non-vacuity of the
    premises [db_value] / [commits_db] for ALL tries, not only recorded ones) *)
Theorem C08_trie_resolves : forall keccak256, (forall x, length (keccak256 x) = 32%nat) ->
  forall t key, twf keccak256 t ->
  resolves keccak256 (db_of keccak256 t) (keccak256 (enc keccak256 t)) key (tlookup t (keybytes_to_hex key))
  \/ collision keccak256.
Proof. exact trie_resolves. Qed.
Print Assumptions C08_trie_resolves.

Theorem C08_trie_commits : forall keccak256, (forall x, length (keccak256 x) = 32%nat) ->
  forall t, twf keccak256 t -> ~ collision keccak256 ->
  commits_db keccak256 (keccak256 (enc keccak256 t)) (fun key => lookup_result (tlookup t (keybytes_to_hex key))).
Proof. exact trie_commits. Qed.
Print Assumptions C08_trie_commits.

(** THE PROPERTY, soundness direction, over "all state tries, accounts, storage contents": if the root stored for the
    proof height is the root hash of the state trie [world], [world] holds the account [acct] at keccak(configured
    contract) and [acct]'s storage root is the root hash of the storage trie [st], then whatever is accepted for
    (kind, src, dst, seq, value) -- any proof bytes, any node lists -- is what [st] holds at keccak(slot of exactly this
    path): a canonical RLP string whose left-padding to 32 bytes is exactly the value; or a collision is exhibited. *)
Theorem C08_accepted_holds_trie : forall keccak256, (forall x, length (keccak256 x) = 32%nat) ->
  forall json_proof cs cstore h p ack src dst seq c rootb (world st : tnode) acct,
  verify keccak256 (mpt_verify_g keccak256) json_proof cs cstore (Some h) (Some p) ack src dst seq c = Ok tt ->
  cstore (consensus_key h) = ConsRoot rootb ->
  twf keccak256 world -> keccak256 (enc keccak256 world) = bytes_to_hash rootb ->
  tlookup world (keybytes_to_hex (keccak256 (cs_contract cs))) = rlp_account acct ->
  account_wf acct -> length (a_storage acct) = 32%nat -> length (a_code acct) = 32%nat ->
  twf keccak256 st -> keccak256 (enc keccak256 st) = a_storage acct ->
  (exists t, rlp_decode_bytes (tlookup st (keybytes_to_hex (keccak256 (proof_key keccak256 ack src dst seq)))) = Some t /\
             left_pad32 t = c) \/ collision keccak256.
Proof. exact accepted_holds_trie. Qed.
Print Assumptions C08_accepted_holds_trie.

Theorem C08_false_claim_rejected_trie : forall keccak256, (forall x, length (keccak256 x) = 32%nat) ->
  forall json_proof cs cstore h p ack src dst seq c rootb (world st : tnode) acct,
  cstore (consensus_key h) = ConsRoot rootb ->
  twf keccak256 world -> keccak256 (enc keccak256 world) = bytes_to_hash rootb ->
  tlookup world (keybytes_to_hex (keccak256 (cs_contract cs))) = rlp_account acct ->
  account_wf acct -> length (a_storage acct) = 32%nat -> length (a_code acct) = 32%nat ->
  twf keccak256 st -> keccak256 (enc keccak256 st) = a_storage acct ->
  (forall t, rlp_decode_bytes (tlookup st (keybytes_to_hex (keccak256 (proof_key keccak256 ack src dst seq)))) = Some t ->
             left_pad32 t <> c) ->
  verify keccak256 (mpt_verify_g keccak256) json_proof cs cstore (Some h) (Some p) ack src dst seq c <> Ok tt
  \/ collision keccak256.
Proof. exact false_claim_rejected_trie. Qed.
Print Assumptions C08_false_claim_rejected_trie.

(** ... and the completeness direction over abstract tries: the honest rendering of the two tries' node databases is
    accepted for the value the storage trie holds (any 32-byte value, leading zeros included), gates permitting. *)
Theorem C08_honest_proof_accepted_trie : forall keccak256, (forall x, length (keccak256 x) = 32%nat) ->
  forall json_proof cs cstore h p ack src dst seq c rootb (world st : tnode) acct value,
  rn h = rn (cs_head cs) -> rh h <= rh (cs_head cs) -> h64 (cs_head cs) ->
  delay_block cs <= rh (cs_head cs) - rh h ->
  json_proof p = Some (honest_record (cs_contract cs) acct (proof_key keccak256 ack src dst seq)
                                     (db_of keccak256 world) (db_of keccak256 st) value) ->
  cstore (consensus_key h) = ConsRoot rootb ->
  twf keccak256 world -> keccak256 (enc keccak256 world) = bytes_to_hash rootb ->
  tlookup world (keybytes_to_hex (keccak256 (cs_contract cs))) = rlp_account acct ->
  a_nonce acct < 2 ^ 256 -> a_balance acct < 2 ^ 256 -> length (a_storage acct) = 32%nat -> length (a_code acct) = 32%nat ->
  length (proof_key keccak256 ack src dst seq) = 32%nat ->
  twf keccak256 st -> keccak256 (enc keccak256 st) = a_storage acct ->
  tlookup st (keybytes_to_hex (keccak256 (proof_key keccak256 ack src dst seq))) = rlp_string (strip_zeros c) ->
  length c = 32%nat ->
  verify keccak256 (mpt_verify_g keccak256) json_proof cs cstore (Some h) (Some p) ack src dst seq c = Ok tt
  \/ collision keccak256.
Proof. exact honest_accepted_trie. Qed.
Print Assumptions C08_honest_proof_accepted_trie.

(** ** 7. Non-vacuity: a case recorded from the real code (tables = real Keccak256 / trie.VerifyProof /
    encoding/json results): both copies accepted it, the model accepts it for both copies, the gates hold
    with 36 >= 14 confirmations, the value has 14 leading zero bytes, every oracle query of the model is
    in the tables, model and code agree, the monitor is silent. *)
Example C08_nonvacuous :
  let c := witness_honest in
  model_class c ETH = 0%nat /\ model_class c BSC = 0%nat /\ c_eth_class c = 0%nat /\ c_bsc_class c = 0%nat /\
  oracle_miss c ETH = false /\ oracle_miss c BSC = false /\
  c_height c = Some {| rn := 0; rh := 80605 |} /\ c_head c = {| rn := 0; rh := 80641 |} /\
  delay_block (cs_of c ETH) = 14 /\ delay_block (cs_of c BSC) = 14 /\
  firstn 14 (c_commitment c) = zeros 14 /\ length (c_commitment c) = 32%nat /\
  mismatches [c] = [] /\ monitor_failures [c] = [].
Proof. vm_compute. repeat split; reflexivity. Qed.
Print Assumptions C08_nonvacuous.

(** Non-vacuity of section 8 on the same recorded case, now with the Keccak hashes of its proof nodes in the table
    (Model/EvmProofMptWitness.v): the model with the GALLINA MPT verifier accepts it for both copies, the Gallina
    verifier reproduces every recorded [trie.VerifyProof] result, and the premises of [C08_accepted_holds] are met:
    the account-proof nodes are a node database under the stored root that resolves keccak(contract) to the account
    RLP, the storage-proof nodes one under the account's storage root that resolves the slot to the stored string. *)
Definition wm_record : proof_rec :=
  match c_json witness_honest_mpt with
  | Some r => r
  | None => {| p_address := []; p_balance := []; p_code_hash := []; p_nonce := []; p_storage_hash := [];
               p_account_proof := []; p_storage_proof := [] |}
  end.
Definition wm_acct : account := Eval vm_compute in account_of_record wm_record.
Definition wm_root : bytes := Eval vm_compute in
  match cstore_of witness_honest_mpt (consensus_key {| rn := 0; rh := 80605 |}) with ConsRoot r => r | _ => [] end.
Definition wm_slot_key : bytes := Eval vm_compute in
  keccak_of witness_honest_mpt (proof_key (keccak_of witness_honest_mpt) false (c_src witness_honest_mpt)
                                          (c_dst witness_honest_mpt) (c_seq witness_honest_mpt)).

Example C08_nonvacuous_mpt :
  let c := witness_honest_mpt in
  let k := keccak_of c in
  model_class_g c ETH = 0%nat /\ model_class_g c BSC = 0%nat /\ c_eth_class c = 0%nat /\ c_bsc_class c = 0%nat /\
  ecase_mpt_check c = [] /\ length (c_mpt c) = 2%nat /\
  cstore_of c (consensus_key {| rn := 0; rh := 80605 |}) = ConsRoot wm_root /\
  db_value k (bytes_to_hash wm_root) (k (c_contract c)) (Some (rlp_account wm_acct)) /\
  account_wf wm_acct /\ length (a_storage wm_acct) = 32%nat /\ length (a_code wm_acct) = 32%nat /\
  exists raw t, db_value k (a_storage wm_acct) wm_slot_key (Some raw) /\
                rlp_decode_bytes raw = Some t /\ left_pad32 t = c_commitment c /\ length t = 18%nat.
Proof.
  cbv zeta.
  split; [vm_compute; reflexivity|]. split; [vm_compute; reflexivity|].
  split; [reflexivity|]. split; [reflexivity|].
  split; [vm_compute; reflexivity|]. split; [reflexivity|].
  split; [vm_compute; reflexivity|].
  split.
  { exists (map from_hex (p_account_proof wm_record)), (rlp_account wm_acct).
    split; [exists 10%nat; vm_compute; reflexivity | reflexivity]. }
  split; [vm_compute; repeat split; reflexivity|].
  split; [reflexivity|]. split; [reflexivity|].
  set (sp := match p_storage_proof wm_record with [Some sp] => sp | _ => {| sr_key := []; sr_value := []; sr_proof := [] |} end).
  set (nodes := map from_hex (sr_proof sp)).
  set (raw := match mpt_verify_g (keccak_of witness_honest_mpt) (a_storage wm_acct) wm_slot_key nodes with Some v => v | None => [] end).
  exists raw, (match rlp_decode_bytes raw with Some t => t | None => [] end).
  split.
  { exists nodes, raw. split; [exists 10%nat; vm_compute; reflexivity | vm_compute; reflexivity]. }
  vm_compute. repeat split; reflexivity.
Qed.
Print Assumptions C08_nonvacuous_mpt.
