(** C08 -- EVM storage proofs bind contract, slot, value, root and height (ETH and BSC light clients).
    Only statements here; proofs are in Proofs/EvmProofRlp.v and Proofs/EvmProof.v.

    [verify keccak256 mpt_verify json_proof cs cstore height proof ack src dst seq value] is the model of
    [ClientState.VerifyPacketCommitment] ([ack = false]) / [VerifyPacketAcknowledgement] ([ack = true]) of
    both copies ([cs_kind cs] selects the copy's [GetDelayBlock]).  The external functions are
    universally quantified: every theorem holds for ALL [keccak256], [mpt_verify] (= trie.VerifyProof on
    the node list), [json_proof] (= encoding/json into the Proof struct); what is assumed about
    [mpt_verify] is the explicit premise [mpt_sound] of the theorems that need it. *)
From Teleport Require Import Base.Bytes Base.Outcome Model.EvmProof Model.EvmProofCheck Model.EvmProofWitness
     Proofs.EvmProofRlp Proofs.EvmProof Proofs.EvmProofKeys.
From Teleport Require Base.Fmt Gen.KeysGen.
Local Open Scope N_scope.

Section Statements.
  Variable keccak256 : bytes -> bytes.
  Variable mpt_verify : bytes -> bytes -> list bytes -> option bytes.
  Variable json_proof : bytes -> option proof_rec.
  Notation verify := (EvmProof.verify keccak256 mpt_verify json_proof).
  Notation proof_key := (EvmProof.proof_key keccak256).

  (** [commits root m]: [root] is the root hash of the trie holding the finite map [m] (abstract). *)
  Variable commits : bytes -> (bytes -> option bytes) -> Prop.

  (** the assumption on trie.VerifyProof: a returned value (empty = "key absent") is what every trie
      committed by the root holds at the key *)
  Definition mpt_sound : Prop := forall root key nodes v m,
    mpt_verify root key nodes = Some v -> commits root m -> m key = lookup_result v.
End Statements.

(** ** 1. Exact characterisation: accepted IFF every check of the code passes (oracle level). *)
Theorem C08_accept_iff : forall keccak256 mpt_verify json_proof cs cstore oh op ack src dst seq c,
  verify keccak256 mpt_verify json_proof cs cstore oh op ack src dst seq c = Ok tt <->
  exists h p, oh = Some h /\ op = Some p /\
    exists r rootb sp v t,
      height_lt (cs_head cs) h = false /\
      rn h = rn (cs_head cs) /\
      json_proof p = Some r /\
      cstore (consensus_key h) = ConsRoot rootb /\
      delay_block cs <= sub64 (rh (cs_head cs)) (rh h) /\
      from_hex (p_address r) = cs_contract cs /\
      mpt_verify (bytes_to_hash rootb) (keccak256 (cs_contract cs)) (map from_hex (p_account_proof r))
        = Some (rlp_account (account_of_record r)) /\
      p_storage_proof r = [Some sp] /\
      hex_to_hash (sr_key sp) = proof_key keccak256 ack src dst seq /\
      mpt_verify (a_storage (account_of_record r)) (keccak256 (proof_key keccak256 ack src dst seq))
                 (map from_hex (sr_proof sp)) = Some v /\
      rlp_decode_bytes v = Some t /\ left_pad32 t = c.
Proof. exact verify_ok_iff_plain. Qed.
Print Assumptions C08_accept_iff.

(** ** 2. Soundness.  Accepted => the proof height has the head's revision number, is not above the head and
    the (uint64) difference of the revision heights is at least [delay_block cs] (numeric reading, no
    wrap-around: [C08_gates_numeric]); a consensus state with root [rootb] is
    stored under the key of exactly this height, and in EVERY world committed by that root the account
    at keccak(configured contract address) is the RLP of an account [acct] such that in EVERY storage trie
    committed by [acct]'s storage root the key keccak(keccak(path ++ pad32(208))) -- [path] rendered from
    exactly this (kind, src, dst, seq) -- holds a canonical RLP string whose left-padding to 32 bytes is
    exactly the value (leading zeros included). *)
Theorem C08_evm_proof_sound : forall keccak256 mpt_verify json_proof commits,
  mpt_sound mpt_verify commits ->
  forall cs cstore oh op ack src dst seq c,
  verify keccak256 mpt_verify json_proof cs cstore oh op ack src dst seq c = Ok tt ->
  exists h p, oh = Some h /\ op = Some p /\
    (* the revision gate, the head gate and the delay gate, as coded *)
    (rn h = rn (cs_head cs) /\ rh h <= rh (cs_head cs) /\
     delay_block cs <= sub64 (rh (cs_head cs)) (rh h)) /\
    exists rootb acct,
      cstore (consensus_key h) = ConsRoot rootb /\
      account_wf acct /\ length (a_storage acct) = 32%nat /\ length (a_code acct) = 32%nat /\
      (forall world, commits (bytes_to_hash rootb) world ->
                     world (keccak256 (cs_contract cs)) = Some (rlp_account acct)) /\
      (forall st, commits (a_storage acct) st ->
                  exists raw t, st (keccak256 (proof_key keccak256 ack src dst seq)) = Some raw /\
                                rlp_decode_bytes raw = Some t /\ left_pad32 t = c).
Proof. exact sound. Qed.
Print Assumptions C08_evm_proof_sound.

(** What the gates mean numerically for a uint64 head: the subtraction cannot wrap, at least
    [delay_block cs] blocks lie between the proof height and the head.  (Before fix 0ebe7e9 this needed
    the premise "same revision number" -- Refuted/C08_refuted.v.) *)
Theorem C08_gates_numeric : forall cs h,
  h64 (cs_head cs) ->
  rn h = rn (cs_head cs) /\ rh h <= rh (cs_head cs) /\ delay_block cs <= sub64 (rh (cs_head cs)) (rh h) ->
  rn h = rn (cs_head cs) /\ rh h <= rh (cs_head cs) /\ delay_block cs <= rh (cs_head cs) - rh h.
Proof. exact gates_numeric. Qed.
Print Assumptions C08_gates_numeric.

(** The consensus state consulted is the one of exactly this (revision number, revision height). *)
Theorem C08_consensus_key_injective : forall h h', h64 h -> h64 h' -> consensus_key h = consensus_key h' -> h = h'.
Proof. exact consensus_key_injective. Qed.
Print Assumptions C08_consensus_key_injective.

(** ** 3. Completeness.  Any proof record whose fields decode to the configured address, to the account
    the account proof yields, to the slot of this path, with a storage proof yielding the canonical RLP of
    the zero-stripped 32-byte value, is accepted once the gates are passed. *)
Theorem C08_evm_proof_complete : forall keccak256 mpt_verify json_proof cs cstore h p r ack src dst seq c rootb sp,
  height_lt (cs_head cs) h = false ->
  rn h = rn (cs_head cs) ->
  delay_block cs <= sub64 (rh (cs_head cs)) (rh h) ->
  json_proof p = Some r ->
  cstore (consensus_key h) = ConsRoot rootb ->
  from_hex (p_address r) = cs_contract cs ->
  mpt_verify (bytes_to_hash rootb) (keccak256 (cs_contract cs)) (map from_hex (p_account_proof r))
    = Some (rlp_account (account_of_record r)) ->
  p_storage_proof r = [Some sp] ->
  hex_to_hash (sr_key sp) = proof_key keccak256 ack src dst seq ->
  mpt_verify (a_storage (account_of_record r)) (keccak256 (proof_key keccak256 ack src dst seq))
             (map from_hex (sr_proof sp)) = Some (rlp_string (strip_zeros c)) ->
  length c = 32%nat ->
  verify keccak256 mpt_verify json_proof cs cstore (Some h) (Some p) ack src dst seq c = Ok tt.
Proof. exact complete. Qed.
Print Assumptions C08_evm_proof_complete.

(** In particular the honest rendering ("0x" + lower-case hex of the address, of the minimal big-endian
    nonce and balance, of the hashes, of the slot and of every proof node) of an honest proof of a present
    slot -- any 32-byte value, leading zeros included -- at a height of the head's revision with the
    confirmations passed. *)
Theorem C08_honest_proof_accepted :
  forall keccak256 mpt_verify json_proof cs cstore h p ack src dst seq c rootb a acct_nodes st_nodes value,
  rn h = rn (cs_head cs) -> rh h <= rh (cs_head cs) -> h64 (cs_head cs) ->
  delay_block cs <= rh (cs_head cs) - rh h ->
  json_proof p = Some (honest_record (cs_contract cs) a (proof_key keccak256 ack src dst seq) acct_nodes st_nodes value) ->
  cstore (consensus_key h) = ConsRoot rootb ->
  a_nonce a < 2 ^ 256 -> a_balance a < 2 ^ 256 -> length (a_storage a) = 32%nat -> length (a_code a) = 32%nat ->
  length (proof_key keccak256 ack src dst seq) = 32%nat ->
  mpt_verify (bytes_to_hash rootb) (keccak256 (cs_contract cs)) acct_nodes = Some (rlp_account a) ->
  mpt_verify (a_storage a) (keccak256 (proof_key keccak256 ack src dst seq)) st_nodes = Some (rlp_string (strip_zeros c)) ->
  length c = 32%nat ->
  verify keccak256 mpt_verify json_proof cs cstore (Some h) (Some p) ack src dst seq c = Ok tt.
Proof. exact honest_accepted. Qed.
Print Assumptions C08_honest_proof_accepted.

(** ** 4. The encoders the binding rests on. *)

(** Equality of the re-encoded account binds nonce, balance, storage root and code hash. *)
Theorem C08_rlp_account_injective : forall a b,
  account_wf a -> account_wf b ->
  (length (a_storage a) <= 55)%nat -> (length (a_code a) <= 55)%nat ->
  (length (a_storage b) <= 55)%nat -> (length (a_code b) <= 55)%nat ->
  rlp_account a = rlp_account b -> a = b.
Proof. exact rlp_account_injective. Qed.
Print Assumptions C08_rlp_account_injective.

(** RLP byte strings are prefix-free and the strict decoder of [checkProofResult] inverts the encoder. *)
Theorem C08_rlp_string_prefix_free : forall a b x y,
  N.of_nat (length a) < two64 -> N.of_nat (length b) < two64 ->
  rlp_string a ++ x = rlp_string b ++ y -> a = b /\ x = y.
Proof. exact rlp_string_inj. Qed.
Print Assumptions C08_rlp_string_prefix_free.

Theorem C08_rlp_decode_encode : forall b, N.of_nat (length b) < two64 -> rlp_decode_bytes (rlp_string b) = Some b.
Proof. exact rlp_decode_encode. Qed.
Print Assumptions C08_rlp_decode_encode.

(** [checkProofResult] on the honest trie value of a 32-byte word: accepted for every number of leading zeros. *)
Theorem C08_check_proof_result_leading_zeros : forall c,
  length c = 32%nat -> check_proof_result (rlp_string (strip_zeros c)) c = true.
Proof. exact check_proof_result_honest. Qed.
Print Assumptions C08_check_proof_result_leading_zeros.

(** ** 5. Rejections. *)

(** Every mutation at once (truncated / padded / reordered node lists, other spellings, other account
    fields, ...): whatever is accepted establishes the ONE value the committed tries hold -- two accepted
    proofs for the same client state, store, height and path carry the same value. *)
Theorem C08_accepted_value_unique : forall keccak256 mpt_verify json_proof commits,
  mpt_sound mpt_verify commits ->
  forall cs cstore h p1 p2 ack src dst seq c1 c2 world,
  verify keccak256 mpt_verify json_proof cs cstore (Some h) (Some p1) ack src dst seq c1 = Ok tt ->
  verify keccak256 mpt_verify json_proof cs cstore (Some h) (Some p2) ack src dst seq c2 = Ok tt ->
  (forall rootb, cstore (consensus_key h) = ConsRoot rootb -> commits (bytes_to_hash rootb) world) ->
  (forall acct, world (keccak256 (cs_contract cs)) = Some (rlp_account acct) -> exists st, commits (a_storage acct) st) ->
  c1 = c2.
Proof. exact accepted_value_unique. Qed.
Print Assumptions C08_accepted_value_unique.

(** another value, or an absent key: if the committed storage of the committed contract account holds
    nothing at the slot, or something that does not read as this value, no proof is accepted *)
Theorem C08_false_claim_rejected : forall keccak256 mpt_verify json_proof commits,
  mpt_sound mpt_verify commits ->
  forall cs cstore h p ack src dst seq c rootb world acct st,
  cstore (consensus_key h) = ConsRoot rootb -> commits (bytes_to_hash rootb) world ->
  world (keccak256 (cs_contract cs)) = Some (rlp_account acct) ->
  account_wf acct -> length (a_storage acct) = 32%nat -> length (a_code acct) = 32%nat ->
  commits (a_storage acct) st ->
  match st (keccak256 (proof_key keccak256 ack src dst seq)) with
  | None => True
  | Some raw => forall t, rlp_decode_bytes raw = Some t -> left_pad32 t <> c
  end ->
  verify keccak256 mpt_verify json_proof cs cstore (Some h) (Some p) ack src dst seq c <> Ok tt.
Proof. exact false_claim_rejected. Qed.
Print Assumptions C08_false_claim_rejected.

(** another contract (1): the committed world has no account at the configured address *)
Theorem C08_missing_account_rejected : forall keccak256 mpt_verify json_proof commits,
  mpt_sound mpt_verify commits ->
  forall cs cstore h p ack src dst seq c rootb world,
  cstore (consensus_key h) = ConsRoot rootb -> commits (bytes_to_hash rootb) world ->
  world (keccak256 (cs_contract cs)) = None ->
  verify keccak256 mpt_verify json_proof cs cstore (Some h) (Some p) ack src dst seq c <> Ok tt.
Proof. exact missing_account_rejected. Qed.
Print Assumptions C08_missing_account_rejected.

(** another contract (2): the proof names another address *)
Theorem C08_other_contract_rejected : forall keccak256 mpt_verify json_proof cs cstore h p r ack src dst seq c,
  json_proof p = Some r -> from_hex (p_address r) <> cs_contract cs ->
  verify keccak256 mpt_verify json_proof cs cstore (Some h) (Some p) ack src dst seq c <> Ok tt.
Proof. exact reject_other_contract. Qed.
Print Assumptions C08_other_contract_rejected.

(** another slot: the storage proof's key is not the slot of this path *)
Theorem C08_other_slot_rejected : forall keccak256 mpt_verify json_proof cs cstore h p r sp ack src dst seq c,
  json_proof p = Some r -> p_storage_proof r = [Some sp] ->
  hex_to_hash (sr_key sp) <> proof_key keccak256 ack src dst seq ->
  verify keccak256 mpt_verify json_proof cs cstore (Some h) (Some p) ack src dst seq c <> Ok tt.
Proof. exact reject_other_slot. Qed.
Print Assumptions C08_other_slot_rejected.

(** missing or extra storage proof *)
Theorem C08_storage_proof_count_rejected : forall keccak256 mpt_verify json_proof cs cstore h p r ack src dst seq c,
  json_proof p = Some r -> length (p_storage_proof r) <> 1%nat ->
  verify keccak256 mpt_verify json_proof cs cstore (Some h) (Some p) ack src dst seq c <> Ok tt.
Proof. exact reject_storage_proof_count. Qed.
Print Assumptions C08_storage_proof_count_rejected.

(** another root / height: no (decodable) consensus state stored for exactly this height *)
Theorem C08_no_consensus_state_rejected : forall keccak256 mpt_verify json_proof cs cstore h p ack src dst seq c,
  (forall root, cstore (consensus_key h) <> ConsRoot root) ->
  verify keccak256 mpt_verify json_proof cs cstore (Some h) (Some p) ack src dst seq c <> Ok tt.
Proof. exact reject_no_consensus_state. Qed.
Print Assumptions C08_no_consensus_state_rejected.

(** height above the head: rejected whatever the revision numbers *)
Theorem C08_above_head_rejected : forall keccak256 mpt_verify json_proof cs cstore h p ack src dst seq c,
  rh (cs_head cs) < rh h ->
  verify keccak256 mpt_verify json_proof cs cstore (Some h) (Some p) ack src dst seq c <> Ok tt.
Proof. exact reject_above_head. Qed.
Print Assumptions C08_above_head_rejected.

(** height of another revision than the head's *)
Theorem C08_other_revision_rejected : forall keccak256 mpt_verify json_proof cs cstore h p ack src dst seq c,
  rn h <> rn (cs_head cs) ->
  verify keccak256 mpt_verify json_proof cs cstore (Some h) (Some p) ack src dst seq c <> Ok tt.
Proof. exact reject_other_revision. Qed.
Print Assumptions C08_other_revision_rejected.

(** confirmation blocks not passed *)
Theorem C08_unconfirmed_rejected : forall keccak256 mpt_verify json_proof cs cstore h p ack src dst seq c,
  h64 (cs_head cs) -> rh h <= rh (cs_head cs) -> rh (cs_head cs) - rh h < delay_block cs ->
  verify keccak256 mpt_verify json_proof cs cstore (Some h) (Some p) ack src dst seq c <> Ok tt.
Proof. exact reject_unconfirmed. Qed.
Print Assumptions C08_unconfirmed_rejected.

(** nil or undecodable proof bytes *)
Theorem C08_undecodable_rejected : forall keccak256 mpt_verify json_proof cs cstore oh op ack src dst seq c,
  (forall p, op = Some p -> json_proof p = None) ->
  verify keccak256 mpt_verify json_proof cs cstore oh op ack src dst seq c <> Ok tt.
Proof. exact reject_undecodable. Qed.
Print Assumptions C08_undecodable_rejected.

(** ** 6. Correspondence machinery. *)

(** The slot pre-images ([path ++ pad32(208)], hashed by [proof_key]) and the consensus-state store key of
    the model are the key builders of the Go source: they equal the renderings of the format terms that
    tools/gotocoq/keys regenerates from host/keys.go and {eth,bsc}/types/keys.go on every run (Gen/KeysGen.v);
    a changed Go key builder breaks this obligation. *)
Theorem C08_keys_match_go_source :
  (forall src dst seq,
     Fmt.render KeysGen.eth_ProofKeyConstructor_GetPacketCommitmentProofKey_preimage (path_args src dst seq)
     = packet_path false src dst seq ++ pad32_208 /\
     Fmt.render KeysGen.eth_ProofKeyConstructor_GetAckProofKey_preimage (path_args src dst seq)
     = packet_path true src dst seq ++ pad32_208 /\
     Fmt.render KeysGen.bsc_ProofKeyConstructor_GetPacketCommitmentProofKey_preimage (path_args src dst seq)
     = packet_path false src dst seq ++ pad32_208 /\
     Fmt.render KeysGen.bsc_ProofKeyConstructor_GetAckProofKey_preimage (path_args src dst seq)
     = packet_path true src dst seq ++ pad32_208) /\
  (forall h, Fmt.render KeysGen.host_ConsensusStateKey [Fmt.VN (rn h); Fmt.VN (rh h)] = consensus_key h).
Proof. exact keys_match_go_source. Qed.
Print Assumptions C08_keys_match_go_source.

(** [verify] depends on the oracles only through the list [queries]: if the harness's tables agree with the
    real functions on these arguments, the model evaluated on the tables is the model on the real functions. *)
Theorem C08_oracle_footprint :
  forall keccak1 mpt1 json1 keccak2 mpt2 json2 cs cstore oh op ack src dst seq c,
  (forall q, In q (queries keccak1 mpt1 json1 cs cstore oh op ack src dst seq) ->
             agree keccak1 mpt1 json1 keccak2 mpt2 json2 q) ->
  EvmProof.verify keccak1 mpt1 json1 cs cstore oh op ack src dst seq c =
  EvmProof.verify keccak2 mpt2 json2 cs cstore oh op ack src dst seq c.
Proof. exact verify_footprint. Qed.
Print Assumptions C08_oracle_footprint.

(** The executable monitor has nothing to report on an accepting step of the model (ground truth = what the
    committed tries hold). *)
Theorem C08_monitor_sound : forall keccak256 mpt_verify json_proof commits,
  mpt_sound mpt_verify commits ->
  forall (c : ecase) (k : client_kind) h,
  c_height c = Some h -> h64 (c_head c) ->
  (forall p, c_proof c = Some p -> json_proof p = c_json c) ->
  gt_consistent keccak256 commits c k h ->
  EvmProof.verify keccak256 mpt_verify json_proof (cs_of c k) (cstore_of c) (c_height c) (c_proof c)
                  (c_ack c) (c_src c) (c_dst c) (c_seq c) (c_commitment c) = Ok tt ->
  mon_copy c (delay_block (cs_of c k)) 0 = [].
Proof. exact monitor_sound. Qed.
Print Assumptions C08_monitor_sound.

(** ** 7. Non-vacuity: a case recorded from the real code (tables = real Keccak256 / trie.VerifyProof /
    encoding/json results): both copies accepted it, the model accepts it for both copies, the gates hold
    with 36 >= 14 confirmations, the value has 14 leading zero bytes, every oracle query of the model is
    in the tables, model and code agree, the monitor is silent. *)
Example C08_nonvacuous :
  let c := witness_honest in
  model_class c ETH = 0%nat /\ model_class c BSC = 0%nat /\ c_eth_class c = 0%nat /\ c_bsc_class c = 0%nat /\
  oracle_miss c ETH = false /\ oracle_miss c BSC = false /\
  c_height c = Some {| rn := 0; rh := 80605 |} /\ c_head c = {| rn := 0; rh := 80641 |} /\
  delay_block (cs_of c ETH) = 14 /\ delay_block (cs_of c BSC) = 14 /\
  firstn 14 (c_commitment c) = zeros 14 /\ length (c_commitment c) = 32%nat /\
  mismatches [c] = [] /\ monitor_failures [c] = [].
Proof. vm_compute. repeat split; reflexivity. Qed.
Print Assumptions C08_nonvacuous.
