(** C08 -- tie of the model to definitions REGENERATED from the Go source on every run: the storage-proof count (Gen/EvmProofSchemaGen.v, tools/gotocoq/evmproof).
    One file per regenerated item (Props/C08_schema_*.v), apart from Props/C08.v: the theorems about the model build
    whatever the translators produce, and an item a translator could not determine breaks exactly the obligations that
    read it. *)
From Teleport Require Import Base.Bytes Base.Outcome Model.EvmProof Proofs.EvmProofRlp Proofs.EvmProofSchema.
From Teleport Require Gen.EvmProofSchemaGen.
Import EvmProofSchemaGen.
Local Open Scope N_scope.

(** the length of the storage-proof list is compared (by [!=]) with 1 in both client packages: the model's
    "exactly one storage proof" *)
Theorem C08_storage_proof_count_matches_go_source : eth_storage_proof_count = 1 /\ bsc_storage_proof_count = 1.
Proof. split; vm_compute; reflexivity. Qed.
Print Assumptions C08_storage_proof_count_matches_go_source.
