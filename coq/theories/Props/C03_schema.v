(** C03 — the abstract packet of Model/Bridge.v accounts for exactly the wire fields of the ABI tuples in
    x/xibc/core/packet/types/evm.go, regenerated from the Go source on every run (side condition evaluated on the
    regenerated term: a harmless rewrite of evm.go re-checks, a changed tuple breaks this obligation). *)
From Teleport Require Import Base.Bytes Base.AbiSchema Gen.AbiSchemaGen Model.BridgeSchema.

Theorem C03_wire_schema : bridge_schema_ok = true.
Proof. vm_compute. reflexivity. Qed.
Print Assumptions C03_wire_schema.
