(** C04 — Send sequencing: gap-free sequences, one commitment per send.
    Only statements; proofs in Proofs/PacketC04.v.  [inv4 P s] = chain name and client names valid, NO CLIENT UNDER
    THE CHAIN'S OWN NAME (observation O7 — a premise on the INITIAL state only, necessary: Refuted/C04_selfclient.v; no
    history can introduce such a client since fix a9e74e1: C04_noself_invariant), stored own commitments lie below the
    counter, every stored counter is well-formed and equals the packet contract's counter.  Sends are the SendPacket calls made by the
    EVM hook (user transactions [ASend] and sends nested in module->contract callbacks). *)
From Teleport Require Import Base.Bytes Base.Outcome Base.AList Model.Packet Model.PacketKeys
     Proofs.Packet Proofs.PacketC01 Proofs.PacketC02 Proofs.PacketC04 Proofs.PacketTx Proofs.PacketCb Proofs.PacketKeys Proofs.PacketExamples.
Local Open Scope N_scope.

(** One successful SendPacket, exactly: the packet is from this chain and carries the CURRENT counter (never 0); the
    chain-side counter and the contract-side counter both become seq+1 (mod 2^64); the commitment key was free and now
    holds sha256(abi_pack p); no other key, no other counter, nothing else of the state changes except the ghost log. *)
Theorem C04_send_step_exact : forall P, real_keys P -> forall s p ok s',
  inv4 P s -> send_packet P s p ok = Ok s' ->
  p_src p = st_name s /\ p_seq p <> 0 /\ valid_name P (p_dst p) = true /\
  next_seq P s (st_name s) (p_dst p) = Ok (p_seq p) /\
  next_seq P s' (st_name s) (p_dst p) = Ok (add64 (p_seq p) 1) /\
  cseq_view s' (p_dst p) = add64 (p_seq p) 1 /\
  sget (ckey P (triple_of p)) s = None /\
  (exists bz, abi_pack P p = Some bz /\ sget (ckey P (triple_of p)) s' = Some (sha256 P bz)) /\
  (forall k, k <> ckey P (triple_of p) -> k <> nextseq_key P (st_name s) (p_dst p) -> sget k s' = sget k s) /\
  st_name s' = st_name s /\ st_clients s' = st_clients s /\ st_relayers s' = st_relayers s /\
  (forall d, d <> p_dst p -> cseq_view s' d = cseq_view s d) /\
  log (st_app s') = (log (st_app s) ++ [EvSetSeq (p_dst p) (add64 (p_seq p) 1)]) ++ [EvSent p].
Proof. intros P K. exact (send_step_exact P (real_keys_ok P K)). Qed.
Print Assumptions C04_send_step_exact.

(** Every history, every destination d: the invariant is kept; the successful sends to d of the history (ghost log
    suffix l, in order) carry n0, n0+1, n0+2, … WITHOUT gap, repeat, reordering or wrap-around, where n0 is the
    counter at the start (1 on a fresh path); the final chain-side counter is n0 + (number of sends) mod 2^64 and the
    packet contract's counter equals it; no commitment (this chain, d, k) exists at or beyond the counter. *)
Theorem C04_send_gap_free : forall P, real_keys P -> (forall x, sha256 P x <> []) -> forall ops s d,
  inv4 P s -> valid_name P d = true ->
  inv4 P (run P s ops) /\
  exists l n0 n,
    log (st_app (run P s ops)) = log (st_app s) ++ l /\
    next_seq P s (st_name s) d = Ok n0 /\ next_seq P (run P s ops) (st_name s) d = Ok n /\
    chain n0 (sent_seqs d l) n /\ cseq_view (run P s ops) d = n /\
    (forall i x, nth_error (sent_seqs d l) i = Some x -> x = n0 + N.of_nat i /\ x < two64) /\
    n = (n0 + N.of_nat (length (sent_seqs d l))) mod two64 /\
    (forall k, sget (ckey P (st_name s, d, k)) (run P s ops) <> None -> k < n \/ n = 0).
Proof. intros P K. exact (send_gap_free P (real_keys_ok P K)). Qed.
Print Assumptions C04_send_gap_free.

(** "No client under the chain's own name" is an INVARIANT of every history — messages, EVM transactions, client
    updates, governance client creation (the own name is refused: fix a9e74e1), toggle and upgrade (both need an
    existing client), relayer registration — with no other hypothesis, also over multi-message transactions; and the
    client-creating proposal for the own name is refused in every state with the state unchanged.  The only remaining
    premise of the C04 / C05 theorems about self-named clients is therefore on the INITIAL state (an imported genesis
    could contain one: client genesis validation does not compare client names with native_chain_name). *)
Theorem C04_noself_invariant : forall P ops s, noself s -> noself (run P s ops).
Proof. exact run_noself. Qed.
Print Assumptions C04_noself_invariant.

Theorem C04_noself_invariant_txs : forall P l s, noself s -> noself (run_txs P s l).
Proof. exact run_txs_noself. Qed.
Print Assumptions C04_noself_invariant_txs.

Theorem C04_create_own_name_refused : forall P env s c ok,
  step P s (env, ARegisterClient (st_name s) c ok) = (s, false).
Proof. exact create_own_name_refused. Qed.
Print Assumptions C04_create_own_name_refused.

(** A stored commitment keeps its value (the hash written by the send, see C04_send_step_exact) through every
    operation except an accepted, verified acknowledgement of exactly that packet. *)
Theorem C04_commitment_kept_unless_acked : forall P, real_keys P -> (forall x, sha256 P x <> []) ->
  forall env s a s' t v,
  inv4 P s -> exec P env s a = Ok s' -> sget (ckey P t) s = Some v ->
  sget (ckey P t) s' = Some v \/
  (exists m cb1 cb2 cb3, a = AAck m cb1 cb2 cb3 /\
     ckey P t = ckey P (triple_of (fst (decode P (am_packet m)))) /\ ack_verified P env s m).
Proof. intros P K. exact (commitment_kept_unless_acked P (real_keys_ok P K)). Qed.
Print Assumptions C04_commitment_kept_unless_acked.

(** A send that fails for any reason — unknown destination client, wrong sequence, malformed packet, failing
    setSequence, a later packet of the same transaction failing, another post-processing hook failing — changes
    NOTHING (ethermint runs message + hooks on a branch; module->contract calls do the same since fix 0a3e419). *)
Theorem C04_failed_send_noop : forall P s env cb,
  snd (step P s (env, ASend cb)) = false -> fst (step P s (env, ASend cb)) = s.
Proof. intros P s env cb. exact (rejected_unchanged P s (env, ASend cb)). Qed.
Print Assumptions C04_failed_send_noop.

(** A module->contract callback that does not persist — the call reverts, a send of its PacketSent logs is refused,
    another hook fails, the return data does not unpack, or the destination contract reports a non-zero result code —
    leaves NOTHING behind: after the accepted receive the store differs from the old one at the receipt key and the
    acknowledgement key only (no commitment, no counter), the packet contract's counters are the old ones and the
    ghost log grew by the ack-written event alone (no setSequence, no sent, no onRecvPacket effect). *)
Theorem C04_failed_callback_noop : forall P env s m cb s',
  exec P env s (ARecv m cb) = Ok s' ->
  let p := fst (decode P (rm_packet m)) in
  p_dst p = st_name s ->
  cb_persists P (set_kv (rkey P (triple_of p)) receipt_value s) p cb = None ->
  (exists h, log (st_app s') = log (st_app s) ++ [EvAckWritten (triple_of p) h]) /\
  cseq (st_app s') = cseq (st_app s) /\ st_clients s' = st_clients s /\ st_relayers s' = st_relayers s /\
  (forall k, k <> rkey P (triple_of p) -> k <> akey P (triple_of p) -> sget k s' = sget k s).
Proof. exact failed_callback_noop. Qed.
Print Assumptions C04_failed_callback_noop.

(** ... and that is the case whenever the call fails, its return data does not unpack, the result code is not 0, or
    one of the sends it emitted is refused by SendPacket. *)
Theorem C04_callback_not_persisting : forall P s1 p cb,
  cb_fail cb = true \/ cb_ret cb = None \/ (exists c r m, cb_ret cb = Some (c, r, m) /\ c <> 0) \/
  (forall s2, hook_sends P (add_log (EvOnRecv p) s1) (cb_sends cb) <> Ok s2) ->
  cb_persists P s1 p cb = None.
Proof. exact cb_persists_none. Qed.
Print Assumptions C04_callback_not_persisting.
Print Assumptions C04_failed_callback_noop.

(** ONE transaction with SEVERAL sends (a contract calling Endpoint.crossChainCall more than once: the receipt carries
    one PacketSent log per send, evm_hooks.go hands them to SendPacket in order).  All or nothing: if the transaction
    is accepted, EVERY send of it — in order — got its two ghost events (setSequence on the packet contract, sent),
    the commitment keys of its sends are pairwise different, each was free before and holds sha256(abi_pack p)
    afterwards, and no key other than these commitments and the counters of the destinations changed; otherwise the
    whole transaction leaves the state equal. *)
Theorem C04_tx_sends_all_or_nothing : forall P, real_keys P -> forall env s cb,
  inv4 P s ->
  match exec P env s (ASend cb) with
  | Ok s' =>
      cb_fail cb = false /\ inv4 P s' /\
      log (st_app s') = log (st_app s) ++ send_events (cb_sends cb) /\
      NoDup (map (fun pk => ckey P (triple_of (fst pk))) (cb_sends cb)) /\
      (forall p ok, In (p, ok) (cb_sends cb) ->
         p_src p = st_name s /\ sget (ckey P (triple_of p)) s = None /\
         exists bz, abi_pack P p = Some bz /\ sget (ckey P (triple_of p)) s' = Some (sha256 P bz)) /\
      (forall k, (forall p ok, In (p, ok) (cb_sends cb) ->
                    k <> ckey P (triple_of p) /\ k <> nextseq_key P (st_name s) (p_dst p)) ->
         sget k s' = sget k s) /\
      st_name s' = st_name s /\ st_clients s' = st_clients s /\ st_relayers s' = st_relayers s
  | _ => step P s (env, ASend cb) = (s, false)
  end.
Proof. intros P K. exact (tx_sends_all_or_nothing P (real_keys_ok P K)). Qed.
Print Assumptions C04_tx_sends_all_or_nothing.

(** A transaction containing — at ANY position — a send to a destination without client is rejected as a whole
    (from any state). *)
Theorem C04_tx_unknown_dst_rejected : forall P env s cb p ok,
  In (p, ok) (cb_sends cb) -> aget (p_dst p) (st_clients s) = None ->
  step P s (env, ASend cb) = (s, false).
Proof. exact tx_unknown_dst_rejected. Qed.
Print Assumptions C04_tx_unknown_dst_rejected.

(** A transaction with two sends to one destination carrying the same sequence — what the packet contract emits for
    two crossChainCalls to one destination, because it learns the new counter only after the transaction — is
    rejected as a whole: no sequence is ever used twice, not even inside one transaction. *)
Theorem C04_tx_repeated_seq_rejected : forall P, real_keys P -> forall env s cb i j p1 ok1 p2 ok2,
  inv4 P s -> (i < j)%nat ->
  nth_error (cb_sends cb) i = Some (p1, ok1) -> nth_error (cb_sends cb) j = Some (p2, ok2) ->
  p_dst p1 = p_dst p2 -> p_seq p1 = p_seq p2 ->
  step P s (env, ASend cb) = (s, false).
Proof. intros P K. exact (tx_repeated_seq_rejected P (real_keys_ok P K)). Qed.
Print Assumptions C04_tx_repeated_seq_rejected.

(** The commitment is the hash of the EMITTED bytes whenever the packet contract's encoding is the canonical one
    (re-packing the decoded packet gives the emitted bytes back — compared on every send by the correspondence run,
    monitor 24). *)
Theorem C04_commitment_of_emitted_bytes : forall P, real_keys P -> forall s bz p ok s',
  inv4 P s -> decode P bz = (p, false) -> abi_pack P p = Some bz ->
  send_packet P s p ok = Ok s' -> sget (ckey P (triple_of p)) s' = Some (sha256 P bz).
Proof.
  intros P K s bz p ok s' I _ A H.
  destruct (send_step_exact P (real_keys_ok P K) _ _ _ _ I H) as (_ & _ & _ & _ & _ & _ & _ & (bz' & A' & C) & _).
  congruence.
Qed.
Print Assumptions C04_commitment_of_emitted_bytes.

(** Non-vacuity: chain A (client for B) satisfies the invariant; three sends to B carry 1,2,3; a send with a wrong
    sequence and a send to an unknown destination are rejected and change nothing. *)
Definition snd_pkt (d : bytes) (q : N) : packet := mkPacket chA d q (B "sender") [x01] [] [] 0.
Example C04_nonvacuous :
  inv4 exP exA /\
  let ops := [ (1, ASend (mkCb false [(snd_pkt chB 1, true); (snd_pkt chB 2, true)] None));
               (2, ASend (mkCb false [(snd_pkt chB 2, true)] None));          (* wrong sequence *)
               (3, ASend (mkCb false [(snd_pkt (B "chain-x") 1, true)] None)); (* unknown destination *)
               (4, ASend (mkCb false [(snd_pkt chB 3, true)] None)) ] in
  let s := run exP exA ops in
  sent_seqs chB (log (st_app s)) = [1; 2; 3] /\ next_seq exP s chA chB = Ok 4 /\ cseq_view s chB = 4 /\
  length (st_store s) = 4%nat /\
  step exP s (5, ASend (mkCb false [(snd_pkt chB 9, true)] None)) = (s, false) /\
  (* two sends with the same sequence in one transaction, a valid send followed by an unknown destination *)
  step exP s (6, ASend (mkCb false [(snd_pkt chB 4, true); (snd_pkt chB 4, true)] None)) = (s, false) /\
  step exP s (7, ASend (mkCb false [(snd_pkt chB 4, true); (snd_pkt (B "chain-x") 1, true)] None)) = (s, false) /\
  snd (step exP s (8, ASend (mkCb false [(snd_pkt chB 4, true); (snd_pkt chB 5, true)] None))) = true.
Proof. split; [exact exA_inv4|]. vm_compute. repeat split; reflexivity. Qed.
