(** C04 — Send sequencing: gap-free sequences, one commitment per send.
    Only statements; proofs in Proofs/PacketC04.v.  [inv4 P s] = chain name and client names valid, NO CLIENT UNDER
    THE CHAIN'S OWN NAME (observation O7 — necessary: Refuted/C04_selfclient.v), stored own commitments lie below the
    counter, every stored counter is well-formed and equals the packet contract's counter.  [ops_noself]: the history
    contains no governance registration of a client under the own name.  Sends are the SendPacket calls made by the
    EVM hook (user transactions [ASend] and sends nested in module->contract callbacks). *)
From Teleport Require Import Base.Bytes Base.Outcome Base.AList Model.Packet Model.PacketKeys
     Proofs.Packet Proofs.PacketC01 Proofs.PacketC02 Proofs.PacketC04 Proofs.PacketKeys Proofs.PacketExamples.
Local Open Scope N_scope.

(** One successful SendPacket, exactly: the packet is from this chain and carries the CURRENT counter (never 0); the
    chain-side counter and the contract-side counter both become seq+1 (mod 2^64); the commitment key was free and now
    holds sha256(abi_pack p); no other key, no other counter, nothing else of the state changes except the ghost log. *)
Theorem C04_send_step_exact : forall P, real_keys P -> forall s p ok s',
  inv4 P s -> send_packet P s p ok = Ok s' ->
  p_src p = st_name s /\ p_seq p <> 0 /\ valid_name P (p_dst p) = true /\
  next_seq P s (st_name s) (p_dst p) = Ok (p_seq p) /\
  next_seq P s' (st_name s) (p_dst p) = Ok (add64 (p_seq p) 1) /\
  cseq_view s' (p_dst p) = add64 (p_seq p) 1 /\
  sget (ckey P (triple_of p)) s = None /\
  (exists bz, abi_pack P p = Some bz /\ sget (ckey P (triple_of p)) s' = Some (sha256 P bz)) /\
  (forall k, k <> ckey P (triple_of p) -> k <> nextseq_key P (st_name s) (p_dst p) -> sget k s' = sget k s) /\
  st_name s' = st_name s /\ st_clients s' = st_clients s /\ st_relayers s' = st_relayers s /\
  (forall d, d <> p_dst p -> cseq_view s' d = cseq_view s d) /\
  log (st_app s') = (log (st_app s) ++ [EvSetSeq (p_dst p) (add64 (p_seq p) 1)]) ++ [EvSent p].
Proof. intros P K. exact (send_step_exact P (real_keys_ok P K)). Qed.
Print Assumptions C04_send_step_exact.

(** Every history, every destination d: the invariant is kept; the successful sends to d of the history (ghost log
    suffix l, in order) carry n0, n0+1, n0+2, … WITHOUT gap, repeat, reordering or wrap-around, where n0 is the
    counter at the start (1 on a fresh path); the final chain-side counter is n0 + (number of sends) mod 2^64 and the
    packet contract's counter equals it; no commitment (this chain, d, k) exists at or beyond the counter. *)
Theorem C04_send_gap_free : forall P, real_keys P -> (forall x, sha256 P x <> []) -> forall ops s d,
  inv4 P s -> ops_noself (st_name s) ops -> valid_name P d = true ->
  inv4 P (run P s ops) /\
  exists l n0 n,
    log (st_app (run P s ops)) = log (st_app s) ++ l /\
    next_seq P s (st_name s) d = Ok n0 /\ next_seq P (run P s ops) (st_name s) d = Ok n /\
    chain n0 (sent_seqs d l) n /\ cseq_view (run P s ops) d = n /\
    (forall i x, nth_error (sent_seqs d l) i = Some x -> x = n0 + N.of_nat i /\ x < two64) /\
    n = (n0 + N.of_nat (length (sent_seqs d l))) mod two64 /\
    (forall k, sget (ckey P (st_name s, d, k)) (run P s ops) <> None -> k < n \/ n = 0).
Proof. intros P K. exact (send_gap_free P (real_keys_ok P K)). Qed.
Print Assumptions C04_send_gap_free.

(** A stored commitment keeps its value (the hash written by the send, see C04_send_step_exact) through every
    operation except an accepted, verified acknowledgement of exactly that packet. *)
Theorem C04_commitment_kept_unless_acked : forall P, real_keys P -> (forall x, sha256 P x <> []) ->
  forall env s a s' t v,
  inv4 P s -> exec P env s a = Ok s' -> sget (ckey P t) s = Some v ->
  sget (ckey P t) s' = Some v \/
  (exists m cb1 cb2 cb3, a = AAck m cb1 cb2 cb3 /\
     ckey P t = ckey P (triple_of (fst (decode P (am_packet m)))) /\ ack_verified P env s m).
Proof. intros P K. exact (commitment_kept_unless_acked P (real_keys_ok P K)). Qed.
Print Assumptions C04_commitment_kept_unless_acked.

(** A send that fails for any reason — unknown destination client, wrong sequence, malformed packet, failing
    setSequence, a later packet of the same transaction failing, another post-processing hook failing — changes
    NOTHING (ethermint runs message + hooks on a branch; module->contract calls do the same since fix 0a3e419). *)
Theorem C04_failed_send_noop : forall P s env cb,
  snd (step P s (env, ASend cb)) = false -> fst (step P s (env, ASend cb)) = s.
Proof. intros P s env cb. exact (rejected_unchanged P s (env, ASend cb)). Qed.
Print Assumptions C04_failed_send_noop.

Theorem C04_failed_callback_noop : forall P s e cb,
  is_ok (call_packet P s e cb) = false -> forall s', call_packet P s e cb <> Ok s'.
Proof. intros P s e cb H s' E. rewrite E in H. discriminate. Qed.
Print Assumptions C04_failed_callback_noop.

(** Non-vacuity: chain A (client for B) satisfies the invariant; three sends to B carry 1,2,3; a send with a wrong
    sequence and a send to an unknown destination are rejected and change nothing. *)
Definition snd_pkt (d : bytes) (q : N) : packet := mkPacket chA d q (B "sender") [x01] [] [] 0.
Example C04_nonvacuous :
  inv4 exP exA /\
  let ops := [ (1, ASend (mkCb false [(snd_pkt chB 1, true); (snd_pkt chB 2, true)] None));
               (2, ASend (mkCb false [(snd_pkt chB 2, true)] None));          (* wrong sequence *)
               (3, ASend (mkCb false [(snd_pkt (B "chain-x") 1, true)] None)); (* unknown destination *)
               (4, ASend (mkCb false [(snd_pkt chB 3, true)] None)) ] in
  let s := run exP exA ops in
  sent_seqs chB (log (st_app s)) = [1; 2; 3] /\ next_seq exP s chA chB = Ok 4 /\ cseq_view s chB = 4 /\
  length (st_store s) = 4%nat /\
  step exP s (5, ASend (mkCb false [(snd_pkt chB 9, true)] None)) = (s, false).
Proof. split; [exact exA_inv4|]. vm_compute. repeat split; reflexivity. Qed.
