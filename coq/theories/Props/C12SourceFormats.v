(** C12, tie to the source, item 2: [CreateDenom] / [CreateDenomDescription], regenerated as operand lists, are the
    model's [create_denom] / [create_descr].  If this file does not build, only this obligation is broken. *)
From Teleport Require Import Base.Bytes Base.Outcome Base.AList Model.Registry Gen.RegistryGen Proofs.RegistrySource.

Theorem C12_source_create_denom : forall text, fmt_parts_eval create_denom_parts text = Some (create_denom text).
Proof. intro text. apply create_denom_of_parts. vm_compute. reflexivity. Qed.
Print Assumptions C12_source_create_denom.

Theorem C12_source_create_descr : forall text, fmt_parts_eval create_descr_parts text = Some (create_descr text).
Proof. intro text. apply create_descr_of_parts. vm_compute. reflexivity. Qed.
Print Assumptions C12_source_create_descr.
