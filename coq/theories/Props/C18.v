(** C18 — Client lifecycle installs a usable client or changes nothing.  Only statements here. *)
From Teleport Require Import Base.Bytes Base.Outcome Base.AList Model.Lifecycle Proofs.Lifecycle.
Local Open Scope N_scope.

Theorem C18_failed_lifecycle_unchanged : forall cf st o, fst (step cf st o) <> 0%nat -> snd (step cf st o) = st.
Proof. exact failed_step_unchanged. Qed.
Print Assumptions C18_failed_lifecycle_unchanged.
