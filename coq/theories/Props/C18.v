(** C18 — Client lifecycle installs a usable client or changes nothing.
    Only statements here; proofs are in Proofs/Lifecycle.v and Proofs/LifecycleMonitor.v.

    The model is Model/Lifecycle.v; [head_cfg] is the code of /repo HEAD (every repair landed).  [exec] is
    the handler / message server, [step] wraps it the way gov (cache context written on success) and BaseApp
    (per-message atomicity) do: result class 0 ok, 1 error, 2 panic.  Quantification: ALL states [st]
    (arbitrary client stores, registries and block times — hence all histories; the invariants [wf_state]
    and [clean_state] are shown for every history from the empty state), ALL proposals / headers (valid and
    invalid contents; the four client types enter through [client_state], so the toggle theorems range
    over all 12 ordered type pairs). *)
From Teleport Require Import Base.Bytes Base.Outcome Base.AList Model.Lifecycle Model.LifecycleCheck
  Proofs.Lifecycle Proofs.LifecycleMonitor Proofs.LifecycleExt.
Local Open Scope N_scope.

(** ** A failed step changes nothing (any code variant): the previous client, its consensus states and
    metadata, every other client, the registry and the clock are untouched. *)
Theorem C18_failed_lifecycle_unchanged : forall cf st o, fst (step cf st o) <> 0%nat -> snd (step cf st o) = st.
Proof. exact failed_step_unchanged. Qed.
Print Assumptions C18_failed_lifecycle_unchanged.

(** ** A successful step changes its own client store (or the registry, or the clock) and nothing else. *)
Theorem C18_frame : forall cf st o st',
  exec cf st o = Ok st' ->
  match o with
  | Create p | Upgrade p | Toggle p =>
      relayers st' = relayers st /\ now st' = now st /\ forall m, m <> p_name p -> store_of st' m = store_of st m
  | Update name _ _ _ =>
      relayers st' = relayers st /\ now st' = now st /\ forall m, m <> name -> store_of st' m = store_of st m
  | Register _ _ _ => now st' = now st /\ clients st' = clients st
  | Tick dt => relayers st' = relayers st /\ clients st' = clients st /\ now st' = now st + dt
  end.
Proof. exact exec_frame. Qed.
Print Assumptions C18_frame.

(** ** Names: an invalid or already used chain name is rejected (and nothing changes). *)
Theorem C18_create_rejects_used_or_invalid_name : forall cf st p,
  valid_name (p_name p) = false \/ has_client st (p_name p) = true -> step cf st (Create p) = (1%nat, st).
Proof. exact create_rejected. Qed.
Print Assumptions C18_create_rejects_used_or_invalid_name.

(** ** Create.  (a) Under a valid unused name, content that validates, is well-typed, passes the ETH root check
    ([roots_agree]: an ETH consensus state carries, as a 32-byte hash, the state root of its header; aa5560b) and can
    be initialised is installed: the client store becomes EXACTLY the proposal's client state, its consensus state at the
    latest height (none for TSS) and the type's metadata ([fresh_store]). *)
Theorem C18_create_ok : forall st p,
  valid_name (p_name p) = true -> p_validate p = true -> has_client st (p_name p) = false ->
  store_of st (p_name p) = [] -> well_typed p -> roots_agree head_cfg p = true -> installable (p_client p) ->
  step head_cfg st (Create p) = (0%nat, with_store st (p_name p) (fresh_store (now st) (p_client p) (p_cons p))).
Proof. intros. apply step_ok_iff. apply create_succeeds; assumption. Qed.
Print Assumptions C18_create_ok.

(** (b) Conversely EVERY successful create was of that kind and left exactly that store. *)
Theorem C18_create_spec : forall st p st',
  wf_state st -> exec head_cfg st (Create p) = Ok st' ->
  valid_name (p_name p) = true /\ p_validate p = true /\ has_client st (p_name p) = false /\
  well_typed p /\ installable (p_client p) /\
  st' = with_store st (p_name p) (fresh_store (now st) (p_client p) (p_cons p)).
Proof. intros st p st' W E. apply (create_spec head_cfg); [reflexivity | exact W | exact E]. Qed.
Print Assumptions C18_create_spec.

(** (c) EVERY successful create / upgrade / toggle passed the ETH root check: an ETH consensus state whose root is
    not (as common.BytesToHash sees it) the state root of the proposed header is never installed. *)
Theorem C18_proposal_roots_agree : forall st o st',
  exec head_cfg st o = Ok st' ->
  match o with
  | Create p | Upgrade p | Toggle p =>
      match p_client p with
      | ClEth hd _ _ _ => hash32 (cs_root (p_cons p)) = hash32 (eh_root hd)
      | _ => True
      end
  | _ => True
  end.
Proof.
  intros st o st' E. pose proof (exec_roots_agree _ _ _ _ E) as R.
  destruct o as [p|p|p| | |]; try exact I; destruct (p_client p) as [| |hd b t r|] eqn:Pc; try exact I;
    exact (roots_agree_eth head_cfg hd b t r p eq_refl Pc R).
Qed.
Print Assumptions C18_proposal_roots_agree.

Theorem C18_fresh_store_installed : forall tnow c cns, installable c -> installed tnow c cns (fresh_store tnow c cns).
Proof. exact fresh_store_installed. Qed.
Print Assumptions C18_fresh_store_installed.

(** ** An installed client is usable: Active while the installed consensus state is within the trusting
    period, and an honest proof AT THE INSTALLED HEIGHT meets the delay gate only — never "no consensus
    state" (3), "processed time missing" (4) or "above the latest height" (1); see [installed_gate]. *)
Theorem C18_installed_active : forall tnow t c cns s,
  installed tnow c cns s -> cs_type cns = type_of c -> fresh t c cns -> status t c s = 0%nat.
Proof. exact installed_active. Qed.
Print Assumptions C18_installed_active.

Theorem C18_installed_gate : forall tnow t fx prf c cns s,
  installed tnow c cns s -> cs_type cns = type_of c ->
  gate t fx prf c s (latest_of c) = installed_gate tnow t fx prf c cns.
Proof. exact installed_gate_ok. Qed.
Print Assumptions C18_installed_gate.

(** Tendermint: once the delay has passed the honest proof is checked against the installed root. *)
Theorem C18_tm_gate_after_delay : forall tnow t fx prf l tr d y r cns,
  tnow + y < two64 -> tnow + y <= t -> installed_gate tnow t fx prf (ClTm l tr d y r) cns = root_gate fx cns.
Proof. exact installed_gate_tm_after. Qed.
Print Assumptions C18_tm_gate_after_delay.

(** ** Upgrade keeps the type and installs the proposal (with the metadata of the upgraded height). *)
Theorem C18_upgrade_keeps_type : forall st p st',
  exec head_cfg st (Upgrade p) = Ok st' ->
  exists old s', sget KClient (store_of st (p_name p)) = Some (VClient old) /\ type_of old = type_of (p_client p) /\
    valid_name (p_name p) = true /\ p_validate p = true /\ well_typed p /\
    st' = with_store st (p_name p) s' /\ installed (now st) (p_client p) (p_cons p) s'.
Proof. intros st p st' E. apply (upgrade_spec head_cfg); try reflexivity. exact E. Qed.
Print Assumptions C18_upgrade_keeps_type.

(** ** Toggle changes the type and initialises the NEW type on an emptied store — for every ordered pair of
    distinct types (the old and the new client state are universally quantified). *)
Theorem C18_toggle_changes_type_and_initialises_new : forall st p st',
  exec head_cfg st (Toggle p) = Ok st' ->
  exists old, sget KClient (store_of st (p_name p)) = Some (VClient old) /\ type_of old <> type_of (p_client p) /\
    valid_name (p_name p) = true /\ p_validate p = true /\ well_typed p /\ installable (p_client p) /\
    st' = with_store st (p_name p) (fresh_store (now st) (p_client p) (p_cons p)).
Proof. intros st p st' E. apply (toggle_spec head_cfg); try reflexivity. exact E. Qed.
Print Assumptions C18_toggle_changes_type_and_initialises_new.

Theorem C18_toggle_succeeds : forall st p old,
  valid_name (p_name p) = true -> p_validate p = true ->
  sget KClient (store_of st (p_name p)) = Some (VClient old) -> type_of old <> type_of (p_client p) ->
  well_typed p -> roots_agree head_cfg p = true -> installable (p_client p) ->
  step head_cfg st (Toggle p) = (0%nat, with_store st (p_name p) (fresh_store (now st) (p_client p) (p_cons p))).
Proof. intros. apply step_ok_iff. apply (toggle_succeeds head_cfg st p old); try reflexivity; assumption. Qed.
Print Assumptions C18_toggle_succeeds.

(** ** A valid update from the authorised account succeeds, for all four types (TSS: from the TSS
    account; the key is rotated), on every clean store. *)
Theorem C18_valid_update_succeeds : forall st name c h signer,
  authorised st name signer ->
  sget KClient (store_of st name) = Some (VClient c) ->
  (forall a r, c = ClTss a r -> a = signer) ->
  status (now st) c (store_of st name) = 0%nat ->
  store_clean c (store_of st name) -> header_valid_for (now st) c h (store_of st name) ->
  exists st', step head_cfg st (Update name h signer true) = (0%nat, st') /\ updated c h (store_of st' name).
Proof. intros. apply valid_update_succeeds; try assumption. reflexivity. Qed.
Print Assumptions C18_valid_update_succeeds.

(** ** ... and in every REACHABLE state no hypothesis on the store is left: along every history from the empty state
    whose ETH PROPOSALS use revision 0 ([op_eth_ok]) a valid update from the authorised account succeeds, for all four
    types.  The code itself now enforces the rest of what the ETH pruning step needs: a proposal's consensus state
    carries the root of its header (aa5560b, [C18_proposal_roots_agree]; before it the theorem needed this as a
    hypothesis and Refuted/C18_hyps.v [C18_eth_foreign_root_refuted] shows why) and an update header carries the
    client's revision number (1e12297).  The remaining clause is necessary: the root-main keys ignore the revision
    number ([C18_eth_revision_collision_refuted], reproduced on the real code by a corpus case). *)
Theorem C18_valid_update_succeeds_reachable : forall os t name c h signer,
  Forall op_eth_ok os ->
  let st := run head_cfg (empty_state t) os in
  authorised st name signer ->
  sget KClient (store_of st name) = Some (VClient c) ->
  (forall a r, c = ClTss a r -> a = signer) ->
  status (now st) c (store_of st name) = 0%nat ->
  header_valid_for (now st) c h (store_of st name) ->
  exists st', step head_cfg st (Update name h signer true) = (0%nat, st') /\ updated c h (store_of st' name).
Proof. intros os t name c h signer Ok. apply valid_update_succeeds_reachable; try reflexivity. exact Ok. Qed.
Print Assumptions C18_valid_update_succeeds_reachable.

(** ** In EVERY history from the empty state a client store holds consensus states of the client's type
    only, every Tendermint iteration key has its consensus state and a TSS client has no consensus state:
    the type part of [store_clean] never needs to be assumed (this is what clearing the store on a toggle
    and rejecting ill-typed proposals buy; it is false without them, Refuted/C18_refuted.v). *)
Theorem C18_reachable_clean : forall os t,
  wf_state (run head_cfg (empty_state t) os) /\ clean_state (run head_cfg (empty_state t) os).
Proof.
  intros os t. split.
  - apply wf_state_run, wf_state_empty.
  - apply clean_reachable; try reflexivity; [apply wf_state_empty | apply clean_state_empty].
Qed.
Print Assumptions C18_reachable_clean.

(** ** The executable monitor (LifecycleCheck.mon_installed_core, kinds 13-17 and 19) accepts every
    successful proposal step of the model. *)
Theorem C18_monitor_sound_create : forall st p st',
  wf_state st -> exec head_cfg st (Create p) = Ok st' ->
  (valid_name (p_name p) && negb (has_client st (p_name p))) = true /\ mon_installed_core 0 p st' = [].
Proof. intros st p st'. apply (monitor_create_sound head_cfg); reflexivity. Qed.
Print Assumptions C18_monitor_sound_create.

Theorem C18_monitor_sound_upgrade : forall st p st',
  clean_state st -> exec head_cfg st (Upgrade p) = Ok st' ->
  (exists old, sget KClient (store_of st (p_name p)) = Some (VClient old) /\ ctype_eqb (type_of old) (type_of (p_client p)) = true) /\
  mon_installed_core 1 p st' = [].
Proof. intros st p st'. apply (monitor_upgrade_sound head_cfg); reflexivity. Qed.
Print Assumptions C18_monitor_sound_upgrade.

Theorem C18_monitor_sound_toggle : forall st p st',
  exec head_cfg st (Toggle p) = Ok st' ->
  (exists old, sget KClient (store_of st (p_name p)) = Some (VClient old) /\ ctype_eqb (type_of old) (type_of (p_client p)) = false) /\
  mon_installed_core 2 p st' = [].
Proof. intros st p st'. apply (monitor_toggle_sound head_cfg); reflexivity. Qed.
Print Assumptions C18_monitor_sound_toggle.

(** ** Upgrade, "and nothing else changes": under every key that is not one of the installed ones
    ([installed_keys]: client state, consensus state at the new latest height, that height's metadata — their
    values are given by [installed] in [C18_upgrade_keeps_type]) the upgraded store is the old one; the BSC
    UpgradeState additionally deletes every recent signer and the earliest consensus state when it is expired
    ([upgrade_other]).  Together the two theorems determine the upgraded store key by key. *)
Theorem C18_upgrade_frame : forall st p st',
  exec head_cfg st (Upgrade p) = Ok st' ->
  forall k, existsb (ckey_eqb k) (installed_keys (p_client p)) = false ->
    sget k (store_of st' (p_name p)) = upgrade_other (now st) (p_client p) (store_of st (p_name p)) k.
Proof. intros st p st' E. apply (upgrade_frame head_cfg); [reflexivity | exact E]. Qed.
Print Assumptions C18_upgrade_frame.

(** ** "... proofs at the installed height verify once the delay has passed".
    (a) A consensus state of the client's type that is not expired — in particular the installed one — and its
    Tendermint processed time survive EVERY successful update that is not an update to that very height (the
    pruning step of the three light clients removes expired states only). *)
Theorem C18_update_keeps_unexpired : forall st name h signer vb st' c hh k,
  sget KClient (store_of st name) = Some (VClient c) ->
  exec head_cfg st (Update name h signer vb) = Ok st' ->
  sget (KCons hh) (store_of st name) = Some (VCons k) -> cs_type k = type_of c -> unexpired (now st) c k ->
  hdr_height head_cfg h <> Some hh ->
  sget (KCons hh) (store_of st' name) = Some (VCons k) /\
    sget (KPTime hh) (store_of st' name) = sget (KPTime hh) (store_of st name).
Proof. exact (update_keeps_cons head_cfg). Qed.
Print Assumptions C18_update_keeps_unexpired.

(** (a') ... lifted to histories: along EVERY sequence of operations that contains no other proposal for the chain
    name and no update to the height itself ([keeps]; failed steps, updates, registrations, clock steps, proposals
    for other names are all allowed), a consensus state of the client's type that is not expired at the end is still
    stored at the end, with the processed time it had; the client keeps its type and trusting period. *)
Theorem C18_installed_survives_history : forall name hh k os st c c',
  forallb (keeps head_cfg name hh) os = true ->
  sget KClient (store_of st name) = Some (VClient c) ->
  sget (KCons hh) (store_of st name) = Some (VCons k) -> cs_type k = type_of c ->
  sget KClient (store_of (run head_cfg st os) name) = Some (VClient c') ->
  unexpired (now (run head_cfg st os)) c' k ->
  sget (KCons hh) (store_of (run head_cfg st os) name) = Some (VCons k) /\
  sget (KPTime hh) (store_of (run head_cfg st os) name) = sget (KPTime hh) (store_of st name).
Proof. intros name hh k os st c c'. apply run_keeps_cons. Qed.
Print Assumptions C18_installed_survives_history.

Theorem C18_history_keeps_client_params : forall name hh os st c,
  forallb (keeps head_cfg name hh) os = true ->
  sget KClient (store_of st name) = Some (VClient c) ->
  exists c', sget KClient (store_of (run head_cfg st os) name) = Some (VClient c') /\ same_params c c'.
Proof. intros name hh os st c. apply run_keeps_client. Qed.
Print Assumptions C18_history_keeps_client_params.

(** (b) Tendermint: from [tnow + delay] on, the honest proof against the installed root verifies at the installed
    height (class 0).  The bound [tnow + y < 2^64] is necessary: beyond it the gate never opens
    ([C18_tm_delay_overflow_never_passes]; Refuted/C18_hyps.v has a concrete history). *)
Theorem C18_tm_proof_verifies_after_delay : forall tnow t prf l tr d y r cns s,
  installed tnow (ClTm l tr d y r) cns s -> cs_type cns = TM ->
  tnow + y < two64 -> tnow + y <= t ->
  gate t (cs_root cns) prf (ClTm l tr d y r) s l = 0%nat.
Proof. exact installed_tm_proof_verifies. Qed.
Print Assumptions C18_tm_proof_verifies_after_delay.

Theorem C18_tm_delay_overflow_never_passes : forall t fx prf l tr d y r s h k pt,
  get_cons TM h s = Some k -> sget (KPTime h) s = Some (VTime pt) -> h_lt l h = false ->
  pt < two64 -> y < two64 -> two64 <= pt + y ->
  gate t fx prf (ClTm l tr d y r) s h = 5%nat.
Proof. exact tm_gate_overflow. Qed.
Print Assumptions C18_tm_delay_overflow_never_passes.

(** (c) BSC / ETH: the delay is counted in blocks of the counterparty; once the head of the client is
    [len(validators)/2+1] (BSC) / [block_delay] (ETH) blocks above a height whose consensus state is still stored
    (see (a)), the honest proof is checked against that consensus state's root. *)
Theorem C18_bsc_gate_after_delay : forall t fx prf cur e vals tr r s h k,
  get_cons BSC h s = Some k -> h_lt (eh_height cur) h = false -> fst h = fst (eh_height cur) ->
  lenN vals / 2 + 1 <= sub64 (snd (eh_height cur)) (snd h) ->
  gate t fx prf (ClBsc cur e vals tr r) s h = root_gate_evm fx k.
Proof. exact bsc_gate_after_delay. Qed.
Print Assumptions C18_bsc_gate_after_delay.

Theorem C18_eth_gate_after_delay : forall t fx prf cur bd tr r s h k,
  get_cons ETH h s = Some k -> h_lt (eh_height cur) h = false -> fst h = fst (eh_height cur) ->
  bd <= sub64 (snd (eh_height cur)) (snd h) ->
  gate t fx prf (ClEth cur bd tr r) s h = root_gate_evm fx k.
Proof. exact eth_gate_after_delay. Qed.
Print Assumptions C18_eth_gate_after_delay.

(** ** The monitor's update clause (kind 22) accepts every successful update of the model (any code variant). *)
Theorem C18_monitor_sound_update : forall cf st name h signer vb st',
  exec cf st (Update name h signer vb) = Ok st' ->
  mon_update_post st' (option_map type_of (client_of st name)) name h = [].
Proof. exact monitor_update_sound. Qed.
Print Assumptions C18_monitor_sound_update.

(** ** [valid_name] IS the identifier rule of x/xibc/core/host/validate.go: character class of [IsValidID] and the
    length bounds, regenerated from the Go source on every run (Gen/KeysGen.v); the side condition is evaluated
    on the regenerated constants, so a change of the rule in the source breaks this obligation. *)
Theorem C18_valid_name_is_source_rule : forall s, valid_name s = gen_valid_name s.
Proof. apply valid_name_is_generated_rule. vm_compute. reflexivity. Qed.
Print Assumptions C18_valid_name_is_source_rule.

(** ** Non-vacuity: concrete contents of the four types meet the hypotheses, and a concrete history
    (register; create Tendermint; update; upgrade; toggle to ETH; update; toggle to TSS; TSS key rotation;
    toggle to BSC; update) succeeds at every step on the model of HEAD. *)
Module Witness.
  Definition name : bytes := B "chain-a".
  Definition rel : bytes := B "relayer".
  Definition t0 : N := 1000 * ns_per_s.
  Definition tmk (ts : N) : cons_state := {| cs_type := TM; cs_ts := ts; cs_root := B "root"; cs_dg := B "k" |}.
  Definition tmc (h : N) : client_state := ClTm (0, h) (500 * ns_per_s) (10 * ns_per_s) (5 * ns_per_s) (B "rest").
  Definition ehd (n : N) (hash parent : bytes) (tm : N) : evm_hdr :=
    {| eh_height := (0, n); eh_hash := hash; eh_parent := parent; eh_root := B "root"; eh_time := tm; eh_dg := hash;
       eh_coinbase := B "val1"; eh_signer := Some (B "val1"); eh_vals := Some [B "val1"]; eh_cons_dg := hash |}.
  Definition evk (t : ctype) (tm : N) : cons_state := {| cs_type := t; cs_ts := tm; cs_root := B "root"; cs_dg := B "k" |}.
  Definition ethc : client_state := ClEth (ehd 100 (B "e100") (B "e99") 900) 1 100000 (B "rest").
  Definition bscc : client_state := ClBsc (ehd 200 (B "b200") (B "b199") 900) 200 [B "val1"] 100000 (B "rest").
  Definition tssc : client_state := ClTss rel (B "keys0").
  Definition tssk : cons_state := {| cs_type := TSS; cs_ts := 0; cs_root := []; cs_dg := B "k" |}.
  Definition prop (c : client_state) (k : cons_state) : proposal := {| p_name := name; p_client := c; p_cons := k; p_validate := true |}.
  Definition history : list op :=
    [ Register rel [name] true;
      Create (prop (tmc 5) (tmk (t0 - 60 * ns_per_s)));
      Update name (HTm (0, 5) (0, 7) (tmk (t0 - 10 * ns_per_s)) true) rel true;
      Upgrade (prop (tmc 20) (tmk (t0 - 5 * ns_per_s)));
      Tick (6 * ns_per_s);
      Toggle (prop ethc (evk ETH 900));
      Update name (HEvm ETH (ehd 101 (B "e101") (B "e100") 913) true) rel true;
      Toggle (prop tssc tssk);
      Update name (HTss (B "relayer2") (B "keys1")) rel true;
      Toggle (prop bscc (evk BSC 900));
      Update name (HEvm BSC (ehd 201 (B "b201") (B "b200") 903) true) rel true ].
  Fixpoint classes (st : state) (os : list op) : list nat :=
    match os with [] => [] | o :: os' => fst (step head_cfg st o) :: classes (snd (step head_cfg st o)) os' end.
End Witness.

Example C18_nonvacuous_history :
  Witness.classes (empty_state Witness.t0) Witness.history = [0; 0; 0; 0; 0; 0; 0; 0; 0; 0; 0]%nat /\
  (let st := run head_cfg (empty_state Witness.t0) Witness.history in
   exists c, sget KClient (store_of st Witness.name) = Some (VClient c) /\ type_of c = BSC /\
             status (now st) c (store_of st Witness.name) = 0%nat /\
             (* one block after the install: the honest proof at the installed height verifies *)
             gate (now st) (B "root") [] c (store_of st Witness.name) (0, 200) = 0%nat).
Proof.
  split; [vm_compute; reflexivity|].
  cbv zeta. eexists.
  split; [vm_compute; reflexivity|]. split; [reflexivity|]. split; vm_compute; reflexivity.
Qed.

Example C18_nonvacuous_contents :
  installable Witness.bscc /\ installable Witness.ethc /\ installable (Witness.tmc 5) /\ installable Witness.tssc /\
  valid_name Witness.name = true /\
  fresh Witness.t0 (Witness.tmc 5) (Witness.tmk (Witness.t0 - 60 * ns_per_s)) /\
  fresh Witness.t0 Witness.ethc (Witness.evk ETH 900).
Proof.
  repeat split; try (vm_compute; reflexivity); try discriminate.
  exists [B "val1"]. reflexivity.
Qed.

(** the hypotheses of [C18_update_keeps_unexpired] and of the gate theorems are met along the witness history:
    the Tendermint consensus state installed at 0-5 survives the update to 0-7 with its processed time; after the
    toggle to ETH (block delay 1) and one update the honest proof at the installed height 0-100 verifies. *)
Example C18_nonvacuous_unexpired_survives :
  let st := run head_cfg (empty_state Witness.t0) (firstn 2 Witness.history) in
  let k5 := Witness.tmk (Witness.t0 - 60 * ns_per_s) in
  let st' := snd (step head_cfg st (nth 2 Witness.history (Tick 0))) in
  sget (KCons (0, 5)) (store_of st Witness.name) = Some (VCons k5) /\ unexpired (now st) (Witness.tmc 5) k5 /\
    fst (step head_cfg st (nth 2 Witness.history (Tick 0))) = 0%nat /\
    sget (KCons (0, 5)) (store_of st' Witness.name) = Some (VCons k5) /\
    sget (KPTime (0, 5)) (store_of st' Witness.name) = Some (VTime Witness.t0) /\
    (let st7 := run head_cfg (empty_state Witness.t0) (firstn 7 Witness.history) in
   exists c, sget KClient (store_of st7 Witness.name) = Some (VClient c) /\ type_of c = ETH /\
    gate (now st7) (B "root") [] c (store_of st7 Witness.name) (0, 100) = 0%nat).
Proof.
  cbv zeta. repeat split; try (vm_compute; reflexivity).
  eexists. split; [vm_compute; reflexivity|]. split; vm_compute; reflexivity.
Qed.

(** the witness history is a history of consistent ETH content, and its last update meets [header_valid_for] *)
Example C18_nonvacuous_reachable :
  Forall op_eth_ok Witness.history /\
  (let st := run head_cfg (empty_state Witness.t0) (firstn 10 Witness.history) in
   sget KClient (store_of st Witness.name) = Some (VClient Witness.bscc) /\
   header_valid_for (now st) Witness.bscc (HEvm BSC (Witness.ehd 201 (B "b201") (B "b200") 903) true) (store_of st Witness.name)).
Proof.
  split.
  - unfold Witness.history. repeat (apply Forall_cons; [vm_compute; repeat split|]). apply Forall_nil.
  - cbv zeta. split; [vm_compute; reflexivity|].
    vm_compute. repeat split; try discriminate.
Qed.
