(** * C14 — Deterministic state machine (PARTIAL, DESIGN.md 5.C14)

    What is proved: each place of the consensus-critical code where Go's semantics is not a function of the
    inputs — ranging over a map — computes a result that does not depend on the enumeration order
    ([Permutation l l' -> ... -> loop l ~ loop l']).  What is checked on every run, not proved: that there are no
    OTHER such places ([Props/C14_inventory.v], regenerated inventory), that every other hazardous construct is on
    an argued allow-list, and that independent replays of recorded block histories agree
    ([replay_monitor_sound] says what the replay monitor's silence means). *)
From Coq Require Import List String NArith Bool Permutation Sorting.Sorted.
From Teleport Require Import Base.Bytes Base.Outcome Model.MapLoops Model.ReplayCheck
  Proofs.MapLoops Proofs.MapLoopsTable Proofs.ReplayCheck.
Import ListNotations.

(** ** BSC light client *)

(** snapshot.validators(): the sorted slice is the same for every enumeration of the validator set, for any
    sorting routine that returns a sorted permutation *)
Theorem validators_order_independent :
  forall (V : Type) (sort : list bytes -> list bytes), sort_spec sort ->
  forall l l' : list (bytes * V), Permutation l l' -> validators_loop sort l = validators_loop sort l'.
Proof. exact @validators_loop_perm. Qed.
Print Assumptions validators_order_independent.

(** ... it is the sorted key set *)
Theorem validators_is_sorted_key_set :
  forall (V : Type) (sort : list bytes -> list bytes), sort_spec sort ->
  forall l : list (bytes * V),
  Permutation (validators_loop sort l) (map fst l) /\ StronglySorted addr_le (validators_loop sort l).
Proof. exact @validators_loop_spec. Qed.
Print Assumptions validators_is_sorted_key_set.

(** snapshot.inturn (index into that slice; panics on an empty set) is order independent, too *)
Theorem inturn_order_independent :
  forall (V : Type) (sort : list bytes -> list bytes), sort_spec sort ->
  forall (l l' : list (bytes * V)) (number : N) (validator : bytes),
  Permutation l l' -> inturn sort l number validator = inturn sort l' number validator.
Proof. exact @inturn_perm. Qed.
Print Assumptions inturn_order_independent.

(** verifySeal's loop over Recents: whether ErrRecentlySigned is returned does not depend on the order *)
Theorem recents_check_order_independent :
  forall (signer : bytes) (number limit : N) (l l' : list (N * bytes)),
  Permutation l l' -> recents_loop signer number limit l = recents_loop signer number limit l'.
Proof. exact recents_loop_perm. Qed.
Print Assumptions recents_check_order_independent.

(** ... and it is returned exactly when some entry names the signer and either number < limit or the entry's height is
    above number-limit *)
Theorem recents_check_meaning :
  forall (signer : bytes) (number limit : N) (l : list (N * bytes)),
  recents_loop signer number limit l = true <->
  exists seen recent, In (seen, recent) l /\ recent = signer /\ (number < limit \/ sub64 number limit < seen)%N.
Proof. exact recents_loop_spec. Qed.
Print Assumptions recents_check_meaning.

(** ** adapters: handler tables built by ranging over the ABI's event map *)
Theorem handler_table_order_independent :
  forall (Name Ev Id H : Type) (handler_of : Name -> option H) (id_of : Ev -> Id) (ideqb : Id -> Id -> bool),
  (forall a b, ideqb a b = true <-> a = b) ->
  forall l l' : list (Name * Ev), Permutation l l' -> NoDup (map (fun e => id_of (snd e)) l) ->
  outcome_mequiv ideqb (handler_loop handler_of id_of l) (handler_loop handler_of id_of l').
Proof. exact @handler_loop_perm. Qed.
Print Assumptions handler_table_order_independent.

Theorem handler_table_panics_iff :
  forall (Name Ev Id H : Type) (handler_of : Name -> option H) (id_of : Ev -> Id) (l : list (Name * Ev)),
  handler_loop handler_of id_of l = Panic <-> exists e, In e l /\ handler_of (fst e) = None.
Proof. intros. apply (handler_loop_panics_iff handler_of id_of (fun _ _ => false)). Qed.
Print Assumptions handler_table_panics_iff.

(** ** app.go: module-account address maps and map copies *)
Theorem module_account_addrs_order_independent :
  forall (K V K' V' : Type) (tk : K -> V -> K') (c : V') (keqb : K' -> K' -> bool),
  (forall a b, keqb a b = true <-> a = b) ->
  forall l l' : list (K * V), Permutation l l' ->
  mequiv keqb (insert_loop tk (fun _ _ => c) l) (insert_loop tk (fun _ _ => c) l').
Proof. exact @insert_loop_const_perm. Qed.
Print Assumptions module_account_addrs_order_independent.

(** BlockedAddrs: needs the address derivation to be collision free ON THE KEYS OF THE MAP (premise) *)
Theorem blocked_addrs_order_independent :
  forall (K V K' V' : Type) (tk : K -> V -> K') (tv : K -> V -> V') (keqb : K' -> K' -> bool),
  (forall a b, keqb a b = true <-> a = b) ->
  forall l l' : list (K * V), Permutation l l' -> NoDup (map (fun e => tk (fst e) (snd e)) l) ->
  mequiv keqb (insert_loop tk tv l) (insert_loop tk tv l').
Proof. exact @insert_loop_perm. Qed.
Print Assumptions blocked_addrs_order_independent.

(** the premise cannot be dropped: with a colliding derivation the result depends on the order *)
Example blocked_addrs_collision_matters :
  exists l l' : list (N * bool),
    Permutation l l' /\ NoDup (map fst l) /\
    ~ mequiv N.eqb (insert_loop (fun _ _ => 0%N) (fun _ v => v) l) (insert_loop (fun _ _ => 0%N) (fun _ v => v) l').
Proof.
  exists [(1%N, true); (2%N, false)], [(2%N, false); (1%N, true)].
  split; [apply perm_swap|]. split.
  - cbn. constructor; [intros [H|[]]; discriminate|]. constructor; [intros []|constructor].
  - intro H. specialize (H 0%N). vm_compute in H. discriminate.
Qed.
Print Assumptions blocked_addrs_collision_matters.

Theorem map_copy_order_independent :
  forall (K V V' : Type) (g : K -> V -> V') (keqb : K -> K -> bool),
  (forall a b, keqb a b = true <-> a = b) ->
  forall l l' : list (K * V), Permutation l l' -> NoDup (map fst l) ->
  mequiv keqb (insert_loop (fun k _ => k) g l) (insert_loop (fun k _ => k) g l').
Proof. exact @copy_loop_perm. Qed.
Print Assumptions map_copy_order_independent.

Theorem map_copy_is_copy :
  forall (K V : Type) (keqb : K -> K -> bool), (forall a b, keqb a b = true <-> a = b) ->
  forall (l : list (K * V)) (k : K) (v : V), NoDup (map fst l) ->
  (mlookup keqb k (insert_loop (fun k _ => k) (fun _ v => v) l) = Some v <-> In (k, v) l).
Proof. exact @copy_loop_lookup. Qed.
Print Assumptions map_copy_is_copy.

(** ** the repairs of the two findings are order / environment independent *)
Theorem typed_event_attrs_sorted_order_independent :
  forall (V : Type) (sort : list (bytes * V) -> list (bytes * V)), attr_sort_spec sort ->
  forall l l', Permutation l l' -> NoDup (map fst l) ->
  typed_event_attrs_sorted sort l = typed_event_attrs_sorted sort l'.
Proof. exact @typed_event_attrs_sorted_perm. Qed.
Print Assumptions typed_event_attrs_sorted_order_independent.

Theorem eth_seal_in_memory_env_independent :
  forall t1 t2 seal_ok : bool, verify_cascading_in_memory t1 seal_ok = verify_cascading_in_memory t2 seal_ok.
Proof. exact verify_cascading_in_memory_env_independent. Qed.
Print Assumptions eth_seal_in_memory_env_independent.

(** ** the table cites only proved lemmas *)
Theorem site_table_certified : table_certified = true.
Proof. exact table_certified_ok. Qed.
Print Assumptions site_table_certified.

(** ** what the replay monitor's silence means *)
Theorem replay_monitor_sound :
  forall cases : list (list (list obs)), replay_disagreements cases = [] ->
  forall ref others, In (ref :: others) cases -> forall t, In t others -> t = ref.
Proof. exact Proofs.ReplayCheck.replay_monitor_sound. Qed.
Print Assumptions replay_monitor_sound.

Theorem replay_monitor_complete :
  forall cases : list (list (list obs)),
  (forall ref others, In (ref :: others) cases -> forall t, In t others -> t = ref) ->
  (forall c, In c cases -> c <> []) ->
  replay_disagreements cases = [].
Proof. exact Proofs.ReplayCheck.replay_monitor_complete. Qed.
Print Assumptions replay_monitor_complete.

(** ** non-vacuity *)

(** [sort_spec] is satisfiable (insertion sort) ... *)
Example sort_spec_satisfiable : sort_spec addr_sort.
Proof. exact addr_sort_spec. Qed.
Print Assumptions sort_spec_satisfiable.

(** ... and on a concrete three-validator set two different enumerations give the same slice and the same in-turn verdicts *)
Example validators_concrete :
  let l  := [([x03;x01], tt); ([x01;xff], tt); ([x02], tt)] in
  let l' := [([x02], tt); ([x03;x01], tt); ([x01;xff], tt)] in
  collect_loop l <> collect_loop l' /\
  validators_loop addr_sort l = [[x01;xff]; [x02]; [x03;x01]] /\
  validators_loop addr_sort l' = [[x01;xff]; [x02]; [x03;x01]] /\
  inturn addr_sort l 4 [x03;x01] = Ok true /\ inturn addr_sort l' 4 [x03;x01] = Ok true /\
  inturn addr_sort (@nil (bytes * unit)) 4 [x02] = Panic.
Proof. vm_compute. repeat split; try reflexivity. discriminate. Qed.
Print Assumptions validators_concrete.

(** the recently-signed loop: a hit, a miss, and a low height (number < limit: every entry of the signer is recent) *)
Example recents_concrete :
  recents_loop [x0a] 100 2 [(97%N, [x0a]); (99%N, [x0a]); (99%N, [x0b])] = true /\
  recents_loop [x0a] 100 2 [(99%N, [x0b]); (98%N, [x0a])] = false /\
  recents_loop [x0a] 1 2 [(0%N, [x0a])] = true.
Proof. vm_compute. repeat split. Qed.
Print Assumptions recents_concrete.

(** handler table: known events give a table, an unknown event name panics *)
Example handler_table_concrete :
  let h (n : N) := match n with 1%N => Some 10%N | 2%N => Some 20%N | _ => None end in
  (exists m, handler_loop h (fun e : N => e) [(1%N, 7%N); (2%N, 8%N)] = Ok m /\ mlookup N.eqb 8%N m = Some 20%N /\ mlookup N.eqb 9%N m = None) /\
  handler_loop h (fun e : N => e) [(1%N, 7%N); (3%N, 9%N)] = Panic.
Proof. cbn. split; [eexists; repeat split|reflexivity]. Qed.
Print Assumptions handler_table_concrete.

(** the replay monitor does report a differing application hash, and does not report equal traces *)
Example replay_monitor_concrete :
  let o h := {| o_kind := 4; o_class := 0; o_code := 0; o_gas_wanted := 0; o_gas_used := 0; o_data := 0; o_events := 0;
                o_extra := 0; o_hash := h; o_events_raw := 0 |} in
  replay_disagreements [[[o 5%N]; [o 5%N]]; [[o 5%N; o 6%N]; [o 5%N; o 7%N]]] = [(1, (1, 8))].
Proof. vm_compute. reflexivity. Qed.
Print Assumptions replay_monitor_concrete.
