(** * C14 — Deterministic state machine (PARTIAL, DESIGN.md 5.C14)

    What is proved: each place of the consensus-critical code where Go's semantics is not a function of the
    inputs — ranging over a map — computes a result that does not depend on the enumeration order
    ([Permutation l l' -> ... -> loop l ~ loop l']).  What is checked on every run, not proved: that there are no
    OTHER such places ([Props/C14_inventory.v], regenerated inventory), that every other hazardous construct is on
    an argued allow-list, and that independent replays of recorded block histories agree
    ([replay_monitor_sound] says what the replay monitor's silence means). *)
From Coq Require Import List String NArith Bool Permutation Sorting.Sorted.
From Teleport Require Import Base.Bytes Base.Outcome Model.MapLoops Model.MapLoopsIR Model.ReplayCheck
  Proofs.MapLoops Proofs.MapLoopsIR Proofs.MapLoopsTable Proofs.ReplayCheck.
Import ListNotations.

(** ** The full statement, and the part of it that is a theorem

    For a state machine whose block processing may consult the node it runs on ([Env]: map iteration seeds, scheduler,
    clock, random source, file system, environment variables) the property reads: *)
Definition C14_full_statement {Env Genesis Block Trace : Type} (replay : Env -> Genesis -> list Block -> Trace) : Prop :=
  forall (e e' : Env) (g : Genesis) (blocks : list Block), replay e g blocks = replay e' g blocks.
(** with [Trace] = application hash after every block, results and events of every transaction.  To PROVE it of /repo,
    [replay] would have to be the semantics of the whole Go program (teleport + cosmos-sdk + ethermint + go-ethereum +
    tendermint + the Go runtime); that is not available.  What is proved instead is the clause "never depends on map
    iteration order" for every [range]-over-map statement of the state machine's own source that the classifier
    accepts — [C14_map_iteration_partial] below, over a loop language regenerated from the source, for EVERY
    interpretation of its expressions.  Missing for the full statement: (1) the three argued loops of the ethash
    remote sealer and every map loop inside library code (one of which — cosmos-sdk TypedEventToEvent — was a defect);
    (2) proofs, instead of arguments, that clock / randomness / goroutines / file system reads cannot reach state
    ([Model/DeterminismCheck.v: allow_list]); (3) a proved link between the loop language and Go (the translator and
    the reading of [Model/MapLoopsIR.v: run_loop] as Go's semantics are trusted).  The replay engine checks the full
    statement on generated histories ([replay_monitor_sound] is what its silence means). *)

(** *** every classified map loop is order independent, for every evaluator *)

(** shape "store": the written maps are lookup-equivalent (or both executions panic), provided entries that write the
    same key of the same map write the same value *)
Theorem classified_store_loop_order_independent :
  forall (val : Type) (ev : evaluator val) (kvar vvar : string) (ranged : expr) (after : list stmt) (t : tree),
    classify_tree kvar vvar ranged after t = Some ShStore ->
    forall (inv : env val) (st : store val) (l l' : list (val * val)), Permutation l l' ->
      store_consistent (effs ev t kvar vvar inv st l) ->
      result_equiv ev (run_loop ev t kvar vvar inv l st) (run_loop ev t kvar vvar inv l' st).
Proof. exact @classified_store_sound. Qed.
Print Assumptions classified_store_loop_order_independent.

(** shape "search" (early return): the same return, or the loop runs to the end with the store untouched *)
Theorem classified_search_loop_order_independent :
  forall (val : Type) (ev : evaluator val) (kvar vvar : string) (ranged : expr) (after : list stmt) (t : tree),
    classify_tree kvar vvar ranged after t = Some ShSearch ->
    forall (inv : env val) (st : store val) (l l' : list (val * val)), Permutation l l' ->
      run_loop ev t kvar vvar inv l st = run_loop ev t kvar vvar inv l' st.
Proof. exact @classified_search_sound. Qed.
Print Assumptions classified_search_loop_order_independent.

(** shape "collect, then sort": the loop always completes, touches nothing but the slice [s], collects the same
    elements up to order — and the statement right after it sorts [s], so for a sorter that is a function of the
    multiset the sorted slices are equal *)
Theorem classified_collect_sort_loop_order_independent :
  forall (val : Type) (ev : evaluator val) (kvar vvar : string) (ranged : expr) (after : list stmt) (t : tree) (s : string) (cmp : comparator),
    classify_tree kvar vvar ranged after t = Some (ShCollectSort s cmp) ->
    forall (inv : env val) (st : store val) (l l' : list (val * val)), Permutation l l' ->
    exists x y, run_loop ev t kvar vvar inv l st = RCont x /\ run_loop ev t kvar vvar inv l' st = RCont y /\
      (forall m, get_map m x = get_map m y) /\
      (forall s', s' <> s -> get_slice s' x = get_slice s' y) /\
      Permutation (get_slice s x) (get_slice s y) /\
      (forall sorter : list val -> list val, (forall a b, Permutation a b -> sorter a = sorter b) ->
         sorter (get_slice s x) = sorter (get_slice s y)) /\
      comparator_ok cmp = true /\ exists rest, after = SSort s cmp :: rest.
Proof. exact @classified_collect_sound. Qed.
Print Assumptions classified_collect_sort_loop_order_independent.

(** what a classified search loop computes: it returns iff some entry's iteration returns, else the store is untouched
    (the generic form of [recents_check_meaning]) *)
Theorem classified_search_loop_meaning :
  forall (val : Type) (ev : evaluator val) (kvar vvar : string) (ranged : expr) (after : list stmt) (t : tree),
    classify_tree kvar vvar ranged after t = Some ShSearch ->
    forall (inv : env val) (st : store val) (l : list (val * val)),
      (exists vs e, run_loop ev t kvar vvar inv l st = RRet vs /\ In e l /\
                    run_tree ev t (entry_env kvar vvar inv e) st = FReturn vs) \/
      (run_loop ev t kvar vvar inv l st = RCont st /\
       forall e, In e l -> run_tree ev t (entry_env kvar vvar inv e) st = FSkip).
Proof. exact @classified_search_meaning. Qed.
Print Assumptions classified_search_loop_meaning.

(** what a classified store loop computes: it panics iff some entry's iteration panics; otherwise no slice changes and
    map [m] holds [v] under [k] iff some entry stored it there, or no entry stored under that key and it was there
    before (the generic form of [map_copy_is_copy] / [handler_table_panics_iff]) *)
Theorem classified_store_loop_meaning :
  forall (val : Type) (ev : evaluator val) (kvar vvar : string) (ranged : expr) (after : list stmt) (t : tree),
    classify_tree kvar vvar ranged after t = Some ShStore ->
    forall (inv : env val) (st : store val) (l : list (val * val)), store_consistent (effs ev t kvar vvar inv st l) ->
      (run_loop ev t kvar vvar inv l st = RPanic /\ exists e, In e l /\ run_tree ev t (entry_env kvar vvar inv e) st = FPanic) \/
      (exists x, run_loop ev t kvar vvar inv l st = RCont x /\
         (forall s, get_slice s x = get_slice s st) /\
         forall m k v, mlookup (ev_eqb ev) k (get_map m x) = Some v <->
           (exists e, In e l /\ run_tree ev t (entry_env kvar vvar inv e) st = FStore m k v) \/
           ((forall e v', In e l -> run_tree ev t (entry_env kvar vvar inv e) st <> FStore m k v') /\
            mlookup (ev_eqb ev) k (get_map m st) = Some v)).
Proof. exact @classified_store_meaning. Qed.
Print Assumptions classified_store_loop_meaning.

(** a sorter meeting [sort_spec] (sorted permutation under byte-wise comparison) IS a function of the multiset: the
    premise of the previous theorem holds for sort.Sort(validatorsAscending(_)) whatever algorithm sort.Sort uses *)
Theorem sort_spec_is_canonical :
  forall sort : list bytes -> list bytes, sort_spec sort -> forall a b, Permutation a b -> sort a = sort b.
Proof.
  intros sort S a b P. destruct (S a) as [Pa Sa]. destruct (S b) as [Pb Sb].
  apply sorted_perm_unique; auto.
  eapply Permutation_trans; [exact Pa|]. eapply Permutation_trans; [exact P|]. apply Permutation_sym. exact Pb.
Qed.
Print Assumptions sort_spec_is_canonical.

(** ... and so is ANY sort by a total order on injective keys — what the classifier's [comparator_ok] establishes
    syntactically for sort.Slice / sort.SliceStable / slices.SortFunc / sort.Strings comparators: the same key term on both
    sides, an injective key term, keys compared by [<] / [>] on strings or integers or by bytes.Compare / strings.Compare *)
Theorem keyed_sort_by_total_order_is_canonical :
  forall (A K : Type) (key : A -> K) (le : K -> K -> Prop),
    (forall x y, le x y -> le y x -> x = y) ->
    (forall a b, key a = key b -> a = b) ->
    forall sort : list A -> list A,
    (forall l, Permutation (sort l) l /\ StronglySorted (fun a b => le (key a) (key b)) (sort l)) ->
    forall a b, Permutation a b -> sort a = sort b.
Proof. exact @keyed_sort_is_canonical. Qed.
Print Assumptions keyed_sort_by_total_order_is_canonical.

(** the proved part of the property *)
Theorem C14_map_iteration_partial :
  forall (val : Type) (ev : evaluator val) (s : site) (t : tree) (sh : shape), classify s = Some (t, sh) ->
  forall (inv : env val) (st : store val) (l l' : list (val * val)), Permutation l l' ->
  match sh with
  | ShStore => store_consistent (effs ev t (s_kvar s) (s_vvar s) inv st l) ->
               result_equiv ev (run_loop ev t (s_kvar s) (s_vvar s) inv l st) (run_loop ev t (s_kvar s) (s_vvar s) inv l' st)
  | ShSearch => run_loop ev t (s_kvar s) (s_vvar s) inv l st = run_loop ev t (s_kvar s) (s_vvar s) inv l' st
  | ShCollectSort sl _ =>
      exists x y, run_loop ev t (s_kvar s) (s_vvar s) inv l st = RCont x /\ run_loop ev t (s_kvar s) (s_vvar s) inv l' st = RCont y /\
        forall sorter : list val -> list val, (forall a b, Permutation a b -> sorter a = sorter b) ->
          sorter (get_slice sl x) = sorter (get_slice sl y)
  end.
Proof.
  intros val ev s t sh C inv st l l' P. unfold classify in C.
  destruct (to_tree (s_body s)) as [t0|]; [|discriminate]. cbn [opt_bind] in C.
  destruct (classify_tree (s_kvar s) (s_vvar s) (s_ranged s) (s_after s) t0) as [sh0|] eqn:CT; [|discriminate].
  cbn [opt_bind] in C. inversion C; subst t0 sh0. destruct sh as [| |sl bt].
  - intro SC. eapply classified_store_sound; eauto.
  - eapply classified_search_sound; eauto.
  - destruct (classified_collect_sound ev _ _ _ _ _ _ _ CT inv st l l' P) as (x & y & Ex & Ey & _ & _ & _ & HS & _).
    exists x, y. auto.
Qed.
Print Assumptions C14_map_iteration_partial.

(** ** BSC light client *)

(** snapshot.validators(): the sorted slice is the same for every enumeration of the validator set, for any
    sorting routine that returns a sorted permutation *)
Theorem validators_order_independent :
  forall (V : Type) (sort : list bytes -> list bytes), sort_spec sort ->
  forall l l' : list (bytes * V), Permutation l l' -> validators_loop sort l = validators_loop sort l'.
Proof. exact @validators_loop_perm. Qed.
Print Assumptions validators_order_independent.

(** ... it is the sorted key set *)
Theorem validators_is_sorted_key_set :
  forall (V : Type) (sort : list bytes -> list bytes), sort_spec sort ->
  forall l : list (bytes * V),
  Permutation (validators_loop sort l) (map fst l) /\ StronglySorted addr_le (validators_loop sort l).
Proof. exact @validators_loop_spec. Qed.
Print Assumptions validators_is_sorted_key_set.

(** snapshot.inturn (index into that slice; panics on an empty set) is order independent, too *)
Theorem inturn_order_independent :
  forall (V : Type) (sort : list bytes -> list bytes), sort_spec sort ->
  forall (l l' : list (bytes * V)) (number : N) (validator : bytes),
  Permutation l l' -> inturn sort l number validator = inturn sort l' number validator.
Proof. exact @inturn_perm. Qed.
Print Assumptions inturn_order_independent.

(** verifySeal's loop over Recents: whether ErrRecentlySigned is returned does not depend on the order *)
Theorem recents_check_order_independent :
  forall (signer : bytes) (number limit : N) (l l' : list (N * bytes)),
  Permutation l l' -> recents_loop signer number limit l = recents_loop signer number limit l'.
Proof. exact recents_loop_perm. Qed.
Print Assumptions recents_check_order_independent.

(** ... and it is returned exactly when some entry names the signer and either number < limit or the entry's height is
    above number-limit *)
Theorem recents_check_meaning :
  forall (signer : bytes) (number limit : N) (l : list (N * bytes)),
  recents_loop signer number limit l = true <->
  exists seen recent, In (seen, recent) l /\ recent = signer /\ (number < limit \/ sub64 number limit < seen)%N.
Proof. exact recents_loop_spec. Qed.
Print Assumptions recents_check_meaning.

(** ** adapters: handler tables built by ranging over the ABI's event map *)
Theorem handler_table_order_independent :
  forall (Name Ev Id H : Type) (handler_of : Name -> option H) (id_of : Ev -> Id) (ideqb : Id -> Id -> bool),
  (forall a b, ideqb a b = true <-> a = b) ->
  forall l l' : list (Name * Ev), Permutation l l' -> NoDup (map (fun e => id_of (snd e)) l) ->
  outcome_mequiv ideqb (handler_loop handler_of id_of l) (handler_loop handler_of id_of l').
Proof. exact @handler_loop_perm. Qed.
Print Assumptions handler_table_order_independent.

Theorem handler_table_panics_iff :
  forall (Name Ev Id H : Type) (handler_of : Name -> option H) (id_of : Ev -> Id) (l : list (Name * Ev)),
  handler_loop handler_of id_of l = Panic <-> exists e, In e l /\ handler_of (fst e) = None.
Proof. intros. apply (handler_loop_panics_iff handler_of id_of (fun _ _ => false)). Qed.
Print Assumptions handler_table_panics_iff.

(** ** app.go: module-account address maps and map copies *)
Theorem module_account_addrs_order_independent :
  forall (K V K' V' : Type) (tk : K -> V -> K') (c : V') (keqb : K' -> K' -> bool),
  (forall a b, keqb a b = true <-> a = b) ->
  forall l l' : list (K * V), Permutation l l' ->
  mequiv keqb (insert_loop tk (fun _ _ => c) l) (insert_loop tk (fun _ _ => c) l').
Proof. exact @insert_loop_const_perm. Qed.
Print Assumptions module_account_addrs_order_independent.

(** BlockedAddrs: needs the address derivation to be collision free ON THE KEYS OF THE MAP (premise) *)
Theorem blocked_addrs_order_independent :
  forall (K V K' V' : Type) (tk : K -> V -> K') (tv : K -> V -> V') (keqb : K' -> K' -> bool),
  (forall a b, keqb a b = true <-> a = b) ->
  forall l l' : list (K * V), Permutation l l' -> NoDup (map (fun e => tk (fst e) (snd e)) l) ->
  mequiv keqb (insert_loop tk tv l) (insert_loop tk tv l').
Proof. exact @insert_loop_perm. Qed.
Print Assumptions blocked_addrs_order_independent.

(** the premise cannot be dropped: with a colliding derivation the result depends on the order *)
Example blocked_addrs_collision_matters :
  exists l l' : list (N * bool),
    Permutation l l' /\ NoDup (map fst l) /\
    ~ mequiv N.eqb (insert_loop (fun _ _ => 0%N) (fun _ v => v) l) (insert_loop (fun _ _ => 0%N) (fun _ v => v) l').
Proof.
  exists [(1%N, true); (2%N, false)], [(2%N, false); (1%N, true)].
  split; [apply perm_swap|]. split.
  - cbn. constructor; [intros [H|[]]; discriminate|]. constructor; [intros []|constructor].
  - intro H. specialize (H 0%N). vm_compute in H. discriminate.
Qed.
Print Assumptions blocked_addrs_collision_matters.

Theorem map_copy_order_independent :
  forall (K V V' : Type) (g : K -> V -> V') (keqb : K -> K -> bool),
  (forall a b, keqb a b = true <-> a = b) ->
  forall l l' : list (K * V), Permutation l l' -> NoDup (map fst l) ->
  mequiv keqb (insert_loop (fun k _ => k) g l) (insert_loop (fun k _ => k) g l').
Proof. exact @copy_loop_perm. Qed.
Print Assumptions map_copy_order_independent.

Theorem map_copy_is_copy :
  forall (K V : Type) (keqb : K -> K -> bool), (forall a b, keqb a b = true <-> a = b) ->
  forall (l : list (K * V)) (k : K) (v : V), NoDup (map fst l) ->
  (mlookup keqb k (insert_loop (fun k _ => k) (fun _ v => v) l) = Some v <-> In (k, v) l).
Proof. exact @copy_loop_lookup. Qed.
Print Assumptions map_copy_is_copy.

(** ** the repairs of the two findings are order / environment independent *)
Theorem typed_event_attrs_sorted_order_independent :
  forall (V : Type) (sort : list (bytes * V) -> list (bytes * V)), attr_sort_spec sort ->
  forall l l', Permutation l l' -> NoDup (map fst l) ->
  typed_event_attrs_sorted sort l = typed_event_attrs_sorted sort l'.
Proof. exact @typed_event_attrs_sorted_perm. Qed.
Print Assumptions typed_event_attrs_sorted_order_independent.

Theorem eth_seal_in_memory_env_independent :
  forall t1 t2 seal_ok : bool, verify_cascading_in_memory t1 seal_ok = verify_cascading_in_memory t2 seal_ok.
Proof. exact verify_cascading_in_memory_env_independent. Qed.
Print Assumptions eth_seal_in_memory_env_independent.

(** the same with every environment touch point of the ethash engine in the model (cache file found / creatable,
    dataset ready or not): with the configuration VerifyCascadingFields passes (in-memory cache, light verification —
    [Props/C14_inventory.v: eth_seal_verification_in_memory_and_light] re-checks it on the regenerated call) the verdict
    is the same on every node, and it is hashimotoLight's verdict on the generated words *)
Theorem eth_seal_env_independent :
  forall (Header Sched : Type) (light : list N -> Header -> bool) (full : Sched -> Header -> option bool)
         (gen : list N) (fs fs' : fs_env) (sc sc' : Sched) (h : Header),
  verify_cascading_env light full false true gen fs sc h = verify_cascading_env light full false true gen fs' sc' h.
Proof. exact @verify_cascading_env_independent. Qed.
Print Assumptions eth_seal_env_independent.

Theorem eth_seal_verdict_meaning :
  forall (Header Sched : Type) (light : list N -> Header -> bool) (full : Sched -> Header -> option bool)
         (gen : list N) (fs : fs_env) (sc : Sched) (h : Header),
  verify_cascading_env light full false true gen fs sc h = Ok tt <-> light gen h = true.
Proof. exact @verify_cascading_env_meaning. Qed.
Print Assumptions eth_seal_verdict_meaning.

(** both premises are needed: with a cache directory a stale cache file changes the verdict, with fulldag the verdict
    depends on whether the background generation has finished *)
Example eth_seal_disk_cache_or_full_dag_env_dependent :
  let light (w : list N) (h : N) := match w with x :: _ => N.eqb x h | [] => false end in
  let full (ready : bool) (h : N) := if ready then Some false else None in
  verify_cascading_env light full false false [7%N] {| fe_mapped_file := None; fe_can_create := true |} true 7%N <>
  verify_cascading_env light full false false [7%N] {| fe_mapped_file := Some [8%N]; fe_can_create := true |} true 7%N /\
  verify_cascading_env light full true true [7%N] {| fe_mapped_file := None; fe_can_create := true |} true 7%N <>
  verify_cascading_env light full true true [7%N] {| fe_mapped_file := None; fe_can_create := true |} false 7%N.
Proof. vm_compute. split; discriminate. Qed.
Print Assumptions eth_seal_disk_cache_or_full_dag_env_dependent.

(** ** the table cites only proved lemmas *)
Theorem site_table_certified : table_certified = true.
Proof. exact table_certified_ok. Qed.
Print Assumptions site_table_certified.

(** ** what the replay monitor's silence means *)
Theorem replay_monitor_sound :
  forall cases : list (list (list obs)), replay_disagreements cases = [] ->
  forall ref others, In (ref :: others) cases -> forall t, In t others -> t = ref.
Proof. exact Proofs.ReplayCheck.replay_monitor_sound. Qed.
Print Assumptions replay_monitor_sound.

Theorem replay_monitor_complete :
  forall cases : list (list (list obs)),
  (forall ref others, In (ref :: others) cases -> forall t, In t others -> t = ref) ->
  (forall c, In c cases -> c <> []) ->
  replay_disagreements cases = [].
Proof. exact Proofs.ReplayCheck.replay_monitor_complete. Qed.
Print Assumptions replay_monitor_complete.

(** ** non-vacuity *)

(** [sort_spec] is satisfiable (insertion sort) ... *)
Example sort_spec_satisfiable : sort_spec addr_sort.
Proof. exact addr_sort_spec. Qed.
Print Assumptions sort_spec_satisfiable.

(** ... and on a concrete three-validator set two different enumerations give the same slice and the same in-turn verdicts *)
Example validators_concrete :
  let l  := [([x03;x01], tt); ([x01;xff], tt); ([x02], tt)] in
  let l' := [([x02], tt); ([x03;x01], tt); ([x01;xff], tt)] in
  collect_loop l <> collect_loop l' /\
  validators_loop addr_sort l = [[x01;xff]; [x02]; [x03;x01]] /\
  validators_loop addr_sort l' = [[x01;xff]; [x02]; [x03;x01]] /\
  inturn addr_sort l 4 [x03;x01] = Ok true /\ inturn addr_sort l' 4 [x03;x01] = Ok true /\
  inturn addr_sort (@nil (bytes * unit)) 4 [x02] = Panic.
Proof. vm_compute. repeat split; try reflexivity. discriminate. Qed.
Print Assumptions validators_concrete.

(** the recently-signed loop: a hit, a miss, and a low height (number < limit: every entry of the signer is recent) *)
Example recents_concrete :
  recents_loop [x0a] 100 2 [(97%N, [x0a]); (99%N, [x0a]); (99%N, [x0b])] = true /\
  recents_loop [x0a] 100 2 [(99%N, [x0b]); (98%N, [x0a])] = false /\
  recents_loop [x0a] 1 2 [(0%N, [x0a])] = true.
Proof. vm_compute. repeat split. Qed.
Print Assumptions recents_concrete.

(** handler table: known events give a table, an unknown event name panics *)
Example handler_table_concrete :
  let h (n : N) := match n with 1%N => Some 10%N | 2%N => Some 20%N | _ => None end in
  (exists m, handler_loop h (fun e : N => e) [(1%N, 7%N); (2%N, 8%N)] = Ok m /\ mlookup N.eqb 8%N m = Some 20%N /\ mlookup N.eqb 9%N m = None) /\
  handler_loop h (fun e : N => e) [(1%N, 7%N); (3%N, 9%N)] = Panic.
Proof. cbn. split; [eexists; repeat split|reflexivity]. Qed.
Print Assumptions handler_table_concrete.

(** the replay monitor does report a differing application hash, and does not report equal traces *)
Example replay_monitor_concrete :
  let o h := {| o_kind := 4; o_class := 0; o_code := 0; o_gas_wanted := 0; o_gas_used := 0; o_data := 0; o_events := 0;
                o_extra := 0; o_hash := h; o_events_raw := 0 |} in
  replay_disagreements [[[o 5%N]; [o 5%N]]; [[o 5%N; o 6%N]; [o 5%N; o 7%N]]] = [(1, (1, 8))].
Proof. vm_compute. reflexivity. Qed.
Print Assumptions replay_monitor_concrete.

(** the premise of [handler_table_order_independent] cannot be dropped: two events with the same ID and different
    handlers give tables that differ with the order *)
Example handler_table_collision_matters :
  exists l l' : list (N * N),
    Permutation l l' /\ NoDup (map fst l) /\
    ~ outcome_mequiv N.eqb (handler_loop (fun n : N => Some n) (fun _ : N => 0%N) l) (handler_loop (fun n : N => Some n) (fun _ : N => 0%N) l').
Proof.
  exists [(1%N, 7%N); (2%N, 8%N)], [(2%N, 8%N); (1%N, 7%N)].
  split; [apply perm_swap|]. split.
  - cbn. constructor; [intros [H|[]]; discriminate|]. constructor; [intros []|constructor].
  - intro H. specialize (H 0%N). vm_compute in H. discriminate.
Qed.
Print Assumptions handler_table_collision_matters.

(** ** the loop language: non-vacuity *)
Local Open Scope string_scope.
Local Open Scope list_scope.

(** the loops of the source as the translator emits them (copies of [Gen/HazardsGen.v] rows) are classified ... *)
Definition ex_recents : site := {|
  s_file := "x/xibc/clients/light-clients/bsc/types/header.go"; s_func := "verifySeal"; s_hash := ""; s_kvar := "seen"; s_vvar := "recent";
  s_ranged := E "snap.Recents" ["snap"] [];
  s_body := [SIf (E "recent == signer" ["recent"; "signer"] [])
               [SLocal "limit" (E "uint64(len(snap.Validators)/2 + 1)" ["snap"] ["len"]);
                SIf (E "number < limit || seen > number-limit" ["number"; "limit"; "seen"] [])
                    [SReturn [E "sdkerrors.Wrap(ErrRecentlySigned, signer.Hex())" ["ErrRecentlySigned"; "signer"]
                                ["github.com/cosmos/cosmos-sdk/types/errors.Wrap"; "(github.com/ethereum/go-ethereum/common.Address).Hex"]]] []] []];
  s_after := []; s_text := "" |}.

Definition ex_validators (after : list stmt) : site := {|
  s_file := "x/xibc/clients/light-clients/bsc/types/snapshot.go"; s_func := "*snapshot.validators"; s_hash := ""; s_kvar := "v"; s_vvar := "_";
  s_ranged := E "s.Validators" ["s"] []; s_body := [SAppend "validators" (E "v" ["v"] [])];
  s_after := after; s_text := "" |}.

Definition ex_copy : site := {|
  s_file := "app/app.go"; s_func := "GetMaccPerms"; s_hash := ""; s_kvar := "k"; s_vvar := "v";
  s_ranged := E "maccPerms" ["maccPerms"] []; s_body := [SStore "dup" (E "k" ["k"] []) (E "v" ["v"] [])];
  s_after := []; s_text := "" |}.

Definition ex_bytes_cmp : comparator :=
  CmpKey "<" "bytes.Compare" "[]byte" (KMethod "(github.com/ethereum/go-ethereum/common.Address).Bytes" KElem)
                                      (KMethod "(github.com/ethereum/go-ethereum/common.Address).Bytes" KElem).

Example classifier_accepts :
  option_map snd (classify ex_recents) = Some ShSearch /\
  option_map snd (classify (ex_validators [SSort "validators" (CmpNamed "validatorsAscending"); SReturn [E "validators" ["validators"] []]])) =
    Some (ShCollectSort "validators" (CmpNamed "validatorsAscending")) /\
  option_map snd (classify ex_copy) = Some ShStore /\
  (* sort.Slice(validators, func(i, j int) bool { return bytes.Compare(validators[i].Bytes(), validators[j].Bytes()) < 0 }) *)
  option_map snd (classify (ex_validators [SSort "validators" ex_bytes_cmp])) = Some (ShCollectSort "validators" ex_bytes_cmp) /\
  (* sort.Strings(names) *)
  comparator_ok (CmpKey "<" "" "string" KElem KElem) = true.
Proof. vm_compute. repeat split. Qed.
Print Assumptions classifier_accepts.

(** ... and order-dependent variants are not: the sort made conditional, a [break] after the first entry of the signer,
    a walk that counts entries and returns the loop variable, an append to a struct field, a loop that reads the map it
    writes *)
Example classifier_rejects :
  classify (ex_validators [SIf (E "len(validators) > 21" ["validators"] ["len"]) [SSort "validators" (CmpNamed "validatorsAscending")] []]) = None /\
  classify {| s_file := ""; s_func := ""; s_hash := ""; s_kvar := "seen"; s_vvar := "recent"; s_ranged := E "snap.Recents" ["snap"] [];
              s_body := [SIf (E "recent == signer" ["recent"; "signer"] [])
                           [SIf (E "seen > number-limit" ["seen"; "number"; "limit"] []) [SReturn [E "err" ["err"] []]] []; SOther "break"] []];
              s_after := []; s_text := "" |} = None /\
  classify {| s_file := ""; s_func := ""; s_hash := ""; s_kvar := "v"; s_vvar := "_"; s_ranged := E "s.Validators" ["s"] [];
              s_body := [SIf (E "i == offset" ["i"; "offset"] []) [SReturn [E "v == validator" ["v"; "validator"] []]] []; SOther "i++"];
              s_after := []; s_text := "" |} = None /\
  classify {| s_file := ""; s_func := ""; s_hash := ""; s_kvar := "v"; s_vvar := "_"; s_ranged := E "s.Validators" ["s"] [];
              s_body := [SIf (E "i == offset" ["i"; "offset"] []) [SReturn [E "v == validator" ["v"; "validator"] []]] []];
              s_after := []; s_text := "" |} = None /\
  classify {| s_file := ""; s_func := ""; s_hash := ""; s_kvar := "val"; s_vvar := "_"; s_ranged := E "newVals" ["newVals"] [];
              s_body := [SOther "clientState.Validators = append(clientState.Validators, val.Bytes())"];
              s_after := []; s_text := "" |} = None /\
  classify {| s_file := ""; s_func := ""; s_hash := ""; s_kvar := "k"; s_vvar := "_"; s_ranged := E "src" ["src"] [];
              s_body := [SStore "m" (E "len(m)" ["m"] ["len"]) (E "k" ["k"] [])]; s_after := []; s_text := "" |} = None.
Proof. vm_compute. repeat split. Qed.
Print Assumptions classifier_rejects.

(** further accepted forms (second wave of refactorings): the recents test as a helper method with [continue] and two
    returns of the same value; a pre-sized slice filled by a counter ([SFill], emitted by the translator only under its
    side conditions) and sorted by a comparator that calls a named function; the handler table looked up in a second,
    local map ([v, ok := m[k]] is two pure [SLocal]s) *)
Example classifier_accepts_more :
  option_map snd (classify {| s_file := ""; s_func := "*snapshot.signedRecently"; s_hash := ""; s_kvar := "seen"; s_vvar := "recent";
     s_ranged := E "s.Recents" ["s"] [];
     s_body := [SIf (E "recent != validator" ["recent"; "validator"] []) [SContinue] [];
                SIf (E "number < limit" ["number"; "limit"] []) [SReturn [E "true" [] []]] [];
                SIf (E "seen > number-limit" ["seen"; "number"; "limit"] []) [SReturn [E "true" [] []]] []];
     s_after := [SReturn [E "false" [] []]]; s_text := "" |}) = Some ShSearch /\
  option_map snd (classify {| s_file := ""; s_func := "*snapshot.validators"; s_hash := ""; s_kvar := "addr"; s_vvar := "_";
     s_ranged := E "s.Validators" ["s"] []; s_body := [SFill "sorted" "next" (E "addr" ["addr"] [])];
     s_after := [SSort "sorted" (CmpKey "<" "bytes.Compare" "[]byte" (KSliceAll KElem) (KSliceAll KElem))]; s_text := "" |}) =
    Some (ShCollectSort "sorted" (CmpKey "<" "bytes.Compare" "[]byte" (KSliceAll KElem) (KSliceAll KElem))) /\
  option_map snd (classify {| s_file := ""; s_func := "NewHookAdapter"; s_hash := ""; s_kvar := "name"; s_vvar := "event";
     s_ranged := E "parsed.Events" ["parsed"] [];
     s_body := [SLocal "handler" (E "byName[name]" ["byName"; "name"] []); SLocal "known" (E "present(byName[name])" ["byName"; "name"] []);
                SIf (E "!known" ["known"] []) [SPanic (E "errors.New(""unknown topic"")" [] ["errors.New"])] [];
                SStore "handlers" (E "event.ID" ["event"] []) (E "handler" ["handler"] [])];
     s_after := []; s_text := "" |}) = Some ShStore /\
  (* two returns of DIFFERENT values: which one is returned depends on the order *)
  classify {| s_file := ""; s_func := ""; s_hash := ""; s_kvar := "k"; s_vvar := "v"; s_ranged := E "m" ["m"] [];
     s_body := [SIf (E "v > 1" ["v"] []) [SReturn [E "true" [] []]] []; SIf (E "v > 0" ["v"] []) [SReturn [E "false" [] []]] []];
     s_after := []; s_text := "" |} = None.
Proof. vm_compute. repeat split. Qed.
Print Assumptions classifier_accepts_more.

(** comparators that are NOT a total order on the elements are rejected: a prefix of the key, one field, different keys
    on the two sides, a float order (NaN), a comparator the translator could not read *)
Example comparator_rejects :
  comparator_ok (CmpKey "<" "bytes.Compare" "[]byte" (KOther "validators[i][:4]") (KOther "validators[j][:4]")) = false /\
  comparator_ok (CmpKey "<" "" "string" (KOther "relayers[i].Address") (KOther "relayers[j].Address")) = false /\
  comparator_ok (CmpKey "<" "bytes.Compare" "[]byte" (KMethod "(github.com/ethereum/go-ethereum/common.Address).Bytes" KElem) (KSliceAll KElem)) = false /\
  comparator_ok (CmpKey "<" "" "float64" KElem KElem) = false /\
  comparator_ok (CmpKey "<=" "" "string" KElem KElem) = false /\
  comparator_ok (CmpOther "sort.Slice(x, less)") = false /\
  classify (ex_validators [SSort "validators" (CmpKey "<" "bytes.Compare" "[]byte" (KOther "validators[i][:4]") (KOther "validators[j][:4]"))]) = None.
Proof. vm_compute. repeat split. Qed.
Print Assumptions comparator_rejects.

(** the premise of [keyed_sort_by_total_order_is_canonical] cannot be dropped: sorting by a key that is not injective
    (here: the first byte) leaves the order of elements with equal keys to the input arrangement *)
Example sort_by_prefix_is_order_dependent :
  let key (a : bytes) := match a with b :: _ => [b] | [] => [] end in
  let ins := fix ins (a : bytes) (l : list bytes) := match l with [] => [a] | h :: t => if bytes_ltb (key a) (key h) then a :: l else h :: ins a t end in
  let sort (l : list bytes) := fold_right ins [] l in
  Permutation [[x01; x02]; [x01; x03]] [[x01; x03]; [x01; x02]] /\
  sort [[x01; x02]; [x01; x03]] <> sort [[x01; x03]; [x01; x02]].
Proof. split; [apply perm_swap|vm_compute; discriminate]. Qed.
Print Assumptions sort_by_prefix_is_order_dependent.

(** the last one really is order dependent — under the concrete evaluator [sum_evaluator] ("len(m)" = the number of
    stores so far) the two enumerations of a two-entry map give maps that differ at key 0: the well-formedness
    condition of the classifier ("no expression reads an object the loop writes") cannot be dropped *)
Example reading_the_written_map_is_order_dependent :
  let t := TStore "m" (E "len(m)" ["m"] ["len"]) (E "k" ["k"] []) in
  let st0 := {| st_maps := []; st_slices := [] |} in
  match run_loop sum_evaluator t "k" "_" [] [(5%N, 0%N); (7%N, 0%N)] st0, run_loop sum_evaluator t "k" "_" [] [(7%N, 0%N); (5%N, 0%N)] st0 with
  | RCont x, RCont y => mlookup N.eqb 0%N (get_map "m" x) = Some 5%N /\ mlookup N.eqb 0%N (get_map "m" y) = Some 7%N
  | _, _ => False
  end.
Proof. vm_compute. split; reflexivity. Qed.
Print Assumptions reading_the_written_map_is_order_dependent.

(** a classified loop run under the same evaluator: the copies differ as lists, agree as maps *)
Example classified_loop_concrete :
  let t := TStore "dup" (E "k" ["k"] []) (E "v" ["v"] []) in
  let st0 := {| st_maps := []; st_slices := [] |} in
  match run_loop sum_evaluator t "k" "v" [] [(1%N, 10%N); (2%N, 20%N)] st0, run_loop sum_evaluator t "k" "v" [] [(2%N, 20%N); (1%N, 10%N)] st0 with
  | RCont x, RCont y =>
      get_map "dup" x <> get_map "dup" y /\
      forallb (fun k => match mlookup N.eqb k (get_map "dup" x), mlookup N.eqb k (get_map "dup" y) with
                        | Some a, Some b => N.eqb a b | None, None => true | _, _ => false end) [0%N; 1%N; 2%N; 3%N] = true
  | _, _ => False
  end.
Proof. vm_compute. split; [discriminate|reflexivity]. Qed.
Print Assumptions classified_loop_concrete.
